//@inject src/vdaf/prio3.rs
//@harness p3_verify_init_proof_slices | bounded(2 proofs, query_rand_len 2, no joint randomness, leader share; element stream = 1,2,3,.. via the Prng::get contract stub) | Prio3::verify_init hands proof p exactly its own blocks: proofs_share[p*proof_len..(p+1)*proof_len], query_rands[p*query_rand_len..(p+1)*query_rand_len]; the verifier share is the concatenation of the per-proof verifiers; state records agg_id and verifiers_len = verifier_len * num_proofs
//@harness p3_verify_init_leader_share_guards | bounded(proofs_share lengths 0..=3 against proof_len*num_proofs = 2; joint-randomness type with and without a blind) | Prio3::verify_init: a leader share whose proof share has the wrong length, or that lacks the joint-randomness blind its type needs, gives Err - never a panic
#[cfg(kani)]
#[allow(static_mut_refs, dead_code)]
mod verif_c01_prio3 {
    use super::verif_sym::*;
    use super::*;
    use crate::field::verif_field_util::*;
    use crate::flp::{Flp, FlpError, Gadget};
    use crate::verif_common::*;

    // contract stub of Prng::get (C11): the k-th element drawn (over all streams) is the field element k
    pub static mut GET_CALLS: usize = 0;
    fn prng_get_counter<F: crate::field::FieldElement, S: rand::Rng>(_p: &mut crate::prng::Prng<F, S>) -> F {
        let k = unsafe { GET_CALLS += 1; GET_CALLS };
        let mut x = F::zero();
        let mut i = 0;
        while i < 8 { if i < k { x += F::one(); } i += 1; }
        x
    }

    /// a Type whose query() records what it is handed (first proof element, the two query-randomness elements)
    #[derive(Clone, Debug, PartialEq, Eq)]
    struct RecType { jr: usize }
    static mut Q_CALLS: usize = 0;
    static mut Q_PROOF0: [u64; 4] = [0; 4];
    static mut Q_RAND: [(u64, u64); 4] = [(0, 0); 4];
    impl Flp for RecType {
        type Field = Field64;
        fn gadget(&self) -> Vec<Box<dyn Gadget<Field64>>> { Vec::new() }
        fn num_gadgets(&self) -> usize { 0 }
        fn valid(&self, _: &mut Vec<Box<dyn Gadget<Field64>>>, _: &[Field64], _: &[Field64], _: usize) -> Result<Vec<Field64>, FlpError> { Ok(Vec::new()) }
        fn input_len(&self) -> usize { 1 }
        fn proof_len(&self) -> usize { 1 }
        fn verifier_len(&self) -> usize { 1 }
        fn joint_rand_len(&self) -> usize { self.jr }
        fn eval_output_len(&self) -> usize { 1 }
        fn prove_rand_len(&self) -> usize { 1 }
        fn query_rand_len(&self) -> usize { 2 }
        fn prove(&self, _i: &[Field64], _p: &[Field64], _j: &[Field64]) -> Result<Vec<Field64>, FlpError> { Ok(vec![Field64::zero()]) }
        fn query(&self, input: &[Field64], proof: &[Field64], query_rand: &[Field64], joint_rand: &[Field64], _n: usize) -> Result<Vec<Field64>, FlpError> {
            if input.len() != 1 || proof.len() != 1 || query_rand.len() != 2 || joint_rand.len() != self.jr { return Err(FlpError::Query(String::new())); }
            unsafe { let k = Q_CALLS; Q_CALLS += 1; if k < 4 { Q_PROOF0[k] = raw64(proof[0]); Q_RAND[k] = (raw64(query_rand[0]), raw64(query_rand[1])); } }
            Ok(vec![proof[0]])
        }
        fn decide(&self, _v: &[Field64]) -> Result<bool, FlpError> { Ok(true) }
    }
    impl Type for RecType {
        type Measurement = u8;
        type AggregateResult = u8;
        fn encode_measurement(&self, _m: &u8) -> Result<Vec<Field64>, FlpError> { Ok(vec![Field64::zero()]) }
        fn truncate(&self, input: Vec<Field64>) -> Result<Vec<Field64>, FlpError> { Ok(input) }
        fn decode_result(&self, _d: &[Field64], _n: usize) -> Result<u8, FlpError> { Ok(0) }
        fn output_len(&self) -> usize { 1 }
    }
    fn one_times(k: u64) -> u64 { let mut x = Field64::zero(); let mut i = 0; while i < 8 { if i < k { x += Field64::one(); } i += 1; } raw64(x) }

    #[kani::proof]
    #[kani::unwind(40)]
    #[kani::stub(<crate::fp::FP64 as crate::fp::FieldOps<u64>>::mul, crate::verif_common::mul64_id_stub)]
    #[kani::stub(alloc::fmt::format, crate::verif_common::format_stub)]
    #[kani::stub(crate::prng::Prng::get, prng_get_counter)]
    fn p3_verify_init_proof_slices() {
        let vdaf: Prio3<RecType, RecXof, 16> = Prio3 { num_aggregators: 2, num_proofs: 2, algorithm_id: kani::any(), typ: RecType { jr: 0 }, phantom: PhantomData };
        let (m, x0, x1) = (any64(), any64(), any64());
        let share = Prio3InputShare::<Field64, 16>::Leader { measurement_share: vec![m], proofs_share: vec![x0, x1], joint_rand_blind: None };
        let public = Prio3PublicShare::<16> { joint_rand_parts: None };
        unsafe { GET_CALLS = 0; Q_CALLS = 0; }
        let r = vdaf.verify_init(&[3u8; 16], b"c", 0, &(), &[7u8; 16], &public, &share);
        match &r {
            Ok((st, vs)) => {
                assert!(unsafe { Q_CALLS } == 2);
                // proof p gets ITS proof block and ITS block of the query randomness (stream elements 1,2 | 3,4)
                assert!(unsafe { Q_PROOF0[0] } == raw64(x0) && unsafe { Q_PROOF0[1] } == raw64(x1));
                assert!(unsafe { Q_RAND[0] } == (one_times(1), one_times(2)) && unsafe { Q_RAND[1] } == (one_times(3), one_times(4)));
                assert!(vs.verifiers.len() == 2 && raw64(vs.verifiers[0]) == raw64(x0) && raw64(vs.verifiers[1]) == raw64(x1));
                assert!(st.agg_id == 0 && st.verifiers_len == 2 && st.joint_rand_seed.is_none() && vs.joint_rand_part.is_none());
            }
            Err(_) => assert!(false),
        }
        kani::cover!(r.is_ok());
        forget(r); forget(share); forget(public); forget(vdaf);
    }

    #[kani::proof]
    #[kani::unwind(40)]
    #[kani::stub(<crate::fp::FP64 as crate::fp::FieldOps<u64>>::mul, crate::verif_common::mul64_id_stub)]
    #[kani::stub(alloc::fmt::format, crate::verif_common::format_stub)]
    #[kani::stub(crate::prng::Prng::get, prng_get_counter)]
    fn p3_verify_init_leader_share_guards() {
        let jr: usize = kani::any();
        kani::assume(jr <= 1);
        let vdaf: Prio3<RecType, RecXof, 16> = Prio3 { num_aggregators: 2, num_proofs: 2, algorithm_id: 0, typ: RecType { jr }, phantom: PhantomData };
        let x = any64();
        let k: u8 = kani::any();
        kani::assume(k < 4);
        let proofs_share = match k { 0 => vec![], 1 => vec![x], 2 => vec![x, x], _ => vec![x, x, x] };
        let blind: bool = kani::any();
        let share = Prio3InputShare::<Field64, 16>::Leader { measurement_share: vec![x], proofs_share, joint_rand_blind: if blind { Some(Seed::from_bytes([1u8; 16])) } else { None } };
        let public = Prio3PublicShare::<16> { joint_rand_parts: if jr == 1 { Some(vec![Seed::from_bytes([0u8; 16]), Seed::from_bytes([0u8; 16])]) } else { None } };
        unsafe { GET_CALLS = 0; Q_CALLS = 0; }
        let r = vdaf.verify_init(&[3u8; 16], b"c", 0, &(), &[7u8; 16], &public, &share);
        // no panic on any path; a malformed share is an error
        if k != 2 || (jr == 1 && !blind) { assert!(r.is_err()); }
        kani::cover!(r.is_ok());
        kani::cover!(r.is_err());
        forget(r); forget(share); forget(public); forget(vdaf);
    }
}
