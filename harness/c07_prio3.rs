//@inject src/vdaf/prio3.rs
//@harness p3c_input_share_leader | bounded(Prio3Count; lengths 0, L-1, L, L+1) | Prio3InputShare leader decoder total; accepted strings re-encode identically; encoded_len == bytes produced; wrong length => Err
//@harness p3c_input_share_helper | bounded(Prio3Count; lengths 0, L-1, L, L+1) | Prio3InputShare helper: same contract
//@harness p3c_public_share | bounded(Prio3Count) | Prio3PublicShare (no joint randomness): only the empty string accepted
//@harness p3c_verify_state | bounded(Prio3Count; lengths 0, L-1, L, L+1) | Prio3VerifyState leader/helper: same contract
//@harness p3c_verifier_share_msg | bounded(Prio3Count; lengths 0, L-1, L, L+1) | Prio3VerifierShare / Prio3VerifierMessage: same contract
//@harness p3c_output_agg_share | bounded(Prio3Count; lengths 0, L-1, L, L+1) | OutputShare / AggregateShare with Prio3 decoding parameter: same contract
//@harness p3c_verify_state_derived_fields | bounded(num_proofs in {1, 2, 3, 255}) | Prio3VerifyState::decode_with_param (helper state): the fields that are NOT on the wire are recomputed from the decoding parameter: verifiers_len == verifier_len() * num_proofs, agg_id as given, no joint-randomness seed for a type without joint randomness; the seed bytes are the wire bytes
//@harness prio3_bad_agg_id_decode | complete | decoding an input share / verify state with agg_id >= num_aggregators => Err for every usize agg_id
#[cfg(kani)]
mod verif_c07_prio3 {
    use super::*;
    use crate::codec::verif_c07::*;
    use crate::flp::Flp;
    use crate::verif_common::*;

    const MAXB: usize = 72;

    macro_rules! count_h {
        ($name:ident, |$vdaf:ident, $b:ident| $body:block) => {
            #[kani::proof]
            #[kani::unwind(50)]
            #[kani::stub(<crate::fp::FP64 as crate::fp::FieldOps<u64>>::mul, crate::verif_common::mul64_id_stub)]
            fn $name() {
                let $vdaf = Prio3::<Count<Field64>, XofTurboShake128, 32> { num_aggregators: 2, num_proofs: 1, algorithm_id: 1, typ: Count::new(), phantom: PhantomData };
                let $b: [u8; MAXB] = kani::any();
                $body;
                forget($vdaf);
            }
        };
    }
    fn rb_seed<const N: usize>(s: &Seed<N>) -> Seed<N> { Seed::from_bytes(*s.as_ref()) }
    fn rb_oseed<const N: usize>(s: &Option<Seed<N>>) -> Option<Seed<N>> { match s { Some(s) => Some(rb_seed(s)), None => None } }
    // const generics: IL input_len, PL proofs length, OL output_len, VL verifiers length, NA number of joint rand parts
    fn rb_input_share<F: FieldElement, const IL: usize, const PL: usize>(v: &Prio3InputShare<F, 32>) -> Option<Prio3InputShare<F, 32>> {
        Some(match v {
            Prio3InputShare::Leader { measurement_share, proofs_share, joint_rand_blind } =>
                Prio3InputShare::Leader { measurement_share: rebuild_n::<F, IL>(measurement_share), proofs_share: rebuild_n::<F, PL>(proofs_share), joint_rand_blind: rb_oseed(joint_rand_blind) },
            Prio3InputShare::Helper { meas_and_proofs_share, joint_rand_blind } =>
                Prio3InputShare::Helper { meas_and_proofs_share: rb_seed(meas_and_proofs_share), joint_rand_blind: rb_oseed(joint_rand_blind) },
        })
    }
    fn rb_state<F: FieldElement, const OL: usize>(v: &Prio3VerifyState<F, 32>) -> Option<Prio3VerifyState<F, 32>> {
        Some(Prio3VerifyState {
            share: match &v.share { Share::Leader(d) => Share::Leader(rebuild_n::<F, OL>(d)), Share::Helper(s) => Share::Helper(rb_seed(s)) },
            joint_rand_seed: rb_oseed(&v.joint_rand_seed), agg_id: v.agg_id, verifiers_len: v.verifiers_len })
    }
    fn rb_vshare<F: FieldElement, const VL: usize>(v: &Prio3VerifierShare<F, 32>) -> Option<Prio3VerifierShare<F, 32>> {
        Some(Prio3VerifierShare { verifiers: rebuild_n::<F, VL>(&v.verifiers), joint_rand_part: rb_oseed(&v.joint_rand_part) })
    }
    fn rb_pub<const NA: usize>(v: &Prio3PublicShare<32>) -> Option<Prio3PublicShare<32>> {
        Some(Prio3PublicShare { joint_rand_parts: match &v.joint_rand_parts { None => None, Some(ps) => { assert!(ps.len() == NA); Some(core::array::from_fn::<Seed<32>, NA, _>(|i| rb_seed(&ps[i])).to_vec()) } } })
    }

    // Prio3Count: input_len 1, proof_len 5, verifier_len 4, output_len 1 (asserted against the real accessors)
    count_h!(p3c_input_share_leader, |vdaf, b| { assert!(vdaf.typ.input_len() == 1 && vdaf.typ.proof_len() == 5); let ok = for_lengths(&b, 48, |s| canon_check_rb::<_, Prio3InputShare<Field64, 32>>(&(&vdaf, 0usize), s, rb_input_share::<Field64, 1, 5>)); kani::cover!(ok); });
    count_h!(p3c_input_share_helper, |vdaf, b| { let ok = for_lengths(&b, 32, |s| canon_check_rb::<_, Prio3InputShare<Field64, 32>>(&(&vdaf, 1usize), s, rb_input_share::<Field64, 1, 5>)); kani::cover!(ok); });
    count_h!(p3c_public_share, |vdaf, b| { let ok = for_lengths(&b, 0, |s| canon_check_rb::<_, Prio3PublicShare<32>>(&vdaf, s, rb_pub::<0>)); kani::cover!(ok); });
    count_h!(p3c_verify_state, |vdaf, b| {
        assert!(vdaf.typ.output_len() == 1);
        let l: bool = kani::any();
        if l { let ok = for_lengths(&b, 8, |s| canon_check_rb::<_, Prio3VerifyState<Field64, 32>>(&(&vdaf, 0usize), s, rb_state::<Field64, 1>)); kani::cover!(ok); }
        else { let ok = for_lengths(&b, 32, |s| canon_check_rb::<_, Prio3VerifyState<Field64, 32>>(&(&vdaf, 1usize), s, rb_state::<Field64, 1>)); kani::cover!(ok); }
    });
    count_h!(p3c_verifier_share_msg, |vdaf, b| {
        assert!(vdaf.typ.verifier_len() == 4);
        let st = Prio3VerifyState::<Field64, 32> { share: Share::Helper(Seed::from_bytes([0; 32])), joint_rand_seed: None, agg_id: 1, verifiers_len: 4 };
        let ok = for_lengths(&b, 32, |s| canon_check_rb::<_, Prio3VerifierShare<Field64, 32>>(&st, s, rb_vshare::<Field64, 4>)); kani::cover!(ok);
        let ok2 = for_lengths(&b, 0, |s| canon_check::<_, Prio3VerifierMessage<32>>(&st, s)); kani::cover!(ok2);
        forget(st);
    });
    count_h!(p3c_output_agg_share, |vdaf, b| {
        let ok = for_lengths(&b, 8, |s| canon_check_rb::<_, OutputShare<Field64>>(&(&vdaf, &()), s, |v| Some(OutputShare::from(rebuild_n::<Field64, 1>(v.as_ref()))))); kani::cover!(ok);
        let ok2 = for_lengths(&b, 8, |s| canon_check_rb::<_, AggregateShare<Field64>>(&(&vdaf, &()), s, |v| Some(AggregateShare::from(rebuild_n::<Field64, 1>(v.as_ref()))))); kani::cover!(ok2);
    });

    #[kani::proof]
    #[kani::unwind(4)]
    fn prio3_bad_agg_id_decode() {
        let vdaf = Prio3::new_count(2).unwrap();
        let agg_id: usize = kani::any();
        kani::assume(agg_id >= 2);
        let b = [0u8; 48];
        let r = Prio3InputShare::<Field64, 32>::get_decoded_with_param(&(&vdaf, agg_id), &b[..]);
        assert!(r.is_err());
        let r2 = Prio3VerifyState::<Field64, 32>::get_decoded_with_param(&(&vdaf, agg_id), &b[..32]);
        assert!(r2.is_err());
        kani::cover!(agg_id == usize::MAX);
        forget(r); forget(r2); forget(vdaf);
    }

    #[kani::proof]
    #[kani::unwind(36)]
    fn p3c_verify_state_derived_fields() {
        let k: u8 = kani::any();
        kani::assume(k < 4);
        let np: u8 = match k { 0 => 1, 1 => 2, 2 => 3, _ => 255 };      // concrete per path (a symbolic factor in the length arithmetic costs minutes)
        let vdaf = Prio3::<Count<Field64>, XofTurboShake128, 32> { num_aggregators: 3, num_proofs: np, algorithm_id: 1, typ: Count::new(), phantom: PhantomData };
        let b: [u8; 32] = kani::any();
        let agg_id: usize = kani::any();
        kani::assume(agg_id == 1 || agg_id == 2);
        let r = Prio3VerifyState::<Field64, 32>::get_decoded_with_param(&(&vdaf, agg_id), &b[..]);
        match &r {
            Ok(st) => {
                assert!(st.verifiers_len == vdaf.typ.verifier_len() * (np as usize));
                assert!(st.agg_id as usize == agg_id && st.joint_rand_seed.is_none());
                match &st.share { Share::Helper(seed) => assert!(seed.as_ref()[..] == b[..]), _ => assert!(false) }
            }
            Err(_) => assert!(false),
        }
        kani::cover!(np == 255);
        forget(r); forget(vdaf);
    }
}
