//@inject src/vdaf.rs
//@harness aggshare_merge_accumulate64 | bounded(len<=2) | AggregateShare<Field64>::{merge,accumulate}: length mismatch => Err and *self unchanged; else self[i] == old[i] + other[i]
//@harness aggshare_merge_accumulate128 | bounded(len<=2) | AggregateShare<Field128>::{merge,accumulate}: same contract
//@harness aggregate_fold64 | bounded(shares<=3,len<=2) | Aggregator::aggregate (provided method) == fold of accumulate from aggregate_init; any accumulate error => Err
#[cfg(kani)]
mod verif_c13_vdaf {
    use super::*;
    use crate::field::verif_field_util::*;
    use crate::field::{Field128, Field64};
    use crate::verif_common::*;

    macro_rules! agg {
        ($name:ident, $any:ident, $raw:ident, $f:ident) => {
            #[kani::proof]
            #[kani::unwind(4)]
            fn $name() {
                let (a0, a1, b0, b1) = ($any(), $any(), $any(), $any());
                let k: u8 = kani::any();
                kani::assume(k < 3);
                // concrete lengths per branch (symbolic-length Vecs are intractable for CBMC); no clones
                let (la, lb) = match k { 0 => (2usize, 2usize), 1 => (2, 1), _ => (1, 2) };
                let va: Vec<$f> = if la == 2 { vec![a0, a1] } else { vec![a0] };
                let vb: Vec<$f> = if lb == 2 { vec![b0, b1] } else { vec![b0] };
                let use_merge: bool = kani::any();
                let mut s = AggregateShare::<$f>::from(va);
                let r = if use_merge {
                    let o = AggregateShare::<$f>::from(vb);
                    let r = s.merge(&o);
                    forget(o);
                    r
                } else {
                    let o = OutputShare::<$f>::from(vb);
                    let r = s.accumulate(&o);
                    forget(o);
                    r
                };
                assert!(s.0.len() == la);
                if la == lb {
                    assert!(r.is_ok());
                    assert!($raw(s.0[0]) == $raw(a0 + b0) && $raw(s.0[1]) == $raw(a1 + b1));
                } else {
                    assert!(r.is_err());
                    assert!($raw(s.0[0]) == $raw(a0));
                    if la == 2 { assert!($raw(s.0[1]) == $raw(a1)); }
                }
                kani::cover!(r.is_ok());
                kani::cover!(r.is_err());
                forget(r);
                forget(s);
            }
        };
    }
    agg!(aggshare_merge_accumulate64, any64, raw64, Field64);
    agg!(aggshare_merge_accumulate128, any128, raw128, Field128);

    // ---- Aggregator::aggregate (provided method), instantiated with a harness-defined aggregator (R5)
    #[derive(Clone, Debug)]
    struct VecVdaf(usize);
    impl Vdaf for VecVdaf {
        type Measurement = ();
        type AggregateResult = ();
        type AggregationParam = ();
        type PublicShare = ();
        type InputShare = ();
        type OutputShare = OutputShare<Field64>;
        type AggregateShare = AggregateShare<Field64>;
        fn algorithm_id(&self) -> u32 { 0 }
        fn num_aggregators(&self) -> usize { 2 }
    }
    impl<'a> ParameterizedDecode<(&'a VecVdaf, &'a ())> for OutputShare<Field64> {
        fn decode_with_param(_: &(&'a VecVdaf, &'a ()), _: &mut std::io::Cursor<&[u8]>) -> Result<Self, CodecError> { Ok(OutputShare::from(vec![])) }
    }
    impl<'a> ParameterizedDecode<(&'a VecVdaf, &'a ())> for AggregateShare<Field64> {
        fn decode_with_param(_: &(&'a VecVdaf, &'a ()), _: &mut std::io::Cursor<&[u8]>) -> Result<Self, CodecError> { Ok(AggregateShare::from(vec![])) }
    }
    impl Aggregator<16, 16> for VecVdaf {
        type VerifyState = ();
        type VerifierShare = ();
        type VerifierMessage = ();
        fn verify_init(&self, _: &[u8; 16], _: &[u8], _: usize, _: &(), _: &[u8; 16], _: &(), _: &()) -> Result<((), ()), VdafError> { Ok(((), ())) }
        fn verifier_shares_to_message<M: IntoIterator<Item = ()>>(&self, _: &[u8], _: &(), _: M) -> Result<(), VdafError> { Ok(()) }
        fn verify_next(&self, _: &[u8], _: (), _: ()) -> Result<VerifyTransition<Self, 16, 16>, VdafError> { Ok(VerifyTransition::Finish(OutputShare::from(vec![]))) }
        fn aggregate_init(&self, _: &()) -> AggregateShare<Field64> { AggregateShare::from(vec![<Field64 as crate::field::FieldElement>::zero(); self.0]) }
        fn is_agg_param_valid(_: &(), _: &[()]) -> bool { true }
    }

    #[kani::proof]
    #[kani::unwind(5)]
    fn aggregate_fold64() {
        let (x0, x1, y0, y1, z0, z1) = (any64(), any64(), any64(), any64(), any64(), any64());
        let k: u8 = kani::any();
        kani::assume(k < 4);
        let shares: Vec<OutputShare<Field64>> = match k {
            0 => vec![],
            1 => vec![OutputShare::from(vec![x0, x1])],
            2 => vec![OutputShare::from(vec![x0, x1]), OutputShare::from(vec![y0, y1]), OutputShare::from(vec![z0, z1])],
            _ => vec![OutputShare::from(vec![x0, x1]), OutputShare::from(vec![y0])],   // wrong length in the middle
        };
        let r = VecVdaf(2).aggregate(&(), shares);
        match &r {
            Ok(s) => {
                assert!(k != 3);
                assert!(s.0.len() == 2);
                let zero = <Field64 as crate::field::FieldElement>::zero();
                let (w0, w1) = match k { 0 => (zero, zero), 1 => (zero + x0, zero + x1), _ => (zero + x0 + y0 + z0, zero + x1 + y1 + z1) };
                assert!(raw64(s.0[0]) == raw64(w0) && raw64(s.0[1]) == raw64(w1));
            }
            Err(_) => assert!(k == 3),
        }
        kani::cover!(r.is_ok() && k == 2);
        kani::cover!(r.is_err());
        forget(r);
    }
}
