//@inject src/vdaf/prio2.rs
//@harness prio2c_verifier_share | bounded(lengths 0, 11, 12, 13) | Prio2VerifierShare: decoder total; an accepted string (three canonical field elements) re-encodes to itself; encoded_len == 12 == bytes produced; short / long input => Err
//@harness prio2c_state_helper | bounded(lengths 0, 31, 32, 33) | Prio2VerifierState / input Share for the helper (a 32-byte seed): same contract; role derived from agg_id
//@harness prio2c_state_leader | bounded(input_len 2: lengths 0, 7, 8, 9) | Prio2VerifierState for the leader (input_len field elements): same contract
//@harness prio2c_input_share_leader_len | complete | Share<FieldPrio2,32> leader decoding parameter is proof_length(input_len) elements, helper is a seed; agg_id > 1 => Err, for every usize agg_id
#[cfg(kani)]
#[allow(dead_code)]
mod verif_c19_prio2_codec {
    use super::*;
    use crate::codec::verif_c07::*;
    use crate::field::verif_field_util::*;
    use crate::verif_common::*;

    fn rb_share<const N: usize>(v: &Share<FieldPrio2, 32>) -> Share<FieldPrio2, 32> {
        match v { Share::Leader(d) => Share::Leader(rebuild_n::<FieldPrio2, N>(d)), Share::Helper(s) => Share::Helper(Seed::from_bytes(*s.as_ref())) }
    }

    #[kani::proof]
    #[kani::unwind(40)]
    #[kani::stub(<crate::fp::FP32 as crate::fp::ops::FieldOps<u32>>::mul, crate::verif_common::mul32_id_stub)]
    fn prio2c_verifier_share() {
        let b: [u8; 16] = kani::any();
        let st = Prio2VerifierState(Share::Helper(Seed::from_bytes([0u8; 32])));
        let ok = for_lengths(&b, 12, |s| canon_check_rb::<_, Prio2VerifierShare>(&st, s, |v| Some(Prio2VerifierShare(v2_server::VerificationMessage { f_r: v.0.f_r, g_r: v.0.g_r, h_r: v.0.h_r }))));
        kani::cover!(ok);
        forget(st);
    }

    #[kani::proof]
    #[kani::unwind(40)]
    #[kani::stub(<crate::fp::FP32 as crate::fp::ops::FieldOps<u32>>::mul, crate::verif_common::mul32_id_stub)]
    fn prio2c_state_helper() {
        let b: [u8; 40] = kani::any();
        let vdaf = Prio2 { input_len: 2 };
        let ok = for_lengths(&b, 32, |s| canon_check_rb::<_, Prio2VerifierState>(&(&vdaf, 1usize), s, |v| Some(Prio2VerifierState(rb_share::<2>(&v.0)))));
        kani::cover!(ok);
        let ok2 = for_lengths(&b, 32, |s| canon_check_rb::<_, Share<FieldPrio2, 32>>(&(&vdaf, 1usize), s, |v| Some(rb_share::<9>(v))));
        kani::cover!(ok2);
    }

    #[kani::proof]
    #[kani::unwind(40)]
    #[kani::stub(<crate::fp::FP32 as crate::fp::ops::FieldOps<u32>>::mul, crate::verif_common::mul32_id_stub)]
    fn prio2c_state_leader() {
        let b: [u8; 16] = kani::any();
        let vdaf = Prio2 { input_len: 2 };
        let ok = for_lengths(&b, 8, |s| canon_check_rb::<_, Prio2VerifierState>(&(&vdaf, 0usize), s, |v| Some(Prio2VerifierState(rb_share::<2>(&v.0)))));
        kani::cover!(ok);
    }

    #[kani::proof]
    #[kani::unwind(4)]
    #[kani::stub(alloc::fmt::format, crate::verif_common::format_stub)]
    fn prio2c_input_share_leader_len() {
        let vdaf = Prio2 { input_len: 2 };
        let agg_id: usize = kani::any();
        kani::assume(agg_id > 1);
        let b = [0u8; 40];
        let r = Share::<FieldPrio2, 32>::get_decoded_with_param(&(&vdaf, agg_id), &b[..36]);
        assert!(r.is_err());
        // proof_length(2) == 2 + 3 + 4 == 9 elements == 36 bytes for the leader
        assert!(proof_length(2) == 9);
        kani::cover!(agg_id == usize::MAX);
        forget(r);
    }
}
