//@inject src/flp/types.rs
//@harness range_int_decode_len_edges | bounded(Field64; encoded lengths 0, 1, 2, 63, 64, 65, 66) | decode_range_checked_int (the linear decoder of the last_weight bit decomposition used by Sum/SumVec/Average/L1BoundSum truncate and circuits): accepts EVERY encoded length up to the bit width of the field (64 elements for Field64: a bound at the top bit-width edge such as 2^63 or p-1) and refuses longer ones with an error, never a panic
//@harness range_int_encode_len_edges | bounded(Field64; bits 1, 2, 63, 64) | encode_range_checked_int produces exactly `bits` elements for every admissible bit count up to the bit width of the field, for every value <= max, and never panics
#[cfg(kani)]
#[allow(dead_code)]
mod verif_c01_range_int {
    use super::*;
    use crate::field::verif_field_util::*;
    use crate::field::Field64;
    use crate::verif_common::*;

    fn dec<const L: usize>(want_ok: bool) {
        let x = any64();
        let w = any64();
        let input = [x; L];
        let r = decode_range_checked_int::<Field64>(&input[..], w);
        assert!(r.is_ok() == want_ok);
        forget(r);
    }

    #[kani::proof]
    #[kani::unwind(70)]
    #[kani::stub(<crate::fp::FP64 as crate::fp::ops::FieldOps<u64>>::mul, crate::verif_common::mul64_id_stub)]
    #[kani::stub(alloc::fmt::format, crate::verif_common::format_stub)]
    fn range_int_decode_len_edges() {
        let k: u8 = kani::any();
        kani::assume(k < 7);
        match k { 0 => dec::<0>(true), 1 => dec::<1>(true), 2 => dec::<2>(true), 3 => dec::<63>(true), 4 => dec::<64>(true), 5 => dec::<65>(false), _ => dec::<66>(false) }
        kani::cover!(k == 4);
        kani::cover!(k == 5);
    }

    fn enc(bits: usize) {
        // max with exactly `bits` bits; last_weight = max - (2^(bits-1) - 1)
        let max: u64 = kani::any();
        kani::assume(max >= 1 && max < <crate::fp::FP64 as crate::fp::FieldParameters<u64>>::PRIME);
        kani::assume(64 - max.leading_zeros() as usize == bits);
        let last_weight = max - ((1u64 << (bits - 1)) - 1);
        let v: u64 = kani::any();
        kani::assume(v <= max);
        let mut out: Vec<Field64> = Vec::with_capacity(80);
        let r = encode_range_checked_int::<Field64>(v, bits, last_weight, &mut out);
        assert!(r.is_ok());
        assert!(out.len() == bits);
        forget(r); forget(out);
    }

    #[kani::proof]
    #[kani::unwind(70)]
    #[kani::stub(<crate::fp::FP64 as crate::fp::ops::FieldOps<u64>>::mul, crate::verif_common::mul64_id_stub)]
    #[kani::stub(alloc::fmt::format, crate::verif_common::format_stub)]
    fn range_int_encode_len_edges() {
        let k: u8 = kani::any();
        kani::assume(k < 4);
        match k { 0 => enc(1), 1 => enc(2), 2 => enc(63), _ => enc(64) }
        kani::cover!(k == 3);
    }
}
