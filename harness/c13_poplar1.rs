//@inject src/vdaf/poplar1.rs
//@harness fieldvec_merge_accumulate | bounded(len<=2) | Poplar1FieldVec::{merge,accumulate}: Inner-vs-Leaf or length mismatch => Err and *self unchanged; Inner+Inner => pointwise Field64 sum; Leaf+Leaf of equal length => Ok with unchanged length (Field255 element sum is fiat-crypto, assumed)
//@harness fieldvec_zero_identity | bounded(len<=2) | Poplar1FieldVec::zero(is_leaf,len) has the right variant/length and is the identity of accumulate on Inner vectors
#[cfg(kani)]
mod verif_c13_poplar1 {
    use super::*;
    use crate::field::verif_field_util::*;
    use crate::verif_common::*;

    #[kani::proof]
    #[kani::unwind(4)]
    fn fieldvec_merge_accumulate() {
        let (a0, a1, b0, b1) = (any64(), any64(), any64(), any64());
        let k: u8 = kani::any();
        kani::assume(k < 6);
        let z = <Field255 as FieldElement>::zero();
        let o = <Field255 as FieldElement>::one();
        // 0: inner2+inner2  1: inner2+inner1  2: inner1+leaf1  3: leaf1+inner1  4: leaf1+leaf1  5: leaf2+leaf1
        let mut left = match k {
            0 | 1 => Poplar1FieldVec::Inner(vec![a0, a1]),
            2 => Poplar1FieldVec::Inner(vec![a0]),
            3 | 4 => Poplar1FieldVec::Leaf(vec![o]),
            _ => Poplar1FieldVec::Leaf(vec![o, z]),
        };
        let right = match k {
            0 => Poplar1FieldVec::Inner(vec![b0, b1]),
            1 | 3 => Poplar1FieldVec::Inner(vec![b0]),
            _ => Poplar1FieldVec::Leaf(vec![o]),
        };
        let use_merge: bool = kani::any();
        let r = if use_merge { left.merge(&right) } else { left.accumulate(&right) };
        match (&left, k) {
            (Poplar1FieldVec::Inner(v), 0) => {
                assert!(r.is_ok());
                assert!(v.len() == 2 && raw64(v[0]) == raw64(a0 + b0) && raw64(v[1]) == raw64(a1 + b1));
            }
            (Poplar1FieldVec::Inner(v), 1) => {
                assert!(r.is_err());
                assert!(v.len() == 2 && raw64(v[0]) == raw64(a0) && raw64(v[1]) == raw64(a1));
            }
            (Poplar1FieldVec::Inner(v), 2) => {
                assert!(r.is_err());
                assert!(v.len() == 1 && raw64(v[0]) == raw64(a0));
            }
            (Poplar1FieldVec::Leaf(v), 3) => { assert!(r.is_err()); assert!(v.len() == 1); }
            (Poplar1FieldVec::Leaf(v), 4) => { assert!(r.is_ok()); assert!(v.len() == 1); }
            (Poplar1FieldVec::Leaf(v), 5) => { assert!(r.is_err()); assert!(v.len() == 2); }
            _ => assert!(false),   // the variant of *self never changes
        }
        kani::cover!(r.is_ok());
        kani::cover!(r.is_err());
        forget(r); forget(left); forget(right);
    }

    #[kani::proof]
    #[kani::unwind(4)]
    fn fieldvec_zero_identity() {
        let (b0, b1) = (any64(), any64());
        let is_leaf: bool = kani::any();
        let k: u8 = kani::any();
        kani::assume(k <= 2);
        let len: usize = match k { 0 => 0, 1 => 1, _ => 2 };     // concrete allocation sizes per branch
        let mut zv = match k { 0 => Poplar1FieldVec::zero(is_leaf, 0), 1 => Poplar1FieldVec::zero(is_leaf, 1), _ => Poplar1FieldVec::zero(is_leaf, 2) };
        match &zv {
            Poplar1FieldVec::Inner(v) => { assert!(!is_leaf && v.len() == len); let mut i = 0; while i < 2 { if i < len { assert!(raw64(v[i]) == 0); } i += 1; } }
            Poplar1FieldVec::Leaf(v) => { assert!(is_leaf && v.len() == len); }
        }
        if !is_leaf && len == 2 {
            let other = Poplar1FieldVec::Inner(vec![b0, b1]);
            let r = zv.accumulate(&other);
            assert!(r.is_ok());
            if let Poplar1FieldVec::Inner(v) = &zv { assert!(raw64(v[0]) == raw64(b0) && raw64(v[1]) == raw64(b1)); } else { assert!(false); }
            forget(r); forget(other);
        }
        kani::cover!(is_leaf && len == 2);
        kani::cover!(!is_leaf && len == 2);
        forget(zv);
    }
}
