//@inject src/vdaf/prio3.rs
//@tolerate __rust_dealloc
//@harness p3_shard_inline_transcripts | bounded(2 aggregators, 1 proof, joint randomness, input_len 1, ctx "c") | EVERY XOF derivation performed inside Prio3::shard_with_random absorbs exactly its specified (seed, tag(usage) || ctx, binder): helper measurement share (seed, MEASUREMENT_SHARE, [agg_id]); joint-randomness parts (blind, JOINT_RAND_PART, [agg_id] || nonce || encoded measurement share) for helper and leader; joint-randomness seed (0^16, JOINT_RAND_SEED, all parts); joint randomness (seed, JOINT_RANDOMNESS, [num_proofs]); prover randomness (seed, PROVE_RANDOMNESS, [num_proofs]); helper proof share (seed, PROOF_SHARE, [num_proofs, agg_id]) - for every sharding randomness, nonce, algorithm id and measurement encoding
//@harness p3_verify_init_inline_transcripts | bounded(helper agg_id 1 of 2 aggregators, 1 proof, joint randomness, input_len 1, ctx "c") | EVERY derivation inside Prio3::verify_init (helper) absorbs its specified transcript: measurement share and proof share from the SAME (seed, usage, ctx, [agg_id] / [num_proofs, agg_id]) the client used, own joint-randomness part (blind, [agg_id] || nonce || encoded share), seed from the corrected parts in aggregator order, joint randomness, and query randomness (verify_key, QUERY_RANDOMNESS, [num_proofs] || nonce)
#[cfg(kani)]
#[allow(static_mut_refs, dead_code)]
mod verif_c18_inline {
    use super::verif_sym::*;
    use super::*;
    use crate::field::verif_field_util::*;
    use crate::verif_common::*;

    pub static mut GET_CALLS: usize = 0;
    fn prng_get_one<F: crate::field::FieldElement, S: rand::Rng>(_p: &mut crate::prng::Prng<F, S>) -> F { unsafe { GET_CALLS += 1; } F::one() }

    /// transcript number `idx` since the last reset == (seed, [VERSION, 0, alg id BE, usage BE] || "c", bind)
    fn expect(idx: usize, seed: &[u8], alg: u32, usage: u16, bind: &[u8]) {
        unsafe {
            assert!(idx < T_INITS && idx < LN);
            let mut i = 0;
            while i < 16 { assert!(L_SEED[idx][i] == seed[i]); i += 1; }
            let id = alg.to_be_bytes();
            assert!(L_DST_LEN[idx] == 9);
            assert!(L_DST[idx][0] == VERSION && L_DST[idx][1] == 0 && L_DST[idx][2] == id[0] && L_DST[idx][3] == id[1] && L_DST[idx][4] == id[2] && L_DST[idx][5] == id[3]);
            assert!(L_DST[idx][6] == (usage >> 8) as u8 && L_DST[idx][7] == usage as u8 && L_DST[idx][8] == b'c');
            assert!(L_BIND_LEN[idx] == bind.len());
            let mut i = 0;
            while i < bind.len() { assert!(L_BIND[idx][i] == bind[i]); i += 1; }
        }
    }
    fn enc(x: Field64) -> [u8; 8] { <[u8; 8]>::from(x) }
    fn cat3(a: &[u8], b: &[u8], c: &[u8]) -> ([u8; 32], usize) {
        let mut out = [0u8; 32]; let mut n = 0;
        let mut i = 0; while i < a.len() { out[n] = a[i]; n += 1; i += 1; }
        let mut i = 0; while i < b.len() { out[n] = b[i]; n += 1; i += 1; }
        let mut i = 0; while i < c.len() { out[n] = c[i]; n += 1; i += 1; }
        (out, n)
    }

    #[kani::proof]
    #[kani::unwind(70)]
    #[kani::stub(<crate::fp::FP64 as crate::fp::FieldOps<u64>>::mul, crate::verif_common::mul64_id_stub)]
    #[kani::stub(alloc::fmt::format, crate::verif_common::format_stub)]
    #[kani::stub(crate::prng::Prng::get, prng_get_one)]
    fn p3_shard_inline_transcripts() {
        let alg: u32 = kani::any();
        let mut vdaf = sym_prio3(2, 1, alg, 1);
        vdaf.typ.prove_rand_len = 1;
        let m = any64();
        unsafe { ENC_MEAS = raw64(m); STREAM_BYTE0 = 0; }
        let random: [u8; 64] = kani::any();
        let nonce: [u8; 16] = kani::any();
        reset_transcript();
        let r = vdaf.shard_with_random(b"c", &0u8, &nonce, &random[..]);
        assert!(r.is_ok());
        assert!(unsafe { T_INITS } == 7);
        let np = [1u8];
        // helper 1: measurement share, joint-randomness part over its (expanded) share = [1]
        expect(0, &random[0..16], alg, DST_MEASUREMENT_SHARE, &[1u8]);
        let (b1, n1) = cat3(&[1u8], &nonce, &enc(Field64::one()));
        expect(1, &random[16..32], alg, DST_JOINT_RAND_PART, &b1[..n1]);
        // leader: joint-randomness part over the leader share = encode(m) - 1
        let (b2, n2) = cat3(&[0u8], &nonce, &enc(m - Field64::one()));
        expect(2, &random[32..48], alg, DST_JOINT_RAND_PART, &b2[..n2]);
        // joint randomness seed from ALL parts (both parts are the all-zero output of the recording XOF here), then the randomness
        expect(3, &[0u8; 16], alg, DST_JOINT_RAND_SEED, &[0u8; 32]);
        expect(4, &[0u8; 16], alg, DST_JOINT_RANDOMNESS, &np);
        expect(5, &random[48..64], alg, DST_PROVE_RANDOMNESS, &np);
        expect(6, &random[0..16], alg, DST_PROOF_SHARE, &[1u8, 1u8]);
        kani::cover!(true);
        forget(r); forget(vdaf);
    }

    #[kani::proof]
    #[kani::unwind(70)]
    #[kani::stub(<crate::fp::FP64 as crate::fp::FieldOps<u64>>::mul, crate::verif_common::mul64_id_stub)]
    #[kani::stub(alloc::fmt::format, crate::verif_common::format_stub)]
    #[kani::stub(crate::prng::Prng::get, prng_get_one)]
    fn p3_verify_init_inline_transcripts() {
        let alg: u32 = kani::any();
        let mut vdaf = sym_prio3(2, 1, alg, 1);
        vdaf.typ.prove_rand_len = 1;
        unsafe { STREAM_BYTE0 = 0; }
        let seed: [u8; 16] = kani::any();
        let blind: [u8; 16] = kani::any();
        let key: [u8; 16] = kani::any();
        let nonce: [u8; 16] = kani::any();
        let lp: [u8; 16] = kani::any();
        let share = Prio3InputShare::<Field64, 16>::Helper { meas_and_proofs_share: Seed::from_bytes(seed), joint_rand_blind: Some(Seed::from_bytes(blind)) };
        let public = Prio3PublicShare::<16> { joint_rand_parts: Some(vec![Seed::from_bytes(lp), Seed::from_bytes([9u8; 16])]) };
        reset_transcript();
        let r = vdaf.verify_init(&key, b"c", 1, &(), &nonce, &public, &share);
        assert!(r.is_ok());
        assert!(unsafe { T_INITS } == 6);
        let np = [1u8];
        expect(0, &seed, alg, DST_MEASUREMENT_SHARE, &[1u8]);              // == client transcript 0
        expect(1, &seed, alg, DST_PROOF_SHARE, &[1u8, 1u8]);               // == client transcript 6
        let (b2, n2) = cat3(&[1u8], &nonce, &enc(Field64::one()));
        expect(2, &blind, alg, DST_JOINT_RAND_PART, &b2[..n2]);            // == client transcript 1
        // corrected parts: the leader's from the public share, then this aggregator's OWN recomputed part (zeros here), never the public one
        let (b3, n3) = cat3(&lp, &[0u8; 16], &[]);
        expect(3, &[0u8; 16], alg, DST_JOINT_RAND_SEED, &b3[..n3]);
        expect(4, &[0u8; 16], alg, DST_JOINT_RANDOMNESS, &np);
        let (b5, n5) = cat3(&np, &nonce, &[]);
        expect(5, &key, alg, DST_QUERY_RANDOMNESS, &b5[..n5]);
        kani::cover!(true);
        forget(r); forget(share); forget(public); forget(vdaf);
    }
}
