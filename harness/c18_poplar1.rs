//@inject src/vdaf/poplar1.rs
//@harness pop_dst_tag | complete | Poplar1::domain_separation_tag(usage) == [VERSION, 0, algorithm id 0x00000006 (BE), usage (BE)] for every usage
//@harness pop_init_prng_transcript | bounded(ctx <= 2 bytes, two binder chunks of 1 and 16 bytes) | Poplar1::init_prng absorbs exactly: seed, dst = tag(usage) || ctx, binder = the binder chunks concatenated in order (every byte of each chunk), for every seed/usage/ctx/chunk contents
#[cfg(kani)]
#[allow(static_mut_refs)]
mod verif_c18_poplar1 {
    use super::*;
    use crate::vdaf::prio3::verif_sym::*;
    use crate::verif_common::*;

    #[kani::proof]
    fn pop_dst_tag() {
        let vdaf: Poplar1<RecXof, 16> = Poplar1 { bits: 4, phantom: PhantomData };
        let usage: u16 = kani::any();
        let t = vdaf.domain_separation_tag(usage);
        let us = usage.to_be_bytes();
        assert!(t == [VERSION, 0, 0, 0, 0, 6, us[0], us[1]]);
        assert!(vdaf.algorithm_id() == 6);
        forget(vdaf);
    }

    #[kani::proof]
    #[kani::unwind(40)]
    #[kani::stub(<crate::fp::FP64 as crate::fp::FieldOps<u64>>::mul, crate::verif_common::mul64_id_stub)]
    fn pop_init_prng_transcript() {
        let vdaf: Poplar1<RecXof, 16> = Poplar1 { bits: 4, phantom: PhantomData };
        let seed: [u8; 16] = kani::any();
        let usage: u16 = kani::any();
        let cb: [u8; 2] = kani::any();
        let k: u8 = kani::any();
        kani::assume(k < 3);
        let ctx: &[u8] = match k { 0 => &cb[..0], 1 => &cb[..1], _ => &cb[..2] };
        let id: [u8; 1] = kani::any();
        let nonce: [u8; 16] = kani::any();
        reset_transcript();
        let prng = vdaf.init_prng::<_, _, Field64>(&seed, usage, ctx, [id.as_slice(), nonce.as_slice()]);
        unsafe {
            assert!(T_INITS == 1 && T_SEED == seed);
            assert!(T_DST_LEN == 8 + ctx.len());
            let us = usage.to_be_bytes();
            assert!(T_DST[0] == VERSION && T_DST[1] == 0 && T_DST[2] == 0 && T_DST[3] == 0 && T_DST[4] == 0 && T_DST[5] == 6 && T_DST[6] == us[0] && T_DST[7] == us[1]);
            let mut i = 0;
            while i < 2 { if i < ctx.len() { assert!(T_DST[8 + i] == ctx[i]); } i += 1; }
            assert!(T_BIND_LEN == 17 && T_BIND[0] == id[0]);
            let mut i = 0;
            while i < 16 { assert!(T_BIND[1 + i] == nonce[i]); i += 1; }
        }
        kani::cover!(ctx.len() == 2);
        forget(prng); forget(vdaf);
    }
}
