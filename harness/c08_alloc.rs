//@inject src/vdaf/poplar1.rs
// NOT REGISTERED: CBMC does not finish on Poplar1VerifierState::decode_with_param (the collect::<Result<Vec<_>,_>>() loop) even for
// one concrete 6-byte input (600 s), with or without the capacity stub - see DESIGN.md M40.  Kept as the record of the
// allocation-budget contract (Vec::with_capacity contract stub), which works on other decoders.
//@harness pop_verifier_state_alloc_budget | bounded(inputs of 6 and 14 bytes; length header in {0, 1, 2, 2^20, 2^24, 2^32-1}; payload bytes symbolic) | Poplar1VerifierState::decode_with_param: every explicit capacity request (Vec::with_capacity) made while decoding is bounded by the bytes actually supplied (allocation proportional to the input, never to a length header); the decoder returns Ok or Err, no panic
// Allocation contract: Vec::with_capacity is replaced by its contract stub: requires cap * size_of::<T>() <= BUDGET (a ghost
// set by the harness to a constant multiple of the input length), ensures an empty vector (capacity is only a hint).
#[cfg(kani)]
#[allow(static_mut_refs, dead_code)]
mod verif_c08_alloc {
    use super::*;
    use crate::field::verif_field_util::*;
    use crate::verif_common::*;

    pub static mut ALLOC_BUDGET: usize = 0;
    pub static mut ALLOC_REQUESTS: usize = 0;
    fn with_capacity_contract<T>(cap: usize) -> Vec<T> {
        unsafe {
            ALLOC_REQUESTS += 1;
            let bytes = cap.checked_mul(core::mem::size_of::<T>());
            assert!(matches!(bytes, Some(b) if b <= ALLOC_BUDGET), "capacity request exceeds the allocation budget derived from the input length");
        }
        Vec::new()
    }

    fn budget_case<const N: usize>(header: u32) {
        let vdaf: Poplar1<XofTurboShake128, 32> = Poplar1::new(4);
        let mut b: [u8; N] = kani::any();
        b[0] = 0; b[1] = 1;                               // inner level, round two: the shortest path to the length header
        let h = header.to_be_bytes();
        b[2] = h[0]; b[3] = h[1]; b[4] = h[2]; b[5] = h[3];
        unsafe { ALLOC_BUDGET = 8 * N + 64; ALLOC_REQUESTS = 0; }
        let mut c = Cursor::new(&b[..]);
        let r = Poplar1VerifierState::decode_with_param(&(&vdaf, 0usize), &mut c);
        // N == 6: no payload; N == 14: exactly one Field64 element follows the header
        let fits = (N == 6 && header == 0) || (N == 14 && header == 1);
        if !fits && header as usize * 8 > N - 6 { assert!(r.is_err()); }
        if let Ok(st) = &r { match &st.0 { VerifierStateVariant::Inner(s) => assert!(s.output_share.len() == header as usize), _ => assert!(false) } }
        kani::cover!(r.is_err());
        forget(r); forget(vdaf);
    }

    #[kani::proof]
    #[kani::unwind(20)]
    #[kani::stub(<crate::fp::FP64 as crate::fp::FieldOps<u64>>::mul, crate::verif_common::mul64_id_stub)]
    #[kani::stub(alloc::vec::Vec::with_capacity, with_capacity_contract)]
    #[kani::stub(alloc::fmt::format, crate::verif_common::format_stub)]
    fn pop_verifier_state_alloc_budget() {
        let k: u8 = kani::any();
        kani::assume(k < 8);
        match k {
            0 => budget_case::<6>(0), 1 => budget_case::<6>(1), 2 => budget_case::<6>(1 << 20), 3 => budget_case::<6>(u32::MAX),
            4 => budget_case::<14>(1), 5 => budget_case::<14>(2), 6 => budget_case::<14>(1 << 24), _ => budget_case::<14>(u32::MAX),
        }
    }

}
