//@inject src/vdaf/poplar1.rs
//@harness pop_verifier_state_alloc_budget | bounded(input <= 14 bytes; the u32 length header is full-domain) | Poplar1VerifierState::decode_with_param: every explicit capacity request (Vec::with_capacity) made while decoding is bounded by the bytes actually supplied (allocation proportional to the input, never to a length header); the decoder returns Ok or Err, no panic
// Allocation contract: Vec::with_capacity is replaced by its contract stub: requires cap * size_of::<T>() <= BUDGET (a ghost
// set by the harness to a constant multiple of the input length), ensures an empty vector (capacity is only a hint).
#[cfg(kani)]
#[allow(static_mut_refs, dead_code)]
mod verif_c08_alloc {
    use super::*;
    use crate::field::verif_field_util::*;
    use crate::verif_common::*;

    pub static mut ALLOC_BUDGET: usize = 0;
    pub static mut ALLOC_REQUESTS: usize = 0;
    fn with_capacity_contract<T>(cap: usize) -> Vec<T> {
        unsafe {
            ALLOC_REQUESTS += 1;
            let bytes = cap.checked_mul(core::mem::size_of::<T>());
            assert!(matches!(bytes, Some(b) if b <= ALLOC_BUDGET), "capacity request exceeds the allocation budget derived from the input length");
        }
        Vec::new()
    }

    #[kani::proof]
    #[kani::unwind(20)]
    #[kani::stub(<crate::fp::FP64 as crate::fp::FieldOps<u64>>::mul, crate::verif_common::mul64_id_stub)]
    #[kani::stub(alloc::vec::Vec::with_capacity, with_capacity_contract)]
    #[kani::stub(alloc::fmt::format, crate::verif_common::format_stub)]
    fn pop_verifier_state_alloc_budget() {
        let vdaf: Poplar1<XofTurboShake128, 32> = Poplar1::new(4);
        let b: [u8; 14] = kani::any();
        let n: usize = kani::any();
        kani::assume(n <= 14);
        kani::assume(b[0] == 0 && b[1] == 1);          // inner level, round two: the shortest path to the length header
        unsafe { ALLOC_BUDGET = 8 * n + 64; ALLOC_REQUESTS = 0; }
        let mut c = Cursor::new(&b[..n]);
        let r = Poplar1VerifierState::decode_with_param(&(&vdaf, 0usize), &mut c);
        // at most one element fits in the remaining 8 bytes
        if let Ok(st) = &r { match &st.0 { VerifierStateVariant::Inner(s) => assert!(s.output_share.len() <= 1), _ => assert!(false) } }
        kani::cover!(r.is_ok());
        kani::cover!(r.is_err());
        forget(r); forget(vdaf);
    }
}
