//@inject src/vdaf/xof.rs
//@harness seed_ct_eq_32 | complete | Seed<32>::ct_eq / == : equal exactly when ALL 32 bytes agree, for every pair of seeds (a comparison of only part of the seed, or one in which differences can cancel, fails)
//@harness seed_ct_eq_16 | complete | Seed<16>::ct_eq / == : same contract for 16-byte seeds
#[cfg(kani)]
#[allow(dead_code)]
mod verif_c02_seed {
    use super::*;

    fn contract<const N: usize>() {
        let (a, b): ([u8; N], [u8; N]) = (kani::any(), kani::any());
        let (sa, sb) = (Seed::<N>::from_bytes(a), Seed::<N>::from_bytes(b));
        let eq: bool = sa.ct_eq(&sb).into();
        assert!(eq == (a == b));
        assert!((sa == sb) == (a == b));
        kani::cover!(eq);
        kani::cover!(!eq);
    }
    #[kani::proof]
    #[kani::unwind(34)]
    fn seed_ct_eq_32() { contract::<32>() }
    #[kani::proof]
    #[kani::unwind(18)]
    fn seed_ct_eq_16() { contract::<16>() }
}
