//@inject src/vdaf/poplar1.rs
//@harness pop_input_share_len32 | bounded(corr_inner len<=2, zero leaf elements) | Poplar1InputShare<32>/<16>::encoded_len() == number of bytes encode() appends (the deployed 32-byte-seed instance included)
//@harness pop_agg_param_header_total | bounded(buffer<=11 bytes; level in {0,6,7,8,15,0xFFFE,0xFFFF} x count in {0,1,2,3,6,2^32-1}; IdpfInput construction stubbed) | Poplar1AggregationParam::decode: at the extreme header values the header arithmetic does not overflow or panic, the prefix count is validated against the remaining bytes before allocating, result is Ok or Err
//@harness pop_agg_param_decode_levels | bounded(no prefixes: count field 0, 6-byte input) | Poplar1AggregationParam::decode: for EVERY u16 level the header arithmetic ((level+1) rounded up to bytes, trailing-bit mask) does not overflow or panic
//@harness pop_agg_param_encoded_len | complete | Poplar1AggregationParam::encoded_len == 6 + ceil((level+1)/8) * #prefixes for every u16 level, no overflow
//@harness pop_verifier_msg_canon | bounded(lengths 0, L-1, L, L+1) | Poplar1VerifierMessage (inner sketch / done): decoder total, canonical, length-exact, for both sketch states
//@harness pop_sketch_state_tags | complete | VerifierStateVariant / SketchState tag bytes: 0 and 1 accepted, every other tag => Err(UnexpectedValue); is_leader derives from agg_id == 0
#[cfg(kani)]
mod verif_c07_poplar1 {
    use super::*;
    use crate::codec::verif_c07::*;
    use crate::field::verif_field_util::*;
    use crate::verif_common::*;

    #[kani::proof]
    #[kani::unwind(40)]
    #[kani::stub(<crate::fp::FP64 as crate::fp::FieldOps<u64>>::mul, crate::verif_common::mul64_id_stub)]
    #[kani::stub(<crate::field::Field255 as crate::codec::Encode>::encode, crate::field::field255::verif_f255_util::encode_stub)]
    fn pop_input_share_len32() {
        let z = <Field255 as FieldElement>::zero();
        let k: u8 = kani::any();
        kani::assume(k < 3);
        let inner: Vec<[Field64; 2]> = match k { 0 => vec![], 1 => vec![[any64(), any64()]], _ => vec![[any64(), any64()], [any64(), any64()]] };
        let n = inner.len();
        let which: bool = kani::any();
        let mut out = Vec::with_capacity(256);
        if which {
            let s = Poplar1InputShare::<32> { idpf_key: Seed::from_bytes(kani::any()), corr_seed: Seed::from_bytes(kani::any()), corr_inner: inner, corr_leaf: [z, z] };
            let e = s.encode(&mut out);
            assert!(e.is_ok());
            assert!(out.len() == 16 + 32 + n * 16 + 64);
            assert!(s.encoded_len() == Some(out.len()));
            forget(e); forget(s);
        } else {
            let s = Poplar1InputShare::<16> { idpf_key: Seed::from_bytes(kani::any()), corr_seed: Seed::from_bytes(kani::any()), corr_inner: inner, corr_leaf: [z, z] };
            let e = s.encode(&mut out);
            assert!(e.is_ok());
            assert!(out.len() == 16 + 16 + n * 16 + 64);
            assert!(s.encoded_len() == Some(out.len()));
            forget(e); forget(s);
        }
        kani::cover!(which && n == 2);
        forget(out);
    }

    static mut SEEN_PREFIXES: usize = usize::MAX;
    fn stub_try_from_prefixes(prefixes: Vec<IdpfInput>) -> Result<Poplar1AggregationParam, VdafError> {
        // contract: Ok(param) or Err, nothing else is known here (the bit-level rule is C20)
        unsafe { SEEN_PREFIXES = prefixes.len(); }
        forget(prefixes);
        Err(VdafError::Uncategorized(String::new()))
    }

    #[kani::proof]
    #[kani::unwind(8)]
    #[kani::stub(crate::idpf::IdpfInput::from_bytes, crate::idpf::verif_idpf_util::stub_from_bytes)]
    #[kani::stub(crate::idpf::IdpfInput::prefix, crate::idpf::verif_idpf_util::stub_prefix)]
    #[kani::stub(Poplar1AggregationParam::try_from_prefixes, stub_try_from_prefixes)]
    fn pop_agg_param_header_total() {
        let mut b: [u8; 11] = kani::any();
        // header fields from a boundary lattice (concrete per branch: the two allocations in decode() are
        // sized by these fields and symbolic allocation sizes are intractable for CBMC)
        let lk: u8 = kani::any();
        kani::assume(lk < 7);
        let lvl: u16 = match lk { 0 => 0, 1 => 6, 2 => 7, 3 => 8, 4 => 15, 5 => 0xFFFE, _ => 0xFFFF };
        b[0] = (lvl >> 8) as u8; b[1] = lvl as u8;
        let ck: u8 = kani::any();
        kani::assume(ck < 6);
        let cnt: u32 = match ck { 0 => 0, 1 => 1, 2 => 2, 3 => 3, 4 => 6, _ => 0xFFFF_FFFF };
        b[2] = (cnt >> 24) as u8; b[3] = (cnt >> 16) as u8; b[4] = (cnt >> 8) as u8; b[5] = cnt as u8;
        let k: u8 = kani::any();
        kani::assume(k < 3);
        let mut c = match k { 0 => Cursor::new(&b[..5]), 1 => Cursor::new(&b[..6]), _ => Cursor::new(&b[..11]) };
        let r = Poplar1AggregationParam::decode(&mut c);
        let remaining: usize = match k { 0 => 0, 1 => 0, _ => 5 };
        let pbl = (lvl as usize + 1).div_ceil(8);
        // the stubbed try_from_prefixes always refuses, so decode() returns Err; what is decided here is that
        // it gets there without panic/overflow and only after the count was validated against the input
        assert!(r.is_err());
        let seen = unsafe { SEEN_PREFIXES };
        if seen != usize::MAX {
            assert!(k > 0 && seen == cnt as usize && seen * pbl <= remaining);
        }
        if k > 0 && (cnt as usize) > remaining / pbl { assert!(matches!(r, Err(CodecError::LengthPrefixTooBig(_))) && seen == usize::MAX); }
        kani::cover!(seen == 2);
        kani::cover!(lvl == 0xFFFF && k == 2);
        forget(r);
    }

    #[kani::proof]
    #[kani::unwind(10)]
    #[kani::stub(crate::idpf::IdpfInput::from_bytes, crate::idpf::verif_idpf_util::stub_from_bytes)]
    #[kani::stub(crate::idpf::IdpfInput::prefix, crate::idpf::verif_idpf_util::stub_prefix)]
    #[kani::stub(Poplar1AggregationParam::try_from_prefixes, stub_try_from_prefixes)]
    fn pop_agg_param_decode_levels() {
        let level: u16 = kani::any();
        let b = [(level >> 8) as u8, level as u8, 0, 0, 0, 0];
        let mut c = Cursor::new(&b[..]);
        let r = Poplar1AggregationParam::decode(&mut c);
        assert!(r.is_err());                       // the stubbed try_from_prefixes refuses the empty list
        assert!(unsafe { SEEN_PREFIXES } == 0);    // ... and was reached: no panic, no overflow on the way
        kani::cover!(level == 0xFFFF);
        forget(r);
    }

    #[kani::proof]
    #[kani::unwind(4)]
    fn pop_agg_param_encoded_len() {
        let level: u16 = kani::any();
        let k: u8 = kani::any();
        kani::assume(k < 3);
        let e = crate::idpf::verif_idpf_util::empty_input;
        let prefixes = match k { 0 => vec![e()], 1 => vec![e(), e()], _ => vec![e(), e(), e()] };
        let n = prefixes.len();
        let p = Poplar1AggregationParam { level, prefixes };
        assert!(p.encoded_len() == Some(6 + (level as usize + 1).div_ceil(8) * n));
        kani::cover!(level == 0xFFFF);
        forget(p);
    }

    #[kani::proof]
    #[kani::unwind(40)]
    #[kani::stub(<crate::fp::FP64 as crate::fp::FieldOps<u64>>::mul, crate::verif_common::mul64_id_stub)]
    fn pop_verifier_msg_canon() {
        let b: [u8; 40] = kani::any();
        let round_two: bool = kani::any();
        let sketch = if round_two { SketchState::RoundTwo } else { SketchState::RoundOne { A_share: any64(), B_share: any64(), is_leader: kani::any() } };
        let st = Poplar1VerifierState(VerifierStateVariant::Inner(VerifierState { sketch, output_share: vec![] }));
        let exact = if round_two { 0 } else { 24 };
        let ok = for_lengths(&b, exact, |s| canon_check_rb::<_, Poplar1VerifierMessage>(&st, s, |v| Some(Poplar1VerifierMessage(match &v.0 {
            VerifierMessageVariant::SketchInner(a) => VerifierMessageVariant::SketchInner([a[0], a[1], a[2]]),
            VerifierMessageVariant::SketchLeaf(a) => VerifierMessageVariant::SketchLeaf([a[0], a[1], a[2]]),
            VerifierMessageVariant::Done => VerifierMessageVariant::Done,
        }))));
        kani::cover!(ok && round_two);
        kani::cover!(ok && !round_two);
        forget(st);
    }

    #[kani::proof]
    #[kani::unwind(12)]
    #[kani::stub(<crate::fp::FP64 as crate::fp::FieldOps<u64>>::mul, crate::verif_common::mul64_id_stub)]
    fn pop_sketch_state_tags() {
        let vdaf: Poplar1<XofTurboShake128, 32> = Poplar1::new(4);
        let b: [u8; 17] = kani::any();
        let agg_id: usize = kani::any();
        let mut c = Cursor::new(&b[..]);
        let r = SketchState::<Field64>::decode_with_param(&(&vdaf, agg_id), &mut c);
        match &r {
            Ok(SketchState::RoundOne { is_leader, .. }) => { assert!(b[0] == 0 && *is_leader == (agg_id == 0) && c.position() == 17); }
            Ok(SketchState::RoundTwo) => { assert!(b[0] == 1 && c.position() == 1); }
            Err(CodecError::UnexpectedValue) => assert!(b[0] > 1),
            Err(_) => assert!(b[0] == 0),      // a field element >= p
        }
        let r2: Result<(), CodecError> = Ok(());
        kani::cover!(matches!(r, Ok(SketchState::RoundOne { .. })));
        kani::cover!(matches!(r, Err(CodecError::UnexpectedValue)));
        forget(r); forget(r2); forget(vdaf);
    }
}
