//@inject src/vdaf/poplar1.rs
//@harness pop_agg_param_level_rule_h0 | bounded(history of 0 parameters, empty candidate-prefix sets) | Poplar1::is_agg_param_valid: with a non-empty history the parameter is admissible only if its level is STRICTLY greater than the level of the MOST RECENT parameter (not the first, not the maximum), for every u16 level; an empty history admits everything
//@harness pop_agg_param_level_rule_h1 | bounded(history of 1 parameters, empty candidate-prefix sets) | Poplar1::is_agg_param_valid: with a non-empty history the parameter is admissible only if its level is STRICTLY greater than the level of the MOST RECENT parameter (not the first, not the maximum), for every u16 level; an empty history admits everything
//@harness pop_agg_param_level_rule_h2 | bounded(history of 2 parameters, empty candidate-prefix sets) | Poplar1::is_agg_param_valid: with a non-empty history the parameter is admissible only if its level is STRICTLY greater than the level of the MOST RECENT parameter (not the first, not the maximum), for every u16 level; an empty history admits everything
//@harness pop_agg_param_level_rule_h3 | bounded(history of 3 parameters, empty candidate-prefix sets) | Poplar1::is_agg_param_valid: with a non-empty history the parameter is admissible only if its level is STRICTLY greater than the level of the MOST RECENT parameter (not the first, not the maximum), for every u16 level; an empty history admits everything
//@harness pop_try_from_prefixes_guards | complete | Poplar1AggregationParam::try_from_prefixes: an empty prefix list => Err (no panic on prefixes[0])
// The prefix-extension clause compares bitvec values (R3): not decided here.  With empty prefix sets the real
// function still runs its history/level logic (prev.last(), the level comparison, BTreeSet construction).
#[cfg(kani)]
#[allow(dead_code)]
mod verif_c20_poplar1 {
    use super::*;
    use crate::verif_common::*;

    type P = Poplar1<XofTurboShake128, 32>;
    fn ap(level: u16) -> Poplar1AggregationParam { Poplar1AggregationParam { level, prefixes: vec![] } }

    fn level_rule<const N: usize>() {
        let (l0, l1, l2, cur): (u16, u16, u16, u16) = (kani::any(), kani::any(), kani::any(), kani::any());
        let prev: [Poplar1AggregationParam; 3] = [ap(l0), ap(l1), ap(l2)];
        let c = ap(cur);
        let r = <P as Aggregator<32, 16>>::is_agg_param_valid(&c, &prev[..N]);
        let last = match N { 0 => None, 1 => Some(l0), 2 => Some(l1), _ => Some(l2) };   // the MOST RECENT entry
        match last {
            None => assert!(r),
            Some(ll) => assert!(r == (cur > ll)),
        }
        kani::cover!(r);
        kani::cover!(!r || N == 0);
        forget(prev); forget(c);
    }
    #[kani::proof]
    #[kani::unwind(6)]
    fn pop_agg_param_level_rule_h0() { level_rule::<0>() }
    #[kani::proof]
    #[kani::unwind(6)]
    fn pop_agg_param_level_rule_h1() { level_rule::<1>() }
    #[kani::proof]
    #[kani::unwind(6)]
    fn pop_agg_param_level_rule_h2() { level_rule::<2>() }
    #[kani::proof]
    #[kani::unwind(6)]
    fn pop_agg_param_level_rule_h3() { level_rule::<3>() }

    #[kani::proof]
    #[kani::unwind(4)]
    #[kani::stub(alloc::fmt::format, crate::verif_common::format_stub)]
    fn pop_try_from_prefixes_guards() {
        let r = Poplar1AggregationParam::try_from_prefixes(Vec::new());
        assert!(r.is_err());
        kani::cover!(r.is_err());
        forget(r);
    }
}
