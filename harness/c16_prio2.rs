//@inject src/vdaf/prio2.rs
//@harness prio2_verify_init_short_leader_share | bounded(input_len 1; leader share lengths 0, 1, 3, 5, 7 against proof_length 6) | Prio2::verify_init_with_query_rand: a leader share of the wrong length (shorter than input_len included) => Err, never a panic or an out-of-bounds slice; for every query point and both roles
//@harness prio2_verify_init_wrong_len_il2 | bounded(input_len 2; leader share lengths 0, 1, 2, 8, 10 against proof_length 9) | same contract at input_len 2
//@harness prio2_role_try_from | complete | prio2 role_try_from: agg_id 0 => leader, 1 => helper, every other usize => Err
#[cfg(kani)]
#[allow(dead_code)]
mod verif_c16_prio2 {
    use super::*;
    use crate::field::verif_field_util::*;
    use crate::verif_common::*;

    fn short_share<const IL: usize, const L: usize>() {
        let vdaf = Prio2 { input_len: IL };
        let q = any32();
        let data: [FieldPrio2; L] = [any32(); L];
        let share = Share::Leader(data.to_vec());
        let r = vdaf.verify_init_with_query_rand(q, &share, kani::any());
        assert!(r.is_err());
        kani::cover!(r.is_err());
        forget(r); forget(share);
    }

    #[kani::proof]
    #[kani::unwind(12)]
    #[kani::stub(<crate::fp::FP32 as crate::fp::ops::FieldOps<u32>>::mul, crate::verif_common::mul32_id_stub)]
    #[kani::stub(alloc::fmt::format, crate::verif_common::format_stub)]
    fn prio2_verify_init_short_leader_share() {
        // proof_length(1) == 1 + 3 + 2 == 6, proof_length(2) == 2 + 3 + 4 == 9
        let k: u8 = kani::any();
        kani::assume(k < 5);
        match k { 0 => short_share::<1, 0>(), 1 => short_share::<1, 1>(), 2 => short_share::<1, 5>(), 3 => short_share::<1, 7>(), _ => short_share::<1, 3>() }
    }

    #[kani::proof]
    #[kani::unwind(12)]
    #[kani::stub(<crate::fp::FP32 as crate::fp::ops::FieldOps<u32>>::mul, crate::verif_common::mul32_id_stub)]
    #[kani::stub(alloc::fmt::format, crate::verif_common::format_stub)]
    fn prio2_verify_init_wrong_len_il2() {
        let k: u8 = kani::any();
        kani::assume(k < 5);
        match k { 0 => short_share::<2, 0>(), 1 => short_share::<2, 1>(), 2 => short_share::<2, 2>(), 3 => short_share::<2, 8>(), _ => short_share::<2, 10>() }
    }

    #[kani::proof]
    #[kani::stub(alloc::fmt::format, crate::verif_common::format_stub)]
    fn prio2_role_try_from() {
        let id: usize = kani::any();
        let r = role_try_from(id);
        match &r { Ok(l) => assert!((id == 0 && *l) || (id == 1 && !*l)), Err(_) => assert!(id > 1) }
        kani::cover!(r.is_ok());
        forget(r);
    }
}
