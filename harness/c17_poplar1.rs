//@inject src/vdaf/poplar1.rs
// NOT REGISTERED: Kani rejects the contract stub for Idpf::gen_with_random (a method with its own type parameter `M` on a
// generic impl: "Expected type &Idpf<VI, VL> ... but found &Idpf<VI, VL>"), and the real function indexes bitvec inputs (R3) - DESIGN M41.
//@tolerate __rust_dealloc
//@harness pop_shard_contract | bounded(3-bit inputs: two inner levels and the leaf; IDPF key generation and Prng::get replaced by contract stubs; ctx "c") | Poplar1::shard_with_random: (C17) both input shares carry idpf_key == idpf_random[j] and corr_seed == poplar_random[j] VERBATIM, for every input; (C18) every stream is bound to its specified (seed, tag(usage) || ctx, binder): sharding randomness (poplar_random[2], SHARD_RANDOMNESS, nonce), correlated randomness of aggregator j (poplar_random[j], CORR_INNER resp. CORR_LEAF, [j] || nonce); (C03) one correlated-randomness share pair per inner level plus the leaf pair; wrong input length => Err
#[cfg(kani)]
#[allow(static_mut_refs, dead_code)]
mod verif_c17_poplar1 {
    use super::*;
    use crate::idpf::verif_idpf_util::*;
    use crate::vdaf::prio3::verif_sym::*;
    use crate::verif_common::*;

    pub static mut GET_CALLS: usize = 0;
    fn prng_get_one<F: FieldElement, S: rand::Rng>(_p: &mut crate::prng::Prng<F, S>) -> F { unsafe { GET_CALLS += 1; } F::one() }

    fn expect(idx: usize, seed: &[u8; 16], usage: u16, bind: &[u8]) {
        unsafe {
            assert!(idx < T_INITS && idx < LN);
            assert!(L_SEED[idx] == *seed);
            assert!(L_DST_LEN[idx] == 9);
            assert!(L_DST[idx][0] == VERSION && L_DST[idx][1] == 0 && L_DST[idx][2] == 0 && L_DST[idx][3] == 0 && L_DST[idx][4] == 0 && L_DST[idx][5] == 6);
            assert!(L_DST[idx][6] == (usage >> 8) as u8 && L_DST[idx][7] == usage as u8 && L_DST[idx][8] == b'c');
            assert!(L_BIND_LEN[idx] == bind.len());
            let mut i = 0;
            while i < bind.len() { assert!(L_BIND[idx][i] == bind[i]); i += 1; }
        }
    }
    fn with_id(id: u8, nonce: &[u8; 16]) -> [u8; 17] { let mut b = [0u8; 17]; b[0] = id; let mut i = 0; while i < 16 { b[1 + i] = nonce[i]; i += 1; } b }

    #[kani::proof]
    #[kani::unwind(40)]
    #[kani::stub(<crate::fp::FP64 as crate::fp::FieldOps<u64>>::mul, crate::verif_common::mul64_id_stub)]
    #[kani::stub(alloc::fmt::format, crate::verif_common::format_stub)]
    #[kani::stub(crate::prng::Prng::get, prng_get_one)]
    #[kani::stub(crate::idpf::Idpf::gen_with_random, crate::idpf::verif_idpf_util::gen_with_random_stub)]
    #[kani::stub(crate::idpf::IdpfInput::len, crate::idpf::verif_idpf_util::input_len_stub)]
    fn pop_shard_contract() {
        let vdaf: Poplar1<RecXof, 16> = Poplar1 { bits: 3, phantom: PhantomData };
        let input = empty_input();
        let wrong_len: bool = kani::any();
        unsafe { INPUT_LEN = if wrong_len { 4 } else { 3 }; GEN_CALLS = 0; GET_CALLS = 0; }
        let nonce: [u8; 16] = kani::any();
        let idpf_random: [[u8; 16]; 2] = kani::any();
        let poplar_random: [[u8; 16]; 3] = kani::any();
        reset_transcript();
        let r = vdaf.shard_with_random(b"c", &input, &nonce, &idpf_random, &poplar_random);
        match &r {
            Ok((_public, shares)) => {
                assert!(!wrong_len && shares.len() == 2 && unsafe { GEN_CALLS } == 1);
                let mut j = 0;
                while j < 2 {
                    // verbatim randomness: no data flow from the input
                    assert!(*shares[j].idpf_key.as_ref() == idpf_random[j]);
                    assert!(*shares[j].corr_seed.as_ref() == poplar_random[j]);
                    assert!(shares[j].corr_inner.len() == 2);          // bits - 1 inner levels
                    j += 1;
                }
                assert!(unsafe { T_INITS } == 5);
                expect(0, &poplar_random[2], DST_SHARD_RANDOMNESS, &nonce);
                expect(1, &poplar_random[0], DST_CORR_INNER, &with_id(0, &nonce));
                expect(2, &poplar_random[1], DST_CORR_INNER, &with_id(1, &nonce));
                expect(3, &poplar_random[0], DST_CORR_LEAF, &with_id(0, &nonce));
                expect(4, &poplar_random[1], DST_CORR_LEAF, &with_id(1, &nonce));
            }
            Err(_) => assert!(wrong_len),
        }
        kani::cover!(r.is_ok());
        kani::cover!(r.is_err());
        forget(r); forget(input); forget(vdaf);
    }
}
