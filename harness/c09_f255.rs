//@inject src/field/field255.rs
//@harness f255_try_from_bytes_range | complete | Field255::try_from_bytes (wrapper logic; the fiat-crypto limb conversion is replaced by a no-op): for EVERY 32-byte string, with and without masking of the top bit, the result is Ok exactly when the little-endian integer (after masking) is < 2^255 - 19, Err(ModulusOverflow) otherwise; a slice shorter than 32 bytes => Err(ShortRead)
#[cfg(kani)]
#[allow(dead_code)]
mod verif_c09_f255 {
    use super::*;
    use crate::verif_common::*;

    fn from_bytes_noop(_out: &mut fiat_25519_tight_field_element, _arg: &[u8; 32]) {}

    /// specification: compare the 256-bit little-endian integer with p = 2^255 - 19, most significant byte first
    fn spec_lt_modulus(v: &[u8; 32]) -> bool {
        let mut i = 32;
        while i > 0 {
            i -= 1;
            if v[i] < MODULUS_LITTLE_ENDIAN[i] { return true; }
            if v[i] > MODULUS_LITTLE_ENDIAN[i] { return false; }
        }
        false
    }

    #[kani::proof]
    #[kani::unwind(34)]
    #[kani::stub(fiat_crypto::curve25519_64::fiat_25519_from_bytes, from_bytes_noop)]
    fn f255_try_from_bytes_range() {
        let b: [u8; 33] = kani::any();
        let mask: bool = kani::any();
        let short: bool = kani::any();
        let r = if short { Field255::try_from_bytes(&b[..31], mask) } else { Field255::try_from_bytes(&b[..], mask) };
        let mut v = [0u8; 32];
        let mut i = 0;
        while i < 32 { v[i] = b[i]; i += 1; }
        if mask { v[31] &= 0x7f; }
        match &r {
            Ok(_) => assert!(!short && spec_lt_modulus(&v)),
            Err(FieldError::ModulusOverflow) => assert!(!short && !spec_lt_modulus(&v)),
            Err(FieldError::ShortRead) => assert!(short),
            Err(_) => assert!(false),
        }
        kani::cover!(r.is_ok());
        kani::cover!(matches!(r, Err(FieldError::ModulusOverflow)));
        // 2^255 - 19 itself and 2^255 - 20
        kani::cover!(!short && !mask && v == MODULUS_LITTLE_ENDIAN);
        forget(r);
    }
}
