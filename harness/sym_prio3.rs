//@inject src/vdaf/prio3.rs
// R5: harness-defined implementations of the trait boundary of Prio3 (DESIGN §3.3).
//  SymType: a flp::Type whose lengths are small constants and whose prove/query/decide/encode/truncate
//           return arbitrary values OF THE DECLARED LENGTHS (exactly the Type contract, nothing more);
//  RecXof : an Xof<16> that records the bytes it absorbs (seed, dst parts, binder parts) as a ghost
//           transcript and whose output is a fixed stream (all outputs equal: nothing about the
//           hash is assumed except determinism).
#[cfg(kani)]
#[allow(dead_code, static_mut_refs)]
pub(crate) mod verif_sym {
    use super::*;
    use crate::flp::{Flp, FlpError, Gadget};
    use rand_core::{TryRng, Infallible};

    #[derive(Clone, Debug, PartialEq, Eq)]
    pub struct SymType { pub input_len: usize, pub proof_len: usize, pub verifier_len: usize, pub joint_rand_len: usize, pub prove_rand_len: usize, pub query_rand_len: usize, pub output_len: usize }
    pub static mut DECIDE_CALLS: usize = 0;
    pub static mut ENC_MEAS: u64 = 0;        // raw representation returned by encode_measurement
    pub static mut STREAM_BYTE0: u8 = 0;     // every 8-byte chunk of the XOF output is [STREAM_BYTE0,0,0,0,0,0,0,0]
    pub static mut DECIDE_RESULT: u8 = 1;   // 0 => Ok(false), 1 => Ok(true), 2 => Err
    pub static mut DECIDE_PER_CALL: [u8; 4] = [255; 4];   // per-call override of DECIDE_RESULT (255 = use DECIDE_RESULT)
    pub static mut DECIDE_ARG0: [u64; 4] = [0; 4];         // ghost: first element of the verifier handed to the k-th decide() call
    fn zeros(n: usize) -> Vec<Field64> { match n { 0 => vec![], 1 => vec![Field64::zero()], 2 => vec![Field64::zero(); 2], 3 => vec![Field64::zero(); 3], _ => vec![Field64::zero(); 4] } }
    impl Flp for SymType {
        type Field = Field64;
        fn gadget(&self) -> Vec<Box<dyn Gadget<Field64>>> { Vec::new() }
        fn num_gadgets(&self) -> usize { 0 }
        fn valid(&self, _: &mut Vec<Box<dyn Gadget<Field64>>>, _: &[Field64], _: &[Field64], _: usize) -> Result<Vec<Field64>, FlpError> { Ok(Vec::new()) }
        fn input_len(&self) -> usize { self.input_len }
        fn proof_len(&self) -> usize { self.proof_len }
        fn verifier_len(&self) -> usize { self.verifier_len }
        fn joint_rand_len(&self) -> usize { self.joint_rand_len }
        fn eval_output_len(&self) -> usize { 1 }
        fn prove_rand_len(&self) -> usize { self.prove_rand_len }
        fn query_rand_len(&self) -> usize { self.query_rand_len }
        fn prove(&self, input: &[Field64], prove_rand: &[Field64], joint_rand: &[Field64]) -> Result<Vec<Field64>, FlpError> {
            if input.len() != self.input_len || prove_rand.len() != self.prove_rand_len || joint_rand.len() != self.joint_rand_len { return Err(FlpError::Prove(String::new())); }
            Ok(zeros(self.proof_len))
        }
        fn query(&self, input: &[Field64], proof: &[Field64], query_rand: &[Field64], joint_rand: &[Field64], _num_shares: usize) -> Result<Vec<Field64>, FlpError> {
            if input.len() != self.input_len || proof.len() != self.proof_len || query_rand.len() != self.query_rand_len || joint_rand.len() != self.joint_rand_len { return Err(FlpError::Query(String::new())); }
            Ok(zeros(self.verifier_len))
        }
        fn decide(&self, verifier: &[Field64]) -> Result<bool, FlpError> {
            let k = unsafe { DECIDE_CALLS };
            unsafe { DECIDE_CALLS += 1; }
            if verifier.len() != self.verifier_len { return Err(FlpError::Decide(String::new())); }
            if k < 4 && verifier.len() > 0 { unsafe { DECIDE_ARG0[k] = crate::field::verif_field_util::raw64(verifier[0]); } }
            let res = unsafe { if k < 4 && DECIDE_PER_CALL[k] != 255 { DECIDE_PER_CALL[k] } else { DECIDE_RESULT } };
            match res { 0 => Ok(false), 1 => Ok(true), _ => Err(FlpError::Decide(String::new())) }
        }
    }
    impl Type for SymType {
        type Measurement = u8;
        type AggregateResult = u8;
        fn encode_measurement(&self, _m: &u8) -> Result<Vec<Field64>, FlpError> { if self.input_len == 1 { Ok(vec![crate::field::verif_field_util::mk64(unsafe { ENC_MEAS })]) } else { Ok(zeros(self.input_len)) } }
        fn truncate(&self, input: Vec<Field64>) -> Result<Vec<Field64>, FlpError> { if input.len() != self.input_len { return Err(FlpError::Truncate(String::new())); } Ok(input) }
        fn decode_result(&self, _d: &[Field64], _n: usize) -> Result<u8, FlpError> { Ok(0) }
        fn output_len(&self) -> usize { self.output_len }
    }

    // ---- recording XOF
    pub const TL: usize = 96;
    pub static mut T_SEED: [u8; 16] = [0; 16];
    pub static mut T_DST: [u8; TL] = [0; TL];
    pub static mut T_DST_LEN: usize = 0;
    pub static mut T_BIND: [u8; TL] = [0; TL];
    pub static mut T_BIND_LEN: usize = 0;
    pub static mut T_INITS: usize = 0;
    // log of the first LN transcripts since the last reset (for whole-function harnesses that perform several derivations)
    pub const LN: usize = 10;
    pub const LB: usize = 96;      // 5 joint randomness parts of 16 bytes (p3_shard_seeds_5_jr) + margin
    pub static mut L_SEED: [[u8; 16]; LN] = [[0; 16]; LN];
    pub static mut L_DST: [[u8; 16]; LN] = [[0; 16]; LN];
    pub static mut L_DST_LEN: [usize; LN] = [0; LN];
    pub static mut L_BIND: [[u8; LB]; LN] = [[0; LB]; LN];
    pub static mut L_BIND_LEN: [usize; LN] = [0; LN];
    pub fn reset_transcript() { unsafe { T_DST_LEN = 0; T_BIND_LEN = 0; T_INITS = 0; L_DST_LEN = [0; LN]; L_BIND_LEN = [0; LN]; } }
    #[derive(Clone, Debug)]
    pub struct RecXof(pub usize);
    pub struct ZeroStream;
    impl TryRng for ZeroStream {
        type Error = Infallible;
        fn try_next_u32(&mut self) -> Result<u32, Infallible> { Ok(0) }
        fn try_next_u64(&mut self) -> Result<u64, Infallible> { Ok(0) }
        fn try_fill_bytes(&mut self, dest: &mut [u8]) -> Result<(), Infallible> { dest.fill(0); let b0 = unsafe { STREAM_BYTE0 }; if b0 != 0 { let mut i = 0; while i < dest.len() { dest[i] = b0; i += 8; } } Ok(()) }
    }
    impl Xof<16> for RecXof {
        type SeedStream = ZeroStream;
        fn init(seed_bytes: &[u8; 16], dst_parts: &[&[u8]]) -> Self {
            unsafe {
                let id = T_INITS;
                T_INITS += 1; T_SEED = *seed_bytes; T_DST_LEN = 0; T_BIND_LEN = 0;
                if id < LN { L_SEED[id] = *seed_bytes; L_DST_LEN[id] = 0; L_BIND_LEN[id] = 0; }
                let mut k = 0;
                while k < dst_parts.len() {
                    let p = dst_parts[k];
                    let mut i = 0;
                    while i < p.len() {
                        assert!(T_DST_LEN < TL); T_DST[T_DST_LEN] = p[i]; T_DST_LEN += 1;
                        if id < LN && L_DST_LEN[id] < 16 { L_DST[id][L_DST_LEN[id]] = p[i]; L_DST_LEN[id] += 1; }
                        i += 1;
                    }
                    k += 1;
                }
                RecXof(id)
            }
        }
        fn update(&mut self, binder_part: &[u8]) {
            unsafe {
                let id = self.0;
                let mut i = 0;
                while i < binder_part.len() {
                    assert!(T_BIND_LEN < TL); T_BIND[T_BIND_LEN] = binder_part[i]; T_BIND_LEN += 1;
                    if id < LN { assert!(L_BIND_LEN[id] < LB); L_BIND[id][L_BIND_LEN[id]] = binder_part[i]; L_BIND_LEN[id] += 1; }
                    i += 1;
                }
            }
        }
        fn into_seed_stream(self) -> ZeroStream { ZeroStream }
    }
    pub type SymPrio3 = Prio3<SymType, RecXof, 16>;
    /// all randomness lengths zero: the derive_* functions absorb their transcript and then expand ZERO
    /// elements (expanding even one element drags the 32-slot rejection-sampling scan of Prng::get into CBMC, M16)
    pub fn sym_prio3_norand(num_aggregators: u8, num_proofs: u8, algorithm_id: u32) -> SymPrio3 {
        Prio3 { num_aggregators, num_proofs, algorithm_id, typ: SymType { input_len: 0, proof_len: 0, verifier_len: 0, joint_rand_len: 0, prove_rand_len: 0, query_rand_len: 0, output_len: 0 }, phantom: PhantomData }
    }
    pub fn sym_prio3(num_aggregators: u8, num_proofs: u8, algorithm_id: u32, jr: usize) -> SymPrio3 {
        Prio3 { num_aggregators, num_proofs, algorithm_id, typ: SymType { input_len: 1, proof_len: 1, verifier_len: 1, joint_rand_len: jr, prove_rand_len: 1, query_rand_len: 1, output_len: 1 }, phantom: PhantomData }
    }
}
