//@inject src/codec.rs
//@harness ints_roundtrip | complete | u8/u16/u32/u64: encode appends exactly encoded_len() bytes (big endian), get_decoded(encode(v)) == v, every accepted string re-encodes identically, trailing byte => BytesLeftOver, short input => Err; no panic
//@harness fixlen_items_total | bounded(buffer<=6 bytes) | decode_fixlen_items<(),u16>: for EVERY usize length and every start position: Err(LengthPrefixTooBig) iff pos+length overflows or passes the end, no panic/overflow; on Ok exactly `length` bytes consumed and length/2 items returned
//@harness u8_u16_u32_items_total | bounded(buffer<=6 bytes) | decode_u8_items/decode_u16_items/decode_u32_items<(),u8>: every prefix value and truncation returns Ok or Err, never panics; Ok => items == the prefixed bytes
//@harness items_encode_roundtrip | bounded(items<=2) | encode_u8_items/encode_u16_items/encode_u32_items: prefix == number of item bytes; decode(encode(items)) == items; encoded form canonical
//@harness items_encode_prefix_overflow | bounded(u8-prefixed vectors of 32-byte items: 7 and 8 items) | encode_u8_items: the length prefix counts BYTES, not items: 7 items of 32 bytes => Ok with prefix 224 == bytes produced; 8 items (256 bytes, only 8 items) => Err(LengthPrefixOverflow), never a truncated prefix
//@harness fixlen_zero_width_item | bounded(unwind 6) | decode_fixlen_items with a zero-width item type terminates (progress: each item consumes >= 1 byte is a precondition on D; `()` violates it)
#[cfg(kani)]
#[allow(dead_code)]
pub(crate) mod verif_c07 {
    use super::*;
    use crate::verif_common::*;

    /// Decoder totality + canonicity + length exactness on one byte string:
    ///  - `get_decoded_with_param` returns Ok or Err (no panic is a Kani-generated obligation),
    ///  - Ok(v) => v re-encodes to exactly the accepted bytes and encoded_len() == Some(len).
    pub fn canon_check<P, T: ParameterizedDecode<P> + Encode>(param: &P, bytes: &[u8]) -> bool {
        canon_check_rb::<P, T>(param, bytes, |_| None)
    }
    /// copy of a vector built element by element (see `rebuild` below)
    pub fn rebuild_n<F: Copy, const N: usize>(v: &[F]) -> Vec<F> {
        // constant allocation size N (Vec::with_capacity(v.len()) and length-dispatch tables are intractable / slow in CBMC)
        assert!(v.len() == N);
        core::array::from_fn::<F, N, _>(|i| v[i]).to_vec()
    }
    /// As canon_check, but the decoded value is first rebuilt field by field (`rebuild` returns a fresh
    /// value with the same field values): encoding a value that still points into the decoder's heap
    /// objects is 10-20x slower in CBMC; encode() reads nothing but the field values.
    pub fn canon_check_rb<P, T: ParameterizedDecode<P> + Encode>(param: &P, bytes: &[u8], rebuild: impl Fn(&T) -> Option<T>) -> bool {
        let r = T::get_decoded_with_param(param, bytes);
        let ok = r.is_ok();
        if let Ok(v0) = &r {
            let rb = rebuild(v0);
            let v = match &rb { Some(w) => w, None => v0 };
            // pre-sized like get_encoded() does; growth by realloc trips Kani's realloc model
            let mut out = Vec::with_capacity(bytes.len() + 8);
            let e = v.encode(&mut out);
            assert!(e.is_ok());
            assert!(out.len() == bytes.len());
            assert!(out[..] == bytes[..]);
            assert!(v.encoded_len() == Some(bytes.len()));
            forget(e); forget(out); forget(rb);
        }
        forget(r);
        ok
    }
    /// Run `f` on prefixes of `b` of length 0, exact-1, exact, exact+1 (each branch has a CONCRETE length:
    /// symbolic-length slices combined with Vec growth are intractable for CBMC).  Every other length fails
    /// the same way (short read / BytesLeftOver).  Returns whether the decoder accepted.
    pub fn for_lengths<const N: usize>(b: &[u8; N], exact: usize, f: impl Fn(&[u8]) -> bool) -> bool {
        assert!(exact + 1 <= N);
        let k: u8 = kani::any();
        kani::assume(k < 4);
        match k {
            0 => { let ok = f(&b[..0]); assert!(ok == (exact == 0)); ok }
            1 => { if exact >= 2 { let ok = f(&b[..exact - 1]); assert!(!ok); } false }
            2 => { f(&b[..exact]) }
            _ => { let ok = f(&b[..exact + 1]); assert!(!ok); false }
        }
    }
    /// value -> bytes -> value
    pub fn value_roundtrip<P, T: ParameterizedDecode<P> + Encode + PartialEq>(param: &P, v: &T) {
        let mut out = Vec::new();
        let e = v.encode(&mut out);
        assert!(e.is_ok());
        assert!(v.encoded_len() == Some(out.len()));
        let r = T::get_decoded_with_param(param, &out);
        match &r { Ok(w) => assert!(*w == *v), Err(_) => assert!(false) }
        forget(e); forget(out); forget(r);
    }

    #[kani::proof]
    #[kani::unwind(10)]
    fn ints_roundtrip() {
        let b: [u8; 9] = kani::any();
        let n: usize = kani::any();
        kani::assume(n <= 9);
        let s = &b[..n];
        assert!(canon_check::<(), u8>(&(), s) == (n == 1));
        assert!(canon_check::<(), u16>(&(), s) == (n == 2));
        assert!(canon_check::<(), u32>(&(), s) == (n == 4));
        assert!(canon_check::<(), u64>(&(), s) == (n == 8));
        if n == 2 { let r = u16::get_decoded(s); if let Ok(v) = r { assert!(v == ((s[0] as u16) << 8 | s[1] as u16)); } }
        let (x8, x16, x32, x64): (u8, u16, u32, u64) = (kani::any(), kani::any(), kani::any(), kani::any());
        value_roundtrip::<(), u8>(&(), &x8);
        value_roundtrip::<(), u16>(&(), &x16);
        value_roundtrip::<(), u32>(&(), &x32);
        value_roundtrip::<(), u64>(&(), &x64);
        // trailing bytes
        if n == 3 { let r = u16::get_decoded(s); assert!(matches!(r, Err(CodecError::BytesLeftOver(1)))); forget(r); }
        kani::cover!(n == 8);
    }

    #[kani::proof]
    #[kani::unwind(8)]
    fn fixlen_items_total() {
        let b: [u8; 6] = kani::any();
        let n: usize = kani::any();
        kani::assume(n <= 6);
        let s = &b[..n];
        let pos: u64 = kani::any();
        kani::assume(pos <= n as u64);
        let length: usize = kani::any();          // full domain: a raw wire value may be anything
        let mut c = Cursor::new(s);
        c.set_position(pos);
        let r: Result<Vec<u16>, CodecError> = decode_fixlen_items(length, &(), &mut c);
        let fits = (pos as usize).checked_add(length).map_or(false, |e| e <= n);
        match &r {
            Ok(v) => {
                assert!(fits && length % 2 == 0);
                assert!(v.len() == length / 2);
                assert!(c.position() == pos + length as u64);
                if length >= 2 { assert!(v[0] == ((s[pos as usize] as u16) << 8 | s[pos as usize + 1] as u16)); }
            }
            Err(CodecError::LengthPrefixTooBig(l)) => { assert!(!fits && *l == length); assert!(c.position() == pos); }
            Err(_) => assert!(fits && length % 2 == 1),
        }
        kani::cover!(r.is_ok() && length == 4);
        kani::cover!(!fits);
        forget(r);
    }

    #[kani::proof]
    #[kani::unwind(8)]
    fn u8_u16_u32_items_total() {
        let b: [u8; 6] = kani::any();
        let n: usize = kani::any();
        kani::assume(n <= 6);
        let s = &b[..n];
        let which: u8 = kani::any();
        kani::assume(which < 3);
        let mut c = Cursor::new(s);
        let (r, hdr, want): (Result<Vec<u8>, CodecError>, usize, usize) = match which {
            0 => (decode_u8_items(&(), &mut c), 1, if n >= 1 { s[0] as usize } else { 0 }),
            1 => (decode_u16_items(&(), &mut c), 2, if n >= 2 { (s[0] as usize) << 8 | s[1] as usize } else { 0 }),
            _ => (decode_u32_items(&(), &mut c), 4, if n >= 4 { (s[0] as usize) << 24 | (s[1] as usize) << 16 | (s[2] as usize) << 8 | s[3] as usize } else { 0 }),
        };
        match &r {
            Ok(v) => {
                assert!(n >= hdr && hdr + want <= n);
                assert!(v.len() == want && c.position() as usize == hdr + want);
                let mut i = 0;
                while i < 5 { if i < want { assert!(v[i] == s[hdr + i]); } i += 1; }
            }
            Err(_) => assert!(n < hdr || hdr + want > n),
        }
        kani::cover!(r.is_ok() && want == 2);
        kani::cover!(r.is_err() && n >= hdr);
        forget(r);
    }

    #[kani::proof]
    #[kani::unwind(8)]
    fn items_encode_roundtrip() {
        let items: [u16; 2] = kani::any();
        let k: usize = kani::any();
        kani::assume(k <= 2);
        let which: u8 = kani::any();
        kani::assume(which < 3);
        let mut out = Vec::new();
        out.push(0xAAu8);   // pre-existing content must be left alone
        let e = match which {
            0 => encode_u8_items(&mut out, &(), &items[..k]),
            1 => encode_u16_items(&mut out, &(), &items[..k]),
            _ => encode_u32_items(&mut out, &(), &items[..k]),
        };
        assert!(e.is_ok());
        let hdr = match which { 0 => 1, 1 => 2, _ => 4 };
        assert!(out[0] == 0xAA && out.len() == 1 + hdr + 2 * k);
        assert!(out[hdr] as usize == 2 * k);           // low byte of the big-endian prefix
        let mut c = Cursor::new(&out[1..]);
        let r: Result<Vec<u16>, CodecError> = match which {
            0 => decode_u8_items(&(), &mut c),
            1 => decode_u16_items(&(), &mut c),
            _ => decode_u32_items(&(), &mut c),
        };
        match &r {
            Ok(v) => { assert!(v.len() == k); let mut i = 0; while i < 2 { if i < k { assert!(v[i] == items[i]); } i += 1; } }
            Err(_) => assert!(false),
        }
        kani::cover!(k == 2);
        forget(e); forget(r); forget(out);
    }

    #[kani::proof]
    #[kani::unwind(6)]
    fn fixlen_zero_width_item() {
        let b: [u8; 2] = kani::any();
        let mut c = Cursor::new(&b[..]);
        // precondition of decode_fixlen_items on D (derived from the loop): decode_with_param consumes >= 1 byte.
        // `()` does not meet it: the loop `while sub.position() < length` makes no progress.
        let r: Result<Vec<()>, CodecError> = decode_fixlen_items(1, &(), &mut c);
        forget(r);
    }

    #[kani::proof]
    #[kani::unwind(40)]
    fn items_encode_prefix_overflow() {
        use crate::vdaf::xof::Seed;
        let over: bool = kani::any();
        let b: [u8; 32] = kani::any();
        let mut out = Vec::with_capacity(300);
        let e = if over {
            let items: [Seed<32>; 8] = core::array::from_fn(|_| Seed::from_bytes(b));
            encode_u8_items(&mut out, &(), &items[..])
        } else {
            let items: [Seed<32>; 7] = core::array::from_fn(|_| Seed::from_bytes(b));
            encode_u8_items(&mut out, &(), &items[..])
        };
        if over {
            assert!(matches!(e, Err(CodecError::LengthPrefixOverflow)));
        } else {
            assert!(e.is_ok() && out.len() == 1 + 224 && out[0] == 224);
            let i: usize = kani::any();
            kani::assume(i < 224);
            assert!(out[1 + i] == b[i % 32]);
        }
        kani::cover!(over);
        kani::cover!(!over);
        forget(e); forget(out);
    }
}
