//@inject src/vdaf/prio3.rs
//@harness probe_a | bounded(x) | x
//@harness probe_b | bounded(x) | x
//@harness probe_c | bounded(x) | x
//@harness probe_d | bounded(x) | x
//@harness probe_e | bounded(x) | x
//@harness probe_f | bounded(x) | x
//@harness probe_g | bounded(x) | x
//@harness probe_h | bounded(x) | x
//@harness probe_i | bounded(x) | x
//@harness probe_j | bounded(x) | x
//@harness probe_k | bounded(x) | x
//@harness probe_l | bounded(x) | x
//@harness probe_m | bounded(x) | x
//@harness probe_n | bounded(x) | x
//@harness probe_o | bounded(x) | x
//@harness probe_p | bounded(x) | x
//@harness probe_q | bounded(x) | x
//@harness probe_r | bounded(x) | x
//@harness probe_s | bounded(x) | x
//@harness probe_t | bounded(x) | x
//@harness probe_u | bounded(x) | x
//@harness probe_v | bounded(x) | x
#[cfg(kani)]
mod verif_probe {
    use super::*;
    use crate::verif_common::*;
    fn mk() -> Prio3<Count<Field64>, XofTurboShake128, 32> { Prio3 { num_aggregators: 2, num_proofs: 1, algorithm_id: 1, typ: Count::new(), phantom: PhantomData } }
    #[kani::proof]
    #[kani::unwind(40)]
    fn probe_a() {
        let vdaf = mk();
        let b: [u8; 32] = kani::any();
        let r = Prio3InputShare::<Field64, 32>::get_decoded_with_param(&(&vdaf, 1usize), &b[..]);
        assert!(r.is_ok());
        forget(r); forget(vdaf);
    }
    #[kani::proof]
    #[kani::unwind(40)]
    fn probe_b() {
        let vdaf = mk();
        let b: [u8; 33] = kani::any();
        let n: usize = kani::any();
        kani::assume(n <= 33);
        let r = Prio3InputShare::<Field64, 32>::get_decoded_with_param(&(&vdaf, 1usize), &b[..n]);
        assert!(r.is_ok() == (n == 32));
        forget(r); forget(vdaf);
    }
    #[kani::proof]
    #[kani::unwind(40)]
    fn probe_c() {
        let vdaf = mk();
        let b: [u8; 32] = kani::any();
        let r = Prio3InputShare::<Field64, 32>::get_decoded_with_param(&(&vdaf, 1usize), &b[..]);
        if let Ok(v) = &r {
            let mut out = Vec::new();
            let e = v.encode(&mut out);
            assert!(out.len() == 32);
            assert!(out[5] == b[5]);
            forget(e); forget(out);
        }
        forget(r); forget(vdaf);
    }
    #[kani::proof]
    #[kani::unwind(40)]
    fn probe_d() {
        let b: [u8; 32] = kani::any();
        let r = Seed::<32>::get_decoded(&b[..]);
        if let Ok(v) = &r {
            let mut out = Vec::new();
            let e = v.encode(&mut out);
            assert!(out.len() == 32);
            assert!(out[5] == b[5]);
            forget(e); forget(out);
        }
        forget(r);
    }

    use crate::codec::verif_c07::*;
    #[kani::proof]
    #[kani::unwind(40)]
    fn probe_e() {
        let vdaf = mk();
        let b: [u8; 32] = kani::any();
        let ok = canon_check::<_, Prio3InputShare<Field64, 32>>(&(&vdaf, 1usize), &b[..]);
        assert!(ok);
        forget(vdaf);
    }
    #[kani::proof]
    #[kani::unwind(40)]
    fn probe_f() {
        let vdaf = mk();
        let b: [u8; 72] = kani::any();
        let k: u8 = kani::any();
        kani::assume(k < 4);
        let exact = 32usize;
        let n = match k { 0 => 0, 1 => exact.saturating_sub(1), 2 => exact, _ => exact + 1 };
        let ok = canon_check::<_, Prio3InputShare<Field64, 32>>(&(&vdaf, 1usize), &b[..n]);
        assert!(ok == (n == 32));
        forget(vdaf);
    }
    #[kani::proof]
    #[kani::unwind(40)]
    #[kani::stub(<crate::fp::FP64 as crate::fp::FieldOps<u64>>::mul, crate::verif_common::mul64_stub)]
    fn probe_g() {
        let vdaf = mk();
        let b: [u8; 32] = kani::any();
        let ok = canon_check::<_, Prio3InputShare<Field64, 32>>(&(&vdaf, 1usize), &b[..]);
        assert!(ok);
        forget(vdaf);
    }

    #[kani::proof]
    #[kani::unwind(18)]
    #[kani::stub(<crate::fp::FP64 as crate::fp::FieldOps<u64>>::mul, crate::verif_common::mul64_stub)]
    fn probe_h() {
        let vdaf = mk();
        let b: [u8; 72] = kani::any();
        let ok = for_lengths(&b, 8, |s| canon_check::<_, OutputShare<Field64>>(&(&vdaf, &()), s));
        kani::cover!(ok);
        forget(vdaf);
    }
    #[kani::proof]
    #[kani::unwind(18)]
    #[kani::stub(<crate::fp::FP64 as crate::fp::FieldOps<u64>>::mul, crate::verif_common::mul64_stub)]
    fn probe_i() {
        let vdaf = mk();
        let b: [u8; 8] = kani::any();
        let ok = canon_check::<_, OutputShare<Field64>>(&(&vdaf, &()), &b[..]);
        kani::cover!(ok);
        forget(vdaf);
    }
    #[kani::proof]
    #[kani::unwind(18)]
    #[kani::stub(<crate::fp::FP64 as crate::fp::FieldOps<u64>>::mul, crate::verif_common::mul64_stub)]
    fn probe_j() {
        let vdaf = mk();
        let b: [u8; 8] = kani::any();
        let r = OutputShare::<Field64>::get_decoded_with_param(&(&vdaf, &()), &b[..]);
        kani::cover!(r.is_ok());
        forget(r);
        forget(vdaf);
    }

    #[kani::proof]
    #[kani::unwind(18)]
    #[kani::stub(<crate::fp::FP64 as crate::fp::FieldOps<u64>>::mul, crate::verif_common::mul64_stub)]
    fn probe_k() {
        let vdaf = mk();
        let b: [u8; 8] = kani::any();
        let r = OutputShare::<Field64>::get_decoded_with_param(&(&vdaf, &()), &b[..]);
        if let Ok(v) = &r {
            let mut out = Vec::with_capacity(16);
            let e = v.encode(&mut out);
            assert!(out.len() == 8);
            forget(e); forget(out);
        }
        forget(r);
        forget(vdaf);
    }
    #[kani::proof]
    #[kani::unwind(18)]
    #[kani::stub(<crate::fp::FP64 as crate::fp::FieldOps<u64>>::mul, crate::verif_common::mul64_stub)]
    fn probe_l() {
        let vdaf = mk();
        let b: [u8; 8] = kani::any();
        let r = OutputShare::<Field64>::get_decoded_with_param(&(&vdaf, &()), &b[..]);
        if let Ok(v) = &r {
            let a = <[u8; 8]>::from(v.0[0]);
            assert!(a == b);
        }
        forget(r);
        forget(vdaf);
    }
    #[kani::proof]
    #[kani::unwind(18)]
    #[kani::stub(<crate::fp::FP64 as crate::fp::FieldOps<u64>>::mul, crate::verif_common::mul64_stub)]
    fn probe_m() {
        let b: [u8; 8] = kani::any();
        let r = Field64::get_decoded(&b[..]);
        if let Ok(v) = &r {
            let mut out = Vec::new();
            let e = v.encode(&mut out);
            assert!(out.len() == 8);
            assert!(out[..] == b[..]);
            forget(e); forget(out);
        }
        forget(r);
    }

    #[kani::proof]
    #[kani::unwind(18)]
    fn probe_n() {
        let b: [u8; 8] = kani::any();
        let mut out: Vec<u8> = Vec::with_capacity(16);
        out.extend_from_slice(&b);
        out.extend_from_slice(&b);
        assert!(out.len() == 16 && out[9] == b[1]);
        forget(out);
    }
    #[kani::proof]
    #[kani::unwind(18)]
    #[kani::stub(<crate::fp::FP64 as crate::fp::FieldOps<u64>>::mul, crate::verif_common::mul64_stub)]
    fn probe_o() {
        // encode only, of a well-formed symbolic element
        let e = crate::field::verif_field_util::any64();
        let v = OutputShare::<Field64>::from(vec![e]);
        let mut out = Vec::with_capacity(16);
        let r = v.encode(&mut out);
        assert!(out.len() == 8);
        forget(r); forget(out); forget(v);
    }
    #[kani::proof]
    #[kani::unwind(18)]
    fn probe_p() {
        // no mul stub: real montgomery is only *executed symbolically*, never asserted on
        let vdaf = mk();
        let b: [u8; 8] = kani::any();
        let r = OutputShare::<Field64>::get_decoded_with_param(&(&vdaf, &()), &b[..]);
        if let Ok(v) = &r {
            let mut out = Vec::with_capacity(16);
            let e = v.encode(&mut out);
            assert!(out.len() == 8);
            forget(e); forget(out);
        }
        forget(r);
        forget(vdaf);
    }

    #[kani::proof]
    #[kani::unwind(18)]
    #[kani::stub(<crate::fp::FP64 as crate::fp::FieldOps<u64>>::mul, crate::verif_common::mul64_id_stub)]
    fn probe_q() {
        let vdaf = mk();
        let b: [u8; 8] = kani::any();
        let r = OutputShare::<Field64>::get_decoded_with_param(&(&vdaf, &()), &b[..]);
        match r {
            Ok(v) => {
                let mut out = Vec::with_capacity(16);
                let e = v.encode(&mut out);
                assert!(out.len() == 8);
                assert!(out[..] == b[..]);
                forget(e); forget(out); forget(v);
            }
            Err(e) => forget(e),
        }
        forget(vdaf);
    }
    #[kani::proof]
    #[kani::unwind(18)]
    #[kani::stub(<crate::fp::FP64 as crate::fp::FieldOps<u64>>::mul, crate::verif_common::mul64_id_stub)]
    fn probe_r() {
        let vdaf = mk();
        let b: [u8; 8] = kani::any();
        let r = OutputShare::<Field64>::get_decoded_with_param(&(&vdaf, &()), &b[..]);
        if let Ok(v) = &r {
            // copy the element out of the heap object first
            let e0: Field64 = v.0[0];
            let w = OutputShare::<Field64>::from(vec![e0]);
            let mut out = Vec::with_capacity(16);
            let e = w.encode(&mut out);
            assert!(out.len() == 8);
            assert!(out[..] == b[..]);
            forget(e); forget(out); forget(w);
        }
        forget(r);
        forget(vdaf);
    }

    #[kani::proof]
    #[kani::unwind(18)]
    #[kani::stub(<crate::fp::FP64 as crate::fp::FieldOps<u64>>::mul, crate::verif_common::mul64_id_stub)]
    fn probe_s() {
        let vdaf = mk();
        let b: [u8; 72] = kani::any();
        let ok = for_lengths(&b, 8, |s| canon_check_rb::<_, OutputShare<Field64>>(&(&vdaf, &()), s, |v| Some(OutputShare::from(rebuild_vec(v.as_ref())))));
        kani::cover!(ok);
        forget(vdaf);
    }
    #[kani::proof]
    #[kani::unwind(18)]
    #[kani::stub(<crate::fp::FP64 as crate::fp::FieldOps<u64>>::mul, crate::verif_common::mul64_id_stub)]
    fn probe_t() {
        let vdaf = mk();
        let b: [u8; 8] = kani::any();
        let ok = canon_check_rb::<_, OutputShare<Field64>>(&(&vdaf, &()), &b[..], |v| Some(OutputShare::from(rebuild_vec(v.as_ref()))));
        kani::cover!(ok);
        forget(vdaf);
    }
    #[kani::proof]
    #[kani::unwind(18)]
    #[kani::stub(<crate::fp::FP64 as crate::fp::FieldOps<u64>>::mul, crate::verif_common::mul64_id_stub)]
    fn probe_u() {
        let vdaf = mk();
        let b: [u8; 8] = kani::any();
        let ok = canon_check_rb::<_, OutputShare<Field64>>(&(&vdaf, &()), &b[..], |v| Some(OutputShare::from(vec![v.0[0]])));
        kani::cover!(ok);
        forget(vdaf);
    }

    #[kani::proof]
    #[kani::unwind(18)]
    #[kani::stub(<crate::fp::FP64 as crate::fp::FieldOps<u64>>::mul, crate::verif_common::mul64_id_stub)]
    fn probe_v() {
        let vdaf = mk();
        let b: [u8; 72] = kani::any();
        let ok = for_lengths(&b, 8, |s| canon_check_rb::<_, OutputShare<Field64>>(&(&vdaf, &()), s, |v| Some(OutputShare::from(vec![v.0[0]]))));
        kani::cover!(ok);
        forget(vdaf);
    }
}
