//@inject src/field.rs
//@harness fp32_add_sub_full | complete | FP32 add/sub/neg: r<p and r == (x±y) mod p for all x,y<p (cross-check of the Verus contract, gives counterexamples)
//@harness fp64_add_sub_full | complete | FP64 add/sub/neg: r<p and r == (x±y) mod p for all x,y<p
//@harness fp128_add_sub_full | complete | FP128 add/sub/neg: r<p and r == (x±y) mod p for all x,y<p
//@harness field64_bytes | complete | Field64::try_from_bytes: LE integer, mask applied, >=p => ModulusOverflow, short => ShortRead; [u8;8]::from is LE of residue; round trip via contract-stubbed mul
//@harness field32_bytes | complete | FieldPrio2::try_from_bytes / [u8;4]::from, as field64_bytes
//@harness field128_bytes | complete | Field128::try_from_bytes / [u8;16]::from, as field64_bytes
#[cfg(kani)]
mod verif_c09_field {
    use super::*;
    use crate::verif_common::*;

    macro_rules! addsub {
        ($name:ident, $fp:ident, $w:ty) => {
            #[kani::proof]
            fn $name() {
                let p = $fp::PRIME;
                let x: $w = kani::any();
                let y: $w = kani::any();
                kani::assume(x < p && y < p);
                let s = $fp::add(x, y);
                // spec without widening: (x+y) mod p
                let spec_add = if x >= p - y { x - (p - y) } else { x + y };
                assert!(s < p);
                assert!(s == spec_add);
                let d = $fp::sub(x, y);
                let spec_sub = if x >= y { x - y } else { x + (p - y) };
                assert!(d < p);
                assert!(d == spec_sub);
                let n = $fp::neg(x);
                assert!(n < p);
                assert!(n == if x == 0 { 0 } else { p - x });
                // modp as used by montgomery()/residue(): identity below p
                assert!($fp::modp(x) == x);
                kani::cover!(x >= p - y && y > 0);
                kani::cover!(x < y);
            }
        };
    }
    addsub!(fp32_add_sub_full, FP32, u32);
    addsub!(fp64_add_sub_full, FP64, u64);
    addsub!(fp128_add_sub_full, FP128, u128);

    macro_rules! bytes {
        ($name:ident, $elem:ident, $fp:ident, $w:ty, $n:expr, $stub:ident) => {
            #[kani::proof]
            #[kani::unwind(18)]
            #[kani::stub(<crate::fp::$fp as crate::fp::FieldOps<$w>>::mul, crate::verif_common::$stub)]
            fn $name() {
                let p = $fp::PRIME;
                let b: [u8; $n] = kani::any();
                let mask: $w = kani::any();
                kani::assume(mask == <$w>::MAX || mask == $fp::BIT_MASK);
                let mut int: $w = 0;
                let mut i = 0;
                while i < $n { int |= (b[i] as $w) << (8 * i); i += 1; }
                assert!(int == <$w>::from_le_bytes(b));
                let want = int & mask;
                let r = $elem::try_from_bytes(&b, mask);
                match &r {
                    Ok(e) => {
                        assert!(want < p);
                        assert!(e.0 < p);                                // representation invariant
                        assert!(e.0 == $fp::montgomery(want));           // same memoised contract stub
                        let out = <[u8; $n]>::from(*e);
                        let back = <$w>::from_le_bytes(out);
                        assert!(back == $fp::residue(e.0));
                        assert!(back == want);                           // S2: residue(montgomery(v)) == v
                        if mask == <$w>::MAX { assert!(out == b); }      // canonical: re-encoding is identical
                    }
                    Err(FieldError::ModulusOverflow) => assert!(want >= p),
                    Err(_) => assert!(false),
                }
                kani::cover!(r.is_ok());
                kani::cover!(r.is_err());
                forget(r);
                // short input
                let l: usize = kani::any();
                kani::assume(l < $n);
                let r2 = $elem::try_from_bytes(&b[..l], mask);
                assert!(matches!(r2, Err(FieldError::ShortRead)));
                forget(r2);
            }
        };
    }
    bytes!(field32_bytes, FieldPrio2, FP32, u32, 4, mul32_stub);
    bytes!(field64_bytes, Field64, FP64, u64, 8, mul64_stub);
    bytes!(field128_bytes, Field128, FP128, u128, 16, mul128_stub);
}
