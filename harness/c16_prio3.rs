//@inject src/vdaf/prio3.rs
//@harness p3_role_try_from | complete | role_try_from: Ok(agg_id as u8) iff agg_id < num_aggregators, Err otherwise, for every usize agg_id and u8 num_aggregators (no unwrap panic)
//@harness p3_random_size | complete | random_size == SEED_SIZE * n (no joint randomness) or 2 * SEED_SIZE * n, no overflow for every u8 n
//@harness p3_new_guards | complete | Prio3::new: Ok iff 1 <= num_aggregators <= 254 and num_proofs >= 1; fields stored verbatim
//@harness p3_shard_wrong_random_len | bounded(random<=40 bytes, 2 aggregators) | shard_with_random: random.len() != random_size() => Err (no panic, no slicing)
//@harness p3_vs2m_share_count_small | bounded(0..4 shares, 2 aggregators) | verifier_shares_to_message: Ok only for exactly num_aggregators shares; any other count => Err
//@harness p3_vs2m_share_count_256 | bounded(256 shares) | verifier_shares_to_message: 256 shares => Err without panic (the share counter does not overflow)
//@harness p3_vs2m_share_count_258 | bounded(258 shares) | verifier_shares_to_message: 256 + num_aggregators shares => Err (the share counter does not wrap around to num_aggregators)
//@harness p3_vs2m_share_len | bounded(2 aggregators, share lengths 0..2) | verifier_shares_to_message: a verifier share of the wrong length => Err before it is added
//@harness p3_vs2m_decide_all_proofs | bounded(2 proofs) | verifier_shares_to_message: decide() is consulted once per proof on the sum of the shares for THAT proof, with independent outcomes per proof; the report is accepted only if EVERY proof is accepted (any false/Err => Err); joint rand seed derived from ALL parts in aggregator order
//@harness p3_verify_next_seed_compare | complete | verify_next (joint randomness): Err unless ALL 16 seed bytes agree; on agreement the leader's output share is released unchanged
#[cfg(kani)]
mod verif_c16_prio3 {
    use super::verif_sym::*;
    use super::*;
    use crate::field::verif_field_util::*;
    use crate::verif_common::*;

    #[kani::proof]
    fn p3_role_try_from() {
        let vdaf = sym_prio3(kani::any(), 1, 0, 0);
        let agg_id: usize = kani::any();
        let r = vdaf.role_try_from(agg_id);
        match &r { Ok(id) => assert!(agg_id < vdaf.num_aggregators as usize && *id as usize == agg_id), Err(_) => assert!(agg_id >= vdaf.num_aggregators as usize) }
        kani::cover!(r.is_ok());
        kani::cover!(r.is_err());
        forget(r); forget(vdaf);
    }

    #[kani::proof]
    fn p3_random_size() {
        let jr: usize = kani::any();
        kani::assume(jr <= 1);
        let vdaf = sym_prio3(kani::any(), 1, 0, jr);
        let n = vdaf.num_aggregators as usize;
        assert!(vdaf.random_size() == if jr == 0 { 16 * n } else { 32 * n });
        forget(vdaf);
    }

    #[kani::proof]
    #[kani::stub(alloc::fmt::format, crate::verif_common::format_stub)]
    fn p3_new_guards() {
        let (na, np, id): (u8, u8, u32) = (kani::any(), kani::any(), kani::any());
        let typ = SymType { input_len: 1, proof_len: 1, verifier_len: 1, joint_rand_len: 0, prove_rand_len: 1, query_rand_len: 1, output_len: 1 };
        let r = Prio3::<SymType, RecXof, 16>::new(na, np, id, typ);
        match &r {
            Ok(v) => assert!(na >= 1 && na <= 254 && np >= 1 && v.num_aggregators == na && v.num_proofs == np && v.algorithm_id == id),
            Err(_) => assert!(na == 0 || na > 254 || np == 0),
        }
        kani::cover!(r.is_ok());
        forget(r);
    }

    #[kani::proof]
    #[kani::unwind(4)]
    fn p3_shard_wrong_random_len() {
        let jr: usize = kani::any();
        kani::assume(jr <= 1);
        let vdaf = sym_prio3(2, 1, 0, jr);
        let rb: [u8; 80] = kani::any();
        let n: usize = kani::any();
        kani::assume(n <= 80 && n != vdaf.random_size());
        let r = vdaf.shard_with_random(b"", &0u8, &[0u8; 16], &rb[..n]);
        assert!(r.is_err());
        kani::cover!(n == 33);
        forget(r); forget(vdaf);
    }

    fn share1() -> Prio3VerifierShare<Field64, 16> { Prio3VerifierShare { verifiers: vec![Field64::zero()], joint_rand_part: None } }

    macro_rules! count_h {
        ($name:ident, $n:expr, $unwind:expr) => {
            #[kani::proof]
            #[kani::unwind($unwind)]
            #[kani::stub(alloc::fmt::format, crate::verif_common::format_stub)]
            fn $name() {
                let vdaf = sym_prio3(2, 1, 0, 0);
                unsafe { DECIDE_RESULT = 1; }
                let n: usize = $n;                 // concrete count: a symbolic loop bound of this size is intractable
                let r = vdaf.verifier_shares_to_message(b"", &(), (0..n).map(|_| share1()));
                assert!(r.is_ok() == (n == 2));
                forget(r); forget(vdaf);
            }
        };
    }
    count_h!(p3_vs2m_share_count_small, { let k: u8 = kani::any(); kani::assume(k < 5); k as usize }, 8);
    count_h!(p3_vs2m_share_count_256, 256, 260);
    count_h!(p3_vs2m_share_count_258, 258, 262);

    #[kani::proof]
    #[kani::unwind(6)]
    #[kani::stub(alloc::fmt::format, crate::verif_common::format_stub)]
    fn p3_vs2m_share_len() {
        let vdaf = sym_prio3(2, 1, 0, 0);
        unsafe { DECIDE_RESULT = 1; }
        let k: u8 = kani::any();
        kani::assume(k < 3);
        let bad = match k { 0 => Prio3VerifierShare::<Field64, 16> { verifiers: vec![], joint_rand_part: None }, 1 => share1(), _ => Prio3VerifierShare { verifiers: vec![Field64::zero(), Field64::zero()], joint_rand_part: None } };
        let first: bool = kani::any();
        let shares = if first { [bad, share1()] } else { [share1(), bad] };
        let r = vdaf.verifier_shares_to_message(b"", &(), shares);
        assert!(r.is_ok() == (k == 1));
        forget(r); forget(vdaf);
    }

    #[kani::proof]
    #[kani::unwind(40)]
    fn p3_vs2m_decide_all_proofs() {
        let mut vdaf = sym_prio3(2, 2, kani::any(), 1);
        // the outcome of decide() is chosen independently for each proof
        let (d0, d1): (u8, u8) = (kani::any(), kani::any());
        kani::assume(d0 < 3 && d1 < 3);
        let d = if d0 == 1 && d1 == 1 { 1 } else { 0 };
        unsafe { DECIDE_PER_CALL = [d0, d1, 255, 255]; DECIDE_CALLS = 0; }
        let (p0, p1): ([u8; 16], [u8; 16]) = (kani::any(), kani::any());
        let (a0, a1, b0, b1) = (any64(), any64(), any64(), any64());
        let s0 = Prio3VerifierShare::<Field64, 16> { verifiers: vec![a0, a1], joint_rand_part: Some(Seed::from_bytes(p0)) };
        let s1 = Prio3VerifierShare::<Field64, 16> { verifiers: vec![b0, b1], joint_rand_part: Some(Seed::from_bytes(p1)) };
        reset_transcript();
        let r = vdaf.verifier_shares_to_message(b"c", &(), [s0, s1]);
        match &r {
            Ok(m) => {
                assert!(d == 1);
                assert!(unsafe { DECIDE_CALLS } == 2);                  // every proof's verifier is decided
                // ... on the SUM of the aggregators' verifier shares for that proof (proof p = elements [p*verifier_len, (p+1)*verifier_len))
                assert!(unsafe { DECIDE_ARG0[0] } == raw64(a0 + b0) && unsafe { DECIDE_ARG0[1] } == raw64(a1 + b1));
                assert!(m.joint_rand_seed.is_some());
                unsafe {
                    assert!(T_INITS == 1 && T_BIND_LEN == 32);
                    let mut i = 0;
                    while i < 16 { assert!(T_BIND[i] == p0[i] && T_BIND[16 + i] == p1[i]); i += 1; }
                    assert!(T_DST[7] == DST_JOINT_RAND_SEED as u8 && T_DST[8] == b'c');
                }
            }
            Err(_) => assert!(d != 1),
        }
        kani::cover!(r.is_ok());
        kani::cover!(r.is_err());
        vdaf.num_proofs = 2;
        forget(r); forget(vdaf);
    }

    #[kani::proof]
    #[kani::unwind(20)]
    fn p3_verify_next_seed_compare() {
        let vdaf = sym_prio3(2, 1, 0, 1);
        let (a, b): ([u8; 16], [u8; 16]) = (kani::any(), kani::any());
        let o = any64();
        let st = Prio3VerifyState::<Field64, 16> { share: Share::Leader(vec![o]), joint_rand_seed: Some(Seed::from_bytes(a)), agg_id: 0, verifiers_len: 1 };
        let msg = Prio3VerifierMessage::<16> { joint_rand_seed: Some(Seed::from_bytes(b)) };
        let r = vdaf.verify_next(b"", st, msg);
        match &r {
            Ok(VerifyTransition::Finish(out)) => { assert!(a == b); assert!(out.as_ref().len() == 1 && raw64(out.as_ref()[0]) == raw64(o)); }
            Ok(_) => assert!(false),
            Err(_) => assert!(a != b),      // no output share on mismatch
        }
        kani::cover!(r.is_ok());
        kani::cover!(r.is_err() && a[15] != b[15] && a[0] == b[0]);
        forget(r); forget(vdaf);
    }
}
