//@inject src/field.rs
//@harness add_laws32 | complete | FieldPrio2 +: commutative, associative, zero identity, for all elements
//@harness add_laws64 | complete | Field64 +: commutative, associative, zero identity, for all elements
//@harness add_laws128 | complete | Field128 +: commutative, associative, zero identity, for all elements
//@harness merge_vector_contract64 | bounded(len<=3) | merge_vector<Field64>: length mismatch => Err(InputSizeMismatch) and accumulator unchanged; else acc[i] == old[i] + other[i] for every i
//@harness merge_vector_contract128 | bounded(len<=3) | merge_vector<Field128>: same contract
//@harness merge_vector_contract32 | bounded(len<=3) | merge_vector<FieldPrio2>: same contract
#[cfg(kani)]
mod verif_c13_field {
    use super::*;
    use crate::field::verif_field_util::*;
    use crate::verif_common::*;

    macro_rules! laws {
        ($name:ident, $any:ident, $elem:ident) => {
            #[kani::proof]
            fn $name() {
                let (x, y, z) = ($any(), $any(), $any());
                assert!((x + y).0 == (y + x).0);
                assert!(((x + y) + z).0 == (x + (y + z)).0);
                assert!((x + $elem::zero()).0 == x.0);
                assert!(($elem::zero() + x).0 == x.0);
                let mut a = x; a += y;
                assert!(a.0 == (x + y).0);
                kani::cover!(x.0 > 0 && y.0 > 0);
            }
        };
    }
    laws!(add_laws32, any32, FieldPrio2);
    laws!(add_laws64, any64, Field64);
    laws!(add_laws128, any128, Field128);

    macro_rules! mergev {
        ($name:ident, $any:ident, $elem:ident) => {
            #[kani::proof]
            #[kani::unwind(5)]
            fn $name() {
                // symbolic-length slices of fixed arrays: no allocation, lengths 0..=3 each
                let mut a = [$any(), $any(), $any()];
                let b = [$any(), $any(), $any()];
                let old = a;
                let (la, lb): (usize, usize) = (kani::any(), kani::any());
                kani::assume(la <= 3 && lb <= 3);
                let r = merge_vector(&mut a[..la], &b[..lb]);
                let mut i = 0;
                while i < 3 {
                    if r.is_ok() && i < la { assert!(a[i].0 == (old[i] + b[i]).0); }   // pointwise sum
                    else { assert!(a[i].0 == old[i].0); }                              // frame: untouched / unchanged on error
                    i += 1;
                }
                match &r {
                    Ok(()) => assert!(la == lb),
                    Err(FieldError::InputSizeMismatch) => assert!(la != lb),
                    Err(_) => assert!(false),
                }
                kani::cover!(r.is_ok() && la == 3);
                kani::cover!(r.is_err());
                forget(r);
            }
        };
    }
    mergev!(merge_vector_contract64, any64, Field64);
    mergev!(merge_vector_contract128, any128, Field128);
    mergev!(merge_vector_contract32, any32, FieldPrio2);
}
