//@inject src/vdaf/prio3.rs
//@harness p3_dst_tag | complete | Prio3::domain_separation_tag(usage) == [VERSION, 0, algorithm_id (BE), usage (BE)] for every algorithm id and usage
//@harness p3_query_rands_transcript | bounded(ctx<=2 bytes) | derive_query_rands absorbs exactly: seed=verify_key, dst = tag(QUERY_RANDOMNESS) || ctx, binder = [num_proofs] || nonce (all 16 nonce bytes), for every key/ctx/nonce/num_proofs/algorithm id
//@harness p3_joint_rand_seed_transcript | bounded(ctx<=2 bytes, parts<=2) | derive_joint_rand_seed absorbs: zero seed, dst = tag(JOINT_RAND_SEED) || ctx, binder = concatenation of ALL parts in order
//@harness p3_helper_proofs_transcript | bounded(ctx<=2 bytes) | derive_helper_proofs_share absorbs: seed, dst = tag(PROOF_SHARE) || ctx, binder = [num_proofs, agg_id]
//@harness p3_prove_rands_transcript | bounded(ctx<=2 bytes) | derive_prove_rands absorbs: seed, dst = tag(PROVE_RANDOMNESS) || ctx, binder = [num_proofs]
#[cfg(kani)]
mod verif_c18_prio3 {
    use super::verif_sym::*;
    use super::*;
    use crate::verif_common::*;

    fn any_ctx<'a>(b: &'a [u8; 2]) -> &'a [u8] { let k: u8 = kani::any(); kani::assume(k < 3); match k { 0 => &b[..0], 1 => &b[..1], _ => &b[..2] } }
    fn check_dst(vdaf: &SymPrio3, usage: u16, ctx: &[u8]) {
        unsafe {
            assert!(T_DST_LEN == 8 + ctx.len());
            assert!(T_DST[0] == VERSION && T_DST[1] == 0);
            let id = vdaf.algorithm_id.to_be_bytes();
            assert!(T_DST[2] == id[0] && T_DST[3] == id[1] && T_DST[4] == id[2] && T_DST[5] == id[3]);
            assert!(T_DST[6] == (usage >> 8) as u8 && T_DST[7] == usage as u8);
            let mut i = 0;
            while i < 2 { if i < ctx.len() { assert!(T_DST[8 + i] == ctx[i]); } i += 1; }
        }
    }

    #[kani::proof]
    fn p3_dst_tag() {
        let vdaf = sym_prio3(2, 1, kani::any(), 0);
        let usage: u16 = kani::any();
        let t = vdaf.domain_separation_tag(usage);
        let id = vdaf.algorithm_id.to_be_bytes();
        let us = usage.to_be_bytes();
        assert!(t == [VERSION, 0, id[0], id[1], id[2], id[3], us[0], us[1]]);
        assert!(VERSION == 18);
        forget(vdaf);
    }

    #[kani::proof]
    #[kani::unwind(40)]
    #[kani::stub(<crate::fp::FP64 as crate::fp::FieldOps<u64>>::mul, crate::verif_common::mul64_id_stub)]
    fn p3_query_rands_transcript() {
        let vdaf = sym_prio3_norand(2, kani::any(), kani::any());
        let key: [u8; 16] = kani::any();
        let nonce: [u8; 16] = kani::any();
        let cb: [u8; 2] = kani::any();
        let ctx = any_ctx(&cb);
        reset_transcript();
        let r = vdaf.derive_query_rands(&key, ctx, &nonce);
        assert!(r.len() == 0);
        unsafe {
            assert!(T_INITS == 1 && T_SEED == key);
            check_dst(&vdaf, DST_QUERY_RANDOMNESS, ctx);
            assert!(T_BIND_LEN == 17 && T_BIND[0] == vdaf.num_proofs);
            let mut i = 0;
            while i < 16 { assert!(T_BIND[1 + i] == nonce[i]); i += 1; }
        }
        forget(r); forget(vdaf);
    }

    #[kani::proof]
    #[kani::unwind(40)]
    fn p3_joint_rand_seed_transcript() {
        let vdaf = sym_prio3(2, 1, kani::any(), 1);
        let p0: [u8; 16] = kani::any();
        let p1: [u8; 16] = kani::any();
        let cb: [u8; 2] = kani::any();
        let ctx = any_ctx(&cb);
        let parts = [Seed::from_bytes(p0), Seed::from_bytes(p1)];
        reset_transcript();
        let s = vdaf.derive_joint_rand_seed(ctx, parts.iter());
        unsafe {
            assert!(T_INITS == 1 && T_SEED == [0u8; 16]);
            check_dst(&vdaf, DST_JOINT_RAND_SEED, ctx);
            assert!(T_BIND_LEN == 32);
            let mut i = 0;
            while i < 16 { assert!(T_BIND[i] == p0[i] && T_BIND[16 + i] == p1[i]); i += 1; }
        }
        forget(s); forget(vdaf);
    }

    #[kani::proof]
    #[kani::unwind(40)]
    fn p3_helper_proofs_transcript() {
        let vdaf = sym_prio3(kani::any(), kani::any(), kani::any(), 0);
        let seed: [u8; 16] = kani::any();
        let agg_id: u8 = kani::any();
        let cb: [u8; 2] = kani::any();
        let ctx = any_ctx(&cb);
        reset_transcript();
        let p = vdaf.derive_helper_proofs_share(ctx, &Seed::from_bytes(seed), agg_id);
        unsafe {
            assert!(T_INITS == 1 && T_SEED == seed);
            check_dst(&vdaf, DST_PROOF_SHARE, ctx);
            assert!(T_BIND_LEN == 2 && T_BIND[0] == vdaf.num_proofs && T_BIND[1] == agg_id);
        }
        forget(p); forget(vdaf);
    }

    #[kani::proof]
    #[kani::unwind(40)]
    #[kani::stub(<crate::fp::FP64 as crate::fp::FieldOps<u64>>::mul, crate::verif_common::mul64_id_stub)]
    fn p3_prove_rands_transcript() {
        let vdaf = sym_prio3_norand(2, kani::any(), kani::any());
        let seed: [u8; 16] = kani::any();
        let cb: [u8; 2] = kani::any();
        let ctx = any_ctx(&cb);
        reset_transcript();
        let r = vdaf.derive_prove_rands(ctx, &Seed::from_bytes(seed));
        assert!(r.len() == 0);
        unsafe {
            assert!(T_INITS == 1 && T_SEED == seed);
            check_dst(&vdaf, DST_PROVE_RANDOMNESS, ctx);
            assert!(T_BIND_LEN == 1 && T_BIND[0] == vdaf.num_proofs);
        }
        forget(r); forget(vdaf);
    }
}
