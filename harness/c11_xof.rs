//@inject src/vdaf/xof.rs
//@harness aes_fill_0 | bounded(read 0 bytes; in-block offsets {0,1,7,8,15}) | SeedStreamFixedKeyAes128::fill: for EVERY block counter, buf[i] == stream(position + i) where stream(P) = hash_block(base_block ^ le(P/16))[P % 16]; length_consumed advances by exactly buf.len(); nothing written past the request
//@harness aes_fill_1 | bounded(read 1 byte; offsets {0,1,7,8,15}) | same contract
//@harness aes_fill_9 | bounded(read 9 bytes; offsets {0,1,7,8,15}) | same contract (read crossing a block boundary)
//@harness aes_fill_16 | bounded(read 16 bytes; offsets {0,1,7,8,15}) | same contract
//@harness aes_fill_17 | bounded(read 17 bytes; offsets {0,1,7,8,15}) | same contract
//@harness aes_fill_33 | bounded(read 33 bytes; offsets {0,1,7,8,15}) | same contract (three or four blocks)
//@harness aes_fill_chunking | bounded(read splits (5,16),(16,1),(1,31),(9,0); offsets {0,1,7,8,15}) | fill(a) then fill(b) yields the same bytes as one fill(a+b) from the same position, for every block counter
#[cfg(kani)]
mod verif_c11_xof {
    use super::*;
    use crate::verif_common::*;

    // hash_block is an arbitrary function of the 16-byte block as far as fill() is concerned: it never
    // inspects the result, only copies it.  The harness instance is the identity, so the stream byte at
    // position P is (base_block ^ le(P/16))[P % 16] and every (counter, offset) pair is distinguishable.
    fn hash_block_stub(_s: &SeedStreamFixedKeyAes128, _block: &mut Block) {}

    fn mk(base: [u8; 16], pos: u64) -> SeedStreamFixedKeyAes128 {
        // the cipher is never touched (hash_block is stubbed)
        SeedStreamFixedKeyAes128 { cipher: unsafe { core::mem::MaybeUninit::zeroed().assume_init() }, base_block: Block::from(base), length_consumed: pos }
    }
    fn stream(base: &[u8; 16], p: u64) -> u8 {
        let ctr = (p / 16).to_le_bytes();
        let o = (p % 16) as usize;
        if o < 8 { base[o] ^ ctr[o] } else { base[o] }
    }

    fn pick_off() -> u64 { let k: u8 = kani::any(); kani::assume(k < 5); match k { 0 => 0, 1 => 1, 2 => 7, 3 => 8, _ => 15 } }

    macro_rules! fill_h {
        ($name:ident, $n:expr) => {
            #[kani::proof]
            #[kani::unwind(20)]
            #[kani::stub(SeedStreamFixedKeyAes128::hash_block, hash_block_stub)]
            fn $name() {
                let base: [u8; 16] = kani::any();
                let q: u64 = kani::any();                   // EVERY block counter
                kani::assume(q <= (u64::MAX - 64) / 16);
                let pos = q * 16 + pick_off();             // offsets inside the block: boundary lattice (concrete per path)
                let mut s = mk(base, pos);
                let mut buf = [0u8; 48];
                const N: usize = $n;
                s.fill(&mut buf[..N]);
                assert!(s.length_consumed == pos + N as u64);
                let i: usize = kani::any();
                kani::assume(i < 48);
                if i < N { assert!(buf[i] == stream(&base, pos + i as u64)); } else { assert!(buf[i] == 0); }
                forget(s);
            }
        };
    }
    fill_h!(aes_fill_0, 0);
    fill_h!(aes_fill_1, 1);
    fill_h!(aes_fill_9, 9);
    fill_h!(aes_fill_16, 16);
    fill_h!(aes_fill_17, 17);
    fill_h!(aes_fill_33, 33);

    #[kani::proof]
    #[kani::unwind(20)]
    #[kani::stub(SeedStreamFixedKeyAes128::hash_block, hash_block_stub)]
    fn aes_fill_chunking() {
        let base: [u8; 16] = kani::any();
        let q: u64 = kani::any();
        kani::assume(q <= (u64::MAX - 64) / 16);
        let pos = q * 16 + pick_off();
        let mut s1 = mk(base, pos);
        let mut s2 = mk(base, pos);
        let mut one = [0u8; 32];
        let mut two = [0u8; 32];
        let k: u8 = kani::any();
        kani::assume(k < 4);
        // (a, b) read sizes, concrete per path
        match k {
            0 => { s1.fill(&mut one[..21]); s2.fill(&mut two[..5]); s2.fill(&mut two[5..21]); }
            1 => { s1.fill(&mut one[..17]); s2.fill(&mut two[..16]); s2.fill(&mut two[16..17]); }
            2 => { s1.fill(&mut one[..32]); s2.fill(&mut two[..1]); s2.fill(&mut two[1..32]); }
            _ => { s1.fill(&mut one[..9]); s2.fill(&mut two[..9]); s2.fill(&mut two[9..9]); }
        }
        assert!(s1.length_consumed == s2.length_consumed);
        let i: usize = kani::any();
        kani::assume(i < 32);
        assert!(one[i] == two[i]);
        forget(s1); forget(s2);
    }
}
