//@inject src/vdaf/xof.rs
//@harness ts_from_seed_slice_transcript_short | bounded(dst parts of 8 + (0..=2) bytes, seed 16 or 32 bytes) | XofTurboShake128::from_seed_slice absorbs exactly: le16(total dst length) || dst parts in order || [seed length] || seed  (the hasher's update is an append to a ghost transcript)
//@harness ts_from_seed_slice_transcript_long | bounded(dst = 8-byte tag + a 200-byte context, seed 32 bytes) | same contract for a domain-separation string longer than one TurboSHAKE block (168 bytes): every byte of the context is absorbed, in order
//@harness ts_update_transcript | bounded(binder parts of 1 and 16 bytes) | Xof::update appends every byte of every binder part in order after the seed
// The sponge is uninterpreted: <TurboShake<168,1> as Update>::update is replaced by "append to the ghost transcript"
// (that update(a);update(b) == update(a||b) is the incremental-hash property of the turboshake crate: assumed).
#[cfg(kani)]
#[allow(static_mut_refs, dead_code)]
mod verif_c11_turboshake {
    use super::*;
    use crate::verif_common::*;

    const TL: usize = 320;
    static mut TR: [u8; TL] = [0; TL];
    static mut TR_LEN: usize = 0;
    fn rec_update(_h: &mut CTurboShake128<XOF_TURBO_SHAKE_128_DOMAIN_SEPARATION>, data: &[u8]) {
        unsafe {
            let mut i = 0;
            while i < data.len() { assert!(TR_LEN < TL); TR[TR_LEN] = data[i]; TR_LEN += 1; i += 1; }
        }
    }

    fn check_prefix(dst: &[&[u8]], seed: &[u8]) -> usize {
        unsafe {
            let mut total = 0; let mut k = 0;
            while k < dst.len() { total += dst[k].len(); k += 1; }
            assert!(TR[0] == (total & 0xff) as u8 && TR[1] == (total >> 8) as u8);
            let mut pos = 2; let mut k = 0;
            while k < dst.len() {
                let p = dst[k]; let mut i = 0;
                while i < p.len() { assert!(TR[pos] == p[i]); pos += 1; i += 1; }
                k += 1;
            }
            assert!(TR[pos] == seed.len() as u8);
            pos += 1;
            let mut i = 0;
            while i < seed.len() { assert!(TR[pos] == seed[i]); pos += 1; i += 1; }
            pos
        }
    }

    #[kani::proof]
    #[kani::unwind(40)]
    #[kani::stub(<turboshake::TurboShake<168, 1> as turboshake::digest::Update>::update, rec_update)]
    fn ts_from_seed_slice_transcript_short() {
        let tag: [u8; 8] = kani::any();
        let cb: [u8; 2] = kani::any();
        let k: u8 = kani::any();
        kani::assume(k < 3);
        let ctx: &[u8] = match k { 0 => &cb[..0], 1 => &cb[..1], _ => &cb[..2] };
        let seed: [u8; 32] = kani::any();
        let short: bool = kani::any();
        let sd: &[u8] = if short { &seed[..16] } else { &seed[..] };
        unsafe { TR_LEN = 0; }
        let x = XofTurboShake128::from_seed_slice(sd, &[&tag, ctx]);
        let end = check_prefix(&[&tag, ctx], sd);
        assert!(unsafe { TR_LEN } == end);
        kani::cover!(ctx.len() == 2 && short);
        forget(x);
    }

    #[kani::proof]
    #[kani::unwind(210)]
    #[kani::stub(<turboshake::TurboShake<168, 1> as turboshake::digest::Update>::update, rec_update)]
    fn ts_from_seed_slice_transcript_long() {
        let tag: [u8; 8] = kani::any();
        let ctx: [u8; 200] = kani::any();
        let seed: [u8; 32] = kani::any();
        unsafe { TR_LEN = 0; }
        let x = XofTurboShake128::from_seed_slice(&seed, &[&tag, &ctx]);
        unsafe {
            assert!(TR_LEN == 2 + 208 + 1 + 32);
            assert!(TR[0] == 208 && TR[1] == 0);
            let i: usize = kani::any();
            kani::assume(i < 200);
            assert!(TR[2 + 8 + i] == ctx[i]);          // EVERY context byte is bound, also beyond the first sponge block
            let j: usize = kani::any();
            kani::assume(j < 32);
            assert!(TR[2 + 208] == 32 && TR[2 + 208 + 1 + j] == seed[j]);
        }
        kani::cover!(true);
        forget(x);
    }

    #[kani::proof]
    #[kani::unwind(40)]
    #[kani::stub(<turboshake::TurboShake<168, 1> as turboshake::digest::Update>::update, rec_update)]
    fn ts_update_transcript() {
        let seed: [u8; 32] = kani::any();
        let tag: [u8; 8] = kani::any();
        let id: [u8; 1] = kani::any();
        let nonce: [u8; 16] = kani::any();
        unsafe { TR_LEN = 0; }
        let mut x = <XofTurboShake128 as Xof<32>>::init(&seed, &[&tag]);
        let base = unsafe { TR_LEN };
        <XofTurboShake128 as Xof<32>>::update(&mut x, &id);
        <XofTurboShake128 as Xof<32>>::update(&mut x, &nonce);
        unsafe {
            assert!(base == 2 + 8 + 1 + 32 && TR_LEN == base + 17 && TR[base] == id[0]);
            let j: usize = kani::any();
            kani::assume(j < 16);
            assert!(TR[base + 1 + j] == nonce[j]);
        }
        kani::cover!(true);
        forget(x);
    }
}
