//@inject src/idpf.rs
//@harness idpf_seed_helpers | complete | xor/and/or_seeds are bytewise; control_bit_to_seed_mask is all-ones/all-zeros; conditional_xor_seeds(a,b,c) == a ^ (c ? b : 0); conditional_select_seed(c, [s0,s1]) == (c ? s1 : s0), for all seeds and bits
//@harness idpf_level_on_path_b0_follow | complete | [input bit 0, evaluated child 0]  one tree level on the real generate_correction_word + eval_next (Field64 values; extend/convert uninterpreted, memoised): given party control bits t0 ^ t1 = 1, for the input bit both parties' new keys/control bits equal the generator's and still differ in the control bit, and out0 + out1 == programmed value; for the other bit keys and control bits coincide and out0 + out1 == 0
//@harness idpf_level_on_path_b1_follow | complete | [input bit 1, evaluated child 1]  one tree level on the real generate_correction_word + eval_next (Field64 values; extend/convert uninterpreted, memoised): given party control bits t0 ^ t1 = 1, for the input bit both parties' new keys/control bits equal the generator's and still differ in the control bit, and out0 + out1 == programmed value; for the other bit keys and control bits coincide and out0 + out1 == 0
//@harness idpf_level_on_path_b0_leave | complete | [input bit 0, evaluated child 1: leaving the path]  one tree level on the real generate_correction_word + eval_next (Field64 values; extend/convert uninterpreted, memoised): given party control bits t0 ^ t1 = 1, for the input bit both parties' new keys/control bits equal the generator's and still differ in the control bit, and out0 + out1 == programmed value; for the other bit keys and control bits coincide and out0 + out1 == 0
//@harness idpf_level_on_path_b1_leave | complete | [input bit 1, evaluated child 0: leaving the path]  one tree level on the real generate_correction_word + eval_next (Field64 values; extend/convert uninterpreted, memoised): given party control bits t0 ^ t1 = 1, for the input bit both parties' new keys/control bits equal the generator's and still differ in the control bit, and out0 + out1 == programmed value; for the other bit keys and control bits coincide and out0 + out1 == 0
//@harness idpf_value_select | complete | IdpfValue::conditional_select(a, b, c) == (c ? b : a) and IdpfValue::zero is the additive zero, for the blanket field impl (Field64, Field128) and for Poplar1IdpfValue<Field64>, all operands; conditional_negate(c) negates exactly when c (the value-correction step of eval_next adds the correction word exactly when the control bit is set)
//@harness idpf_level_off_path | complete | one tree level off the input path: equal keys and equal control bits stay equal and out0 + out1 == 0 for both child bits (so zero propagates below the divergence point)
#[cfg(kani)]
#[allow(static_mut_refs)]
mod verif_c06 {
    use super::*;
    use crate::field::verif_field_util::*;
    use crate::field::Field64;
    use crate::verif_common::*;

    #[kani::proof]
    #[kani::unwind(4)]
    fn idpf_value_select() {
        use crate::field::Field128;
        use crate::vdaf::poplar1::Poplar1IdpfValue;
        let c: bool = kani::any();
        let ch = Choice::from(c as u8);
        let (a, b) = (any64(), any64());
        let r = <Field64 as IdpfValue>::conditional_select(&a, &b, ch);
        assert!(raw64(r) == if c { raw64(b) } else { raw64(a) });
        assert!(raw64(<Field64 as IdpfValue>::zero(&())) == 0);
        let (a2, b2) = (any128(), any128());
        let r2 = <Field128 as IdpfValue>::conditional_select(&a2, &b2, ch);
        assert!(raw128(r2) == if c { raw128(b2) } else { raw128(a2) });
        assert!(raw128(<Field128 as IdpfValue>::zero(&())) == 0);
        let (x0, x1, y0, y1) = (any64(), any64(), any64(), any64());
        let pa = Poplar1IdpfValue::new([x0, x1]);
        let pb = Poplar1IdpfValue::new([y0, y1]);
        let pr = <Poplar1IdpfValue<Field64> as IdpfValue>::conditional_select(&pa, &pb, ch);
        let want = if c { Poplar1IdpfValue::new([y0, y1]) } else { Poplar1IdpfValue::new([x0, x1]) };
        assert!(pr == want);
        assert!(<Poplar1IdpfValue<Field64> as IdpfValue>::zero(&()) == Poplar1IdpfValue::new([mk64(0), mk64(0)]));
        // conditional negation: out = c ? -out : out (raw Montgomery residues: -x == p - x for x != 0)
        let mut n = a;
        n.conditional_negate(ch);
        let p = <crate::fp::FP64 as crate::fp::FieldParameters<u64>>::PRIME;
        assert!(raw64(n) == if c && raw64(a) != 0 { p - raw64(a) } else { raw64(a) });
        kani::cover!(c);
        kani::cover!(!c);
    }

    #[kani::proof]
    #[kani::unwind(18)]
    fn idpf_seed_helpers() {
        let (a, b): ([u8; 16], [u8; 16]) = (kani::any(), kani::any());
        let c: bool = kani::any();
        let ch = Choice::from(c as u8);
        let i: usize = kani::any();
        kani::assume(i < 16);
        assert!(xor_seeds(&a, &b)[i] == a[i] ^ b[i]);
        assert!(and_seeds(&a, &b)[i] == a[i] & b[i]);
        assert!(or_seeds(&a, &b)[i] == a[i] | b[i]);
        assert!(control_bit_to_seed_mask(ch)[i] == if c { 0xff } else { 0 });
        assert!(conditional_xor_seeds(&a, &b, ch)[i] == if c { a[i] ^ b[i] } else { a[i] });
        assert!(conditional_select_seed(ch, &[a, b])[i] == if c { b[i] } else { a[i] });
    }

    // ---- uninterpreted extend / convert: memoised nondeterminism keyed on the seed (equal seeds => equal results)
    // table sizes: one level touches at most 2 distinct seeds for extend (the two parties' keys) and 4 for convert
    const NM: usize = 4;
    const NE: usize = 2;
    static mut EXT_TAB: [([u8; 16], [[u8; 16]; 2], [u8; 2]); NE] = [([0; 16], [[0; 16]; 2], [0; 2]); NE];
    static mut EXT_N: usize = 0;
    static mut CNV_TAB: [([u8; 16], [u8; 16], u64); NM] = [([0; 16], [0; 16], 0); NM];
    static mut CNV_N: usize = 0;
    fn extend_stub(seed: &[u8; 16], _mode: &XofMode<'_>) -> ([[u8; 16]; 2], [Choice; 2]) {
        unsafe {
            let mut i = 0;
            while i < NE { if i < EXT_N && EXT_TAB[i].0 == *seed { let e = EXT_TAB[i]; return (e.1, [Choice::from(e.2[0]), Choice::from(e.2[1])]); } i += 1; }
            assert!(EXT_N < NE);
            let mut s: [[u8; 16]; 2] = kani::any();
            s[0][0] &= 0xfe; s[1][0] &= 0xfe;          // extend() clears the stolen control bits
            let t: [u8; 2] = kani::any();
            kani::assume(t[0] <= 1 && t[1] <= 1);
            EXT_TAB[EXT_N] = (*seed, s, t); EXT_N += 1;
            (s, [Choice::from(t[0]), Choice::from(t[1])])
        }
    }
    fn convert_stub<V: IdpfValue>(seed: &[u8; 16], _mode: &XofMode<'_>, _p: &V::ValueParameter) -> ([u8; 16], V) {
        unsafe {
            let mut i = 0;
            let mut found = NM;
            while i < NM { if i < CNV_N && CNV_TAB[i].0 == *seed { found = i; } i += 1; }
            if found == NM {
                assert!(CNV_N < NM);
                let k: [u8; 16] = kani::any();
                let v: u64 = kani::any();
                kani::assume(v < crate::fp::FP64::PRIME);
                CNV_TAB[CNV_N] = (*seed, k, v); found = CNV_N; CNV_N += 1;
            }
            let e = CNV_TAB[found];
            // V is Field64 in these harnesses (same size and layout)
            assert!(core::mem::size_of::<V>() == 8);
            let f = mk64(e.2);
            (e.1, core::mem::transmute_copy::<Field64, V>(&f))
        }
    }
    use crate::fp::FieldParameters;

    fn bit(c: Choice) -> u8 { c.unwrap_u8() }

    fn on_path_case(b: bool, bp: bool) {
        let keys: [[u8; 16]; 2] = kani::any();
        let t0: bool = kani::any();
        let ctrl = [Choice::from(t0 as u8), Choice::from(!t0 as u8)];      // invariant on the input path: t0 ^ t1 == 1
        let value = any64();
        let mode = XofMode::Leaf(b"", b"");
        let (mut gk, mut gc) = (keys, ctrl);
        let cw = generate_correction_word::<Field64>(Choice::from(b as u8), value, &(), &mut gk, &mut gc, &mode, &mode);
        let (mut k0, mut c0, mut k1, mut c1) = (keys[0], ctrl[0], keys[1], ctrl[1]);
        let o0 = eval_next::<Field64>(true, &(), &mut k0, &mut c0, &cw, Choice::from(bp as u8), &mode, &mode);
        let o1 = eval_next::<Field64>(false, &(), &mut k1, &mut c1, &cw, Choice::from(bp as u8), &mode, &mode);
        if bp == b {
            assert!(k0 == gk[0] && k1 == gk[1]);
            assert!(bit(c0) == bit(gc[0]) && bit(c1) == bit(gc[1]));
            assert!(bit(c0) ^ bit(c1) == 1);
            assert!(raw64(o0 + o1) == raw64(value));
        } else {
            assert!(k0 == k1);
            assert!(bit(c0) == bit(c1));
            assert!(raw64(o0 + o1) == 0);
        }
        kani::cover!(t0);
        kani::cover!(!t0);
    }
    macro_rules! onp { ($name:ident, $b:expr, $bp:expr) => {
        #[kani::proof]
        #[kani::unwind(18)]
        #[kani::stub(extend, extend_stub)]
        #[kani::stub(convert, convert_stub)]
        fn $name() { on_path_case($b, $bp) }
    } }
    onp!(idpf_level_on_path_b0_follow, false, false);
    onp!(idpf_level_on_path_b1_follow, true, true);
    onp!(idpf_level_on_path_b0_leave, false, true);
    onp!(idpf_level_on_path_b1_leave, true, false);

    #[kani::proof]
    #[kani::unwind(18)]
    #[kani::stub(extend, extend_stub)]
    #[kani::stub(convert, convert_stub)]
    fn idpf_level_off_path() {
        let key: [u8; 16] = kani::any();
        let t: bool = kani::any();
        let cw = IdpfCorrectionWord::<Field64> { seed: kani::any(), control_bits: [Choice::from(kani::any::<bool>() as u8), Choice::from(kani::any::<bool>() as u8)], value: any64() };
        let mode = XofMode::Leaf(b"", b"");
        let bp: bool = kani::any();
        let (mut k0, mut c0, mut k1, mut c1) = (key, Choice::from(t as u8), key, Choice::from(t as u8));
        let o0 = eval_next::<Field64>(true, &(), &mut k0, &mut c0, &cw, Choice::from(bp as u8), &mode, &mode);
        let o1 = eval_next::<Field64>(false, &(), &mut k1, &mut c1, &cw, Choice::from(bp as u8), &mode, &mode);
        assert!(k0 == k1 && bit(c0) == bit(c1));
        assert!(raw64(o0 + o1) == 0);
        kani::cover!(t);
    }
}
