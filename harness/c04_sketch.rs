//@inject src/vdaf/poplar1.rs
//@harness pop_eval_and_sketch_streams_2 | bounded(2 candidate prefixes; IDPF evaluation replaced by its contract stub) | Poplar1::eval_and_sketch: the verification-randomness stream is initialised exactly ONCE per call with (verify_key, VERIFY_RANDOMNESS, ctx, nonce || level BE) and exactly one element of it is drawn per candidate prefix (so distinct prefixes get distinct, independent coefficients); exactly three elements (a, b, c) are drawn from the correlated-randomness stream; one IDPF evaluation and one output-share entry per prefix, in order
//@harness pop_eval_and_sketch_streams_40 | bounded(40 candidate prefixes) | same contract with more candidates than any internal batch/cache size in use
#[cfg(kani)]
#[allow(static_mut_refs, dead_code)]
mod verif_c04_sketch {
    use super::*;
    use crate::idpf::verif_idpf_util::*;
    use crate::vdaf::prio3::verif_sym::*;
    use crate::verif_common::*;

    pub static mut GET_CALLS: usize = 0;
    fn prng_get_count<F: FieldElement, S: rand::Rng>(_p: &mut crate::prng::Prng<F, S>) -> F { unsafe { GET_CALLS += 1; } F::one() }

    fn streams<const N: usize>() {
        let vdaf: Poplar1<RecXof, 16> = Poplar1 { bits: 8, phantom: PhantomData };
        let level: u16 = kani::any();
        kani::assume(level < 7);
        let prefixes: Vec<IdpfInput> = Vec::from(core::array::from_fn::<IdpfInput, N, _>(|_| empty_input()));
        let agg_param = Poplar1AggregationParam { level, prefixes };
        let public = placeholder_public_share::<Poplar1IdpfValue<Field64>, Poplar1IdpfValue<Field255>>();
        let key: [u8; 16] = kani::any();
        let nonce: [u8; 16] = kani::any();
        let idpf_key = Seed::<16>::from_bytes([0u8; 16]);
        // the correlated-randomness stream is created by the caller (verify_init)
        let mut corr_prng = vdaf.init_prng::<_, _, Field64>(&[0u8; 16], DST_CORR_INNER, b"c", [[0u8].as_slice()]);
        reset_transcript();
        unsafe { GET_CALLS = 0; EVAL_CALLS = 0; }
        let r = vdaf.eval_and_sketch::<Field64>(&key, b"c", 0, &nonce, &agg_param, &public, &idpf_key, &mut corr_prng);
        match &r {
            Ok((out, sketch)) => unsafe {
                assert!(out.len() == N && sketch.len() == 3);
                assert!(EVAL_CALLS == N);
                // ONE verification stream per call, bound to (key, usage, ctx, nonce || level)
                assert!(T_INITS == 1 && T_SEED == key);
                assert!(T_DST_LEN == 9 && T_DST[6] == 0 && T_DST[7] == DST_VERIFY_RANDOMNESS as u8 && T_DST[8] == b'c');
                assert!(T_BIND_LEN == 18 && T_BIND[16] == (level >> 8) as u8 && T_BIND[17] == level as u8);
                let j: usize = kani::any();
                kani::assume(j < 16);
                assert!(T_BIND[j] == nonce[j]);
                // three correlated-randomness elements + one verification element per prefix
                assert!(GET_CALLS == 3 + N);
            },
            Err(_) => assert!(false),
        }
        kani::cover!(r.is_ok());
        forget(r); forget(agg_param); forget(public); forget(corr_prng); forget(vdaf);
    }

    #[kani::proof]
    #[kani::unwind(50)]
    #[kani::stub(<crate::fp::FP64 as crate::fp::FieldOps<u64>>::mul, crate::verif_common::mul64_id_stub)]
    #[kani::stub(alloc::fmt::format, crate::verif_common::format_stub)]
    #[kani::stub(crate::prng::Prng::get, prng_get_count)]
    #[kani::stub(crate::idpf::Idpf::eval, crate::idpf::verif_idpf_util::eval_stub_inner_zero)]
    fn pop_eval_and_sketch_streams_2() { streams::<2>() }

    #[kani::proof]
    #[kani::unwind(50)]
    #[kani::stub(<crate::fp::FP64 as crate::fp::FieldOps<u64>>::mul, crate::verif_common::mul64_id_stub)]
    #[kani::stub(alloc::fmt::format, crate::verif_common::format_stub)]
    #[kani::stub(crate::prng::Prng::get, prng_get_count)]
    #[kani::stub(crate::idpf::Idpf::eval, crate::idpf::verif_idpf_util::eval_stub_inner_zero)]
    fn pop_eval_and_sketch_streams_40() { streams::<40>() }
}
