//@inject src/topology/ping_pong.rs
//@harness pp_continued_contract | bounded(messages/shares <= 2 bytes; any aggregator) | continued(): Initialize => Err(PeerMessageMismatch); undecodable => Err(Codec*); (Continue-state, Finish-msg) and (Finish-state, Continue-msg) => Err; else the combiner is called exactly once with [leader share, helper share] in aggregator order and the continuation carries exactly the VDAF's next state / message; Finish+Finish => exactly the VDAF's output share; no Ok with an output share on any error path
//@harness pp_helper_initialized_contract | bounded(share <= 2 bytes; any aggregator) | helper_initialized(): verify_init called with aggregator id 1; non-Initialize inbound => Err(PeerMessageMismatch) and no combiner call; combiner gets [leader's share, own share]; continuation = Transition{own state, combiner's message}
//@harness pp_leader_initialized_contract | bounded(any aggregator) | leader_initialized(): verify_init called with aggregator id 0; outbound is Initialize{encoded own share}; state is the VDAF's
//@harness pp_evaluate_contract | bounded(any aggregator) | PingPongContinuation::evaluate(): OutputShare => Finished{same share}; Transition => verify_next(state, message) once; Continue => Continued{state', Continue{enc(message), enc(share')}}; Finish => FinishedWithOutbound{share, Finish{enc(message)}}; evaluating twice gives equal results (pure)
//@harness pp_continuation_codec | bounded(any aggregator, 1-byte state/message) | PingPongContinuation encode/decode_with_param round trip for Transition; OutputShare continuations refuse to encode; encoded_len exact
//@harness pp_message_codec | bounded(payloads <= 2 bytes, buffer <= 12 bytes) | PingPongMessage: decoder total, tags 0/1/2 only (else UnexpectedValue), accepted strings re-encode identically, encoded_len exact
#[cfg(kani)]
#[allow(static_mut_refs)]
mod verif_c12 {
    use super::*;
    use crate::codec::{CodecError, Decode, Encode};
    use crate::vdaf::{Aggregatable, Aggregator, Vdaf, VdafError, VerifyTransition};
    use crate::verif_common::*;
    use std::io::Cursor;

    #[derive(Clone, Copy, Debug, PartialEq, Eq)]
    pub struct B(u8);
    impl Encode for B {
        fn encode(&self, bytes: &mut Vec<u8>) -> Result<(), CodecError> { bytes.push(self.0); Ok(()) }
        fn encoded_len(&self) -> Option<usize> { Some(1) }
    }
    impl Decode for B {
        fn decode(bytes: &mut Cursor<&[u8]>) -> Result<Self, CodecError> { Ok(B(u8::decode(bytes)?)) }
    }
    impl Aggregatable for B {
        type OutputShare = B;
        fn merge(&mut self, o: &Self) -> Result<(), VdafError> { self.0 = self.0.wrapping_add(o.0); Ok(()) }
        fn accumulate(&mut self, o: &Self) -> Result<(), VdafError> { self.0 = self.0.wrapping_add(o.0); Ok(()) }
    }

    // ghost record of what the topology routines hand to the aggregator, and what it answered
    static mut SEEN: [u8; 2] = [0; 2];
    static mut SEEN_N: usize = 0;
    static mut COMBINER_CALLS: usize = 0;
    static mut COMBINER_OUT: u8 = 0;
    static mut INIT_CALLS: usize = 0;
    static mut INIT_AGG_ID: usize = 99;
    static mut INIT_OUT: (u8, u8) = (0, 0);
    static mut NEXT_CALLS: usize = 0;
    static mut NEXT_IN: (u8, u8) = (0, 0);
    static mut NEXT_KIND: u8 = 0;            // 0 Err, 1 Continue, 2 Finish (chosen by the harness: ANY aggregator behaviour)
    static mut NEXT_OUT: (u8, u8) = (0, 0);
    static mut INIT_FAILS: bool = false;
    static mut COMBINER_FAILS: bool = false;

    #[derive(Clone, Debug)]
    pub struct SymVdaf;
    impl Vdaf for SymVdaf {
        type Measurement = ();
        type AggregateResult = ();
        type AggregationParam = B;
        type PublicShare = ();
        type InputShare = B;
        type OutputShare = B;
        type AggregateShare = B;
        fn algorithm_id(&self) -> u32 { 0 }
        fn num_aggregators(&self) -> usize { 2 }
    }
    impl Aggregator<16, 16> for SymVdaf {
        type VerifyState = B;
        type VerifierShare = B;
        type VerifierMessage = B;
        fn verify_init(&self, _: &[u8; 16], _: &[u8], agg_id: usize, _: &B, _: &[u8; 16], _: &(), _: &B) -> Result<(B, B), VdafError> {
            unsafe {
                INIT_CALLS += 1; INIT_AGG_ID = agg_id;
                if INIT_FAILS { Err(VdafError::Uncategorized(String::new())) } else { Ok((B(INIT_OUT.0), B(INIT_OUT.1))) }
            }
        }
        fn verifier_shares_to_message<M: IntoIterator<Item = B>>(&self, _: &[u8], _: &B, inputs: M) -> Result<B, VdafError> {
            unsafe {
                COMBINER_CALLS += 1;
                SEEN_N = 0;
                for s in inputs { if SEEN_N < 2 { SEEN[SEEN_N] = s.0; } SEEN_N += 1; }
                if COMBINER_FAILS { Err(VdafError::Uncategorized(String::new())) } else { Ok(B(COMBINER_OUT)) }
            }
        }
        fn verify_next(&self, _: &[u8], state: B, msg: B) -> Result<VerifyTransition<Self, 16, 16>, VdafError> {
            unsafe {
                NEXT_CALLS += 1; NEXT_IN = (state.0, msg.0);
                match NEXT_KIND {
                    0 => Err(VdafError::Uncategorized(String::new())),
                    1 => Ok(VerifyTransition::Continue(B(NEXT_OUT.0), B(NEXT_OUT.1))),
                    _ => Ok(VerifyTransition::Finish(B(NEXT_OUT.0))),
                }
            }
        }
        fn aggregate_init(&self, _: &B) -> B { B(0) }
        fn is_agg_param_valid(_: &B, _: &[B]) -> bool { true }
    }
    fn setup() {
        unsafe {
            COMBINER_CALLS = 0; INIT_CALLS = 0; NEXT_CALLS = 0; SEEN_N = 0;
            COMBINER_OUT = kani::any(); INIT_OUT = (kani::any(), kani::any()); NEXT_OUT = (kani::any(), kani::any());
            NEXT_KIND = kani::any(); kani::assume(NEXT_KIND < 3);
            INIT_FAILS = kani::any(); COMBINER_FAILS = kani::any();
        }
    }

    fn any_bytes() -> Vec<u8> {
        let a: [u8; 2] = kani::any();
        let k: u8 = kani::any();
        kani::assume(k < 3);
        match k { 0 => vec![], 1 => vec![a[0]], _ => vec![a[0], a[1]] }
    }
    fn any_msg() -> PingPongMessage {
        let k: u8 = kani::any();
        kani::assume(k < 3);
        if k == 0 { PingPongMessage::Initialize { verifier_share: any_bytes() } }
        else if k == 1 { PingPongMessage::Continue { verifier_message: any_bytes(), verifier_share: any_bytes() } }
        else { PingPongMessage::Finish { verifier_message: any_bytes() } }
    }

    #[kani::proof]
    #[kani::unwind(4)]
    #[kani::stub(alloc::fmt::format, crate::verif_common::format_stub)]
    fn pp_continued_contract() {
        setup();
        let vdaf = SymVdaf;
        let is_leader: bool = kani::any();
        let host_state = B(kani::any());
        let inbound = any_msg();
        let r = vdaf.continued(b"", is_leader, &B(0), host_state, &inbound);
        let is_init = matches!(inbound, PingPongMessage::Initialize { .. });
        unsafe {
            match &r {
                Ok(c) => {
                    assert!(!is_init);
                    assert!(NEXT_CALLS == 1 && NEXT_IN.0 == host_state.0);
                    match &c.0 {
                        PingPongContinuationInner::OutputShare(o) => {
                            assert!(matches!(inbound, PingPongMessage::Finish { .. }));
                            assert!(NEXT_KIND == 2 && o.0 == NEXT_OUT.0);      // exactly the VDAF's output share
                            assert!(COMBINER_CALLS == 0);
                        }
                        PingPongContinuationInner::Transition { previous_verifier_state, current_verifier_message } => {
                            assert!(NEXT_KIND == 1);
                            assert!(COMBINER_CALLS == 1 && SEEN_N == 2 && !COMBINER_FAILS);
                            assert!(previous_verifier_state.0 == NEXT_OUT.0 && current_verifier_message.0 == COMBINER_OUT);
                            if let PingPongMessage::Continue { verifier_message, verifier_share } = &inbound {
                                assert!(verifier_message.len() == 1 && NEXT_IN.1 == verifier_message[0]);
                                assert!(verifier_share.len() == 1);
                                let peer = verifier_share[0];
                                let host = NEXT_OUT.1;
                                // aggregator order: the leader's share first
                                if is_leader { assert!(SEEN[0] == host && SEEN[1] == peer); } else { assert!(SEEN[0] == peer && SEEN[1] == host); }
                            } else { assert!(false); }
                        }
                    }
                }
                Err(PingPongError::PeerMessageMismatch { .. }) => {
                    assert!(is_init || (NEXT_KIND == 1 && matches!(inbound, PingPongMessage::Finish { .. })) || (NEXT_KIND == 2 && matches!(inbound, PingPongMessage::Continue { .. })));
                    assert!(COMBINER_CALLS == 0);
                }
                Err(PingPongError::VdafVerifyNext(_)) => assert!(NEXT_KIND == 0 && COMBINER_CALLS == 0),
                Err(PingPongError::VdafVerifierSharesToMessage(_)) => assert!(COMBINER_FAILS && COMBINER_CALLS == 1),
                Err(PingPongError::CodecVerifierMessage(_)) => assert!(NEXT_CALLS == 0),
                Err(PingPongError::CodecVerifierShare(_)) => assert!(COMBINER_CALLS == 0),
                Err(_) => assert!(false),
            }
            if is_init { assert!(matches!(r, Err(PingPongError::PeerMessageMismatch { .. })) && NEXT_CALLS == 0); }
        }
        kani::cover!(matches!(&r, Ok(c) if matches!(c.0, PingPongContinuationInner::Transition { .. })));
        kani::cover!(matches!(&r, Ok(c) if matches!(c.0, PingPongContinuationInner::OutputShare(_))));
        kani::cover!(r.is_err());
        forget(r); forget(inbound);
    }

    #[kani::proof]
    #[kani::unwind(4)]
    #[kani::stub(alloc::fmt::format, crate::verif_common::format_stub)]
    fn pp_helper_initialized_contract() {
        setup();
        let vdaf = SymVdaf;
        let inbound = any_msg();
        let r = vdaf.helper_initialized(&[0; 16], b"", &B(0), &[0; 16], &(), &B(0), &inbound);
        unsafe {
            assert!(INIT_CALLS == 1 && INIT_AGG_ID == 1);
            match &r {
                Ok(c) => {
                    assert!(!INIT_FAILS && !COMBINER_FAILS && COMBINER_CALLS == 1 && SEEN_N == 2);
                    if let PingPongMessage::Initialize { verifier_share } = &inbound {
                        assert!(verifier_share.len() == 1 && SEEN[0] == verifier_share[0] && SEEN[1] == INIT_OUT.1);
                    } else { assert!(false); }
                    match &c.0 {
                        PingPongContinuationInner::Transition { previous_verifier_state, current_verifier_message } =>
                            assert!(previous_verifier_state.0 == INIT_OUT.0 && current_verifier_message.0 == COMBINER_OUT),
                        _ => assert!(false),      // never an output share from initialization
                    }
                }
                Err(PingPongError::PeerMessageMismatch { .. }) => assert!(!matches!(inbound, PingPongMessage::Initialize { .. }) && COMBINER_CALLS == 0),
                Err(PingPongError::VdafVerifyInit(_)) => assert!(INIT_FAILS && COMBINER_CALLS == 0),
                Err(PingPongError::CodecVerifierShare(_)) => assert!(COMBINER_CALLS == 0),
                Err(PingPongError::VdafVerifierSharesToMessage(_)) => assert!(COMBINER_FAILS),
                Err(_) => assert!(false),
            }
            if !matches!(inbound, PingPongMessage::Initialize { .. }) { assert!(r.is_err()); }
        }
        kani::cover!(r.is_ok());
        forget(r); forget(inbound);
    }

    #[kani::proof]
    #[kani::unwind(4)]
    #[kani::stub(alloc::fmt::format, crate::verif_common::format_stub)]
    fn pp_leader_initialized_contract() {
        setup();
        let vdaf = SymVdaf;
        let r = vdaf.leader_initialized(&[0; 16], b"", &B(0), &[0; 16], &(), &B(0));
        unsafe {
            assert!(INIT_CALLS == 1 && INIT_AGG_ID == 0 && COMBINER_CALLS == 0 && NEXT_CALLS == 0);
            match &r {
                Ok(c) => {
                    assert!(!INIT_FAILS && c.verifier_state.0 == INIT_OUT.0);
                    match &c.message { PingPongMessage::Initialize { verifier_share } => assert!(verifier_share.len() == 1 && verifier_share[0] == INIT_OUT.1), _ => assert!(false) }
                }
                Err(PingPongError::VdafVerifyInit(_)) => assert!(INIT_FAILS),
                Err(_) => assert!(false),
            }
        }
        kani::cover!(r.is_ok());
        forget(r);
    }

    #[kani::proof]
    #[kani::unwind(4)]
    #[kani::stub(alloc::fmt::format, crate::verif_common::format_stub)]
    fn pp_evaluate_contract() {
        setup();
        let vdaf = SymVdaf;
        let (s, m, o): (u8, u8, u8) = (kani::any(), kani::any(), kani::any());
        let is_out: bool = kani::any();
        let c: PingPongContinuation<16, 16, SymVdaf> = if is_out { PingPongContinuationInner::OutputShare(B(o)).into() }
            else { PingPongContinuationInner::Transition { previous_verifier_state: B(s), current_verifier_message: B(m) }.into() };
        let r1 = c.evaluate(b"", &vdaf);
        let r2 = c.evaluate(b"", &vdaf);       // a stored continuation may be evaluated any number of times
        unsafe {
            match (&r1, &r2) {
                (Ok(a), Ok(b)) => assert!(*a == *b),
                (Err(_), Err(_)) => {}
                _ => assert!(false),
            }
            match &r1 {
                Ok(PingPongState::Finished { output_share }) => assert!(is_out && output_share.0 == o && NEXT_CALLS == 0),
                Ok(PingPongState::Continued(cn)) => {
                    assert!(!is_out && NEXT_KIND == 1 && NEXT_IN == (s, m) && cn.verifier_state.0 == NEXT_OUT.0);
                    match &cn.message {
                        PingPongMessage::Continue { verifier_message, verifier_share } =>
                            assert!(verifier_message.len() == 1 && verifier_message[0] == m && verifier_share.len() == 1 && verifier_share[0] == NEXT_OUT.1),
                        _ => assert!(false),
                    }
                }
                Ok(PingPongState::FinishedWithOutbound { output_share, message }) => {
                    assert!(!is_out && NEXT_KIND == 2 && output_share.0 == NEXT_OUT.0);
                    match message { PingPongMessage::Finish { verifier_message } => assert!(verifier_message.len() == 1 && verifier_message[0] == m), _ => assert!(false) }
                }
                Err(PingPongError::VdafVerifyNext(_)) => assert!(!is_out && NEXT_KIND == 0),
                Err(_) => assert!(false),
            }
            // the continuation itself is untouched
            match &c.0 {
                PingPongContinuationInner::OutputShare(x) => assert!(is_out && x.0 == o),
                PingPongContinuationInner::Transition { previous_verifier_state, current_verifier_message } => assert!(!is_out && previous_verifier_state.0 == s && current_verifier_message.0 == m),
            }
        }
        kani::cover!(matches!(r1, Ok(PingPongState::Continued(_))));
        kani::cover!(matches!(r1, Ok(PingPongState::FinishedWithOutbound { .. })));
        forget(r1); forget(r2); forget(c);
    }

    #[kani::proof]
    #[kani::unwind(4)]
    #[kani::stub(alloc::fmt::format, crate::verif_common::format_stub)]
    fn pp_continuation_codec() {
        let (s, m): (u8, u8) = (kani::any(), kani::any());
        let c: PingPongContinuation<16, 16, SymVdaf> = PingPongContinuationInner::Transition { previous_verifier_state: B(s), current_verifier_message: B(m) }.into();
        let mut out = Vec::with_capacity(8);
        let e = c.encode(&mut out);
        assert!(e.is_ok() && out.len() == 2 && out[0] == s && out[1] == m);
        assert!(c.encoded_len() == Some(2));
        let d = PingPongContinuation::<16, 16, SymVdaf>::get_decoded_with_param(&(), &out);
        match &d { Ok(c2) => assert!(*c2 == c), Err(_) => assert!(false) }
        let b3 = [s, m, 0u8];
        let d3 = PingPongContinuation::<16, 16, SymVdaf>::get_decoded_with_param(&(), &b3[..]);
        assert!(matches!(d3, Err(CodecError::BytesLeftOver(1))));
        let d1 = PingPongContinuation::<16, 16, SymVdaf>::get_decoded_with_param(&(), &b3[..1]);
        assert!(d1.is_err());
        let oc: PingPongContinuation<16, 16, SymVdaf> = PingPongContinuationInner::OutputShare(B(s)).into();
        let mut out2 = Vec::with_capacity(8);
        let e2 = oc.encode(&mut out2);
        assert!(e2.is_err() && out2.len() == 0 && oc.encoded_len().is_none());
        forget(e); forget(d); forget(d3); forget(d1); forget(e2); forget(out); forget(out2);
    }

    #[kani::proof]
    #[kani::unwind(15)]
    #[kani::stub(alloc::fmt::format, crate::verif_common::format_stub)]
    fn pp_message_codec() {
        let b: [u8; 12] = kani::any();
        let k: u8 = kani::any();
        kani::assume(k < 5);
        let s: &[u8] = match k { 0 => &b[..0], 1 => &b[..5], 2 => &b[..6], 3 => &b[..10], _ => &b[..12] };
        let r = PingPongMessage::get_decoded(s);
        match &r {
            Ok(m) => {
                assert!(b[0] <= 2);
                let mut out = Vec::with_capacity(16);
                let e = m.encode(&mut out);
                assert!(e.is_ok() && out[..] == s[..]);
                assert!(m.encoded_len() == Some(s.len()));
                forget(e); forget(out);
            }
            Err(CodecError::UnexpectedValue) => assert!(s.len() >= 1 && b[0] > 2),
            Err(_) => {}
        }
        if s.len() >= 1 && b[0] > 2 { assert!(matches!(r, Err(CodecError::UnexpectedValue))); }
        kani::cover!(matches!(r, Ok(PingPongMessage::Continue { .. })));
        kani::cover!(matches!(r, Ok(PingPongMessage::Finish { .. })));
        forget(r);
    }
}
