//@inject src/vdaf/prio3.rs
//@tolerate __rust_dealloc
//@oracle prio3_oracle.rs verif_oracle_prio3::oracle_helper_shares_independent src/vdaf/prio3.rs
//@harness p3_shard_seeds_2_nojr | bounded(2 aggregators, no joint randomness, empty measurement vector) | shard_with_random on the real generic code: every helper share is Helper{seed[, blind]} copied VERBATIM from the sharding randomness in consumption order (a function of `random` only, for every measurement); leader blind verbatim; public share has one part per aggregator iff joint randomness
//@harness p3_shard_seeds_3_nojr | bounded(3 aggregators, no joint randomness, empty measurement vector) | same contract (the "third helper")
//@harness p3_shard_seeds_2_jr | bounded(2 aggregators, joint randomness, empty measurement vector) | same contract, blinds interleaved with seeds
//@harness p3_shard_seeds_3_jr | bounded(3 aggregators, joint randomness, empty measurement vector) | same contract
//@harness p3_shard_seeds_5_jr | bounded(5 aggregators, joint randomness, empty measurement vector) | same contract: helpers 1..4 (the fifth aggregator included) hold verbatim randomness
//@harness p3_shard_leader_mask_2 | bounded(2 aggregators, input_len 1) | leader measurement share == encode(m) - sum of helper streams and proof share == proof - sum of helper proof streams (mask independent of m)
//@harness p3_shard_leader_mask_3_jr | bounded(3 aggregators, joint randomness, input_len 1) | same, with joint randomness
#[cfg(kani)]
#[allow(static_mut_refs)]
mod verif_c17_prio3 {
    use super::verif_sym::*;
    use super::*;
    use crate::field::verif_field_util::*;
    use crate::verif_common::*;

    // contract stub of Prng::get (C11: an element of the stream, cursor advances): every stream is the constant
    // stream 1,1,1,... so each helper's expansion subtracts exactly 1 from every leader element
    pub static mut GET_CALLS: usize = 0;
    fn prng_get_stub<F: crate::field::FieldElement, S: rand::Rng>(_p: &mut crate::prng::Prng<F, S>) -> F { unsafe { GET_CALLS += 1; } F::one() }

    macro_rules! shard_h {
        ($name:ident, $na:expr, $jr:expr, $il:expr) => {
            #[kani::proof]
            #[kani::unwind(40)]
            #[kani::stub(<crate::fp::FP64 as crate::fp::FieldOps<u64>>::mul, crate::verif_common::mul64_id_stub)]
            #[kani::stub(alloc::fmt::format, crate::verif_common::format_stub)]
            #[kani::stub(crate::prng::Prng::get, prng_get_stub)]
            fn $name() {
                let jr: usize = $jr;
                let na: u8 = $na;
                let il: usize = $il;
                let mut vdaf = sym_prio3(na, 1, kani::any(), jr);
                vdaf.typ.input_len = il; vdaf.typ.proof_len = il; vdaf.typ.prove_rand_len = 1; vdaf.typ.output_len = il;
                let m = any64();
                unsafe { ENC_MEAS = raw64(m); STREAM_BYTE0 = 1; }      // every expanded element is the field element 1
                let random: [u8; 192] = kani::any();
                let rs = vdaf.random_size();
                let r = vdaf.shard_with_random(b"c", &0u8, &[7u8; 16], &random[..rs]);
                match &r {
                    Ok((public, shares)) => {
                        assert!(shares.len() == na as usize);
                        // helpers: seeds verbatim, in the order the randomness is consumed
                        let stride = if jr == 0 { 1 } else { 2 };
                        let mut j = 1;
                        while j < 6 {
                            if j < na as usize {
                                match &shares[j] {
                                    Prio3InputShare::Helper { meas_and_proofs_share, joint_rand_blind } => {
                                        let off = (j - 1) * stride * 16;
                                        assert!(meas_and_proofs_share.as_ref()[..] == random[off..off + 16]);
                                        match joint_rand_blind { Some(b) => assert!(jr == 1 && b.as_ref()[..] == random[off + 16..off + 32]), None => assert!(jr == 0) }
                                    }
                                    _ => assert!(false),
                                }
                            }
                            j += 1;
                        }
                        match &shares[0] {
                            Prio3InputShare::Leader { measurement_share, proofs_share, joint_rand_blind } => {
                                assert!(measurement_share.len() == il && proofs_share.len() == il);
                                if il == 1 {
                                    // leader = encode(m) - (na-1) * 1 ; proof share = 0 - (na-1) * 1
                                    let mut want = m; let mut wantp = Field64::zero();
                                    let mut k = 1; while k < 6 { if k < na as usize { want -= Field64::one(); wantp -= Field64::one(); } k += 1; }
                                    assert!(raw64(measurement_share[0]) == raw64(want));
                                    assert!(raw64(proofs_share[0]) == raw64(wantp));
                                }
                                match joint_rand_blind { Some(b) => { let off = (na as usize - 1) * 32; assert!(jr == 1 && b.as_ref()[..] == random[off..off + 16]); } None => assert!(jr == 0) }
                            }
                            _ => assert!(false),
                        }
                        match &public.joint_rand_parts { Some(p) => assert!(jr == 1 && p.len() == na as usize), None => assert!(jr == 0) }
                    }
                    Err(_) => assert!(false),
                }
                forget(r); forget(vdaf);
            }
        };
    }
    shard_h!(p3_shard_seeds_2_nojr, 2, 0, 0);
    shard_h!(p3_shard_seeds_3_nojr, 3, 0, 0);
    shard_h!(p3_shard_seeds_2_jr, 2, 1, 0);
    shard_h!(p3_shard_seeds_3_jr, 3, 1, 0);
    shard_h!(p3_shard_leader_mask_2, 2, 0, 1);
    shard_h!(p3_shard_leader_mask_3_jr, 3, 1, 1);
    shard_h!(p3_shard_seeds_5_jr, 5, 1, 0);
}
