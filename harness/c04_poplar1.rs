//@inject src/vdaf/poplar1.rs
//@harness pop_finish_sketch_formula | complete | finish_sketch(sketch, A, B, is_leader) == [A*z0 + B] for the leader and [A*z0 + B + z0*z0 - z1 - z2] for the helper ONLY, for all Field64 values (mul at contract level)
//@harness pop_corr_shares_formula | complete | compute_next_corr_shares: corr_1 = two fresh elements of the client stream; corr_0 = [A - corr_1[0], B - corr_1[1]] with A = -2a + auth, B = a*a + b - a*auth + c and a,b,c each the SUM of the next elements of the two aggregators' correlated streams (stream positions: 3 elements per level from each)
//@harness pop_next_message_guards | bounded(vector lengths 0..4) | next_message: length mismatch => Err; length 1: sum != 0 => Err, sum == 0 => Ok(None); length 3 => Ok(Some(pointwise sum)); any other length => Err
//@harness pop_vs2m_guards | bounded(0..3 shares) | Poplar1 verifier_shares_to_message: anything but exactly 2 shares => Err; mixed Inner/Leaf => Err
//@harness pop_verify_next_variants | bounded(output share length 1) | Poplar1 verify_next: only (RoundOne, Sketch of the same field) and (RoundTwo, Done) succeed; an output share is released only from RoundTwo + Done and equals the stored one; every other (state, message) pair => Err
#[cfg(kani)]
#[allow(non_snake_case, static_mut_refs)]
mod verif_c04_poplar1 {
    use super::*;
    use crate::field::verif_field_util::*;
    use crate::verif_common::*;
    use rand_core::{Infallible, TryRng};

    #[kani::proof]
    #[kani::unwind(16)]
    #[kani::stub(<crate::fp::FP64 as crate::fp::FieldOps<u64>>::mul, crate::verif_common::mul64_stub)]
    fn pop_finish_sketch_formula() {
        let (z0, z1, z2, A, B) = (any64(), any64(), any64(), any64(), any64());
        let is_leader: bool = kani::any();
        let out = finish_sketch([z0, z1, z2], A, B, is_leader);
        assert!(out.len() == 1);
        let base = A * z0 + B;
        let want = if is_leader { base } else { base + (z0 * z0 - z1 - z2) };
        assert!(raw64(out[0]) == raw64(want));
        kani::cover!(is_leader);
        kani::cover!(!is_leader);
        forget(out);
    }

    // a stream whose i-th 8-byte chunk is a symbolic canonical element chosen by the harness
    pub struct ElemStream { pub elems: [u64; 4], pub pos: usize }
    impl TryRng for ElemStream {
        type Error = Infallible;
        fn try_next_u32(&mut self) -> Result<u32, Infallible> { Ok(0) }
        fn try_next_u64(&mut self) -> Result<u64, Infallible> { Ok(0) }
        fn try_fill_bytes(&mut self, dest: &mut [u8]) -> Result<(), Infallible> {
            dest.fill(0);
            let mut k = 0;
            while k < 4 { if 8 * k + 8 <= dest.len() { let b = self.elems[k].to_le_bytes(); dest[8 * k..8 * k + 8].copy_from_slice(&b); } k += 1; }
            Ok(())
        }
    }
    fn any_stream() -> ElemStream {
        let e: [u64; 4] = kani::any();
        let p = crate::fp::FP64::PRIME;
        kani::assume(e[0] < p && e[1] < p && e[2] < p && e[3] < p);
        ElemStream { elems: e, pos: 0 }
    }
    use crate::fp::FieldParameters;

    #[kani::proof]
    #[kani::unwind(16)]
    #[kani::stub(<crate::fp::FP64 as crate::fp::FieldOps<u64>>::mul, crate::verif_common::mul64_stub)]
    fn pop_corr_shares_formula() {
        let (s, s0, s1) = (any_stream(), any_stream(), any_stream());
        let (e, e0, e1) = (s.elems, s0.elems, s1.elems);
        let mut prng: Prng<Field64, ElemStream> = Prng::from_seed_stream(s);
        let mut c0: Prng<Field64, ElemStream> = Prng::from_seed_stream(s0);
        let mut c1: Prng<Field64, ElemStream> = Prng::from_seed_stream(s1);
        let auth = any64();
        let (corr_0, corr_1) = compute_next_corr_shares(&mut prng, &mut c0, &mut c1, auth);
        let f = |x: u64| Field64::from(x);
        let (a, b, c) = (f(e0[0]) + f(e1[0]), f(e0[1]) + f(e1[1]), f(e0[2]) + f(e1[2]));
        let two = Field64::from(2);
        let A = -two * a + auth;
        let B = a * a + b - a * auth + c;
        assert!(raw64(corr_1[0]) == raw64(f(e[0])) && raw64(corr_1[1]) == raw64(f(e[1])));
        assert!(raw64(corr_0[0]) == raw64(A - corr_1[0]) && raw64(corr_0[1]) == raw64(B - corr_1[1]));
        // additive sharing: the two aggregators' shares sum to (A, B)
        assert!(raw64(corr_0[0] + corr_1[0]) == raw64(A) && raw64(corr_0[1] + corr_1[1]) == raw64(B));
        forget(prng); forget(c0); forget(c1);
    }

    fn vecn(k: u8, a: [Field64; 4]) -> Vec<Field64> { match k { 0 => vec![], 1 => vec![a[0]], 2 => vec![a[0], a[1]], 3 => vec![a[0], a[1], a[2]], _ => vec![a[0], a[1], a[2], a[3]] } }

    #[kani::proof]
    #[kani::unwind(6)]
    #[kani::stub(alloc::fmt::format, crate::verif_common::format_stub)]
    fn pop_next_message_guards() {
        let x = [any64(), any64(), any64(), any64()];
        let y = [any64(), any64(), any64(), any64()];
        let (kx, ky): (u8, u8) = (kani::any(), kani::any());
        kani::assume(kx < 5 && ky < 5);
        let r = next_message(vecn(kx, x), vecn(ky, y));
        match &r {
            Ok(None) => assert!(kx == 1 && ky == 1 && raw64(x[0] + y[0]) == 0),
            Ok(Some(s)) => { assert!(kx == 3 && ky == 3); let mut i = 0; while i < 3 { assert!(raw64(s[i]) == raw64(x[i] + y[i])); i += 1; } }
            Err(_) => assert!(kx != ky || (kx != 1 && kx != 3) || (kx == 1 && raw64(x[0] + y[0]) != 0)),
        }
        kani::cover!(matches!(r, Ok(None)));
        kani::cover!(matches!(r, Ok(Some(_))));
        kani::cover!(r.is_err() && kx == 1 && ky == 1);
        forget(r);
    }

    #[kani::proof]
    #[kani::unwind(6)]
    #[kani::stub(alloc::fmt::format, crate::verif_common::format_stub)]
    fn pop_vs2m_guards() {
        let vdaf: Poplar1<XofTurboShake128, 32> = Poplar1::new(4);
        let ap = Poplar1AggregationParam { level: 0, prefixes: vec![] };
        let x = any64();
        let n: u8 = kani::any();
        kani::assume(n < 4);
        let mixed: bool = kani::any();
        let mk = |leaf: bool| if leaf { Poplar1FieldVec::Leaf(vec![]) } else { Poplar1FieldVec::Inner(vec![x, x, x]) };
        let shares: Vec<Poplar1FieldVec> = match n { 0 => vec![], 1 => vec![mk(false)], 2 => vec![mk(false), mk(mixed)], _ => vec![mk(false), mk(false), mk(false)] };
        let r = vdaf.verifier_shares_to_message(b"", &ap, shares);
        if n != 2 || mixed { assert!(r.is_err()); } else { assert!(r.is_ok()); }
        kani::cover!(r.is_ok());
        forget(r); forget(ap); forget(vdaf);
    }

    #[kani::proof]
    #[kani::unwind(6)]
    #[kani::stub(alloc::fmt::format, crate::verif_common::format_stub)]
    #[kani::stub(<crate::fp::FP64 as crate::fp::FieldOps<u64>>::mul, crate::verif_common::mul64_id_stub)]
    fn pop_verify_next_variants() {
        let vdaf: Poplar1<XofTurboShake128, 32> = Poplar1::new(4);
        let o = any64();
        let (a, b) = (any64(), any64());
        let sk: u8 = kani::any();
        kani::assume(sk < 4);
        // states: 0 Inner/RoundOne, 1 Inner/RoundTwo, 2 Leaf/RoundOne? (needs Field255 values: zero), 3 Leaf/RoundTwo
        let z = <Field255 as FieldElement>::zero();
        let state = Poplar1VerifierState(match sk {
            0 => VerifierStateVariant::Inner(VerifierState { sketch: SketchState::RoundOne { A_share: a, B_share: b, is_leader: kani::any() }, output_share: vec![o] }),
            1 => VerifierStateVariant::Inner(VerifierState { sketch: SketchState::RoundTwo, output_share: vec![o] }),
            2 => VerifierStateVariant::Leaf(VerifierState { sketch: SketchState::RoundOne { A_share: z, B_share: z, is_leader: kani::any() }, output_share: vec![] }),
            _ => VerifierStateVariant::Leaf(VerifierState { sketch: SketchState::RoundTwo, output_share: vec![] }),
        });
        let mk: u8 = kani::any();
        kani::assume(mk < 3);
        let msg = Poplar1VerifierMessage(match mk { 0 => VerifierMessageVariant::SketchInner([any64(), any64(), any64()]), 1 => VerifierMessageVariant::SketchLeaf([z, z, z]), _ => VerifierMessageVariant::Done });
        let r = vdaf.verify_next(b"", state, msg);
        match &r {
            Ok(VerifyTransition::Continue(Poplar1VerifierState(VerifierStateVariant::Inner(st)), Poplar1FieldVec::Inner(v))) => {
                assert!(sk == 0 && mk == 0 && matches!(st.sketch, SketchState::RoundTwo) && v.len() == 1 && st.output_share.len() == 1 && raw64(st.output_share[0]) == raw64(o));
            }
            Ok(VerifyTransition::Continue(Poplar1VerifierState(VerifierStateVariant::Leaf(st)), Poplar1FieldVec::Leaf(v))) => {
                assert!(sk == 2 && mk == 1 && matches!(st.sketch, SketchState::RoundTwo) && v.len() == 1);
            }
            Ok(VerifyTransition::Continue(..)) => assert!(false),
            Ok(VerifyTransition::Finish(Poplar1FieldVec::Inner(out))) => assert!(sk == 1 && mk == 2 && out.len() == 1 && raw64(out[0]) == raw64(o)),
            Ok(VerifyTransition::Finish(Poplar1FieldVec::Leaf(out))) => assert!(sk == 3 && mk == 2 && out.len() == 0),
            Err(_) => assert!(!((sk == 0 && mk == 0) || (sk == 2 && mk == 1) || (sk == 1 && mk == 2) || (sk == 3 && mk == 2))),
        }
        kani::cover!(matches!(r, Ok(VerifyTransition::Finish(_))));
        kani::cover!(matches!(r, Ok(VerifyTransition::Continue(..))));
        kani::cover!(r.is_err());
        forget(r); forget(vdaf);
    }
}
