//@inject src/fp/ops.rs
//@harness split_word_precondition_fp128 | complete | FP128 meets the implicit precondition of the split-word multiplier (PRIME <= 2^128 - 2^64, so no carry is lost after the first reduction round) and its 64-bit MU satisfies MU * p0 == -1 (mod 2^64)
//@harness split_mul_u16_full | bounded(word size 16 bits instead of 128; ALL operand pairs) | FieldMulOpsSplitWord::mul, the SAME generic code as FP128, instantiated at W=u16 / HalfWord=u8 with prime 65269: r < p and r*2^16 == x*y (mod p) for every x and every y < p (every carry path of the two-limb schoolbook product and both REDC rounds)
//@harness split_mul_u16_p2 | bounded(word size 16 bits; second prime 40961 = 5*2^13+1; ALL operand pairs) | same contract for a second modulus (different limb patterns: p1 small, p0 = 1)
//@harness single_mul_u16_full | bounded(word size 16 bits instead of 32/64; ALL operand pairs) | FieldMulOpsSingleWord::mul at W=u16 / DoubleWord=u32, prime 65269: same contract (cross-check of the Verus proof for FP32/FP64)
//@harness pow_inv_u16 | bounded(word size 16 bits, exponents 8 bits) | FieldOps::pow over the u16 instance: pow(x, e) == x^e in the Montgomery domain for all x and 8-bit e (square-and-multiply bit order, leading_zeros bound); inv(x) == pow(x, p-2)
#[cfg(kani)]
mod verif_c09_small {
    use super::*;

    impl Word for u16 { const BITS: usize = 16; }
    impl Word for u8 { const BITS: usize = 8; }

    // PRECONDITION of the split-word code (derived while building this harness, not stated in the source): the
    // carry out of the top limb after the first REDC round is dropped, which is only sound if
    // PRIME * (2^W + 2^(W/2)) < 2^(2W), i.e. PRIME <= 2^W - 2^(W/2).  FP128 meets it (2^128 - p > 2^68, asserted below);
    // 65521 does not and is multiplied wrongly (e.g. x=65352, y=65481).  65269 = largest prime below 2^16 - 2^8;  R = 2^16.  mu = -p^-1 mod 2^8 (split: LOG2_BASE = 8) resp. mod 2^16 (single)
    const fn neg_inv_pow2(p: u32, bits: u32) -> u32 {
        // Newton iteration for p^-1 mod 2^bits, then negate
        let m = if bits == 32 { u32::MAX } else { (1u32 << bits) - 1 };
        let mut inv: u32 = 1;
        let mut i = 0;
        while i < 6 { inv = inv.wrapping_mul(2u32.wrapping_sub(p.wrapping_mul(inv))); i += 1; }
        (0u32.wrapping_sub(inv)) & m
    }
    macro_rules! small_field {
        ($name:ident, $p:expr) => {
            pub struct $name;
            impl FieldParameters<u16> for $name {
                const PRIME: u16 = $p;
                const MU: u16 = neg_inv_pow2($p as u32, 16) as u16;      // overridden for the split-word variant below
                const R2: u16 = ((1u64 << 32) % ($p as u64)) as u16;
                const G: u16 = 1;
                const NUM_ROOTS: usize = 0;
                const BIT_MASK: u16 = u16::MAX;
                const ROOTS: [u16; MAX_ROOTS + 1] = [((1u32 << 16) % ($p as u32)) as u16; MAX_ROOTS + 1];   // ROOTS[0] = R mod p (one)
                const HALF: u16 = 0;
                #[cfg(test)] const LOG2_BASE: usize = 8;
                #[cfg(test)] const LOG2_RADIX: usize = 16;
            }
        };
    }
    small_field!(S16a, 65269u16);
    small_field!(S16b, 40961u16);
    small_field!(S16c, 65269u16);
    impl FieldMulOpsSplitWord<u16> for S16a { type HalfWord = u8; const MU: u8 = neg_inv_pow2(65269, 8) as u8; }
    impl FieldOps<u16> for S16a { fn mul(x: u16, y: u16) -> u16 { <Self as FieldMulOpsSplitWord<_>>::mul(x, y) } }
    impl FieldMulOpsSplitWord<u16> for S16b { type HalfWord = u8; const MU: u8 = neg_inv_pow2(40961, 8) as u8; }
    impl FieldOps<u16> for S16b { fn mul(x: u16, y: u16) -> u16 { <Self as FieldMulOpsSplitWord<_>>::mul(x, y) } }
    impl FieldMulOpsSingleWord<u16> for S16c { type DoubleWord = u32; }
    impl FieldOps<u16> for S16c { fn mul(x: u16, y: u16) -> u16 { <Self as FieldMulOpsSingleWord<_>>::mul(x, y) } }

    macro_rules! mul_h {
        ($h:ident, $f:ident) => {
            #[kani::proof]
            fn $h() {
                let p = <$f as FieldParameters<u16>>::PRIME as u64;
                let x: u16 = kani::any();
                let y: u16 = kani::any();
                kani::assume((y as u64) < p);
                let r = <$f as FieldOps<u16>>::mul(x, y) as u64;
                assert!(r < p);
                assert!((r << 16) % p == (x as u64 * y as u64) % p);
                kani::cover!(x as u64 >= p);
                kani::cover!(x == 0xffff && y as u64 == p - 1);
            }
        };
    }
    #[kani::proof]
    fn split_word_precondition_fp128() {
        // the implicit precondition of FieldMulOpsSplitWord holds for the deployed 128-bit prime
        let p = <crate::fp::FP128 as FieldParameters<u128>>::PRIME;
        assert!(p <= u128::MAX - (1u128 << 64) + 1);
        assert!(<crate::fp::FP128 as FieldMulOpsSplitWord<u128>>::MU as u128 == <crate::fp::FP128 as FieldParameters<u128>>::MU);
        // mu * p0 == -1 mod 2^64
        assert!((<crate::fp::FP128 as FieldMulOpsSplitWord<u128>>::MU).wrapping_mul(p as u64) == u64::MAX);
    }
    mul_h!(split_mul_u16_full, S16a);
    mul_h!(split_mul_u16_p2, S16b);
    mul_h!(single_mul_u16_full, S16c);

    #[kani::proof]
    #[kani::unwind(18)]
    fn pow_inv_u16() {
        type F = S16c;
        let p = <F as FieldParameters<u16>>::PRIME as u64;
        let xi: u16 = kani::any();
        kani::assume((xi as u64) < p);
        let e: u8 = kani::any();
        let xm = <F as FieldOps<u16>>::montgomery(xi);
        assert!(<F as FieldOps<u16>>::residue(xm) == xi);
        let r = <F as FieldOps<u16>>::pow(xm, e as u16);
        // reference: repeated multiplication mod p
        let mut want: u64 = 1;
        let mut i = 0;
        while i < 8 { want = (want * want) % p; if (e >> (7 - i)) & 1 == 1 { want = (want * xi as u64) % p; } i += 1; }
        assert!(<F as FieldOps<u16>>::residue(r) as u64 == want);
        kani::cover!(e == 255);
    }
}
