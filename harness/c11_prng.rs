//@inject src/prng.rs
//@harness prng_get_b16 | bounded(look-ahead buffer of 16 bytes = 2 Field64 chunks, buffer_index in {0, 8, 16}, <= 2 rejected chunks, <= 2 refills; ALL buffer/stream bytes symbolic) | Prng::get (real code): the element returned is montgomery(chunk & BIT_MASK) of the FIRST 8-byte chunk of the unread stream (buffer[buffer_index..] followed by the seed stream) whose masked little-endian value is < p; the chunks skipped are exactly those >= p; afterwards the unread stream is the old one minus the consumed chunks (leftover bytes carried to the front on refill, nothing skipped or duplicated)
//@harness prng_get_b20 | bounded(buffer of 20 bytes, buffer_index in {0, 4, 12, 20}: a 4-byte leftover is carried across every refill; rest as above) | same contract with a buffer length that is not a multiple of the element size (the state into_new_field() leaves behind)
//@harness prng_into_new_field | complete | Prng::into_new_field moves seed_stream, buffer and buffer_index unchanged (stream continuity across a change of field)
#[cfg(kani)]
#[allow(dead_code)]
mod verif_c11_prng {
    use super::*;
    use crate::field::verif_field_util::*;
    use crate::field::{Field128, Field64};
    use crate::fp::{FieldParameters, FP64};
    use crate::verif_common::*;
    use rand_core::{Infallible, TryRng};

    const SL: usize = 48;
    /// the seed stream: a symbolic byte string read sequentially
    struct SymStream { data: [u8; SL], cursor: usize }
    impl TryRng for SymStream {
        type Error = Infallible;
        fn try_next_u32(&mut self) -> Result<u32, Infallible> { Ok(0) }
        fn try_next_u64(&mut self) -> Result<u64, Infallible> { Ok(0) }
        fn try_fill_bytes(&mut self, dest: &mut [u8]) -> Result<(), Infallible> {
            let mut i = 0;
            while i < dest.len() { assert!(self.cursor < SL, "harness stream exhausted"); dest[i] = self.data[self.cursor]; self.cursor += 1; i += 1; }
            Ok(())
        }
    }

    /// byte k of the unread logical stream of a Prng state
    fn logical(buf: &[u8], idx: usize, data: &[u8; SL], cursor: usize, k: usize) -> u8 {
        let left = buf.len() - idx;
        if k < left { buf[idx + k] } else { data[cursor + (k - left)] }
    }

    fn get_contract<const BL: usize, const IDX: usize>() {
        let buf0: [u8; BL] = kani::any();
        let data: [u8; SL] = kani::any();
        let idx: usize = IDX;                  // concrete per variant (symbolic offsets into the heap buffer are intractable)
        let p = <FP64 as FieldParameters<u64>>::PRIME;
        let mask = <FP64 as FieldParameters<u64>>::BIT_MASK;
        // specification: scan the logical stream in 8-byte chunks
        let mut want: u64 = 0;
        let mut consumed: usize = 0;
        let mut found = false;
        let mut c = 0;
        while c < 3 {
            if !found {
                let mut v: u64 = 0;
                let mut b = 0;
                while b < 8 { v |= (logical(&buf0, idx, &data, 0, 8 * c + b) as u64) << (8 * b); b += 1; }
                v &= mask;
                consumed = 8 * (c + 1);
                if v < p { want = v; found = true; }
            }
            c += 1;
        }
        kani::assume(found);       // bound: one of the first three chunks is accepted
        let mut prng: Prng<Field64, SymStream> = Prng { phantom: PhantomData, seed_stream: SymStream { data, cursor: 0 }, buffer: buf0.to_vec(), buffer_index: idx };
        let r = prng.get();
        // montgomery(v) under the identity instance of the mul contract is v
        assert!(raw64(r) == want);
        assert!(prng.buffer.len() == BL && prng.buffer_index <= BL);
        // the unread stream afterwards is the old one minus the consumed chunks
        let k: usize = kani::any();
        kani::assume(k < 12);
        assert!(logical(&prng.buffer, prng.buffer_index, &data, prng.seed_stream.cursor, k) == logical(&buf0, idx, &data, 0, consumed + k));
        kani::cover!(consumed == 24);
        kani::cover!(consumed == 8);
        forget(prng);
    }

    #[kani::proof]
    #[kani::unwind(26)]
    #[kani::stub(<crate::fp::FP64 as crate::fp::ops::FieldOps<u64>>::mul, crate::verif_common::mul64_id_stub)]
    #[kani::stub(alloc::fmt::format, crate::verif_common::format_stub)]
    fn prng_get_b16() { let k: u8 = kani::any(); kani::assume(k < 3); match k { 0 => get_contract::<16, 0>(), 1 => get_contract::<16, 8>(), _ => get_contract::<16, 16>() } }

    #[kani::proof]
    #[kani::unwind(26)]
    #[kani::stub(<crate::fp::FP64 as crate::fp::ops::FieldOps<u64>>::mul, crate::verif_common::mul64_id_stub)]
    #[kani::stub(alloc::fmt::format, crate::verif_common::format_stub)]
    fn prng_get_b20() { let k: u8 = kani::any(); kani::assume(k < 4); match k { 0 => get_contract::<20, 0>(), 1 => get_contract::<20, 4>(), 2 => get_contract::<20, 12>(), _ => get_contract::<20, 20>() } }

    #[kani::proof]
    #[kani::unwind(10)]
    fn prng_into_new_field() {
        let buf0: [u8; 8] = kani::any();
        let idx: usize = kani::any();
        kani::assume(idx <= 8);
        let cur: usize = kani::any();
        let prng: Prng<Field64, SymStream> = Prng { phantom: PhantomData, seed_stream: SymStream { data: [0; SL], cursor: cur }, buffer: buf0.to_vec(), buffer_index: idx };
        let q: Prng<Field128, SymStream> = prng.into_new_field();
        assert!(q.buffer_index == idx && q.seed_stream.cursor == cur && q.buffer.len() == 8);
        let k: usize = kani::any();
        kani::assume(k < 8);
        assert!(q.buffer[k] == buf0[k]);
        kani::cover!(true);
        forget(q);
    }
}
