//@inject src/field/field255.rs
// Field255 is fiat-crypto limb arithmetic: assumed, not verified (DESIGN §3.9), and its code is
// intractable for CBMC.  Message-level harnesses replace its byte codec by the contract
// "encode appends exactly 32 bytes; decode consumes exactly 32 bytes or fails".
#[cfg(kani)]
#[allow(dead_code)]
pub(crate) mod verif_f255_util {
    use super::*;
    use crate::codec::CodecError;
    use std::io::{Cursor, Read};
    pub fn encode_stub(_e: &Field255, bytes: &mut Vec<u8>) -> Result<(), CodecError> {
        let b: [u8; 32] = kani::any();
        bytes.extend_from_slice(&b);
        Ok(())
    }
    pub fn decode_stub(bytes: &mut Cursor<&[u8]>) -> Result<Field255, CodecError> {
        let mut value = [0u8; 32];
        bytes.read_exact(&mut value)?;
        if kani::any() { Ok(<Field255 as FieldElement>::zero()) } else { Err(CodecError::UnexpectedValue) }
    }
}
