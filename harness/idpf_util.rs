//@inject src/idpf.rs
// R3: bitvec computations are out of CBMC's reach; harnesses that only need to pass IdpfInput values
// through stub the two constructors used by Poplar1AggregationParam::decode with an empty bit string.
#[cfg(kani)]
#[allow(dead_code)]
pub(crate) mod verif_idpf_util {
    use super::*;
    /// A placeholder value that is only ever moved and forgotten, never inspected or dropped by the
    /// harnesses that use it (constructing even an empty BitBox drags bitvec's pointer encoding into CBMC).
    pub fn empty_input() -> IdpfInput { unsafe { core::mem::MaybeUninit::<IdpfInput>::zeroed().assume_init() } }
    pub fn stub_from_bytes(_bytes: &[u8]) -> IdpfInput { empty_input() }
    pub fn stub_prefix(_s: &IdpfInput, _level: usize) -> IdpfInput { empty_input() }
    /// Contract stub of Idpf::eval for harnesses of its callers (the IDPF itself is C06): returns an inner-level share
    /// (the all-zero value) and counts the evaluations; nothing is read from the placeholder arguments.
    pub static mut EVAL_CALLS: usize = 0;
    pub fn eval_stub_inner_zero<VI: IdpfValue, VL: IdpfValue>(s: &Idpf<VI, VL>, _agg_id: usize, _ps: &IdpfPublicShare<VI, VL>, _key: &crate::vdaf::xof::Seed<16>,
        _prefix: &IdpfInput, _ctx: &[u8], _nonce: &[u8], _cache: &mut dyn IdpfCache) -> Result<IdpfOutputShare<VI, VL>, IdpfError> {
        unsafe { EVAL_CALLS += 1; }
        Ok(IdpfOutputShare::Inner(VI::zero(&s.inner_node_value_parameter)))
    }
    pub fn placeholder_public_share<VI, VL>() -> IdpfPublicShare<VI, VL> { unsafe { core::mem::MaybeUninit::<IdpfPublicShare<VI, VL>>::zeroed().assume_init() } }
    /// Contract stub of Idpf::gen_with_random (first clause of its contract, visible in the source: the keys returned are
    /// `[Seed(random[0]), Seed(random[1])]`, i.e. the raw randomness; the public share is opaque here - C06).
    pub static mut GEN_CALLS: usize = 0;
    pub fn gen_with_random_stub<VI, VL, M: IntoIterator<Item = VI>>(_s: &Idpf<VI, VL>, _input: &IdpfInput, inner_values: M, leaf_value: VL,
        _ctx: &[u8], _nonce: &[u8], random: &[[u8; 16]; 2]) -> Result<(IdpfPublicShare<VI, VL>, [crate::vdaf::xof::Seed<16>; 2]), crate::vdaf::VdafError>
    where VI: IdpfValue, VL: IdpfValue {
        unsafe { GEN_CALLS += 1; }
        core::mem::forget(inner_values); core::mem::forget(leaf_value);
        Ok((placeholder_public_share::<VI, VL>(), [crate::vdaf::xof::Seed::from_bytes(random[0]), crate::vdaf::xof::Seed::from_bytes(random[1])]))
    }
    /// IdpfInput::len for placeholder inputs (the bit string itself is never inspected once gen_with_random is stubbed)
    pub static mut INPUT_LEN: usize = 0;
    pub fn input_len_stub(_s: &IdpfInput) -> usize { unsafe { INPUT_LEN } }
}
