//@inject src/idpf.rs
// R3: bitvec computations are out of CBMC's reach; harnesses that only need to pass IdpfInput values
// through stub the two constructors used by Poplar1AggregationParam::decode with an empty bit string.
#[cfg(kani)]
#[allow(dead_code)]
pub(crate) mod verif_idpf_util {
    use super::*;
    /// A placeholder value that is only ever moved and forgotten, never inspected or dropped by the
    /// harnesses that use it (constructing even an empty BitBox drags bitvec's pointer encoding into CBMC).
    pub fn empty_input() -> IdpfInput { unsafe { core::mem::MaybeUninit::<IdpfInput>::zeroed().assume_init() } }
    pub fn stub_from_bytes(_bytes: &[u8]) -> IdpfInput { empty_input() }
    pub fn stub_prefix(_s: &IdpfInput, _level: usize) -> IdpfInput { empty_input() }
}
