//@inject src/field.rs
// Helpers that need the private representation of the make_field! types: arbitrary *well-formed*
// elements (representation invariant self.0 < p, DESIGN "is_valid() in preconditions") and raw access.
#[cfg(kani)]
#[allow(dead_code)]
pub(crate) mod verif_field_util {
    use super::*;
    pub fn any32() -> FieldPrio2 { let x: u32 = kani::any(); kani::assume(x < FP32::PRIME); FieldPrio2(x) }
    pub fn any64() -> Field64 { let x: u64 = kani::any(); kani::assume(x < FP64::PRIME); Field64(x) }
    pub fn any128() -> Field128 { let x: u128 = kani::any(); kani::assume(x < FP128::PRIME); Field128(x) }
    pub fn raw32(e: FieldPrio2) -> u32 { e.0 }
    pub fn raw64(e: Field64) -> u64 { e.0 }
    pub fn raw128(e: Field128) -> u128 { e.0 }
    pub fn mk64(x: u64) -> Field64 { Field64(x) }
    pub fn mk128(x: u128) -> Field128 { Field128(x) }
    pub fn mk32(x: u32) -> FieldPrio2 { FieldPrio2(x) }
    pub fn wf64(e: &Field64) -> bool { e.0 < FP64::PRIME }
    pub fn wf128(e: &Field128) -> bool { e.0 < FP128::PRIME }
    pub fn wf32(e: &FieldPrio2) -> bool { e.0 < FP32::PRIME }
    /// symbolic vector of symbolic length <= max (bounded: max is part of the harness label)
    pub fn any_vec64(max: usize) -> Vec<Field64> {
        let n: usize = kani::any();
        kani::assume(n <= max);
        let mut v = Vec::with_capacity(max);
        let mut i = 0;
        while i < max { if i < n { v.push(any64()); } i += 1; }
        v
    }
    pub fn any_vec128(max: usize) -> Vec<Field128> {
        let n: usize = kani::any();
        kani::assume(n <= max);
        let mut v = Vec::with_capacity(max);
        let mut i = 0;
        while i < max { if i < n { v.push(any128()); } i += 1; }
        v
    }
    pub fn any_vec32(max: usize) -> Vec<FieldPrio2> {
        let n: usize = kani::any();
        kani::assume(n <= max);
        let mut v = Vec::with_capacity(max);
        let mut i = 0;
        while i < max { if i < n { v.push(any32()); } i += 1; }
        v
    }
}
