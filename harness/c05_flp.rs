//@inject src/flp.rs
//@oracle flp_oracle.rs verif_oracle_flp::oracle_query_root_guard src/flp.rs
//@harness flp_query_root_guard_c1 | complete | Flp::query (real provided method, any circuit with one gadget called 1 time, any r): r^wire_poly_len(calls) == 1 => Err before any gadget polynomial is evaluated; exponent is wire_poly_len(calls) = next_pow2(1+calls)
//@harness flp_query_root_guard_c2 | complete | same, gadget called 2 times (wire polynomial length 4)
//@harness flp_query_root_guard_c3 | complete | same, gadget called 3 times (wire polynomial length 4)
//@harness flp_query_root_guard_c4 | complete | same, gadget called 4 times (wire polynomial length 8)
//@harness flp_query_root_guard_c8 | complete | same, gadget called 8 times (wire polynomial length 16)
//@harness flp_query_root_guard_split_c1 | complete | Flp::query on a circuit with TWO outputs (query randomness = [2 output-compression elements | 1 per gadget]), gadget called 1 time, any randomness: a root of unity in the GADGET slot => Err before any gadget polynomial is evaluated, whatever the compression slots hold
//@harness flp_query_root_guard_split_c2 | complete | same, gadget called 2 times (wire polynomial length 4)
//@harness flp_query_len_guards | complete | Flp::query: wrong input / proof / query-randomness / joint-randomness length => Err(Query) before any indexing (lengths symbolic 0..3 each)
//@harness flp_prove_len_guards | complete | Flp::prove (real provided method): wrong input / prover-randomness / joint-randomness length => Err(Prove) before the circuit's gadgets are even instantiated (lengths symbolic 0..3 each)
//@harness flp_decide_guards | complete | Flp::decide (real provided method): wrong verifier length => Err; verifier[0] != 0 => Ok(false); gadget check mismatch => Ok(false); else Ok(true); all indices in range
// R5: the real provided methods of trait Flp are instantiated with a harness-defined circuit `GType<CALLS>`
// whose single gadget reports `calls() == CALLS`.  The third call of `gadget()` inside `query` is the point
// just past the root-of-unity guard: reaching it with r^wire_poly_len == 1 is the violation.
#[cfg(kani)]
#[allow(dead_code, static_mut_refs)]
mod verif_c05_flp {
    use super::*;
    use crate::field::verif_field_util::*;
    use crate::field::{Field64, FieldElementWithInteger};
    use crate::verif_common::*;

    static mut GADGET_CALLS: usize = 0;     // how often Flp::gadget() was called
    static mut IS_ROOT: bool = false;       // ghost: r^wire_poly_len(calls) == 1
    static mut STOP_AFTER_GUARD: bool = false;
    static mut STOP_BEFORE_GUARD: bool = false;   // ghost: the lengths handed to query are wrong
    static mut STOP_AT_FIRST_GADGET: bool = false;   // ghost: the lengths handed to prove are wrong
    static mut EVAL_RESULT: u64 = 0;

    #[derive(Debug)]
    struct SymGadget<const CALLS: usize>;
    impl<const CALLS: usize> Gadget<Field64> for SymGadget<CALLS> {
        fn eval(&mut self, _inp: &[Field64]) -> Result<Field64, FlpError> { Ok(mk64(unsafe { EVAL_RESULT })) }
        fn eval_poly(&self, _outp: &mut [Field64], _inp: &[Vec<Field64>]) -> Result<(), FlpError> { Ok(()) }
        fn arity(&self) -> usize { 1 }
        fn degree(&self) -> usize { 2 }
        fn calls(&self) -> usize { CALLS }
        fn as_any(&mut self) -> &mut dyn Any { self }
    }
    #[derive(Clone, Debug, PartialEq, Eq)]
    struct GType<const CALLS: usize> { jr: usize, eo: usize }
    impl<const CALLS: usize> Flp for GType<CALLS> {
        type Field = Field64;
        fn gadget(&self) -> Vec<Box<dyn Gadget<Field64>>> {
            unsafe {
                GADGET_CALLS += 1;
                if STOP_AT_FIRST_GADGET {
                    // Flp::prove instantiates the gadgets only after its three length checks
                    assert!(false, "prove proceeds past its length checks with a wrong length");
                    kani::assume(false);
                }
                if STOP_BEFORE_GUARD && GADGET_CALLS == 2 {
                    // the guard loop of Flp::query is entered only after all four length checks
                    assert!(false, "query proceeds past its length checks with a wrong length");
                    kani::assume(false);
                }
                if STOP_AFTER_GUARD && GADGET_CALLS == 3 {
                    // past the guard loop of Flp::query (1st call: length check, 2nd: guard loop, 3rd: shims)
                    assert!(!IS_ROOT, "query evaluates gadget polynomials at a root of unity of the wire-polynomial domain");
                    kani::assume(false);
                }
            }
            vec![Box::new(SymGadget::<CALLS>)]
        }
        fn num_gadgets(&self) -> usize { 1 }
        fn valid(&self, _g: &mut Vec<Box<dyn Gadget<Field64>>>, _i: &[Field64], _j: &[Field64], _n: usize) -> Result<Vec<Field64>, FlpError> { Ok(vec![Field64::zero(); self.eo]) }
        fn input_len(&self) -> usize { 1 }
        // declared lengths are the ones the Flp contract prescribes (C05 length exactness, unit flp_lens)
        fn proof_len(&self) -> usize { 1 + gadget_poly_len(2, wire_poly_len(CALLS)) }
        fn verifier_len(&self) -> usize { 1 + 1 + 1 }
        fn joint_rand_len(&self) -> usize { self.jr }
        fn eval_output_len(&self) -> usize { self.eo }
        fn prove_rand_len(&self) -> usize { 1 }
    }

    fn spec_wire_poly_len(calls: usize) -> usize { let mut p = 1; while p < 1 + calls { p *= 2; } p }

    fn root_guard<const CALLS: usize, const PL: usize>() {
        let typ = GType::<CALLS> { jr: 0, eo: 1 };
        assert!(PL == 1 + 2 * (spec_wire_poly_len(CALLS) - 1) + 1);
        let r = any64();
        // specification side: r^n with n the wire-polynomial length, computed with the same (memoised) mul contract
        let n = spec_wire_poly_len(CALLS) as u64;
        let is_root = r.pow(n) == Field64::one();
        unsafe { IS_ROOT = is_root; STOP_AFTER_GUARD = true; GADGET_CALLS = 0; }
        let input = [Field64::zero(); 1];
        let proof = [Field64::zero(); PL];
        let res = typ.query(&input, &proof, &[r], &[], 1);
        // only executions that return before the third gadget() call arrive here
        if is_root { assert!(matches!(res, Err(FlpError::Query(_)))); }
        kani::cover!(is_root && res.is_err());
        forget(res);
    }
    macro_rules! rg { ($name:ident, $calls:expr, $pl:expr) => {
        #[kani::proof]
        #[kani::unwind(18)]
        #[kani::stub(<crate::fp::FP64 as crate::fp::ops::FieldOps<u64>>::mul, crate::verif_common::mul64_stub)]
        #[kani::stub(alloc::fmt::format, crate::verif_common::format_stub)]
        fn $name() { root_guard::<$calls, $pl>(); }
    } }
    rg!(flp_query_root_guard_c1, 1, 4);
    rg!(flp_query_root_guard_c2, 2, 8);
    rg!(flp_query_root_guard_c3, 3, 8);
    rg!(flp_query_root_guard_c4, 4, 16);
    rg!(flp_query_root_guard_c8, 8, 32);


    // a circuit with TWO outputs: the query randomness is [2 elements compressing the outputs | 1 element per gadget]; the guard
    // must inspect the GADGET slot (the point where wire and gadget polynomials are evaluated), not the compression slots
    fn root_guard_split<const CALLS: usize, const PL: usize>() {
        let typ = GType::<CALLS> { jr: 0, eo: 2 };
        assert!(PL == 1 + 2 * (spec_wire_poly_len(CALLS) - 1) + 1);
        let (v0, v1, r) = (any64(), any64(), any64());
        let n = spec_wire_poly_len(CALLS) as u64;
        let is_root = r.pow(n) == Field64::one();
        unsafe { IS_ROOT = is_root; STOP_AFTER_GUARD = true; GADGET_CALLS = 0; }
        let input = [Field64::zero(); 1];
        let proof = [Field64::zero(); PL];
        let res = typ.query(&input, &proof, &[v0, v1, r], &[], 1);
        if is_root { assert!(matches!(res, Err(FlpError::Query(_)))); }
        kani::cover!(is_root && res.is_err());
        forget(res);
    }
    macro_rules! rgs { ($name:ident, $calls:expr, $pl:expr) => {
        #[kani::proof]
        #[kani::unwind(18)]
        #[kani::stub(<crate::fp::FP64 as crate::fp::ops::FieldOps<u64>>::mul, crate::verif_common::mul64_stub)]
        #[kani::stub(alloc::fmt::format, crate::verif_common::format_stub)]
        fn $name() { root_guard_split::<$calls, $pl>(); }
    } }
    rgs!(flp_query_root_guard_split_c1, 1, 4);
    rgs!(flp_query_root_guard_split_c2, 2, 8);
    #[kani::proof]
    #[kani::unwind(6)]
    #[kani::stub(<crate::fp::FP64 as crate::fp::ops::FieldOps<u64>>::mul, crate::verif_common::mul64_stub)]
    #[kani::stub(alloc::fmt::format, crate::verif_common::format_stub)]
    fn flp_query_len_guards() {
        let jr: usize = kani::any();
        kani::assume(jr <= 1);
        let typ = GType::<1> { jr, eo: 1 };
        unsafe { IS_ROOT = false; STOP_BEFORE_GUARD = true; GADGET_CALLS = 0; }
        let buf = [Field64::zero(); 5];
        let (li, lp, lq, lj): (usize, usize, usize, usize) = (kani::any(), kani::any(), kani::any(), kani::any());
        kani::assume(li <= 3 && lp <= 5 && lq <= 3 && lj <= 3);
        let lens_ok = li == 1 && lp == 4 && lq == 1 && lj == jr;
        kani::assume(!lens_ok);
        let res = typ.query(&buf[..li], &buf[..lp], &buf[..lq], &buf[..lj], 1);
        assert!(matches!(res, Err(FlpError::Query(_))));
        // rejected before the root-of-unity loop ever asks for the gadgets a second time
        assert!(unsafe { GADGET_CALLS } <= 1);
        kani::cover!(li == 1 && lp == 4 && lq == 1 && lj != jr);
        forget(res);
    }

    #[kani::proof]
    #[kani::unwind(6)]
    #[kani::stub(alloc::fmt::format, crate::verif_common::format_stub)]
    fn flp_prove_len_guards() {
        let jr: usize = kani::any();
        kani::assume(jr <= 1);
        let typ = GType::<1> { jr, eo: 1 };
        unsafe { STOP_AT_FIRST_GADGET = true; STOP_AFTER_GUARD = false; STOP_BEFORE_GUARD = false; GADGET_CALLS = 0; }
        let buf = [Field64::zero(); 4];
        let (li, lp, lj): (usize, usize, usize) = (kani::any(), kani::any(), kani::any());
        kani::assume(li <= 3 && lp <= 3 && lj <= 3);
        kani::assume(!(li == 1 && lp == 1 && lj == jr));
        let res = typ.prove(&buf[..li], &buf[..lp], &buf[..lj]);
        assert!(matches!(res, Err(FlpError::Prove(_))));
        kani::cover!(li == 1 && lp == 1 && lj != jr);
        unsafe { STOP_AT_FIRST_GADGET = false; }
        forget(res);
    }

    #[kani::proof]
    #[kani::unwind(6)]
    #[kani::stub(alloc::fmt::format, crate::verif_common::format_stub)]
    fn flp_decide_guards() {
        let typ = GType::<1> { jr: 0, eo: 1 };
        unsafe { STOP_AFTER_GUARD = false; EVAL_RESULT = kani::any(); kani::assume(EVAL_RESULT < <crate::fp::FP64 as crate::fp::FieldParameters<u64>>::PRIME); }
        let v = [any64(), any64(), any64(), any64()];
        let l: usize = kani::any();
        kani::assume(l <= 4);
        let res = typ.decide(&v[..l]);
        if l != 3 {
            assert!(matches!(res, Err(FlpError::Decide(_))));
        } else {
            let want = raw64(v[0]) == 0 && raw64(v[2]) == unsafe { EVAL_RESULT };
            assert!(matches!(res, Ok(b) if b == want));
        }
        kani::cover!(matches!(res, Ok(true)));
        kani::cover!(matches!(res, Ok(false)));
        forget(res);
    }
}
