//@inject src/vdaf/prio2/server.rs
//@harness prio2_verification_layout_d1 | bounded(dimension 1: n = 2, proof domain 4, proof of 6 elements; ALL proof elements, query point and role symbolic) | generate_verification_message (real code, poly_interpret_eval replaced by a recording contract stub): exactly three interpolate-and-evaluate calls, all at the query point; f over the n points [f0, data..] ; g over [g0, data.. minus one for the first server only]; h over ALL 2n points [h0, p0, 0, p1, .. 0, p(n-1)] (packed points at the odd positions, zeros at the even ones, none dropped); the message is (f_r, g_r, h_r) of these three calls in this order
//@harness prio2_verification_layout_d2 | bounded(dimension 2: n = 4, proof domain 8, proof of 9 elements) | same contract at dimension 2 (one zero-padded data position)
//@harness prio2_is_valid_share | complete | is_valid_share(v1, v2) == ((v1.f_r + v2.f_r) * (v1.g_r + v2.g_r) == v1.h_r + v2.h_r) for all six elements (multiplication through the memoised contract stub), so the decision binds all three components of both messages
#[cfg(kani)]
#[allow(dead_code, static_mut_refs)]
mod verif_c19_prio2_verif {
    use super::*;
    use crate::field::verif_field_util::*;
    use crate::field::{FieldElement, FieldPrio2};
    use crate::verif_common::*;

    const MAXP: usize = 8;
    static mut CALLS: usize = 0;
    static mut LEN: [usize; 3] = [0; 3];
    static mut PTS: [[u32; MAXP]; 3] = [[0; MAXP]; 3];
    static mut AT: [u32; 3] = [0; 3];
    static mut TMPLEN: [usize; 3] = [0; 3];
    static mut RET: [u32; 3] = [0; 3];

    /// contract stub of polynomial::poly_interpret_eval: records (points, eval_at, scratch length), returns the next of three
    /// arbitrary field elements chosen by the harness
    fn pie_stub<F: NttFriendlyFieldElement>(points: &[F], eval_at: F, tmp_coeffs: &mut [F]) -> F {
        unsafe {
            assert!(CALLS < 3, "more than three interpolations");
            assert!(points.len() <= MAXP);
            LEN[CALLS] = points.len();
            TMPLEN[CALLS] = tmp_coeffs.len();
            let p = points.as_ptr() as *const FieldPrio2;
            let mut i = 0;
            while i < points.len() { PTS[CALLS][i] = raw32(*p.add(i)); i += 1; }
            AT[CALLS] = raw32(*(&eval_at as *const F as *const FieldPrio2));
            let r = mk32(RET[CALLS]);
            CALLS += 1;
            *(&r as *const FieldPrio2 as *const F)
        }
    }

    fn layout<const D: usize, const N: usize, const PL: usize>() {
        // PL == D + 3 + N, N == next_power_of_two(D + 1)
        let mut proof = [mk32(0); PL];
        let mut i = 0;
        while i < PL { proof[i] = any32(); i += 1; }
        let at = any32();
        let first: bool = kani::any();
        unsafe { RET = [raw32(any32()), raw32(any32()), raw32(any32())]; CALLS = 0; }
        let r = generate_verification_message::<FieldPrio2>(D, at, &proof, first);
        let p = <crate::fp::FP32 as crate::fp::FieldParameters<u32>>::PRIME;
        unsafe {
            assert!(r.is_ok());
            assert!(CALLS == 3);
            assert!(AT[0] == raw32(at) && AT[1] == raw32(at) && AT[2] == raw32(at));
            assert!(LEN[0] == N && LEN[1] == N && LEN[2] == 2 * N);
            assert!(TMPLEN[0] >= N && TMPLEN[1] >= N && TMPLEN[2] >= 2 * N);
            // f: [f0, data.., 0 padding]
            assert!(PTS[0][0] == raw32(proof[D]));
            assert!(PTS[1][0] == raw32(proof[D + 1]));
            let k: usize = kani::any();
            kani::assume(k >= 1 && k < N);
            if k <= D {
                let d = raw32(proof[k - 1]);
                assert!(PTS[0][k] == d);
                // g: data minus one for the first server only (Montgomery residue of one is R mod p under the id stub: compare through sub)
                let one = raw32(FieldPrio2::one());
                let want = if first { if d >= one { d - one } else { p - (one - d) } } else { d };
                assert!(PTS[1][k] == want);
            } else {
                assert!(PTS[0][k] == 0 && PTS[1][k] == 0);
            }
            // h: ALL 2N points: h0, then the packed points at the odd positions and zeros at the even ones
            assert!(PTS[2][0] == raw32(proof[D + 2]));
            let j: usize = kani::any();
            kani::assume(j < N);
            assert!(PTS[2][2 * j + 1] == raw32(proof[D + 3 + j]));
            if j >= 1 { assert!(PTS[2][2 * j] == 0); }
            if let Ok(m) = &r {
                assert!(raw32(m.f_r) == RET[0] && raw32(m.g_r) == RET[1] && raw32(m.h_r) == RET[2]);
            }
        }
        kani::cover!(first);
        kani::cover!(!first);
        forget(r);
    }

    #[kani::proof]
    #[kani::unwind(40)]
    #[kani::stub(crate::polynomial::poly_interpret_eval, pie_stub)]
    #[kani::stub(<crate::fp::FP32 as crate::fp::ops::FieldOps<u32>>::mul, crate::verif_common::mul32_id_stub)]
    #[kani::stub(alloc::fmt::format, crate::verif_common::format_stub)]
    fn prio2_verification_layout_d1() { layout::<1, 2, 6>(); }

    #[kani::proof]
    #[kani::unwind(40)]
    #[kani::stub(crate::polynomial::poly_interpret_eval, pie_stub)]
    #[kani::stub(<crate::fp::FP32 as crate::fp::ops::FieldOps<u32>>::mul, crate::verif_common::mul32_id_stub)]
    #[kani::stub(alloc::fmt::format, crate::verif_common::format_stub)]
    fn prio2_verification_layout_d2() { layout::<2, 4, 9>(); }

    #[kani::proof]
    #[kani::stub(<crate::fp::FP32 as crate::fp::ops::FieldOps<u32>>::mul, crate::verif_common::mul32_stub)]
    fn prio2_is_valid_share() {
        let v1 = VerificationMessage { f_r: any32(), g_r: any32(), h_r: any32() };
        let v2 = VerificationMessage { f_r: any32(), g_r: any32(), h_r: any32() };
        let got = is_valid_share(&v1, &v2);
        let want = (v1.f_r + v2.f_r) * (v1.g_r + v2.g_r) == v1.h_r + v2.h_r;
        assert!(got == want);
        // the sums are the field sums of the raw residues
        let p = <crate::fp::FP32 as crate::fp::FieldParameters<u32>>::PRIME as u64;
        assert!(raw32(v1.h_r + v2.h_r) as u64 == (raw32(v1.h_r) as u64 + raw32(v2.h_r) as u64) % p);
        kani::cover!(got);
        kani::cover!(!got);
    }
}
