//@inject src/ntt.rs
//@harness bitrev_is_rev | complete | ntt::bitrev(d, x) == rev(d, x) = the low d bits of x in reverse order (bit k of the result is bit d-1-k of x), for EVERY d in 1..=64 and EVERY x < 2^d - the contract of bitrev that the Verus unit ntt_value relies on; rev is computed by its defining recursion rev(k, j) = (j mod 2) * 2^(k-1) + rev(k-1, j div 2)
#[cfg(kani)]
mod verif_c10_bitrev {
    use super::*;

    #[kani::proof]
    #[kani::unwind(66)]
    fn bitrev_is_rev() {
        let d: usize = kani::any();
        kani::assume(d >= 1 && d <= 64);
        let x: usize = kani::any();
        if d < 64 { kani::assume(x < (1usize << d)); }
        // rev(d, x) by its recursion, unrolled: rev(k, j) = (j % 2) * 2^(k-1) + rev(k-1, j / 2)
        let mut want: usize = 0;
        let mut j = x;
        let mut k = d;
        while k > 0 {
            want += (j % 2) << (k - 1);
            j /= 2;
            k -= 1;
        }
        assert!(bitrev(d, x) == want);
        kani::cover!(d == 64);
        kani::cover!(d == 1);
    }
}
