//@inject src/lib.rs
// Shared harness vocabulary (DESIGN §3.3): contract stubs for field multiplication (R1), the
// forget idiom (R2), memoised nondeterminism for uninterpreted functions.
#[cfg(kani)]
#[allow(dead_code, static_mut_refs)]
pub(crate) mod verif_common {
    use crate::fp::{FieldParameters, FP128, FP32, FP64};

    /// Memoised nondeterministic function table: equal arguments give equal results (S1), nothing
    /// else is assumed.  Overflow of the table is an assertion failure, never a silent assume.
    macro_rules! memo_stub {
        ($name:ident, $tab:ident, $cnt:ident, $w:ty, $fp:ident, $n:expr) => {
            static mut $tab: [($w, $w, $w); $n] = [(0, 0, 0); $n];
            static mut $cnt: usize = 0;
            /// Contract stub of `<$fp as FieldOps<$w>>::mul`, proved in Verus unit fp_ops/fp_mul128:
            /// requires y < p; ensures r < p (and r*R == x*y mod p, which SAT is not given — see S1-S3).
            pub fn $name(x: $w, y: $w) -> $w {
                assert!(y < <$fp as FieldParameters<$w>>::PRIME, "mul contract: requires y < p");
                unsafe {
                    let mut i = 0;
                    while i < $n {
                        if i < $cnt && $tab[i].0 == x && $tab[i].1 == y {
                            return $tab[i].2;
                        }
                        i += 1;
                    }
                    assert!($cnt < $n, "memo table overflow: enlarge the table in the harness");
                    let r: $w = kani::any();
                    kani::assume(r < <$fp as FieldParameters<$w>>::PRIME);
                    // S3: mul(x, 0) == 0 and mul(0, y) == 0 (r*R == 0 mod p, r < p  =>  r == 0)
                    if x == 0 || y == 0 { kani::assume(r == 0); }
                    // S2: montgomery/residue are mutually inverse on [0,p) (Verus lemma lemma_mont_roundtrip):
                    //   mul(a,1) = v  <=>  mul(v,R2) = a   for a, v < p
                    let p = <$fp as FieldParameters<$w>>::PRIME;
                    let r2 = <$fp as FieldParameters<$w>>::R2;
                    let mut j = 0;
                    while j < $n {
                        if j < $cnt {
                            let (ex, ey, er) = $tab[j];
                            if y == r2 && ey == 1 && x < p && ex < p { kani::assume((er == x) == (r == ex)); }
                            if y == 1 && ey == r2 && x < p && ex < p { kani::assume((er == x) == (r == ex)); }
                            // injectivity of x -> mul(x, c) on [0,p) for the two conversion constants
                            if y == ey && (y == 1 || y == r2) && x < p && ex < p && x != ex { kani::assume(r != er); }
                        }
                        j += 1;
                    }
                    $tab[$cnt] = (x, y, r);
                    $cnt += 1;
                    r
                }
            }
        };
    }
    memo_stub!(mul32_stub, MUL32_TAB, MUL32_CNT, u32, FP32, 14);
    memo_stub!(mul64_stub, MUL64_TAB, MUL64_CNT, u64, FP64, 14);
    memo_stub!(mul128_stub, MUL128_TAB, MUL128_CNT, u128, FP128, 14);

    /// Cheap instance of the S1-S3 abstraction for message-level harnesses that only MOVE field elements
    /// (codecs, share plumbing): the Montgomery map and its inverse are taken to be the identity on [0,p)
    /// (so decode/encode are mutually inverse, S2), products with any other operand are unconstrained
    /// values < p.  The general (memoised) abstraction above is what the field-level codec contract is
    /// proved against in C09 (field{32,64,128}_bytes); harnesses using this instance list it as an assumption.
    macro_rules! id_stub {
        ($name:ident, $w:ty, $fp:ident) => {
            pub fn $name(x: $w, y: $w) -> $w {
                let p = <$fp as FieldParameters<$w>>::PRIME;
                assert!(y < p, "mul contract: requires y < p");
                if y == <$fp as FieldParameters<$w>>::R2 || y == 1 {
                    if x < p { x } else { x % p }
                } else if x == 0 || y == 0 {
                    0
                } else {
                    let r: $w = kani::any();
                    kani::assume(r < p);
                    r
                }
            }
        };
    }
    id_stub!(mul32_id_stub, u32, FP32);
    id_stub!(mul64_id_stub, u64, FP64);
    id_stub!(mul128_id_stub, u128, FP128);

    /// R2: never let CBMC unwind the drop glue of a boxed error.
    pub fn forget<T>(t: T) { core::mem::forget(t) }

    /// stub for alloc::fmt::format on error paths
    pub fn format_stub(_args: core::fmt::Arguments<'_>) -> String { String::new() }
}
