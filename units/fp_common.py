"""Shared pieces for the fp/ops.rs Verus units: constants parsed from /repo/src/fp.rs on every
run, the monomorphisation tables (DESIGN §3.2 E3/E4) and the spec vocabulary."""
import os
import re
import sys

sys.path.insert(0, os.path.join(os.path.dirname(__file__), '..', 'engine'))
from rsitems import find_item, strip_comments  # noqa: E402
from vunit import REPO  # noqa: E402

WORDS = {
    32: dict(W='u32', W2='u64', S='FP32', pfx='fp32', R='0x1_0000_0000int', R2T='0x1_0000_0000_0000_0000int',
             max='0xffff_ffffu32'),
    64: dict(W='u64', W2='u128', S='FP64', pfx='fp64', R='0x1_0000_0000_0000_0000int',
             R2T='0x1_0000_0000_0000_0000_0000_0000_0000_0000int', max='0xffff_ffff_ffff_ffffu64'),
    128: dict(W='u128', W2='u64', S='FP128', pfx='fp128', R='0x1_0000_0000_0000_0000_0000_0000_0000_0000int',
              R2T=None, max='0xffff_ffff_ffff_ffff_ffff_ffff_ffff_ffffu128'),
}


def fp_consts(bits):
    w = WORDS[bits]
    src = open(os.path.join(REPO, 'src/fp.rs')).read()
    blk = 'impl FieldParameters<%s> for %s' % (w['W'], w['S'])
    out = {}
    for c in ('PRIME', 'MU', 'R2', 'G', 'NUM_ROOTS', 'BIT_MASK', 'HALF'):
        it = find_item(src, [blk, 'const ' + c])
        mm = re.search(r'=\s*([0-9_]+)\s*;', strip_comments(it.text))
        out[c] = int(mm.group(1).replace('_', ''))
    it = find_item(src, [blk, 'const ROOTS'])
    body = strip_comments(it.text).split('=', 1)[1]
    out['ROOTS'] = [int(x.replace('_', '')) for x in re.findall(r'\b[0-9][0-9_]*\b', body.split('[', 1)[1])]
    return out


def const_decls(bits):
    w, c = WORDS[bits], fp_consts(bits)
    P = w['pfx'].upper()
    lines = ['// constants parsed from %s/src/fp.rs (impl FieldParameters<%s> for %s) on this run' % (REPO, w['W'], w['S'])]
    for k in ('PRIME', 'MU', 'R2', 'G', 'BIT_MASK', 'HALF'):
        lines.append('pub const %s_%s: %s = %d;' % (P, k, w['W'], c[k]))
    lines.append('pub const %s_ROOT0: %s = %d;' % (P, w['W'], c['ROOTS'][0]))
    return '\n'.join(lines), c


def table(bits):
    """E3/E4 token substitutions for one instance (what rustc's monomorphisation does)."""
    w = WORDS[bits]
    P = w['pfx'].upper()
    W = w['W']
    return [
        (r'\.(overflowing_add|overflowing_sub|wrapping_add|wrapping_sub|wrapping_mul)\(\s*&', r'.\1(', '*'),   # num_traits by-ref shims
        (r'<W as From<bool>>::from\(', r'bool_as_%s(' % W, '*'),
        (r'\bSelf::PRIME\b', P + '_PRIME', '*'),
        (r'\bW::ZERO\b', '0' + W, '*'),
        (r'\bW::ONE\b', '1' + W, '*'),
    ]


def tsel(bits, *which, extra=()):
    t = table(bits)
    names = {'ovf': 0, 'bool': 1, 'prime': 2, 'zero': 3, 'one': 4}
    return list(extra) + t


def wty(bits):
    return [(r'\bW\b', WORDS[bits]['W'])]
