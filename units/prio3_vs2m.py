"""C02/C16 — Prio3::verifier_shares_to_message under contract (Verus) for ANY number of verifier shares, ANY num_proofs and ANY
verifier length (the Kani harnesses p3_vs2m_* are the bounded stand-ins this replaces).

The FLP type is abstract: verifier_len() / joint_rand_len() are arbitrary constants of the instance, `decide` an uninterpreted
partial function decide_spec(verifier chunk) (its own contract: C05), `derive_joint_rand_seed` an uninterpreted function of
(ctx, the parts in order) (its transcript: C18).  Contract:

    r is Ok  <==>  exactly num_aggregators shares were supplied
                   AND every share carries exactly verifier_len*num_proofs verifier elements
                   AND decide(chunk p of the element-wise field SUM of all shares) == Ok(true) for EVERY proof p < num_proofs
    r is Ok  ==>   joint_rand_seed == Some(derive(ctx, [part of share 0, .., part of share n-1]))  when joint randomness is used
                   (ALL parts, in the order the shares were supplied), None otherwise

so a short/long share, a missing/extra share, one failing or erroring proof among many, or a dropped joint-randomness part are
all refused / bound.  No arithmetic overflow for any count of shares.  Rewrites beyond the listed ones: the generic signature
is replaced by its instance over the abstract types; `for share in inputs.into_iter()` -> index loop (E4c); `verifiers.chunks(n)`
-> chunk shims (E4i); `?` with From<FlpError> -> match (E4d)."""
from fe_common import FE_PRELUDE
from vunit import VUnit

F = 'src/vdaf/prio3.rs'
PRELUDE = '''
pub enum FlpError { Decide(String), Other }
pub enum VdafError { Uncategorized(String), Flp(FlpError) }
#[verifier::external_body]
fn fmt_opaque() -> String { String::new() }
#[verifier::external_body]
#[derive(Clone, Copy)]
pub struct SeedT { _s: u8 }                       // Seed<SEED_SIZE>
pub struct Prio3VerifierShare { pub verifiers: Vec<Fe>, pub joint_rand_part: Option<SeedT> }
pub struct Prio3VerifierMessage { pub joint_rand_seed: Option<SeedT> }
pub struct Prio3Any { pub num_aggregators: u8, pub num_proofs: u8 }
pub uninterp spec fn decide_spec(chunk: Seq<Fe>) -> Option<bool>;                   // Type::decide: Some(b) = Ok(b), None = Err
pub uninterp spec fn jr_seed_spec(ctx: Seq<u8>, parts: Seq<SeedT>) -> SeedT;        // derive_joint_rand_seed
impl Prio3Any {
    pub uninterp spec fn vl(&self) -> int;
    pub uninterp spec fn jrl(&self) -> int;
    #[verifier::external_body]
    fn typ_verifier_len(&self) -> (r: usize) ensures r == self.vl() { unimplemented!() }
    #[verifier::external_body]
    fn typ_joint_rand_len(&self) -> (r: usize) ensures r == self.jrl() { unimplemented!() }
    fn num_proofs(&self) -> (r: usize) ensures r == self.num_proofs { self.num_proofs as usize }
    fn num_aggregators(&self) -> (r: usize) ensures r == self.num_aggregators { self.num_aggregators as usize }
    #[verifier::external_body]
    fn typ_decide(&self, verifier: &Vec<Fe>) -> (r: Result<bool, FlpError>)
        ensures match decide_spec(verifier@) { Some(b) => r == Ok::<bool, FlpError>(b), None => r is Err }
    { unimplemented!() }
    #[verifier::external_body]
    fn derive_joint_rand_seed(&self, ctx: &Vec<u8>, parts: &Vec<SeedT>) -> (r: SeedT) ensures r == jr_seed_spec(ctx@, parts@) { unimplemented!() }
}
// contract proved in unit field_vec (same run)
#[verifier::external_body]
fn add_assign_vector(a: &mut Vec<Fe>, b: &Vec<Fe>)
    requires b@.len() >= old(a)@.len(),
    ensures final(a)@.len() == old(a)@.len(), forall|i: int| 0 <= i < old(a)@.len() ==> #[trigger] final(a)@[i] == fe_mk(fe_v(old(a)@[i]) + fe_v(b@[i])),
{ unimplemented!() }
// v.chunks(n)  [std semantics; chunks(0) panics]
#[verifier::external_body]
fn chunks_count(len: usize, n: usize) -> (r: usize) requires n > 0 ensures r as int == (len as int + n as int - 1) / (n as int) { unimplemented!() }
#[verifier::external_body]
fn chunk_at(input: &Vec<Fe>, n: usize, k: usize) -> (r: Vec<Fe>)
    requires n > 0, (k as int) * (n as int) < input@.len(),
    ensures r@ == chunk_of(input@, n as int, k as int)
{ unimplemented!() }
pub open spec fn chunk_of(s: Seq<Fe>, n: int, k: int) -> Seq<Fe> { s.subrange(k * n, if (k + 1) * n <= s.len() { (k + 1) * n } else { s.len() as int }) }
// element i of the in-order field sum of the first n shares (starting from zero)
pub open spec fn vsum(inputs: Seq<Prio3VerifierShare>, i: int, n: int) -> Fe decreases n
{ if n <= 0 { fe_mk(0) } else { fe_mk(fe_v(vsum(inputs, i, n - 1)) + fe_v(inputs[n - 1].verifiers@[i])) } }
pub open spec fn sumvec(inputs: Seq<Prio3VerifierShare>, len: int) -> Seq<Fe> { Seq::new(len as nat, |i: int| vsum(inputs, i, inputs.len() as int)) }
pub open spec fn parts_of(inputs: Seq<Prio3VerifierShare>, n: int) -> Seq<SeedT> decreases n
{ if n <= 0 { Seq::empty() } else { parts_of(inputs, n - 1).push(inputs[n - 1].joint_rand_part->Some_0) } }
pub open spec fn lens_ok(inputs: Seq<Prio3VerifierShare>, n: int, len: int) -> bool { forall|s: int| 0 <= s < n ==> (#[trigger] inputs[s]).verifiers@.len() == len }
pub open spec fn all_decide(v: Seq<Fe>, vl: int, n: int) -> bool { forall|c: int| 0 <= c < n ==> decide_spec(#[trigger] chunk_of(v, vl, c)) == Some(true) }
pub open spec fn nchunks_as_np(vl: int, np: int) -> bool { (vl * np + vl - 1) / vl == np }
proof fn lemma_nchunks(vl: int, np: int) requires vl >= 1, np >= 0 ensures nchunks_as_np(vl, np)
{
    assert(vl * np + vl - 1 == np * vl + (vl - 1)) by (nonlinear_arith);
    lemma_fundamental_div_mod_converse(vl * np + vl - 1, vl, np, vl - 1);
}
proof fn lemma_chunk_idx(len: int, n: int, k: int)
    requires n > 0, len >= 0, 0 <= k < (len + n - 1) / n
    ensures k * n < len
{
    lemma_fundamental_div_mod(len + n - 1, n);
    let q = (len + n - 1) / n;
    lemma_mod_bound(len + n - 1, n);
    assert(k * n < len) by (nonlinear_arith) requires len + n - 1 == n * q + (len + n - 1) % n, 0 <= (len + n - 1) % n < n, 0 <= k < q, n > 0;
}
'''


def unit():
    u = VUnit('prio3_vs2m', 'Prio3::verifier_shares_to_message: share count, share lengths, every proof decided on the sum, all joint-rand parts bound')
    u.oracle = {'inject': 'src/vdaf/prio3.rs', 'file': 'prio3_oracle.rs', 'test': 'verif_oracle_prio3::oracle_vs2m'}
    u.raw('global size_of usize == 8;\n' + FE_PRELUDE, 'abstract-field')
    u.raw(PRELUDE, 'abstract-type')
    u.item(F, ['impl<T, P, const SEED_SIZE: usize> Aggregator<SEED_SIZE, 16> for Prio3<T, P, SEED_SIZE>', 'fn verifier_shares_to_message'], ret='r',
           impl_header='impl Prio3Any', attrs='#[verifier::loop_isolation(false)]',
           rewrites=[(r'fn verifier_shares_to_message<.*?>\(\s*&self,\s*ctx: &\[u8\],\s*_: &Self::AggregationParam,\s*inputs: M,\s*\) -> Result<Prio3VerifierMessage<SEED_SIZE>, VdafError> \{',
                      'fn verifier_shares_to_message(&self, ctx: &Vec<u8>, inputs: &Vec<Prio3VerifierShare>) -> Result<Prio3VerifierMessage, VdafError> {', 1),
                     (r'vec!\[T::Field::zero\(\);', 'vec![fe_zero();', 1), (r'self\.typ\.(\w+)\(', r'self.typ_\1(', '*'),
                     (r'let mut joint_rand_parts = Vec::with_capacity', 'let mut joint_rand_parts: Vec<SeedT> = Vec::with_capacity', 1),
                     (r'for share in inputs\.into_iter\(\) \{', 'for k_ in 0..inputs.len() { let share = &inputs[k_];', 1),      # E4c
                     (r'format!\((?:[^()]|\([^()]*\))*\)', 'fmt_opaque()', '*'), (r'"\.into\(\)', '".to_string()', '*'),
                     (r'share\.verifiers\.iter\(\)\.copied\(\)', '&share.verifiers', 1),
                     (r'usize::from\(self\.num_aggregators\)', '(self.num_aggregators as usize)', '*'),
                     (r'for verifier in verifiers\.chunks\(self\.typ_verifier_len\(\)\) \{',
                      'let nchunks_ = chunks_count(verifiers.len(), self.typ_verifier_len()); for c_ in 0..nchunks_ { let verifier = &chunk_at(&verifiers, self.typ_verifier_len(), c_);', 1),   # E4i
                     (r'self\.typ_decide\(verifier\)\?', '(match self.typ_decide(verifier) { Ok(v) => v, Err(e) => { return Err(VdafError::Flp(e)); } })', 1),   # E4d
                     (r'joint_rand_parts\.iter\(\)', '&joint_rand_parts', 1)],
           sig='''
requires
    self.vl() >= 1,                                              // derived: every shipped circuit has verifier_len >= 2 (unit flp_lens)
    self.vl() * (self.num_proofs as int) <= usize::MAX,          // derived: the verifier vector of an instance is allocatable
    // derived: the decoder gives a share a joint randomness part exactly when the type uses joint randomness
    self.jrl() > 0 ==> forall|s: int| 0 <= s < inputs@.len() ==> (#[trigger] inputs@[s]).joint_rand_part is Some,
ensures
    r is Ok <==> (inputs@.len() == self.num_aggregators
                  && lens_ok(inputs@, inputs@.len() as int, self.vl() * (self.num_proofs as int))
                  && all_decide(sumvec(inputs@, self.vl() * (self.num_proofs as int)), self.vl(), self.num_proofs as int)),
    r is Ok ==> r->Ok_0.joint_rand_seed == (if self.jrl() > 0 { Some(jr_seed_spec(ctx@, parts_of(inputs@, inputs@.len() as int))) } else { None::<SeedT> }),
''', loops={0: '''
invariant
    verifiers@.len() == self.vl() * (self.num_proofs as int), count == k_,
    lens_ok(inputs@, k_ as int, verifiers@.len() as int),
    forall|i: int| 0 <= i < verifiers@.len() ==> #[trigger] verifiers@[i] == vsum(inputs@, i, k_ as int),
    self.jrl() > 0 ==> joint_rand_parts@ == parts_of(inputs@, k_ as int),
''', 1: '''
invariant
    all_decide(verifiers@, self.vl(), c_ as int),
'''}, before=[('let mut joint_rand_parts', '''
    broadcast use axiom_fe_range;
    assert forall|i: int| 0 <= i < verifiers@.len() implies #[trigger] verifiers@[i] == vsum(inputs@, i, 0) by { axiom_fe_range(verifiers@[i]); }
'''), ('if count != (self.num_aggregators as usize)', '''
    assert(verifiers@ =~= sumvec(inputs@, self.vl() * (self.num_proofs as int)));
'''), ('let nchunks_', '''
    // vl * np elements in chunks of vl: exactly np chunks
    lemma_nchunks(self.vl(), self.num_proofs as int);
'''), ('let verifier = &chunk_at(', '''
    lemma_chunk_idx(verifiers@.len() as int, self.vl(), c_ as int);
''')])
    return u
