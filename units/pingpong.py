"""C12 — the ping-pong routines under contract (Verus) over an ABSTRACT VDAF, and the whole-exchange theorem.

The aggregator `Agg` is abstract: verify_init / verifier_shares_to_message / verify_next are uninterpreted (partial) functions of their
arguments (any VDAF, any number of rounds, any failure), the verifier-share / verifier-message codecs are uninterpreted partial
functions (enc_*, dec_* with the verifier state as decoding parameter).  The five routines are extracted from
src/topology/ping_pong.rs on every run; their contracts say that each one IS the specified transition (VDAF 5.7.1):

  leader_initialized == sp_leader_initialized   (verify_init as aggregator 0, Initialize{enc(share)})
  helper_initialized == sp_helper_initialized   (verify_init as aggregator 1; ONLY an Initialize message; shares combined in
                                                 aggregator order [leader, helper]; continuation = (state, message))
  continued          == sp_continued            (Initialize refused; Continue needs a host Continue transition, Finish a host Finish
                                                 transition; the peer share is decoded with the NEXT state; shares combined in aggregator
                                                 order whatever the role; nothing released on any refusal)
  evaluate / evaluate_transition == sp_evaluate (pure function of the continuation: Finished{out} or verify_next(prev, msg) ->
                                                 Continued{state, Continue{enc msg, enc share}} | FinishedWithOutbound{out, Finish{enc msg}})

THEOREM theorem_ping_pong_equals_broadcast (induction lemma_pp_continues over the number of rounds, unbounded): whenever the direct
broadcast execution of the VDAF finishes in round n with output shares (ol, oh), the exchange driven by these transitions sends
Initialize, n Continue messages carrying exactly enc(message of round t-1), enc(mover share of round t), then one Finish message, and
both parties end with exactly THEIR broadcast output share.  Hypothesis (stated, property C07): verifier shares and messages encode
and decode back under the receiver state.

Desugarings applied by the extraction (E4j, mechanical, every occurrence): `E.map_err(PingPongError::V)?` -> `match E { Ok(v_) => v_,
Err(e_) => return Err(PingPongError::V(e_)) }`; a TAIL-position `E.map_err(PingPongError::V).and_then(|p| B)` -> `match E { Err(e_) =>
Err(PingPongError::V(e_)), Ok(p) => B }` (a `?` inside B returns from the closure, which in tail position is the function result);
`X.into()` on a PingPongContinuationInner -> `PingPongContinuation(X)` (the From impl, extracted and checked below);
`verifier_shares.reverse()` on the 2-array -> arr2_reverse shim; associated types of the generic Aggregator -> the abstract types."""
import re
from vunit import VUnit, Unsupported

F = 'src/topology/ping_pong.rs'

PRELUDE = '''
#[verifier::external_body] pub struct VState { _x: u8 }
#[verifier::external_body] pub struct VShare { _x: u8 }
#[verifier::external_body] pub struct VMsg { _x: u8 }
#[verifier::external_body] pub struct OutShare { _x: u8 }
#[verifier::external_body] pub struct AggParam { _x: u8 }
#[verifier::external_body] pub struct PubShare { _x: u8 }
#[verifier::external_body] pub struct InShare { _x: u8 }
#[verifier::external_body] pub struct VdafError { _x: u8 }
#[verifier::external_body] pub struct CodecError { _x: u8 }
impl Clone for VState { #[verifier::external_body] fn clone(&self) -> (r: Self) ensures r == *self { unimplemented!() } }
impl Clone for VMsg { #[verifier::external_body] fn clone(&self) -> (r: Self) ensures r == *self { unimplemented!() } }
impl Clone for OutShare { #[verifier::external_body] fn clone(&self) -> (r: Self) ensures r == *self { unimplemented!() } }

pub enum VerifyTransition { Continue(VState, VShare), Finish(OutShare) }

pub uninterp spec fn enc_share(s: VShare) -> Result<Seq<u8>, CodecError>;
pub uninterp spec fn enc_msg(s: VMsg) -> Result<Seq<u8>, CodecError>;
pub uninterp spec fn dec_share(st: VState, b: Seq<u8>) -> Result<VShare, CodecError>;
pub uninterp spec fn dec_msg(st: VState, b: Seq<u8>) -> Result<VMsg, CodecError>;

impl VShare {
    #[verifier::external_body]
    fn get_encoded(&self) -> (r: Result<Vec<u8>, CodecError>)
        ensures match r { Ok(b) => enc_share(*self) == Ok::<Seq<u8>, CodecError>(b@), Err(e) => enc_share(*self) == Err::<Seq<u8>, CodecError>(e) }
    { unimplemented!() }
    #[verifier::external_body]
    fn get_decoded_with_param(st: &VState, b: &Vec<u8>) -> (r: Result<VShare, CodecError>)
        ensures r == dec_share(*st, b@)
    { unimplemented!() }
}
impl VMsg {
    #[verifier::external_body]
    fn get_encoded(&self) -> (r: Result<Vec<u8>, CodecError>)
        ensures match r { Ok(b) => enc_msg(*self) == Ok::<Seq<u8>, CodecError>(b@), Err(e) => enc_msg(*self) == Err::<Seq<u8>, CodecError>(e) }
    { unimplemented!() }
    #[verifier::external_body]
    fn get_decoded_with_param(st: &VState, b: &Vec<u8>) -> (r: Result<VMsg, CodecError>)
        ensures r == dec_msg(*st, b@)
    { unimplemented!() }
}

#[verifier::external_body] pub struct Agg<const VERIFY_KEY_SIZE: usize, const NONCE_SIZE: usize> { _x: u8 }
impl<const VERIFY_KEY_SIZE: usize, const NONCE_SIZE: usize> Agg<VERIFY_KEY_SIZE, NONCE_SIZE> {
    pub uninterp spec fn sp_verify_init(&self, vk: Seq<u8>, ctx: Seq<u8>, id: usize, ap: AggParam, nonce: Seq<u8>, ps: PubShare, is: InShare) -> Result<(VState, VShare), VdafError>;
    pub uninterp spec fn sp_vs2m(&self, ctx: Seq<u8>, ap: AggParam, shares: Seq<VShare>) -> Result<VMsg, VdafError>;
    pub uninterp spec fn sp_verify_next(&self, ctx: Seq<u8>, st: VState, m: VMsg) -> Result<VerifyTransition, VdafError>;
    #[verifier::external_body]
    fn verify_init(&self, verify_key: &[u8; VERIFY_KEY_SIZE], ctx: &[u8], agg_id: usize, agg_param: &AggParam, nonce: &[u8; NONCE_SIZE], public_share: &PubShare, input_share: &InShare) -> (r: Result<(VState, VShare), VdafError>)
        ensures r == self.sp_verify_init(verify_key@, ctx@, agg_id, *agg_param, nonce@, *public_share, *input_share)
    { unimplemented!() }
    #[verifier::external_body]
    fn verifier_shares_to_message(&self, ctx: &[u8], agg_param: &AggParam, inputs: [VShare; 2]) -> (r: Result<VMsg, VdafError>)
        ensures r == self.sp_vs2m(ctx@, *agg_param, inputs@)
    { unimplemented!() }
    #[verifier::external_body]
    fn verify_next(&self, ctx: &[u8], state: VState, input: VMsg) -> (r: Result<VerifyTransition, VdafError>)
        ensures r == self.sp_verify_next(ctx@, state, input)
    { unimplemented!() }
}
#[verifier::external_body]
fn arr2_reverse(a: &mut [VShare; 2]) ensures final(a)@ == seq![old(a)@[1], old(a)@[0]] { unimplemented!() }
'''

SPEC = '''
// ---------------- spec views -------------------------------------------------------------------------------------------
pub enum MsgV { Initialize { vs: Seq<u8> }, Continue { vm: Seq<u8>, vs: Seq<u8> }, Finish { vm: Seq<u8> } }
pub enum StateV { Continued { st: VState, msg: MsgV }, FinishedWithOutbound { out: OutShare, msg: MsgV }, Finished { out: OutShare } }
pub enum ContV { OutputShare(OutShare), Transition { prev: VState, msg: VMsg } }
pub open spec fn mview(m: PingPongMessage) -> MsgV {
    match m {
        PingPongMessage::Initialize { verifier_share } => MsgV::Initialize { vs: verifier_share@ },
        PingPongMessage::Continue { verifier_message, verifier_share } => MsgV::Continue { vm: verifier_message@, vs: verifier_share@ },
        PingPongMessage::Finish { verifier_message } => MsgV::Finish { vm: verifier_message@ },
    }
}
pub open spec fn sview(s: PingPongState<VState, OutShare>) -> StateV {
    match s {
        PingPongState::Continued(c) => StateV::Continued { st: c.verifier_state, msg: mview(c.message) },
        PingPongState::FinishedWithOutbound { output_share, message } => StateV::FinishedWithOutbound { out: output_share, msg: mview(message) },
        PingPongState::Finished { output_share } => StateV::Finished { out: output_share },
    }
}
pub closed spec fn cview(c: PingPongContinuation) -> ContV {
    match c.0 {
        PingPongContinuationInner::OutputShare(o) => ContV::OutputShare(o),
        PingPongContinuationInner::Transition { previous_verifier_state, current_verifier_message } => ContV::Transition { prev: previous_verifier_state, msg: current_verifier_message },
    }
}
// the environment of one report
pub struct Env { pub vk: Seq<u8>, pub ctx: Seq<u8>, pub ap: AggParam, pub nonce: Seq<u8>, pub ps: PubShare, pub lis: InShare, pub his: InShare }

impl<const VERIFY_KEY_SIZE: usize, const NONCE_SIZE: usize> Agg<VERIFY_KEY_SIZE, NONCE_SIZE> {
    // ---- the specified transitions (VDAF 5.7.1), as functions of the abstract VDAF ------------------------------------
    pub open spec fn sp_leader_initialized(&self, vk: Seq<u8>, ctx: Seq<u8>, ap: AggParam, nonce: Seq<u8>, ps: PubShare, is: InShare) -> Option<(VState, MsgV)> {
        match self.sp_verify_init(vk, ctx, 0, ap, nonce, ps, is) {
            Err(_) => None,
            Ok((st, sh)) => match enc_share(sh) { Err(_) => None, Ok(b) => Some((st, MsgV::Initialize { vs: b })) },
        }
    }
    pub open spec fn sp_helper_initialized(&self, vk: Seq<u8>, ctx: Seq<u8>, ap: AggParam, nonce: Seq<u8>, ps: PubShare, is: InShare, inbound: MsgV) -> Option<ContV> {
        match self.sp_verify_init(vk, ctx, 1, ap, nonce, ps, is) {
            Err(_) => None,
            Ok((st, sh)) => match inbound {
                MsgV::Initialize { vs } => match dec_share(st, vs) {
                    Err(_) => None,
                    // aggregator order: the leader's share first
                    Ok(lsh) => match self.sp_vs2m(ctx, ap, seq![lsh, sh]) { Err(_) => None, Ok(m) => Some(ContV::Transition { prev: st, msg: m }) },
                },
                _ => None,
            },
        }
    }
    pub open spec fn sp_continued(&self, ctx: Seq<u8>, is_leader: bool, ap: AggParam, st: VState, inbound: MsgV) -> Option<ContV> {
        match inbound {
            MsgV::Initialize { .. } => None,
            MsgV::Continue { vm, vs } => match dec_msg(st, vm) {
                Err(_) => None,
                Ok(m) => match self.sp_verify_next(ctx, st, m) {
                    Ok(VerifyTransition::Continue(st2, hostsh)) => match dec_share(st2, vs) {
                        Err(_) => None,
                        Ok(peersh) => match self.sp_vs2m(ctx, ap, if is_leader { seq![hostsh, peersh] } else { seq![peersh, hostsh] }) {
                            Err(_) => None,
                            Ok(m2) => Some(ContV::Transition { prev: st2, msg: m2 }),
                        },
                    },
                    _ => None,      // the host finished but the peer continues, or verify_next refused
                },
            },
            MsgV::Finish { vm } => match dec_msg(st, vm) {
                Err(_) => None,
                Ok(m) => match self.sp_verify_next(ctx, st, m) {
                    Ok(VerifyTransition::Finish(out)) => Some(ContV::OutputShare(out)),
                    _ => None,      // the peer finished but the host continues, or verify_next refused
                },
            },
        }
    }
    pub open spec fn sp_evaluate(&self, ctx: Seq<u8>, c: ContV) -> Option<StateV> {
        match c {
            ContV::OutputShare(o) => Some(StateV::Finished { out: o }),
            ContV::Transition { prev, msg } => match enc_msg(msg) {
                Err(_) => None,
                Ok(mb) => match self.sp_verify_next(ctx, prev, msg) {
                    Err(_) => None,
                    Ok(VerifyTransition::Continue(st, sh)) => match enc_share(sh) { Err(_) => None, Ok(sb) => Some(StateV::Continued { st: st, msg: MsgV::Continue { vm: mb, vs: sb } }) },
                    Ok(VerifyTransition::Finish(o)) => Some(StateV::FinishedWithOutbound { out: o, msg: MsgV::Finish { vm: mb } }),
                },
            },
        }
    }
}
'''

THEOREM = '''
// ---------------- the whole exchange -----------------------------------------------------------------------------------
// codec hypotheses (property C07): every verifier share / message encodes, and decodes from its encoding under any state
pub open spec fn codec_roundtrip() -> bool {
    &&& forall|s: VShare| (#[trigger] enc_share(s)) is Ok
    &&& forall|m: VMsg| (#[trigger] enc_msg(m)) is Ok
    &&& forall|st: VState, s: VShare| #[trigger] dec_share(st, enc_share(s)->Ok_0) == Ok::<VShare, CodecError>(s)
    &&& forall|st: VState, m: VMsg| #[trigger] dec_msg(st, enc_msg(m)->Ok_0) == Ok::<VMsg, CodecError>(m)
}
// one row of the broadcast execution: states and broadcast verifier shares of leader and helper before round k
pub struct Row { pub ls: VState, pub lsh: VShare, pub hs: VState, pub hsh: VShare }
impl<const VERIFY_KEY_SIZE: usize, const NONCE_SIZE: usize> Agg<VERIFY_KEY_SIZE, NONCE_SIZE> {
    // ---- direct broadcast execution (VDAF 5.7: every aggregator gets every share, combines, calls verify_next) ---------
    pub open spec fn bc_row(&self, e: Env, k: nat) -> Option<Row> decreases k {
        if k == 0 {
            match (self.sp_verify_init(e.vk, e.ctx, 0, e.ap, e.nonce, e.ps, e.lis), self.sp_verify_init(e.vk, e.ctx, 1, e.ap, e.nonce, e.ps, e.his)) {
                (Ok((ls, lsh)), Ok((hs, hsh))) => Some(Row { ls, lsh, hs, hsh }),
                _ => None,
            }
        } else {
            match self.bc_row(e, (k - 1) as nat) {
                None => None,
                Some(row) => match self.sp_vs2m(e.ctx, e.ap, seq![row.lsh, row.hsh]) {
                    Err(_) => None,
                    Ok(m) => match (self.sp_verify_next(e.ctx, row.ls, m), self.sp_verify_next(e.ctx, row.hs, m)) {
                        (Ok(VerifyTransition::Continue(ls, lsh)), Ok(VerifyTransition::Continue(hs, hsh))) => Some(Row { ls, lsh, hs, hsh }),
                        _ => None,
                    },
                },
            }
        }
    }
    // the verifier message of round k
    pub open spec fn bc_msg(&self, e: Env, k: nat) -> VMsg {
        let row = self.bc_row(e, k)->Some_0;
        self.sp_vs2m(e.ctx, e.ap, seq![row.lsh, row.hsh])->Ok_0
    }
    // the broadcast execution finishes in round n with output shares (leader, helper)
    pub open spec fn bc_finishes(&self, e: Env, n: nat, ol: OutShare, oh: OutShare) -> bool {
        &&& self.bc_row(e, n) is Some
        &&& self.sp_vs2m(e.ctx, e.ap, seq![self.bc_row(e, n)->Some_0.lsh, self.bc_row(e, n)->Some_0.hsh]) is Ok
        &&& self.sp_verify_next(e.ctx, self.bc_row(e, n)->Some_0.ls, self.bc_msg(e, n)) == Ok::<VerifyTransition, VdafError>(VerifyTransition::Finish(ol))
        &&& self.sp_verify_next(e.ctx, self.bc_row(e, n)->Some_0.hs, self.bc_msg(e, n)) == Ok::<VerifyTransition, VdafError>(VerifyTransition::Finish(oh))
    }
    // ---- the ping-pong exchange driven by the four routines + evaluate ------------------------------------------------
    // turn t >= 1: the helper moves on odd turns, the leader on even turns; the result is the state the mover reaches (its
    // outbound message inside) and the verifier state the waiting party stored at its previous turn
    pub open spec fn pp_turn(&self, e: Env, t: nat) -> Option<(StateV, VState)> decreases t {
        if t == 0 {
            None
        } else if t == 1 {
            match self.sp_leader_initialized(e.vk, e.ctx, e.ap, e.nonce, e.ps, e.lis) {
                None => None,
                Some((ls0, m0)) => match self.sp_helper_initialized(e.vk, e.ctx, e.ap, e.nonce, e.ps, e.his, m0) {
                    None => None,
                    Some(c) => match self.sp_evaluate(e.ctx, c) { None => None, Some(s) => Some((s, ls0)) },
                },
            }
        } else {
            match self.pp_turn(e, (t - 1) as nat) {
                Some((StateV::Continued { st, msg }, waiting)) => match self.sp_continued(e.ctx, t % 2 == 0, e.ap, waiting, msg) {
                    None => None,
                    Some(c) => match self.sp_evaluate(e.ctx, c) { None => None, Some(s) => Some((s, st)) },
                },
                Some((StateV::FinishedWithOutbound { out, msg }, waiting)) => match self.sp_continued(e.ctx, t % 2 == 0, e.ap, waiting, msg) {
                    None => None,
                    Some(c) => match self.sp_evaluate(e.ctx, c) { None => None, Some(s) => Some((s, waiting)) },
                },
                _ => None,          // the exchange is over (or was refused)
            }
        }
    }
    // state / share of the party that moves at turn t, in broadcast row k
    pub open spec fn mover_state(row: Row, t: nat) -> VState { if t % 2 == 0 { row.ls } else { row.hs } }
    pub open spec fn mover_share(row: Row, t: nat) -> VShare { if t % 2 == 0 { row.lsh } else { row.hsh } }

    // INVARIANT: while the broadcast execution continues (row t exists), after turn t the mover is in Continued with exactly its
    // broadcast state of round t and has sent Continue{ enc(message of round t-1), enc(its share for round t) }, and the
    // waiting party stored its broadcast state of round t-1
    pub proof fn lemma_pp_continues(&self, e: Env, t: nat)
        requires codec_roundtrip(), t >= 1, self.bc_row(e, t) is Some,
        ensures
            self.bc_row(e, (t - 1) as nat) is Some,
            self.pp_turn(e, t) == Some((
                StateV::Continued { st: Self::mover_state(self.bc_row(e, t)->Some_0, t),
                                    msg: MsgV::Continue { vm: enc_msg(self.bc_msg(e, (t - 1) as nat))->Ok_0, vs: enc_share(Self::mover_share(self.bc_row(e, t)->Some_0, t))->Ok_0 } },
                Self::mover_state(self.bc_row(e, (t - 1) as nat)->Some_0, (t + 1) as nat))),
        decreases t,
    {
        let prev = self.bc_row(e, (t - 1) as nat)->Some_0;
        let row = self.bc_row(e, t)->Some_0;
        let m = self.bc_msg(e, (t - 1) as nat);
        assert(self.bc_row(e, (t - 1) as nat) is Some);
        assert(enc_msg(m) is Ok);
        assert(enc_share(row.lsh) is Ok && enc_share(row.hsh) is Ok);
        if t == 1 {
            assert(enc_share(prev.lsh) is Ok);
            assert(dec_share(prev.hs, enc_share(prev.lsh)->Ok_0) == Ok::<VShare, CodecError>(prev.lsh));
        } else {
            self.lemma_pp_continues(e, (t - 1) as nat);
            let pp = self.bc_row(e, (t - 2) as nat)->Some_0;
            let mm = self.bc_msg(e, (t - 2) as nat);
            let waiting = Self::mover_state(pp, t);
            assert(dec_msg(waiting, enc_msg(mm)->Ok_0) == Ok::<VMsg, CodecError>(mm));
            let peer = Self::mover_share(prev, (t - 1) as nat);
            assert(dec_share(Self::mover_state(prev, t), enc_share(peer)->Ok_0) == Ok::<VShare, CodecError>(peer));
            assert((t - 1) as nat % 2 != t % 2) by (nonlinear_arith) requires t >= 2;
        }
    }
}

impl<const VERIFY_KEY_SIZE: usize, const NONCE_SIZE: usize> Agg<VERIFY_KEY_SIZE, NONCE_SIZE> {
    // THEOREM (whole exchange): if the direct broadcast execution finishes in round n with output shares (ol, oh), then the
    // ping-pong exchange sends Initialize, then n Continue messages, then one Finish message (turn n+1) whose sender is
    // FinishedWithOutbound with ITS broadcast output share, and at turn n+2 the other party is Finished with ITS broadcast
    // output share - the same output shares as the broadcast execution, for any number of rounds.
    pub proof fn theorem_ping_pong_equals_broadcast(&self, e: Env, n: nat, ol: OutShare, oh: OutShare)
        requires codec_roundtrip(), self.bc_finishes(e, n, ol, oh),
        ensures
            self.pp_turn(e, n + 1) matches Some((StateV::FinishedWithOutbound { out, msg }, _))
                && out == (if (n + 1) % 2 == 0 { ol } else { oh }) && msg == (MsgV::Finish { vm: enc_msg(self.bc_msg(e, n))->Ok_0 }),
            self.pp_turn(e, n + 2) matches Some((StateV::Finished { out }, _)) && out == (if n % 2 == 0 { ol } else { oh }),
    {
        let row = self.bc_row(e, n)->Some_0;
        let m = self.bc_msg(e, n);
        assert(enc_msg(m) is Ok);
        assert((n + 1) % 2 != n % 2 && (n + 2) % 2 == n % 2) by (nonlinear_arith);
        if n == 0 {
            assert(enc_share(row.lsh) is Ok);
            assert(dec_share(row.hs, enc_share(row.lsh)->Ok_0) == Ok::<VShare, CodecError>(row.lsh));
            assert(dec_msg(row.ls, enc_msg(m)->Ok_0) == Ok::<VMsg, CodecError>(m));
        } else {
            self.lemma_pp_continues(e, n);
            let prev = self.bc_row(e, (n - 1) as nat)->Some_0;
            let mm = self.bc_msg(e, (n - 1) as nat);
            let waiting = Self::mover_state(prev, n + 1);
            assert(dec_msg(waiting, enc_msg(mm)->Ok_0) == Ok::<VMsg, CodecError>(mm));
            let peer = Self::mover_share(row, n);
            assert(enc_share(peer) is Ok);
            assert(dec_share(Self::mover_state(row, n + 1), enc_share(peer)->Ok_0) == Ok::<VShare, CodecError>(peer));
            assert(dec_msg(Self::mover_state(row, n), enc_msg(m)->Ok_0) == Ok::<VMsg, CodecError>(m));
        }
    }
}
'''


# ---------------------------------------------------------------------------------------------- E4j: mechanical desugarings
def _match_close(text, i):
    """index of the bracket closing the one at text[i]"""
    op = text[i]
    cl = {'(': ')', '[': ']', '{': '}'}[op]
    d = 0
    for j in range(i, len(text)):
        if text[j] == op:
            d += 1
        elif text[j] == cl:
            d -= 1
            if d == 0:
                return j
    raise Unsupported('unbalanced bracket')


def _chain_start(text, dot):
    """start of the postfix expression that ends just before text[dot] == '.'"""
    d = 0
    i = dot - 1
    while i >= 0:
        ch = text[i]
        if ch in ')]}':
            d += 1
        elif ch in '([{':
            if d == 0:
                return i + 1
            d -= 1
        elif d == 0:
            if ch in '=;,':
                return i + 1
            if ch == ':' and not (text[i - 1] == ':' or (i + 1 < len(text) and text[i + 1] == ':')):
                return i + 1
        i -= 1
    raise Unsupported('no start of expression')


_AND_THEN = re.compile(r'\.map_err\(PingPongError::(\w+)\)\s*\.and_then\(')
_MAP_ERR_Q = re.compile(r'\.map_err\(PingPongError::(\w+)\)\?')


def desugar_and_then(text):
    """tail-position E.map_err(PingPongError::V).and_then(|p| B)  ->  match E { Err(e_) => Err(PingPongError::V(e_)), Ok(p) => B }"""
    n = 0
    while True:
        mm = _AND_THEN.search(text)
        if not mm:
            return text, n
        s = _chain_start(text, mm.start())
        while text[s].isspace():
            s += 1
        op = mm.end() - 1
        cl = _match_close(text, op)
        if not re.fullmatch(r'\s*\}\s*', text[cl + 1:]):
            raise Unsupported('and_then closure not in tail position')
        inner = text[op + 1:cl].strip()
        if not inner.startswith('|'):
            raise Unsupported('and_then argument is not a closure')
        bar = inner.index('|', 1)
        pat, body = inner[1:bar].strip(), inner[bar + 1:].strip()
        text = (text[:s] + 'match ' + text[s:mm.start()] + ' { Err(e_) => Err(PingPongError::%s(e_)), Ok(%s) => %s }' % (mm.group(1), pat, body)
                + text[cl + 1:])
        n += 1


def desugar_map_err_q(text):
    """E.map_err(PingPongError::V)?  ->  match E { Ok(v_) => v_, Err(e_) => { return Err(PingPongError::V(e_)); } }"""
    n = 0
    while True:
        mm = _MAP_ERR_Q.search(text)
        if not mm:
            return text, n
        s = _chain_start(text, mm.start())
        while text[s].isspace():
            s += 1
        text = (text[:s] + 'match ' + text[s:mm.start()] + ' { Ok(v_) => v_, Err(e_) => { return Err(PingPongError::%s(e_)); } }' % mm.group(1)
                + text[mm.end():])
        n += 1


DESUGAR = [(desugar_and_then, 'E4j: tail-position map_err(..).and_then(closure) -> match', '*'),
           (desugar_map_err_q, 'E4j: map_err(PingPongError::V)? -> match with early return', '*')]
# the generic Aggregator and its associated types -> the abstract instance
TYPES = [(r'\bSelf::VerifierShare::', 'VShare::', '*'), (r'\bSelf::VerifierMessage::', 'VMsg::', '*'),
         (r'&Self::AggregationParam\b', '&AggParam', '*'), (r'&Self::PublicShare\b', '&PubShare', '*'), (r'&Self::InputShare\b', '&InShare', '*'),
         (r'\b(?:Self|A)::VerifyState\b', 'VState', '*'), (r'\bA::VerifierMessage\b', 'VMsg', '*'), (r'\bA::OutputShare\b', 'OutShare', '*'),
         (r'\bSelf::PingPongContinuation\b', 'PingPongContinuation', '*'),
         (r'(PingPongContinuationInner::\w+\s*(?:\{[^{}]*\}|\([^()]*\)))\s*\.into\(\)', r'PingPongContinuation::from(\1)', '*'),
         (r'\bverifier_shares\.reverse\(\)', 'arr2_reverse(&mut verifier_shares)', '*')]
GEN = r'<\s*const VERIFY_KEY_SIZE: usize,\s*const NONCE_SIZE: usize,\s*A(?:: Aggregator<VERIFY_KEY_SIZE, NONCE_SIZE>)?,?\s*>'
IMPL_TOPO = [r'impl<[^{]*?>\s*PingPongTopology<VERIFY_KEY_SIZE, NONCE_SIZE> for A\s*(?=\{)']
IMPL_PRIV = [r'impl<[^{]*?>\s*PingPongTopologyPrivate<VERIFY_KEY_SIZE, NONCE_SIZE> for A\s*(?=\{)']
IMPL_CONT = [r'impl<[^{]*?>\s*PingPongContinuation<VERIFY_KEY_SIZE, NONCE_SIZE, A>\s*(?=\{)']
IMPL_FROM = [r'impl<[^{]*?>\s*From<PingPongContinuationInner<VERIFY_KEY_SIZE, NONCE_SIZE, A>>\s*for PingPongContinuation<VERIFY_KEY_SIZE, NONCE_SIZE, A>\s*(?=\{)']
AGG = 'impl<const VERIFY_KEY_SIZE: usize, const NONCE_SIZE: usize> Agg<VERIFY_KEY_SIZE, NONCE_SIZE>'


def unit():
    u = VUnit('pingpong', 'ping-pong transitions == the specified ones (abstract VDAF); whole exchange == broadcast execution, any number of rounds')
    u.oracle = {'inject': 'src/topology/ping_pong.rs', 'file': 'pingpong_oracle.rs', 'test': 'verif_oracle_pingpong::oracle_'}
    u.raw(PRELUDE, 'abstract-vdaf')
    u.struct_item(F, ['pub enum PingPongError'])
    u.struct_item(F, ['pub enum PingPongMessage'])
    u.item(F, ['impl PingPongMessage', 'fn variant'], impl_header='impl PingPongMessage')
    u.struct_item(F, ['pub struct Continued'])
    u.struct_item(F, ['pub enum PingPongState'])
    u.struct_item(F, ['enum PingPongContinuationInner'], rewrites=[(r'enum PingPongContinuationInner' + GEN, 'enum PingPongContinuationInner', 1)] + TYPES[5:8])
    u.struct_item(F, ['pub struct PingPongContinuation'],
                  rewrites=[(r'pub struct PingPongContinuation' + GEN + r'\s*\(PingPongContinuationInner<VERIFY_KEY_SIZE, NONCE_SIZE, A>\);',
                             'pub struct PingPongContinuation(PingPongContinuationInner);', 1)])
    u.raw(SPEC, 'specified-transitions')
    u.item(F, IMPL_FROM + ['fn from'], ret='r', impl_header='impl PingPongContinuation',
           rewrites=[(r'value: PingPongContinuationInner<VERIFY_KEY_SIZE, NONCE_SIZE, A>', 'value: PingPongContinuationInner', 1), (r'-> Self\b', '-> PingPongContinuation', 1),
                     (r'\bSelf\(value\)', 'PingPongContinuation(value)', 1)],
           sig='ensures\n    r.0 == value,\n')
    u.item(F, IMPL_TOPO + ['fn leader_initialized'], ret='r', impl_header=AGG, rewrites=DESUGAR + TYPES, sig='''
ensures
    match self.sp_leader_initialized(verify_key@, ctx@, *aggregation_parameter, nonce@, *public_share, *input_share) { Some((st, m)) => r is Ok && r->Ok_0.verifier_state == st && mview(r->Ok_0.message) == m, None => r is Err },
    self.sp_verify_init(verify_key@, ctx@, 0, *aggregation_parameter, nonce@, *public_share, *input_share) is Err ==> r is Err && r->Err_0 is VdafVerifyInit,
''')
    u.item(F, IMPL_TOPO + ['fn helper_initialized'], ret='r', impl_header=AGG, rewrites=DESUGAR + TYPES, sig='''
ensures
    match self.sp_helper_initialized(verify_key@, ctx@, *aggregation_parameter, nonce@, *public_share, *input_share, mview(*leader_message)) { Some(c) => r is Ok && cview(r->Ok_0) == c, None => r is Err },
    // a message of the wrong kind is refused as such
    self.sp_verify_init(verify_key@, ctx@, 1, *aggregation_parameter, nonce@, *public_share, *input_share) is Ok && !(leader_message is Initialize) ==> r is Err && r->Err_0 is PeerMessageMismatch,
''')
    u.item(F, IMPL_PRIV + ['fn continued'], ret='r', impl_header=AGG, rewrites=DESUGAR + TYPES, sig='''
ensures
    match self.sp_continued(ctx@, is_leader, *aggregation_parameter, host_verifier_state, mview(*inbound)) { Some(c) => r is Ok && cview(r->Ok_0) == c, None => r is Err },
    inbound is Initialize ==> r is Err && r->Err_0 is PeerMessageMismatch,
''')
    for f, lead in (('leader_continued', 'true'), ('helper_continued', 'false')):
        u.item(F, IMPL_TOPO + ['fn ' + f], ret='r', impl_header=AGG, rewrites=DESUGAR + TYPES, sig='''
ensures
    match self.sp_continued(ctx@, %s, *aggregation_parameter, %s, mview(*inbound)) { Some(c) => r is Ok && cview(r->Ok_0) == c, None => r is Err },
''' % (lead, f.split('_')[0] + '_state'))
    EV = [(r'vdaf: &A\b', 'vdaf: &Agg<VERIFY_KEY_SIZE, NONCE_SIZE>', 1), (r'&A::VerifierMessage\b', '&VMsg', '*'), (r'&A::VerifyState\b', '&VState', '*'),
          (r'PingPongState<A::VerifyState, A::OutputShare>', 'PingPongState<VState, OutShare>', 1)]
    u.item(F, IMPL_CONT + ['fn evaluate_transition'], ret='r', impl_header='impl PingPongContinuation',
           rewrites=DESUGAR + EV + [(r'fn evaluate_transition\(', 'fn evaluate_transition<const VERIFY_KEY_SIZE: usize, const NONCE_SIZE: usize>(', 1)], sig='''
ensures
    match vdaf.sp_evaluate(ctx@, ContV::Transition { prev: *previous_verifier_state, msg: *current_verifier_message }) { Some(sv) => r is Ok && sview(r->Ok_0) == sv, None => r is Err },
''')
    u.item(F, IMPL_CONT + ['pub fn evaluate'], ret='r', impl_header='impl PingPongContinuation',
           rewrites=DESUGAR + EV + [(r'fn evaluate\(', 'fn evaluate<const VERIFY_KEY_SIZE: usize, const NONCE_SIZE: usize>(', 1)], sig='''
ensures
    // a pure function of the stored continuation: evaluating it again gives the same state and outbound message
    match vdaf.sp_evaluate(ctx@, cview(*self)) { Some(sv) => r is Ok && sview(r->Ok_0) == sv, None => r is Err },
''')
    u.raw(THEOREM, 'whole-exchange')
    return u
