"""C19/C07/C08 — the Prio2 message codecs (src/vdaf/prio2.rs) under contract (Verus), for EVERY input length and EVERY byte string (the Kani
harnesses prio2c_* check lengths 0, L-1, L, L+1 on the compiled code).  Abstract element / seed codecs and cursor of unit prio3_codec,
Share::decode_with_param through the contract proved in unit prio3_state_codecs.

  role_try_from(id): Ok(true) for 0, Ok(false) for 1, Err otherwise
  Share<FieldPrio2, 32>::decode_with_param((prio2, id)) (input shares): id 0 -> a Leader share of exactly proof_length(input_len) elements
        (data | f0 g0 h0 | packed points; contract of proof_length: unit vdaf_guards), id 1 -> a Helper seed, other ids -> Err; exact consumption
  Prio2VerifierState::decode_with_param((prio2, id)): id 0 -> Leader of exactly input_len elements, else Helper
  Prio2VerifierShare::{encode, encoded_len, decode_with_param}: exactly f_r, g_r, h_r in this order; 3 * ENCODED_SIZE bytes; Err on fewer
  OutputShare / AggregateShare::decode_with_param((prio2, ())): exactly input_len elements (decode_fieldvec contract of unit fieldvec_codec)"""
from vunit import VUnit
import prio3_codec, prio3_state_codecs, prio3_vstate_decode
import re

F = 'src/vdaf/prio2.rs'
SHARE_DECODE = re.search(r'// contract proved in unit prio3_state_codecs.*?\{ unimplemented!\(\) \}\n', prio3_vstate_decode.PRELUDE, re.S).group(0)
PRELUDE = '''
pub enum VdafError { Uncategorized(String) }
fn codec_other(e: VdafError) -> (r: CodecError) ensures r == CodecError::Other { CodecError::Other }
pub struct Prio2 { pub input_len: usize }
pub uninterp spec fn spec_proof_length(n: int) -> int;
// contract proved in unit vdaf_guards on the extracted prio2::client::proof_length (n + 3 + next_pow2(n + 1))
#[verifier::external_body]
fn proof_length(dimension: usize) -> (r: usize) ensures r == spec_proof_length(dimension as int) { unimplemented!() }
pub struct VerificationMessage { pub f_r: Fe, pub g_r: Fe, pub h_r: Fe }
pub struct Prio2VerifierShare(pub VerificationMessage);
pub struct Prio2VerifierState(pub Share);
pub struct OutputShare(pub Vec<Fe>);
pub struct AggregateShare(pub Vec<Fe>);
// contract proved in unit fieldvec_codec (same check)
#[verifier::external_body]
fn decode_fieldvec(count: usize, c: &mut Cur) -> (r: Result<Vec<Fe>, CodecError>)
    requires old(c).wf(),
    ensures final(c).data() == old(c).data(), final(c).wf(),
            r is Ok ==> r->Ok_0@.len() == count && final(c).pos() == old(c).pos() + count * ES()
                && forall|k: int| 0 <= k < count ==> fe_dec(#[trigger] chunk_at(old(c).data(), old(c).pos(), k)) == Some(r->Ok_0@[k]),
            old(c).rest().len() < count * ES() ==> r is Err,
{ unimplemented!() }
''' + SHARE_DECODE


def unit():
    u = VUnit('prio2_codecs', 'Prio2 input share / verifier state / verifier share / output and aggregate share codecs for every input length')
    u.raw(prio3_codec.PRELUDE, 'abstract-codecs')
    u.raw(prio3_state_codecs.DECODE_SHIMS, 'decode-shims')
    u.raw(prio3_state_codecs.PRELUDE, 'types')
    u.raw(PRELUDE, 'prio2-types')
    u.item(F, ['fn role_try_from'], ret='r', rewrites=[(r'"\.into\(\)', '".to_string()', '*')], sig='''
ensures
    agg_id == 0 ==> r == Ok::<bool, VdafError>(true),
    agg_id == 1 ==> r == Ok::<bool, VdafError>(false),
    agg_id > 1 ==> r is Err,
''')
    CUR = [(r'bytes: &mut Cursor<&\[u8\]>', 'bytes: &mut Cur', 1)]
    u.item(F, [r"impl<'a> ParameterizedDecode<\(&'a Prio2, usize\)> for Share<FieldPrio2, 32>", 'fn decode_with_param'], ret='r', name='input_share_decode',
           rewrites=CUR + [(r"\(prio2, agg_id\): &\(&'a Prio2, usize\)", 'prio2: &Prio2, agg_id: &usize', 1), (r'Result<Self, CodecError>', 'Result<Share, CodecError>', 1),
                           (r'role_try_from\(\*agg_id\)\.map_err\(\|e\| CodecError::Other\(Box::new\(e\)\)\)\?', 'match role_try_from(*agg_id) { Ok(v_) => v_, Err(e) => { return Err(codec_other(e)); } }', 1),
                           (r'Share::decode_with_param\(&decoder, bytes\)', 'share_decode(&decoder, bytes)', 1)],
           sig='''
requires
    old(bytes).wf(),
ensures
    final(bytes).data() == old(bytes).data(),
    *agg_id > 1 ==> r is Err,
    r is Ok ==> (r->Ok_0 is Leader <==> *agg_id == 0),
    // the leader share is data | f(0) g(0) h(0) | packed points: exactly proof_length(input_len) elements
    r is Ok && *agg_id == 0 ==> r->Ok_0->Leader_0@.len() == spec_proof_length(prio2.input_len as int) && final(bytes).pos() == old(bytes).pos() + spec_proof_length(prio2.input_len as int) * ES(),
    r is Ok && *agg_id == 1 ==> final(bytes).pos() == old(bytes).pos() + SS(),
    *agg_id == 0 && old(bytes).rest().len() < spec_proof_length(prio2.input_len as int) * ES() ==> r is Err,
    *agg_id == 1 && old(bytes).rest().len() < SS() ==> r is Err,
''')
    u.item(F, [r"impl<'a> ParameterizedDecode<\(&'a Prio2, usize\)> for Prio2VerifierState", 'fn decode_with_param'], ret='r', name='verifier_state_decode',
           rewrites=CUR + [(r"\(prio2, agg_id\): &\(&'a Prio2, usize\)", 'prio2: &Prio2, agg_id: &usize', 1), (r'Result<Self, CodecError>', 'Result<Prio2VerifierState, CodecError>', 1),
                           (r'Share::decode_with_param\(&share_decoder, bytes\)\?', 'share_decode(&share_decoder, bytes)?', 1), (r'Ok\(Self\(out_share\)\)', 'Ok(Prio2VerifierState(out_share))', 1)],
           sig='''
requires
    old(bytes).wf(),
ensures
    final(bytes).data() == old(bytes).data(),
    r is Ok ==> (r->Ok_0.0 is Leader <==> *agg_id == 0),
    r is Ok && *agg_id == 0 ==> r->Ok_0.0->Leader_0@.len() == prio2.input_len && final(bytes).pos() == old(bytes).pos() + prio2.input_len * ES(),
    r is Ok && *agg_id != 0 ==> final(bytes).pos() == old(bytes).pos() + SS(),
    *agg_id == 0 && old(bytes).rest().len() < prio2.input_len * ES() ==> r is Err,
    *agg_id != 0 && old(bytes).rest().len() < SS() ==> r is Err,
''')
    VS = ['impl Encode for Prio2VerifierShare']
    u.item(F, VS + ['fn encode'], ret='r', impl_header='impl Prio2VerifierShare', name='verifier_share_encode',
           rewrites=[(r'self\.0\.(f_r|g_r|h_r)\.encode\(bytes\)', r'fe_encode(&self.0.\1, bytes)', 3)],
           sig='ensures\n    r is Ok, final(bytes)@ == old(bytes)@ + fe_enc(self.0.f_r) + fe_enc(self.0.g_r) + fe_enc(self.0.h_r),\n')
    u.item(F, VS + ['fn encoded_len'], ret='r', impl_header='impl Prio2VerifierShare', name='verifier_share_encoded_len',
           rewrites=[(r'\bFieldPrio2::ENCODED_SIZE\b', 'enc_size()', 1)],
           sig='ensures\n    r == Some((fe_enc(self.0.f_r) + fe_enc(self.0.g_r) + fe_enc(self.0.h_r)).len() as usize),\n',
           before=[('Some(enc_size() * 3)', 'broadcast use axiom_elem_codec;')])
    u.item(F, ['impl ParameterizedDecode<Prio2VerifierState> for Prio2VerifierShare', 'fn decode_with_param'], ret='r', name='verifier_share_decode',
           rewrites=CUR + [(r'Result<Self, CodecError>', 'Result<Prio2VerifierShare, CodecError>', 1), (r'FieldPrio2::decode\(bytes\)\?', 'fe_decode(bytes)?', 3),
                           (r'Ok\(Self\(v2_server::VerificationMessage \{', 'Ok(Prio2VerifierShare(VerificationMessage {', 1)],
           sig='''
requires
    old(bytes).wf(),
ensures
    final(bytes).data() == old(bytes).data(),
    // f_r, g_r, h_r in this order, each from its own chunk; exactly three elements consumed
    r is Ok ==> fe_dec(chunk_at(old(bytes).data(), old(bytes).pos(), 0)) == Some(r->Ok_0.0.f_r)
        && fe_dec(chunk_at(old(bytes).data(), old(bytes).pos(), 1)) == Some(r->Ok_0.0.g_r)
        && fe_dec(chunk_at(old(bytes).data(), old(bytes).pos(), 2)) == Some(r->Ok_0.0.h_r)
        && final(bytes).pos() == old(bytes).pos() + 3 * ES(),
    old(bytes).rest().len() < 3 * ES() ==> r is Err,
''', before=[('Ok(Prio2VerifierShare(VerificationMessage {', '''
    axiom_sizes();
    let ghost d = old(bytes).data(); let ghost p = old(bytes).pos();
    assert(0 * ES() == 0 && 1 * ES() == ES() && 2 * ES() == ES() + ES() && 3 * ES() == ES() + ES() + ES()) by (nonlinear_arith);
    assert forall|q: int| 0 <= q && q + ES() <= d.len() implies #[trigger] d.skip(q).take(ES()) =~= d.subrange(q, q + ES()) by {}
''')])
    for ty in ('OutputShare', 'AggregateShare'):
        u.item(F, [r"impl<'a, F> ParameterizedDecode<\(&'a Prio2, &'a \(\)\)> for %s<F>[^{]*?(?=\{)" % ty, 'fn decode_with_param'], ret='r', name=ty.lower() + '_decode',
               rewrites=CUR + [(r"\(prio2, _\): &\(&'a Prio2, &'a \(\)\)", 'prio2: &Prio2', 1), (r'Result<Self, CodecError>', 'Result<%s, CodecError>' % ty, 1),
                               (r'decode_fieldvec\(prio2\.input_len, bytes\)\.map\(Self\)', 'match decode_fieldvec(prio2.input_len, bytes) { Ok(v_) => Ok(%s(v_)), Err(e_) => Err(e_) }' % ty, 1)],
               sig='''
requires
    old(bytes).wf(),
ensures
    final(bytes).data() == old(bytes).data(),
    r is Ok ==> r->Ok_0.0@.len() == prio2.input_len && final(bytes).pos() == old(bytes).pos() + prio2.input_len * ES()
        && forall|k: int| 0 <= k < prio2.input_len ==> fe_dec(#[trigger] chunk_at(old(bytes).data(), old(bytes).pos(), k)) == Some(r->Ok_0.0@[k]),
    old(bytes).rest().len() < prio2.input_len * ES() ==> r is Err,
''')
    return u
