"""C17/C01 — the final per-helper loop of Prio3::shard_with_random (E9 fragment, lifted verbatim) under contract for ANY number of aggregators
(Verus; the Kani harnesses p3_shard_seeds_* / p3_shard_leader_mask_* are bounded to 2, 3 and 5 aggregators).

The helper proof-share stream (derive_helper_proofs_share(ctx, seed, agg_id) - its transcript: C18 - followed by Prng::get - C11) is an
uninterpreted element stream hstream(seed, agg_id, i).  In the fragment the helper shares are only READ (shared references: writing through
`helper` is a type error of the extracted text), so every helper input share leaves the loop exactly as it entered it, and

    leader_proofs_share[i]  ==  proof[i] - hstream(seed_1, 1, i) - hstream(seed_2, 2, i) - .. - hstream(seed_{n-1}, n-1, i)      for every i

with aggregator id j+1 for the j-th helper and exactly proof_len*num_proofs elements of each stream, for ANY number of helpers (<= 253)."""
from fe_common import FE_PRELUDE
from vunit import VUnit

F = 'src/vdaf/prio3.rs'
PRELUDE = '''
#[verifier::external_body]
#[derive(Clone, Copy)]
pub struct SeedT { _s: u8 }
pub enum Prio3InputShare {
    Leader { measurement_share: Vec<Fe>, proofs_share: Vec<Fe>, joint_rand_blind: Option<SeedT> },
    Helper { meas_and_proofs_share: SeedT, joint_rand_blind: Option<SeedT> },
}
impl Prio3InputShare {
    fn meas_and_proofs_share(&self) -> (r: Option<&SeedT>)
        ensures match *self { Prio3InputShare::Leader { .. } => r is None, Prio3InputShare::Helper { meas_and_proofs_share, .. } => r == Some(&meas_and_proofs_share) }
    {
        match self { Prio3InputShare::Leader { .. } => None, Prio3InputShare::Helper { meas_and_proofs_share, .. } => Some(meas_and_proofs_share) }
    }
}
pub struct Prio3Any { pub num_aggregators: u8, pub num_proofs: u8 }
// element i of the proof-share stream of the helper holding `seed` with aggregator id `agg_id`
pub uninterp spec fn hstream(seed: SeedT, agg_id: int, i: int) -> Fe;
#[verifier::external_body]
pub struct HelperPrng { _p: u8 }
impl HelperPrng { pub uninterp spec fn seed(&self) -> SeedT; pub uninterp spec fn id(&self) -> int; }
impl Prio3Any {
    pub uninterp spec fn pl(&self) -> nat;
    #[verifier::external_body]
    fn typ_proof_len(&self) -> (r: usize) ensures r == self.pl() { unimplemented!() }
    fn num_proofs(&self) -> (r: usize) ensures r == self.num_proofs { self.num_proofs as usize }
    #[verifier::external_body]
    fn derive_helper_proofs_share(&self, ctx: &Vec<u8>, seed: &SeedT, agg_id: u8) -> (r: HelperPrng) ensures r.seed() == *seed, r.id() == agg_id { unimplemented!() }
}
#[verifier::external_body]
fn u8_try_from(x: usize) -> (r: Result<u8, ()>) ensures x <= 255 ==> r == Ok::<u8, ()>(x as u8), x > 255 ==> r is Err { unimplemented!() }
// sub_assign_vector(&mut a, prng.take(n)) over the contract proved in unit field_vec: a[i] -= (i-th element drawn), exactly n == a.len() elements
#[verifier::external_body]
fn sub_assign_stream(a: &mut Vec<Fe>, prng: HelperPrng, n: usize)
    requires n == old(a)@.len(),
    ensures final(a)@.len() == old(a)@.len(), forall|i: int| 0 <= i < old(a)@.len() ==> #[trigger] final(a)@[i] == fe_mk(fe_v(old(a)@[i]) - fe_v(hstream(prng.seed(), prng.id(), i))),
{ unimplemented!() }
pub open spec fn seed_of(s: Prio3InputShare) -> SeedT { s->Helper_meas_and_proofs_share }
// proof[i] minus the i-th stream element of helpers 1..=n
pub open spec fn masked(proof: Seq<Fe>, shares: Seq<Prio3InputShare>, i: int, n: int) -> Fe decreases n
{ if n <= 0 { proof[i] } else { fe_mk(fe_v(masked(proof, shares, i, n - 1)) - fe_v(hstream(seed_of(shares[n]), n, i))) } }
'''


def unit():
    u = VUnit('prio3_shard_tail', 'Prio3::shard_with_random final loop: helper shares only read; leader proof share = proof - all helper streams, any number of aggregators')
    u.oracle = {'inject': 'src/vdaf/prio3.rs', 'file': 'prio3_oracle.rs', 'test': 'verif_oracle_prio3::oracle_helper_shares_independent'}
    u.raw('global size_of usize == 8;\n' + FE_PRELUDE, 'abstract-field')
    u.raw(PRELUDE, 'abstract-type')
    u.item(F, ['impl<T, P, const SEED_SIZE: usize> Prio3<T, P, SEED_SIZE>', 'fn shard_with_random'], name='shard_helper_loop',
           impl_header='impl Prio3Any', attrs='#[verifier::loop_isolation(false)]',
           rewrites=[(r'^.*?(for \(j, helper\) in shares_out\.iter_mut\(\)\.skip\(1\)\.enumerate\(\) \{.*?\n        \})\s*shares_out\[0\] = Prio3InputShare::Leader.*$',
                      r'fn shard_helper_loop(&self, ctx: &Vec<u8>, shares_out: &Vec<Prio3InputShare>, leader_proofs_share: &mut Vec<Fe>) { \1 }', 1),
                     # E4c: iter_mut().skip(1).enumerate() of elements that are only read == index loop over shared references
                     (r'for \(j, helper\) in shares_out\.iter_mut\(\)\.skip\(1\)\.enumerate\(\) \{', 'for j in 0..shares_out.len() - 1 { let helper = &shares_out[j + 1];', 1),
                     (r'u8::try_from\(j\)\.unwrap\(\)', 'u8_try_from(j).unwrap()', 1),
                     (r'self\.typ\.(\w+)\(', r'self.typ_\1(', '*'),
                     (r'sub_assign_vector\(\s*&mut leader_proofs_share,\s*prng\.take\((.*?)\),\s*\);', r'sub_assign_stream(leader_proofs_share, prng, \1);', 1)],
           sig='''
requires
    // established earlier in shard_with_random: one placeholder/leader slot and num_aggregators - 1 <= 253 helper shares; the proof buffer holds all proofs
    1 <= shares_out@.len() <= 254,
    forall|j: int| 1 <= j < shares_out@.len() ==> (#[trigger] shares_out@[j]) is Helper,
    old(leader_proofs_share)@.len() == self.pl() * (self.num_proofs as int), old(leader_proofs_share)@.len() <= usize::MAX,
ensures
    final(leader_proofs_share)@.len() == old(leader_proofs_share)@.len(),
    // the leader's proof share is the proof minus EVERY helper's stream, helper j+1 with aggregator id j+1
    forall|i: int| 0 <= i < old(leader_proofs_share)@.len() ==> #[trigger] final(leader_proofs_share)@[i] == masked(old(leader_proofs_share)@, shares_out@, i, shares_out@.len() - 1),
''', loops={0: '''
invariant
    leader_proofs_share@.len() == old(leader_proofs_share)@.len(),
    forall|i: int| 0 <= i < leader_proofs_share@.len() ==> #[trigger] leader_proofs_share@[i] == masked(old(leader_proofs_share)@, shares_out@, i, j as int),
'''}, before=[('sub_assign_stream(', '''
    assert(self.pl() * (self.num_proofs as int) <= usize::MAX);
''')])
    return u
