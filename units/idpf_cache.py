"""C06 — cache transparency of Idpf::eval under contract (Verus), on top of unit idpf_step (whose whole text is re-generated and re-verified here,
with the cache no longer ignored): for ANY cache implementation and ANY history of earlier evaluations with the same key share,

    Idpf::eval(.., prefix, .., cache)  ==  the evaluation from the ROOT key along the prefix, level by level (eval_from, unit idpf_step)

The cache is abstract: the set `entries()` of (bit string, key, control bit) triples ever inserted, with the contract every IdpfCache must meet
(and NoCache, HashMapCache - which keeps the FIRST value of a key -, RingBufferCache - which forgets - and the lossy test cache all do):
  insert(k, v): entries grows by (k, v);      get(k) == Some(v)  ==>  (k, v) was inserted earlier;      get may answer None at any time.
Keys are LOGICAL bit strings: that the real caches compare keys by their logical bits is the canonical-key contract of unit norm_bitvec (same check).
Invariant `cache_sound`: every entry (p, key, t) is the node state the evaluation from the root reaches after descending p.  Proved:
  * eval_from_node keeps the cache sound when started from a sound state, inserts exactly the states it computes, returns the root-relative value;
  * eval: looks up prefixes of decreasing length (never the full prefix), resumes from the FIRST hit at exactly that level with exactly that state,
    otherwise from the root (control bit = not leader); Err exactly for an aggregator id > 1, an empty prefix or a prefix longer than the tree;
    the result is the root evaluation whatever the cache answered, and the cache stays sound.
Precondition: the cache is used with one key share / public share / context / nonce (`cache.root()`), as the API documents.
Rewrites: a sub-slice `&prefix[..n]` used as cache key is represented by its length n (`cache_key` -> `ck_len_`); `cache.get(&prefix[..n])` ->
cache_get(cache, prefix, n)."""
from vunit import VUnit
import idpf_step

F = 'src/idpf.rs'

CACHE_MODEL = '''
// ---- IdpfCache: ANY implementation meeting the contract of the trait ---------------------------------------------------------------------------
#[verifier::external_body]
pub struct Cache { _c: u8 }
impl Cache {
    pub uninterp spec fn entries(&self) -> Set<(Seq<bool>, Seed16, bool)>;     // every (key bits, seed, control bit) ever inserted
    pub uninterp spec fn root(&self) -> (Seed16, bool);                        // the key share (root seed, root control bit) this cache is used with
}
// cache.insert(&prefix[..=level], &(key, control_bit.unwrap_u8()))
#[verifier::external_body]
fn cache_insert(cache: &mut Cache, prefix: &IdpfInput, level: usize, key: &Seed16, control_bit: Choice)
    requires level < prefix.bits().len(),
    ensures final(cache).entries() == old(cache).entries().insert((prefix.bits().take(level as int + 1), *key, control_bit.0)), final(cache).root() == old(cache).root(),
{ unimplemented!() }
// cache.get(&prefix[..n]): Some(v) only for a value inserted under exactly these bits; None is always allowed
#[verifier::external_body]
fn cache_get(cache: &Cache, prefix: &IdpfInput, n: usize) -> (r: Option<(Seed16, u8)>)
    requires n <= prefix.bits().len(),
    ensures r is Some ==> r->Some_0.1 <= 1 && cache.entries().contains((prefix.bits().take(n as int), r->Some_0.0, r->Some_0.1 == 1)),
{ unimplemented!() }
pub struct SeedS(pub Seed16);               // Seed<16>
impl IdpfInput {
    #[verifier::external_body]
    fn is_empty(&self) -> (r: bool) ensures r == (self.bits().len() == 0) { unimplemented!() }
}
// every cached triple is the state the evaluation from the root reaches after descending its bit string
pub open spec fn cache_sound(c: Cache, m: Modes, ps: IdpfPublicShare, is_leader: bool) -> bool {
    forall|p: Seq<bool>, k: Seed16, t: bool| #[trigger] c.entries().contains((p, k, t)) ==>
        eval_from(m, ps, is_leader, c.root().0, c.root().1, p, 0, p.len() as int).key == k && eval_from(m, ps, is_leader, c.root().0, c.root().1, p, 0, p.len() as int).t == t
}
// eval_from reads the prefix only at the levels it descends
proof fn lemma_eval_from_frame(m: Modes, ps: IdpfPublicShare, l: bool, k: Seed16, t: bool, p: Seq<bool>, q: Seq<bool>, from: int, to: int)
    requires forall|i: int| from <= i < to ==> p[i] == q[i]
    ensures eval_from(m, ps, l, k, t, p, from, to) == eval_from(m, ps, l, k, t, q, from, to)
    decreases to - from
{ if to > from { lemma_eval_from_frame(m, ps, l, k, t, p, q, from, to - 1); } }
// descending from a to c == descending from a to b, then from the state reached there to c
proof fn lemma_eval_from_compose(m: Modes, ps: IdpfPublicShare, l: bool, k: Seed16, t: bool, p: Seq<bool>, a: int, b: int, c: int)
    requires a <= b <= c
    ensures ({ let s = eval_from(m, ps, l, k, t, p, a, b); let e = eval_from(m, ps, l, s.key, s.t, p, b, c); let w = eval_from(m, ps, l, k, t, p, a, c);
               w.key == e.key && w.t == e.t && (c > b ==> w == e) })
    decreases c - b
{ if c > b { lemma_eval_from_compose(m, ps, l, k, t, p, a, b, c - 1); } }
'''


def unit():
    u = idpf_step.unit()
    u.name = 'idpf_cache'
    u.desc = 'Idpf::eval == evaluation from the root for any cache implementation and history (cache transparency)'
    u.oracle = {'inject': 'src/idpf.rs', 'file': 'idpf_cache_oracle.rs', 'test': 'verif_oracle_idpf_cache::oracle_'}
    parts = []
    for p in u.parts:
        if p[0] == 'raw' and p[1] == 'tree-shims':
            txt = p[2]
            k = txt.index('// IdpfCache::insert: no effect on the evaluation')
            parts.append(('raw', 'tree-shims', txt[:k].rstrip('\n')))
            parts.append(('raw', 'cache-model', CACHE_MODEL.strip('\n')))
        elif p[0] == 'item' and p[1]['path'][-1] == 'fn eval_from_node':
            it = dict(p[1])
            it['rewrites'] = [((r'cache\.insert\(cache_key, &\(key, (.*?)\.unwrap_u8\(\)\)\);', r'cache_insert(cache, prefix, level, &key, \1);', 1) if rw[0].startswith(r'cache\.insert') else rw) for rw in it['rewrites']]
            it['sig'] = it['sig'].replace('requires\n', '''requires
    // the cache is sound, and the state handed in is the node state of prefix[..start_level] from the root the cache belongs to
    cache_sound(*old(cache), modes_of(*self, ctx@, nonce@), *public_share, is_leader),
    ({ let e0 = eval_from(modes_of(*self, ctx@, nonce@), *public_share, is_leader, old(cache).root().0, old(cache).root().1, prefix.bits(), 0, start_level as int); key == e0.key && control_bit.0 == e0.t }),
''', 1).replace('ensures\n', '''ensures
    final(cache).root() == old(cache).root(),
    cache_sound(*final(cache), modes_of(*self, ctx@, nonce@), *public_share, is_leader),
    // relative to the ROOT: the value does not depend on where the evaluation was resumed
    ({ let e = eval_from(modes_of(*self, ctx@, nonce@), *public_share, is_leader, old(cache).root().0, old(cache).root().1, prefix.bits(), 0, prefix.bits().len() as int);
       match r->Ok_0 { IdpfOutputShare::Inner(v) => v == e.out, IdpfOutputShare::Leaf(v) => v == e.out } }),
''', 1)
            loops = dict(it['loops'])
            loops[0] = loops[0] + '''
    cache.root() == old(cache).root(),
    cache_sound(*cache, modes_of(*self, ctx@, nonce@), *public_share, is_leader),
'''
            it['loops'] = loops
            it['after'] = list(it.get('after', [])) + [('cache_insert(cache, prefix, level, &key, control_bit);', '''
    let m_ = modes_of(*self, ctx@, nonce@); let rt_ = old(cache).root();
    lemma_eval_from_compose(m_, *public_share, is_leader, rt_.0, rt_.1, prefix.bits(), 0, start_level as int, level as int + 1);
    lemma_eval_from_frame(m_, *public_share, is_leader, rt_.0, rt_.1, prefix.bits(), prefix.bits().take(level as int + 1), 0, level as int + 1);
''')]
            it['before'] = list(it.get('before', [])) + [('if prefix.len() == bits', '''
    let m_ = modes_of(*self, ctx@, nonce@); let rt_ = old(cache).root();
    lemma_eval_from_compose(m_, *public_share, is_leader, rt_.0, rt_.1, prefix.bits(), 0, start_level as int, prefix.bits().len() as int);
''')]
            parts.append(('item', it))
        else:
            parts.append(p)
    u.parts = parts
    II = ['impl<VI, VL> Idpf<VI, VL>']
    u.item(F, II + ['pub fn eval'], ret='r', impl_header='impl Idpf', attrs='#[verifier::loop_isolation(false)]',
           rewrites=[(r'public_share: &IdpfPublicShare<VI, VL>', 'public_share: &IdpfPublicShare', 1), (r'key: &Seed<16>', 'key: &SeedS', 1), (r'cache: &mut dyn IdpfCache', 'cache: &mut Cache', 1),
                     (r'Result<IdpfOutputShare<VI, VL>, IdpfError>', 'Result<IdpfOutputShare, IdpfError>', 1),
                     (r'format!\((?:[^()]|\([^()]*\))*\)', 'fmt_opaque()', '*'),
                     # a sub-slice &prefix[..n] used as cache key is represented by its length n
                     (r'let mut cache_key = &prefix\[\.\.prefix\.len\(\) - 1\];', 'let mut ck_len_ = prefix.len() - 1;', 1),
                     (r'while !cache_key\.is_empty\(\) \{', 'while ck_len_ != 0 {', 1),
                     (r'cache\.get\(cache_key\)', 'cache_get(cache, prefix, ck_len_)', 1),
                     (r'cache_key\.len\(\)', 'ck_len_', '*'),
                     (r'cache_key = &cache_key\[\.\.ck_len_ - 1\];', 'ck_len_ = ck_len_ - 1;', 1),
                     (r'Choice::from\(\((!?is_leader)\) as u8\)', r'Choice::from_bool(\1)', 1)],
           sig='''
requires
    public_share.inner_correction_words@.len() < usize::MAX - 1,
    // the cache belongs to this key share (root seed, root control bit) and is sound for it
    agg_id <= 1 ==> old(cache).root() == (key.0, agg_id != 0),
    agg_id <= 1 ==> cache_sound(*old(cache), modes_of(*self, ctx@, nonce@), *public_share, agg_id == 0),
ensures
    r is Err <==> (agg_id > 1 || prefix.bits().len() == 0 || prefix.bits().len() > public_share.inner_correction_words@.len() + 1),
    // CACHE TRANSPARENCY: the value is the evaluation from the root key along the prefix, whatever the cache held or answered
    r is Ok ==> ({ let e = eval_from(modes_of(*self, ctx@, nonce@), *public_share, agg_id == 0, key.0, agg_id != 0, prefix.bits(), 0, prefix.bits().len() as int);
       match r->Ok_0 { IdpfOutputShare::Inner(v) => prefix.bits().len() <= public_share.inner_correction_words@.len() && v == e.out,
                       IdpfOutputShare::Leaf(v) => prefix.bits().len() == public_share.inner_correction_words@.len() + 1 && v == e.out } }),
    r is Ok ==> cache_sound(*final(cache), modes_of(*self, ctx@, nonce@), *public_share, agg_id == 0) && final(cache).root() == old(cache).root(),
''', loops={0: '''
invariant
    0 <= ck_len_ < prefix.bits().len(),
    *cache == *old(cache),
decreases ck_len_
'''}, before=[('return self.eval_from_node(', '''
    let m_ = modes_of(*self, ctx@, nonce@);
    lemma_eval_from_frame(m_, *public_share, is_leader, cache.root().0, cache.root().1, prefix.bits().take(ck_len_ as int), prefix.bits(), 0, ck_len_ as int);
''')])
    return u
