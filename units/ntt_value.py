"""C10 — ntt_internal computes the DFT (Verus, abstract field, every size 2^d <= 2^MAX_ROOTS, both twists).

Contract (on the extracted text of ntt::ntt_internal, abstract field `Fe`, congruences on the integers mod P()):

    r is Ok  ==>  for every i < size:   outp[i]  ==  sum_{m < size} inp_z[m] * (s * w^i)^m      (mod p)

where inp_z is `inp` zero-padded to `size`, w = F::root(d) (the principal size-th root of unity the tables provide) and
s = F::root(d+1) when set_s, 1 otherwise - i.e. the input polynomial evaluated at the points s*w^0, s*w^1, .., as the doc comment
of ntt / ntt_set_s promises.  The proof is the textbook one for the iterative decimation-in-time network:

  * after level l, block j of 2^l consecutive positions holds the size-2^l transform of the decimated subsequence
    inp_z[rev_{d-l}(j) + m*2^{d-l}]  (`level_ok`); level 0 is the bit-reversal copy, level d is the claim;
  * one level is an in-place butterfly layer: outp[x] = u + w_i*v, outp[x+y] = u - w_i*v with w_i = w_0 * r^i (loop invariants
    `layer_done` over a ghost snapshot of the array at the start of the level, exact equalities on field elements);
  * lemma_split (even/odd split of a polynomial sum, exact over Z), lemma_cong_esum (congruent points give congruent values)
    and the root relations turn the layer into the next level (`lemma_level_step`).

Assumed contracts (listed in the evidence): the abstract field (C09 field layer); `F::root(l)` returns table entry l with
root(0) = 1, root(l)^2 = root(l-1), root(l)^(2^(l-1)) = -1 - these three relations are CHECKED NUMERICALLY by this generator on
every run against the ROOTS tables parsed from src/fp.rs for the three Montgomery fields (residue-class view, R^-1 computed
here) and the unit refuses to build if one fails; `bitrev(d, x)` reverses the low d bits (contract discharged for every d and
x by the Kani harness bitrev_is_rev, complete); `log2` (proved in unit poly_kernels)."""
import os
import re

from fe_common import FE_PRELUDE
from fp_common import fp_consts
from poly_kernels import NTT_PRELUDE, BFLY
from vunit import VUnit, REPO, Unsupported

MATH = '''
proof fn lemma_c0(x: Fe) ensures cong(fe_v(x), fe_v(x)) { lemma_cong_refl(fe_v(x)); }
// ---- roots of unity (table relations: checked numerically by the generator for the three fields, assumed for Fe) ----------------
pub uninterp spec fn rootv(l: int) -> int;          // fe_v(F::root(l).unwrap())
#[verifier::external_body]
proof fn axiom_roots(l: int)
    requires 1 <= l <= MAX_ROOTS
    ensures cong(rootv(l) * rootv(l), rootv(l - 1)), cong(pow(rootv(l), pow2((l - 1) as nat)), -1), cong(rootv(0), 1)
{}
// ---- the coefficient sequence, bit reversal, polynomial sums ---------------------------------------------------------------
pub open spec fn inz(inp: Seq<Fe>, m: int) -> int { if 0 <= m < inp.len() { fe_v(inp[m]) } else { 0 } }
// reverse the low k bits of j
pub open spec fn rev(k: nat, j: int) -> int decreases k
{ if k == 0 { 0 } else { (j % 2) * (pow2((k - 1) as nat) as int) + rev((k - 1) as nat, j / 2) } }
// sum_{m < n} inz[b + m*s] * t^m
pub open spec fn esum(inp: Seq<Fe>, b: int, s: int, t: int, n: int) -> int decreases n
{ if n <= 0 { 0 } else { esum(inp, b, s, t, n - 1) + inz(inp, b + (n - 1) * s) * pow(t, (n - 1) as nat) } }

proof fn lemma_cong_pow(a: int, b: int, k: nat)
    requires cong(a, b)
    ensures cong(pow(a, k), pow(b, k))
    decreases k
{
    reveal(pow);
    if k == 0 { lemma_cong_refl(1); } else { lemma_cong_pow(a, b, (k - 1) as nat); lemma_cong_mul(a, b, pow(a, (k - 1) as nat), pow(b, (k - 1) as nat)); }
}
// congruent points give congruent values
proof fn lemma_cong_esum(inp: Seq<Fe>, b: int, s: int, t: int, t2: int, n: int)
    requires cong(t, t2)
    ensures cong(esum(inp, b, s, t, n), esum(inp, b, s, t2, n))
    decreases n
{
    if n <= 0 { lemma_cong_refl(0); } else {
        lemma_cong_esum(inp, b, s, t, t2, n - 1);
        lemma_cong_pow(t, t2, (n - 1) as nat);
        let c = inz(inp, b + (n - 1) * s);
        lemma_cong_refl(c);
        lemma_cong_mul(c, c, pow(t, (n - 1) as nat), pow(t2, (n - 1) as nat));
        lemma_cong_add(esum(inp, b, s, t, n - 1), esum(inp, b, s, t2, n - 1), c * pow(t, (n - 1) as nat), c * pow(t2, (n - 1) as nat));
    }
}
// even/odd split (exact over the integers): P(t) == E(t^2) + t * O(t^2)
proof fn lemma_split(inp: Seq<Fe>, b: int, s: int, t: int, n: int)
    requires n >= 0
    ensures esum(inp, b, s, t, 2 * n) == esum(inp, b, 2 * s, t * t, n) + t * esum(inp, b + s, 2 * s, t * t, n)
    decreases n
{
    if n == 0 {
        assert(esum(inp, b, s, t, 0) == 0);
        assert(t * 0 == 0);
    } else {
        lemma_split(inp, b, s, t, n - 1);
        let k = (n - 1) as nat;
        // (t^2)^k == t^(2k),  t * t^(2k) == t^(2k+1)
        lemma_pow1(t); lemma_pow_adds(t, 1, 1);
        assert(pow(t, 2) == t * t);
        lemma_pow_multiplies(t, 2, k);
        lemma_pow_adds(t, 1, 2 * k);
        let q = pow(t * t, k);
        assert(q == pow(t, 2 * k));
        assert(t * q == pow(t, 2 * k + 1));
        let e = inz(inp, b + (n - 1) * (2 * s));
        let o = inz(inp, (b + s) + (n - 1) * (2 * s));
        assert(b + (2 * n - 2) * s == b + (n - 1) * (2 * s)) by (nonlinear_arith);
        assert(b + (2 * n - 1) * s == (b + s) + (n - 1) * (2 * s)) by (nonlinear_arith);
        // unfold the left-hand side twice
        assert(esum(inp, b, s, t, 2 * n) == esum(inp, b, s, t, 2 * n - 1) + inz(inp, b + (2 * n - 1) * s) * pow(t, (2 * n - 1) as nat));
        assert(esum(inp, b, s, t, 2 * n - 1) == esum(inp, b, s, t, 2 * n - 2) + inz(inp, b + (2 * n - 2) * s) * pow(t, (2 * n - 2) as nat));
        assert(esum(inp, b, 2 * s, t * t, n) == esum(inp, b, 2 * s, t * t, n - 1) + e * q);
        assert(esum(inp, b + s, 2 * s, t * t, n) == esum(inp, b + s, 2 * s, t * t, n - 1) + o * q);
        let a1 = esum(inp, b, 2 * s, t * t, n - 1);
        let a2 = esum(inp, b + s, 2 * s, t * t, n - 1);
        assert((a1 + e * q) + t * (a2 + o * q) == (a1 + t * a2) + e * q + o * (t * q)) by (nonlinear_arith);
    }
}
// ---- twiddles and blocks -------------------------------------------------------------------------------------------------------
pub open spec fn twist(set_s: bool, l: int) -> int { if set_s { rootv(l + 1) } else { 1 } }
// the i-th evaluation point of a level-l block: s_l * w_l^i
pub open spec fn tw(set_s: bool, l: int, i: int) -> int { twist(set_s, l) * pow(rootv(l), i as nat) }
// value of block j of level l at the point t: the decimated subsequence inz[rev_{d-l}(j) + m*2^(d-l)], m < 2^l
pub open spec fn blk(inp: Seq<Fe>, d: nat, l: nat, j: int, t: int) -> int
{ esum(inp, rev((d - l) as nat, j), pow2((d - l) as nat) as int, t, pow2(l) as int) }
pub open spec fn posn(big_l: int, j: int, i: int) -> int { j * big_l + i }
// after level l every block holds its transform
pub open spec fn level_ok(out: Seq<Fe>, inp: Seq<Fe>, d: nat, l: nat, set_s: bool) -> bool {
    forall|j: int, i: int| 0 <= j < pow2((d - l) as nat) && 0 <= i < pow2(l) ==> cong(fe_v(out[#[trigger] posn(pow2(l) as int, j, i)]), blk(inp, d, l, j, tw(set_s, l as int, i)))
}
// squares of the level-l points are the level-(l-1) points; the second half of a block uses the negated points
proof fn lemma_tw(set_s: bool, l: int, i: int)
    requires 1 <= l <= MAX_ROOTS, set_s ==> l < MAX_ROOTS, 0 <= i
    ensures cong(tw(set_s, l, i) * tw(set_s, l, i), tw(set_s, l - 1, i)),
            cong(tw(set_s, l, i + pow2((l - 1) as nat)), -tw(set_s, l, i)),
{
    let s = twist(set_s, l); let w = rootv(l); let p = pow(w, i as nat);
    axiom_roots(l);
    if set_s { axiom_roots(l + 1); } else { lemma_cong_refl(1); }
    // (s*w^i)^2 == s^2 * (w^2)^i
    lemma_pow_multiplies(w, 2, i as nat); lemma_pow1(w); lemma_pow_adds(w, 1, 1);
    assert(pow(w, 2) == w * w);
    lemma_pow_multiplies(w, i as nat, 2); lemma_pow1(p); lemma_pow_adds(p, 1, 1);
    assert(p * p == pow(w * w, i as nat)) by { assert(pow(p, 2) == p * p); assert((i as nat) * 2 == 2 * (i as nat)); }
    assert((s * p) * (s * p) == (s * s) * (p * p)) by (nonlinear_arith);
    lemma_cong_pow(w * w, rootv(l - 1), i as nat);
    lemma_cong_mul(s * s, twist(set_s, l - 1), pow(w * w, i as nat), pow(rootv(l - 1), i as nat));
    // w^(i + y) == w^i * w^y == -(w^i)
    let y = pow2((l - 1) as nat);
    lemma_pow_adds(w, i as nat, y);
    lemma_cong_refl(s * p);
    lemma_cong_mul(s * p, s * p, pow(w, y), -1);
    assert(s * pow(w, (i + y) as nat) == (s * p) * pow(w, y)) by (nonlinear_arith) requires pow(w, (i + y) as nat) == p * pow(w, y);
    assert((s * p) * (-1) == -(s * p)) by (nonlinear_arith);
}
// the decimation indices: sub-blocks 2j and 2j+1 of level l-1 are the even and odd parts of block j of level l
proof fn lemma_rev_children(k: nat, j: int)
    requires j >= 0
    ensures rev(k + 1, 2 * j) == rev(k, j), rev(k + 1, 2 * j + 1) == pow2(k) + rev(k, j)
{
    assert((2 * j) % 2 == 0 && (2 * j) / 2 == j);
    assert((2 * j + 1) % 2 == 1 && (2 * j + 1) / 2 == j);
    assert(rev(k + 1, 2 * j) == ((2 * j) % 2) * (pow2(k) as int) + rev(k, (2 * j) / 2));
    assert(rev(k + 1, 2 * j + 1) == ((2 * j + 1) % 2) * (pow2(k) as int) + rev(k, (2 * j + 1) / 2));
}
// ONE BUTTERFLY: from the two half-size transforms to the full-size one
proof fn lemma_level_step(inp: Seq<Fe>, d: nat, l: nat, set_s: bool, j: int, i: int, u: int, v: int, w: int)
    requires 1 <= l <= d <= MAX_ROOTS, set_s ==> d < MAX_ROOTS, 0 <= j, 0 <= i,
             cong(u, blk(inp, d, (l - 1) as nat, 2 * j, tw(set_s, l - 1, i))),
             cong(v, blk(inp, d, (l - 1) as nat, 2 * j + 1, tw(set_s, l - 1, i))),
             cong(w, tw(set_s, l as int, i)),
    ensures cong(u + w * v, blk(inp, d, l, j, tw(set_s, l as int, i))),
            cong(u - w * v, blk(inp, d, l, j, tw(set_s, l as int, i + pow2((l - 1) as nat)))),
{
    let t = tw(set_s, l as int, i);
    let t1 = tw(set_s, l - 1, i);
    let y = pow2((l - 1) as nat) as int;
    let tn = tw(set_s, l as int, i + y);
    let b = rev((d - l) as nat, j);
    let s = pow2((d - l) as nat) as int;
    lemma_tw(set_s, l as int, i);
    lemma_rev_children((d - l) as nat, j);
    lemma_pow2_unfold(l); lemma_pow2_unfold((d - l + 1) as nat);
    assert(pow2((d - (l - 1)) as nat) == 2 * s);
    // sub-blocks in terms of esum over the parent's base/stride
    let e_at = |x: int| esum(inp, b, 2 * s, x, y);
    let o_at = |x: int| esum(inp, b + s, 2 * s, x, y);
    assert(blk(inp, d, (l - 1) as nat, 2 * j, t1) == esum(inp, b, 2 * s, t1, y));
    assert(blk(inp, d, (l - 1) as nat, 2 * j + 1, t1) == esum(inp, b + s, 2 * s, t1, y));
    // first half: t
    lemma_split(inp, b, s, t, y);
    lemma_cong_sym(t * t, t1);
    lemma_cong_esum(inp, b, 2 * s, t1, t * t, y);
    lemma_cong_esum(inp, b + s, 2 * s, t1, t * t, y);
    lemma_cong_trans(u, esum(inp, b, 2 * s, t1, y), esum(inp, b, 2 * s, t * t, y));
    lemma_cong_trans(v, esum(inp, b + s, 2 * s, t1, y), esum(inp, b + s, 2 * s, t * t, y));
    lemma_cong_mul(w, t, v, esum(inp, b + s, 2 * s, t * t, y));
    lemma_cong_add(u, esum(inp, b, 2 * s, t * t, y), w * v, t * esum(inp, b + s, 2 * s, t * t, y));
    assert(blk(inp, d, l, j, t) == esum(inp, b, s, t, 2 * y));
    // second half: tn == -t (mod p)
    lemma_split(inp, b, s, tn, y);
    lemma_cong_mul(tn, -t, tn, -t);
    assert((-t) * (-t) == t * t) by (nonlinear_arith);
    lemma_cong_trans(tn * tn, t * t, t1);
    lemma_cong_sym(tn * tn, t1);
    lemma_cong_esum(inp, b, 2 * s, t1, tn * tn, y);
    lemma_cong_esum(inp, b + s, 2 * s, t1, tn * tn, y);
    lemma_cong_trans(u, esum(inp, b, 2 * s, t1, y), esum(inp, b, 2 * s, tn * tn, y));
    lemma_cong_trans(v, esum(inp, b + s, 2 * s, t1, y), esum(inp, b + s, 2 * s, tn * tn, y));
    lemma_cong_neg(w, t);
    lemma_cong_sym(tn, -t);
    lemma_cong_trans(-w, -t, tn);
    lemma_cong_mul(-w, tn, v, esum(inp, b + s, 2 * s, tn * tn, y));
    lemma_cong_add(u, esum(inp, b, 2 * s, tn * tn, y), (-w) * v, tn * esum(inp, b + s, 2 * s, tn * tn, y));
    assert(u + (-w) * v == u - w * v) by (nonlinear_arith);
    assert(blk(inp, d, l, j, tn) == esum(inp, b, s, tn, 2 * y));
}
'''


def check_root_tables():
    """The three relations of axiom_roots, checked on the real ROOTS tables (residue-class view val(x) = x * R^-1 mod p)."""
    for bits in (32, 64, 128):
        c = fp_consts(bits)
        p = c['PRIME']
        rinv = pow(1 << bits, -1, p)
        roots = [(x * rinv) % p for x in c['ROOTS']]
        if roots[0] != 1:
            raise Unsupported('FP%d: ROOTS[0] is not one' % bits)
        for l in range(1, len(roots)):
            if (roots[l] * roots[l]) % p != roots[l - 1]:
                raise Unsupported('FP%d: ROOTS[%d]^2 != ROOTS[%d]' % (bits, l, l - 1))
            if pow(roots[l], 1 << (l - 1), p) != p - 1:
                raise Unsupported('FP%d: ROOTS[%d]^(2^%d) != -1' % (bits, l, l - 1))
    return True


def unit_math():
    fp = open(os.path.join(REPO, 'src/fp.rs')).read()
    mr = int(re.search(r'const MAX_ROOTS: usize = (\d+);', fp).group(1))
    check_root_tables()
    u = VUnit('ntt_value_math', 'DFT lemmas')
    u.raw('global size_of usize == 8;\n' + FE_PRELUDE, 'abstract-field')
    u.raw('pub const MAX_ROOTS: usize = %d;\n' % mr, 'consts')
    u.raw(MATH, 'math')
    u.raw(LAYER, 'layer')
    return u


LAYER = '''
// ---- one in-place butterfly layer, exactly -------------------------------------------------------------------------------------
// the twiddle sequence of a level: W(0) = w0, W(i+1) = W(i) * r   (field elements, exact)
pub open spec fn wseq(w0: Fe, r: Fe, i: nat) -> Fe decreases i
{ if i == 0 { w0 } else { fe_mk(fe_v(wseq(w0, r, (i - 1) as nat)) * fe_v(r)) } }
pub open spec fn bf_lo(prev: Seq<Fe>, w: Fe, x: int, y: int) -> Fe { fe_mk(fe_v(prev[x]) + fe_v(fe_mk(fe_v(w) * fe_v(prev[x + y])))) }
pub open spec fn bf_hi(prev: Seq<Fe>, w: Fe, x: int, y: int) -> Fe { fe_mk(fe_v(prev[x]) - fe_v(fe_mk(fe_v(w) * fe_v(prev[x + y])))) }
// butterfly (j2, i2) has been executed when the loops stand at (i, j)   (i-major order)
pub open spec fn done(i2: int, j2: int, i: int, j: int) -> bool { i2 < i || (i2 == i && j2 < j) }
pub open spec fn lay_at(out: Seq<Fe>, prev: Seq<Fe>, w0: Fe, r: Fe, big_l: int, y: int, i: int, j: int, j2: int, i2: int) -> bool {
    let x = posn(big_l, j2, i2);
    if done(i2, j2, i, j) { out[x] == bf_lo(prev, wseq(w0, r, i2 as nat), x, y) && out[x + y] == bf_hi(prev, wseq(w0, r, i2 as nat), x, y) }
    else { out[x] == prev[x] && out[x + y] == prev[x + y] }
}
pub open spec fn layer_inv(out: Seq<Fe>, prev: Seq<Fe>, w0: Fe, r: Fe, big_l: int, y: int, chunk: int, i: int, j: int) -> bool {
    forall|j2: int, i2: int| 0 <= j2 < chunk && 0 <= i2 < y ==> #[trigger] lay_at(out, prev, w0, r, big_l, y, i, j, j2, i2)
}
// the positions touched by different butterflies of a layer are disjoint
proof fn lemma_pos_distinct(big_l: int, y: int, j: int, i: int, j2: int, i2: int)
    requires big_l == 2 * y, 0 <= i < y, 0 <= i2 < y, j >= 0, j2 >= 0, !(j2 == j && i2 == i)
    ensures posn(big_l, j2, i2) != posn(big_l, j, i), posn(big_l, j2, i2) != posn(big_l, j, i) + y,
            posn(big_l, j2, i2) + y != posn(big_l, j, i), posn(big_l, j2, i2) + y != posn(big_l, j, i) + y,
{
    if j2 != j {
        assert(j2 * big_l + i2 + y < j * big_l + i || j * big_l + i + y < j2 * big_l + i2) by (nonlinear_arith)
            requires big_l == 2 * y, 0 <= i < y, 0 <= i2 < y, j2 != j;
    }
}
// one more butterfly executed: the layer invariant advances from (i, j) to (i, j + 1)
proof fn lemma_layer_advance(o0: Seq<Fe>, o1: Seq<Fe>, prev: Seq<Fe>, w0: Fe, r: Fe, big_l: int, y: int, chunk: int, i: int, j: int)
    requires big_l == 2 * y, 0 <= i < y, 0 <= j < chunk, layer_inv(o0, prev, w0, r, big_l, y, chunk, i, j),
             o1.len() == o0.len(), posn(big_l, j, i) >= 0, posn(big_l, j, i) + y < o0.len(),
             o1[posn(big_l, j, i)] == bf_lo(o0, wseq(w0, r, i as nat), posn(big_l, j, i), y),
             o1[posn(big_l, j, i) + y] == bf_hi(o0, wseq(w0, r, i as nat), posn(big_l, j, i), y),
             forall|p: int| 0 <= p < o0.len() && p != posn(big_l, j, i) && p != posn(big_l, j, i) + y ==> o1[p] == o0[p],
             forall|j2: int, i2: int| 0 <= j2 < chunk && 0 <= i2 < y ==> 0 <= #[trigger] posn(big_l, j2, i2) && posn(big_l, j2, i2) + y < o0.len(),
    ensures layer_inv(o1, prev, w0, r, big_l, y, chunk, i, j + 1)
{
    assert forall|j2: int, i2: int| 0 <= j2 < chunk && 0 <= i2 < y implies #[trigger] lay_at(o1, prev, w0, r, big_l, y, i, j + 1, j2, i2) by {
        assert(lay_at(o0, prev, w0, r, big_l, y, i, j, j2, i2));
        assert(0 <= posn(big_l, j2, i2) && posn(big_l, j2, i2) + y < o0.len());
        if j2 == j && i2 == i {
            assert(lay_at(o0, prev, w0, r, big_l, y, i, j, j, i));
        } else {
            lemma_pos_distinct(big_l, y, j, i, j2, i2);
        }
    }
}
// row i finished == row i + 1 not yet started
proof fn lemma_layer_roll(out: Seq<Fe>, prev: Seq<Fe>, w0: Fe, r: Fe, big_l: int, y: int, chunk: int, i: int)
    requires layer_inv(out, prev, w0, r, big_l, y, chunk, i, chunk)
    ensures layer_inv(out, prev, w0, r, big_l, y, chunk, i + 1, 0)
{
    assert forall|j2: int, i2: int| 0 <= j2 < chunk && 0 <= i2 < y implies #[trigger] lay_at(out, prev, w0, r, big_l, y, i + 1, 0, j2, i2) by {
        assert(lay_at(out, prev, w0, r, big_l, y, i, chunk, j2, i2));
    }
}
// the twiddle actually used is the level's evaluation point
proof fn lemma_wseq(w0: Fe, r: Fe, i: nat, set_s: bool, l: int)
    requires cong(fe_v(w0), twist(set_s, l)), fe_v(r) == rootv(l)
    ensures cong(fe_v(wseq(w0, r, i)), tw(set_s, l, i as int))
    decreases i
{
    broadcast use axiom_fe_mk;
    if i == 0 {
        lemma_pow0(rootv(l));
        assert(twist(set_s, l) * 1 == twist(set_s, l));
    } else {
        lemma_wseq(w0, r, (i - 1) as nat, set_s, l);
        let a = wseq(w0, r, (i - 1) as nat);
        lemma_ops(a, r);
        lemma_cong_refl(fe_v(r));
        lemma_cong_mul(fe_v(a), tw(set_s, l, i - 1), fe_v(r), fe_v(r));
        lemma_cong_trans(fe_v(fe_mk(fe_v(a) * fe_v(r))), fe_v(a) * fe_v(r), tw(set_s, l, i - 1) * fe_v(r));
        lemma_pow_adds(rootv(l), (i - 1) as nat, 1); lemma_pow1(rootv(l));
        assert(tw(set_s, l, i - 1) * fe_v(r) == tw(set_s, l, i as int)) by (nonlinear_arith)
            requires tw(set_s, l, i - 1) == twist(set_s, l) * pow(rootv(l), (i - 1) as nat), tw(set_s, l, i as int) == twist(set_s, l) * pow(rootv(l), i),
                     pow(rootv(l), i) == pow(rootv(l), (i - 1) as nat) * rootv(l), fe_v(r) == rootv(l);
    }
}
// a completed layer over a level-(l-1) array is a level-l array
proof fn lemma_layer_to_level(out: Seq<Fe>, prev: Seq<Fe>, inp: Seq<Fe>, d: nat, l: nat, set_s: bool, w0: Fe, r: Fe)
    requires 1 <= l <= d <= MAX_ROOTS, set_s ==> d < MAX_ROOTS,
             level_ok(prev, inp, d, (l - 1) as nat, set_s),
             layer_inv(out, prev, w0, r, pow2(l) as int, pow2((l - 1) as nat) as int, pow2((d - l) as nat) as int, pow2((l - 1) as nat) as int, 0),
             cong(fe_v(w0), twist(set_s, l as int)), fe_v(r) == rootv(l as int),
    ensures level_ok(out, inp, d, l, set_s)
{
    let big_l = pow2(l) as int; let y = pow2((l - 1) as nat) as int; let chunk = pow2((d - l) as nat) as int;
    lemma_pow2_unfold(l); lemma_pow2_unfold((d - l + 1) as nat);
    assert(big_l == 2 * y);
    assert(pow2((d - (l - 1)) as nat) == 2 * chunk);
    assert forall|j: int, i: int| 0 <= j < chunk && 0 <= i < big_l implies cong(fe_v(out[#[trigger] posn(big_l, j, i)]), blk(inp, d, l, j, tw(set_s, l as int, i))) by {
        let i2 = if i < y { i } else { i - y };
        let x = posn(big_l, j, i2);
        assert(lay_at(out, prev, w0, r, big_l, y, y, 0, j, i2));
        // the two inputs of the butterfly are the same positions of the two level-(l-1) sub-blocks
        assert(posn(y, 2 * j, i2) == x) by (nonlinear_arith) requires big_l == 2 * y, x == j * big_l + i2;
        assert(posn(y, 2 * j + 1, i2) == x + y) by (nonlinear_arith) requires big_l == 2 * y, x == j * big_l + i2;
        assert(0 <= 2 * j < 2 * chunk && 0 <= 2 * j + 1 < 2 * chunk);
        let wv = wseq(w0, r, i2 as nat);
        lemma_wseq(w0, r, i2 as nat, set_s, l as int);
        let u = fe_v(prev[x]); let v = fe_v(prev[x + y]); let w = fe_v(wv);
        assert(cong(u, blk(inp, d, (l - 1) as nat, 2 * j, tw(set_s, l - 1, i2)))) by { assert(prev[posn(y, 2 * j, i2)] == prev[x]); }
        assert(cong(v, blk(inp, d, (l - 1) as nat, 2 * j + 1, tw(set_s, l - 1, i2)))) by { assert(prev[posn(y, 2 * j + 1, i2)] == prev[x + y]); }
        lemma_level_step(inp, d, l, set_s, j, i2, u, v, w);
        // field operations as congruences
        broadcast use axiom_fe_mk;
        let m = fe_mk(w * v);
        lemma_ops(wv, prev[x + y]);
        lemma_ops(prev[x], m);
        lemma_cong_refl(u);
        if i < y {
            lemma_cong_add(u, u, fe_v(m), w * v);
            lemma_cong_trans(fe_v(fe_mk(u + fe_v(m))), u + fe_v(m), u + w * v);
            lemma_cong_trans(fe_v(out[x]), u + w * v, blk(inp, d, l, j, tw(set_s, l as int, i)));
        } else {
            lemma_cong_sub(u, u, fe_v(m), w * v);
            lemma_cong_trans(fe_v(fe_mk(u - fe_v(m))), u - fe_v(m), u - w * v);
            assert(posn(big_l, j, i) == x + y);
            lemma_cong_trans(fe_v(out[x + y]), u - w * v, blk(inp, d, l, j, tw(set_s, l as int, i)));
        }
    }
}
// level 0: after the bit-reversal copy every block of one element holds its (constant) transform
proof fn lemma_level0(out: Seq<Fe>, inp: Seq<Fe>, d: nat, set_s: bool)
    requires forall|k: int| 0 <= k < pow2(d) ==> fe_v(#[trigger] out[k]) == inz(inp, rev(d, k))
    ensures level_ok(out, inp, d, 0, set_s)
{
    lemma2_to64();
    assert forall|j: int, i: int| 0 <= j < pow2((d - 0) as nat) && 0 <= i < pow2(0) implies cong(fe_v(out[#[trigger] posn(pow2(0) as int, j, i)]), blk(inp, d, 0, j, tw(set_s, 0, i))) by {
        let t = tw(set_s, 0, i);
        let b = rev(d, j); let s = pow2(d) as int;
        assert(posn(1, j, 0) == j) by (nonlinear_arith);
        assert(esum(inp, b, s, t, 0) == 0);
        assert(esum(inp, b, s, t, 1) == esum(inp, b, s, t, 0) + inz(inp, b + 0 * s) * pow(t, 0));
        lemma_pow0(t);
        assert(b + 0 * s == b);
        assert(inz(inp, b) * 1 == inz(inp, b));
        lemma_cong_refl(inz(inp, b));
    }
}
// level d is the claim: position i holds the whole input polynomial at the point s * w^i
proof fn lemma_level_d(out: Seq<Fe>, inp: Seq<Fe>, d: nat, set_s: bool)
    requires level_ok(out, inp, d, d, set_s)
    ensures forall|i: int| 0 <= i < pow2(d) ==> cong(fe_v(#[trigger] out[i]), esum(inp, 0, 1, tw(set_s, d as int, i), pow2(d) as int))
{
    lemma2_to64();
    assert forall|i: int| 0 <= i < pow2(d) implies cong(fe_v(#[trigger] out[i]), esum(inp, 0, 1, tw(set_s, d as int, i), pow2(d) as int)) by {
        assert(posn(pow2(d) as int, 0, i) == i) by (nonlinear_arith);
        assert(cong(fe_v(out[posn(pow2(d) as int, 0, i)]), blk(inp, d, d, 0, tw(set_s, d as int, i))));
        assert(rev(0, 0) == 0);
    }
}
'''


ROOT_SHIMS = '''
pub const MAX_ROOTS: usize = %(MR)d;      // parsed from src/fp.rs on this run
// F::root(l): table entry l, Some exactly for l <= MAX_ROOTS
#[verifier::external_body]
fn fe_root(l: usize) -> (r: Option<Fe>) ensures r is Some <==> l <= MAX_ROOTS, r is Some ==> fe_v(r->Some_0) == rootv(l as int) { unimplemented!() }
#[verifier::external_body]
fn usize_try_from_u128(x: u128) -> (r: Result<usize, ()>)
    ensures (x as int <= usize::MAX as int) ==> r == Ok::<usize, ()>(x as usize), (x as int > usize::MAX as int) ==> r is Err
{ unimplemented!() }
// contract proved in unit poly_kernels (same run)
#[verifier::external_body]
fn log2(x: u128) -> (r: u128)
    requires x >= 1,
    ensures r <= 127 || (r == 128 && x as int > pow2(127)), (x as int) <= pow2(r as nat), r >= 1 ==> pow2((r - 1) as nat) < x as int,
{ unimplemented!() }
// contract discharged by the Kani harness bitrev_is_rev for every d in 1..=64 and every x < 2^d (complete)
#[verifier::external_body]
fn bitrev(d: usize, x: usize) -> (r: usize)
    requires 1 <= d <= 64, (x as int) < pow2(d as nat),
    ensures r as int == rev(d as nat, x as int),
{ unimplemented!() }
proof fn lemma_rev_bound(k: nat, j: int)
    requires 0 <= j
    ensures 0 <= rev(k, j) < pow2(k)
    decreases k
{
    lemma2_to64();
    if k > 0 { lemma_rev_bound((k - 1) as nat, j / 2); lemma_pow2_unfold(k); assert(0 <= j % 2 <= 1);
        assert((j % 2) * (pow2((k - 1) as nat) as int) <= pow2((k - 1) as nat)) by (nonlinear_arith) requires 0 <= j % 2 <= 1, pow2((k - 1) as nat) >= 0;
        assert((j % 2) * (pow2((k - 1) as nat) as int) >= 0) by (nonlinear_arith) requires 0 <= j % 2 <= 1, pow2((k - 1) as nat) >= 0; }
}
proof fn lemma_shl_pow2(k: usize)
    requires k <= 62
    ensures (1usize << k) as int == pow2(k as nat), pow2(k as nat) < 0x1_0000_0000_0000_0000
{
    lemma2_to64();
    lemma_pow2_strictly_increases(k as nat, 64);
    lemma_usize_shl_is_mul(1usize, k);
}
proof fn lemma_pow2_strictly_increases_or_eq(a: nat, b: nat) requires a <= b ensures pow2(a) <= pow2(b)
{ if a < b { lemma_pow2_strictly_increases(a, b); } }
proof fn lemma_butterfly_index(d: nat, l: nat, j: int, i: int)
    requires 1 <= l <= d, 0 <= j < pow2((d - l) as nat), 0 <= i < pow2((l - 1) as nat)
    ensures j * pow2(l) + i + pow2((l - 1) as nat) < pow2(d), j * pow2(l) >= 0, pow2(l) == 2 * pow2((l - 1) as nat), pow2(d) == pow2((d - l) as nat) * pow2(l)
{
    lemma_pow2_unfold(l);
    lemma_pow2_adds((d - l) as nat, l);
    let a = pow2((d - l) as nat) as int; let b = pow2(l) as int;
    assert(j * b + b <= a * b) by (nonlinear_arith) requires j + 1 <= a, b >= 0;
    assert(j * b >= 0) by (nonlinear_arith) requires j >= 0, b >= 0;
}
// all butterfly positions of a layer are inside the transform
proof fn lemma_layer_positions(d: nat, l: nat)
    requires 1 <= l <= d
    ensures forall|j2: int, i2: int| 0 <= j2 < pow2((d - l) as nat) && 0 <= i2 < pow2((l - 1) as nat) ==> 0 <= #[trigger] posn(pow2(l) as int, j2, i2) && posn(pow2(l) as int, j2, i2) + pow2((l - 1) as nat) < pow2(d)
{
    assert forall|j2: int, i2: int| 0 <= j2 < pow2((d - l) as nat) && 0 <= i2 < pow2((l - 1) as nat) implies 0 <= #[trigger] posn(pow2(l) as int, j2, i2) && posn(pow2(l) as int, j2, i2) + pow2((l - 1) as nat) < pow2(d) by {
        lemma_butterfly_index(d, l, j2, i2);
    }
}
'''

# loop invariants shared by the loops inside one level
COMMON = '''
    outp@.len() == old(outp)@.len(),
    size <= outp@.len(),
    d <= MAX_ROOTS, set_s ==> d < MAX_ROOTS,
    size as int == pow2(d as nat),
    forall|k: int| size <= k < outp@.len() ==> #[trigger] outp@[k] == old(outp)@[k],
'''
LEVEL = COMMON + '''
    1 <= l <= d,
    y as int == pow2((l - 1) as nat),
    chunk as int == pow2((d - l) as nat),
    prev.len() == outp@.len(),
    level_ok(prev, inp@, d as nat, (l - 1) as nat, set_s),
    cong(fe_v(w0), twist(set_s, l as int)), fe_v(r) == rootv(l as int),
'''

STEP = '''
    lemma_pow2_pos((l - 1) as nat);
    lemma_butterfly_index(d as nat, l as nat, j as int, %(I)s);
    lemma_pow2_strictly_increases_or_eq(d as nat, 20); lemma2_to64();
    assert(j as int * pow2(l as nat) <= usize::MAX as int);
    lemma_usize_shl_is_mul(j, l);
'''
ADV = '''
    lemma_layer_positions(d as nat, l as nat);
    lemma_butterfly_index(d as nat, l as nat, j as int, %(I)s);
    assert(x as int == posn(pow2(l as nat) as int, j as int, %(I)s));
    assert(lay_at(o0, prev, w0, r, pow2(l as nat) as int, y as int, %(I)s, j as int, j as int, %(I)s));
    lemma_layer_advance(o0, outp@, prev, w0, r, pow2(l as nat) as int, y as int, chunk as int, %(I)s, j as int);
'''


def unit():
    fp = open(os.path.join(REPO, 'src/fp.rs')).read()
    mr = int(re.search(r'const MAX_ROOTS: usize = (\d+);', fp).group(1))
    if mr > 20:
        raise Unsupported('MAX_ROOTS > 20: the index-range hints of unit ntt_value assume sizes up to 2^20')
    for nr in re.findall(r'const NUM_ROOTS: usize = (\d+);', fp):
        if int(nr) < mr:
            raise Unsupported('a field has NUM_ROOTS < MAX_ROOTS: the F::root contract does not hold')
    check_root_tables()
    u = VUnit('ntt_value', 'ntt_internal computes the DFT: outp[i] == sum_m inp[m] (s w^i)^m for every size')
    u.oracle = {'inject': 'src/ntt.rs', 'file': 'ntt_oracle.rs', 'test': 'verif_oracle_ntt::oracle_ntt_contracts'}
    u.raw('global size_of usize == 8;     // [assumption] 64-bit target\n' + FE_PRELUDE, 'abstract-field')
    u.raw('#[derive(Debug)]\npub enum NttError { OutputTooSmall, SizeTooLarge, SizeInvalid }\n', 'errors')
    u.raw(MATH, 'math')
    u.raw(LAYER, 'layer')
    u.raw(ROOT_SHIMS.replace('%(MR)d', str(mr)), 'shims')
    u.item('src/ntt.rs', ['fn ntt_internal'], ret='r',
           rewrites=[(r'<F: NttFriendlyFieldElement>', '', 1), (r'\bF::zero\(\)', 'fe_zero()', '*'), (r'\bF::one\(\)', 'fe_one()', '*'),
                     (r'\bF::root\(', 'fe_root(', 2), (r'\bF\b', 'Fe', '*'),
                     (r'outp: &mut \[Fe\]', 'outp: &mut Vec<Fe>', 1), (r'inp: &\[Fe\]', 'inp: &Vec<Fe>', 1),       # E3c
                     (r'usize::try_from\(log2\(size as u128\)\)\.map_err\(\|_\| NttError::SizeTooLarge\)\?',
                      'match usize_try_from_u128(log2(size as u128)) { Ok(v) => v, Err(_) => { return Err(NttError::SizeTooLarge); } }', 1),
                     (r'for \(i, outp_val\) in outp\[\.\.size\]\.iter_mut\(\)\.enumerate\(\) \{', 'for i in 0..size {', 1),     # E4c
                     (r'\*outp_val = ', 'outp[i] = ', 1)],
           sig='''
requires
    size >= 1,
    size == 1 ==> inp@.len() >= 1,
ensures
    final(outp)@.len() == old(outp)@.len(),
    r is Ok <==> (size <= old(outp)@.len() && (exists|d: nat| d <= MAX_ROOTS && (set_s ==> d < MAX_ROOTS) && size as int == pow2(d))),
    // THE TRANSFORM: position i holds the input polynomial (zero-padded coefficients) at the point s * w^i,
    // w = root(d) the principal size-th root of unity, s = root(d+1) for the shifted transform and 1 otherwise
    r is Ok ==> forall|d: nat| size as int == pow2(d) ==> forall|i: int| 0 <= i < size ==> cong(fe_v(#[trigger] final(outp)@[i]), esum(inp@, 0, 1, tw(set_s, d as int, i), size as int)),
    forall|k: int| size <= k < old(outp)@.len() ==> #[trigger] final(outp)@[k] == old(outp)@[k],
''',
           ghost_before=[('w = if set_s', 'let ghost prev = outp@;'), ('let u = outp[x]', 'let ghost o0 = outp@;', 0), ('let u = outp[x]', 'let ghost o0 = outp@;', 1)],
           ghost_after=[('w = if set_s', 'let ghost w0 = w;')],
           loops={0: '''
invariant
    1 <= d,
    outp@.len() == old(outp)@.len(),
    size <= outp@.len(),
    d <= MAX_ROOTS,
    size as int == pow2(d as nat),
    forall|k: int| size <= k < outp@.len() ==> #[trigger] outp@[k] == old(outp)@[k],
    forall|k: int| 0 <= k < i ==> fe_v(#[trigger] outp@[k]) == inz(inp@, rev(d as nat, k)),
''', 1: '''
invariant
''' + COMMON + '''
    level_ok(outp@, inp@, d as nat, (l - 1) as nat, set_s),
''', 2: '''
invariant
''' + LEVEL + '''
    w == w0,
    layer_inv(outp@, prev, w0, r, pow2(l as nat) as int, y as int, chunk as int, 0, j as int),
''', 3: '''
invariant
''' + LEVEL + '''
    w == wseq(w0, r, (i - 1) as nat),
    layer_inv(outp@, prev, w0, r, pow2(l as nat) as int, y as int, chunk as int, i - 1, chunk as int),
''', 4: '''
invariant
    1 <= i < y,
''' + LEVEL + '''
    w == wseq(w0, r, i as nat),
    layer_inv(outp@, prev, w0, r, pow2(l as nat) as int, y as int, chunk as int, i as int, j as int),
'''},
           before=[('if size > outp.len()', '''
    lemma2_to64();
    assert(d as int <= 64) by { if d > 64 { lemma_pow2_strictly_increases(64, (d - 1) as nat); } }
'''), ('if (set_s && size > 1 << (MAX_ROOTS - 1))', '''
    lemma_shl_pow2((MAX_ROOTS - 1) as usize); lemma_shl_pow2(MAX_ROOTS);
'''), ('if size != 1 << d', '''
    if d >= 1 { if d > MAX_ROOTS { lemma_pow2_strictly_increases_or_eq(MAX_ROOTS as nat, (d - 1) as nat); } }
    if set_s && d >= 1 { if d > MAX_ROOTS - 1 { lemma_pow2_strictly_increases_or_eq((MAX_ROOTS - 1) as nat, (d - 1) as nat); } }
    lemma_shl_pow2(d);
'''), ('let j = bitrev(d, i)', '''
    lemma_rev_bound(d as nat, i as int);
'''), ('let mut w: Fe', '''
    // level 0 holds: the bit-reversal copy (or the single element of a size-1 transform)
    lemma2_to64();
    if d == 0 { assert(rev(0, 0) == 0); }
    lemma_level0(outp@, inp@, d as nat, set_s);
'''), ('Ok(())', '''
    lemma_level_d(outp@, inp@, d as nat, set_s);
    assert(d as nat <= MAX_ROOTS && (set_s ==> d < MAX_ROOTS) && size as int == pow2(d as nat));
    assert forall|dd: nat| size as int == pow2(dd) implies dd == d as nat by {
        if dd < d as nat { lemma_pow2_strictly_increases(dd, d as nat); }
        if dd > d as nat { lemma_pow2_strictly_increases(d as nat, dd); }
    }
''', -1), ('let y = 1 << (l - 1)', '''
    lemma_shl_pow2((l - 1) as usize);
'''), ('let chunk = (size / y) >> 1', '''
    lemma_pow2_pos((l - 1) as nat); lemma_pow2_pos((d - l) as nat);
    lemma_butterfly_index(d as nat, l as nat, 0, 0);
    assert(pow2(d as nat) == pow2((d - l) as nat) * (2 * pow2((l - 1) as nat)));
    assert(size as int == (2 * pow2((d - l) as nat)) * y as int + 0) by (nonlinear_arith)
        requires size as int == pow2((d - l) as nat) * (2 * pow2((l - 1) as nat)), y as int == pow2((l - 1) as nat);
    lemma_fundamental_div_mod_converse(size as int, y as int, 2 * pow2((d - l) as nat) as int, 0);
    let q = size / y;
    assert((q >> 1usize) == q / 2) by (bit_vector);
    // the twiddle base of this level
    axiom_roots(l as int);
    if !set_s { lemma_cong_refl(1); } else { lemma_c0(w0); }
'''), ('let x = j << l;', STEP % dict(I='0')), ('let x = (j << l) + i;', STEP % dict(I='i as int'))],
           after=[('outp[x + y] = u - v', ADV % dict(I='0'), 0), ('outp[x + y] = u - v', ADV % dict(I='i as int'), 1),
                  ('w *= r', '''
    assert(w == wseq(w0, r, i as nat));
    lemma_layer_roll(outp@, prev, w0, r, pow2(l as nat) as int, y as int, chunk as int, i - 1);
'''),
                  ],
           loop_tail={1: '''
    // the layer is complete: every butterfly executed; it turns the level-(l-1) array into a level-l array
    lemma_layer_roll(outp@, prev, w0, r, pow2(l as nat) as int, y as int, chunk as int, y - 1);
    lemma_layer_to_level(outp@, prev, inp@, d as nat, l as nat, set_s, w0, r);
'''})
    # ---- the public wrappers and the inverse transform, over the contract of ntt_internal proved above ---------------------------
    u.raw('''
// contract proved in unit poly_kernels (same run)
#[verifier::external_body]
fn ntt_inv_finish(outp: &mut Vec<Fe>, size: usize, size_inv: Fe)
    requires 2 <= size <= old(outp)@.len(), size % 2 == 0,
    ensures final(outp)@.len() == old(outp)@.len(),
            final(outp)@[0] == fe_mk(fe_v(old(outp)@[0]) * fe_v(size_inv)),
            forall|i: int| 1 <= i < size ==> #[trigger] final(outp)@[i] == fe_mk(fe_v(old(outp)@[size - i]) * fe_v(size_inv)),
            forall|i: int| size <= i < old(outp)@.len() ==> #[trigger] final(outp)@[i] == old(outp)@[i],
{ unimplemented!() }
// F::from(F::Integer::try_from(size).unwrap()).inv(): the inverse of the transform size in the field  (C09: from, inv)
pub uninterp spec fn size_inv_spec(size: usize) -> Fe;
#[verifier::external_body]
fn fe_size_inv(size: usize) -> (r: Fe) requires 1 <= size <= 0x10_0000 ensures r == size_inv_spec(size), cong(fe_v(r) * (size as int), 1) { unimplemented!() }
// the point the k-th output of the inverse transform is evaluated at: w^((size - k) mod size) == w^(-k)
pub open spec fn inv_idx(size: int, k: int) -> int { if k == 0 { 0 } else { size - k } }
''', 'inverse-shims')
    WR = [(r'<F: NttFriendlyFieldElement>', '', 1), (r'outp: &mut \[F\]', 'outp: &mut Vec<Fe>', 1), (r'inp: &\[F\]', 'inp: &Vec<Fe>', 1)]
    for fn_, ss in (('ntt', 'false'), ('ntt_set_s', 'true')):
        u.item('src/ntt.rs', ['fn ' + fn_], ret='r', rewrites=WR, sig='''
requires
    size >= 1,
    size == 1 ==> inp@.len() >= 1,
ensures
    final(outp)@.len() == old(outp)@.len(),
    r is Ok <==> (size <= old(outp)@.len() && (exists|d: nat| d <= MAX_ROOTS && (%s ==> d < MAX_ROOTS) && size as int == pow2(d))),
    // the input polynomial evaluated at %s, i = 0..size-1
    r is Ok ==> forall|d: nat| size as int == pow2(d) ==> forall|i: int| 0 <= i < size ==> cong(fe_v(#[trigger] final(outp)@[i]), esum(inp@, 0, 1, tw(%s, d as int, i), size as int)),
    forall|k: int| size <= k < old(outp)@.len() ==> #[trigger] final(outp)@[k] == old(outp)@[k],
''' % (ss, 'root(d+1) * root(d)^i' if ss == 'true' else 'root(d)^i', ss))
    u.item('src/ntt.rs', ['fn ntt_inv'], ret='r',
           rewrites=WR + [(r'F::from\(F::Integer::try_from\(size\)\.unwrap\(\)\)\.inv\(\)', 'fe_size_inv(size)', 1)],
           sig='''
requires
    2 <= size <= 0x10_0000,
    size <= old(outp)@.len(),
ensures
    final(outp)@.len() == old(outp)@.len(),
    r is Ok <==> (exists|d: nat| d <= MAX_ROOTS && size as int == pow2(d)),
    // the textbook inverse transform: out[k] == size^-1 * sum_i inp[i] * (w^-k)^i   (w^-k == w^(size-k))
    r is Ok ==> forall|d: nat| size as int == pow2(d) ==> forall|k: int| 0 <= k < size ==>
        cong(fe_v(#[trigger] final(outp)@[k]), esum(inp@, 0, 1, tw(false, d as int, inv_idx(size as int, k)), size as int) * fe_v(size_inv_spec(size))),
    cong(fe_v(size_inv_spec(size)) * (size as int), 1),
    forall|k: int| size <= k < old(outp)@.len() ==> #[trigger] final(outp)@[k] == old(outp)@[k],
''', ghost_after=[('ntt(outp, inp, size)?', 'let ghost t = outp@;')],
           before=[('ntt_inv_finish(outp, size, size_inv)', '''
    // a power of two >= 2 is even
    let d0 = choose|d0: nat| d0 <= MAX_ROOTS && (false ==> d0 < MAX_ROOTS) && size as int == pow2(d0);
    lemma2_to64();
    if d0 >= 1 { lemma_pow2_unfold(d0); }
'''), ('Ok(())', '''
    broadcast use axiom_fe_mk;
    assert forall|dd: nat| size as int == pow2(dd) implies (forall|k: int| 0 <= k < size ==> cong(fe_v(#[trigger] outp@[k]), esum(inp@, 0, 1, tw(false, dd as int, inv_idx(size as int, k)), size as int) * fe_v(size_inv))) by {
        assert forall|k: int| 0 <= k < size implies cong(fe_v(#[trigger] outp@[k]), esum(inp@, 0, 1, tw(false, dd as int, inv_idx(size as int, k)), size as int) * fe_v(size_inv)) by {
            let j = inv_idx(size as int, k);
            let e = esum(inp@, 0, 1, tw(false, dd as int, j), size as int);
            assert(cong(fe_v(t[j]), e));
            assert(outp@[k] == fe_mk(fe_v(t[j]) * fe_v(size_inv)));
            lemma_cong_mod(fe_v(t[j]) * fe_v(size_inv));
            lemma_cong_refl(fe_v(size_inv));
            lemma_cong_mul(fe_v(t[j]), e, fe_v(size_inv), fe_v(size_inv));
            lemma_cong_trans(fe_v(outp@[k]), fe_v(t[j]) * fe_v(size_inv), e * fe_v(size_inv));
        }
    }
''', -1)])
    # ---- get_ntt / get_ntt_inv: the allocating wrappers (used by PolyEval::eval_poly, unit gadget_polyeval) -------------------------------------
    GW = [(r'<F: NttFriendlyFieldElement>', '', 1), (r'(input|inp): &\[F\]', r'\1: &Vec<Fe>', 1), (r'Vec<F>', 'Vec<Fe>', '*'), (r'\bF::zero\(\)', 'fe_zero()', 1)]
    u.item('src/ntt.rs', ['fn get_ntt'], ret='r', rewrites=GW, sig='''
requires
    size >= 1, size == 1 ==> input@.len() >= 1,
ensures
    r is Ok <==> exists|d: nat| d <= MAX_ROOTS && size as int == pow2(d),
    r is Ok ==> r->Ok_0@.len() == size && forall|d: nat| size as int == pow2(d) ==> forall|i: int| 0 <= i < size ==> cong(fe_v(#[trigger] r->Ok_0@[i]), esum(input@, 0, 1, tw(false, d as int, i), size as int)),
''')
    u.item('src/ntt.rs', ['fn get_ntt_inv'], ret='r', rewrites=GW, sig='''
requires
    2 <= size <= 0x10_0000,
ensures
    r is Ok <==> exists|d: nat| d <= MAX_ROOTS && size as int == pow2(d),
    r is Ok ==> r->Ok_0@.len() == size && forall|d: nat| size as int == pow2(d) ==> forall|k: int| 0 <= k < size ==>
        cong(fe_v(#[trigger] r->Ok_0@[k]), esum(inp@, 0, 1, tw(false, d as int, inv_idx(size as int, k)), size as int) * fe_v(size_inv_spec(size))),
''')
    # ---- polynomial::poly_interpret_eval: Horner o (index reversal + scaling) o forward transform ------------------------------------
    u.raw('''
// textbook value of the polynomial with coefficient sequence s at x
pub open spec fn psum(s: Seq<Fe>, x: int, n: int) -> int decreases n
{ if n <= 0 { 0 } else { psum(s, x, n - 1) + fe_v(s[n - 1]) * pow(x, (n - 1) as nat) } }
// contract proved in unit poly_kernels (same run)
#[verifier::external_body]
fn poly_eval_monomial(poly: &Vec<Fe>, eval_at: Fe) -> (r: Fe) ensures cong(fe_v(r), psum(poly@, fe_v(eval_at), poly@.len() as int)) { unimplemented!() }
// &v[..n]  (E3c: a slice prefix is verified as a copy with the same elements)
#[verifier::external_body]
fn vec_prefix(v: &Vec<Fe>, n: usize) -> (r: Vec<Fe>) requires n <= v@.len() ensures r@ == v@.take(n as int) { unimplemented!() }
// c is the inverse transform of `points`: c[k] == size^-1 * sum_i points[i] * (w^-k)^i
pub open spec fn is_idft(c: Seq<Fe>, points: Seq<Fe>, d: nat) -> bool {
    &&& c.len() == pow2(d)
    &&& forall|k: int| 0 <= k < pow2(d) ==> cong(fe_v(#[trigger] c[k]), esum(points, 0, 1, tw(false, d as int, inv_idx(pow2(d) as int, k)), pow2(d) as int) * fe_v(size_inv_spec(pow2(d) as usize)))
}
pub open spec fn interpolates(c: Seq<Fe>, points: Seq<Fe>, d: nat) -> bool {
    forall|k: int| 0 <= k < pow2(d) ==> cong(psum(c, pow(rootv(d as int), k as nat), pow2(d) as int), fe_v(#[trigger] points[k]))
}
''', 'interpret-eval-shims')
    u.item('src/polynomial.rs', ['fn poly_interpret_eval'], ret='r',
           rewrites=[(r'<F: NttFriendlyFieldElement>', '', 1), (r'points: &\[F\]', 'points: &Vec<Fe>', 1), (r'eval_at: F,', 'eval_at: Fe,', 1), (r'tmp_coeffs: &mut \[F\]', 'tmp_coeffs: &mut Vec<Fe>', 1),
                     (r'\) -> F \{', ') -> Fe {', 1), (r'use crate::ntt::\{ntt, ntt_inv_finish\};', '', 1),
                     (r'F::from\(F::Integer::try_from\(points\.len\(\)\)\.unwrap\(\)\)\.inv\(\)', 'fe_size_inv(points.len())', 1),
                     (r'poly_eval_monomial\(&tmp_coeffs\[\.\.points\.len\(\)\], eval_at\)', 'poly_eval_monomial(&vec_prefix(tmp_coeffs, points.len()), eval_at)', 1)],
           sig='''
requires
    // derived from the call sites (Prio2 verification, FLP query): a power-of-two number of points within the root table, scratch space for them
    exists|d: nat| 1 <= d <= MAX_ROOTS && points@.len() == pow2(d),
    points@.len() <= old(tmp_coeffs)@.len(),
ensures
    // the value at eval_at of the polynomial whose coefficients are the inverse transform of `points`
    forall|d: nat| points@.len() == pow2(d) ==> exists|c: Seq<Fe>| #[trigger] is_idft(c, points@, d) && cong(fe_v(r), psum(c, fe_v(eval_at), c.len() as int))
        // ... and that polynomial (degree < n) INTERPOLATES the points at the powers of the root: P(root(d)^k) == points[k]
        && interpolates(c, points@, d),
''', before=[('let size_inv', '''
    let dx = choose|dx: nat| 1 <= dx <= MAX_ROOTS && points@.len() == pow2(dx);
    lemma2_to64(); lemma_pow2_strictly_increases_or_eq(dx, 20); lemma_pow2_unfold(dx); lemma_pow2_pos((dx - 1) as nat);
'''), ('ntt(tmp_coeffs, points, points.len()).unwrap()', '''
    lemma2_to64(); lemma_pow2_strictly_increases_or_eq(d0, 20); lemma_pow2_unfold(d0); lemma_pow2_pos((d0 - 1) as nat);
    assert(d0 <= MAX_ROOTS && (false ==> d0 < MAX_ROOTS) && points@.len() as int == pow2(d0));
'''), ('poly_eval_monomial(', '''
    broadcast use axiom_fe_mk;
    let n = points@.len() as int;
    let c = tmp_coeffs@.take(n);
    assert forall|dd: nat| points@.len() == pow2(dd) implies dd == d0 by {
        if dd < d0 { lemma_pow2_strictly_increases(dd, d0); }
        if dd > d0 { lemma_pow2_strictly_increases(d0, dd); }
    }
    assert forall|k: int| 0 <= k < n implies cong(fe_v(#[trigger] c[k]), esum(points@, 0, 1, tw(false, d0 as int, inv_idx(n, k)), n) * fe_v(size_inv)) by {
        let j = inv_idx(n, k);
        let e = esum(points@, 0, 1, tw(false, d0 as int, j), n);
        assert(cong(fe_v(t[j]), e));
        assert(c[k] == fe_mk(fe_v(t[j]) * fe_v(size_inv)));
        lemma_cong_mod(fe_v(t[j]) * fe_v(size_inv));
        lemma_cong_refl(fe_v(size_inv));
        lemma_cong_mul(fe_v(t[j]), e, fe_v(size_inv), fe_v(size_inv));
        lemma_cong_trans(fe_v(c[k]), fe_v(t[j]) * fe_v(size_inv), e * fe_v(size_inv));
    }
    assert(is_idft(c, points@, d0));
    theorem_idft_interpolates(points@, c, d0);
    assert(interpolates(c, points@, d0));
''')], ghost_after=[('ntt(tmp_coeffs, points, points.len()).unwrap()', 'let ghost t = tmp_coeffs@;')],
           ghost_before=[('let size_inv', 'let ghost d0 = choose|d0: nat| 1 <= d0 <= MAX_ROOTS && points@.len() == pow2(d0);')])
    u.raw(ROOTPOW_LEMMAS, 'root-power-lemmas')
    u.raw(INVERSE, 'inverse-theorem')
    u.raw(INTERP, 'interpolation-theorem')
    # ---- double_evaluations: E9 fragment (the two transforms on the halves produced by split_at_mut) + theorem over the fragments ----
    u.item('src/polynomial.rs', ['fn double_evaluations'], name='double_evaluations_transforms', ret='r',
           rewrites=[(r'^.*?(ntt_inv\(front, evaluations, evaluations\.len\(\)\)\?;\s*ntt_set_s\(back, front, evaluations\.len\(\)\)\?;).*$',
                      r'fn double_evaluations_transforms(front: &mut Vec<Fe>, back: &mut Vec<Fe>, evaluations: &Vec<Fe>) -> Result<(), NttError> { \1 Ok(()) }', 1)],
           sig='''
requires
    // the halves of an output buffer of 2n elements (split_at_mut(n)), n = evaluations.len() a power of two: 2 <= n < 2^MAX_ROOTS
    exists|d: nat| 1 <= d < MAX_ROOTS && evaluations@.len() == pow2(d),
    old(front)@.len() == evaluations@.len(), old(back)@.len() == evaluations@.len(),
ensures
    r is Ok,
    final(front)@.len() == evaluations@.len(), final(back)@.len() == evaluations@.len(),
    // front: the coefficients of the interpolant; back: its values at the odd powers of the 2n-th root (root(d+1) * root(d)^k)
    forall|d: nat| evaluations@.len() == pow2(d) ==> is_idft(final(front)@, evaluations@, d)
        && forall|k: int| 0 <= k < pow2(d) ==> cong(fe_v(#[trigger] final(back)@[k]), esum(final(front)@, 0, 1, tw(true, d as int, k), pow2(d) as int)),
''', ghost_before=[('ntt_inv(front, evaluations, evaluations.len())?', 'let ghost d0 = choose|d0: nat| 1 <= d0 < MAX_ROOTS && evaluations@.len() == pow2(d0);')],
           before=[('ntt_inv(front, evaluations, evaluations.len())?', '''
    let dx = choose|dx: nat| 1 <= dx < MAX_ROOTS && evaluations@.len() == pow2(dx);
    lemma2_to64(); lemma_pow2_strictly_increases_or_eq(dx, 20); lemma_pow2_unfold(dx); lemma_pow2_pos((dx - 1) as nat);
    assert(dx <= MAX_ROOTS && evaluations@.len() as int == pow2(dx));
'''), ('ntt_set_s(back, front, evaluations.len())?', '''
    lemma2_to64(); lemma_pow2_strictly_increases_or_eq(d0, 20); lemma_pow2_unfold(d0); lemma_pow2_pos((d0 - 1) as nat);
    assert(d0 <= MAX_ROOTS && (true ==> d0 < MAX_ROOTS) && evaluations@.len() as int == pow2(d0));
'''), ('Ok(())', '''
    assert forall|dd: nat| evaluations@.len() == pow2(dd) implies dd == d0 by {
        if dd < d0 { lemma_pow2_strictly_increases(dd, d0); }
        if dd > d0 { lemma_pow2_strictly_increases(d0, dd); }
    }
    assert(is_idft(front@, evaluations@, d0));
''', -1)],
           )
    u.raw(DOUBLE, 'double-evaluations-theorem')
    # ---- get_double_evaluations / poly_mul_lagrange over the contract of double_evaluations (fragments + theorem above) -----------------
    u.raw('''
// the 2n values of the interpolant of `evaluations` at the powers of the 2n-th root
pub open spec fn doubled(out: Seq<Fe>, evaluations: Seq<Fe>, d: nat) -> bool {
    out.len() == 2 * pow2(d) && exists|c: Seq<Fe>| #[trigger] is_idft(c, evaluations, d) && interpolates(c, evaluations, d)
        && forall|j: int| 0 <= j < 2 * pow2(d) ==> cong(fe_v(#[trigger] out[j]), psum(c, pow(rootv(d as int + 1), j as nat), pow2(d) as int))
}
// contract of double_evaluations: fragment double_evaluations_transforms + interleave fragment (unit poly_kernels) + theorem_double_evaluations;
// the glue between them (split_at_mut hands out the two halves of `output`) is std semantics  [assumed]
#[verifier::external_body]
fn double_evaluations(output: &mut Vec<Fe>, evaluations: &Vec<Fe>) -> (r: Result<(), NttError>)
    requires exists|d: nat| 1 <= d < MAX_ROOTS && evaluations@.len() == pow2(d), old(output)@.len() == 2 * evaluations@.len(),
    ensures r is Ok, forall|d: nat| evaluations@.len() == pow2(d) ==> doubled(final(output)@, evaluations@, d),
{ unimplemented!() }
// usize::is_power_of_two  [std semantics]
#[verifier::external_body]
fn usize_is_power_of_two(x: usize) -> (r: bool) ensures r == (exists|d: nat| x as int == pow2(d)) { unimplemented!() }
''', 'double-evaluations-contract')
    GF = [(r'<F: NttFriendlyFieldElement>', '', 1), (r'\bF::zero\(\)', 'fe_zero()', '*'), (r'&\[F\]', '&Vec<Fe>', '*'), (r'&mut \[F\]', '&mut Vec<Fe>', '*'), (r'Vec<F>', 'Vec<Fe>', '*')]
    u.item('src/polynomial.rs', ['fn get_double_evaluations'], ret='r', rewrites=GF, sig='''
requires
    exists|d: nat| 1 <= d < MAX_ROOTS && evaluations@.len() == pow2(d),
ensures
    r is Ok, forall|d: nat| evaluations@.len() == pow2(d) ==> doubled(r->Ok_0@, evaluations@, d),
''', before=[('let mut output', '''
    let dx = choose|dx: nat| 1 <= dx < MAX_ROOTS && evaluations@.len() == pow2(dx);
    lemma2_to64(); lemma_pow2_strictly_increases_or_eq(dx, 20);
''')])
    u.item('src/polynomial.rs', ['fn poly_mul_lagrange'], ret='r', attrs='#[verifier::loop_isolation(false)]',
           rewrites=GF + [(r'assert_eq!\(p\.len\(\), q\.len\(\)\);', 'assert!(p.len() == q.len());', 1),
                          (r'assert!\(p\.len\(\)\.is_power_of_two\(\)\);', 'assert!(usize_is_power_of_two(p.len()));', 1),
                          # E4c: zip of the output with the owned vector of q's doubled evaluations == index loop over both
                          (r'for \(p_element, q_element\) in output\.iter_mut\(\)\.zip\(get_double_evaluations\(q\)\?\) \{\s*\*p_element \*= q_element;\s*\}',
                           'let qd_ = get_double_evaluations(q)?; for k_ in 0..output.len() { let q_element = qd_[k_]; output[k_] *= q_element; }', 1)],
           sig='''
requires
    exists|d: nat| 1 <= d < MAX_ROOTS && p@.len() == pow2(d),
    q@.len() == p@.len(), old(output)@.len() == 2 * p@.len(),
ensures
    r is Ok,
    // out[j] == P(z^j) * Q(z^j), z the principal 2n-th root: the 2n values of the PRODUCT of the two interpolants
    forall|d: nat| p@.len() == pow2(d) ==> exists|cp: Seq<Fe>, cq: Seq<Fe>| #[trigger] is_idft(cp, p@, d) && interpolates(cp, p@, d) && #[trigger] is_idft(cq, q@, d) && interpolates(cq, q@, d)
        && final(output)@.len() == 2 * pow2(d)
        && forall|j: int| 0 <= j < 2 * pow2(d) ==> cong(fe_v(#[trigger] final(output)@[j]), psum(cp, pow(rootv(d as int + 1), j as nat), pow2(d) as int) * psum(cq, pow(rootv(d as int + 1), j as nat), pow2(d) as int)),
''', ghost_after=[('double_evaluations(output, p)?', 'let ghost pd = output@;')],
           ghost_before=[('assert!(p.len() == q.len())', 'let ghost d0 = choose|d0: nat| 1 <= d0 < MAX_ROOTS && p@.len() == pow2(d0);')],
           loops={0: '''
invariant
    output@.len() == pd.len(), qd_@.len() == pd.len(),
    forall|j: int| 0 <= j < k_ ==> #[trigger] output@[j] == fe_mk(fe_v(pd[j]) * fe_v(qd_@[j])),
    forall|j: int| k_ <= j < output@.len() ==> #[trigger] output@[j] == pd[j],
'''}, before=[('Ok(())', '''
    broadcast use axiom_fe_mk;
    assert forall|dd: nat| p@.len() == pow2(dd) implies dd == d0 by {
        if dd < d0 { lemma_pow2_strictly_increases(dd, d0); }
        if dd > d0 { lemma_pow2_strictly_increases(d0, dd); }
    }
    assert(doubled(pd, p@, d0));
    assert(doubled(qd_@, q@, d0));
    let cp = choose|c: Seq<Fe>| #[trigger] is_idft(c, p@, d0) && interpolates(c, p@, d0) && forall|j: int| 0 <= j < 2 * pow2(d0) ==> cong(fe_v(#[trigger] pd[j]), psum(c, pow(rootv(d0 as int + 1), j as nat), pow2(d0) as int));
    let cq = choose|c: Seq<Fe>| #[trigger] is_idft(c, q@, d0) && interpolates(c, q@, d0) && forall|j: int| 0 <= j < 2 * pow2(d0) ==> cong(fe_v(#[trigger] qd_@[j]), psum(c, pow(rootv(d0 as int + 1), j as nat), pow2(d0) as int));
    assert forall|j: int| 0 <= j < 2 * pow2(d0) implies cong(fe_v(#[trigger] output@[j]), psum(cp, pow(rootv(d0 as int + 1), j as nat), pow2(d0) as int) * psum(cq, pow(rootv(d0 as int + 1), j as nat), pow2(d0) as int)) by {
        let x = pow(rootv(d0 as int + 1), j as nat);
        lemma_cong_mod(fe_v(pd[j]) * fe_v(qd_@[j]));
        lemma_cong_mul(fe_v(pd[j]), psum(cp, x, pow2(d0) as int), fe_v(qd_@[j]), psum(cq, x, pow2(d0) as int));
        lemma_cong_trans(fe_v(output@[j]), fe_v(pd[j]) * fe_v(qd_@[j]), psum(cp, x, pow2(d0) as int) * psum(cq, x, pow2(d0) as int));
    }
''', -1)])
    return u


ROOTPOW_HEAD = '''
// ---- nth_root_powers: roots[k] == w_n^k -------------------------------------------------------------------------------------------
#[verifier::external_body]
fn usize_try_from_u128_r(x: u128) -> (r: Result<usize, ()>)
    ensures (x as int <= usize::MAX as int) ==> r == Ok::<usize, ()>(x as usize), (x as int > usize::MAX as int) ==> r is Err
{ unimplemented!() }
// the first 2^i entries are the powers of root(i)
pub open spec fn powers_ok(roots: Seq<Fe>, i: nat) -> bool { forall|k: int| 0 <= k < pow2(i) ==> cong(fe_v(#[trigger] roots[k]), pow(rootv(i as int), k as nat)) }
'''
ROOTPOW_LEMMAS = '''
proof fn lemma_root_pow_even(i: int, j: nat)
    requires 1 <= i <= MAX_ROOTS
    ensures cong(pow(rootv(i - 1), j), pow(rootv(i), 2 * j))
{
    let w = rootv(i);
    axiom_roots(i);
    lemma_pow1(w); lemma_pow_adds(w, 1, 1);
    assert(pow(w, 2) == w * w);
    lemma_pow_multiplies(w, 2, j);
    lemma_cong_sym(w * w, rootv(i - 1));
    lemma_cong_pow(rootv(i - 1), w * w, j);
}
proof fn lemma_root_pow_half(i: int, j: nat)
    requires 1 <= i <= MAX_ROOTS
    ensures cong(-pow(rootv(i), j), pow(rootv(i), j + pow2((i - 1) as nat)))
{
    let w = rootv(i); let m = pow2((i - 1) as nat);
    axiom_roots(i);
    lemma_pow_adds(w, j, m);
    lemma_cong_refl(pow(w, j));
    lemma_cong_mul(pow(w, j), pow(w, j), pow(w, m), -1);
    assert(pow(w, j) * (-1) == -pow(w, j)) by (nonlinear_arith);
    lemma_cong_sym(pow(w, j) * pow(w, m), -pow(w, j));
}
'''
ROOTPOW = ROOTPOW_HEAD + ROOTPOW_LEMMAS



def unit_roots():
    fp = open(os.path.join(REPO, 'src/fp.rs')).read()
    mr = int(re.search(r'const MAX_ROOTS: usize = (\d+);', fp).group(1))
    check_root_tables()
    u = VUnit('root_powers', 'nth_root_powers(n)[k] == root(log2 n)^k for every power of two n within the root table')
    u.oracle = {'inject': 'src/ntt.rs', 'file': 'ntt_oracle.rs', 'test': 'verif_oracle_ntt::oracle_ntt_contracts'}
    u.raw('global size_of usize == 8;     // [assumption] 64-bit target\n' + FE_PRELUDE, 'abstract-field')
    u.raw(MATH, 'math')
    u.raw(ROOT_SHIMS.replace('%(MR)d', str(mr)), 'shims')
    u.raw(ROOTPOW, 'root-powers')
    u.item('src/polynomial.rs', ['fn nth_root_powers'], ret='r', attrs='#[verifier::loop_isolation(false)]',
           rewrites=[(r'<F: NttFriendlyFieldElement>', '', 1), (r'Vec<F>', 'Vec<Fe>', 1), (r'\bF::zero\(\)', 'fe_zero()', 1), (r'\bF::one\(\)', 'fe_one()', 2),
                     (r'\bF::root\(', 'fe_root(', 1),
                     (r'usize::try_from\(log2\(n as u128\)\)\.unwrap\(\)', 'usize_try_from_u128(log2(n as u128)).unwrap()', 1),
                     (r'assert_eq!\(n, 1 << log2_n\);', 'assert!(n == 1 << log2_n);', 1),
                     (r'for i in 2\.\.=log2_n \{', 'for i in 2..log2_n + 1 {', 1),
                     (r'for j in \(1\.\.mid\)\.rev\(\) \{', 'let mut k_: usize = mid; while k_ > 1 { k_ = k_ - 1; let j = k_;', 1),          # E4b
                     (r'for j in \(3\.\.mid\)\.step_by\(2\) \{((?:[^{}])*)\}', r'let mut j: usize = 3; while j < mid {\1; j += 2; }', 1)],   # E4f
           sig='''
requires
    // derived from the assert_eq! and the unwrap of F::root: a power of two within the root table
    exists|d: nat| d <= MAX_ROOTS && n as int == pow2(d),
ensures
    r@.len() == n,
    // roots[k] == w_n^k, w_n = root(log2 n)
    forall|d: nat| n as int == pow2(d) ==> powers_ok(r@, d),
''', ghost_before=[('let log2_n', 'let ghost d0 = choose|d0: nat| d0 <= MAX_ROOTS && n as int == pow2(d0);'), ('let mut k_: usize = mid', 'let ghost prev0 = roots@;')],
           loops={0: '''
invariant
    roots@.len() == n, 2 <= i <= log2_n + 1, log2_n == d0, n > 1,
    powers_ok(roots@, (i - 1) as nat),
''', 1: '''
invariant
    roots@.len() == n, 1 <= k_ <= mid, mid as int == pow2((i - 1) as nat), 2 * mid <= n, 2 <= i <= log2_n, log2_n == d0,
    forall|p: int| 0 <= p < 2 * k_ ==> #[trigger] roots@[p] == prev0[p],
    forall|p: int| 2 * k_ <= p < 2 * mid && p % 2 == 0 ==> #[trigger] roots@[p] == prev0[p / 2],
decreases k_
''', 2: '''
invariant
    roots@.len() == n, mid as int == pow2((i - 1) as nat), 2 * mid <= n, 2 <= i <= log2_n, log2_n == d0, mid >= 2, mid % 2 == 0,
    3 <= j, j % 2 == 1, fe_v(wn) == rootv(i as int),
    forall|p: int| 0 <= p < 2 * mid && p % 2 == 0 ==> cong(fe_v(#[trigger] roots@[p]), pow(rootv(i as int), p as nat)),
    forall|p: int| 0 <= p < j && p < mid && p % 2 == 1 ==> cong(fe_v(#[trigger] roots@[p]), pow(rootv(i as int), p as nat)),
    forall|p: int| mid <= p < j + mid && p < 2 * mid && p % 2 == 1 ==> cong(fe_v(#[trigger] roots@[p]), pow(rootv(i as int), p as nat)),
decreases mid + 2 - j
'''},
           before=[('let log2_n', '''
    let dx = choose|dx: nat| dx <= MAX_ROOTS && n as int == pow2(dx);
    lemma2_to64(); lemma_pow2_strictly_increases_or_eq(dx, 20); lemma_pow2_pos(dx);
'''), ('roots', '''
    assert forall|dd: nat| n as int == pow2(dd) implies dd == d0 by {
        if dd < d0 { lemma_pow2_strictly_increases(dd, d0); }
        if dd > d0 { lemma_pow2_strictly_increases(d0, dd); }
    }
''', -1), ('assert!(n == 1 << log2_n)', '''
    lemma2_to64(); lemma_pow2_strictly_increases_or_eq(d0, 20); lemma_pow2_pos(d0);
    // ceil(log2(2^d0)) == d0
    if log2_n as int > d0 { lemma_pow2_strictly_increases_or_eq(d0, (log2_n - 1) as nat); }
    if (log2_n as int) < d0 { lemma_pow2_strictly_increases(log2_n as nat, d0); }
    lemma_shl_pow2(log2_n);
'''), ('if n > 1', '''
    broadcast use axiom_fe_mk, axiom_fe_range;
    lemma_pow0(rootv(0)); lemma_cong_refl(1);
    assert(powers_ok(roots@, 0)) by { assert(pow2(0) == 1); }
'''), ('for i in 2..log2_n + 1', '''
    // n > 1: the two square roots of one
    assert(d0 >= 1) by { if d0 == 0 { assert(pow2(0) == 1); } }
    axiom_roots(1);
    lemma_pow1(rootv(1)); lemma_pow0(rootv(1));
    assert(pow2(1) == 2);
    assert(cong(fe_v(roots@[1]), -1)) by { lemma_cong_mod(-1); }
    lemma_cong_sym(pow(rootv(1), 1), -1);
    lemma_cong_trans(fe_v(roots@[1]), -1, pow(rootv(1), 1));
    assert(powers_ok(roots@, 1));
'''), ('let mid = 1 << (i - 1)', '''
    lemma_shl_pow2((i - 1) as usize);
    lemma_pow2_unfold(i as nat);
    lemma_pow2_strictly_increases_or_eq(i as nat, d0);
    lemma_pow2_pos((i - 2) as nat); lemma_pow2_unfold((i - 1) as nat);
'''), ('roots[j << 1] = roots[j]', '''
    assert((j << 1usize) == 2 * j) by (bit_vector) requires j < 0x1000_0000usize;
'''), ('let wn = fe_root(i).unwrap()', '''
    // after the spread: every even position below 2*mid holds its power of the new root
    assert forall|p: int| 0 <= p < 2 * mid && p % 2 == 0 implies cong(fe_v(#[trigger] roots@[p]), pow(rootv(i as int), p as nat)) by {
        let h = p / 2;
        assert(roots@[p] == prev0[h]);
        assert(cong(fe_v(prev0[h]), pow(rootv(i - 1), h as nat)));
        lemma_root_pow_even(i as int, h as nat);
        lemma_cong_trans(fe_v(roots@[p]), pow(rootv(i - 1), h as nat), pow(rootv(i as int), (2 * h) as nat));
    }
'''), ('let mut j: usize = 3', '''
    broadcast use axiom_fe_mk, axiom_fe_range;
    lemma_pow1(rootv(i as int));
    lemma_c0(wn);
    lemma_cong_mod(-fe_v(wn));
    lemma_root_pow_half(i as int, 1);
    lemma_cong_trans(fe_v(roots@[1 + mid as int]), -pow(rootv(i as int), 1), pow(rootv(i as int), (1 + mid) as nat));
'''), ('roots[j] = wn * roots[j - 1]', '''
    broadcast use axiom_fe_mk, axiom_fe_range;
    let w = rootv(i as int);
    let e = roots@[j - 1];
    lemma_ops(wn, e);
    lemma_c0(wn);
    lemma_cong_mul(fe_v(wn), w, fe_v(e), pow(w, (j - 1) as nat));
    lemma_pow_adds(w, 1, (j - 1) as nat); lemma_pow1(w);
    lemma_cong_trans(fe_v(fe_mk(fe_v(wn) * fe_v(e))), fe_v(wn) * fe_v(e), pow(w, j as nat));
    let nj = fe_mk(fe_v(wn) * fe_v(e));
    lemma_cong_mod(-fe_v(nj));
    lemma_cong_neg(fe_v(nj), pow(w, j as nat));
    lemma_root_pow_half(i as int, j as nat);
    lemma_cong_trans(fe_v(fe_mk(-fe_v(nj))), -fe_v(nj), -pow(w, j as nat));
    lemma_cong_trans(fe_v(fe_mk(-fe_v(nj))), -pow(w, j as nat), pow(w, (j + mid) as nat));
''')],
           loop_tail={0: '''
    // evens (spread), odds below mid (products), odds above mid (negations): all 2*mid powers of root(i)
    assert(pow2(i as nat) == 2 * mid);
    assert(powers_ok(roots@, i as nat));
'''})
    return u


INVERSE = '''
// ---- the inverse formula undoes the forward transform (lemma over the two contracts; orthogonality of the roots) -----------------
// geometric sum 1 + x + .. + x^(n-1)
pub open spec fn geo(x: int, n: int) -> int decreases n { if n <= 0 { 0 } else { geo(x, n - 1) + pow(x, (n - 1) as nat) } }
proof fn lemma_geo_split(x: int, p: int, q: int)
    requires p >= 0, q >= 0
    ensures geo(x, p + q) == geo(x, p) + pow(x, p as nat) * geo(x, q)
    decreases q
{
    if q == 0 { assert(geo(x, 0) == 0); assert(pow(x, p as nat) * 0 == 0); } else {
        lemma_geo_split(x, p, q - 1);
        lemma_pow_adds(x, p as nat, (q - 1) as nat);
        assert(pow(x, p as nat) * (geo(x, q - 1) + pow(x, (q - 1) as nat)) == pow(x, p as nat) * geo(x, q - 1) + pow(x, p as nat) * pow(x, (q - 1) as nat)) by (nonlinear_arith);
    }
}
proof fn lemma_cong_geo(x: int, y: int, n: int)
    requires cong(x, y)
    ensures cong(geo(x, n), geo(y, n))
    decreases n
{
    if n <= 0 { lemma_cong_refl(0); } else { lemma_cong_geo(x, y, n - 1); lemma_cong_pow(x, y, (n - 1) as nat); lemma_cong_add(geo(x, n - 1), geo(y, n - 1), pow(x, (n - 1) as nat), pow(y, (n - 1) as nat)); }
}
proof fn lemma_geo_one(n: int) requires n >= 0 ensures geo(1, n) == n decreases n
{ if n > 0 { lemma_geo_one(n - 1); lemma_pow1(1); assert(pow(1, (n - 1) as nat) == 1) by { lemma_one_pow((n - 1) as nat); } } }
proof fn lemma_one_pow(k: nat) ensures pow(1, k) == 1 decreases k { reveal(pow); if k > 0 { lemma_one_pow((k - 1) as nat); } }
proof fn lemma_neg_one_pow_odd(e: nat) requires e % 2 == 1 ensures pow(-1, e) == -1 decreases e
{
    reveal(pow);
    if e == 1 { assert(pow(-1, 0) == 1); } else {
        lemma_neg_one_pow_odd((e - 2) as nat);
        assert(pow(-1, e) == (-1) * pow(-1, (e - 1) as nat));
        assert(pow(-1, (e - 1) as nat) == (-1) * pow(-1, (e - 2) as nat));
    }
}
// a point whose h-th power is -1 sums to zero over 2h consecutive powers
proof fn lemma_geo_cancel(x: int, h: int)
    requires h >= 0, cong(pow(x, h as nat), -1)
    ensures cong(geo(x, 2 * h), 0)
{
    lemma_geo_split(x, h, h);
    let g = geo(x, h);
    lemma_cong_refl(g);
    lemma_cong_mul(pow(x, h as nat), -1, g, g);
    lemma_cong_add(g, g, pow(x, h as nat) * g, (-1) * g);
    assert(g + (-1) * g == 0) by (nonlinear_arith);
}
// ORTHOGONALITY: the powers of root(d)^e sum to zero unless 2^d divides e
proof fn lemma_orthogonal(d: nat, e: int)
    requires d <= MAX_ROOTS, 0 < e < pow2(d)
    ensures cong(geo(pow(rootv(d as int), e as nat), pow2(d) as int), 0)
    decreases d
{
    lemma2_to64();
    if d == 0 { assert(pow2(0) == 1); } else {
        let w = rootv(d as int); let x = pow(w, e as nat); let h = pow2((d - 1) as nat) as int;
        lemma_pow2_unfold(d);
        axiom_roots(d as int);
        if e % 2 == 1 {
            // x^h == (w^h)^e == (-1)^e == -1
            lemma_pow_multiplies(w, e as nat, h as nat); lemma_pow_multiplies(w, h as nat, e as nat);
            assert((e as nat) * (h as nat) == (h as nat) * (e as nat)) by (nonlinear_arith);
            lemma_cong_pow(pow(w, h as nat), -1, e as nat);
            lemma_neg_one_pow_odd(e as nat);
            lemma_geo_cancel(x, h);
        } else {
            // x == root(d-1)^(e/2): both halves vanish by induction
            let e2 = e / 2;
            lemma_root_pow_even(d as int, e2 as nat);
            lemma_cong_sym(pow(rootv(d - 1), e2 as nat), x);
            lemma_orthogonal((d - 1) as nat, e2);
            lemma_cong_geo(x, pow(rootv(d - 1), e2 as nat), h);
            lemma_cong_trans(geo(x, h), geo(pow(rootv(d - 1), e2 as nat), h), 0);
            lemma_geo_split(x, h, h);
            lemma_cong_refl(pow(x, h as nat));
            lemma_cong_mul(pow(x, h as nat), pow(x, h as nat), geo(x, h), 0);
            assert(pow(x, h as nat) * 0 == 0);
            lemma_cong_add(geo(x, h), 0, pow(x, h as nat) * geo(x, h), 0);
        }
    }
}
// root(d)^(2^d) == 1
proof fn lemma_root_order(d: nat)
    requires d <= MAX_ROOTS
    ensures cong(pow(rootv(d as int), pow2(d)), 1)
{
    lemma2_to64();
    if d == 0 { axiom_roots(1); lemma_pow1(rootv(0)); assert(pow2(0) == 1); } else {
        let w = rootv(d as int); let h = pow2((d - 1) as nat);
        axiom_roots(d as int);
        lemma_pow2_unfold(d);
        lemma_pow_adds(w, h, h);
        lemma_cong_mul(pow(w, h), -1, pow(w, h), -1);
        assert((-1) * (-1) == 1);
    }
}
// sum_{i<n} (sum_{m<mm} a_m (w^i)^m) * t^i  ==  sum_{m<mm} a_m * geo(w^m * t, n)      (exchange of the two sums, exact over Z)
pub open spec fn dsum(a: Seq<Fe>, w: int, t: int, mm: int, n: int) -> int decreases n
{ if n <= 0 { 0 } else { dsum(a, w, t, mm, n - 1) + esum(a, 0, 1, pow(w, (n - 1) as nat), mm) * pow(t, (n - 1) as nat) } }
pub open spec fn gsum(a: Seq<Fe>, w: int, t: int, mm: int, n: int) -> int decreases mm
{ if mm <= 0 { 0 } else { gsum(a, w, t, mm - 1, n) + inz(a, mm - 1) * geo(pow(w, (mm - 1) as nat) * t, n) } }
proof fn lemma_exchange(a: Seq<Fe>, w: int, t: int, mm: int, n: int)
    requires mm >= 0, n >= 0
    ensures dsum(a, w, t, mm, n) == gsum(a, w, t, mm, n)
    decreases n, mm
{
    if n == 0 {
        lemma_gsum_zero(a, w, t, mm);
    } else {
        lemma_exchange(a, w, t, mm, n - 1);
        lemma_gsum_step(a, w, t, mm, n);
    }
}
proof fn lemma_gsum_zero(a: Seq<Fe>, w: int, t: int, mm: int)
    requires mm >= 0 ensures gsum(a, w, t, mm, 0) == 0 decreases mm
{ if mm > 0 { lemma_gsum_zero(a, w, t, mm - 1); assert(geo(pow(w, (mm - 1) as nat) * t, 0) == 0); assert(inz(a, mm - 1) * 0 == 0); } }
// adding the n-th column: gsum(.., n) == gsum(.., n-1) + (sum_m a_m (w^(n-1))^m) * t^(n-1)
proof fn lemma_gsum_step(a: Seq<Fe>, w: int, t: int, mm: int, n: int)
    requires mm >= 0, n >= 1
    ensures gsum(a, w, t, mm, n) == gsum(a, w, t, mm, n - 1) + esum(a, 0, 1, pow(w, (n - 1) as nat), mm) * pow(t, (n - 1) as nat)
    decreases mm
{
    let k = (n - 1) as nat;
    if mm == 0 {
        assert(esum(a, 0, 1, pow(w, k), 0) == 0);
        assert(0 * pow(t, k) == 0);
    } else {
        lemma_gsum_step(a, w, t, mm - 1, n);
        let m = (mm - 1) as nat;
        let x = pow(w, m) * t;
        let c = inz(a, mm - 1);
        // (w^m * t)^k == (w^k)^m * t^k
        lemma_pow_distributes(pow(w, m), t, k);
        lemma_pow_multiplies(w, m, k); lemma_pow_multiplies(w, k, m);
        assert(m * k == k * m) by (nonlinear_arith);
        assert(pow(x, k) == pow(pow(w, k), m) * pow(t, k));
        assert(geo(x, n) == geo(x, n - 1) + pow(x, k));
        assert(0 + (mm - 1) * 1 == mm - 1);
        assert(esum(a, 0, 1, pow(w, k), mm) == esum(a, 0, 1, pow(w, k), mm - 1) + c * pow(pow(w, k), m));
        let e1 = esum(a, 0, 1, pow(w, k), mm - 1); let pk = pow(pow(w, k), m); let tk = pow(t, k);
        assert(c * (geo(x, n - 1) + pk * tk) == c * geo(x, n - 1) + (c * pk) * tk) by (nonlinear_arith);
        assert((e1 + c * pk) * tk == e1 * tk + (c * pk) * tk) by (nonlinear_arith);
    }
}
// sums of congruent terms are congruent
proof fn lemma_cong_outer(big_a: Seq<Fe>, a: Seq<Fe>, w: int, t: int, mm: int, n: int)
    requires 0 <= n <= big_a.len(), forall|i: int| 0 <= i < n ==> cong(fe_v(#[trigger] big_a[i]), esum(a, 0, 1, pow(w, i as nat), mm))
    ensures cong(esum(big_a, 0, 1, t, n), dsum(a, w, t, mm, n))
    decreases n
{
    if n == 0 { lemma_cong_refl(0); } else {
        lemma_cong_outer(big_a, a, w, t, mm, n - 1);
        assert(0 + (n - 1) * 1 == n - 1);
        assert(inz(big_a, n - 1) == fe_v(big_a[n - 1]));
        lemma_cong_refl(pow(t, (n - 1) as nat));
        lemma_cong_mul(fe_v(big_a[n - 1]), esum(a, 0, 1, pow(w, (n - 1) as nat), mm), pow(t, (n - 1) as nat), pow(t, (n - 1) as nat));
        lemma_cong_add(esum(big_a, 0, 1, t, n - 1), dsum(a, w, t, mm, n - 1), fe_v(big_a[n - 1]) * pow(t, (n - 1) as nat), esum(a, 0, 1, pow(w, (n - 1) as nat), mm) * pow(t, (n - 1) as nat));
    }
}
// with t = w^(n-k) (or 1 for k = 0) every column but the k-th vanishes
proof fn lemma_gsum_select(a: Seq<Fe>, d: nat, k: int, mm: int)
    requires d <= MAX_ROOTS, 0 <= k < pow2(d), 0 <= mm <= pow2(d)
    ensures cong(gsum(a, rootv(d as int), pow(rootv(d as int), inv_idx(pow2(d) as int, k) as nat), mm, pow2(d) as int), if k < mm { inz(a, k) * (pow2(d) as int) } else { 0 })
    decreases mm
{
    let n = pow2(d) as int; let w = rootv(d as int); let t = pow(w, inv_idx(n, k) as nat);
    if mm == 0 { lemma_cong_refl(0); } else {
        lemma_gsum_select(a, d, k, mm - 1);
        let m = mm - 1;
        let x = pow(w, m as nat) * t;
        lemma_pow_adds(w, m as nat, inv_idx(n, k) as nat);
        let e = m + inv_idx(n, k);
        assert(x == pow(w, e as nat));
        let c = inz(a, m);
        lemma_cong_refl(c);
        if m == k {
            // w^e == 1: e == 0 (k == 0) or e == n
            if k == 0 { lemma_pow0(w); lemma_cong_refl(1); } else { lemma_root_order(d); }
            lemma_cong_geo(x, 1, n);
            lemma_geo_one(n);
            lemma_cong_mul(c, c, geo(x, n), n);
            lemma_cong_add(gsum(a, w, t, mm - 1, n), 0, c * geo(x, n), c * n);
        } else {
            // 0 < e < 2n, e != n: reduce below n, then orthogonality
            let e0 = if e >= n { e - n } else { e };
            if e >= n {
                lemma_pow_adds(w, n as nat, e0 as nat);
                lemma_root_order(d);
                lemma_cong_refl(pow(w, e0 as nat));
                lemma_cong_mul(pow(w, n as nat), 1, pow(w, e0 as nat), pow(w, e0 as nat));
                assert(1 * pow(w, e0 as nat) == pow(w, e0 as nat));
            } else { lemma_cong_refl(x); }
            assert(0 < e0 < n);
            lemma_orthogonal(d, e0);
            lemma_cong_geo(x, pow(w, e0 as nat), n);
            lemma_cong_trans(geo(x, n), geo(pow(w, e0 as nat), n), 0);
            lemma_cong_mul(c, c, geo(x, n), 0);
            assert(c * 0 == 0);
            let rest = if k < mm - 1 { inz(a, k) * n } else { 0 };
            lemma_cong_add(gsum(a, w, t, mm - 1, n), rest, c * geo(x, n), 0);
        }
    }
}
// INVERSE o FORWARD == identity: big_a meets the forward contract for a, c meets the inverse contract for big_a  ==>  c == a
proof fn theorem_inverse_undoes_forward(a: Seq<Fe>, big_a: Seq<Fe>, c: Seq<Fe>, d: nat, ninv: int)
    requires d <= MAX_ROOTS, a.len() == pow2(d), big_a.len() == pow2(d), c.len() == pow2(d),
             cong(ninv * (pow2(d) as int), 1),
             forall|i: int| 0 <= i < pow2(d) ==> cong(fe_v(#[trigger] big_a[i]), esum(a, 0, 1, tw(false, d as int, i), pow2(d) as int)),
             forall|k: int| 0 <= k < pow2(d) ==> cong(fe_v(#[trigger] c[k]), esum(big_a, 0, 1, tw(false, d as int, inv_idx(pow2(d) as int, k)), pow2(d) as int) * ninv),
    ensures forall|k: int| 0 <= k < pow2(d) ==> cong(fe_v(#[trigger] c[k]), fe_v(a[k]))
{
    let n = pow2(d) as int; let w = rootv(d as int);
    assert forall|k: int| 0 <= k < n implies cong(fe_v(#[trigger] c[k]), fe_v(a[k])) by {
        let t = pow(w, inv_idx(n, k) as nat);
        assert(tw(false, d as int, inv_idx(n, k)) == 1 * t);
        assert forall|i: int| 0 <= i < n implies cong(fe_v(#[trigger] big_a[i]), esum(a, 0, 1, pow(w, i as nat), n)) by {
            assert(tw(false, d as int, i) == 1 * pow(w, i as nat));
        }
        lemma_cong_outer(big_a, a, w, t, n, n);
        lemma_exchange(a, w, t, n, n);
        lemma_gsum_select(a, d, k, n);
        lemma_cong_trans(esum(big_a, 0, 1, t, n), gsum(a, w, t, n, n), inz(a, k) * n);
        lemma_cong_refl(ninv);
        lemma_cong_mul(esum(big_a, 0, 1, t, n), inz(a, k) * n, ninv, ninv);
        lemma_cong_trans(fe_v(c[k]), esum(big_a, 0, 1, t, n) * ninv, (inz(a, k) * n) * ninv);
        let ak = fe_v(a[k]);
        lemma_cong_refl(ak);
        lemma_cong_mul(ak, ak, ninv * n, 1);
        assert((inz(a, k) * n) * ninv == ak * (ninv * n)) by (nonlinear_arith) requires inz(a, k) == ak;
        assert(ak * 1 == ak);
        lemma_cong_trans(fe_v(c[k]), ak * (ninv * n), ak);
    }
}
'''


INTERP = '''
// ---- the forward formula undoes the inverse one: the inverse-transform polynomial INTERPOLATES the points ------------------------
// root(d)^(n*q + r) == root(d)^r
proof fn lemma_root_reduce(d: nat, q: nat, r: nat)
    requires d <= MAX_ROOTS
    ensures cong(pow(rootv(d as int), pow2(d) * q + r), pow(rootv(d as int), r))
{
    let w = rootv(d as int); let n = pow2(d);
    lemma_root_order(d);
    lemma_pow_adds(w, n * q, r);
    lemma_pow_multiplies(w, n, q);
    lemma_cong_pow(pow(w, n), 1, q);
    lemma_one_pow(q);
    lemma_cong_refl(pow(w, r));
    lemma_cong_mul(pow(w, n * q), 1, pow(w, r), pow(w, r));
    assert(1 * pow(w, r) == pow(w, r));
}
// (w^(n-1))^i == w^(inv_idx(n, i))  : the points of the inverse formula are the powers of w^-1
proof fn lemma_inv_points(d: nat, i: int)
    requires d <= MAX_ROOTS, 0 <= i < pow2(d)
    ensures cong(pow(rootv(d as int), inv_idx(pow2(d) as int, i) as nat), pow(pow(rootv(d as int), (pow2(d) - 1) as nat), i as nat))
{
    let w = rootv(d as int); let n = pow2(d);
    lemma_pow2_pos(d);
    lemma_pow_multiplies(w, (n - 1) as nat, i as nat);
    if i == 0 { lemma_pow0(w); lemma_pow0(pow(w, (n - 1) as nat)); lemma_cong_refl(1); } else {
        assert((n - 1) * i == n * (i - 1) + (n - i)) by (nonlinear_arith) requires i >= 1;
        lemma_root_reduce(d, (i - 1) as nat, (n - i) as nat);
        lemma_cong_sym(pow(w, ((n - 1) * i) as nat), pow(w, (n - i) as nat));
    }
}
proof fn lemma_cong_outer_scaled(big_a: Seq<Fe>, a: Seq<Fe>, w: int, t: int, mm: int, n: int, s: int)
    requires 0 <= n <= big_a.len(), forall|i: int| 0 <= i < n ==> cong(fe_v(#[trigger] big_a[i]), esum(a, 0, 1, pow(w, i as nat), mm) * s)
    ensures cong(esum(big_a, 0, 1, t, n), dsum(a, w, t, mm, n) * s)
    decreases n
{
    if n == 0 { lemma_cong_refl(0); assert(dsum(a, w, t, mm, 0) * s == 0) by (nonlinear_arith) requires dsum(a, w, t, mm, 0) == 0; } else {
        lemma_cong_outer_scaled(big_a, a, w, t, mm, n - 1, s);
        assert(0 + (n - 1) * 1 == n - 1);
        assert(inz(big_a, n - 1) == fe_v(big_a[n - 1]));
        let tk = pow(t, (n - 1) as nat);
        let e = esum(a, 0, 1, pow(w, (n - 1) as nat), mm);
        lemma_cong_refl(tk);
        lemma_cong_mul(fe_v(big_a[n - 1]), e * s, tk, tk);
        lemma_cong_add(esum(big_a, 0, 1, t, n - 1), dsum(a, w, t, mm, n - 1) * s, fe_v(big_a[n - 1]) * tk, (e * s) * tk);
        assert(dsum(a, w, t, mm, n - 1) * s + (e * s) * tk == (dsum(a, w, t, mm, n - 1) + e * tk) * s) by (nonlinear_arith);
    }
}
// with inner base w^(n-1) (the inverse points) and outer point w^k every column but the k-th vanishes
proof fn lemma_gsum_select_fwd(a: Seq<Fe>, d: nat, k: int, mm: int)
    requires d <= MAX_ROOTS, 0 <= k < pow2(d), 0 <= mm <= pow2(d)
    ensures cong(gsum(a, pow(rootv(d as int), (pow2(d) - 1) as nat), pow(rootv(d as int), k as nat), mm, pow2(d) as int), if k < mm { inz(a, k) * (pow2(d) as int) } else { 0 })
    decreases mm
{
    let n = pow2(d) as int; let w = rootv(d as int); let wi = pow(w, (n - 1) as nat); let t = pow(w, k as nat);
    lemma_pow2_pos(d);
    if mm == 0 { lemma_cong_refl(0); } else {
        lemma_gsum_select_fwd(a, d, k, mm - 1);
        let m = mm - 1;
        let x = pow(wi, m as nat) * t;
        lemma_pow_multiplies(w, (n - 1) as nat, m as nat);
        lemma_pow_adds(w, ((n - 1) * m) as nat, k as nat);
        let e = (n - 1) * m + k;
        assert(e >= 0) by (nonlinear_arith) requires e == (n - 1) * m + k, n >= 1, m >= 0, k >= 0;
        assert(x == pow(w, e as nat));
        let c = inz(a, m);
        lemma_cong_refl(c);
        // e == n*q + e0 with e0 == (k - m) mod n
        let q = if k >= m { m } else { m - 1 };
        let e0 = if k >= m { k - m } else { n + k - m };
        assert(e == n * q + e0) by (nonlinear_arith) requires e == (n - 1) * m + k, q == (if k >= m { m } else { m - 1 }), e0 == (if k >= m { k - m } else { n + k - m });
        lemma_root_reduce(d, q as nat, e0 as nat);
        lemma_cong_geo(x, pow(w, e0 as nat), n);
        if m == k {
            lemma_pow0(w);
            lemma_geo_one(n);
            lemma_cong_mul(c, c, geo(x, n), n);
            lemma_cong_add(gsum(a, wi, t, mm - 1, n), 0, c * geo(x, n), c * n);
        } else {
            assert(0 < e0 < n);
            lemma_orthogonal(d, e0);
            lemma_cong_trans(geo(x, n), geo(pow(w, e0 as nat), n), 0);
            lemma_cong_mul(c, c, geo(x, n), 0);
            assert(c * 0 == 0);
            let rest = if k < mm - 1 { inz(a, k) * n } else { 0 };
            lemma_cong_add(gsum(a, wi, t, mm - 1, n), rest, c * geo(x, n), 0);
        }
    }
}
// psum (coefficient sequences) is esum with base 0 and stride 1
proof fn lemma_psum_is_esum(c: Seq<Fe>, x: int, n: int)
    requires 0 <= n <= c.len()
    ensures psum(c, x, n) == esum(c, 0, 1, x, n)
    decreases n
{ if n > 0 { lemma_psum_is_esum(c, x, n - 1); assert(0 + (n - 1) * 1 == n - 1); } }
// INTERPOLATION: the polynomial whose coefficients are the inverse transform of `points` takes the value points[k] at root(d)^k
proof fn theorem_idft_interpolates(points: Seq<Fe>, c: Seq<Fe>, d: nat)
    requires d <= MAX_ROOTS, points.len() == pow2(d), is_idft(c, points, d), pow2(d) <= usize::MAX,
             cong(fe_v(size_inv_spec(pow2(d) as usize)) * (pow2(d) as int), 1),
    ensures forall|k: int| 0 <= k < pow2(d) ==> cong(psum(c, pow(rootv(d as int), k as nat), pow2(d) as int), fe_v(#[trigger] points[k]))
{
    let n = pow2(d) as int; let w = rootv(d as int); let wi = pow(w, (n - 1) as nat); let ninv = fe_v(size_inv_spec(pow2(d) as usize));
    lemma_pow2_pos(d);
    assert forall|k: int| 0 <= k < n implies cong(psum(c, pow(w, k as nat), n), fe_v(#[trigger] points[k])) by {
        let t = pow(w, k as nat);
        lemma_psum_is_esum(c, t, n);
        // c[i] == (sum_m points[m] * ((w^(n-1))^i)^m) * ninv
        assert forall|i: int| 0 <= i < n implies cong(fe_v(#[trigger] c[i]), esum(points, 0, 1, pow(wi, i as nat), n) * ninv) by {
            assert(tw(false, d as int, inv_idx(n, i)) == 1 * pow(w, inv_idx(n, i) as nat));
            lemma_inv_points(d, i);
            lemma_cong_esum(points, 0, 1, pow(w, inv_idx(n, i) as nat), pow(wi, i as nat), n);
            lemma_cong_refl(ninv);
            lemma_cong_mul(esum(points, 0, 1, pow(w, inv_idx(n, i) as nat), n), esum(points, 0, 1, pow(wi, i as nat), n), ninv, ninv);
            lemma_cong_trans(fe_v(c[i]), esum(points, 0, 1, pow(w, inv_idx(n, i) as nat), n) * ninv, esum(points, 0, 1, pow(wi, i as nat), n) * ninv);
        }
        lemma_cong_outer_scaled(c, points, wi, t, n, n, ninv);
        lemma_exchange(points, wi, t, n, n);
        lemma_gsum_select_fwd(points, d, k, n);
        let pk = fe_v(points[k]);
        lemma_cong_refl(ninv);
        lemma_cong_mul(gsum(points, wi, t, n, n), pk * n, ninv, ninv);
        lemma_cong_trans(esum(c, 0, 1, t, n), gsum(points, wi, t, n, n) * ninv, (pk * n) * ninv);
        lemma_cong_refl(pk);
        lemma_cong_mul(pk, pk, ninv * n, 1);
        assert((pk * n) * ninv == pk * (ninv * n)) by (nonlinear_arith);
        assert(pk * 1 == pk);
        lemma_cong_trans(esum(c, 0, 1, t, n), pk * (ninv * n), pk);
    }
}
'''


DOUBLE = '''
// ---- double_evaluations as a whole (theorem over the fragments: transforms + interleave loop of unit poly_kernels) ------------------
// root(d) == root(d+1)^2, hence root(d+1) * root(d)^k == root(d+1)^(2k+1) and root(d)^k == root(d+1)^(2k)
proof fn lemma_double_points(d: nat, k: nat)
    requires d < MAX_ROOTS
    ensures cong(tw(true, d as int, k as int), pow(rootv(d as int + 1), 2 * k + 1)), cong(pow(rootv(d as int), k), pow(rootv(d as int + 1), 2 * k))
{
    let w2 = rootv(d as int + 1);
    lemma_root_pow_even(d as int + 1, k);
    lemma_cong_refl(w2);
    lemma_cong_mul(w2, w2, pow(rootv(d as int), k), pow(w2, 2 * k));
    lemma_pow_adds(w2, 1, 2 * k); lemma_pow1(w2);
}
// THE 2n OUTPUTS ARE THE VALUES OF THE INTERPOLANT AT THE POWERS OF THE 2n-TH ROOT: given what the transforms fragment and the
// interleave fragment ensure (output[2k] == evaluations[k], output[2k+1] == back[k]), output[j] == P(root(d+1)^j) for every j < 2n,
// where P (degree < n, coefficients `front`) interpolates `evaluations` at the powers of root(d)
proof fn theorem_double_evaluations(evaluations: Seq<Fe>, front: Seq<Fe>, back: Seq<Fe>, output: Seq<Fe>, d: nat)
    requires 1 <= d < MAX_ROOTS, evaluations.len() == pow2(d), back.len() == pow2(d), output.len() == 2 * pow2(d), pow2(d) <= usize::MAX,
             is_idft(front, evaluations, d), cong(fe_v(size_inv_spec(pow2(d) as usize)) * (pow2(d) as int), 1),
             forall|k: int| 0 <= k < pow2(d) ==> cong(fe_v(#[trigger] back[k]), esum(front, 0, 1, tw(true, d as int, k), pow2(d) as int)),
             forall|k: int| 0 <= k < pow2(d) ==> #[trigger] output[2 * k] == evaluations[k],
             forall|k: int| 0 <= k < pow2(d) ==> #[trigger] output[2 * k + 1] == back[k],
    ensures forall|j: int| 0 <= j < 2 * pow2(d) ==> cong(fe_v(#[trigger] output[j]), psum(front, pow(rootv(d as int + 1), j as nat), pow2(d) as int))
{
    let n = pow2(d) as int; let w2 = rootv(d as int + 1);
    theorem_idft_interpolates(evaluations, front, d);
    assert forall|j: int| 0 <= j < 2 * n implies cong(fe_v(#[trigger] output[j]), psum(front, pow(w2, j as nat), n)) by {
        let k = j / 2;
        lemma_double_points(d, k as nat);
        lemma_psum_is_esum(front, pow(w2, j as nat), n);
        if j % 2 == 0 {
            assert(output[2 * k] == evaluations[k]);
            lemma_psum_is_esum(front, pow(rootv(d as int), k as nat), n);
            lemma_cong_esum(front, 0, 1, pow(rootv(d as int), k as nat), pow(w2, (2 * k) as nat), n);
            lemma_cong_sym(psum(front, pow(rootv(d as int), k as nat), n), fe_v(evaluations[k]));
            lemma_cong_trans(fe_v(evaluations[k]), esum(front, 0, 1, pow(rootv(d as int), k as nat), n), esum(front, 0, 1, pow(w2, (2 * k) as nat), n));
        } else {
            assert(output[2 * k + 1] == back[k]);
            lemma_cong_esum(front, 0, 1, tw(true, d as int, k), pow(w2, (2 * k + 1) as nat), n);
            lemma_cong_trans(fe_v(back[k]), esum(front, 0, 1, tw(true, d as int, k), n), esum(front, 0, 1, pow(w2, (2 * k + 1) as nat), n));
        }
    }
}
'''
