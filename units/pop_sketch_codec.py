"""C07/C08 — Poplar1 SketchState<F> codec and the sketch-message readers (src/vdaf/poplar1.rs) under contract (Verus), any field (one abstract
element codec of ES() bytes), EVERY input byte string (the Kani harness pop_sketch_state_tags covers the tags on the compiled code):

  SketchState::encode: RoundOne{A, B, _} is [0] ++ enc(A) ++ enc(B) (is_leader is NOT on the wire), RoundTwo is [1]; encoded_len() == bytes appended
  SketchState::decode_with_param((_, agg_id)): tag 0 -> RoundOne with A, B decoded from the next two chunks and is_leader == (agg_id == 0) -
        recomputed from the decoding parameter; tag 1 -> RoundTwo; any other tag -> UnexpectedValue; truncated input -> Err; exact consumption;
        decoding what encode wrote gives the state back when the parameter carries the same role
  decode_sketch_share: three elements in RoundOne, one in RoundTwo, each from its own chunk;  decode_sketch: Some(three elements) in RoundOne,
        None - nothing read - in RoundTwo."""
from vunit import VUnit

F = 'src/vdaf/poplar1.rs'
PRELUDE = '''
global size_of usize == 8;
pub enum CodecError { Eof, UnexpectedValue, Other }
#[verifier::external_body] #[derive(Clone, Copy)] pub struct Fe { _x: u64 }
pub uninterp spec fn ES() -> int;
pub uninterp spec fn fe_enc(e: Fe) -> Seq<u8>;
pub uninterp spec fn fe_dec(chunk: Seq<u8>) -> Option<Fe>;
#[verifier::external_body]
pub broadcast proof fn axiom_enc_len(e: Fe) ensures #[trigger] fe_enc(e).len() == ES(), 0 < ES() <= 64 {}
#[verifier::external_body]
proof fn axiom_es() ensures 0 < ES() <= 64 {}
#[verifier::external_body]
fn enc_size() -> (r: usize) ensures r == ES(), 0 < ES() <= 64 { unimplemented!() }
impl Fe {
    #[verifier::external_body]
    fn encode(&self, bytes: &mut Vec<u8>) -> (r: Result<(), CodecError>) ensures r is Ok, final(bytes)@ == old(bytes)@ + fe_enc(*self) { unimplemented!() }
}
#[verifier::external_body]
fn u8_encode(x: u8, bytes: &mut Vec<u8>) -> (r: Result<(), CodecError>) ensures r is Ok, final(bytes)@ == old(bytes)@ + seq![x] { unimplemented!() }
#[verifier::external_body]
pub struct Cur { _c: u8 }
impl Cur {
    pub uninterp spec fn data(&self) -> Seq<u8>;
    pub uninterp spec fn pos(&self) -> int;
    pub open spec fn wf(&self) -> bool { 0 <= self.pos() <= self.data().len() }
    pub open spec fn left(&self) -> int { self.data().len() - self.pos() }
}
#[verifier::external_body]
fn u8_decode(c: &mut Cur) -> (r: Result<u8, CodecError>)
    requires old(c).wf(),
    ensures final(c).data() == old(c).data(), final(c).wf(), final(c).pos() >= old(c).pos(), r is Ok <==> old(c).left() >= 1,
            r is Ok ==> r->Ok_0 == old(c).data()[old(c).pos()] && final(c).pos() == old(c).pos() + 1,
{ unimplemented!() }
// F::decode(bytes): read_exact of ES bytes + canonical check
#[verifier::external_body]
fn fe_decode(c: &mut Cur) -> (r: Result<Fe, CodecError>)
    requires old(c).wf(),
    ensures final(c).data() == old(c).data(), final(c).wf(), final(c).pos() >= old(c).pos(),
            r is Ok <==> (old(c).left() >= ES() && fe_dec(old(c).data().subrange(old(c).pos(), old(c).pos() + ES())) is Some),
            r is Ok ==> final(c).pos() == old(c).pos() + ES() && Some(r->Ok_0) == fe_dec(old(c).data().subrange(old(c).pos(), old(c).pos() + ES())),
{ unimplemented!() }
pub struct Poplar1Any { pub bits: usize }
'''
SPEC = '''
pub open spec fn sk_enc(s: SketchState<Fe>) -> Seq<u8> {
    match s { SketchState::RoundOne { A_share, B_share, is_leader } => seq![0u8] + fe_enc(A_share) + fe_enc(B_share), SketchState::RoundTwo => seq![1u8] }
}
pub open spec fn el(d: Seq<u8>, p: int, k: int) -> Option<Fe> { fe_dec(d.subrange(p + k * ES(), p + (k + 1) * ES())) }
'''
GEN = [(r'impl<F: FieldElement>', 'impl', '*'), (r'SketchState<F>', 'SketchState<Fe>', '*'), (r'\bSelf::', 'SketchState::', '*'), (r'\bF::ENCODED_SIZE\b', 'enc_size()', '*'),
       (r'(\d)u8\.encode\(bytes\)', r'u8_encode(\1u8, bytes)', '*'), (r'\bF::decode\(bytes\)\?', 'fe_decode(bytes)?', '*'), (r'u8::decode\(bytes\)\?', 'u8_decode(bytes)?', '*'),
       (r'bytes: &mut Cursor<&\[u8\]>', 'bytes: &mut Cur', '*'), (r'Result<Vec<F>, CodecError>', 'Result<Vec<Fe>, CodecError>', '*'), (r'Result<Option<\[F; 3\]>, CodecError>', 'Result<Option<[Fe; 3]>, CodecError>', '*'),
       (r'Result<Self, CodecError>', 'Result<SketchState<Fe>, CodecError>', '*')]


def unit():
    u = VUnit('pop_sketch_codec', 'Poplar1 SketchState codec and sketch-message readers: tags, role from the parameter, exact consumption')
    u.raw(PRELUDE, 'abstract-codec')
    u.struct_item(F, ['enum SketchState'])
    u.raw(SPEC, 'wire-form')
    ENC = ['impl<F: FieldElement> Encode for SketchState<F>']
    u.item(F, ENC + ['fn encode'], ret='r', impl_header='impl SketchState<Fe>', rewrites=GEN,
           sig='ensures\n    r is Ok, final(bytes)@ == old(bytes)@ + sk_enc(*self),\n')
    u.item(F, ENC + ['fn encoded_len'], ret='r', impl_header='impl SketchState<Fe>', rewrites=GEN,
           sig='ensures\n    r == Some(sk_enc(*self).len() as usize),\n', before=[('Some(', 'broadcast use axiom_enc_len; axiom_es();', 0)])
    u.item(F, [r"impl<'a, P, F: FieldElement, const SEED_SIZE: usize>\s*ParameterizedDecode<\(&'a Poplar1<P, SEED_SIZE>, usize\)> for SketchState<F>\s*(?=\{)", 'fn decode_with_param'],
           ret='r', name='sketch_state_decode',
           rewrites=GEN + [(r"\(_, agg_id\): &\(&'a Poplar1<P, SEED_SIZE>, usize\)", 'agg_id: &usize', 1), (r'agg_id (==|!=) &(\d+)', r'*agg_id \1 \2', 1)],
           sig='''
requires
    old(bytes).wf(),
ensures
    final(bytes).data() == old(bytes).data(), final(bytes).wf(),
    // total: exactly the tags 0 and 1
    old(bytes).left() >= 1 && old(bytes).data()[old(bytes).pos()] > 1 ==> r == Err::<SketchState<Fe>, CodecError>(CodecError::UnexpectedValue),
    old(bytes).left() == 0 ==> r is Err,
    r is Ok ==> (match r->Ok_0 {
        // the role is recomputed from the decoding parameter, A and B come from the two chunks after the tag
        SketchState::RoundOne { A_share, B_share, is_leader } => old(bytes).data()[old(bytes).pos()] == 0 && is_leader == (*agg_id == 0)
            && Some(A_share) == el(old(bytes).data(), old(bytes).pos() + 1, 0) && Some(B_share) == el(old(bytes).data(), old(bytes).pos() + 1, 1)
            && final(bytes).pos() == old(bytes).pos() + 1 + 2 * ES(),
        SketchState::RoundTwo => old(bytes).data()[old(bytes).pos()] == 1 && final(bytes).pos() == old(bytes).pos() + 1,
    }),
    old(bytes).left() >= 1 && old(bytes).data()[old(bytes).pos()] == 0 && old(bytes).left() < 1 + 2 * ES() ==> r is Err,
''', before=[('match u8_decode(bytes)?', 'axiom_es(); assert(0 * ES() == 0 && 1 * ES() == ES() && 2 * ES() == ES() + ES()) by (nonlinear_arith);')])
    RD = ['impl<F: FieldElement> SketchState<F>']
    u.item(F, RD + ['fn decode_sketch_share'], ret='r', impl_header='impl SketchState<Fe>', rewrites=GEN,
           sig='''
requires
    old(bytes).wf(),
ensures
    final(bytes).data() == old(bytes).data(),
    r is Ok ==> r->Ok_0@.len() == (if *self is RoundOne { 3int } else { 1int }) && final(bytes).pos() == old(bytes).pos() + r->Ok_0@.len() * ES()
        && forall|k: int| 0 <= k < r->Ok_0@.len() ==> Some(#[trigger] r->Ok_0@[k]) == el(old(bytes).data(), old(bytes).pos(), k),
    old(bytes).left() < (if *self is RoundOne { 3 * ES() } else { ES() }) ==> r is Err,
''', before=[('match self', 'axiom_es(); assert(0 * ES() == 0 && 1 * ES() == ES() && 2 * ES() == ES() + ES() && 3 * ES() == ES() + ES() + ES()) by (nonlinear_arith);')])
    u.item(F, RD + ['fn decode_sketch'], ret='r', impl_header='impl SketchState<Fe>', rewrites=GEN,
           sig='''
requires
    old(bytes).wf(),
ensures
    final(bytes).data() == old(bytes).data(),
    r is Ok ==> (r->Ok_0 is Some <==> *self is RoundOne),
    // RoundTwo: the (zero) sketch verifier is not transmitted: nothing is read
    r is Ok && *self is RoundTwo ==> final(bytes).pos() == old(bytes).pos(),
    r is Ok && *self is RoundOne ==> final(bytes).pos() == old(bytes).pos() + 3 * ES()
        && forall|k: int| 0 <= k < 3 ==> Some(#[trigger] r->Ok_0->Some_0@[k]) == el(old(bytes).data(), old(bytes).pos(), k),
    *self is RoundOne && old(bytes).left() < 3 * ES() ==> r is Err,
    *self is RoundTwo ==> r is Ok,
''', before=[('match self', 'axiom_es(); assert(0 * ES() == 0 && 1 * ES() == ES() && 2 * ES() == ES() + ES() && 3 * ES() == ES() + ES() + ES()) by (nonlinear_arith);')])
    return u
