"""C07/C08 — Prio3VerifyState::decode_with_param (src/vdaf/prio3.rs) under contract for EVERY FLP type and EVERY byte string (Verus).
Reuses the preludes of units prio3_codec / prio3_state_codecs / prio3_ishare_decode; Share::decode_with_param and role_try_from through
the contracts proved in those units (same check).

  aggregator id >= num_aggregators -> Err; id 0: a Leader share of exactly output_len elements, any other id: a Helper seed; then a
  joint randomness seed exactly when the type uses joint randomness; agg_id and verifiers_len = verifier_len * num_proofs are taken
  from the instance; exact consumption; Err on fewer bytes.  Derived precondition: verifier_len * num_proofs fits usize."""
from vunit import VUnit
import prio3_codec, prio3_state_codecs, prio3_ishare_decode

F = 'src/vdaf/prio3.rs'
PRELUDE = '''
pub enum VdafError { Uncategorized(String) }
fn codec_other(e: VdafError) -> (r: CodecError) ensures r == CodecError::Other { CodecError::Other }
pub struct Prio3Any { pub num_aggregators: u8, pub num_proofs: u8 }
impl Prio3Any {
    pub uninterp spec fn ol(&self) -> nat;      // typ.output_len()
    pub uninterp spec fn vl(&self) -> nat;      // typ.verifier_len()
    pub uninterp spec fn jrl(&self) -> nat;     // typ.joint_rand_len()
    #[verifier::external_body] fn typ_output_len(&self) -> (r: usize) ensures r == self.ol() { unimplemented!() }
    #[verifier::external_body] fn typ_verifier_len(&self) -> (r: usize) ensures r == self.vl() { unimplemented!() }
    #[verifier::external_body] fn typ_joint_rand_len(&self) -> (r: usize) ensures r == self.jrl() { unimplemented!() }
    fn num_proofs(&self) -> (r: usize) ensures r == self.num_proofs { self.num_proofs as usize }
    // contract proved in unit prio3_ishare_decode on the extracted role_try_from
    #[verifier::external_body]
    fn role_try_from(&self, agg_id: usize) -> (r: Result<u8, VdafError>) ensures r is Ok <==> agg_id < self.num_aggregators, r is Ok ==> r->Ok_0 == agg_id { unimplemented!() }
}
// contract proved in unit prio3_state_codecs on the extracted Share::decode_with_param
#[verifier::external_body]
fn share_decode(decoding_parameter: &ShareDecodingParameter, bytes: &mut Cur) -> (r: Result<Share, CodecError>)
    requires old(bytes).wf(),
    ensures final(bytes).data() == old(bytes).data(), final(bytes).wf(),
        r is Ok ==> (r->Ok_0 is Leader <==> decoding_parameter is Leader),
        r is Ok && decoding_parameter is Leader ==> r->Ok_0->Leader_0@.len() == decoding_parameter->Leader_0 && final(bytes).pos() == old(bytes).pos() + decoding_parameter->Leader_0 * ES(),
        r is Ok && decoding_parameter is Helper ==> final(bytes).pos() == old(bytes).pos() + SS(),
        decoding_parameter is Leader && old(bytes).rest().len() < decoding_parameter->Leader_0 * ES() ==> r is Err,
        decoding_parameter is Helper && old(bytes).rest().len() < SS() ==> r is Err,
{ unimplemented!() }
pub open spec fn share_len(p: Prio3Any, id: int) -> int { if id == 0 { p.ol() * ES() } else { SS() } }
pub open spec fn jr_len(p: Prio3Any) -> int { if p.jrl() > 0 { SS() } else { 0 } }
'''


def unit():
    u = VUnit('prio3_vstate_decode', 'Prio3VerifyState::decode_with_param: shape, instance-derived fields, exact consumption, for every FLP type and input')
    u.raw(prio3_codec.PRELUDE, 'abstract-codecs')
    u.raw(prio3_state_codecs.DECODE_SHIMS, 'decode-shims')
    u.raw(prio3_state_codecs.PRELUDE, 'types')
    u.raw(PRELUDE, 'instance')
    u.item(F, [r"impl<'a, T, P, const SEED_SIZE: usize> ParameterizedDecode<\(&'a Prio3<T, P, SEED_SIZE>, usize\)>\s*for Prio3VerifyState<T::Field, SEED_SIZE>[^{]*?(?=\{)", 'fn decode_with_param'],
           ret='r', name='vstate_decode',
           rewrites=[(r"\(prio3, agg_id\): &\(&'a Prio3<T, P, SEED_SIZE>, usize\)", 'prio3: &Prio3Any, agg_id: &usize', 1), (r'bytes: &mut Cursor<&\[u8\]>', 'bytes: &mut Cur', 1),
                     (r'Result<Self, CodecError>', 'Result<Prio3VerifyStateFull, CodecError>', 1),
                     (r'prio3\s*\.role_try_from\(\*agg_id\)\s*\.map_err\(\|e\| CodecError::Other\(Box::new\(e\)\)\)\?',
                      'match prio3.role_try_from(*agg_id) { Ok(v_) => v_, Err(e) => { return Err(codec_other(e)); } }', 1),
                     (r'prio3\.typ\.output_len\(\)', 'prio3.typ_output_len()', '*'), (r'prio3\.typ\.verifier_len\(\)', 'prio3.typ_verifier_len()', '*'),
                     (r'prio3\.typ\.joint_rand_len\(\)', 'prio3.typ_joint_rand_len()', '*'), (r'Seed::decode\(bytes\)\?', 'seed_decode(bytes)?', '*'),
                     (r'Share::decode_with_param\(&share_decoder, bytes\)\?', 'share_decode(&share_decoder, bytes)?', 1), (r'Ok\(Self \{', 'Ok(Prio3VerifyStateFull {', 1)],
           sig='''
requires
    old(bytes).wf(),
    prio3.vl() * prio3.num_proofs <= usize::MAX,           // derived: a verifier of that many elements is held in memory
ensures
    final(bytes).data() == old(bytes).data(),
    *agg_id >= prio3.num_aggregators ==> r is Err,
    r is Ok ==> r->Ok_0.agg_id == *agg_id && r->Ok_0.verifiers_len == prio3.vl() * prio3.num_proofs
        && (r->Ok_0.share is Leader <==> *agg_id == 0)
        && (*agg_id == 0 ==> r->Ok_0.share->Leader_0@.len() == prio3.ol())
        && (r->Ok_0.joint_rand_seed is Some <==> prio3.jrl() > 0)
        && final(bytes).pos() == old(bytes).pos() + share_len(*prio3, *agg_id as int) + jr_len(*prio3),
    *agg_id < prio3.num_aggregators && old(bytes).rest().len() < share_len(*prio3, *agg_id as int) + jr_len(*prio3) ==> r is Err,
''', before=[('let share_decoder', 'axiom_sizes(); assert(prio3.ol() * ES() >= 0) by (nonlinear_arith) requires ES() > 0;')])
    return u
