"""C19 — Prio2::choose_eval_at: the query point is never one of the 2N interpolation nodes
(eval_at^(2*next_pow2(input_len+1)) != 1), for every PRNG output stream.

The function is extracted from src/vdaf/prio2.rs; FieldPrio2's `pow`, `one` and `eq` are the bodies of
the `make_field!` macro (src/field.rs) instantiated with the arguments of the real invocation
(FieldPrio2, u32, u32, FP32, 4); FP32::pow is seen through the contract PROVED in unit fp_ops32."""
from fp_common import WORDS
import fp_ops
from vunit import VUnit

PRELUDE = '''
pub enum VdafError { Uncategorized(String) }
pub open spec fn spec_npo2(x: int) -> int decreases x { if x <= 1 { 1 } else { 2 * spec_npo2((x + 1) / 2) } }
pub assume_specification [usize::next_power_of_two] (x: usize) -> (r: usize)
    requires spec_npo2(x as int) <= usize::MAX as int,
    ensures r as int == spec_npo2(x as int);
proof fn lemma_npo2_bounds(x: int)
    requires x >= 0
    ensures spec_npo2(x) >= x, spec_npo2(x) >= 1, x >= 1 ==> spec_npo2(x) < 2 * x
    decreases x
{
    if x > 1 { lemma_npo2_bounds((x + 1) / 2); }
}
// u32::try_from(usize), u32::try_from(u32) [trusted: std semantics]
#[derive(Debug)]
pub struct TryFromIntError;
#[verifier::external_body]
fn u32_try_from_usize(x: usize) -> (r: Result<u32, TryFromIntError>)
    ensures x <= u32::MAX as usize ==> r == Ok::<u32, TryFromIntError>(x as u32), x > u32::MAX as usize ==> r is Err
{ u32::try_from(x).map_err(|_| TryFromIntError) }
#[verifier::external_body]
fn u32_try_from_u32(x: u32) -> (r: Result<u32, TryFromIntError>)
    ensures r == Ok::<u32, TryFromIntError>(x)
{ Ok(x) }

// contract of FieldOps::pow for FP32, PROVED in unit fp_ops32 from the extracted text (same check run)
#[verifier::external_body]
fn fp32_pow(x: u32, exp: u32) -> (r: u32)
    requires x < FP32_PRIME,
    ensures r < FP32_PRIME, val(r as int) == powm(val(x as int), exp as nat),
{ unimplemented!() }

// pub struct $elem($int_internal) of make_field!(FieldPrio2, u32, u32, FP32, 4)
#[derive(Clone, Copy)]
pub struct FieldPrio2(pub u32);
impl FieldPrio2 {
    // representation invariant of the field layer (DESIGN C09): the Montgomery representative is reduced
    pub open spec fn wf(&self) -> bool { self.0 < FP32_PRIME }
    // the residue class this element denotes
    pub open spec fn view(&self) -> int { val(self.0 as int) }
}

// Prng<FieldPrio2, S>: opaque; `get` may return ANY well-formed element (the contract of rejection sampling, C11)
#[verifier::external_body]
pub struct Prng { _p: u8 }
#[verifier::external_body]
fn prng_get(prng: &mut Prng) -> (r: FieldPrio2)
    ensures r.wf(),
{ unimplemented!() }

pub struct Prio2 { input_len: usize }
impl Prio2 {
    // established by Prio2::new (unit vdaf_guards: `r is Ok <==> 2*npo2(input_len+1) <= 2^NUM_ROOTS`)
    pub closed spec fn wf(&self) -> bool { 2 * spec_npo2(self.input_len as int + 1) <= %(go)d }
    pub closed spec fn proof_domain(&self) -> nat { (2 * spec_npo2(self.input_len as int + 1)) as nat }
}
'''


def unit():
    bits = 32
    w = WORDS[bits]
    u = VUnit('prio2_eval', 'Prio2::choose_eval_at excludes the 2N interpolation nodes')
    pre, c = fp_ops.prelude(bits)
    u.oracle = {'inject': 'src/vdaf/prio2.rs', 'file': 'guards_oracle.rs', 'test': 'verif_oracle_guards::oracle_prio2_eval_at'}
    fmt = dict(P='FP32', W='u32', W2='u64', p='fp32')
    u.raw(pre, 'fp32-prelude')
    u.raw(fp_ops.VAL_LEMMAS.format(**fmt), 'val-lemmas')
    u.raw(PRELUDE % dict(go=1 << c['NUM_ROOTS']), 'prelude')
    MF = 'src/field.rs'
    mac = 'macro_rules! make_field'
    common = [(r'\$elem\b', 'FieldPrio2', '*'), (r'\$fp::', 'FP32::', '*'), (r'\$int_internal\b', 'u32', '*'),
              (r'\bSelf\(', 'FieldPrio2(', '*')]
    u.item(MF, [mac, '=>', 'impl FieldElementWithInteger for $elem', 'fn pow'], name='pow', ret='r', impl_header='impl FieldPrio2',
           rewrites=common + [(r'\bFP32::pow\(', 'fp32_pow(', 1), (r'u32::try_from\(exp\)', 'u32_try_from_u32(exp)', 1),
                              (r'Self::Integer', 'u32', 1), (r'-> Self\b', '-> FieldPrio2', 1)],
           sig='''
requires
    self.wf(),
ensures
    r.wf(),
    r@ == powm(self@, exp as nat),
''')
    u.item(MF, [mac, '=>', 'impl FieldElement for $elem', 'fn one'], name='one', ret='r', impl_header='impl FieldPrio2',
           rewrites=common + [(r'FP32::ROOTS\[0\]', 'FP32_ROOT0', 1), (r'-> Self\b', '-> FieldPrio2', 1)],
           sig='''
ensures
    r.wf(),
    r@ == 1,
    r.0 == FP32_ROOT0,
''', before=[('FieldPrio2(FP32_ROOT0)', 'lemma_consts_val();')])
    u.item(MF, [mac, '=>', 'impl PartialEq for $elem', 'fn eq'], name='eq', ret='r', impl_header='impl FieldPrio2',
           rewrites=common + [(r'debug_assert!\([^;]*\);', '', 2), (r'rhs: &Self\b', 'rhs: &FieldPrio2', 1)],
           sig='''
requires
    self.wf(),
    rhs.wf(),
ensures
    // equality of representatives is equality of residue classes (Montgomery map is injective on [0,p))
    r == (self@ == rhs@),
''', before=[('self.0 == rhs.0', 'lemma_val_inj(self.0 as int); lemma_val_inj(rhs.0 as int);')])
    u.item('src/vdaf/prio2.rs', ['impl Prio2', 'fn choose_eval_at'], ret='r', impl_header='impl Prio2',
           attrs='#[verifier::exec_allows_no_decreases_clause]\n#[verifier::loop_isolation(false)]',   # termination is probabilistic: not proved; no local named in any clause
           rewrites=[(r'fn choose_eval_at<S>\(&self, prng: &mut Prng<FieldPrio2, S>\) -> FieldPrio2\s*where\s*S: Rng,',
                      'fn choose_eval_at(&self, prng: &mut Prng) -> FieldPrio2', 1),
                     (r'prng\.get\(\)', 'prng_get(prng)', 1),
                     (r'u32::try_from\(', 'u32_try_from_usize(', 1),
                     # `a != b` is `!PartialEq::eq(&a, &b)` (the derived `ne`)
                     (r'if (eval_at\.pow\((?:[^()]|\((?:[^()]|\([^()]*\))*\))*\)) != (FieldPrio2::one\(\)) \{', r'if !(\1).eq(&\2) {', 1)],
           sig='''
requires
    self.wf(),
ensures
    r.wf(),
    // not one of the 2N interpolation nodes: r^(2N) != 1 where N = next_pow2(input_len + 1)
    powm(r@, self.proof_domain()) != 1,
''',
           before=[('let n =', 'lemma_npo2_bounds(self.input_len as int + 1);')])
    u.raw('''
fn witness(p: &Prio2, prng: &mut Prng) requires p.wf() {
    let r = p.choose_eval_at(prng);
    assert(powm(r@, p.proof_domain()) != 1);
}
''', 'witness')
    return u
