"""C16 — Prio3::new and Prio3::random_size (src/vdaf/prio3.rs) under contract (Verus) for EVERY FLP type:

  new(num_aggregators, num_proofs, algorithm_id, typ): Ok exactly when 1 <= num_aggregators <= 254 (check_num_aggregators, extracted) and
        num_proofs >= 1; the instance stores exactly the arguments - a zero proof count or an aggregator count of 0 or 255 is an Err, never an
        unusable instance
  random_size(): num_aggregators * SEED_SIZE without joint randomness, 2 * num_aggregators * SEED_SIZE with it; cannot overflow
        (num_aggregators <= 255, SEED_SIZE <= 64: XOF seeds are 16 or 32 bytes) - the value shard_with_random compares the randomness length with."""
from vunit import VUnit

F = 'src/vdaf/prio3.rs'
PRELUDE = '''
global size_of usize == 8;
use std::marker::PhantomData;
pub enum VdafError { Uncategorized(String) }
#[verifier::external_body]
fn fmt_opaque() -> String { String::new() }
pub struct AnyType { pub _t: u8 }
impl AnyType {
    pub uninterp spec fn jrl(&self) -> nat;
    #[verifier::external_body] fn joint_rand_len(&self) -> (r: usize) ensures r == self.jrl() { unimplemented!() }
}
pub struct Prio3 { pub num_aggregators: u8, pub num_proofs: u8, pub algorithm_id: u32, pub typ: AnyType, pub phantom: PhantomData<u8> }
pub uninterp spec fn SS() -> int;
#[verifier::external_body]
fn seed_size() -> (r: usize) ensures r == SS(), 0 < SS() <= 64 { unimplemented!() }      // the const generic SEED_SIZE
#[verifier::external_body]
proof fn axiom_ss() ensures 0 < SS() <= 64 {}
'''


def unit():
    u = VUnit('prio3_new', 'Prio3::new accepts exactly 1..254 aggregators and >= 1 proofs; random_size exact, no overflow')
    u.raw(PRELUDE, 'abstract-type')
    u.item(F, ['fn check_num_aggregators'], ret='r', rewrites=[(r'format!\((?:[^()]|\([^()]*\))*\)', 'fmt_opaque()', '*')],
           sig='ensures\n    r is Ok <==> 1 <= num_aggregators <= 254,\n')
    u.item(F, ['impl<T, P, const SEED_SIZE: usize> Prio3<T, P, SEED_SIZE>', 'pub fn new'], ret='r', impl_header='impl Prio3', nth={0: 0},
           rewrites=[(r'typ: T,', 'typ: AnyType,', 1), (r'Result<Self, VdafError>', 'Result<Prio3, VdafError>', 1), (r'Ok\(Self \{', 'Ok(Prio3 {', 1)],
           sig='''
ensures
    r is Ok <==> (1 <= num_aggregators <= 254 && num_proofs >= 1),
    r is Ok ==> r->Ok_0.num_aggregators == num_aggregators && r->Ok_0.num_proofs == num_proofs && r->Ok_0.algorithm_id == algorithm_id && r->Ok_0.typ == typ,
''')
    u.item(F, ['impl<T, P, const SEED_SIZE: usize> Prio3<T, P, SEED_SIZE>', 'fn random_size'], ret='r', impl_header='impl Prio3', nth={0: 0},
           rewrites=[(r'\bSEED_SIZE\b', 'seed_size()', '*'), (r'usize::from\(self\.num_aggregators\)', '(self.num_aggregators as usize)', '*')],
           sig='''
ensures
    r == (if self.typ.jrl() == 0 { self.num_aggregators as int * SS() } else { 2 * (self.num_aggregators as int) * SS() }),
''', before=[('if self.typ.joint_rand_len() == 0', 'axiom_ss(); assert(0 <= self.num_aggregators as int * SS() <= 255 * 64 && 2 * (self.num_aggregators as int) * SS() == 2 * (self.num_aggregators as int * SS())) by (nonlinear_arith) requires 0 <= self.num_aggregators <= 255, 0 < SS() <= 64;')])
    return u
