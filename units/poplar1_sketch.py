"""C03/C04/C17 — the Poplar1 sketch arithmetic on the REAL functions (Verus, abstract field, unbounded):

  compute_next_corr_shares  (client):  consumes exactly 3 elements of each correlated-randomness stream and 2 of the
        sharding stream; the helper's (A,B) shares are VERBATIM stream elements (independent of everything else); the
        shares sum to A = -2a + auth and B = a^2 + b - a*auth + c with (a,b,c) the sums of the three stream elements.
  verify_init fast-forward  (aggregator, fragment of Poplar1::verify_init):  skips exactly 3*level elements, for every
        u16 level, without overflow - so the aggregator reads (a,b,c) for level l at stream offsets [3l, 3l+3), where the
        client's l-th call of compute_next_corr_shares consumed them.
  finish_sketch:  A_share*z0 + B_share (+ z0^2 - z1 - z2 for the helper only).
  next_message:  length 1 and sum != 0 => Err; length 1 and sum == 0 => Ok(None); length 3 => Ok(Some(sum)); else Err.

  eval_and_sketch (whole function, ANY number of candidate prefixes; the IDPF evaluation of prefix k and the verification-randomness
        stream are abstract): exactly three correlated-randomness elements (a, b, c) are consumed; Ok exactly when every IDPF
        evaluation succeeds; the output share is the data share of each prefix in order; the sketch is
        (a + sum_k data_k r_k, b + sum_k data_k r_k^2, c + sum_k auth_k r_k) with ONE stream element r_k per prefix, in order.

The honest-case identity over these contracts is unit sketch_lemma."""
from fe_common import FE_PRELUDE
from vunit import VUnit

PF = 'src/vdaf/poplar1.rs'

PRELUDE = '''
pub enum VdafError { Uncategorized(String), Field(FieldError) }
pub enum FieldError { InputSizeMismatch }
#[verifier::external_body]
fn fmt_opaque() -> String { String::new() }
// operator + congruence in one step
proof fn lemma_c0(x: Fe) ensures cong(fe_v(x), fe_v(x)) { lemma_cong_refl(fe_v(x)); }
proof fn lemma_add_c(x: Fe, y: Fe, xi: int, yi: int) requires cong(fe_v(x), xi), cong(fe_v(y), yi)
    ensures cong(fe_v(fe_mk(fe_v(x) + fe_v(y))), xi + yi)
{ lemma_ops(x, y); lemma_cong_add(fe_v(x), xi, fe_v(y), yi); lemma_cong_trans(fe_v(fe_mk(fe_v(x) + fe_v(y))), fe_v(x) + fe_v(y), xi + yi); }
proof fn lemma_sub_c(x: Fe, y: Fe, xi: int, yi: int) requires cong(fe_v(x), xi), cong(fe_v(y), yi)
    ensures cong(fe_v(fe_mk(fe_v(x) - fe_v(y))), xi - yi)
{ lemma_ops(x, y); lemma_cong_sub(fe_v(x), xi, fe_v(y), yi); lemma_cong_trans(fe_v(fe_mk(fe_v(x) - fe_v(y))), fe_v(x) - fe_v(y), xi - yi); }
proof fn lemma_mul_c(x: Fe, y: Fe, xi: int, yi: int) requires cong(fe_v(x), xi), cong(fe_v(y), yi)
    ensures cong(fe_v(fe_mk(fe_v(x) * fe_v(y))), xi * yi)
{ lemma_ops(x, y); lemma_cong_mul(fe_v(x), xi, fe_v(y), yi); lemma_cong_trans(fe_v(fe_mk(fe_v(x) * fe_v(y))), fe_v(x) * fe_v(y), xi * yi); }
proof fn lemma_neg_c(x: Fe, xi: int) requires cong(fe_v(x), xi)
    ensures cong(fe_v(fe_mk(-fe_v(x))), -xi)
{ lemma_ops(x, x); lemma_cong_neg(fe_v(x), xi); lemma_cong_trans(fe_v(fe_mk(-fe_v(x))), -fe_v(x), -xi); }

// contract of field::merge_vector (decided on the real code by the Kani unit c13_field/c13_vdaf, bounded length;
// here it is the assumed boundary): mismatch => Err and accumulator unchanged, else pointwise sum
#[verifier::external_body]
fn merge_vector(accumulator: &mut Vec<Fe>, other_vector: &Vec<Fe>) -> (r: Result<(), FieldError>)
    ensures
        old(accumulator)@.len() != other_vector@.len() ==> r is Err && final(accumulator)@ == old(accumulator)@,
        old(accumulator)@.len() == other_vector@.len() ==> r is Ok && final(accumulator)@.len() == other_vector@.len()
            && forall|i: int| 0 <= i < other_vector@.len() ==> #[trigger] final(accumulator)@[i] == fe_mk(fe_v(old(accumulator)@[i]) + fe_v(other_vector@[i])),
{ unimplemented!() }
fn vdaf_error_from(e: FieldError) -> VdafError { VdafError::Field(e) }
'''

GEN = [(r'<F: FieldElement \+ From<u64>, S: Rng>', '', 1), (r'Prng<F, S>', 'PrngFe', 3), (r'\bF::from\(2\)', 'fe_from_u64(2)', 1),
       (r'\bF\b', 'Fe', '*')]

CORR_HINT = '''
let s0 = *old(corr_prng_0); let s1 = *old(corr_prng_1); let pr = *old(prng);
let (p0, p1) = (s0.pos(), s1.pos());
let (x0, x1, y0, y1, z0, z1) = (s0.at(p0), s1.at(p1), s0.at(p0 + 1), s1.at(p1 + 1), s0.at(p0 + 2), s1.at(p1 + 2));
let ai = fe_v(x0) + fe_v(x1); let bi = fe_v(y0) + fe_v(y1); let ci = fe_v(z0) + fe_v(z1); let au = fe_v(auth);
lemma_c0(x0); lemma_c0(x1); lemma_c0(y0); lemma_c0(y1); lemma_c0(z0); lemma_c0(z1); lemma_c0(auth);
lemma_add_c(x0, x1, fe_v(x0), fe_v(x1));
lemma_add_c(y0, y1, fe_v(y0), fe_v(y1));
lemma_add_c(z0, z1, fe_v(z0), fe_v(z1));
assert(cong(fe_v(a), ai) && cong(fe_v(b), bi) && cong(fe_v(c), ci));
// A = (-two) * a + auth
broadcast use axiom_fe_mk;
lemma_cong_mod(2);
lemma_neg_c(two, 2);
let ntwo = fe_mk(-fe_v(two));
lemma_mul_c(ntwo, a, -2, ai);
let m1 = fe_mk(fe_v(ntwo) * fe_v(a));
lemma_add_c(m1, auth, -2 * ai, au);
assert(cong(fe_v(A), -2 * ai + au));
// B = ((a * a + b) - a * auth) + c
lemma_mul_c(a, a, ai, ai);
let aa = fe_mk(fe_v(a) * fe_v(a));
lemma_add_c(aa, b, ai * ai, bi);
let aab = fe_mk(fe_v(aa) + fe_v(b));
lemma_mul_c(a, auth, ai, au);
let aau = fe_mk(fe_v(a) * fe_v(auth));
lemma_sub_c(aab, aau, ai * ai + bi, ai * au);
let d = fe_mk(fe_v(aab) - fe_v(aau));
lemma_add_c(d, c, ai * ai + bi - ai * au, ci);
assert(cong(fe_v(B), ai * ai + bi - ai * au + ci));
// corr_0 = [A - corr_1[0], B - corr_1[1]]
lemma_c0(corr_1[0]); lemma_c0(corr_1[1]);
lemma_sub_c(A, corr_1[0], -2 * ai + au, fe_v(corr_1[0]));
lemma_sub_c(B, corr_1[1], ai * ai + bi - ai * au + ci, fe_v(corr_1[1]));
lemma_cong_add(fe_v(corr_0[0]), -2 * ai + au - fe_v(corr_1[0]), fe_v(corr_1[0]), fe_v(corr_1[0]));
lemma_cong_add(fe_v(corr_0[1]), ai * ai + bi - ai * au + ci - fe_v(corr_1[1]), fe_v(corr_1[1]), fe_v(corr_1[1]));
'''


def unit():
    u = VUnit('poplar1_sketch', 'Poplar1 correlated randomness and sketch arithmetic (abstract field)')
    u.oracle = {'inject': 'src/vdaf/poplar1.rs', 'file': 'poplar1_oracle.rs', 'test': 'verif_oracle_poplar1::oracle_'}       # every executable contract of the module
    u.raw(FE_PRELUDE, 'abstract-field')
    u.raw(PRELUDE, 'prelude')
    u.item(PF, ['fn compute_next_corr_shares'], ret='r', rewrites=GEN,
           sig='''
ensures
    ({
        let s0 = *old(corr_prng_0); let s1 = *old(corr_prng_1); let pr = *old(prng);
        let (p0, p1, q) = (s0.pos(), s1.pos(), pr.pos());
        let a = fe_v(s0.at(p0)) + fe_v(s1.at(p1));
        let b = fe_v(s0.at(p0 + 1)) + fe_v(s1.at(p1 + 1));
        let c = fe_v(s0.at(p0 + 2)) + fe_v(s1.at(p1 + 2));
        // stream positions: exactly three elements of each correlated-randomness stream, two of the sharding stream
        &&& final(corr_prng_0).pos() == p0 + 3 && final(corr_prng_1).pos() == p1 + 3 && final(prng).pos() == q + 2
        &&& forall|i: int| #[trigger] final(corr_prng_0).at(i) == s0.at(i)
        &&& forall|i: int| #[trigger] final(corr_prng_1).at(i) == s1.at(i)
        &&& forall|i: int| #[trigger] final(prng).at(i) == pr.at(i)
        // the helper's shares are verbatim elements of the sharding stream (C17: no data flow from the input or auth)
        &&& r.1[0] == pr.at(q) && r.1[1] == pr.at(q + 1)
        // the shares reconstruct A = -2a + auth and B = a^2 + b - a*auth + c
        &&& cong(fe_v(r.0[0]) + fe_v(r.1[0]), -2 * a + fe_v(auth))
        &&& cong(fe_v(r.0[1]) + fe_v(r.1[1]), a * a + b - a * fe_v(auth) + c)
    }),
''', before=[('(corr_0, corr_1)', CORR_HINT)])

    # E9 fragment: the fast-forward loop of Poplar1::verify_init, lifted verbatim into a function of its free variables
    u.item(PF, ['impl<P: Xof<SEED_SIZE>, const SEED_SIZE: usize> Aggregator<SEED_SIZE, 16>\\s+for Poplar1<P, SEED_SIZE>', 'fn verify_init'],
           name='verify_init_fast_forward', nth=None,
           rewrites=[(r'^.*?(for _ in 0\.\.[^{};]*\{\s*corr_prng\.get\(\);\s*\}).*$',
                      r'fn verify_init(agg_param: &Poplar1AggregationParam, corr_prng: &mut PrngFe) { \1 }', 1),
                     (r'for _ in ', 'for _i in ', 1)],
           sig='''
ensures
    // exactly 3*level elements are skipped, for EVERY u16 level (no overflow of the count)
    final(corr_prng).pos() == old(corr_prng).pos() + 3 * (agg_param.level as int),
    forall|i: int| #[trigger] final(corr_prng).at(i) == old(corr_prng).at(i),
''', loops={0: '''
invariant
    corr_prng.pos() == old(corr_prng).pos() + _i as int,
    forall|i: int| #[trigger] corr_prng.at(i) == old(corr_prng).at(i),
'''})
    u.raw('''
pub struct Poplar1AggregationParam { pub level: u16 }
''', 'agg-param')

    u.item(PF, ['fn finish_sketch'], ret='r', rewrites=[(r'<F: FieldElement>', '', 1), (r'\bF\b', 'Fe', '*')],
           sig='''
ensures
    r@.len() == 1,
    is_leader ==> cong(fe_v(r@[0]), fe_v(A_share) * fe_v(sketch[0]) + fe_v(B_share)),
    // the quadratic term is added by the helper only
    !is_leader ==> cong(fe_v(r@[0]), fe_v(A_share) * fe_v(sketch[0]) + fe_v(B_share)
                        + (fe_v(sketch[0]) * fe_v(sketch[0]) - fe_v(sketch[1]) - fe_v(sketch[2]))),
''', before=[('if !is_leader', '''
    lemma_c0(A_share); lemma_c0(B_share); lemma_c0(sketch[0]); lemma_c0(sketch[1]); lemma_c0(sketch[2]);
    lemma_mul_c(A_share, sketch[0], fe_v(A_share), fe_v(sketch[0]));
    let m = fe_mk(fe_v(A_share) * fe_v(sketch[0]));
    lemma_add_c(m, B_share, fe_v(A_share) * fe_v(sketch[0]), fe_v(B_share));
    let n0 = next_sketch_share;
    lemma_mul_c(sketch[0], sketch[0], fe_v(sketch[0]), fe_v(sketch[0]));
    let sq = fe_mk(fe_v(sketch[0]) * fe_v(sketch[0]));
    lemma_sub_c(sq, sketch[1], fe_v(sketch[0]) * fe_v(sketch[0]), fe_v(sketch[1]));
    let d1 = fe_mk(fe_v(sq) - fe_v(sketch[1]));
    lemma_sub_c(d1, sketch[2], fe_v(sketch[0]) * fe_v(sketch[0]) - fe_v(sketch[1]), fe_v(sketch[2]));
    let d2 = fe_mk(fe_v(d1) - fe_v(sketch[2]));
    lemma_add_c(n0, d2, fe_v(A_share) * fe_v(sketch[0]) + fe_v(B_share), fe_v(sketch[0]) * fe_v(sketch[0]) - fe_v(sketch[1]) - fe_v(sketch[2]));
''')])

    u.item(PF, ['fn next_message'], ret='r',
           rewrites=[(r'<F: FieldElement>', '', 1), (r'\bF::zero\(\)', 'fe_zero()', 1), (r'\bF\b', 'Fe', '*'),
                     (r'merge_vector\(&mut share_0, &share_1\)\?;', 'match merge_vector(&mut share_0, &share_1) { Ok(()) => {}, Err(e) => { return Err(vdaf_error_from(e)); } }', 1),   # `?` == match + From
                     (r'format!\((?:[^()]|\([^()]*\))*\)', 'fmt_opaque()', '*'), (r'"\.into\(\)', '".to_string()', '*')],
           sig='''
ensures
    share_0@.len() != share_1@.len() ==> r is Err,
    share_0@.len() == share_1@.len() && share_0@.len() != 1 && share_0@.len() != 3 ==> r is Err,
    // round two: a single element; accept iff the two shares sum to zero
    share_0@.len() == share_1@.len() && share_0@.len() == 1 ==>
        (r is Ok <==> cong(fe_v(share_0@[0]) + fe_v(share_1@[0]), 0)) && (r is Ok ==> r->Ok_0 is None),
    // round one: three elements; the message is the pointwise sum
    share_0@.len() == share_1@.len() && share_0@.len() == 3 ==> r is Ok && r->Ok_0 is Some
        && forall|i: int| 0 <= i < 3 ==> #[trigger] r->Ok_0->Some_0[i] == fe_mk(fe_v(share_0@[i]) + fe_v(share_1@[i])),
''', ghost_before=[('match merge_vector(', 'let ghost s00 = share_0@;')], before=[('if share_0.len() == 1', '''
    broadcast use axiom_fe_mk, axiom_fe_range;
    if share_0@.len() == 1 {
        lemma_cong_mod(fe_v(s00[0]) + fe_v(share_1@[0]));
        lemma_cong_refl(0);
        if fe_v(share_0@[0]) == 0 { lemma_cong_sym(0, fe_v(s00[0]) + fe_v(share_1@[0])); }
        else if cong(fe_v(s00[0]) + fe_v(share_1@[0]), 0) {
            lemma_cong_trans(fe_v(share_0@[0]), fe_v(s00[0]) + fe_v(share_1@[0]), 0);
            lemma_cong_eq(fe_v(share_0@[0]), 0);
        }
    }
''')])

    # ---- Poplar1::eval_and_sketch: one IDPF evaluation and one verification-randomness element per candidate prefix, any number of prefixes ----
    u.raw("""
// idpf.eval(.., prefix k, ..) converted to Poplar1IdpfValue<F>: the (data, authenticator) share pair of candidate prefix k, or an error  (C06)
pub uninterp spec fn idpf_share(k: int) -> Option<(Fe, Fe)>;
pub struct Poplar1IdpfValue(pub [Fe; 2]);
#[verifier::external_body]
fn idpf_eval_prefix(k: usize) -> (r: Result<[Fe; 2], VdafError>)
    ensures match idpf_share(k as int) { Some(p) => r is Ok && r->Ok_0[0] == p.0 && r->Ok_0[1] == p.1, None => r is Err }
{ unimplemented!() }
// self.init_prng(verify_key, DST_VERIFY_RANDOMNESS, ctx, [nonce, level]): the verification-randomness stream (its transcript: C18)
pub uninterp spec fn verify_r(k: int) -> Fe;
#[verifier::external_body]
fn init_verify_prng() -> (r: PrngFe) ensures r.pos() == 0, forall|k: int| #[trigger] r.at(k) == verify_r(k) { unimplemented!() }
// sum_{k<n} data_k * r_k,  sum data_k * r_k^2,  sum auth_k * r_k
pub open spec fn sk1(n: int) -> int decreases n { if n <= 0 { 0 } else { sk1(n - 1) + fe_v(idpf_share(n - 1)->Some_0.0) * fe_v(verify_r(n - 1)) } }
pub open spec fn sk2(n: int) -> int decreases n { if n <= 0 { 0 } else { sk2(n - 1) + (fe_v(idpf_share(n - 1)->Some_0.0) * fe_v(verify_r(n - 1))) * fe_v(verify_r(n - 1)) } }
pub open spec fn sk3(n: int) -> int decreases n { if n <= 0 { 0 } else { sk3(n - 1) + fe_v(idpf_share(n - 1)->Some_0.1) * fe_v(verify_r(n - 1)) } }
""", 'eval-and-sketch-shims')
    u.item(PF, [r'impl<P: Xof<SEED_SIZE>, const SEED_SIZE: usize> Poplar1<P, SEED_SIZE>\s*(?=\{)', 'fn eval_and_sketch'], ret='r', nth={0: 1}, attrs='#[verifier::loop_isolation(false)]',
           rewrites=[(r'fn eval_and_sketch<F>\(.*?\) -> Result<\(Vec<F>, Vec<F>\), VdafError>\s+where.*?\{\s*let mut verify_prng = self\.init_prng\(.*?\);',
                      'fn eval_and_sketch(num_prefixes: usize, corr_prng: &mut PrngFe) -> Result<(Vec<Fe>, Vec<Fe>), VdafError> { let mut verify_prng = init_verify_prng();', 1),
                     (r'let mut out_share = Vec::with_capacity\(agg_param\.prefixes\.len\(\)\);', 'let mut out_share: Vec<Fe> = Vec::with_capacity(num_prefixes);', 1),
                     (r'let mut idpf_eval_cache = RingBufferCache::new\(agg_param\.prefixes\.len\(\)\);', '', 1),
                     (r'let idpf = Idpf::<Poplar1IdpfValue<Field64>, Poplar1IdpfValue<Field255>>::new\(\(\), \(\)\);', '', 1),
                     (r'for prefix in agg_param\.prefixes\.iter\(\) \{', 'for k_ in 0..num_prefixes {', 1),      # E4c
                     (r'let share = Poplar1IdpfValue::<F>::from\(idpf\.eval\(.*?\)\?\);', 'let share = Poplar1IdpfValue(idpf_eval_prefix(k_)?);', 1)],
           sig="""
ensures
    // three correlated-randomness elements are consumed, whatever happens
    final(corr_prng).pos() == old(corr_prng).pos() + 3, forall|i: int| #[trigger] final(corr_prng).at(i) == old(corr_prng).at(i),
    r is Ok <==> forall|k: int| 0 <= k < num_prefixes ==> #[trigger] idpf_share(k) is Some,
    // one output element per candidate prefix, in order: the data share of that prefix
    r is Ok ==> r->Ok_0.0@.len() == num_prefixes && forall|k: int| 0 <= k < num_prefixes ==> #[trigger] r->Ok_0.0@[k] == idpf_share(k)->Some_0.0,
    // the sketch: (a + sum data_k r_k,  b + sum data_k r_k^2,  c + sum auth_k r_k) with ONE verification-randomness element per prefix, in order
    r is Ok ==> r->Ok_0.1@.len() == 3
        && cong(fe_v(r->Ok_0.1@[0]), fe_v(old(corr_prng).at(old(corr_prng).pos())) + sk1(num_prefixes as int))
        && cong(fe_v(r->Ok_0.1@[1]), fe_v(old(corr_prng).at(old(corr_prng).pos() + 1)) + sk2(num_prefixes as int))
        && cong(fe_v(r->Ok_0.1@[2]), fe_v(old(corr_prng).at(old(corr_prng).pos() + 2)) + sk3(num_prefixes as int)),
""", loops={0: """
invariant
    verify_prng.pos() == k_, forall|k: int| #[trigger] verify_prng.at(k) == verify_r(k),
    corr_prng.pos() == old(corr_prng).pos() + 3, forall|i: int| #[trigger] corr_prng.at(i) == old(corr_prng).at(i),
    out_share@.len() == k_, sketch_share@.len() == 3,
    forall|k: int| 0 <= k < k_ ==> #[trigger] idpf_share(k) is Some,
    forall|k: int| 0 <= k < k_ ==> #[trigger] out_share@[k] == idpf_share(k)->Some_0.0,
    cong(fe_v(sketch_share@[0]), fe_v(old(corr_prng).at(old(corr_prng).pos())) + sk1(k_ as int)),
    cong(fe_v(sketch_share@[1]), fe_v(old(corr_prng).at(old(corr_prng).pos() + 1)) + sk2(k_ as int)),
    cong(fe_v(sketch_share@[2]), fe_v(old(corr_prng).at(old(corr_prng).pos() + 2)) + sk3(k_ as int)),
"""}, before=[('for k_ in 0..num_prefixes', """
    lemma_c0(sketch_share@[0]); lemma_c0(sketch_share@[1]); lemma_c0(sketch_share@[2]);
"""), ('sketch_share[0] += checked_data_share', """
    let d = share.0[0]; let au = share.0[1];
    let (s0, s1, s2) = (sketch_share@[0], sketch_share@[1], sketch_share@[2]);
    let a0 = fe_v(old(corr_prng).at(old(corr_prng).pos())); let b0 = fe_v(old(corr_prng).at(old(corr_prng).pos() + 1)); let c0 = fe_v(old(corr_prng).at(old(corr_prng).pos() + 2));
    lemma_c0(d); lemma_c0(au); lemma_c0(r);
    lemma_mul_c(d, r, fe_v(d), fe_v(r));
    lemma_add_c(s0, checked_data_share, a0 + sk1(k_ as int), fe_v(d) * fe_v(r));
    lemma_mul_c(checked_data_share, r, fe_v(d) * fe_v(r), fe_v(r));
    lemma_add_c(s1, fe_mk(fe_v(checked_data_share) * fe_v(r)), b0 + sk2(k_ as int), (fe_v(d) * fe_v(r)) * fe_v(r));
    lemma_mul_c(au, r, fe_v(au), fe_v(r));
    lemma_add_c(s2, fe_mk(fe_v(au) * fe_v(r)), c0 + sk3(k_ as int), fe_v(au) * fe_v(r));
""")])
    return u
