"""C05/C16/C01 — FLP type constructors and length accessors under contract (Verus, unbounded).

`new` accepts exactly the documented domain and establishes well_formed(); under well_formed() every
`*_len` accessor computes without overflow and equals the expression Flp::prove/query build the proof
and verifier from: proof_len == sum over gadgets of arity + gadget_poly_len(degree, wire_poly_len(calls)),
verifier_len == eval_output compression (1) + sum of (arity + 1), prove_rand_len == sum of arities.
Gadget parameters (arity/degree/calls) are read off the extracted `gadget()` bodies (see comments)."""
from vunit import VUnit

T = 'src/flp/types.rs'
FLP = 'src/flp.rs'

PRELUDE = '''
use std::marker::PhantomData;
pub enum FlpError { Prove(String), Query(String), Decide(String), Gadget(String), Valid(String), Encode(String), Decode(String), Truncate(String), InvalidParameter(String) }

// usize::next_power_of_two [trusted: std semantics]: smallest power of two >= x; panics (debug) on overflow
pub open spec fn spec_npo2(x: int) -> int decreases x { if x <= 1 { 1 } else { 2 * spec_npo2((x + 1) / 2) } }
pub assume_specification [usize::next_power_of_two] (x: usize) -> (r: usize)
    requires spec_npo2(x as int) <= usize::MAX as int,
    ensures r as int == spec_npo2(x as int);
proof fn lemma_npo2_bounds(x: int)
    requires x >= 0
    ensures spec_npo2(x) >= x, spec_npo2(x) >= 1, x >= 1 ==> spec_npo2(x) < 2 * x
    decreases x
{
    if x > 1 { lemma_npo2_bounds((x + 1) / 2); }
}
// error-message construction is irrelevant to every contract here
#[verifier::external_body]
fn fmt_opaque() -> String { String::new() }
'''


def unit():
    u = VUnit('flp_lens', 'FLP type constructors and *_len accessors')
    u.oracle = {'inject': 'src/vdaf/prio2.rs', 'file': 'guards_oracle.rs', 'test': 'verif_oracle_guards::oracle_histogram'}
    u.raw(PRELUDE, 'prelude')
    u.item(FLP, ['fn wire_poly_len'], ret='r', sig='''
requires
    spec_npo2(1 + num_calls as int) <= usize::MAX as int,
    num_calls < usize::MAX,
ensures
    r as int == spec_npo2(1 + num_calls as int),
''')
    u.item(FLP, ['fn gadget_poly_len'], ret='r', sig='''
requires
    wire_poly_len >= 1,
    gadget_degree as int * (wire_poly_len as int - 1) + 1 <= usize::MAX as int,
ensures
    r as int == gadget_degree as int * (wire_poly_len as int - 1) + 1,
''', before=[('gadget_degree * (wire_poly_len - 1) + 1', '''
    assert(gadget_degree as int * (wire_poly_len as int - 1) >= 0) by (nonlinear_arith) requires gadget_degree >= 0, wire_poly_len >= 1;
''')])

    # ------------------------------------------------------------------ Histogram
    u.struct_item(T, ['pub struct Histogram'])
    u.raw('''
spec fn hist_wf<F, S>(h: Histogram<F, S>) -> bool {
    &&& 0 < h.length < u32::MAX as usize
    &&& 0 < h.chunk_length
    &&& h.gadget_calls as int == (h.length as int + h.chunk_length as int - 1) / (h.chunk_length as int)
    &&& h.gadget_calls >= 1
}
// the instance is usable: every length accessor computes (no overflow).  NOT implied by hist_wf alone:
// Histogram::new accepts any chunk_length up to usize::MAX (known finding F9).
spec fn hist_usable<F, S>(h: Histogram<F, S>) -> bool {
    hist_wf(h) && h.chunk_length as int * 2 + 2 * (spec_npo2(1 + h.gadget_calls as int) - 1) + 1 <= usize::MAX as int
}
''', 'hist-spec')
    IH = 'impl<F, S> Histogram<F, S>'
    u.item(T, ['impl<F: NttFriendlyFieldElement, S: ParallelSumGadget<F, Mul>> Histogram<F, S>', 'fn new'], ret='r', impl_header=IH,
           rewrites=[(r'\bpub fn\b', 'pub fn', '*')],
           sig='''
ensures
    (0 < length < u32::MAX as usize && 0 < chunk_length) <==> r is Ok,
    r is Ok ==> hist_wf(r->Ok_0) && r->Ok_0.length == length && r->Ok_0.chunk_length == chunk_length,
''', before=[('Ok(Self {', '''
    // ceil(length / chunk_length)
    let q = length as int / chunk_length as int;
    let m = length as int % chunk_length as int;
    lemma_fundamental_div_mod(length as int, chunk_length as int);
    let c = chunk_length as int;
    assert(c * (q + 1) == c * q + c) by (nonlinear_arith);
    assert(q >= 0) by (nonlinear_arith) requires length as int == c * q + m, 0 <= m < c, length >= 1, c > 0;
    assert(m == 0 ==> q >= 1) by (nonlinear_arith) requires length as int == c * q + m, length >= 1, c > 0, q >= 0;
    assert(q * c == c * q && (q + 1) * c == c * q + c) by (nonlinear_arith);
    assert(length as int == q * c + m);
    if m == 0 {
        lemma_fundamental_div_mod_converse(length as int + chunk_length as int - 1, chunk_length as int, q, chunk_length as int - 1);
    } else {
        lemma_fundamental_div_mod_converse(length as int + chunk_length as int - 1, chunk_length as int, q + 1, m - 1);
    }
''')])
    HF = ['impl<F, S> Flp for Histogram<F, S>']
    u.item(T, HF + ['fn input_len'], ret='r', impl_header=IH, sig='ensures\n r == self.length,')
    u.item(T, HF + ['fn proof_len'], ret='r', impl_header=IH, sig='''
requires
    hist_usable(*self),
ensures
    // arity = 2*chunk_length, degree = 2 (Mul), calls = gadget_calls  [ParallelSum<Mul>(chunk_length), see gadget()]
    r as int == 2 * self.chunk_length as int + (2 * (spec_npo2(1 + self.gadget_calls as int) - 1) + 1),
''', before=[('(self.chunk_length * 2)', 'lemma_npo2_bounds(1 + self.gadget_calls as int);')])
    u.item(T, HF + ['fn verifier_len'], ret='r', impl_header=IH, sig='''
requires
    hist_usable(*self),
ensures
    r as int == 1 + (2 * self.chunk_length as int + 1),
''', before=[('2 + self.chunk_length * 2', 'lemma_npo2_bounds(1 + self.gadget_calls as int);')])
    u.item(T, HF + ['fn joint_rand_len'], ret='r', impl_header=IH, sig='ensures\n r == self.gadget_calls,')
    u.item(T, HF + ['fn prove_rand_len'], ret='r', impl_header=IH, sig='''
requires
    hist_usable(*self),
ensures
    r as int == 2 * self.chunk_length as int,
''', before=[('self.chunk_length * 2', 'lemma_npo2_bounds(1 + self.gadget_calls as int);')])
    u.raw('''
// E3b: abstract field element (the encoder only moves the constants zero and one around)
#[derive(Clone, Copy)]
pub struct Fe(pub u64);
fn fe_zero() -> Fe { Fe(0) }
fn fe_one() -> Fe { Fe(1) }
''', 'abstract-field')
    u.item(T, ['impl<F, S> Type for Histogram<F, S>', 'fn encode_measurement'], ret='r', impl_header=IH,
           rewrites=[(r'\bF::zero\(\)', 'fe_zero()', 1), (r'\bF::one\(\)', 'fe_one()', 1), (r'Vec<F>', 'Vec<Fe>', 1),
                     (r'format!\((?:[^()]|\([^()]*\))*\)', 'fmt_opaque()', '*')],
           sig='''
requires
    hist_wf(*self),
ensures
    // an out-of-range bucket is an error, never a panic; an in-range one gives a vector of input_len() entries
    r is Ok <==> *measurement < self.length,
    r is Ok ==> r->Ok_0@.len() == self.length,
''')
    u.raw('''
// proof_len() is exactly what Flp::prove allocates: arity + gadget_poly_len(degree, wire_poly_len(calls))
fn hist_proof_len_matches_prove<F, S>(h: &Histogram<F, S>)
    requires hist_usable(*h), h.gadget_calls < usize::MAX
{
    proof { lemma_npo2_bounds(1 + h.gadget_calls as int); }
    let w = wire_poly_len(h.gadget_calls);
    let g = gadget_poly_len(2, w);
    let from_prove = h.chunk_length * 2 + g;      // arity + gadget_poly_len(degree, wire_poly_len(calls))
    let declared = h.proof_len();
    assert(declared == from_prove);
}
// vacuity witnesses: the preconditions are satisfiable and the constructor reaches Ok
fn hist_witness() {
    let r = Histogram::<u8, u8>::new(10, 3);
    assert(r is Ok);
    let e = Histogram::<u8, u8>::new(0, 3);
    assert(e is Err);
}
''', 'hist-lemmas')
    # ------------------------------------------------------------------ SumVec / MultihotCountVec / Sum (length accessors)
    STRW = [(r'<F: NttFriendlyFieldElement, S>', '<F, S>', '*'), (r'<F: NttFriendlyFieldElement>', '<F>', '*'),
            (r'where\s+F: FieldElementWithInteger,', '', '*'), (r'\bF::Integer\b', 'u128', '*')]
    L1F = 'src/flp/types/l1boundsum.rs'
    for (ty, imp, implhdr, calls_ok, TF) in (
            ('SumVec', 'impl<F, S> Flp for SumVec<F, S>', 'impl<F, S> SumVec<F, S>', 'sv', T),
            ('MultihotCountVec', 'impl<F, S> Flp for MultihotCountVec<F, S>', 'impl<F, S> MultihotCountVec<F, S>', 'mh', T),
            ('L1BoundSum', 'impl<F, S> Flp for L1BoundSum<F, S>', 'impl<F, S> L1BoundSum<F, S>', 'l1', L1F)):
        u.struct_item(TF, ['pub struct ' + ty], rewrites=STRW + [(r'pub\(super\) ', 'pub ', '*')])
        u.raw('''
// established by %(ty)s::new (constructor not under contract here: generic over F::Integer); usable = lengths compute
spec fn %(p)s_usable<F, S>(h: %(ty)s<F, S>) -> bool {
    &&& h.chunk_length > 0 && h.gadget_calls >= 1 && h.gadget_calls < usize::MAX
    &&& h.chunk_length as int * 2 + 2 * (spec_npo2(1 + h.gadget_calls as int) - 1) + 1 <= usize::MAX as int
}
''' % dict(ty=ty, p=calls_ok), ty + '-spec')
        u.item(TF, [imp, 'fn proof_len'], ret='r', impl_header=implhdr, name=None, sig='''
requires
    %(p)s_usable(*self),
ensures
    r as int == 2 * self.chunk_length as int + (2 * (spec_npo2(1 + self.gadget_calls as int) - 1) + 1),
''' % dict(p=calls_ok), before=[('(self.chunk_length * 2)', 'lemma_npo2_bounds(1 + self.gadget_calls as int);')])
        u.item(TF, [imp, 'fn verifier_len'], ret='r', impl_header=implhdr, sig='''
requires
    %(p)s_usable(*self),
ensures
    r as int == 1 + (2 * self.chunk_length as int + 1),
''' % dict(p=calls_ok), before=[('2 + self.chunk_length * 2', 'lemma_npo2_bounds(1 + self.gadget_calls as int);')])
        u.item(TF, [imp, 'fn joint_rand_len'], ret='r', impl_header=implhdr, sig='ensures\n r == self.gadget_calls,')
        u.raw('''
fn %(p)s_proof_len_matches_prove<F, S>(h: &%(ty)s<F, S>)
    requires %(p)s_usable(*h)
{
    proof { lemma_npo2_bounds(1 + h.gadget_calls as int); }
    let w = wire_poly_len(h.gadget_calls);
    let g = gadget_poly_len(2, w);
    let from_prove = h.chunk_length * 2 + g;
    let declared = h.proof_len();
    assert(declared == from_prove);
}
''' % dict(ty=ty, p=calls_ok), ty + '-lemma')
    # ------------------------------------------------------------------ Count (constants): Mul gadget, arity 2, degree 2, 1 call
    u.raw('pub struct Count<F> { phantom: PhantomData<F> }', 'count-struct')
    CI = 'impl<F> Count<F>'
    CF = ['impl<F: NttFriendlyFieldElement> Flp for Count<F>']
    u.item(T, CF + ['fn proof_len'], ret='r', impl_header=CI, sig='ensures\n r == 5,')
    u.item(T, CF + ['fn verifier_len'], ret='r', impl_header=CI, sig='ensures\n r == 4,')
    u.item(T, CF + ['fn prove_rand_len'], ret='r', impl_header=CI, sig='ensures\n r == 2,')
    u.item(T, CF + ['fn input_len'], ret='r', impl_header=CI, sig='ensures\n r == 1,')
    u.item(T, CF + ['fn joint_rand_len'], ret='r', impl_header=CI, sig='ensures\n r == 0,')
    u.raw('''
// Count: the declared constants are arity + gadget_poly_len(degree, wire_poly_len(calls)) = 2 + gadget_poly_len(2, wire_poly_len(1)) etc.
fn count_lens_match_prove<F>(c: &Count<F>) {
    proof { reveal_with_fuel(spec_npo2, 4); }
    let w = wire_poly_len(1);
    let g = gadget_poly_len(2, w);
    let (pl, vl, prl) = (c.proof_len(), c.verifier_len(), c.prove_rand_len());
    assert(pl == 2 + g);
    assert(vl == 1 + (2 + 1));
    assert(prl == 2);
}
''', 'count-lemma')
    u.struct_item(T, ['pub struct Sum'], rewrites=STRW + [(r'\blast_weight_field: F\b', 'last_weight_field: PhantomData<F>', 1), (r'Vec<F>', 'Vec<u128>', '*')])
    u.item(T, ['impl<F: NttFriendlyFieldElement> Flp for Sum<F>', 'fn proof_len'], ret='r', impl_header='impl<F> Sum<F>', sig='''
requires
    self.bits < usize::MAX,
    2 * (spec_npo2(1 + self.bits as int) - 1) + 2 <= usize::MAX as int,
ensures
    // PolyEval(range checker of degree 2, calls = bits): arity 1 + gadget_poly_len(2, wire_poly_len(bits))
    r as int == 1 + (2 * (spec_npo2(1 + self.bits as int) - 1) + 1),
''', before=[('2 * ((1 + self.bits)', 'lemma_npo2_bounds(1 + self.bits as int);')])
    return u


def unit_usable():
    """The obligation behind known finding F9: `new` returns only usable instances.  It FAILS on the
    current tree (chunk_length is unbounded); reported as KNOWN-FINDING, not as a violation."""
    u = VUnit('flp_usable', 'Histogram::new returns only instances whose length accessors compute')
    u.raw(PRELUDE, 'prelude')
    u.struct_item(T, ['pub struct Histogram'])
    u.raw('''
spec fn hist_usable<F, S>(h: Histogram<F, S>) -> bool {
    h.chunk_length as int * 2 + 2 * (spec_npo2(1 + h.gadget_calls as int) - 1) + 1 <= usize::MAX as int
}
''', 'spec')
    u.item(T, ['impl<F: NttFriendlyFieldElement, S: ParallelSumGadget<F, Mul>> Histogram<F, S>', 'fn new'], ret='r',
           impl_header='impl<F, S> Histogram<F, S>', sig='''
ensures
    r is Ok ==> hist_usable(r->Ok_0),
''')
    return u
