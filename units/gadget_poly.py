"""C05 — the gadgets of src/flp/gadgets.rs under contract (Verus): gadget polynomial construction.

  gadget_eval_check / gadget_eval_poly_check (instantiated for Mul): Ok exactly for the gadget's arity (non-zero), wire polynomials of
        one common length and an output buffer of next_power_of_two(degree*(len-1)+1) elements
  Mul::eval(inp) == inp[0] * inp[1] exactly for two inputs (Err otherwise)
  Mul::eval_poly(outp, inp): over the contract of poly_mul_lagrange (proved in unit ntt_value): outp[j] == P0(z^j) * P1(z^j) for every
        j < 2n - the Lagrange-basis values of the GADGET applied to the two wire polynomials, n any power of two in [2, 2^MAX_ROOTS)
  ParallelSum::eval / eval_poly over an ABSTRACT inner gadget (arity A, eval = g_eval(chunk), eval_poly = g_poly(chunk)):
        the field sum, chunk by chunk and in order, of the inner gadget on every chunk of A inputs / A wire polynomials, for ANY
        number of chunks - no chunk skipped, none counted twice

Rewrites beyond the listed ones: generic parameters instantiated (G = Mul resp. the abstract InnerG, P = Vec<F>); `inp.chunks(n)` ->
chunk shims (E4i); `for x in outp.iter_mut() { *x = F::zero(); }` -> index loop (E4c); `?` with From<NttError> -> match (E4d)."""
import os
import re

from fe_common import FE_PRELUDE
from vunit import VUnit, REPO

G = 'src/flp/gadgets.rs'
PRELUDE = '''
pub enum NttError { OutputTooSmall, SizeTooLarge, SizeInvalid }
pub enum FlpError { Gadget(String), Ntt(NttError), Other }
#[verifier::external_body]
fn fmt_opaque() -> String { String::new() }
pub const MAX_ROOTS: usize = %(MR)d;      // parsed from src/fp.rs on this run
pub open spec fn spec_npo2(x: int) -> int decreases x { if x <= 1 { 1 } else { 2 * spec_npo2((x + 1) / 2) } }
pub assume_specification [usize::next_power_of_two] (x: usize) -> (r: usize)
    requires spec_npo2(x as int) <= usize::MAX as int,
    ensures r as int == spec_npo2(x as int);
// flp::gadget_poly_len (src/flp.rs)
fn gadget_poly_len(gadget_degree: usize, wire_poly_len: usize) -> (r: usize)
    requires wire_poly_len >= 1, gadget_degree * (wire_poly_len - 1) + 1 <= usize::MAX
    ensures r == gadget_degree * (wire_poly_len - 1) + 1
{ gadget_degree * (wire_poly_len - 1) + 1 }
// ---- contract of polynomial::poly_mul_lagrange, proved in unit ntt_value (same run) -------------------------------------------------
pub uninterp spec fn wire_val(p: Seq<Fe>, j: int) -> int;     // value at z^j (z the principal 2n-th root) of the degree-<n interpolant of p
#[verifier::external_body]
fn poly_mul_lagrange(output: &mut Vec<Fe>, p: &Vec<Fe>, q: &Vec<Fe>) -> (r: Result<(), NttError>)
    requires exists|d: nat| 1 <= d < MAX_ROOTS && p@.len() == pow2(d), q@.len() == p@.len(), old(output)@.len() == 2 * p@.len(),
    ensures r is Ok, final(output)@.len() == old(output)@.len(),
            forall|j: int| 0 <= j < 2 * p@.len() ==> cong(fe_v(#[trigger] final(output)@[j]), wire_val(p@, j) * wire_val(q@, j)),
{ unimplemented!() }
'''

PSUM = '''
// ---- abstract inner gadget of ParallelSum ---------------------------------------------------------------------------------------------
pub uninterp spec fn g_arity() -> int;
pub uninterp spec fn g_degree() -> nat;
pub uninterp spec fn g_eval(chunk: Seq<Fe>) -> Option<Fe>;                      // inner.eval: Some = Ok
pub uninterp spec fn g_poly(chunk: Seq<Vec<Fe>>, len: int) -> Option<Seq<Fe>>;  // inner.eval_poly into a buffer of `len` elements
#[verifier::external_body]
proof fn axiom_g_degree() ensures g_degree() <= 0x100 {}      // gadget degrees are small constants (Mul: 2, PolyEval: deg of a fixed polynomial)
pub struct InnerG { pub x: u8 }
impl InnerG {
    #[verifier::external_body]
    fn arity(&self) -> (r: usize) ensures r == g_arity(), g_arity() >= 1 { unimplemented!() }
    #[verifier::external_body]
    fn degree(&self) -> (r: usize) ensures r == g_degree(), g_degree() <= 0x100 { unimplemented!() }
    #[verifier::external_body]
    fn eval(&mut self, inp: &Vec<Fe>) -> (r: Result<Fe, FlpError>) ensures match g_eval(inp@) { Some(v) => r == Ok::<Fe, FlpError>(v), None => r is Err } { unimplemented!() }
    #[verifier::external_body]
    fn eval_poly(&self, outp: &mut Vec<Fe>, inp: &Vec<Vec<Fe>>) -> (r: Result<(), FlpError>)
        ensures final(outp)@.len() == old(outp)@.len(),
                match g_poly(inp@, old(outp)@.len() as int) { Some(v) => r is Ok && final(outp)@ == v && v.len() == old(outp)@.len(), None => r is Err }
    { unimplemented!() }
}
pub struct ParallelSum { pub inner: InnerG, pub chunks: usize }
// chunks of a vector  [std semantics; chunks(0) panics]
#[verifier::external_body]
fn chunks_count(len: usize, n: usize) -> (r: usize) requires n > 0 ensures r as int == (len as int + n as int - 1) / (n as int) { unimplemented!() }
pub open spec fn chunk_of<T>(s: Seq<T>, n: int, k: int) -> Seq<T> { s.subrange(k * n, if (k + 1) * n <= s.len() { (k + 1) * n } else { s.len() as int }) }
#[verifier::external_body]
fn chunk_at(input: &Vec<Fe>, n: usize, k: usize) -> (r: Vec<Fe>) requires n > 0, (k as int) * (n as int) < input@.len() ensures r@ == chunk_of(input@, n as int, k as int) { unimplemented!() }
#[verifier::external_body]
fn chunk_at_polys(input: &Vec<Vec<Fe>>, n: usize, k: usize) -> (r: Vec<Vec<Fe>>) requires n > 0, (k as int) * (n as int) < input@.len() ensures r@ == chunk_of(input@, n as int, k as int) { unimplemented!() }
proof fn lemma_chunk_idx(len: int, n: int, k: int)
    requires n > 0, len >= 0, 0 <= k < (len + n - 1) / n
    ensures k * n < len
{
    lemma_fundamental_div_mod(len + n - 1, n);
    let q = (len + n - 1) / n;
    lemma_mod_bound(len + n - 1, n);
    assert(k * n < len) by (nonlinear_arith) requires len + n - 1 == n * q + (len + n - 1) % n, 0 <= (len + n - 1) % n < n, 0 <= k < q, n > 0;
}
// in-order field sum of the inner gadget over the first c chunks
pub open spec fn sum_eval(inp: Seq<Fe>, a: int, c: int) -> Fe decreases c
{ if c <= 0 { fe_mk(0) } else { fe_mk(fe_v(sum_eval(inp, a, c - 1)) + fe_v(g_eval(chunk_of(inp, a, c - 1))->Some_0)) } }
pub open spec fn all_eval_ok(inp: Seq<Fe>, a: int, c: int) -> bool { forall|k: int| 0 <= k < c ==> g_eval(#[trigger] chunk_of(inp, a, k)) is Some }
pub open spec fn sum_poly(inp: Seq<Vec<Fe>>, a: int, len: int, c: int, j: int) -> Fe decreases c
{ if c <= 0 { fe_mk(0) } else { fe_mk(fe_v(sum_poly(inp, a, len, c - 1, j)) + fe_v(g_poly(chunk_of(inp, a, c - 1), len)->Some_0[j])) } }
pub open spec fn all_poly_ok(inp: Seq<Vec<Fe>>, a: int, len: int, c: int) -> bool { forall|k: int| 0 <= k < c ==> g_poly(#[trigger] chunk_of(inp, a, k), len) is Some }
'''


def unit():
    fp = open(os.path.join(REPO, 'src/fp.rs')).read()
    mr = int(re.search(r'const MAX_ROOTS: usize = (\d+);', fp).group(1))
    u = VUnit('gadget_poly', 'Mul / ParallelSum gadgets: eval and eval_poly (gadget polynomial construction)')
    u.raw('global size_of usize == 8;\n' + FE_PRELUDE, 'abstract-field')
    u.raw(PRELUDE.replace('%(MR)d', str(mr)), 'prelude')
    u.struct_item(G, ['pub struct Mul'])
    MI = 'impl<F: NttFriendlyFieldElement> Gadget<F> for Mul'
    u.item(G, [MI, 'fn arity'], ret='r', impl_header='impl Mul', sig='ensures\n    r == 2,')
    u.item(G, [MI, 'fn degree'], ret='r', impl_header='impl Mul', sig='ensures\n    r == 2,')
    FM = (r'format!\((?:[^()]|\([^()]*\))*\)', 'fmt_opaque()', '*')
    u.item(G, ['fn gadget_eval_check'], ret='r', rewrites=[(r'<F: NttFriendlyFieldElement, G: Gadget<F>>', '', 1), (r'gadget: &G', 'gadget: &Mul', 1), FM],
           sig='ensures\n    r is Ok <==> in_len == 2,')
    u.item(G, ['fn gadget_eval_poly_check'], ret='r',
           rewrites=[(r'<F: NttFriendlyFieldElement, G: Gadget<F>, P: AsRef<\[F\]>>', '', 1), (r'gadget: &G', 'gadget: &Mul', 1), (r'outp: &\[F\]', 'outp: &Vec<Fe>', 1),
                     (r'inp: &\[P\]', 'inp: &Vec<Vec<Fe>>', 1), (r'\.as_ref\(\)', '', '*'), FM],
           sig='''
requires
    // derived: wire polynomials are never empty (wire_poly_len >= 1) and their gadget polynomial is allocatable
    forall|i: int| 0 <= i < inp@.len() ==> 1 <= (#[trigger] inp@[i])@.len() <= 0x1000_0000,
ensures
    r is Ok <==> (inp@.len() == 2 && inp@[1]@.len() == inp@[0]@.len() && outp@.len() == spec_npo2(2 * (inp@[0]@.len() - 1) + 1)),
''', loops={0: '''
invariant
    inp@.len() == 2, forall|k: int| 1 <= k < i ==> (#[trigger] inp@[k])@.len() == inp@[0]@.len(),
'''}, before=[('let expected', 'lemma_npo2_small(2 * (inp@[0]@.len() - 1) + 1);')])
    u.raw('''
proof fn lemma_npo2_small(x: int) requires x >= 0 ensures spec_npo2(x) >= x, spec_npo2(x) >= 1, x >= 1 ==> spec_npo2(x) < 2 * x decreases x
{ if x > 1 { lemma_npo2_small((x + 1) / 2); } }
// next_power_of_two(2n - 1) == 2n for a power of two n >= 1
proof fn lemma_npo2_double(d: nat) ensures spec_npo2(2 * pow2(d) - 1) == (if d == 0 { 1int } else { 2 * (pow2(d) as int) }) decreases d
{
    lemma2_to64();
    if d > 0 {
        lemma_pow2_unfold(d); lemma_pow2_pos((d - 1) as nat);
        lemma_npo2_double((d - 1) as nat);
        let n = pow2(d) as int; let h = pow2((d - 1) as nat) as int;
        assert((2 * n - 1 + 1) / 2 == n);
        // spec_npo2(n) for a power of two n: by the same recursion
        lemma_npo2_pow2(d);
    }
}
proof fn lemma_npo2_pow2(d: nat) ensures spec_npo2(pow2(d) as int) == pow2(d) decreases d
{
    lemma2_to64();
    if d > 0 { lemma_pow2_unfold(d); lemma_pow2_pos((d - 1) as nat); lemma_npo2_pow2((d - 1) as nat); assert((pow2(d) + 1) / 2 == pow2((d - 1) as nat)) by { assert(pow2(d) == 2 * pow2((d - 1) as nat)); } if d == 1 { assert(pow2(1) == 2); } }
}
''', 'npo2-lemmas')
    u.item(G, [MI, 'fn eval'], ret='r', impl_header='impl Mul', name='Mul_eval',
           rewrites=[(r'inp: &\[F\]', 'inp: &Vec<Fe>', 1), (r'Result<F, FlpError>', 'Result<Fe, FlpError>', 1), (r'gadget_eval_check::<F, _>\(', 'gadget_eval_check(', 1)],
           sig='''
ensures
    r is Ok <==> inp@.len() == 2,
    r is Ok ==> r->Ok_0 == fe_mk(fe_v(inp@[0]) * fe_v(inp@[1])),
''')
    u.item(G, [MI, 'fn eval_poly'], ret='r', impl_header='impl Mul', name='Mul_eval_poly',
           rewrites=[(r'outp: &mut \[F\]', 'outp: &mut Vec<Fe>', 1), (r'inp: &\[Vec<F>\]', 'inp: &Vec<Vec<Fe>>', 1),
                     (r'poly_mul_lagrange\(outp, &inp\[0\], &inp\[1\]\)\?;', 'match poly_mul_lagrange(outp, &inp[0], &inp[1]) { Ok(()) => {}, Err(e) => { return Err(FlpError::Ntt(e)); } };', 1)],   # E4d
           sig='''
requires
    // derived from Flp::prove / query: wire polynomials have wire_poly_len(calls) = a power of two >= 2 within the root table
    forall|i: int| 0 <= i < inp@.len() ==> exists|d: nat| 1 <= d < MAX_ROOTS && (#[trigger] inp@[i])@.len() == pow2(d),
ensures
    final(outp)@.len() == old(outp)@.len(),
    r is Ok <==> (inp@.len() == 2 && inp@[1]@.len() == inp@[0]@.len() && old(outp)@.len() == 2 * inp@[0]@.len()),
    // the gadget polynomial in the Lagrange basis: the gadget applied to the values of the two wire polynomials, point by point
    r is Ok ==> forall|j: int| 0 <= j < old(outp)@.len() ==> cong(fe_v(#[trigger] final(outp)@[j]), wire_val(inp@[0]@, j) * wire_val(inp@[1]@, j)),
''', before=[('gadget_eval_poly_check(self, outp, inp)?', '''
    lemma2_to64();
    assert forall|i: int| 0 <= i < inp@.len() implies 1 <= (#[trigger] inp@[i])@.len() <= 0x1000_0000 by {
        let d = choose|d: nat| 1 <= d < MAX_ROOTS && inp@[i]@.len() == pow2(d);
        lemma_pow2_pos(d); lemma_pow2_strictly_increases(d, 20);
    }
    if inp@.len() >= 1 {
        let d0 = choose|d: nat| 1 <= d < MAX_ROOTS && inp@[0]@.len() == pow2(d);
        lemma_npo2_double(d0);
    }
''')])
    u.raw(PSUM, 'parallel-sum')
    PI = "impl<F: NttFriendlyFieldElement, G: 'static + Gadget<F>> Gadget<F> for ParallelSum<F, G>"
    u.item(G, [PI, 'fn arity'], ret='r', impl_header='impl ParallelSum', name='ParallelSum_arity',
           sig='requires\n    self.chunks * g_arity() <= usize::MAX,\nensures\n    r == self.chunks * g_arity(),')
    u.item(G, ['fn gadget_eval_check'], ret='r', name='psum_gadget_eval_check', rewrites=[(r'<F: NttFriendlyFieldElement, G: Gadget<F>>', '', 1), (r'gadget: &G', 'gadget: &ParallelSum', 1),
                                                                                       (r'gadget\.arity\(\)', 'gadget.ParallelSum_arity()', '*'), FM],
           sig='requires\n    gadget.chunks * g_arity() <= usize::MAX,\nensures\n    r is Ok <==> (in_len == gadget.chunks * g_arity() && in_len != 0),')
    u.item(G, [PI, 'fn eval'], ret='r', impl_header='impl ParallelSum', name='ParallelSum_eval', attrs='#[verifier::loop_isolation(false)]',
           rewrites=[(r'inp: &\[F\]', 'inp: &Vec<Fe>', 1), (r'Result<F, FlpError>', 'Result<Fe, FlpError>', 1), (r'\bF::zero\(\)', 'fe_zero()', 1),
                     (r'gadget_eval_check\(', 'psum_gadget_eval_check(', 1),
                     (r'for chunk in inp\.chunks\(self\.inner\.arity\(\)\) \{', 'let nchunks_ = chunks_count(inp.len(), self.inner.arity()); for c_ in 0..nchunks_ { let chunk = &chunk_at(inp, self.inner.arity(), c_);', 1)],
           sig='''
requires
    old(self).chunks * g_arity() <= usize::MAX,
ensures
    // Ok exactly for chunks*arity inputs (non-zero) on which the inner gadget succeeds chunk by chunk
    r is Ok <==> (inp@.len() == old(self).chunks * g_arity() && inp@.len() != 0 && all_eval_ok(inp@, g_arity(), (inp@.len() + g_arity() - 1) / g_arity())),
    // ... and then the in-order field sum of the inner gadget over EVERY chunk
    r is Ok ==> r->Ok_0 == sum_eval(inp@, g_arity(), (inp@.len() + g_arity() - 1) / g_arity()),
''', loops={0: '''
invariant
    outp == sum_eval(inp@, g_arity(), c_ as int), all_eval_ok(inp@, g_arity(), c_ as int),
'''}, before=[('let nchunks_', 'broadcast use axiom_fe_range; axiom_fe_range(outp);'), ('let chunk = &chunk_at(', 'lemma_chunk_idx(inp@.len() as int, g_arity(), c_ as int);')])
    u.item(G, [PI, 'fn degree'], ret='r', impl_header='impl ParallelSum', name='ParallelSum_degree', sig='ensures\n    r == g_degree(),')
    u.item(G, ['fn gadget_eval_poly_check'], ret='r', name='psum_gadget_eval_poly_check',
           rewrites=[(r'<F: NttFriendlyFieldElement, G: Gadget<F>, P: AsRef<\[F\]>>', '', 1), (r'gadget: &G', 'gadget: &ParallelSum', 1), (r'outp: &\[F\]', 'outp: &Vec<Fe>', 1),
                     (r'inp: &\[P\]', 'inp: &Vec<Vec<Fe>>', 1), (r'\.as_ref\(\)', '', '*'), FM,
                     (r'gadget_eval_check\(', 'psum_gadget_eval_check(', 1), (r'gadget\.degree\(\)', 'gadget.ParallelSum_degree()', 1)],
           sig='''
requires
    gadget.chunks * g_arity() <= usize::MAX,
    forall|i: int| 0 <= i < inp@.len() ==> 1 <= (#[trigger] inp@[i])@.len() <= 0x10_0000,
ensures
    r is Ok <==> (inp@.len() == gadget.chunks * g_arity() && inp@.len() != 0 && (forall|k: int| 1 <= k < inp@.len() ==> (#[trigger] inp@[k])@.len() == inp@[0]@.len())
                  && outp@.len() == spec_npo2(g_degree() * (inp@[0]@.len() - 1) + 1)),
''', loops={0: '''
invariant
    inp@.len() >= 1, forall|k: int| 1 <= k < i ==> (#[trigger] inp@[k])@.len() == inp@[0]@.len(),
'''}, before=[('let expected', '''
    axiom_g_degree();
    assert(g_degree() * (inp@[0]@.len() - 1) + 1 <= 0x1000_0001) by (nonlinear_arith) requires g_degree() <= 0x100, 1 <= inp@[0]@.len() <= 0x10_0000;
    assert(g_degree() * (inp@[0]@.len() - 1) >= 0) by (nonlinear_arith) requires 0 <= g_degree(), 1 <= inp@[0]@.len();
    lemma_npo2_small(g_degree() * (inp@[0]@.len() - 1) + 1);
''')])
    u.item(G, [PI, 'fn eval_poly'], ret='r', impl_header='impl ParallelSum', name='ParallelSum_eval_poly', attrs='#[verifier::loop_isolation(false)]',
           rewrites=[(r'outp: &mut \[F\]', 'outp: &mut Vec<Fe>', 1), (r'inp: &\[Vec<F>\]', 'inp: &Vec<Vec<Fe>>', 1), (r'\bF::zero\(\)', 'fe_zero()', '*'),
                     (r'gadget_eval_poly_check\(', 'psum_gadget_eval_poly_check(', 1),
                     (r'for x in outp\.iter_mut\(\) \{\s*\*x = fe_zero\(\);\s*\}', 'for z_ in 0..outp.len() { outp[z_] = fe_zero(); }', 1),      # E4c
                     (r'for chunk in inp\.chunks\(self\.inner\.arity\(\)\) \{', 'let nchunks_ = chunks_count(inp.len(), self.inner.arity()); for c_ in 0..nchunks_ { let chunk = &chunk_at_polys(inp, self.inner.arity(), c_);', 1)],
           sig='''
requires
    self.chunks * g_arity() <= usize::MAX,
    forall|i: int| 0 <= i < inp@.len() ==> 1 <= (#[trigger] inp@[i])@.len() <= 0x10_0000,
ensures
    final(outp)@.len() == old(outp)@.len(),
    r is Ok <==> (inp@.len() == self.chunks * g_arity() && inp@.len() != 0 && (forall|k: int| 1 <= k < inp@.len() ==> (#[trigger] inp@[k])@.len() == inp@[0]@.len())
                  && old(outp)@.len() == spec_npo2(g_degree() * (inp@[0]@.len() - 1) + 1)
                  && all_poly_ok(inp@, g_arity(), old(outp)@.len() as int, (inp@.len() + g_arity() - 1) / g_arity())),
    // the gadget polynomial of the sum is the coefficient-wise (Lagrange value-wise) field sum of the inner gadget polynomials of EVERY chunk, in order
    r is Ok ==> forall|j: int| 0 <= j < old(outp)@.len() ==> #[trigger] final(outp)@[j] == sum_poly(inp@, g_arity(), old(outp)@.len() as int, (inp@.len() + g_arity() - 1) / g_arity(), j),
''', loops={0: '''
invariant
    outp@.len() == old(outp)@.len(), forall|j: int| 0 <= j < z_ ==> fe_v(#[trigger] outp@[j]) == 0,
''', 1: '''
invariant
    outp@.len() == old(outp)@.len(), partial_outp@.len() == outp@.len(),
    all_poly_ok(inp@, g_arity(), outp@.len() as int, c_ as int),
    forall|j: int| 0 <= j < outp@.len() ==> #[trigger] outp@[j] == sum_poly(inp@, g_arity(), outp@.len() as int, c_ as int, j),
''', 2: '''
invariant
    outp@.len() == old(outp)@.len(), partial_outp@.len() == outp@.len(),
    g_poly(chunk@, outp@.len() as int) == Some(partial_outp@),
    forall|j: int| 0 <= j < i ==> #[trigger] outp@[j] == sum_poly(inp@, g_arity(), outp@.len() as int, c_ + 1, j),
    forall|j: int| i <= j < outp@.len() ==> #[trigger] outp@[j] == sum_poly(inp@, g_arity(), outp@.len() as int, c_ as int, j),
'''}, before=[('let nchunks_', '''
    broadcast use axiom_fe_range;
    assert forall|j: int| 0 <= j < outp@.len() implies #[trigger] outp@[j] == sum_poly(inp@, g_arity(), outp@.len() as int, 0, j) by { axiom_fe_range(outp@[j]); }
'''), ('let chunk = &chunk_at_polys(', 'lemma_chunk_idx(inp@.len() as int, g_arity(), c_ as int);')])
    return u
