"""C13 — field::merge_vector / add_assign_vector / sub_assign_vector under contract for vectors of ANY length
(Verus, abstract field): a length mismatch gives Err(InputSizeMismatch) and leaves the accumulator UNCHANGED (frame),
otherwise every element becomes the field sum.  This replaces the bounded (len <= 3) Kani stand-in for these functions.

Extraction rewrites beyond E3b/E3c (listed in the evidence diff):
  E4c'  `for (x, y) in a.iter_mut().zip(b) { *x OP= y; .. }`  ->  index loop up to the SHORTER of the two lengths
        (the definition of zip), with `*x` -> `a[i_]`, `y` -> `b[i_]`
  the iterator argument `impl IntoIterator<Item = F>` is a borrowed vector (`other_vector.iter().copied()` at the call site)
  assert_eq!(a, b) -> assert!(a == b) (same panic condition; Verus treats the panic branch as an obligation)."""
from fe_common import FE_PRELUDE
from vunit import VUnit

F = 'src/field.rs'
PRELUDE = '''
#[derive(PartialEq, Eq)]
pub enum FieldError { InputSizeMismatch, ShortRead, ModulusOverflow }
'''

ZIP = (r'for \(x, y\) in a\.iter_mut\(\)\.zip\(b\) \{\s*\*x (\+=|-=) y;',
       r'let n_ = if a.len() <= b.len() { a.len() } else { b.len() }; for i_ in 0..n_ { a[i_] \1 b[i_];', 1)
GEN = [(r'assert_eq!\(a\.len\(\), count\);', 'assert!(a.len() == count);', 1), (r'<F: FieldElement>', '', 1), (r'a: &mut \[F\]', 'a: &mut Vec<Fe>', 1), (r'b: impl IntoIterator<Item = F>', 'b: &Vec<Fe>', 1), ZIP]


def unit():
    u = VUnit('field_vec', 'merge_vector / add_assign_vector / sub_assign_vector for any length (abstract field)')
    u.paired_kani = {'merge_vector': ['merge_vector_contract64']}
    u.raw('global size_of usize == 8;\n' + FE_PRELUDE, 'abstract-field')
    u.raw(PRELUDE, 'prelude')
    for name, op in (('add_assign_vector', '+'), ('sub_assign_vector', '-')):
        u.item(F, ['fn ' + name], rewrites=GEN, sig='''
requires
    // derived: a SHORTER right-hand side trips the assert_eq!(a.len(), count) panic; call sites pass equal lengths
    b@.len() >= old(a)@.len(),
ensures
    final(a)@.len() == old(a)@.len(),
    forall|i: int| 0 <= i < old(a)@.len() ==> #[trigger] final(a)@[i] == fe_mk(fe_v(old(a)@[i]) %s fe_v(b@[i])),
''' % op, loops={0: '''
invariant
    n_ == old(a)@.len(),
    a@.len() == old(a)@.len(),
    b@.len() >= a@.len(),
    count == i_,
    forall|i: int| 0 <= i < i_ ==> #[trigger] a@[i] == fe_mk(fe_v(old(a)@[i]) %s fe_v(b@[i])),
    forall|i: int| i_ <= i < a@.len() ==> #[trigger] a@[i] == old(a)@[i],
''' % op})
    u.item(F, ['fn merge_vector'], ret='r',
           rewrites=[(r'<F: FieldElement>', '', 1), (r'accumulator: &mut \[F\]', 'accumulator: &mut Vec<Fe>', 1), (r'other_vector: &\[F\]', 'other_vector: &Vec<Fe>', 1),
                     (r'other_vector\.iter\(\)\.copied\(\)', 'other_vector', 1)],
           sig='''
ensures
    final(accumulator)@.len() == old(accumulator)@.len(),
    // mismatch: an error, and the accumulator is left exactly as it was
    old(accumulator)@.len() != other_vector@.len() ==> r == Err::<(), FieldError>(FieldError::InputSizeMismatch) && final(accumulator)@ == old(accumulator)@,
    // otherwise: the pointwise field sum
    old(accumulator)@.len() == other_vector@.len() ==> r is Ok
        && forall|i: int| 0 <= i < other_vector@.len() ==> #[trigger] final(accumulator)@[i] == fe_mk(fe_v(old(accumulator)@[i]) + fe_v(other_vector@[i])),
''')
    u.raw('''
fn witness(a: &mut Vec<Fe>, b: &Vec<Fe>) requires old(a)@.len() == 3, b@.len() == 3 {
    let r = merge_vector(a, b);
    assert(r is Ok);
}
''', 'witness')
    return u
