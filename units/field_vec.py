"""C13 — field::merge_vector / add_assign_vector / sub_assign_vector under contract for vectors of ANY length
(Verus, abstract field): a length mismatch gives Err(InputSizeMismatch) and leaves the accumulator UNCHANGED (frame),
otherwise every element becomes the field sum.  This replaces the bounded (len <= 3) Kani stand-in for these functions.

Extraction rewrites beyond E3b/E3c (listed in the evidence diff):
  E4c'  `for (x, y) in a.iter_mut().zip(b) { *x OP= y; .. }`  ->  index loop up to the SHORTER of the two lengths
        (the definition of zip), with `*x` -> `a[i_]`, `y` -> `b[i_]`
  the iterator argument `impl IntoIterator<Item = F>` is a borrowed vector (`other_vector.iter().copied()` at the call site)
  assert_eq!(a, b) -> assert!(a == b) (same panic condition; Verus treats the panic branch as an obligation)."""
from fe_common import FE_PRELUDE
from vunit import VUnit

F = 'src/field.rs'
PRELUDE = '''
#[derive(PartialEq, Eq)]
pub enum FieldError { InputSizeMismatch, ShortRead, ModulusOverflow }
impl Clone for FieldError { #[verifier::external_body] fn clone(&self) -> Self { unimplemented!() } }
'''

ZIP = (r'for \(x, y\) in a\.iter_mut\(\)\.zip\(b\) \{\s*\*x (\+=|-=) y;',
       r'let n_ = if a.len() <= b.len() { a.len() } else { b.len() }; for i_ in 0..n_ { a[i_] \1 b[i_];', 1)
GEN = [(r'assert_eq!\(a\.len\(\), count\);', 'assert!(a.len() == count);', 1), (r'<F: FieldElement>', '', 1), (r'a: &mut \[F\]', 'a: &mut Vec<Fe>', 1), (r'b: impl IntoIterator<Item = F>', 'b: &Vec<Fe>', 1), ZIP]


def unit():
    u = VUnit('field_vec', 'merge_vector / add_assign_vector / sub_assign_vector for any length (abstract field)')
    u.oracle = {'inject': 'src/vdaf/prio3.rs', 'file': 'agg_oracle.rs', 'test': 'verif_oracle_agg::oracle_aggregate'}
    u.paired_kani = {'merge_vector': ['merge_vector_contract64']}
    u.raw('global size_of usize == 8;\n' + FE_PRELUDE, 'abstract-field')
    u.raw(PRELUDE, 'prelude')
    for name, op in (('add_assign_vector', '+'), ('sub_assign_vector', '-')):
        u.item(F, ['fn ' + name], rewrites=GEN, sig='''
requires
    // derived: a SHORTER right-hand side trips the assert_eq!(a.len(), count) panic; call sites pass equal lengths
    b@.len() >= old(a)@.len(),
ensures
    final(a)@.len() == old(a)@.len(),
    forall|i: int| 0 <= i < old(a)@.len() ==> #[trigger] final(a)@[i] == fe_mk(fe_v(old(a)@[i]) %s fe_v(b@[i])),
''' % op, loops={0: '''
invariant
    n_ == old(a)@.len(),
    a@.len() == old(a)@.len(),
    b@.len() >= a@.len(),
    count == i_,
    forall|i: int| 0 <= i < i_ ==> #[trigger] a@[i] == fe_mk(fe_v(old(a)@[i]) %s fe_v(b@[i])),
    forall|i: int| i_ <= i < a@.len() ==> #[trigger] a@[i] == old(a)@[i],
''' % op})
    u.item(F, ['fn merge_vector'], ret='r',
           rewrites=[(r'<F: FieldElement>', '', 1), (r'accumulator: &mut \[F\]', 'accumulator: &mut Vec<Fe>', 1), (r'other_vector: &\[F\]', 'other_vector: &Vec<Fe>', 1),
                     (r'other_vector\.iter\(\)\.copied\(\)', 'other_vector', 1)],
           sig='''
ensures
    final(accumulator)@.len() == old(accumulator)@.len(),
    // mismatch: an error, and the accumulator is left exactly as it was
    old(accumulator)@.len() != other_vector@.len() ==> r == Err::<(), FieldError>(FieldError::InputSizeMismatch) && final(accumulator)@ == old(accumulator)@,
    // otherwise: the pointwise field sum
    old(accumulator)@.len() == other_vector@.len() ==> r is Ok
        && forall|i: int| 0 <= i < other_vector@.len() ==> #[trigger] final(accumulator)@[i] == fe_mk(fe_v(old(accumulator)@[i]) + fe_v(other_vector@[i])),
''')
    # ---- AggregateShare<F>: sum / merge / accumulate (src/vdaf.rs) forward to merge_vector
    u.raw('''
pub enum VdafError { Uncategorized(String), Field(FieldError) }
fn vdaf_error_from(e: FieldError) -> (r: VdafError) ensures r == VdafError::Field(e) { VdafError::Field(e) }
pub struct AggregateShare(pub Vec<Fe>);
pub struct OutputShare(pub Vec<Fe>);
pub open spec fn sum_post(old_acc: Seq<Fe>, other: Seq<Fe>, new_acc: Seq<Fe>, r: Result<(), VdafError>) -> bool {
    &&& new_acc.len() == old_acc.len()
    &&& old_acc.len() != other.len() ==> r is Err && new_acc == old_acc
    &&& old_acc.len() == other.len() ==> r is Ok && forall|i: int| 0 <= i < other.len() ==> #[trigger] new_acc[i] == fe_mk(fe_v(old_acc[i]) + fe_v(other[i]))
}
''', 'aggshare')
    V = 'src/vdaf.rs'
    AW = [(r'<F: FieldElement>', '', '*'), (r'other: &\[F\]', 'other: &Vec<Fe>', '*'),
          (r'merge_vector\(&mut self\.0, other\)\.map_err\(Into::into\)', 'match merge_vector(&mut self.0, other) { Ok(()) => Ok(()), Err(e) => Err(vdaf_error_from(e)) }', '*'),   # map_err(Into::into) == match + From
          (r'agg_share\.as_ref\(\)', '&agg_share.0', '*'), (r'output_share\.as_ref\(\)', '&output_share.0', '*'),
          (r'&Self::OutputShare', '&OutputShare', '*'), (r'agg_share: &Self\b', 'agg_share: &AggregateShare', '*')]
    u.item(V, ['impl<F: FieldElement> AggregateShare<F>', 'fn sum'], ret='r', impl_header='impl AggregateShare', rewrites=AW,
           sig='ensures\n sum_post(old(self).0@, other@, final(self).0@, r),')
    u.item(V, ['impl<F: FieldElement> Aggregatable for AggregateShare<F>', 'fn merge'], ret='r', impl_header='impl AggregateShare', rewrites=AW,
           sig='ensures\n sum_post(old(self).0@, agg_share.0@, final(self).0@, r),')
    u.item(V, ['impl<F: FieldElement> Aggregatable for AggregateShare<F>', 'fn accumulate'], ret='r', impl_header='impl AggregateShare', rewrites=AW,
           sig='ensures\n sum_post(old(self).0@, output_share.0@, final(self).0@, r),')
    # ---- Poplar1FieldVec::{merge, accumulate} (src/vdaf/poplar1.rs): Inner/Leaf must agree, then merge_vector
    u.raw('''
// Inner is Vec<Field64>, Leaf is Vec<Field255> in the source: both are instances of the abstract field here
pub enum Poplar1FieldVec { Inner(Vec<Fe>), Leaf(Vec<Fe>) }
pub open spec fn fv_seq(v: Poplar1FieldVec) -> Seq<Fe> { match v { Poplar1FieldVec::Inner(a) => a@, Poplar1FieldVec::Leaf(a) => a@ } }
pub open spec fn fv_same_kind(a: Poplar1FieldVec, b: Poplar1FieldVec) -> bool { (a is Inner) == (b is Inner) }
pub open spec fn fv_post(old_s: Poplar1FieldVec, other: Poplar1FieldVec, new_s: Poplar1FieldVec, r: Result<(), VdafError>) -> bool {
    &&& fv_same_kind(old_s, new_s)
    // a leaf share is never merged into an inner accumulator (or vice versa): error, accumulator unchanged
    &&& !fv_same_kind(old_s, other) ==> r is Err && fv_seq(new_s) == fv_seq(old_s)
    &&& fv_same_kind(old_s, other) ==> sum_post(fv_seq(old_s), fv_seq(other), fv_seq(new_s), r)
}
''', 'fieldvec')
    PFV = 'src/vdaf/poplar1.rs'
    for fn_, other in (('merge', 'agg_share'), ('accumulate', 'output_share')):
        u.item(PFV, ['impl Aggregatable for Poplar1FieldVec', 'fn ' + fn_], ret='r', impl_header='impl Poplar1FieldVec',
               rewrites=[(r'Ok\(merge_vector\(left, right\)\?\)', 'match merge_vector(left, right) { Ok(()) => Ok(()), Err(e) => Err(vdaf_error_from(e)) }', 2),   # Ok(x?) == match + From
                         (r'"\.into\(\)', '".to_string()', '*'), (r'%s: &Self\b' % other, '%s: &Poplar1FieldVec' % other, 1), (r'\bSelf::', 'Poplar1FieldVec::', '*')],
               sig='ensures\n fv_post(*old(self), *%s, *final(self), r),' % other)
    # ---- Aggregator::aggregate (provided method): fold of accumulate from aggregate_init
    u.raw('''
pub struct AnyVdaf { _p: u8 }
impl AnyVdaf {
    // aggregate_init of the implementing VDAF: any vector (its length is the VDAF's output length)
    pub uninterp spec fn init_spec(&self) -> Seq<Fe>;
    #[verifier::external_body]
    fn aggregate_init(&self, agg_param: &()) -> (r: AggregateShare) ensures r.0@ == self.init_spec() { unimplemented!() }
}
// element i of the accumulator after the first k output shares
pub open spec fn acc_at(init: Seq<Fe>, shares: Seq<OutputShare>, i: int, k: int) -> Fe decreases k
{ if k <= 0 { init[i] } else { fe_mk(fe_v(acc_at(init, shares, i, k - 1)) + fe_v(shares[k - 1].0@[i])) } }
''', 'aggregate-spec')
    u.item(V, ['pub trait Aggregator', 'fn aggregate'], ret='r', impl_header='impl AnyVdaf',
           rewrites=[(r'<M: IntoIterator<Item = Self::OutputShare>>', '', 1), (r'agg_param: &Self::AggregationParam', 'agg_param: &()', 1),
                     (r'output_shares: M', 'output_shares: &Vec<OutputShare>', 1), (r'Result<Self::AggregateShare, VdafError>', 'Result<AggregateShare, VdafError>', 1),
                     # E4c'': iterating a sequence by value == index loop over it
                     (r'for output_share in output_shares \{', 'for k_ in 0..output_shares.len() { let output_share = &output_shares[k_];', 1),
                     (r'share\.accumulate\(&output_share\)\?;', 'match share.accumulate(output_share) { Ok(()) => {}, Err(e) => { return Err(e); } }', 1)],
           sig='''
ensures
    // Ok exactly when every output share has the length of the initial aggregate share ...
    r is Ok ==> forall|k: int| 0 <= k < output_shares@.len() ==> #[trigger] output_shares@[k].0@.len() == r->Ok_0.0@.len(),
    // ... and then element i is the fold (in order) of the i-th elements over aggregate_init
    r is Ok ==> r->Ok_0.0@.len() == self.init_spec().len() && forall|i: int| 0 <= i < self.init_spec().len() ==> #[trigger] r->Ok_0.0@[i] == acc_at(self.init_spec(), output_shares@, i, output_shares@.len() as int),
    // any share of another length makes the whole aggregation fail
    (exists|k: int| 0 <= k < output_shares@.len() && #[trigger] output_shares@[k].0@.len() != self.init_spec().len()) ==> r is Err,
''',
           ghost_before=[('for k_ in 0..', 'let ghost init0 = share.0@;')],
           loops={0: '''
invariant
    share.0@.len() == init0.len(),
    init0 == self.init_spec(),
    forall|k: int| 0 <= k < k_ ==> #[trigger] output_shares@[k].0@.len() == init0.len(),
    forall|i: int| 0 <= i < init0.len() ==> #[trigger] share.0@[i] == acc_at(init0, output_shares@, i, k_ as int),
'''})
    # ---- Prio3 Collector::unshard: fold of merge over an all-zero vector of output_len, then the type's decode_result
    u.raw('''
pub struct Prio3Any { _p: u8 }
impl Prio3Any {
    pub uninterp spec fn out_len(&self) -> int;
    #[verifier::external_body]
    fn typ_output_len(&self) -> (r: usize) ensures r as int == self.out_len() { unimplemented!() }
    // decode_result of the circuit type: any function of the summed vector and the report count (its own contract: C01)
    pub uninterp spec fn decoded(&self, agg: Seq<Fe>, n: usize) -> Result<u64, VdafError>;
    #[verifier::external_body]
    fn typ_decode_result(&self, agg: &Vec<Fe>, n: usize) -> (r: Result<u64, VdafError>) ensures r == self.decoded(agg@, n) { unimplemented!() }
}
pub open spec fn zeros(n: int) -> Seq<Fe> { Seq::new(n as nat, |i: int| fe_mk(0)) }
pub open spec fn agg_at(init: Seq<Fe>, shares: Seq<AggregateShare>, i: int, k: int) -> Fe decreases k
{ if k <= 0 { init[i] } else { fe_mk(fe_v(agg_at(init, shares, i, k - 1)) + fe_v(shares[k - 1].0@[i])) } }
''', 'unshard-spec')
    u.item('src/vdaf/prio3.rs', ['impl<T, P, const SEED_SIZE: usize> Collector for Prio3<T, P, SEED_SIZE>', 'fn unshard'], ret='r', impl_header='impl Prio3Any',
           rewrites=[(r'<It: IntoIterator<Item = AggregateShare<T::Field>>>', '', 1), (r'_agg_param: &Self::AggregationParam', '_agg_param: &()', 1),
                     (r'agg_shares: It', 'agg_shares: &Vec<AggregateShare>', 1), (r'Result<T::AggregateResult, VdafError>', 'Result<u64, VdafError>', 1),
                     (r'T::Field::zero\(\)', 'fe_zero()', 1), (r'self\.typ\.output_len\(\)', 'self.typ_output_len()', 1),
                     (r'for agg_share in agg_shares\.into_iter\(\) \{', 'for k_ in 0..agg_shares.len() { let agg_share = &agg_shares[k_];', 1),
                     (r'agg\.merge\(&agg_share\)\?;', 'match agg.merge(agg_share) { Ok(()) => {}, Err(e) => { return Err(e); } };', 1),
                     (r'Ok\(self\.typ\.decode_result\(&agg\.0, num_measurements\)\?\)', 'self.typ_decode_result(&agg.0, num_measurements)', 1)],
           sig='''
ensures
    // an aggregate share of another length makes unsharding fail
    (exists|k: int| 0 <= k < agg_shares@.len() && #[trigger] agg_shares@[k].0@.len() != self.out_len()) ==> r is Err,
    // otherwise the result is decode_result of the in-order fold (element-wise field sums) over the all-zero vector
    (forall|k: int| 0 <= k < agg_shares@.len() ==> #[trigger] agg_shares@[k].0@.len() == self.out_len()) ==>
        exists|agg: Seq<Fe>| agg.len() == self.out_len() && r == self.decoded(agg, num_measurements)
            && forall|i: int| 0 <= i < agg.len() ==> #[trigger] agg[i] == agg_at(zeros(self.out_len()), agg_shares@, i, agg_shares@.len() as int),
''',
           ghost_before=[('for k_ in 0..', 'let ghost init0 = agg.0@;')],
           before=[('self.typ_decode_result(&agg.0, num_measurements)', '''
    assert forall|i: int| 0 <= i < init0.len() implies #[trigger] init0[i] == fe_mk(0) by { axiom_fe_range(init0[i]); }
    assert(init0 =~= zeros(self.out_len()));
''')],
           loops={0: '''
invariant
    agg.0@.len() == self.out_len(),
    init0.len() == self.out_len(),
    forall|i: int| 0 <= i < init0.len() ==> fe_v(#[trigger] init0[i]) == 0,
    forall|k: int| 0 <= k < k_ ==> #[trigger] agg_shares@[k].0@.len() == self.out_len(),
    forall|i: int| 0 <= i < init0.len() ==> #[trigger] agg.0@[i] == agg_at(init0, agg_shares@, i, k_ as int),
'''})
    u.raw('''
fn witness(a: &mut Vec<Fe>, b: &Vec<Fe>) requires old(a)@.len() == 3, b@.len() == 3 {
    let r = merge_vector(a, b);
    assert(r is Ok);
}
''', 'witness')
    return u
