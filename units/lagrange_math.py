"""(scratch, unregistered) product identity for the Lagrange basis at the roots of unity:
   prod_{m<n, m != k} (w^m - x)  ==  - sum_{i<n} x^i * (w^-k)^(i+1)      for n = 2^d >= 2, every k < n and EVERY x (no division)."""
import os
import re

from fe_common import FE_PRELUDE
from vunit import VUnit, REPO

MATH = '''
pub const MAX_ROOTS: usize = %(MR)d;
pub uninterp spec fn rootv(l: int) -> int;
#[verifier::external_body]
proof fn axiom_roots(l: int)
    requires 1 <= l <= MAX_ROOTS
    ensures cong(rootv(l) * rootv(l), rootv(l - 1)), cong(pow(rootv(l), pow2((l - 1) as nat)), -1), cong(rootv(0), 1)
{}
proof fn lemma_cong_pow(a: int, b: int, k: nat)
    requires cong(a, b)
    ensures cong(pow(a, k), pow(b, k))
    decreases k
{
    reveal(pow);
    if k == 0 { lemma_cong_refl(1); } else { lemma_cong_pow(a, b, (k - 1) as nat); lemma_cong_mul(a, b, pow(a, (k - 1) as nat), pow(b, (k - 1) as nat)); }
}
// ---- products over an index range with one index left out ---------------------------------------------------------------------------------
pub open spec fn gprod(f: spec_fn(int) -> int, n: int, k: int) -> int decreases n
{ if n <= 0 { 1 } else { gprod(f, n - 1, k) * (if n - 1 == k { 1 } else { f(n - 1) }) } }
// leaving out an index outside the range leaves out nothing
proof fn lemma_gprod_out(f: spec_fn(int) -> int, n: int, k: int, k2: int)
    requires k < 0 || k >= n, k2 < 0 || k2 >= n
    ensures gprod(f, n, k) == gprod(f, n, k2)
    decreases n
{ if n > 0 { lemma_gprod_out(f, n - 1, k, k2); } }
// (P3) the full product is the product without k, times f(k)
proof fn lemma_gprod_pull(f: spec_fn(int) -> int, n: int, k: int)
    requires 0 <= k < n
    ensures gprod(f, n, -1) == gprod(f, n, k) * f(k)
    decreases n
{
    if n - 1 == k {
        lemma_gprod_out(f, n - 1, -1, k);
        assert(gprod(f, n, k) == gprod(f, n - 1, k) * 1);
    } else {
        lemma_gprod_pull(f, n - 1, k);
        assert((gprod(f, n - 1, k) * f(k)) * f(n - 1) == (gprod(f, n - 1, k) * f(n - 1)) * f(k)) by (nonlinear_arith);
    }
}
// (P4) contiguous split
proof fn lemma_gprod_split(f: spec_fn(int) -> int, a: int, b: int, k: int)
    requires a >= 0, b >= 0
    ensures gprod(f, a + b, k) == gprod(f, a, k) * gprod(|m: int| f(m + a), b, k - a)
    decreases b
{
    let g = |m: int| f(m + a);
    if b == 0 { assert(gprod(g, 0, k - a) == 1); assert(gprod(f, a, k) * 1 == gprod(f, a, k)); } else {
        lemma_gprod_split(f, a, b - 1, k);
        let t = if a + b - 1 == k { 1 } else { f(a + b - 1) };
        assert(g(b - 1) == f(a + b - 1));
        assert(gprod(g, b, k - a) == gprod(g, b - 1, k - a) * t);
        assert((gprod(f, a, k) * gprod(g, b - 1, k - a)) * t == gprod(f, a, k) * (gprod(g, b - 1, k - a) * t)) by (nonlinear_arith);
    }
}
// (P2) termwise product
proof fn lemma_gprod_mul(f: spec_fn(int) -> int, g: spec_fn(int) -> int, n: int, k: int)
    ensures gprod(f, n, k) * gprod(g, n, k) == gprod(|m: int| f(m) * g(m), n, k)
    decreases n
{
    let h = |m: int| f(m) * g(m);
    if n <= 0 { assert(1 * 1 == 1); } else {
        lemma_gprod_mul(f, g, n - 1, k);
        if n - 1 == k { assert((gprod(f, n - 1, k) * 1) * (gprod(g, n - 1, k) * 1) == gprod(f, n - 1, k) * gprod(g, n - 1, k)) by (nonlinear_arith); }
        else {
            assert(h(n - 1) == f(n - 1) * g(n - 1));
            assert((gprod(f, n - 1, k) * f(n - 1)) * (gprod(g, n - 1, k) * g(n - 1)) == (gprod(f, n - 1, k) * gprod(g, n - 1, k)) * (f(n - 1) * g(n - 1))) by (nonlinear_arith);
        }
    }
}
// (P5) congruent factors give congruent products
proof fn lemma_gprod_cong(f: spec_fn(int) -> int, g: spec_fn(int) -> int, n: int, k: int)
    requires forall|m: int| 0 <= m < n ==> cong(#[trigger] f(m), g(m))
    ensures cong(gprod(f, n, k), gprod(g, n, k))
    decreases n
{
    if n <= 0 { lemma_cong_refl(1); } else {
        lemma_gprod_cong(f, g, n - 1, k);
        if n - 1 == k { lemma_cong_refl(1); lemma_cong_mul(gprod(f, n - 1, k), gprod(g, n - 1, k), 1, 1); }
        else { lemma_cong_mul(gprod(f, n - 1, k), gprod(g, n - 1, k), f(n - 1), g(n - 1)); }
    }
}
// (P6) negating every factor of a product with one index (inside the range) left out: n - 1 sign changes
proof fn lemma_gprod_neg(g: spec_fn(int) -> int, n: int, k: int)
    requires 0 <= k < n, n % 2 == 0
    ensures gprod(|m: int| -g(m), n, k) == -gprod(g, n, k)
    decreases n
{
    lemma_gprod_neg_gen(g, n, k);
}
// general form: with c = number of factors actually present
pub open spec fn cnt(n: int, k: int) -> int { if 0 <= k < n { n - 1 } else if n >= 0 { n } else { 0 } }
proof fn lemma_gprod_neg_gen(g: spec_fn(int) -> int, n: int, k: int)
    requires n >= 0
    ensures gprod(|m: int| -g(m), n, k) == (if cnt(n, k) % 2 == 0 { gprod(g, n, k) } else { -gprod(g, n, k) })
    decreases n
{
    let h = |m: int| -g(m);
    if n > 0 {
        lemma_gprod_neg_gen(g, n - 1, k);
        let p = gprod(g, n - 1, k);
        if n - 1 == k {
            assert(cnt(n, k) == cnt(n - 1, k));
            assert(p * 1 == p); assert((-p) * 1 == -p);
        } else {
            assert(h(n - 1) == -g(n - 1));
            assert(cnt(n, k) == cnt(n - 1, k) + 1);
            assert(p * (-g(n - 1)) == -(p * g(n - 1))) by (nonlinear_arith);
            assert((-p) * (-g(n - 1)) == p * g(n - 1)) by (nonlinear_arith);
        }
    }
}
'''

MAIN = '''
// ---- the identity ---------------------------------------------------------------------------------------------------------------------------
// root(d)^(2^d) == 1
proof fn lemma_root_order(d: nat)
    requires d <= MAX_ROOTS
    ensures cong(pow(rootv(d as int), pow2(d)), 1)
{
    lemma2_to64();
    if d == 0 { axiom_roots(1); lemma_pow1(rootv(0)); assert(pow2(0) == 1); } else {
        let w = rootv(d as int); let h = pow2((d - 1) as nat);
        axiom_roots(d as int);
        lemma_pow2_unfold(d);
        lemma_pow_adds(w, h, h);
        lemma_cong_mul(pow(w, h), -1, pow(w, h), -1);
        assert((-1) * (-1) == 1);
    }
}
// sum_{i<n} x^i * w^(i+1)
pub open spec fn rs(x: int, w: int, n: int) -> int decreases n { if n <= 0 { 0 } else { rs(x, w, n - 1) + pow(x, (n - 1) as nat) * pow(w, n as nat) } }
proof fn lemma_rs_cong(x: int, w: int, w2: int, n: int)
    requires cong(w, w2)
    ensures cong(rs(x, w, n), rs(x, w2, n))
    decreases n
{
    if n <= 0 { lemma_cong_refl(0); } else {
        lemma_rs_cong(x, w, w2, n - 1);
        lemma_cong_pow(w, w2, n as nat);
        lemma_cong_refl(pow(x, (n - 1) as nat));
        lemma_cong_mul(pow(x, (n - 1) as nat), pow(x, (n - 1) as nat), pow(w, n as nat), pow(w2, n as nat));
        lemma_cong_add(rs(x, w, n - 1), rs(x, w2, n - 1), pow(x, (n - 1) as nat) * pow(w, n as nat), pow(x, (n - 1) as nat) * pow(w2, n as nat));
    }
}
// (a + x) * rs(x^2, w^2, h) == rs(x, w, 2h)   when a * w == 1
proof fn lemma_rs_double(x: int, w: int, a: int, h: int)
    requires h >= 0, cong(a * w, 1)
    ensures cong((a + x) * rs(x * x, w * w, h), rs(x, w, 2 * h))
    decreases h
{
    if h == 0 { assert(rs(x * x, w * w, 0) == 0); assert((a + x) * 0 == 0); lemma_cong_refl(0); } else {
        lemma_rs_double(x, w, a, h - 1);
        let i = (h - 1) as nat;
        // (x^2)^i == x^(2i), (w^2)^(i+1) == w^(2i+2)
        lemma_pow1(x); lemma_pow_adds(x, 1, 1); lemma_pow_multiplies(x, 2, i);
        lemma_pow1(w); lemma_pow_adds(w, 1, 1); lemma_pow_multiplies(w, 2, i + 1);
        assert(pow(x * x, i) == pow(x, 2 * i)) by { assert(pow(x, 2) == x * x); }
        assert(pow(w * w, i + 1) == pow(w, 2 * i + 2)) by { assert(pow(w, 2) == w * w); assert(2 * (i + 1) == 2 * i + 2); }
        let xe = pow(x, 2 * i); let we = pow(w, 2 * i + 2);
        // new terms of the right-hand side: x^(2i) w^(2i+1) + x^(2i+1) w^(2i+2)
        lemma_pow_adds(w, 2 * i + 1, 1);
        lemma_pow_adds(x, 2 * i, 1);
        let wo = pow(w, 2 * i + 1);
        assert(we == wo * w);
        assert(pow(x, 2 * i + 1) == xe * x);
        // a * we == a * w * wo == wo (mod p)
        lemma_cong_refl(wo);
        lemma_cong_mul(a * w, 1, wo, wo);
        assert((a * w) * wo == a * we) by (nonlinear_arith) requires we == wo * w;
        assert(1 * wo == wo);
        lemma_cong_refl(xe);
        lemma_cong_mul(xe, xe, a * we, wo);
        // (a + x) * xe * we == xe * (a * we) + (xe * x) * we
        assert((a + x) * (xe * we) == xe * (a * we) + (xe * x) * we) by (nonlinear_arith);
        lemma_cong_refl((xe * x) * we);
        lemma_cong_add(xe * (a * we), xe * wo, (xe * x) * we, (xe * x) * we);
        // unfold both sides
        assert(rs(x * x, w * w, h) == rs(x * x, w * w, h - 1) + xe * we);
        assert(rs(x, w, 2 * h) == rs(x, w, 2 * h - 1) + pow(x, (2 * h - 1) as nat) * pow(w, (2 * h) as nat));
        assert(rs(x, w, 2 * h - 1) == rs(x, w, 2 * h - 2) + pow(x, (2 * h - 2) as nat) * pow(w, (2 * h - 1) as nat));
        assert((a + x) * (rs(x * x, w * w, h - 1) + xe * we) == (a + x) * rs(x * x, w * w, h - 1) + (a + x) * (xe * we)) by (nonlinear_arith);
        lemma_cong_add((a + x) * rs(x * x, w * w, h - 1), rs(x, w, 2 * h - 2), (a + x) * (xe * we), xe * wo + (xe * x) * we);
    }
}
// the factors: D_d(m) = root(d)^m - x
pub open spec fn dfun(d: int, x: int) -> spec_fn(int) -> int { |m: int| pow(rootv(d), m as nat) - x }
// THE IDENTITY:  prod_{m < 2^d, m != k} (w^m - x)  ==  - sum_{i < 2^d} x^i (w^(2^d - k))^(i+1)
proof fn theorem_lagrange_product(d: nat, k: int, x: int)
    requires 1 <= d <= MAX_ROOTS, 0 <= k < pow2(d)
    ensures cong(gprod(dfun(d as int, x), pow2(d) as int, k), -rs(x, pow(rootv(d as int), (pow2(d) - k) as nat), pow2(d) as int))
    decreases d
{
    lemma2_to64();
    let n = pow2(d) as int; let w = rootv(d as int); let f = dfun(d as int, x);
    let wk = pow(w, (n - k) as nat);
    axiom_roots(d as int);
    lemma_root_order(d);
    lemma_pow2_unfold(d);
    if d == 1 {
        assert(n == 2);
        lemma_pow0(w); lemma_pow1(w); lemma_pow0(x); lemma_pow1(x);
        assert(pow2(0) == 1);
        // w == -1, w^2 == 1
        assert(cong(w, -1));
        assert(gprod(f, 2, k) == (gprod(f, 0, k) * (if 0 == k { 1 } else { f(0) })) * (if 1 == k { 1 } else { f(1) }));
        assert(gprod(f, 0, k) == 1);
        assert(rs(x, wk, 2) == rs(x, wk, 1) + pow(x, 1) * pow(wk, 2));
        assert(rs(x, wk, 1) == rs(x, wk, 0) + pow(x, 0) * pow(wk, 1));
        assert(rs(x, wk, 0) == 0);
        lemma_pow1(wk); lemma_pow_adds(wk, 1, 1);
        assert(pow(wk, 2) == wk * wk);
        if k == 0 {
            // wk == w^2 == 1:  rs == 1 + x,  product == f(1) == w - x == -1 - x
            assert(cong(wk, 1));
            lemma_cong_mul(wk, 1, wk, 1);
            lemma_cong_refl(x);
            lemma_cong_mul(x, x, wk * wk, 1);
            assert(1 * wk == wk);
            lemma_cong_add(wk, 1, x * (wk * wk), x * 1);
            lemma_cong_neg(wk + x * (wk * wk), 1 + x * 1);
            lemma_cong_sub(w, -1, x, x);
            assert(f(1) == w - x);
            assert(gprod(f, 2, 0) == f(1)) by (nonlinear_arith) requires gprod(f, 2, 0) == (1 * 1) * f(1);
            lemma_cong_sym(-(wk + x * (wk * wk)), -(1 + x * 1));
            lemma_cong_trans(w - x, -1 - x, -(wk + x * (wk * wk)));
        } else {
            // wk == w == -1:  rs == -1 + x,  product == f(0) == 1 - x
            assert(wk == w);
            lemma_cong_mul(wk, -1, wk, -1);
            assert((-1) * (-1) == 1);
            lemma_cong_refl(x);
            lemma_cong_mul(x, x, wk * wk, 1);
            assert(1 * wk == wk);
            lemma_cong_add(wk, -1, x * (wk * wk), x * 1);
            lemma_cong_neg(wk + x * (wk * wk), -1 + x * 1);
            assert(f(0) == 1 - x);
            assert(gprod(f, 2, 1) == f(0)) by (nonlinear_arith) requires gprod(f, 2, 1) == (1 * f(0)) * 1;
            lemma_cong_sym(-(wk + x * (wk * wk)), -(-1 + x * 1));
            lemma_cong_refl(1 - x);
            lemma_cong_trans(1 - x, -(-1 + x * 1), -(wk + x * (wk * wk)));
        }
    } else {
        let h = pow2((d - 1) as nat) as int;
        lemma_pow2_unfold((d - 1) as nat);
        assert(h % 2 == 0 && h >= 2);
        let kb = if k < h { k } else { k - h };
        let kp = if k < h { k + h } else { k - h };
        let fs = |m: int| f(m + h);
        // regroup: product without k == (pairs without kb) * f(kp)
        lemma_gprod_split(f, h, h, k);
        if k < h {
            lemma_gprod_out(fs, h, k - h, -1);
            lemma_gprod_pull(fs, h, kb);
            assert(fs(kb) == f(kp));
        } else {
            lemma_gprod_out(f, h, k, -1);
            lemma_gprod_pull(f, h, kb);
        }
        lemma_gprod_mul(f, fs, h, kb);
        let pair = |m: int| f(m) * fs(m);
        assert(gprod(f, n, k) == gprod(pair, h, kb) * f(kp)) by (nonlinear_arith)
            requires gprod(f, n, k) == gprod(f, h, k) * gprod(fs, h, k - h), gprod(f, h, kb) * gprod(fs, h, kb) == gprod(pair, h, kb),
                     (k < h ==> gprod(f, h, k) == gprod(f, h, kb) && gprod(fs, h, k - h) == gprod(fs, h, kb) * f(kp)),
                     (k >= h ==> gprod(f, h, k) == gprod(f, h, kb) * f(kp) && gprod(fs, h, k - h) == gprod(fs, h, kb));
        // each pair is -(root(d-1)^m - x^2)
        let f1 = dfun(d - 1, x * x);
        let nf1 = |m: int| -f1(m);
        assert forall|m: int| 0 <= m < h implies cong(#[trigger] pair(m), nf1(m)) by {
            let a = pow(w, m as nat);
            lemma_pow_adds(w, m as nat, h as nat);
            lemma_cong_refl(a);
            lemma_cong_mul(a, a, pow(w, h as nat), -1);
            // f(m+h) == a*w^h - x == -a - x
            lemma_cong_refl(x);
            lemma_cong_sub(a * pow(w, h as nat), a * (-1), x, x);
            lemma_cong_refl(a - x);
            lemma_cong_mul(a - x, a - x, a * pow(w, h as nat) - x, a * (-1) - x);
            assert((a - x) * (a * (-1) - x) == x * x - a * a) by (nonlinear_arith);
            // a*a == (w^2)^m == root(d-1)^m
            lemma_pow_multiplies(w, m as nat, 2); lemma_pow_multiplies(w, 2, m as nat); lemma_pow1(a); lemma_pow_adds(a, 1, 1);
            lemma_pow1(w); lemma_pow_adds(w, 1, 1);
            assert(pow(w, 2) == w * w); assert(pow(a, 2) == a * a);
            assert((m as nat) * 2 == 2 * (m as nat));
            assert(a * a == pow(w * w, m as nat));
            lemma_cong_pow(w * w, rootv(d - 1), m as nat);
            lemma_cong_refl(x * x);
            lemma_cong_sub(x * x, x * x, a * a, pow(rootv(d - 1), m as nat));
            assert(fs(m) == pow(w, (m + h) as nat) - x);
            assert(pair(m) == (a - x) * (pow(w, (m + h) as nat) - x));
            assert(nf1(m) == -(pow(rootv(d - 1), m as nat) - x * x));
            lemma_cong_trans(pair(m), x * x - a * a, x * x - pow(rootv(d - 1), m as nat));
        }
        lemma_gprod_cong(pair, nf1, h, kb);
        lemma_gprod_neg(f1, h, kb);
        // induction hypothesis at level d-1 with x^2
        theorem_lagrange_product((d - 1) as nat, kb, x * x);
        let w1 = pow(rootv(d - 1), (h - kb) as nat);
        lemma_cong_neg(gprod(f1, h, kb), -rs(x * x, w1, h));
        lemma_cong_trans(gprod(pair, h, kb), -gprod(f1, h, kb), rs(x * x, w1, h));
        // w1 == wk^2
        lemma_pow1(wk); lemma_pow_adds(wk, 1, 1);
        assert(pow(wk, 2) == wk * wk);
        lemma_pow_multiplies(w, (n - k) as nat, 2);
        lemma_cong_sym(w * w, rootv(d - 1));
        lemma_cong_pow(rootv(d - 1), w * w, (h - kb) as nat);
        lemma_pow_multiplies(w, 2, (h - kb) as nat);
        // w^(2(h-kb)) vs w^(2(n-k)): equal exponents when k >= h, differ by n when k < h
        if k < h {
            assert(2 * (n - k) == n + 2 * (h - kb));
            lemma_pow_adds(w, n as nat, (2 * (h - kb)) as nat);
            lemma_cong_refl(pow(w, (2 * (h - kb)) as nat));
            lemma_cong_mul(pow(w, n as nat), 1, pow(w, (2 * (h - kb)) as nat), pow(w, (2 * (h - kb)) as nat));
            assert(1 * pow(w, (2 * (h - kb)) as nat) == pow(w, (2 * (h - kb)) as nat));
            lemma_cong_sym(pow(w, (2 * (n - k)) as nat), pow(w, (2 * (h - kb)) as nat));
        } else {
            assert(2 * (n - k) == 2 * (h - kb));
            lemma_cong_refl(pow(w, (2 * (h - kb)) as nat));
        }
        assert(((n - k) as nat) * 2 == 2 * (n - k));
        assert(2 * ((h - kb) as nat) == 2 * (h - kb));
        lemma_pow1(w); lemma_pow_adds(w, 1, 1);
        assert(pow(w * w, (h - kb) as nat) == pow(w, (2 * (h - kb)) as nat)) by { assert(pow(w, 2) == w * w); assert(2 * ((h - kb) as nat) == (2 * (h - kb)) as nat); }
        assert(cong(w1, pow(w, (2 * (h - kb)) as nat)));
        assert(wk * wk == pow(w, (2 * (n - k)) as nat)) by { assert(((n - k) as nat) * 2 == (2 * (n - k)) as nat); }
        lemma_cong_trans(w1, pow(w, (2 * (h - kb)) as nat), wk * wk);
        lemma_rs_cong(x * x, w1, wk * wk, h);
        // f(kp) == w^kp - x == -w^k - x
        let wkk = pow(w, k as nat);
        if k < h { lemma_pow_adds(w, k as nat, h as nat); lemma_cong_refl(wkk); lemma_cong_mul(wkk, wkk, pow(w, h as nat), -1); assert(wkk * (-1) == -wkk); }
        else { lemma_pow_adds(w, kp as nat, h as nat); lemma_cong_refl(pow(w, kp as nat)); lemma_cong_mul(pow(w, kp as nat), pow(w, kp as nat), pow(w, h as nat), -1);
               assert(pow(w, kp as nat) * (-1) == -pow(w, kp as nat));
               lemma_cong_neg(wkk, -pow(w, kp as nat)); assert(-(-pow(w, kp as nat)) == pow(w, kp as nat)); lemma_cong_sym(-wkk, pow(w, kp as nat)); }
        assert(cong(pow(w, kp as nat), -wkk));
        lemma_cong_refl(x);
        lemma_cong_sub(pow(w, kp as nat), -wkk, x, x);
        assert(f(kp) == pow(w, kp as nat) - x);
        // w^k * wk == w^n == 1
        lemma_pow_adds(w, k as nat, (n - k) as nat);
        assert(cong(wkk * wk, 1));
        lemma_rs_double(x, wk, wkk, h);
        // assemble: gprod == pairs * f(kp) == rs(x^2, wk^2, h) * (-(wkk + x)) == -rs(x, wk, n)
        lemma_cong_trans(gprod(pair, h, kb), rs(x * x, w1, h), rs(x * x, wk * wk, h));
        lemma_cong_mul(gprod(pair, h, kb), rs(x * x, wk * wk, h), f(kp), -wkk - x);
        assert(rs(x * x, wk * wk, h) * (-wkk - x) == -((wkk + x) * rs(x * x, wk * wk, h))) by (nonlinear_arith);
        lemma_cong_neg((wkk + x) * rs(x * x, wk * wk, h), rs(x, wk, 2 * h));
        lemma_cong_trans(gprod(f, n, k), -((wkk + x) * rs(x * x, wk * wk, h)), -rs(x, wk, n));
    }
}
'''


def unit():
    fp = open(os.path.join(REPO, 'src/fp.rs')).read()
    mr = int(re.search(r'const MAX_ROOTS: usize = (\d+);', fp).group(1))
    u = VUnit('lagrange_math', 'scratch')
    u.raw('global size_of usize == 8;\n' + FE_PRELUDE, 'abstract-field')
    u.raw(MATH.replace('%(MR)d', str(mr)), 'math')
    u.raw(MAIN, 'main')
    return u
