"""C18/C02 — the Prio3 randomness derivations with a variable transcript (src/vdaf/prio3.rs) under contract (Verus), over the abstract XOF of unit
xof_absorb (ghost absorb log; init absorbs the length-prefixed dst parts and the seed - proved there for the shipped constructors):

  derive_joint_rand_seed(ctx, parts): the seed squeezed from  init(zero seed, [dst(DST_JOINT_RAND_SEED), ctx]) ++ part_0 ++ part_1 ++ .. ++ part_{n-1}
        - EVERY joint randomness part, whole, in the order supplied - for ANY number of parts (the Kani harness p3_joint_rand_seed_transcript
        checks 2 and 3 parts on the compiled code)
  derive_query_rands(verify_key, ctx, nonce): query_rand_len * num_proofs elements of the stream of
        init(verify_key, [dst(DST_QUERY_RANDOMNESS), ctx]) ++ [num_proofs] ++ nonce  - bound to the key, the context, the proof count and the nonce.
domain_separation_tag is an uninterpreted function of (instance, usage) here (its bytes: Kani harness p3_dst_tag)."""
from vunit import VUnit
import xof_absorb

F = 'src/vdaf/prio3.rs'
PRELUDE = '''
#[verifier::external_body] #[derive(Clone, Copy)] pub struct SeedT { _s: u8 }
impl SeedT {
    pub uninterp spec fn bytes(&self) -> Seq<u8>;
    #[verifier::external_body] fn as_ref(&self) -> (r: &Vec<u8>) ensures r@ == self.bytes(), self.bytes().len() <= 255 { unimplemented!() }
}
pub uninterp spec fn seed_of(absorbed: Seq<u8>) -> SeedT;                 // Xof::into_seed: the first SEED_SIZE bytes of the stream
pub uninterp spec fn field_vec_of(absorbed: Seq<u8>, n: int) -> Seq<u64>;    // into_seed_stream().into_field_vec(n) (rejection sampling: C11)
impl AnyXof {
    #[verifier::external_body]
    fn into_seed(self) -> (r: SeedT) ensures r == seed_of(self.absorbed()) { unimplemented!() }
    #[verifier::external_body]
    fn into_field_vec(self, n: usize) -> (r: Vec<u64>) ensures r@ == field_vec_of(self.absorbed(), n as int) { unimplemented!() }
}
#[verifier::external_body]
pub uninterp spec fn zero_seed_spec() -> Seq<u8>;                         // [0; SEED_SIZE]: SEED_SIZE zero bytes
#[verifier::external_body]
fn zero_seed() -> (r: Vec<u8>) ensures r@ == zero_seed_spec(), r@.len() <= 255, forall|i: int| 0 <= i < r@.len() ==> r@[i] == 0 { unimplemented!() }
pub struct Prio3Any { pub num_proofs: u8 }
pub uninterp spec fn dst_spec(p: Prio3Any, usage: u16) -> Seq<u8>;
impl Prio3Any {
    pub uninterp spec fn qrl(&self) -> nat;
    #[verifier::external_body] fn typ_query_rand_len(&self) -> (r: usize) ensures r == self.qrl() { unimplemented!() }
    fn num_proofs(&self) -> (r: usize) ensures r == self.num_proofs { self.num_proofs as usize }
    #[verifier::external_body]
    fn domain_separation_tag(&self, usage: u16) -> (r: Vec<u8>) ensures r@ == dst_spec(*self, usage), r@.len() == 8 { unimplemented!() }
}
// the two dst parts [tag, ctx]
pub open spec fn dst2(tag: Seq<u8>, ctx: Seq<u8>) -> Seq<u8> { tag + ctx }
pub open spec fn seeds_cat(parts: Seq<SeedT>, n: int) -> Seq<u8> decreases n { if n <= 0 { Seq::empty() } else { seeds_cat(parts, n - 1) + parts[n - 1].bytes() } }
#[verifier::external_body]
fn xof_init2(seed: &Vec<u8>, tag: &Vec<u8>, ctx: &[u8]) -> (r: AnyXof)
    requires tag@.len() + ctx@.len() <= 65535, seed@.len() <= 255,
    // P::init(seed, &[tag, ctx]) (contract of unit xof_absorb / xof_inits): the length-prefixed concatenation of the dst parts, then the seed
    ensures r.absorbed() == le16((tag@.len() + ctx@.len()) as int) + (tag@ + ctx@) + seq![seed@.len() as u8] + seed@,
{ unimplemented!() }
pub open spec fn init2(seed: Seq<u8>, tag: Seq<u8>, ctx: Seq<u8>) -> Seq<u8> { le16((tag.len() + ctx.len()) as int) + (tag + ctx) + seq![seed.len() as u8] + seed }
'''


def unit():
    u = VUnit('prio3_derive', 'Prio3 derive_joint_rand_seed (every part, in order, any count) and derive_query_rands transcripts')
    u.oracle = {'inject': 'src/vdaf/prio3.rs', 'file': 'prio3_oracle.rs', 'test': 'verif_oracle_prio3::oracle_derive_transcripts'}
    u.raw(xof_absorb.PRELUDE, 'abstract-sponge')
    u.raw(xof_absorb.GENERIC, 'any-xof')
    u.struct_item(F, ['const DST_QUERY_RANDOMNESS'])
    u.struct_item(F, ['const DST_JOINT_RAND_SEED'])
    u.raw(PRELUDE, 'instance')
    IMPL = ['impl<T, P, const SEED_SIZE: usize> Prio3<T, P, SEED_SIZE>']
    u.item(F, IMPL + ['fn derive_joint_rand_seed'], ret='r', impl_header='impl Prio3Any', nth={0: 0},
           rewrites=[(r"fn derive_joint_rand_seed<'a>\(", 'fn derive_joint_rand_seed(', 1), (r"joint_rand_parts: impl Iterator<Item = &'a Seed<SEED_SIZE>>", 'joint_rand_parts: &Vec<SeedT>', 1),
                     (r'-> Seed<SEED_SIZE>', '-> SeedT', 1),
                     (r'P::init\(\s*&\[0; SEED_SIZE\],\s*&\[&self\.domain_separation_tag\(DST_JOINT_RAND_SEED\), ctx\],\s*\)', 'xof_init2(&zero_seed(), &self.domain_separation_tag(DST_JOINT_RAND_SEED), ctx)', 1),
                     (r'for part in joint_rand_parts \{', 'for k_ in 0..joint_rand_parts.len() { let part = &joint_rand_parts[k_];', 1),
                     (r'xof\.update\(part\.as_ref\(\)\);', 'xof.update(part.as_ref().as_slice());', 1)],
           sig='''
requires
    ctx@.len() + 8 <= 65535,
ensures
    // EVERY part, whole, in the order supplied, after the bound (zero seed, usage, context) prefix
    r == seed_of(init2(zero_seed_spec(), dst_spec(*self, DST_JOINT_RAND_SEED), ctx@) + seeds_cat(joint_rand_parts@, joint_rand_parts@.len() as int)),
''', ghost_after=[('let mut xof = xof_init2(', 'let ghost a0 = xof.absorbed();')],
           loops={0: '''
invariant
    xof.absorbed() == a0 + seeds_cat(joint_rand_parts@, k_ as int),
'''}, loop_tail={0: 'assert(xof.absorbed() =~= a0 + seeds_cat(joint_rand_parts@, k_ + 1));'},
           before=[('for k_ in 0..joint_rand_parts.len()', 'assert(xof.absorbed() =~= a0 + seeds_cat(joint_rand_parts@, 0));')])
    u.item(F, IMPL + ['fn derive_query_rands'], ret='r', impl_header='impl Prio3Any', nth={0: 0},
           rewrites=[(r'verify_key: &\[u8; SEED_SIZE\]', 'verify_key: &Vec<u8>', 1), (r'-> Vec<T::Field>', '-> Vec<u64>', 1),
                     (r'P::init\(\s*verify_key,\s*&\[&self\.domain_separation_tag\(DST_QUERY_RANDOMNESS\), ctx\],\s*\)', 'xof_init2(verify_key, &self.domain_separation_tag(DST_QUERY_RANDOMNESS), ctx)', 1),
                     (r'xof\.update\(&\[self\.num_proofs\]\);', 'xof.update(u8_le(self.num_proofs).as_slice());', 1), (r'xof\.update\(nonce\);', 'xof.update(nonce.as_slice());', 1),
                     (r'xof\.into_seed_stream\(\)\s*\.into_field_vec\(', 'xof.into_field_vec(', 1),
                     (r'self\.typ\.query_rand_len\(\)', 'self.typ_query_rand_len()', 1)],
           sig='''
requires
    ctx@.len() + 8 <= 65535, verify_key@.len() <= 255,
    self.qrl() * self.num_proofs <= usize::MAX,
ensures
    r@ == field_vec_of(init2(verify_key@, dst_spec(*self, DST_QUERY_RANDOMNESS), ctx@) + seq![self.num_proofs] + nonce@, self.qrl() * self.num_proofs),
''')
    return u
