"""C06 — one level of the IDPF under contract (Verus): generate_correction_word and eval_next (src/idpf.rs, straight-line, extracted
whole) and the LEVEL THEOREM over the two contracts - including the ON-PATH step that the Kani harnesses idpf_level_on_path_* do not
finish within any time box tried (M39).

Abstractions (listed as assumptions): 16-byte seeds are an abstract type `Seed16` with xor a commutative, associative, self-inverse
operation (true of bytewise xor; xor_seeds / conditional_xor_seeds / conditional_select_seed have the contracts proved complete by the
Kani harness idpf_seed_helpers); `subtle::Choice` is a bit with ^, &, !, conditional_select; `extend` and `convert` (XOF expansion) are
uninterpreted deterministic functions of the seed; node values are elements of the abstract field `Fe` (the blanket IdpfValue impl;
select / negate contracts: Kani harness idpf_value_select).

Contracts: each function returns exactly the value of a spec function mirroring the specification of the construction
(gen_level / eval_level).  THEOREM (lemma over the two contracts, all seeds, control bits, input bits and values):

  ON the input's path (the parties' control bits differ):
      evaluating the child the input FOLLOWS: each party arrives at exactly the key and control bit key generation left for it, the control
          bits still differ, and the two output shares sum to the programmed value beta;
      evaluating the OTHER child: both parties arrive at the SAME key and the SAME control bit, and the output shares sum to zero;
  OFF the path (equal keys, equal control bits): they stay equal for both children and the output shares sum to zero

and, by induction on the level (theorem_idpf, spec level), the shares sum to beta_l on every prefix of the input and to zero everywhere else.

The level loops themselves are under contract too: Idpf::gen_with_random (whole function: the public share holds, level by level, exactly
the correction word of the construction - inner modes/parameter below the last level, leaf ones at the last -, the initial keys are the two
random seeds, Err exactly when the number of inner values is not bits-1) and Idpf::eval_from_node (whole function: the output share of the
last level of the prefix obtained by iterating the level step from the given node).  theorem_idpf_end_to_end composes them: what
gen_with_random hands out and what both parties compute with eval_from_node from their root keys meet the IDPF specification for EVERY tree
depth, input, value vector and prefix.  Abstracted (assumptions): IdpfInput is a bit string with len() and indexing (bitvec storage not
modelled), IdpfCache::insert has no effect on the evaluation (cache transparency, i.e. Idpf::eval resuming from a cached node, is NOT
decided), inner and leaf values are elements of one abstract additive field type, XofFixedKeyAes128Key::new / XofMode are opaque mode
values determined by (domain separator, ctx, nonce)."""
from fe_common import FE_PRELUDE
from vunit import VUnit

F = 'src/idpf.rs'
PRELUDE = '''
// ---- subtle::Choice: a bit -------------------------------------------------------------------------------------------------------------
#[derive(Clone, Copy)]
pub struct Choice(pub bool);
impl BitXorSpecImpl<Choice> for Choice {
    open spec fn obeys_bitxor_spec() -> bool { true }
    open spec fn bitxor_req(self, rhs: Choice) -> bool { true }
    open spec fn bitxor_spec(self, rhs: Choice) -> Choice { Choice(self.0 != rhs.0) }
}
impl core::ops::BitXor for Choice { type Output = Choice; #[verifier::external_body] fn bitxor(self, rhs: Choice) -> Choice { unimplemented!() } }
impl BitAndSpecImpl<Choice> for Choice {
    open spec fn obeys_bitand_spec() -> bool { true }
    open spec fn bitand_req(self, rhs: Choice) -> bool { true }
    open spec fn bitand_spec(self, rhs: Choice) -> Choice { Choice(self.0 && rhs.0) }
}
impl core::ops::BitAnd for Choice { type Output = Choice; #[verifier::external_body] fn bitand(self, rhs: Choice) -> Choice { unimplemented!() } }
impl NotSpecImpl for Choice {
    open spec fn obeys_not_spec() -> bool { true }
    open spec fn not_req(self) -> bool { true }
    open spec fn not_spec(self) -> Choice { Choice(!self.0) }
}
impl core::ops::Not for Choice { type Output = Choice; #[verifier::external_body] fn not(self) -> Choice { unimplemented!() } }
impl BitXorAssignSpecImpl<Choice> for Choice {
    open spec fn obeys_bitxor_assign_spec() -> bool { true }
    open spec fn bitxor_assign_req(&self, rhs: Choice) -> bool { true }
    open spec fn bitxor_assign_spec(&self, rhs: Choice) -> &Choice { &Choice(self.0 != rhs.0) }
}
impl core::ops::BitXorAssign for Choice { #[verifier::external_body] fn bitxor_assign(&mut self, rhs: Choice) { unimplemented!() } }
impl Choice {
    #[verifier::external_body]
    fn from(x: u8) -> (r: Choice) requires x <= 1 ensures r.0 == (x == 1) { unimplemented!() }
    #[verifier::external_body]
    fn from_bool(b: bool) -> (r: Choice) ensures r.0 == b { unimplemented!() }            // Choice::from(b as u8)
    #[verifier::external_body]
    fn conditional_select(a: &Choice, b: &Choice, c: Choice) -> (r: Choice) ensures r == (if c.0 { *b } else { *a }) { unimplemented!() }
}
// ---- 16-byte seeds with xor (contracts of the seed helpers: Kani harness idpf_seed_helpers, complete) ------------------------------------
#[verifier::external_body]
#[derive(Clone, Copy)]
pub struct Seed16 { _s: u128 }
pub uninterp spec fn sxor(a: Seed16, b: Seed16) -> Seed16;
#[verifier::external_body]
pub broadcast proof fn axiom_sxor(a: Seed16, b: Seed16, c: Seed16)
    ensures #[trigger] sxor(sxor(a, b), c) == sxor(a, sxor(b, c)), sxor(a, b) == sxor(b, a), sxor(sxor(a, b), b) == a, sxor(a, sxor(a, b)) == b
{}
#[verifier::external_body]
fn xor_seeds(left: &Seed16, right: &Seed16) -> (r: Seed16) ensures r == sxor(*left, *right) { unimplemented!() }
#[verifier::external_body]
fn conditional_xor_seeds(normal_input: &Seed16, switched_input: &Seed16, control: Choice) -> (r: Seed16)
    ensures r == (if control.0 { sxor(*normal_input, *switched_input) } else { *normal_input }) { unimplemented!() }
#[verifier::external_body]
fn conditional_select_seed(select: Choice, seeds: &[Seed16; 2]) -> (r: Seed16) ensures r == (if select.0 { seeds[1] } else { seeds[0] }) { unimplemented!() }
// ---- XOF expansion: uninterpreted deterministic functions of the seed (and of the mode, which is fixed within a level) -------------------
#[verifier::external_body]
pub struct XofMode { _m: u8 }
pub struct ValueParam { pub p: u8 }
pub uninterp spec fn ext_s(xm: XofMode, seed: Seed16, i: int) -> Seed16;
pub uninterp spec fn ext_t(xm: XofMode, seed: Seed16, i: int) -> bool;
pub uninterp spec fn conv_k(cm: XofMode, vp: ValueParam, seed: Seed16) -> Seed16;
pub uninterp spec fn conv_v(cm: XofMode, vp: ValueParam, seed: Seed16) -> Fe;
#[verifier::external_body]
fn extend(seed: &Seed16, xof_mode: &XofMode) -> (r: ([Seed16; 2], [Choice; 2]))
    ensures r.0[0] == ext_s(*xof_mode, *seed, 0), r.0[1] == ext_s(*xof_mode, *seed, 1), r.1[0].0 == ext_t(*xof_mode, *seed, 0), r.1[1].0 == ext_t(*xof_mode, *seed, 1)
{ unimplemented!() }
#[verifier::external_body]
fn convert(seed: &Seed16, xof_mode: &XofMode, parameter: &ValueParam) -> (r: (Seed16, Fe)) ensures r.0 == conv_k(*xof_mode, *parameter, *seed), r.1 == conv_v(*xof_mode, *parameter, *seed) { unimplemented!() }
// ---- IdpfValue for a field element (blanket impl; Kani harness idpf_value_select) --------------------------------------------------------
pub open spec fn neg_if(c: bool, x: Fe) -> Fe { if c { fe_mk(-fe_v(x)) } else { x } }
impl Fe {
    #[verifier::external_body]
    fn conditional_negate(&mut self, c: Choice) ensures *final(self) == neg_if(c.0, *old(self)) { unimplemented!() }
    #[verifier::external_body]
    fn conditional_select(a: &Fe, b: &Fe, c: Choice) -> (r: Fe) ensures r == (if c.0 { *b } else { *a }) { unimplemented!() }
}
'''

SPEC = '''
// ---- the construction, as spec functions ---------------------------------------------------------------------------------------------------
pub open spec fn bsel(c: bool, a: bool, b: bool) -> bool { if c { b } else { a } }
pub open spec fn ssel(c: bool, a: Seed16, b: Seed16) -> Seed16 { if c { b } else { a } }
pub open spec fn cxor(a: Seed16, b: Seed16, c: bool) -> Seed16 { if c { sxor(a, b) } else { a } }
pub struct GenOut { pub cw_seed: Seed16, pub cw_t0: bool, pub cw_t1: bool, pub cw_v: Fe, pub k0: Seed16, pub k1: Seed16, pub t0: bool, pub t1: bool }
// key generation at one level: parties' keys k0/k1 and control bits t0/t1, input bit a, programmed value beta
pub open spec fn gen_level(xm: XofMode, cm: XofMode, vp: ValueParam, k0: Seed16, k1: Seed16, t0: bool, t1: bool, a: bool, beta: Fe) -> GenOut {
    let lose = !a;
    let cw_seed = sxor(ssel(lose, ext_s(xm, k0, 0), ext_s(xm, k0, 1)), ssel(lose, ext_s(xm, k1, 0), ext_s(xm, k1, 1)));
    let cw_t0 = ((ext_t(xm, k0, 0) != ext_t(xm, k1, 0)) != a) != true;
    let cw_t1 = (ext_t(xm, k0, 1) != ext_t(xm, k1, 1)) != a;
    let cw_t_keep = bsel(a, cw_t0, cw_t1);
    let nt0 = bsel(a, ext_t(xm, k0, 0), ext_t(xm, k0, 1)) != (cw_t_keep && t0);
    let nt1 = bsel(a, ext_t(xm, k1, 0), ext_t(xm, k1, 1)) != (cw_t_keep && t1);
    let sc0 = cxor(ssel(a, ext_s(xm, k0, 0), ext_s(xm, k0, 1)), cw_seed, t0);
    let sc1 = cxor(ssel(a, ext_s(xm, k1, 0), ext_s(xm, k1, 1)), cw_seed, t1);
    let v = fe_mk(fe_v(fe_mk(fe_v(beta) - fe_v(conv_v(cm, vp, sc0)))) + fe_v(conv_v(cm, vp, sc1)));
    GenOut { cw_seed, cw_t0, cw_t1, cw_v: neg_if(nt1, v), k0: conv_k(cm, vp, sc0), k1: conv_k(cm, vp, sc1), t0: nt0, t1: nt1 }
}
pub struct EvalOut { pub key: Seed16, pub t: bool, pub out: Fe }
// evaluation of one party at one level: its key and control bit, the public correction word, the child e to descend to
pub open spec fn eval_level(xm: XofMode, cm: XofMode, vp: ValueParam, is_leader: bool, key: Seed16, t: bool, cw_seed: Seed16, cw_t0: bool, cw_t1: bool, cw_v: Fe, e: bool) -> EvalOut {
    let s0 = cxor(ext_s(xm, key, 0), cw_seed, t);
    let s1 = cxor(ext_s(xm, key, 1), cw_seed, t);
    let c0 = ext_t(xm, key, 0) != (cw_t0 && t);
    let c1 = ext_t(xm, key, 1) != (cw_t1 && t);
    let sc = ssel(e, s0, s1);
    let nt = bsel(e, c0, c1);
    let el = conv_v(cm, vp, sc);
    let o = fe_mk(fe_v(el) + fe_v(if nt { cw_v } else { fe_mk(0) }));
    EvalOut { key: conv_k(cm, vp, sc), t: nt, out: neg_if(!is_leader, o) }
}
'''

THEOREM = '''
// ---- THE LEVEL THEOREM ------------------------------------------------------------------------------------------------------------------------
proof fn lemma_fe_sum(a: Fe, b: Fe, c: Fe, pos: bool)
    // (a + [c or 0 per party]) - (b + ...) arithmetic, as congruences; used by both cases below
    ensures true
{ }
proof fn theorem_level(xm: XofMode, cm: XofMode, vp: ValueParam, k0: Seed16, k1: Seed16, t0: bool, t1: bool, a: bool, beta: Fe, e: bool)
    ensures
        // ON the path: control bits differ
        t0 != t1 ==> ({
            let g = gen_level(xm, cm, vp, k0, k1, t0, t1, a, beta);
            let l = eval_level(xm, cm, vp, true, k0, t0, g.cw_seed, g.cw_t0, g.cw_t1, g.cw_v, e);
            let h = eval_level(xm, cm, vp, false, k1, t1, g.cw_seed, g.cw_t0, g.cw_t1, g.cw_v, e);
            &&& e == a ==> l.key == g.k0 && h.key == g.k1 && l.t == g.t0 && h.t == g.t1 && l.t != h.t && cong(fe_v(l.out) + fe_v(h.out), fe_v(beta))
            &&& e != a ==> l.key == h.key && l.t == h.t && cong(fe_v(l.out) + fe_v(h.out), 0)
        }),
        // OFF the path: equal keys and control bits, ANY correction word
        forall|cs: Seed16, c0: bool, c1: bool, cv: Fe| k0 == k1 && t0 == t1 ==> ({
            let l = #[trigger] eval_level(xm, cm, vp, true, k0, t0, cs, c0, c1, cv, e);
            let h = eval_level(xm, cm, vp, false, k1, t1, cs, c0, c1, cv, e);
            l.key == h.key && l.t == h.t && cong(fe_v(l.out) + fe_v(h.out), 0)
        }),
{
    broadcast use axiom_sxor, axiom_fe_mk, axiom_fe_range;
    lemma_cong_refl(0);
    // OFF the path: identical computations; x + (-x) == 0
    assert forall|cs: Seed16, c0: bool, c1: bool, cv: Fe| k0 == k1 && t0 == t1 implies ({
            let l = #[trigger] eval_level(xm, cm, vp, true, k0, t0, cs, c0, c1, cv, e);
            let h = eval_level(xm, cm, vp, false, k1, t1, cs, c0, c1, cv, e);
            l.key == h.key && l.t == h.t && cong(fe_v(l.out) + fe_v(h.out), 0)
        }) by {
        let l = eval_level(xm, cm, vp, true, k0, t0, cs, c0, c1, cv, e);
        lemma_neg_sum(l.out);
    }
    if t0 != t1 {
        let g = gen_level(xm, cm, vp, k0, k1, t0, t1, a, beta);
        let l = eval_level(xm, cm, vp, true, k0, t0, g.cw_seed, g.cw_t0, g.cw_t1, g.cw_v, e);
        let h = eval_level(xm, cm, vp, false, k1, t1, g.cw_seed, g.cw_t0, g.cw_t1, g.cw_v, e);
        let sc0 = cxor(ssel(a, ext_s(xm, k0, 0), ext_s(xm, k0, 1)), g.cw_seed, t0);
        let sc1 = cxor(ssel(a, ext_s(xm, k1, 0), ext_s(xm, k1, 1)), g.cw_seed, t1);
        if e == a {
            // the corrected seeds are the ones key generation converted
            assert(l.key == g.k0 && h.key == g.k1);
            assert(l.t == g.t0 && h.t == g.t1);
            assert(l.t != h.t);
            lemma_on_path_sum(beta, conv_v(cm, vp, sc0), conv_v(cm, vp, sc1), g.t0, g.t1);
        } else {
            // leaving the path: the seed correction makes the two keys equal, the bit correction makes the control bits equal
            let i: int = if e { 1 } else { 0 };
            let x = ext_s(xm, k0, i); let y = ext_s(xm, k1, i);
            axiom_sxor(x, y, x); axiom_sxor(y, x, y);
            assert(g.cw_seed == sxor(x, y));
            assert(ssel(e, cxor(ext_s(xm, k0, 0), g.cw_seed, t0), cxor(ext_s(xm, k0, 1), g.cw_seed, t0)) == ssel(e, cxor(ext_s(xm, k1, 0), g.cw_seed, t1), cxor(ext_s(xm, k1, 1), g.cw_seed, t1)));
            assert(l.key == h.key);
            assert(l.t == h.t);
            let lo = fe_mk(fe_v(conv_v(cm, vp, ssel(e, cxor(ext_s(xm, k0, 0), g.cw_seed, t0), cxor(ext_s(xm, k0, 1), g.cw_seed, t0)))) + fe_v(if l.t { g.cw_v } else { fe_mk(0) }));
            lemma_neg_sum(lo);
        }
    }
}
// x + (-x) == 0
proof fn lemma_neg_sum(x: Fe) ensures cong(fe_v(x) + fe_v(fe_mk(-fe_v(x))), 0)
{
    broadcast use axiom_fe_mk;
    lemma_cong_mod(-fe_v(x));
    lemma_cong_refl(fe_v(x));
    lemma_cong_add(fe_v(x), fe_v(x), fe_v(fe_mk(-fe_v(x))), -fe_v(x));
}
// (e0 + [t0] cw) - (e1 + [t1] cw) == beta when exactly one control bit is set and cw = +-(beta - e0 + e1) negated iff t1
proof fn lemma_on_path_sum(beta: Fe, e0: Fe, e1: Fe, nt0: bool, nt1: bool)
    requires nt0 != nt1
    ensures ({
        let v = fe_mk(fe_v(fe_mk(fe_v(beta) - fe_v(e0))) + fe_v(e1));
        let cw = neg_if(nt1, v);
        let lo = fe_mk(fe_v(e0) + fe_v(if nt0 { cw } else { fe_mk(0) }));
        let ho = fe_mk(fe_v(e1) + fe_v(if nt1 { cw } else { fe_mk(0) }));
        cong(fe_v(lo) + fe_v(fe_mk(-fe_v(ho))), fe_v(beta))
    })
{
    broadcast use axiom_fe_mk, axiom_fe_range;
    let b = fe_v(beta); let x0 = fe_v(e0); let x1 = fe_v(e1);
    let d = fe_mk(b - x0);
    let v = fe_mk(fe_v(d) + x1);
    // v == beta - e0 + e1
    lemma_cong_mod(b - x0); lemma_cong_refl(x1);
    lemma_cong_add(fe_v(d), b - x0, x1, x1);
    lemma_cong_mod(fe_v(d) + x1);
    lemma_cong_trans(fe_v(v), fe_v(d) + x1, b - x0 + x1);
    lemma_cong_refl(x0); lemma_cong_refl(0);
    assert(fe_v(fe_mk(0)) == 0) by { lemma_small_mod(0, P() as nat); }
    if nt0 {
        // leader adds v, helper adds nothing and negates: (e0 + v) - e1
        let lo = fe_mk(x0 + fe_v(v));
        let ho = fe_mk(x1 + 0);
        lemma_cong_mod(x0 + fe_v(v)); lemma_cong_add(x0, x0, fe_v(v), b - x0 + x1);
        lemma_cong_trans(fe_v(lo), x0 + fe_v(v), x0 + (b - x0 + x1));
        lemma_cong_mod(x1 + 0); lemma_cong_mod(-fe_v(ho)); lemma_cong_neg(fe_v(ho), x1 + 0);
        lemma_cong_trans(fe_v(fe_mk(-fe_v(ho))), -fe_v(ho), -(x1 + 0));
        lemma_cong_add(fe_v(lo), x0 + (b - x0 + x1), fe_v(fe_mk(-fe_v(ho))), -(x1 + 0));
    } else {
        // helper's control bit is set: cw == -v; leader adds nothing; helper: -(e1 + (-v))
        let cw = fe_mk(-fe_v(v));
        lemma_cong_mod(-fe_v(v)); lemma_cong_neg(fe_v(v), b - x0 + x1);
        lemma_cong_trans(fe_v(cw), -fe_v(v), -(b - x0 + x1));
        let lo = fe_mk(x0 + 0);
        let ho = fe_mk(x1 + fe_v(cw));
        lemma_cong_mod(x0 + 0);
        lemma_cong_mod(x1 + fe_v(cw)); lemma_cong_add(x1, x1, fe_v(cw), -(b - x0 + x1));
        lemma_cong_trans(fe_v(ho), x1 + fe_v(cw), x1 + (-(b - x0 + x1)));
        lemma_cong_mod(-fe_v(ho)); lemma_cong_neg(fe_v(ho), x1 + (-(b - x0 + x1)));
        lemma_cong_trans(fe_v(fe_mk(-fe_v(ho))), -fe_v(ho), -(x1 + (-(b - x0 + x1))));
        lemma_cong_add(fe_v(lo), x0 + 0, fe_v(fe_mk(-fe_v(ho))), -(x1 + (-(b - x0 + x1))));
    }
}
'''


def unit():
    u = VUnit('idpf_step', 'generate_correction_word / eval_next == the specified construction; level theorem (on-path follow/leave, off-path)')
    u.raw('global size_of usize == 8;\n' + FE_PRELUDE, 'abstract-field')
    u.raw(PRELUDE, 'abstract-seeds-bits')
    u.struct_item(F, ['struct IdpfCorrectionWord'], rewrites=[(r'struct IdpfCorrectionWord<V>', 'pub struct IdpfCorrectionWord', 1), (r'\[u8; 16\]', 'Seed16', 1), (r'value: V,', 'value: Fe,', 1),
                                                               (r'\bseed:', 'pub seed:', 1), (r'\bcontrol_bits:', 'pub control_bits:', 1), (r'\bvalue:', 'pub value:', 1)])
    u.raw(SPEC, 'construction-spec')
    COMMON = [(r'IdpfCorrectionWord<V>', 'IdpfCorrectionWord', '*'), (r'convert::<V>\(', 'convert(', '*'), (r'(fn \w+)<V>\(', r'\1(', 1), (r'where\s+V: IdpfValue,', '', 1), (r'\[u8; 16\]', 'Seed16', '*'), (r'XofMode<\'_>', 'XofMode', '*'), (r'V::ValueParameter', 'ValueParam', '*'),
              ]
    u.item(F, ['fn generate_correction_word'], ret='r',
           rewrites=COMMON + [(r'value: V,', 'value: Fe,', 1)],
           sig='''
ensures
    ({ let g = gen_level(*extend_mode, *convert_mode, *parameter, old(keys)[0], old(keys)[1], old(control_bits)[0].0, old(control_bits)[1].0, input_bit.0, value);
       &&& r.seed == g.cw_seed && r.control_bits[0].0 == g.cw_t0 && r.control_bits[1].0 == g.cw_t1 && r.value == g.cw_v
       &&& final(keys)[0] == g.k0 && final(keys)[1] == g.k1 && final(control_bits)[0].0 == g.t0 && final(control_bits)[1].0 == g.t1 }),
''')
    u.item(F, ['fn eval_next'], ret='r',
           rewrites=COMMON + [(r'\) -> V\b', ') -> Fe', 1),
                              (r'V::conditional_select\(&V::zero\(parameter\), ', 'Fe::conditional_select(&fe_zero(), ', 1),
                              (r'Choice::from\(\(!is_leader\) as u8\)', 'Choice::from_bool(!is_leader)', 1)],
           sig='''
ensures
    ({ let ev = eval_level(*extend_mode, *convert_mode, *parameter, is_leader, *old(key), old(control_bit).0, correction_word.seed, correction_word.control_bits[0].0, correction_word.control_bits[1].0, correction_word.value, input_bit.0);
       r == ev.out && *final(key) == ev.key && final(control_bit).0 == ev.t }),
''', before=[('let mut out', 'broadcast use axiom_fe_range;')])
    u.raw(THEOREM, 'level-theorem')
    u.raw(PATH, 'tree-theorem')
    u.raw(TREE_SHIMS, 'tree-shims')
    II = ['impl<VI, VL> Idpf<VI, VL>']
    MODES = [(r'XofFixedKeyAes128Key::new\(&\[EXTEND_DOMAIN_SEP, ctx\], nonce\)', 'mode_inner(0, ctx, nonce)', 1),
             (r'XofFixedKeyAes128Key::new\(&\[CONVERT_DOMAIN_SEP, ctx\], nonce\)', 'mode_inner(1, ctx, nonce)', 1),
             (r'&XofMode::Inner\(&extend_xof_fixed_key\)', '&extend_xof_fixed_key', '*'), (r'&XofMode::Inner\(&convert_xof_fixed_key\)', '&convert_xof_fixed_key', '*'),
             (r'&XofMode::Leaf\(ctx, nonce\)', '&mode_leaf(ctx, nonce)', '*')]
    u.item(F, II + ['fn gen_with_random'], ret='r', impl_header='impl Idpf', attrs='#[verifier::loop_isolation(false)]',
           rewrites=MODES + [
               (r'(?:pub\(crate\) )?fn gen_with_random<M: IntoIterator<Item = VI>>\(.*?\) -> Result<\(IdpfPublicShare<VI, VL>, \[Seed<16>; 2\]\), VdafError> \{',
                'fn gen_with_random(&self, input: &IdpfInput, inner_values: &Vec<Fe>, leaf_value: Fe, ctx: &[u8], nonce: &[u8], random: &[Seed16; 2]) -> Result<(IdpfPublicShare, [Seed16; 2]), VdafError> {', 1),
               (r'let initial_keys: \[Seed<16>; 2\] =\s*\[Seed::from_bytes\(random\[0\]\), Seed::from_bytes\(random\[1\]\)\];', 'let initial_keys: [Seed16; 2] = [random[0], random[1]];', 1),
               (r'\[initial_keys\[0\]\.0, initial_keys\[1\]\.0\]', '[initial_keys[0], initial_keys[1]]', 1),
               (r'let mut inner_correction_words = Vec::with_capacity', 'let mut inner_correction_words: Vec<IdpfCorrectionWord> = Vec::with_capacity', 1),
               (r'for \(level, value\) in inner_values\.into_iter\(\)\.enumerate\(\) \{', 'for level in 0..inner_values.len() { let value = inner_values[level];', 1),      # E4c
               (r'IdpfError::InvalidParameter\(\s*("[^"]*"\.to_string\(\)),?\s*\)\s*\.into\(\)', r'VdafError::Idpf(IdpfError::InvalidParameter(\1))', 2),
               (r'generate_correction_word::<V[IL]>\(', 'generate_correction_word(', 2),
               (r'Choice::from\(input\[level\] as u8\)', 'input.bit_choice(level)', 1), (r'Choice::from\(input\[bits - 1\] as u8\)', 'input.bit_choice(bits - 1)', 1)],
           sig="""
requires
    input.bits().len() >= 1,          // derived: Idpf::gen refuses an empty input; Poplar1 has bits >= 1
ensures
    r is Ok <==> inner_values@.len() == input.bits().len() - 1,
    // the public share holds, level by level, the correction word of the construction; the initial keys are the two random seeds
    r is Ok ==> r->Ok_0.1[0] == random[0] && r->Ok_0.1[1] == random[1]
        && share_of(r->Ok_0.0, modes_of(*self, ctx@, nonce@), random[0], random[1], input.bits(), inner_values@.push(leaf_value)),
""", loops={0: """
invariant
    bits == input.bits().len(), level <= bits - 1 || level <= inner_values@.len(),
    inner_correction_words@.len() == level, level <= bits - 1,
    extend_xof_fixed_key == mode_inner_spec(0, ctx@, nonce@), convert_xof_fixed_key == mode_inner_spec(1, ctx@, nonce@),
    ({ let s = gen_state(modes_of(*self, ctx@, nonce@), random[0], random[1], input.bits(), inner_values@.push(leaf_value), level as int);
       keys[0] == s.k0 && keys[1] == s.k1 && control_bits[0].0 == s.t0 && control_bits[1].0 == s.t1 }),
    forall|l: int| 0 <= l < level ==> cw_matches(#[trigger] inner_correction_words@[l], gen_cw(modes_of(*self, ctx@, nonce@), random[0], random[1], input.bits(), inner_values@.push(leaf_value), l)),
"""}, before=[('inner_correction_words.push(', """
    assert(inner_values@.push(leaf_value)[level as int] == inner_values@[level as int]);
"""), ('let leaf_correction_word', """
    assert(inner_values@.push(leaf_value)[bits - 1] == leaf_value);
""")])
    u.item(F, II + ['fn eval_from_node'], ret='r', impl_header='impl Idpf', attrs='#[verifier::loop_isolation(false)]',
           rewrites=MODES + [
               (r'fn eval_from_node\(\s*&self,.*?\) -> Result<IdpfOutputShare<VI, VL>, IdpfError> \{',
                'fn eval_from_node(&self, is_leader: bool, public_share: &IdpfPublicShare, start_level: usize, mut key: Seed16, mut control_bit: Choice, prefix: &IdpfInput, ctx: &[u8], nonce: &[u8], cache: &mut Cache) -> Result<IdpfOutputShare, IdpfError> {', 1),
               (r'let mut last_inner_output = None;', 'let mut last_inner_output: Option<Fe> = None;', 1),
               # E4c: zip of the two tails with the level counter == index loop up to the shorter of the two
               (r'for \(\(correction_word, input_bit\), level\) in public_share\.inner_correction_words\s*\[start_level\.\.\]\s*\.iter\(\)\s*\.zip\(prefix\[start_level\.\.\]\.iter\(\)\)\s*\.zip\(start_level\.\.\)\s*\{',
                'let end_ = if public_share.inner_correction_words.len() <= prefix.len() { public_share.inner_correction_words.len() } else { prefix.len() }; for level in start_level..end_ { let correction_word = &public_share.inner_correction_words[level];', 1),
               (r'Choice::from\(\*input_bit as u8\)', 'prefix.bit_choice(level)', 1),
               (r'let cache_key = &prefix\[\.\.=level\];', '', 1),
               (r'cache\.insert\(cache_key, &\(key, control_bit\.unwrap_u8\(\)\)\);', 'cache_insert(cache, prefix, level, &key, control_bit);', 1),
               (r'Choice::from\(prefix\[bits - 1\] as u8\)', 'prefix.bit_choice(bits - 1)', 1)],
           sig="""
requires
    // derived from Idpf::eval: a non-empty prefix no longer than the tree, started at a level above its end (slicing at start_level and the
    // unwrap of the last inner output panic otherwise)
    1 <= prefix.bits().len() <= public_share.inner_correction_words@.len() + 1,
    public_share.inner_correction_words@.len() < usize::MAX,          // a Vec never holds usize::MAX elements
    start_level <= public_share.inner_correction_words@.len(), start_level <= prefix.bits().len(),
    prefix.bits().len() <= public_share.inner_correction_words@.len() ==> start_level < prefix.bits().len(),
ensures
    r is Ok,
    // the output share of the LAST level of the prefix, computed by iterating the level step from (key, control_bit) at start_level
    ({ let e = eval_from(modes_of(*self, ctx@, nonce@), *public_share, is_leader, key, control_bit.0, prefix.bits(), start_level as int, prefix.bits().len() as int);
       match r->Ok_0 { IdpfOutputShare::Inner(v) => prefix.bits().len() <= public_share.inner_correction_words@.len() && v == e.out,
                       IdpfOutputShare::Leaf(v) => prefix.bits().len() == public_share.inner_correction_words@.len() + 1 && v == e.out } }),
""", ghost_before=[('let bits = public_share', 'let ghost key0 = key;\nlet ghost t0 = control_bit.0;')],
           loops={0: """
invariant
    start_level <= level <= end_ || (end_ < start_level && level == start_level),
    extend_xof_fixed_key == mode_inner_spec(0, ctx@, nonce@), convert_xof_fixed_key == mode_inner_spec(1, ctx@, nonce@),
    ({ let e = eval_from(modes_of(*self, ctx@, nonce@), *public_share, is_leader, key0, t0, prefix.bits(), start_level as int, level as int);
       key == e.key && control_bit.0 == e.t && (level > start_level ==> last_inner_output == Some(e.out)) }),
"""})
    u.raw(END2END, 'end-to-end-theorem')
    return u


PATH = '''
// ---- the whole tree: iterate the level along the input (key generation) and along a prefix (evaluation) ---------------------------------------
// level l uses the inner modes/parameter for l < bits - 1 and the leaf ones for l == bits - 1
pub struct Modes { pub xi: XofMode, pub ci: XofMode, pub vi: ValueParam, pub xl: XofMode, pub cl: XofMode, pub vl: ValueParam }
pub open spec fn xm_at(m: Modes, bits: int, l: int) -> XofMode { if l < bits - 1 { m.xi } else { m.xl } }
pub open spec fn cm_at(m: Modes, bits: int, l: int) -> XofMode { if l < bits - 1 { m.ci } else { m.cl } }
pub open spec fn vp_at(m: Modes, bits: int, l: int) -> ValueParam { if l < bits - 1 { m.vi } else { m.vl } }
pub struct GState { pub k0: Seed16, pub k1: Seed16, pub t0: bool, pub t1: bool }
// key-generation state after n levels (keys/control bits on the input's path) - initial control bits are (0, 1)
pub open spec fn gen_state(m: Modes, r0: Seed16, r1: Seed16, input: Seq<bool>, betas: Seq<Fe>, n: int) -> GState decreases n
{
    if n <= 0 { GState { k0: r0, k1: r1, t0: false, t1: true } } else {
        let s = gen_state(m, r0, r1, input, betas, n - 1);
        let g = gen_level(xm_at(m, input.len() as int, n - 1), cm_at(m, input.len() as int, n - 1), vp_at(m, input.len() as int, n - 1), s.k0, s.k1, s.t0, s.t1, input[n - 1], betas[n - 1]);
        GState { k0: g.k0, k1: g.k1, t0: g.t0, t1: g.t1 }
    }
}
// the public correction word of level l
pub open spec fn gen_cw(m: Modes, r0: Seed16, r1: Seed16, input: Seq<bool>, betas: Seq<Fe>, l: int) -> GenOut {
    let s = gen_state(m, r0, r1, input, betas, l);
    gen_level(xm_at(m, input.len() as int, l), cm_at(m, input.len() as int, l), vp_at(m, input.len() as int, l), s.k0, s.k1, s.t0, s.t1, input[l], betas[l])
}
// one party's evaluation state after descending n levels along `prefix` (from its root key; the leader starts with control bit 0, the helper with 1)
pub open spec fn eval_state(m: Modes, r0: Seed16, r1: Seed16, input: Seq<bool>, betas: Seq<Fe>, is_leader: bool, prefix: Seq<bool>, n: int) -> EvalOut decreases n
{
    if n <= 0 { EvalOut { key: if is_leader { r0 } else { r1 }, t: !is_leader, out: fe_mk(0) } } else {
        let s = eval_state(m, r0, r1, input, betas, is_leader, prefix, n - 1);
        let cw = gen_cw(m, r0, r1, input, betas, n - 1);
        eval_level(xm_at(m, input.len() as int, n - 1), cm_at(m, input.len() as int, n - 1), vp_at(m, input.len() as int, n - 1), is_leader, s.key, s.t, cw.cw_seed, cw.cw_t0, cw.cw_t1, cw.cw_v, prefix[n - 1])
    }
}
pub open spec fn is_prefix(prefix: Seq<bool>, input: Seq<bool>, n: int) -> bool { forall|i: int| 0 <= i < n ==> prefix[i] == input[i] }
// IDPF CORRECTNESS (for the construction the per-level contracts specify): at every level n of every prefix, the two parties' output shares
// sum to beta_{n-1} if the prefix is a prefix of the programmed input, and to zero otherwise
proof fn theorem_idpf(m: Modes, r0: Seed16, r1: Seed16, input: Seq<bool>, betas: Seq<Fe>, prefix: Seq<bool>, n: int)
    requires 0 <= n <= prefix.len(), n <= input.len(), betas.len() == input.len()
    ensures ({
        let l = eval_state(m, r0, r1, input, betas, true, prefix, n);
        let h = eval_state(m, r0, r1, input, betas, false, prefix, n);
        let g = gen_state(m, r0, r1, input, betas, n);
        // on the path the parties hold exactly the generation state (control bits differ); off it they hold equal keys and control bits
        &&& is_prefix(prefix, input, n) ==> l.key == g.k0 && h.key == g.k1 && l.t == g.t0 && h.t == g.t1 && l.t != h.t
        &&& !is_prefix(prefix, input, n) ==> l.key == h.key && l.t == h.t
        &&& n >= 1 ==> cong(fe_v(l.out) + fe_v(h.out), if is_prefix(prefix, input, n) { fe_v(betas[n - 1]) } else { 0 })
    })
    decreases n
{
    if n > 0 {
        theorem_idpf(m, r0, r1, input, betas, prefix, n - 1);
        let bits = input.len() as int;
        let lp = eval_state(m, r0, r1, input, betas, true, prefix, n - 1);
        let hp = eval_state(m, r0, r1, input, betas, false, prefix, n - 1);
        let gp = gen_state(m, r0, r1, input, betas, n - 1);
        let xm = xm_at(m, bits, n - 1); let cm = cm_at(m, bits, n - 1); let vp = vp_at(m, bits, n - 1);
        let cw = gen_cw(m, r0, r1, input, betas, n - 1);
        if is_prefix(prefix, input, n - 1) {
            theorem_level(xm, cm, vp, gp.k0, gp.k1, gp.t0, gp.t1, input[n - 1], betas[n - 1], prefix[n - 1]);
            if prefix[n - 1] == input[n - 1] { assert(is_prefix(prefix, input, n)); } else { assert(!is_prefix(prefix, input, n)); }
        } else {
            assert(!is_prefix(prefix, input, n));
            theorem_level(xm, cm, vp, lp.key, hp.key, lp.t, hp.t, input[n - 1], betas[n - 1], prefix[n - 1]);
            // instantiate the off-path clause at the real correction word
            assert(eval_level(xm, cm, vp, true, lp.key, lp.t, cw.cw_seed, cw.cw_t0, cw.cw_t1, cw.cw_v, prefix[n - 1]) == eval_state(m, r0, r1, input, betas, true, prefix, n));
        }
    }
}
'''


TREE_SHIMS = '''
// ---- shims for the level loops of Idpf::gen_with_random / eval_from_node -------------------------------------------------------------------------
pub enum VdafError { Idpf(IdpfError) }
pub enum IdpfError { InvalidParameter(String) }
#[verifier::external_body]
fn fmt_opaque() -> String { String::new() }
// IdpfInput: a bit string (bitvec storage not modelled: indexing and length only)
#[verifier::external_body]
pub struct IdpfInput { _b: u8 }
impl IdpfInput {
    pub uninterp spec fn bits(&self) -> Seq<bool>;
    #[verifier::external_body]
    fn len(&self) -> (r: usize) ensures r == self.bits().len() { unimplemented!() }
    // Choice::from(input[level] as u8)
    #[verifier::external_body]
    fn bit_choice(&self, level: usize) -> (r: Choice) requires level < self.bits().len() ensures r.0 == self.bits()[level as int] { unimplemented!() }
}
// the XOF modes of a (ctx, nonce) pair: XofMode::Inner(&XofFixedKeyAes128Key::new(&[DOMAIN_SEP, ctx], nonce)) and XofMode::Leaf(ctx, nonce)
pub uninterp spec fn mode_inner_spec(which: int, ctx: Seq<u8>, nonce: Seq<u8>) -> XofMode;     // which: 0 = extend, 1 = convert
pub uninterp spec fn mode_leaf_spec(ctx: Seq<u8>, nonce: Seq<u8>) -> XofMode;
#[verifier::external_body]
fn mode_inner(which: u8, ctx: &[u8], nonce: &[u8]) -> (r: XofMode) ensures r == mode_inner_spec(which as int, ctx@, nonce@) { unimplemented!() }
#[verifier::external_body]
fn mode_leaf(ctx: &[u8], nonce: &[u8]) -> (r: XofMode) ensures r == mode_leaf_spec(ctx@, nonce@) { unimplemented!() }
pub struct Idpf { pub inner_node_value_parameter: ValueParam, pub leaf_node_value_parameter: ValueParam }
pub struct IdpfPublicShare { pub inner_correction_words: Vec<IdpfCorrectionWord>, pub leaf_correction_word: IdpfCorrectionWord }
pub enum IdpfOutputShare { Inner(Fe), Leaf(Fe) }
pub open spec fn modes_of(idpf: Idpf, ctx: Seq<u8>, nonce: Seq<u8>) -> Modes {
    Modes { xi: mode_inner_spec(0, ctx, nonce), ci: mode_inner_spec(1, ctx, nonce), vi: idpf.inner_node_value_parameter,
            xl: mode_leaf_spec(ctx, nonce), cl: mode_leaf_spec(ctx, nonce), vl: idpf.leaf_node_value_parameter }
}
pub open spec fn cw_matches(w: IdpfCorrectionWord, g: GenOut) -> bool { w.seed == g.cw_seed && w.control_bits[0].0 == g.cw_t0 && w.control_bits[1].0 == g.cw_t1 && w.value == g.cw_v }
// the public share is the one key generation produces for (input, betas)
pub open spec fn share_of(ps: IdpfPublicShare, m: Modes, r0: Seed16, r1: Seed16, input: Seq<bool>, betas: Seq<Fe>) -> bool {
    &&& ps.inner_correction_words@.len() == input.len() - 1
    &&& forall|l: int| 0 <= l < input.len() - 1 ==> cw_matches(#[trigger] ps.inner_correction_words@[l], gen_cw(m, r0, r1, input, betas, l))
    &&& cw_matches(ps.leaf_correction_word, gen_cw(m, r0, r1, input, betas, input.len() - 1))
}
// the correction word of level l in a public share of `bits` levels
pub open spec fn word_at(ps: IdpfPublicShare, l: int) -> IdpfCorrectionWord { if l < ps.inner_correction_words@.len() { ps.inner_correction_words@[l] } else { ps.leaf_correction_word } }
// evaluation of one party along `prefix` from level `from` (holding key / control bit t there) down to level `to`
pub open spec fn eval_from(m: Modes, ps: IdpfPublicShare, is_leader: bool, key: Seed16, t: bool, prefix: Seq<bool>, from: int, to: int) -> EvalOut decreases to - from
{
    if to <= from { EvalOut { key, t, out: fe_mk(0) } } else {
        let s = eval_from(m, ps, is_leader, key, t, prefix, from, to - 1);
        let w = word_at(ps, to - 1);
        let bits = ps.inner_correction_words@.len() as int + 1;
        eval_level(xm_at(m, bits, to - 1), cm_at(m, bits, to - 1), vp_at(m, bits, to - 1), is_leader, s.key, s.t, w.seed, w.control_bits[0].0, w.control_bits[1].0, w.value, prefix[to - 1])
    }
}
// IdpfCache::insert: no effect on the evaluation (cache transparency is NOT decided: bitvec keys)
#[verifier::external_body]
pub struct Cache { _c: u8 }
#[verifier::external_body]
fn cache_insert(cache: &mut Cache, prefix: &IdpfInput, level: usize, key: &Seed16, control_bit: Choice) { unimplemented!() }
'''


END2END = '''
// ---- gen_with_random + eval_from_node (from the root, both parties) meet the IDPF specification ---------------------------------------------------
proof fn lemma_eval_from_is_state(m: Modes, ps: IdpfPublicShare, r0: Seed16, r1: Seed16, input: Seq<bool>, betas: Seq<Fe>, is_leader: bool, prefix: Seq<bool>, n: int)
    requires share_of(ps, m, r0, r1, input, betas), input.len() >= 1, 0 <= n <= prefix.len(), n <= input.len()
    ensures eval_from(m, ps, is_leader, if is_leader { r0 } else { r1 }, !is_leader, prefix, 0, n) == eval_state(m, r0, r1, input, betas, is_leader, prefix, n)
    decreases n
{
    if n > 0 {
        lemma_eval_from_is_state(m, ps, r0, r1, input, betas, is_leader, prefix, n - 1);
        let w = word_at(ps, n - 1);
        assert(cw_matches(w, gen_cw(m, r0, r1, input, betas, n - 1)));
        assert(ps.inner_correction_words@.len() as int + 1 == input.len());
    }
}
// what Idpf::gen_with_random hands out and what the two parties compute with Idpf::eval_from_node from their root keys:
// the output shares at the last level of ANY prefix sum to the value programmed for that level if the prefix lies on the input's path, to zero otherwise
proof fn theorem_idpf_end_to_end(m: Modes, ps: IdpfPublicShare, r0: Seed16, r1: Seed16, input: Seq<bool>, betas: Seq<Fe>, prefix: Seq<bool>)
    requires share_of(ps, m, r0, r1, input, betas), betas.len() == input.len(), 1 <= prefix.len() <= input.len()
    ensures ({
        let n = prefix.len() as int;
        let l = eval_from(m, ps, true, r0, false, prefix, 0, n);
        let h = eval_from(m, ps, false, r1, true, prefix, 0, n);
        cong(fe_v(l.out) + fe_v(h.out), if is_prefix(prefix, input, n) { fe_v(betas[n - 1]) } else { 0 })
    })
{
    let n = prefix.len() as int;
    lemma_eval_from_is_state(m, ps, r0, r1, input, betas, true, prefix, n);
    lemma_eval_from_is_state(m, ps, r0, r1, input, betas, false, prefix, n);
    theorem_idpf(m, r0, r1, input, betas, prefix, n);
}
'''
