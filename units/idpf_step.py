"""C06 — one level of the IDPF under contract (Verus): generate_correction_word and eval_next (src/idpf.rs, straight-line, extracted
whole) and the LEVEL THEOREM over the two contracts - including the ON-PATH step that the Kani harnesses idpf_level_on_path_* do not
finish within any time box tried (M39).

Abstractions (listed as assumptions): 16-byte seeds are an abstract type `Seed16` with xor a commutative, associative, self-inverse
operation (true of bytewise xor; xor_seeds / conditional_xor_seeds / conditional_select_seed have the contracts proved complete by the
Kani harness idpf_seed_helpers); `subtle::Choice` is a bit with ^, &, !, conditional_select; `extend` and `convert` (XOF expansion) are
uninterpreted deterministic functions of the seed; node values are elements of the abstract field `Fe` (the blanket IdpfValue impl;
select / negate contracts: Kani harness idpf_value_select).

Contracts: each function returns exactly the value of a spec function mirroring the specification of the construction
(gen_level / eval_level).  THEOREM (lemma over the two contracts, all seeds, control bits, input bits and values):

  ON the input's path (the parties' control bits differ):
      evaluating the child the input FOLLOWS: each party arrives at exactly the key and control bit key generation left for it, the control
          bits still differ, and the two output shares sum to the programmed value beta;
      evaluating the OTHER child: both parties arrive at the SAME key and the SAME control bit, and the output shares sum to zero;
  OFF the path (equal keys, equal control bits): they stay equal for both children and the output shares sum to zero

- so by induction on the level the shares sum to beta_l on every prefix of the input and to zero everywhere else.  The induction over the
level loops of Idpf::gen_with_random / eval_from_node (bitvec-indexed, cache-mediated) is NOT mechanised."""
from fe_common import FE_PRELUDE
from vunit import VUnit

F = 'src/idpf.rs'
PRELUDE = '''
// ---- subtle::Choice: a bit -------------------------------------------------------------------------------------------------------------
#[derive(Clone, Copy)]
pub struct Choice(pub bool);
impl BitXorSpecImpl<Choice> for Choice {
    open spec fn obeys_bitxor_spec() -> bool { true }
    open spec fn bitxor_req(self, rhs: Choice) -> bool { true }
    open spec fn bitxor_spec(self, rhs: Choice) -> Choice { Choice(self.0 != rhs.0) }
}
impl core::ops::BitXor for Choice { type Output = Choice; #[verifier::external_body] fn bitxor(self, rhs: Choice) -> Choice { unimplemented!() } }
impl BitAndSpecImpl<Choice> for Choice {
    open spec fn obeys_bitand_spec() -> bool { true }
    open spec fn bitand_req(self, rhs: Choice) -> bool { true }
    open spec fn bitand_spec(self, rhs: Choice) -> Choice { Choice(self.0 && rhs.0) }
}
impl core::ops::BitAnd for Choice { type Output = Choice; #[verifier::external_body] fn bitand(self, rhs: Choice) -> Choice { unimplemented!() } }
impl NotSpecImpl for Choice {
    open spec fn obeys_not_spec() -> bool { true }
    open spec fn not_req(self) -> bool { true }
    open spec fn not_spec(self) -> Choice { Choice(!self.0) }
}
impl core::ops::Not for Choice { type Output = Choice; #[verifier::external_body] fn not(self) -> Choice { unimplemented!() } }
impl BitXorAssignSpecImpl<Choice> for Choice {
    open spec fn obeys_bitxor_assign_spec() -> bool { true }
    open spec fn bitxor_assign_req(&self, rhs: Choice) -> bool { true }
    open spec fn bitxor_assign_spec(&self, rhs: Choice) -> &Choice { &Choice(self.0 != rhs.0) }
}
impl core::ops::BitXorAssign for Choice { #[verifier::external_body] fn bitxor_assign(&mut self, rhs: Choice) { unimplemented!() } }
impl Choice {
    #[verifier::external_body]
    fn from(x: u8) -> (r: Choice) requires x <= 1 ensures r.0 == (x == 1) { unimplemented!() }
    #[verifier::external_body]
    fn from_bool(b: bool) -> (r: Choice) ensures r.0 == b { unimplemented!() }            // Choice::from(b as u8)
    #[verifier::external_body]
    fn conditional_select(a: &Choice, b: &Choice, c: Choice) -> (r: Choice) ensures r == (if c.0 { *b } else { *a }) { unimplemented!() }
}
// ---- 16-byte seeds with xor (contracts of the seed helpers: Kani harness idpf_seed_helpers, complete) ------------------------------------
#[verifier::external_body]
#[derive(Clone, Copy)]
pub struct Seed16 { _s: u128 }
pub uninterp spec fn sxor(a: Seed16, b: Seed16) -> Seed16;
#[verifier::external_body]
pub broadcast proof fn axiom_sxor(a: Seed16, b: Seed16, c: Seed16)
    ensures #[trigger] sxor(sxor(a, b), c) == sxor(a, sxor(b, c)), sxor(a, b) == sxor(b, a), sxor(sxor(a, b), b) == a, sxor(a, sxor(a, b)) == b
{}
#[verifier::external_body]
fn xor_seeds(left: &Seed16, right: &Seed16) -> (r: Seed16) ensures r == sxor(*left, *right) { unimplemented!() }
#[verifier::external_body]
fn conditional_xor_seeds(normal_input: &Seed16, switched_input: &Seed16, control: Choice) -> (r: Seed16)
    ensures r == (if control.0 { sxor(*normal_input, *switched_input) } else { *normal_input }) { unimplemented!() }
#[verifier::external_body]
fn conditional_select_seed(select: Choice, seeds: &[Seed16; 2]) -> (r: Seed16) ensures r == (if select.0 { seeds[1] } else { seeds[0] }) { unimplemented!() }
// ---- XOF expansion: uninterpreted deterministic functions of the seed (and of the mode, which is fixed within a level) -------------------
#[verifier::external_body]
pub struct XofMode { _m: u8 }
pub struct ValueParam { pub p: u8 }
pub uninterp spec fn ext_s(xm: XofMode, seed: Seed16, i: int) -> Seed16;
pub uninterp spec fn ext_t(xm: XofMode, seed: Seed16, i: int) -> bool;
pub uninterp spec fn conv_k(cm: XofMode, vp: ValueParam, seed: Seed16) -> Seed16;
pub uninterp spec fn conv_v(cm: XofMode, vp: ValueParam, seed: Seed16) -> Fe;
#[verifier::external_body]
fn extend(seed: &Seed16, xof_mode: &XofMode) -> (r: ([Seed16; 2], [Choice; 2]))
    ensures r.0[0] == ext_s(*xof_mode, *seed, 0), r.0[1] == ext_s(*xof_mode, *seed, 1), r.1[0].0 == ext_t(*xof_mode, *seed, 0), r.1[1].0 == ext_t(*xof_mode, *seed, 1)
{ unimplemented!() }
#[verifier::external_body]
fn convert(seed: &Seed16, xof_mode: &XofMode, parameter: &ValueParam) -> (r: (Seed16, Fe)) ensures r.0 == conv_k(*xof_mode, *parameter, *seed), r.1 == conv_v(*xof_mode, *parameter, *seed) { unimplemented!() }
// ---- IdpfValue for a field element (blanket impl; Kani harness idpf_value_select) --------------------------------------------------------
pub open spec fn neg_if(c: bool, x: Fe) -> Fe { if c { fe_mk(-fe_v(x)) } else { x } }
impl Fe {
    #[verifier::external_body]
    fn conditional_negate(&mut self, c: Choice) ensures *final(self) == neg_if(c.0, *old(self)) { unimplemented!() }
    #[verifier::external_body]
    fn conditional_select(a: &Fe, b: &Fe, c: Choice) -> (r: Fe) ensures r == (if c.0 { *b } else { *a }) { unimplemented!() }
}
'''

SPEC = '''
// ---- the construction, as spec functions ---------------------------------------------------------------------------------------------------
pub open spec fn bsel(c: bool, a: bool, b: bool) -> bool { if c { b } else { a } }
pub open spec fn ssel(c: bool, a: Seed16, b: Seed16) -> Seed16 { if c { b } else { a } }
pub open spec fn cxor(a: Seed16, b: Seed16, c: bool) -> Seed16 { if c { sxor(a, b) } else { a } }
pub struct GenOut { pub cw_seed: Seed16, pub cw_t0: bool, pub cw_t1: bool, pub cw_v: Fe, pub k0: Seed16, pub k1: Seed16, pub t0: bool, pub t1: bool }
// key generation at one level: parties' keys k0/k1 and control bits t0/t1, input bit a, programmed value beta
pub open spec fn gen_level(xm: XofMode, cm: XofMode, vp: ValueParam, k0: Seed16, k1: Seed16, t0: bool, t1: bool, a: bool, beta: Fe) -> GenOut {
    let lose = !a;
    let cw_seed = sxor(ssel(lose, ext_s(xm, k0, 0), ext_s(xm, k0, 1)), ssel(lose, ext_s(xm, k1, 0), ext_s(xm, k1, 1)));
    let cw_t0 = ((ext_t(xm, k0, 0) != ext_t(xm, k1, 0)) != a) != true;
    let cw_t1 = (ext_t(xm, k0, 1) != ext_t(xm, k1, 1)) != a;
    let cw_t_keep = bsel(a, cw_t0, cw_t1);
    let nt0 = bsel(a, ext_t(xm, k0, 0), ext_t(xm, k0, 1)) != (cw_t_keep && t0);
    let nt1 = bsel(a, ext_t(xm, k1, 0), ext_t(xm, k1, 1)) != (cw_t_keep && t1);
    let sc0 = cxor(ssel(a, ext_s(xm, k0, 0), ext_s(xm, k0, 1)), cw_seed, t0);
    let sc1 = cxor(ssel(a, ext_s(xm, k1, 0), ext_s(xm, k1, 1)), cw_seed, t1);
    let v = fe_mk(fe_v(fe_mk(fe_v(beta) - fe_v(conv_v(cm, vp, sc0)))) + fe_v(conv_v(cm, vp, sc1)));
    GenOut { cw_seed, cw_t0, cw_t1, cw_v: neg_if(nt1, v), k0: conv_k(cm, vp, sc0), k1: conv_k(cm, vp, sc1), t0: nt0, t1: nt1 }
}
pub struct EvalOut { pub key: Seed16, pub t: bool, pub out: Fe }
// evaluation of one party at one level: its key and control bit, the public correction word, the child e to descend to
pub open spec fn eval_level(xm: XofMode, cm: XofMode, vp: ValueParam, is_leader: bool, key: Seed16, t: bool, cw_seed: Seed16, cw_t0: bool, cw_t1: bool, cw_v: Fe, e: bool) -> EvalOut {
    let s0 = cxor(ext_s(xm, key, 0), cw_seed, t);
    let s1 = cxor(ext_s(xm, key, 1), cw_seed, t);
    let c0 = ext_t(xm, key, 0) != (cw_t0 && t);
    let c1 = ext_t(xm, key, 1) != (cw_t1 && t);
    let sc = ssel(e, s0, s1);
    let nt = bsel(e, c0, c1);
    let el = conv_v(cm, vp, sc);
    let o = fe_mk(fe_v(el) + fe_v(if nt { cw_v } else { fe_mk(0) }));
    EvalOut { key: conv_k(cm, vp, sc), t: nt, out: neg_if(!is_leader, o) }
}
'''

THEOREM = '''
// ---- THE LEVEL THEOREM ------------------------------------------------------------------------------------------------------------------------
proof fn lemma_fe_sum(a: Fe, b: Fe, c: Fe, pos: bool)
    // (a + [c or 0 per party]) - (b + ...) arithmetic, as congruences; used by both cases below
    ensures true
{ }
proof fn theorem_level(xm: XofMode, cm: XofMode, vp: ValueParam, k0: Seed16, k1: Seed16, t0: bool, t1: bool, a: bool, beta: Fe, e: bool)
    ensures
        // ON the path: control bits differ
        t0 != t1 ==> ({
            let g = gen_level(xm, cm, vp, k0, k1, t0, t1, a, beta);
            let l = eval_level(xm, cm, vp, true, k0, t0, g.cw_seed, g.cw_t0, g.cw_t1, g.cw_v, e);
            let h = eval_level(xm, cm, vp, false, k1, t1, g.cw_seed, g.cw_t0, g.cw_t1, g.cw_v, e);
            &&& e == a ==> l.key == g.k0 && h.key == g.k1 && l.t == g.t0 && h.t == g.t1 && l.t != h.t && cong(fe_v(l.out) + fe_v(h.out), fe_v(beta))
            &&& e != a ==> l.key == h.key && l.t == h.t && cong(fe_v(l.out) + fe_v(h.out), 0)
        }),
        // OFF the path: equal keys and control bits, ANY correction word
        forall|cs: Seed16, c0: bool, c1: bool, cv: Fe| k0 == k1 && t0 == t1 ==> ({
            let l = #[trigger] eval_level(xm, cm, vp, true, k0, t0, cs, c0, c1, cv, e);
            let h = eval_level(xm, cm, vp, false, k1, t1, cs, c0, c1, cv, e);
            l.key == h.key && l.t == h.t && cong(fe_v(l.out) + fe_v(h.out), 0)
        }),
{
    broadcast use axiom_sxor, axiom_fe_mk, axiom_fe_range;
    lemma_cong_refl(0);
    // OFF the path: identical computations; x + (-x) == 0
    assert forall|cs: Seed16, c0: bool, c1: bool, cv: Fe| k0 == k1 && t0 == t1 implies ({
            let l = #[trigger] eval_level(xm, cm, vp, true, k0, t0, cs, c0, c1, cv, e);
            let h = eval_level(xm, cm, vp, false, k1, t1, cs, c0, c1, cv, e);
            l.key == h.key && l.t == h.t && cong(fe_v(l.out) + fe_v(h.out), 0)
        }) by {
        let l = eval_level(xm, cm, vp, true, k0, t0, cs, c0, c1, cv, e);
        lemma_neg_sum(l.out);
    }
    if t0 != t1 {
        let g = gen_level(xm, cm, vp, k0, k1, t0, t1, a, beta);
        let l = eval_level(xm, cm, vp, true, k0, t0, g.cw_seed, g.cw_t0, g.cw_t1, g.cw_v, e);
        let h = eval_level(xm, cm, vp, false, k1, t1, g.cw_seed, g.cw_t0, g.cw_t1, g.cw_v, e);
        let sc0 = cxor(ssel(a, ext_s(xm, k0, 0), ext_s(xm, k0, 1)), g.cw_seed, t0);
        let sc1 = cxor(ssel(a, ext_s(xm, k1, 0), ext_s(xm, k1, 1)), g.cw_seed, t1);
        if e == a {
            // the corrected seeds are the ones key generation converted
            assert(l.key == g.k0 && h.key == g.k1);
            assert(l.t == g.t0 && h.t == g.t1);
            assert(l.t != h.t);
            lemma_on_path_sum(beta, conv_v(cm, vp, sc0), conv_v(cm, vp, sc1), g.t0, g.t1);
        } else {
            // leaving the path: the seed correction makes the two keys equal, the bit correction makes the control bits equal
            let i: int = if e { 1 } else { 0 };
            let x = ext_s(xm, k0, i); let y = ext_s(xm, k1, i);
            axiom_sxor(x, y, x); axiom_sxor(y, x, y);
            assert(g.cw_seed == sxor(x, y));
            assert(ssel(e, cxor(ext_s(xm, k0, 0), g.cw_seed, t0), cxor(ext_s(xm, k0, 1), g.cw_seed, t0)) == ssel(e, cxor(ext_s(xm, k1, 0), g.cw_seed, t1), cxor(ext_s(xm, k1, 1), g.cw_seed, t1)));
            assert(l.key == h.key);
            assert(l.t == h.t);
            let lo = fe_mk(fe_v(conv_v(cm, vp, ssel(e, cxor(ext_s(xm, k0, 0), g.cw_seed, t0), cxor(ext_s(xm, k0, 1), g.cw_seed, t0)))) + fe_v(if l.t { g.cw_v } else { fe_mk(0) }));
            lemma_neg_sum(lo);
        }
    }
}
// x + (-x) == 0
proof fn lemma_neg_sum(x: Fe) ensures cong(fe_v(x) + fe_v(fe_mk(-fe_v(x))), 0)
{
    broadcast use axiom_fe_mk;
    lemma_cong_mod(-fe_v(x));
    lemma_cong_refl(fe_v(x));
    lemma_cong_add(fe_v(x), fe_v(x), fe_v(fe_mk(-fe_v(x))), -fe_v(x));
}
// (e0 + [t0] cw) - (e1 + [t1] cw) == beta when exactly one control bit is set and cw = +-(beta - e0 + e1) negated iff t1
proof fn lemma_on_path_sum(beta: Fe, e0: Fe, e1: Fe, nt0: bool, nt1: bool)
    requires nt0 != nt1
    ensures ({
        let v = fe_mk(fe_v(fe_mk(fe_v(beta) - fe_v(e0))) + fe_v(e1));
        let cw = neg_if(nt1, v);
        let lo = fe_mk(fe_v(e0) + fe_v(if nt0 { cw } else { fe_mk(0) }));
        let ho = fe_mk(fe_v(e1) + fe_v(if nt1 { cw } else { fe_mk(0) }));
        cong(fe_v(lo) + fe_v(fe_mk(-fe_v(ho))), fe_v(beta))
    })
{
    broadcast use axiom_fe_mk, axiom_fe_range;
    let b = fe_v(beta); let x0 = fe_v(e0); let x1 = fe_v(e1);
    let d = fe_mk(b - x0);
    let v = fe_mk(fe_v(d) + x1);
    // v == beta - e0 + e1
    lemma_cong_mod(b - x0); lemma_cong_refl(x1);
    lemma_cong_add(fe_v(d), b - x0, x1, x1);
    lemma_cong_mod(fe_v(d) + x1);
    lemma_cong_trans(fe_v(v), fe_v(d) + x1, b - x0 + x1);
    lemma_cong_refl(x0); lemma_cong_refl(0);
    assert(fe_v(fe_mk(0)) == 0) by { lemma_small_mod(0, P() as nat); }
    if nt0 {
        // leader adds v, helper adds nothing and negates: (e0 + v) - e1
        let lo = fe_mk(x0 + fe_v(v));
        let ho = fe_mk(x1 + 0);
        lemma_cong_mod(x0 + fe_v(v)); lemma_cong_add(x0, x0, fe_v(v), b - x0 + x1);
        lemma_cong_trans(fe_v(lo), x0 + fe_v(v), x0 + (b - x0 + x1));
        lemma_cong_mod(x1 + 0); lemma_cong_mod(-fe_v(ho)); lemma_cong_neg(fe_v(ho), x1 + 0);
        lemma_cong_trans(fe_v(fe_mk(-fe_v(ho))), -fe_v(ho), -(x1 + 0));
        lemma_cong_add(fe_v(lo), x0 + (b - x0 + x1), fe_v(fe_mk(-fe_v(ho))), -(x1 + 0));
    } else {
        // helper's control bit is set: cw == -v; leader adds nothing; helper: -(e1 + (-v))
        let cw = fe_mk(-fe_v(v));
        lemma_cong_mod(-fe_v(v)); lemma_cong_neg(fe_v(v), b - x0 + x1);
        lemma_cong_trans(fe_v(cw), -fe_v(v), -(b - x0 + x1));
        let lo = fe_mk(x0 + 0);
        let ho = fe_mk(x1 + fe_v(cw));
        lemma_cong_mod(x0 + 0);
        lemma_cong_mod(x1 + fe_v(cw)); lemma_cong_add(x1, x1, fe_v(cw), -(b - x0 + x1));
        lemma_cong_trans(fe_v(ho), x1 + fe_v(cw), x1 + (-(b - x0 + x1)));
        lemma_cong_mod(-fe_v(ho)); lemma_cong_neg(fe_v(ho), x1 + (-(b - x0 + x1)));
        lemma_cong_trans(fe_v(fe_mk(-fe_v(ho))), -fe_v(ho), -(x1 + (-(b - x0 + x1))));
        lemma_cong_add(fe_v(lo), x0 + 0, fe_v(fe_mk(-fe_v(ho))), -(x1 + (-(b - x0 + x1))));
    }
}
'''


def unit():
    u = VUnit('idpf_step', 'generate_correction_word / eval_next == the specified construction; level theorem (on-path follow/leave, off-path)')
    u.raw('global size_of usize == 8;\n' + FE_PRELUDE, 'abstract-field')
    u.raw(PRELUDE, 'abstract-seeds-bits')
    u.struct_item(F, ['struct IdpfCorrectionWord'], rewrites=[(r'struct IdpfCorrectionWord<V>', 'pub struct IdpfCorrectionWord', 1), (r'\[u8; 16\]', 'Seed16', 1), (r'value: V,', 'value: Fe,', 1),
                                                               (r'\bseed:', 'pub seed:', 1), (r'\bcontrol_bits:', 'pub control_bits:', 1), (r'\bvalue:', 'pub value:', 1)])
    u.raw(SPEC, 'construction-spec')
    COMMON = [(r'IdpfCorrectionWord<V>', 'IdpfCorrectionWord', '*'), (r'convert::<V>\(', 'convert(', '*'), (r'(fn \w+)<V>\(', r'\1(', 1), (r'where\s+V: IdpfValue,', '', 1), (r'\[u8; 16\]', 'Seed16', '*'), (r'XofMode<\'_>', 'XofMode', '*'), (r'V::ValueParameter', 'ValueParam', '*'),
              ]
    u.item(F, ['fn generate_correction_word'], ret='r',
           rewrites=COMMON + [(r'value: V,', 'value: Fe,', 1)],
           sig='''
ensures
    ({ let g = gen_level(*extend_mode, *convert_mode, *parameter, old(keys)[0], old(keys)[1], old(control_bits)[0].0, old(control_bits)[1].0, input_bit.0, value);
       &&& r.seed == g.cw_seed && r.control_bits[0].0 == g.cw_t0 && r.control_bits[1].0 == g.cw_t1 && r.value == g.cw_v
       &&& final(keys)[0] == g.k0 && final(keys)[1] == g.k1 && final(control_bits)[0].0 == g.t0 && final(control_bits)[1].0 == g.t1 }),
''')
    u.item(F, ['fn eval_next'], ret='r',
           rewrites=COMMON + [(r'\) -> V\b', ') -> Fe', 1),
                              (r'V::conditional_select\(&V::zero\(parameter\), ', 'Fe::conditional_select(&fe_zero(), ', 1),
                              (r'Choice::from\(\(!is_leader\) as u8\)', 'Choice::from_bool(!is_leader)', 1)],
           sig='''
ensures
    ({ let ev = eval_level(*extend_mode, *convert_mode, *parameter, is_leader, *old(key), old(control_bit).0, correction_word.seed, correction_word.control_bits[0].0, correction_word.control_bits[1].0, correction_word.value, input_bit.0);
       r == ev.out && *final(key) == ev.key && final(control_bit).0 == ev.t }),
''', before=[('let mut out', 'broadcast use axiom_fe_range;')])
    u.raw(THEOREM, 'level-theorem')
    return u
