"""C07/C08 — Poplar1FieldVec and Poplar1VerifierMessage codecs (src/vdaf/poplar1.rs) under contract (Verus), for vectors of ANY length:

  Poplar1FieldVec::encode: Inner(v) / Leaf(v) is exactly the element encodings of v in order (8-byte / 32-byte elements);
        encoded_len() == the number of bytes appended
  Poplar1FieldVec::decode_with_param((poplar1, agg_param)) (aggregate / output shares): Leaf exactly when the level of the aggregation
        parameter is bits - 1, with exactly one element per candidate prefix decoded from its own chunk (decode_fieldvec contract of unit
        fieldvec_codec); the count comes from the parameter, never from the wire; Err on fewer bytes
  Poplar1VerifierMessage::encode / encoded_len: SketchInner / SketchLeaf is exactly its three elements in order, Done is empty;
        encoded_len() == the number of bytes appended

Two abstract element codecs stand for Field64 (E64) and Field255 (E255).  Derived precondition of the decoder: bits >= 1 (Poplar1::new(0)
builds an instance whose `bits - 1` underflows; candidate F8 of DESIGN section 6, an instance invariant here)."""
from vunit import VUnit

F = 'src/vdaf/poplar1.rs'
PRELUDE = '''
global size_of usize == 8;
pub enum CodecError { Eof, Other }
#[verifier::external_body] #[derive(Clone, Copy)] pub struct E64 { _x: u64 }
#[verifier::external_body] #[derive(Clone, Copy)] pub struct E255 { _x: u64 }
pub uninterp spec fn enc64(e: E64) -> Seq<u8>;
pub uninterp spec fn enc255(e: E255) -> Seq<u8>;
#[verifier::external_body]
pub broadcast proof fn axiom_enc64(e: E64) ensures #[trigger] enc64(e).len() == 8 {}
#[verifier::external_body]
pub broadcast proof fn axiom_enc255(e: E255) ensures #[trigger] enc255(e).len() == 32 {}
impl E64 {
    #[verifier::external_body]
    fn encode(&self, bytes: &mut Vec<u8>) -> (r: Result<(), CodecError>) ensures r is Ok, final(bytes)@ == old(bytes)@ + enc64(*self) { unimplemented!() }
}
impl E255 {
    #[verifier::external_body]
    fn encode(&self, bytes: &mut Vec<u8>) -> (r: Result<(), CodecError>) ensures r is Ok, final(bytes)@ == old(bytes)@ + enc255(*self) { unimplemented!() }
}
pub open spec fn all64(v: Seq<E64>, n: int) -> Seq<u8> decreases n { if n <= 0 { Seq::empty() } else { all64(v, n - 1) + enc64(v[n - 1]) } }
pub open spec fn all255(v: Seq<E255>, n: int) -> Seq<u8> decreases n { if n <= 0 { Seq::empty() } else { all255(v, n - 1) + enc255(v[n - 1]) } }
proof fn lemma_all64_len(v: Seq<E64>, n: int) requires 0 <= n <= v.len() ensures all64(v, n).len() == 8 * n decreases n
{ broadcast use axiom_enc64; if n > 0 { lemma_all64_len(v, n - 1); } }
proof fn lemma_all255_len(v: Seq<E255>, n: int) requires 0 <= n <= v.len() ensures all255(v, n).len() == 32 * n decreases n
{ broadcast use axiom_enc255; if n > 0 { lemma_all255_len(v, n - 1); } }
pub enum Poplar1FieldVec { Inner(Vec<E64>), Leaf(Vec<E255>) }
pub open spec fn fv_enc(v: Poplar1FieldVec) -> Seq<u8> { match v { Poplar1FieldVec::Inner(d) => all64(d@, d@.len() as int), Poplar1FieldVec::Leaf(d) => all255(d@, d@.len() as int) } }
#[derive(Clone, Copy)]
pub enum VerifierMessageVariant { SketchInner([E64; 3]), SketchLeaf([E255; 3]), Done }
pub struct Poplar1VerifierMessage(pub VerifierMessageVariant);
pub open spec fn vm_enc(m: Poplar1VerifierMessage) -> Seq<u8> {
    match m.0 {
        VerifierMessageVariant::SketchInner(v) => enc64(v@[0]) + enc64(v@[1]) + enc64(v@[2]),
        VerifierMessageVariant::SketchLeaf(v) => enc255(v@[0]) + enc255(v@[1]) + enc255(v@[2]),
        VerifierMessageVariant::Done => Seq::empty(),
    }
}
// ---- decoding ---------------------------------------------------------------------------------------------------------
#[verifier::external_body]
pub struct Cur { _c: u8 }
impl Cur {
    pub uninterp spec fn data(&self) -> Seq<u8>;
    pub uninterp spec fn pos(&self) -> int;
    pub open spec fn wf(&self) -> bool { 0 <= self.pos() <= self.data().len() }
    pub open spec fn left(&self) -> int { self.data().len() - self.pos() }
}
pub uninterp spec fn dec64(chunk: Seq<u8>) -> Option<E64>;
pub uninterp spec fn dec255(chunk: Seq<u8>) -> Option<E255>;
pub open spec fn chunk(d: Seq<u8>, p: int, k: int, w: int) -> Seq<u8> { d.subrange(p + k * w, p + (k + 1) * w) }
// contract proved in unit fieldvec_codec for an abstract element codec; instantiated for the two fields
#[verifier::external_body]
fn decode_fieldvec64(count: usize, c: &mut Cur) -> (r: Result<Vec<E64>, CodecError>)
    requires old(c).wf(),
    ensures final(c).data() == old(c).data(), final(c).wf(),
            r is Ok <==> (count * 8 <= old(c).left() && forall|k: int| 0 <= k < count ==> dec64(#[trigger] chunk(old(c).data(), old(c).pos(), k, 8)) is Some),
            r is Ok ==> r->Ok_0@.len() == count && final(c).pos() == old(c).pos() + count * 8
                && forall|k: int| 0 <= k < count ==> dec64(#[trigger] chunk(old(c).data(), old(c).pos(), k, 8)) == Some(r->Ok_0@[k]),
{ unimplemented!() }
#[verifier::external_body]
fn decode_fieldvec255(count: usize, c: &mut Cur) -> (r: Result<Vec<E255>, CodecError>)
    requires old(c).wf(),
    ensures final(c).data() == old(c).data(), final(c).wf(),
            r is Ok <==> (count * 32 <= old(c).left() && forall|k: int| 0 <= k < count ==> dec255(#[trigger] chunk(old(c).data(), old(c).pos(), k, 32)) is Some),
            r is Ok ==> r->Ok_0@.len() == count && final(c).pos() == old(c).pos() + count * 32
                && forall|k: int| 0 <= k < count ==> dec255(#[trigger] chunk(old(c).data(), old(c).pos(), k, 32)) == Some(r->Ok_0@[k]),
{ unimplemented!() }
pub struct Poplar1Any { pub bits: usize }
#[verifier::external_body]
pub struct Poplar1AggregationParam { _p: u8 }
impl Poplar1AggregationParam {
    pub uninterp spec fn sp_level(&self) -> int;
    pub uninterp spec fn sp_count(&self) -> int;
    #[verifier::external_body] fn level(&self) -> (r: usize) ensures r == self.sp_level(), 0 <= self.sp_level() <= 65535 { unimplemented!() }
    #[verifier::external_body] fn prefixes_len(&self) -> (r: usize) ensures r == self.sp_count() { unimplemented!() }
}
'''


def unit():
    u = VUnit('pop_codecs', 'Poplar1FieldVec / Poplar1VerifierMessage codecs for vectors of any length')
    u.raw(PRELUDE, 'abstract-codecs')
    FV = ['impl Encode for Poplar1FieldVec']
    u.item(F, FV + ['fn encode'], ret='r', impl_header='impl Poplar1FieldVec', name='fv_encode', attrs='#[verifier::loop_isolation(false)]',
           rewrites=[(r'for elem in data \{', 'for k_ in 0..data.len() { let elem = &data[k_];', 2), (r'\bSelf::', 'Poplar1FieldVec::', '*')],
           sig='ensures\n    r is Ok, final(bytes)@ == old(bytes)@ + fv_enc(*self),\n',
           loops={0: 'invariant\n    bytes@ == old(bytes)@ + all64(data@, k_ as int),\n', 1: 'invariant\n    bytes@ == old(bytes)@ + all255(data@, k_ as int),\n'},
           loop_tail={0: 'assert(bytes@ =~= old(bytes)@ + all64(data@, k_ + 1));', 1: 'assert(bytes@ =~= old(bytes)@ + all255(data@, k_ + 1));'},
           before=[('for k_ in 0..data.len()', 'assert(bytes@ =~= old(bytes)@ + all64(data@, 0));', 0), ('for k_ in 0..data.len()', 'assert(bytes@ =~= old(bytes)@ + all255(data@, 0));', 1)])
    u.item(F, FV + ['fn encoded_len'], ret='r', impl_header='impl Poplar1FieldVec', name='fv_encoded_len',
           rewrites=[(r'\bSelf::', 'Poplar1FieldVec::', '*'), (r'\bField64::ENCODED_SIZE\b', '8usize', 1), (r'\bField255::ENCODED_SIZE\b', '32usize', 1)],
           sig='''
requires
    // derived: the elements are held in memory
    self is Inner ==> 8 * self->Inner_0@.len() <= usize::MAX,
    self is Leaf ==> 32 * self->Leaf_0@.len() <= usize::MAX,
ensures
    r == Some(fv_enc(*self).len() as usize),
''', before=[('match self', '''
    match self { Poplar1FieldVec::Inner(d) => { lemma_all64_len(d@, d@.len() as int); }, Poplar1FieldVec::Leaf(d) => { lemma_all255_len(d@, d@.len() as int); } }
''')])
    u.item(F, [r"impl<'a, P: Xof<SEED_SIZE>, const SEED_SIZE: usize>\s*ParameterizedDecode<\(&'a Poplar1<P, SEED_SIZE>, &'a Poplar1AggregationParam\)>\s*for Poplar1FieldVec\s*(?=\{)", 'fn decode_with_param'],
           ret='r', name='fv_decode',
           rewrites=[(r"\(poplar1, agg_param\): &\(&'a Poplar1<P, SEED_SIZE>, &'a Poplar1AggregationParam\)", 'poplar1: &Poplar1Any, agg_param: &Poplar1AggregationParam', 1),
                     (r'bytes: &mut Cursor<&\[u8\]>', 'bytes: &mut Cur', 1), (r'Result<Self, CodecError>', 'Result<Poplar1FieldVec, CodecError>', 1),
                     (r'agg_param\.prefixes\(\)\.len\(\)', 'agg_param.prefixes_len()', 2),
                     # r.map(Variant) == match r { Ok(v) => Ok(Variant(v)), Err(e) => Err(e) }
                     (r'decode_fieldvec\(agg_param\.prefixes_len\(\), bytes\)\.map\(Poplar1FieldVec::Leaf\)', 'match decode_fieldvec255(agg_param.prefixes_len(), bytes) { Ok(v_) => Ok(Poplar1FieldVec::Leaf(v_)), Err(e_) => Err(e_) }', 1),
                     (r'decode_fieldvec\(agg_param\.prefixes_len\(\), bytes\)\.map\(Poplar1FieldVec::Inner\)', 'match decode_fieldvec64(agg_param.prefixes_len(), bytes) { Ok(v_) => Ok(Poplar1FieldVec::Inner(v_)), Err(e_) => Err(e_) }', 1)],
           sig='''
requires
    old(bytes).wf(),
    poplar1.bits >= 1,       // derived instance invariant (see the unit header)
ensures
    final(bytes).data() == old(bytes).data(),
    // the tree level of the aggregation parameter decides the field; one element per candidate prefix
    r is Ok ==> (r->Ok_0 is Leaf <==> agg_param.sp_level() == poplar1.bits - 1),
    r is Ok && r->Ok_0 is Leaf ==> r->Ok_0->Leaf_0@.len() == agg_param.sp_count() && final(bytes).pos() == old(bytes).pos() + agg_param.sp_count() * 32
        && forall|k: int| 0 <= k < agg_param.sp_count() ==> dec255(#[trigger] chunk(old(bytes).data(), old(bytes).pos(), k, 32)) == Some(r->Ok_0->Leaf_0@[k]),
    r is Ok && r->Ok_0 is Inner ==> r->Ok_0->Inner_0@.len() == agg_param.sp_count() && final(bytes).pos() == old(bytes).pos() + agg_param.sp_count() * 8
        && forall|k: int| 0 <= k < agg_param.sp_count() ==> dec64(#[trigger] chunk(old(bytes).data(), old(bytes).pos(), k, 8)) == Some(r->Ok_0->Inner_0@[k]),
    // truncated input: an error
    agg_param.sp_level() == poplar1.bits - 1 && old(bytes).left() < agg_param.sp_count() * 32 ==> r is Err,
    agg_param.sp_level() != poplar1.bits - 1 && old(bytes).left() < agg_param.sp_count() * 8 ==> r is Err,
''')
    VM = ['impl Encode for Poplar1VerifierMessage']
    u.item(F, VM + ['fn encode'], ret='r', impl_header='impl Poplar1VerifierMessage', name='vm_encode',
           sig='ensures\n    r is Ok, final(bytes)@ == old(bytes)@ + vm_enc(*self),\n',
           before=[('match self.0', 'let ghost b0 = bytes@;')] if False else [])
    u.item(F, VM + ['fn encoded_len'], ret='r', impl_header='impl Poplar1VerifierMessage', name='vm_encoded_len',
           rewrites=[(r'\bField64::ENCODED_SIZE\b', '8usize', 1), (r'\bField255::ENCODED_SIZE\b', '32usize', 1)],
           sig='ensures\n    r == Some(vm_enc(*self).len() as usize),\n', before=[('match self.0', 'broadcast use axiom_enc64, axiom_enc255;')])
    return u
