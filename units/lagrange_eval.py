"""C10/C05 — polynomial::poly_eval_lagrange_batched under contract (Verus): for ANY number of polynomials, ANY power-of-two length n within the root
table and ANY evaluation point x - the interpolation nodes included - every output is the Lagrange-form value

        u_j  ==  -(1/n) * sum_{k<n} y_{j,k} * w^k * prod_{m<n, m != k} (w^m - x)          (mod p),      w = root(log2 n)

i.e. sum_k y_{j,k} * l_k(x) with the Lagrange basis polynomials of the n-th roots of unity written division-free (l_k(x) = -(w^k/n) prod_{m != k}(w^m - x),
using prod_{m != k}(w^k - w^m) = n w^-k).  No division, hence no special case at x = w^k: there every term but the k-th vanishes.  (n == 1: u_j == y_{j,0}.)

The loop invariant is the same closed form truncated at step i (`lsum`), the in-place accumulation `u = u*d + t*y_i` is its recurrence (lemma_lsum_step:
distributivity of a finite sum), and the running product `l` is prod_{m<i}(w^m - x).  Over the contracts of nth_root_powers (unit root_powers) and inv_pow2
(unit poly_kernels).  NOT decided: that the Lagrange form equals the value of the inverse-transform interpolant of unit ntt_value (the two agree by the
identity prod_{m != k}(w^k - w^m) = n w^-k, a fact about the roots, not about this code).

Rewrites beyond the listed ones (E4c/E4g): `polynomials.iter().all(..)` / `.iter().map(..).collect()` / `.iter_mut().for_each(..)` / the two zipped loops ->
index loops and shims with the same element-wise meaning; `P: AsRef<[F]>` instantiated with Vec<F>."""
import os
import re

from fe_common import FE_PRELUDE
from vunit import VUnit, REPO

PRELUDE = '''
proof fn lemma_c0(x: Fe) ensures cong(fe_v(x), fe_v(x)) { lemma_cong_refl(fe_v(x)); }
pub const MAX_ROOTS: usize = %(MR)d;      // parsed from src/fp.rs on this run
pub uninterp spec fn rootv(l: int) -> int;
// contract of nth_root_powers proved in unit root_powers (same run)
#[verifier::external_body]
fn nth_root_powers(n: usize) -> (r: Vec<Fe>)
    requires exists|d: nat| d <= MAX_ROOTS && n as int == pow2(d),
    ensures r@.len() == n, forall|d: nat| n as int == pow2(d) ==> forall|k: int| 0 <= k < n ==> cong(fe_v(#[trigger] r@[k]), pow(rootv(d as int), k as nat)),
{ unimplemented!() }
// contract of inv_pow2 proved in unit poly_kernels (same run)
#[verifier::external_body]
fn inv_pow2(n: usize) -> (r: Fe) requires exists|k: nat| k <= 62 && n as int == pow2(k) ensures cong(fe_v(r) * (n as int), 1) { unimplemented!() }
// usize::is_power_of_two  [std semantics]
#[verifier::external_body]
fn usize_is_power_of_two(x: usize) -> (r: bool) ensures r == (exists|d: nat| x as int == pow2(d)) { unimplemented!() }
// polynomials.iter().all(|p| p.as_ref().len() == poly_len)
#[verifier::external_body]
fn all_len_eq(polynomials: &Vec<Vec<Fe>>, n: usize) -> (r: bool) ensures r == (forall|j: int| 0 <= j < polynomials@.len() ==> (#[trigger] polynomials@[j])@.len() == n) { unimplemented!() }
// polynomials.iter().map(|p| p.as_ref().first().copied().unwrap_or_else(F::zero)).collect()
#[verifier::external_body]
fn first_values(polynomials: &Vec<Vec<Fe>>) -> (r: Vec<Fe>)
    ensures r@.len() == polynomials@.len(), forall|j: int| 0 <= j < polynomials@.len() ==> #[trigger] r@[j] == (if polynomials@[j]@.len() > 0 { polynomials@[j]@[0] } else { fe_mk(0) })
{ unimplemented!() }
// ---- the Lagrange form ------------------------------------------------------------------------------------------------------------------------------
// D(m) = w^m - x, with w^m as held in the root table
pub open spec fn dd(roots: Seq<Fe>, x: int, m: int) -> int { fe_v(roots[m]) - x }
// prod_{m <= i, m != k} D(m)
pub open spec fn phi(roots: Seq<Fe>, x: int, k: int, i: int) -> int decreases i + 1
{ if i < 0 { 1 } else { phi(roots, x, k, i - 1) * (if i == k { 1 } else { dd(roots, x, i) }) } }
// sum_{k < kk} y_k * w^k * prod_{m <= i, m != k} D(m)
pub open spec fn lsum(roots: Seq<Fe>, y: Seq<Fe>, x: int, kk: int, i: int) -> int decreases kk
{ if kk <= 0 { 0 } else { lsum(roots, y, x, kk - 1, i) + (fe_v(y[kk - 1]) * fe_v(roots[kk - 1])) * phi(roots, x, kk - 1, i) } }
// one more factor on every term below i:   lsum(.., kk, i) == lsum(.., kk, i-1) * D(i)   for kk <= i
proof fn lemma_lsum_scale(roots: Seq<Fe>, y: Seq<Fe>, x: int, kk: int, i: int)
    requires 0 <= kk <= i
    ensures lsum(roots, y, x, kk, i) == lsum(roots, y, x, kk, i - 1) * dd(roots, x, i)
    decreases kk
{
    if kk > 0 {
        lemma_lsum_scale(roots, y, x, kk - 1, i);
        let c = fe_v(y[kk - 1]) * fe_v(roots[kk - 1]);
        let p = phi(roots, x, kk - 1, i - 1);
        let d = dd(roots, x, i);
        assert(phi(roots, x, kk - 1, i) == p * d);
        assert(lsum(roots, y, x, kk - 1, i - 1) * d + c * (p * d) == (lsum(roots, y, x, kk - 1, i - 1) + c * p) * d) by (nonlinear_arith);
    } else {
        assert(0 * dd(roots, x, i) == 0);
    }
}
// the running product: phi(.., k = i, i) == phi(.., i, i-1) == prod_{m<i} D(m)
pub open spec fn lprod(roots: Seq<Fe>, x: int, i: int) -> int decreases i { if i <= 0 { 1 } else { lprod(roots, x, i - 1) * dd(roots, x, i - 1) } }
proof fn lemma_phi_is_lprod(roots: Seq<Fe>, x: int, k: int, i: int)
    requires 0 <= i <= k
    ensures phi(roots, x, k, i - 1) == lprod(roots, x, i)
    decreases i
{ if i > 0 { lemma_phi_is_lprod(roots, x, k, i - 1); } }
// THE RECURRENCE of the in-place accumulation:  lsum(.., i+1, i) == lsum(.., i, i-1) * D(i) + (prod_{m<i} D(m) * w^i) * y_i
proof fn lemma_lsum_step(roots: Seq<Fe>, y: Seq<Fe>, x: int, i: int)
    requires 1 <= i
    ensures lsum(roots, y, x, i + 1, i) == lsum(roots, y, x, i, i - 1) * dd(roots, x, i) + (lprod(roots, x, i) * fe_v(roots[i])) * fe_v(y[i])
{
    lemma_lsum_scale(roots, y, x, i, i);
    lemma_phi_is_lprod(roots, x, i, i);
    assert(phi(roots, x, i, i) == phi(roots, x, i, i - 1) * 1);
    let l = lprod(roots, x, i);
    assert((fe_v(y[i]) * fe_v(roots[i])) * l == (l * fe_v(roots[i])) * fe_v(y[i])) by (nonlinear_arith);
}
'''


def unit():
    fp = open(os.path.join(REPO, 'src/fp.rs')).read()
    mr = int(re.search(r'const MAX_ROOTS: usize = (\d+);', fp).group(1))
    u = VUnit('lagrange_eval', 'poly_eval_lagrange_batched == the division-free Lagrange form at every point, nodes included')
    u.oracle = {'inject': 'src/ntt.rs', 'file': 'ntt_oracle.rs', 'test': 'verif_oracle_ntt::oracle_lagrange_eval'}
    u.raw('global size_of usize == 8;\n' + FE_PRELUDE, 'abstract-field')
    u.raw(PRELUDE.replace('%(MR)d', str(mr)), 'prelude')
    u.item('src/polynomial.rs', ['fn poly_eval_lagrange_batched'], ret='r', attrs='#[verifier::loop_isolation(false)]',
           rewrites=[(r'<F: NttFriendlyFieldElement, P: AsRef<\[F\]>>', '', 1), (r'polynomials: &\[P\]', 'polynomials: &Vec<Vec<Fe>>', 1), (r'x: F,', 'x: Fe,', 1), (r'-> Vec<F>', '-> Vec<Fe>', 1),
                     (r'polynomials\[0\]\.as_ref\(\)\.len\(\)', 'polynomials[0].len()', 2),
                     (r'assert!\(\s*polynomials\.iter\(\)\.all\(\|p\| p\.as_ref\(\)\.len\(\) == poly_len\),\s*"polynomials must be of equal length"\s*\);', 'assert!(all_len_eq(polynomials, poly_len));', 1),
                     (r'assert!\(polynomials\[0\]\.len\(\)\.is_power_of_two\(\)\);', 'assert!(usize_is_power_of_two(polynomials[0].len()));', 1),
                     (r'\bF::one\(\)', 'fe_one()', 1),
                     (r'let mut u: Vec<F> = polynomials\s*\.iter\(\)\s*\.map\(\|p\| p\.as_ref\(\)\.first\(\)\.copied\(\)\.unwrap_or_else\(F::zero\)\)\s*\.collect\(\);', 'let mut u: Vec<Fe> = first_values(polynomials);', 1),
                     (r'for \(i, wn_i\) in \(1\.\.\)\.zip\(&roots\[1\.\.\]\) \{', 'for i in 1..roots.len() { let wn_i = &roots[i];', 1),
                     (r'for \(u_j, poly\) in u\.iter_mut\(\)\.zip\(polynomials\) \{', 'for j_ in 0..u.len() { let poly = &polynomials[j_];', 1),
                     (r'\*u_j \*= d;', 'u[j_] *= d;', 1),
                     (r'if let Some\(yi\) = poly\.as_ref\(\)\.get\(i\) \{\s*\*u_j \+= t \* \*yi;\s*\}', 'if i < poly.len() { let yi = &poly[i]; u[j_] += t * *yi; }', 1),
                     (r'inv_pow2::<F>\(', 'inv_pow2(', 1),
                     (r'u\.iter_mut\(\)\.for_each\(\|u_j\| \*u_j \*= num_roots_inv\);', 'for j_ in 0..u.len() { u[j_] *= num_roots_inv; }', 1)],
           sig='''
requires
    // derived from the two assertions and the root table: at least one polynomial, all of one power-of-two length within the table
    polynomials@.len() >= 1,
    exists|d: nat| d <= MAX_ROOTS && polynomials@[0]@.len() == pow2(d),
    forall|j: int| 0 <= j < polynomials@.len() ==> (#[trigger] polynomials@[j])@.len() == polynomials@[0]@.len(),
ensures
    r@.len() == polynomials@.len(),
    // every output is the Lagrange-form value, whatever x is (a node of the domain included); w^k as tabulated by nth_root_powers
    exists|roots: Seq<Fe>, ninv: int| #[trigger] lagrange_post(r@, polynomials@, fe_v(x), roots, ninv),
''', ghost_before=[('let poly_len', 'let ghost d0 = choose|d0: nat| d0 <= MAX_ROOTS && polynomials@[0]@.len() == pow2(d0);')],
           loops={0: '''
invariant
    roots@.len() == poly_len, u@.len() == polynomials@.len(), 1 <= i <= poly_len,
    cong(fe_v(l), lprod(roots@, fe_v(x), i - 1)), cong(fe_v(d), dd(roots@, fe_v(x), i - 1)),
    forall|j: int| 0 <= j < u@.len() ==> cong(fe_v(#[trigger] u@[j]), lsum(roots@, polynomials@[j]@, fe_v(x), i as int, i - 1)),
''', 1: '''
invariant
    roots@.len() == poly_len, u@.len() == polynomials@.len(), 1 <= i < poly_len,
    cong(fe_v(l), lprod(roots@, fe_v(x), i as int)), cong(fe_v(d), dd(roots@, fe_v(x), i as int)),
    cong(fe_v(t), lprod(roots@, fe_v(x), i as int) * fe_v(roots@[i as int])),
    forall|j: int| 0 <= j < j_ ==> cong(fe_v(#[trigger] u@[j]), lsum(roots@, polynomials@[j]@, fe_v(x), i + 1, i as int)),
    forall|j: int| j_ <= j < u@.len() ==> cong(fe_v(#[trigger] u@[j]), lsum(roots@, polynomials@[j]@, fe_v(x), i as int, i - 1)),
''', 2: '''
invariant
    u@.len() == polynomials@.len(), roots@.len() == poly_len, poly_len >= 1,
    cong(fe_v(num_roots_inv) * (poly_len as int), if poly_len > 1 { -1int } else { 1int }),
    forall|j: int| 0 <= j < j_ ==> cong(fe_v(#[trigger] u@[j]), lsum(roots@, polynomials@[j]@, fe_v(x), poly_len as int, poly_len - 1) * fe_v(num_roots_inv)),
    forall|j: int| j_ <= j < u@.len() ==> cong(fe_v(#[trigger] u@[j]), lsum(roots@, polynomials@[j]@, fe_v(x), poly_len as int, poly_len - 1)),
'''},
           before=[('let roots = nth_root_powers(poly_len)', '''
    lemma2_to64(); lemma_pow2_pos(d0); if d0 < 20 { lemma_pow2_strictly_increases(d0, 20); }
'''), ('for i in 1..roots.len()', '''
    broadcast use axiom_fe_mk, axiom_fe_range;
    lemma_cong_refl(1);
    lemma_c0(roots@[0]); lemma_c0(x);
    lemma_cong_sub(fe_v(roots@[0]), fe_v(roots@[0]), fe_v(x), fe_v(x));
    lemma_cong_mod(fe_v(roots@[0]) - fe_v(x));
    assert forall|j: int| 0 <= j < u@.len() implies cong(fe_v(#[trigger] u@[j]), lsum(roots@, polynomials@[j]@, fe_v(x), 1, 0)) by {
        let y = polynomials@[j]@;
        // lsum(.., 1, 0) == y_0 * w^0 * 1  and w^0 == 1
        assert(lsum(roots@, y, fe_v(x), 0, 0) == 0);
        assert(phi(roots@, fe_v(x), 0, 0) == phi(roots@, fe_v(x), 0, -1) * 1);
        assert(phi(roots@, fe_v(x), 0, -1) == 1);
        lemma_pow0(rootv(d0 as int));
        assert(cong(fe_v(roots@[0]), pow(rootv(d0 as int), 0)));
        lemma_cong_sym(fe_v(roots@[0]), 1);
        lemma_c0(y[0]);
        lemma_cong_mul(fe_v(y[0]), fe_v(y[0]), 1, fe_v(roots@[0]));
        assert(fe_v(y[0]) * 1 == fe_v(y[0]));
        assert((fe_v(y[0]) * fe_v(roots@[0])) * 1 == fe_v(y[0]) * fe_v(roots@[0])) by (nonlinear_arith);
    }
'''), ('l *= d', '''
    broadcast use axiom_fe_mk;
    lemma_ops(l, d);
    lemma_cong_mul(fe_v(l), lprod(roots@, fe_v(x), i - 1), fe_v(d), dd(roots@, fe_v(x), i - 1));
    lemma_cong_trans(fe_v(fe_mk(fe_v(l) * fe_v(d))), fe_v(l) * fe_v(d), lprod(roots@, fe_v(x), i as int));
'''), ('let t = l * *wn_i', '''
    broadcast use axiom_fe_mk;
    lemma_ops(*wn_i, x); lemma_c0(*wn_i); lemma_c0(x);
    lemma_ops(l, *wn_i);
    lemma_cong_mul(fe_v(l), lprod(roots@, fe_v(x), i as int), fe_v(*wn_i), fe_v(roots@[i as int]));
    lemma_cong_trans(fe_v(fe_mk(fe_v(l) * fe_v(*wn_i))), fe_v(l) * fe_v(*wn_i), lprod(roots@, fe_v(x), i as int) * fe_v(roots@[i as int]));
'''), ('u[j_] *= d', '''
    broadcast use axiom_fe_mk;
    let y = polynomials@[j_ as int]@;
    let xv = fe_v(x);
    let u0 = u@[j_ as int];
    lemma_ops(u0, d);
    lemma_cong_mul(fe_v(u0), lsum(roots@, y, xv, i as int, i - 1), fe_v(d), dd(roots@, xv, i as int));
    let u1 = fe_mk(fe_v(u0) * fe_v(d));
    lemma_cong_trans(fe_v(u1), fe_v(u0) * fe_v(d), lsum(roots@, y, xv, i as int, i - 1) * dd(roots@, xv, i as int));
    lemma_c0(y[i as int]);
    lemma_ops(t, y[i as int]);
    lemma_cong_mul(fe_v(t), lprod(roots@, xv, i as int) * fe_v(roots@[i as int]), fe_v(y[i as int]), fe_v(y[i as int]));
    let ty = fe_mk(fe_v(t) * fe_v(y[i as int]));
    lemma_cong_trans(fe_v(ty), fe_v(t) * fe_v(y[i as int]), (lprod(roots@, xv, i as int) * fe_v(roots@[i as int])) * fe_v(y[i as int]));
    lemma_ops(u1, ty);
    lemma_cong_add(fe_v(u1), lsum(roots@, y, xv, i as int, i - 1) * dd(roots@, xv, i as int), fe_v(ty), (lprod(roots@, xv, i as int) * fe_v(roots@[i as int])) * fe_v(y[i as int]));
    lemma_lsum_step(roots@, y, xv, i as int);
    lemma_cong_trans(fe_v(fe_mk(fe_v(u1) + fe_v(ty))), fe_v(u1) + fe_v(ty), lsum(roots@, y, xv, i + 1, i as int));
'''), ('let mut num_roots_inv', '''
    assert(d0 <= 62 && roots@.len() as int == pow2(d0));
''', 0), ('for j_ in 0..u.len()', '''
    broadcast use axiom_fe_mk;
    if poly_len > 1 {
        // (-inv) * n == -(inv * n) == -1
        let inv0 = num_roots_inv0;
        lemma_cong_mod(-fe_v(inv0));
        lemma_cong_refl(poly_len as int);
        lemma_cong_mul(fe_v(num_roots_inv), -fe_v(inv0), poly_len as int, poly_len as int);
        lemma_cong_neg(fe_v(inv0) * (poly_len as int), 1);
        assert((-fe_v(inv0)) * (poly_len as int) == -(fe_v(inv0) * (poly_len as int))) by (nonlinear_arith);
        lemma_cong_trans(fe_v(num_roots_inv) * (poly_len as int), -(fe_v(inv0) * (poly_len as int)), -1);
    }
''', 1), ('u[j_] *= num_roots_inv', '''
    broadcast use axiom_fe_mk;
    let u0 = u@[j_ as int];
    lemma_ops(u0, num_roots_inv);
    lemma_c0(num_roots_inv);
    lemma_cong_mul(fe_v(u0), lsum(roots@, polynomials@[j_ as int]@, fe_v(x), poly_len as int, poly_len - 1), fe_v(num_roots_inv), fe_v(num_roots_inv));
    lemma_cong_trans(fe_v(fe_mk(fe_v(u0) * fe_v(num_roots_inv))), fe_v(u0) * fe_v(num_roots_inv), lsum(roots@, polynomials@[j_ as int]@, fe_v(x), poly_len as int, poly_len - 1) * fe_v(num_roots_inv));
'''), ('u', '''
    assert(lagrange_post(u@, polynomials@, fe_v(x), roots@, fe_v(num_roots_inv)));
''', -1)],
           ghost_after=[('let mut num_roots_inv = inv_pow2(roots.len())', 'let ghost num_roots_inv0 = num_roots_inv;')])
    u.raw('''
// what the function returns: with `roots` the table of the powers of w = root(log2 n) and ninv == -1/n (1 for n == 1)
pub open spec fn lagrange_post(out: Seq<Fe>, polys: Seq<Vec<Fe>>, x: int, roots: Seq<Fe>, ninv: int) -> bool {
    let n = polys[0]@.len() as int;
    &&& out.len() == polys.len() && roots.len() == n
    &&& forall|d: nat| n == pow2(d) ==> forall|k: int| 0 <= k < n ==> cong(fe_v(#[trigger] roots[k]), pow(rootv(d as int), k as nat))
    &&& cong(ninv * n, if n > 1 { -1int } else { 1int })
    &&& forall|j: int| 0 <= j < out.len() ==> cong(fe_v(#[trigger] out[j]), lsum(roots, polys[j]@, x, n, n - 1) * ninv)
}
''', 'post')
    return u
