"""C05 — PolyEval gadget (src/flp/gadgets.rs) under contract (Verus): eval and eval_poly, over the contracts of get_ntt_inv / get_ntt
(unit ntt_value), poly_eval_monomial and poly_deg (units poly_kernels / poly_algebra).

  PolyEval::eval(inp) == poly(inp[0]) exactly for one input
  PolyEval::eval_poly(outp, [wire]): with c the coefficient vector of the interpolant of the wire polynomial (inverse transform) and n the
        gadget-polynomial size next_power_of_two(deg*(len-1)+1): outp[j] == poly( W(w_n^j) ) for every j < n, where W(t) = sum_{m < n} c[m] t^m
        (the interpolant, zero-padded - or truncated when deg == 0 - to n coefficients) - the gadget applied point by point to the values
        of the wire polynomial on the larger domain, for any number of calls.

Rewrites beyond the listed ones: generic parameters instantiated; `for (x, o) in v.into_iter().zip(outp.iter_mut())` -> index loop up to the
shorter length (E4c); `?` with From<NttError> -> match (E4d)."""
import os
import re

from fe_common import FE_PRELUDE
from vunit import VUnit, REPO

G = 'src/flp/gadgets.rs'
PRELUDE = '''
pub enum NttError { OutputTooSmall, SizeTooLarge, SizeInvalid }
pub enum FlpError { Gadget(String), Ntt(NttError), Other }
#[verifier::external_body]
fn fmt_opaque() -> String { String::new() }
pub const MAX_ROOTS: usize = %(MR)d;      // parsed from src/fp.rs on this run
pub open spec fn spec_npo2(x: int) -> int decreases x { if x <= 1 { 1 } else { 2 * spec_npo2((x + 1) / 2) } }
pub assume_specification [usize::next_power_of_two] (x: usize) -> (r: usize)
    requires spec_npo2(x as int) <= usize::MAX as int,
    ensures r as int == spec_npo2(x as int);
proof fn lemma_npo2_small(x: int) requires x >= 0 ensures spec_npo2(x) >= x, spec_npo2(x) >= 1, x >= 1 ==> spec_npo2(x) < 2 * x decreases x
{ if x > 1 { lemma_npo2_small((x + 1) / 2); } }
// next_power_of_two yields a power of two
proof fn lemma_npo2_is_pow2(x: int) requires x >= 0 ensures exists|e: nat| spec_npo2(x) == pow2(e) decreases x
{
    lemma2_to64();
    if x <= 1 { assert(spec_npo2(x) == pow2(0)); } else {
        lemma_npo2_is_pow2((x + 1) / 2);
        let e = choose|e: nat| spec_npo2((x + 1) / 2) == pow2(e);
        lemma_pow2_unfold(e + 1);
        assert(spec_npo2(x) == pow2(e + 1));
    }
}
fn gadget_poly_len(gadget_degree: usize, wire_poly_len: usize) -> (r: usize)
    requires wire_poly_len >= 1, gadget_degree * (wire_poly_len - 1) + 1 <= usize::MAX
    ensures r == gadget_degree * (wire_poly_len - 1) + 1
{ gadget_degree * (wire_poly_len - 1) + 1 }
fn wire_poly_len(num_calls: usize) -> (r: usize)
    requires num_calls < 0x1000_0000
    ensures r as int == spec_npo2(1 + num_calls)
{ proof { lemma_npo2_small(1 + num_calls); } (1 + num_calls).next_power_of_two() }
// ---- contracts proved in other units of the same run ---------------------------------------------------------------------------------------
pub uninterp spec fn rootv(l: int) -> int;                        // fe_v(F::root(l))
pub open spec fn inz(c: Seq<Fe>, m: int) -> int { if 0 <= m < c.len() { fe_v(c[m]) } else { 0 } }
// sum_{m < n} c[m] t^m with c zero-padded (or cut) to n coefficients
pub open spec fn tsum(c: Seq<Fe>, t: int, n: int) -> int decreases n { if n <= 0 { 0 } else { tsum(c, t, n - 1) + inz(c, n - 1) * pow(t, (n - 1) as nat) } }
pub open spec fn psum(s: Seq<Fe>, x: int, n: int) -> int decreases n { if n <= 0 { 0 } else { psum(s, x, n - 1) + fe_v(s[n - 1]) * pow(x, (n - 1) as nat) } }
// the coefficient vector of the interpolant of `points` (unit ntt_value: is_idft + theorem_idft_interpolates)
pub uninterp spec fn is_interp_coeffs(c: Seq<Fe>, points: Seq<Fe>) -> bool;
// get_ntt_inv: ntt_inv into a fresh vector (unit ntt_value)
#[verifier::external_body]
fn get_ntt_inv(inp: &Vec<Fe>, size: usize) -> (r: Result<Vec<Fe>, NttError>)
    requires size == inp@.len(), exists|d: nat| 1 <= d <= MAX_ROOTS && size as int == pow2(d),
    ensures r is Ok, r->Ok_0@.len() == size, is_interp_coeffs(r->Ok_0@, inp@),
{ unimplemented!() }
// get_ntt: ntt into a fresh vector of `size` elements (unit ntt_value: the input is zero-padded, coefficients beyond `size` are not read)
#[verifier::external_body]
fn get_ntt(input: &Vec<Fe>, size: usize) -> (r: Result<Vec<Fe>, NttError>)
    requires size >= 1, size == 1 ==> input@.len() >= 1,
    ensures r is Ok <==> exists|e: nat| e <= MAX_ROOTS && size as int == pow2(e),
            r is Ok ==> r->Ok_0@.len() == size && forall|e: nat| size as int == pow2(e) ==> forall|j: int| 0 <= j < size ==> cong(fe_v(#[trigger] r->Ok_0@[j]), tsum(input@, pow(rootv(e as int), j as nat), size as int)),
{ unimplemented!() }
#[verifier::external_body]
fn poly_eval_monomial(poly: &Vec<Fe>, eval_at: Fe) -> (r: Fe) ensures cong(fe_v(r), psum(poly@, fe_v(eval_at), poly@.len() as int)) { unimplemented!() }
// poly_deg (unit poly_algebra): the index of the highest non-zero coefficient, 0 for the zero polynomial
pub uninterp spec fn deg_spec(p: Seq<Fe>) -> int;
#[verifier::external_body]
proof fn axiom_deg_spec(p: Seq<Fe>) ensures 0 <= deg_spec(p), deg_spec(p) < p.len() || (p.len() == 0 && deg_spec(p) == 0) {}      // contract of poly_deg (unit poly_algebra)
// what PolyEval::eval_poly leaves in outp: c = coefficients of the interpolant of the wire polynomial, ext = its values on the n-point domain
pub open spec fn polyeval_post(out: Seq<Fe>, poly: Seq<Fe>, wire: Seq<Fe>, c: Seq<Fe>, ext: Seq<Fe>) -> bool {
    &&& is_interp_coeffs(c, wire) && c.len() == wire.len() && ext.len() == out.len()
    &&& forall|e: nat| out.len() == pow2(e) ==> forall|j: int| 0 <= j < out.len() ==> cong(fe_v(#[trigger] ext[j]), tsum(c, pow(rootv(e as int), j as nat), out.len() as int))
    &&& forall|j: int| 0 <= j < out.len() ==> cong(fe_v(#[trigger] out[j]), psum(poly, fe_v(ext[j]), poly.len() as int))
}
#[verifier::external_body]
fn poly_deg(p: &Vec<Fe>) -> (r: usize) ensures r == deg_spec(p@), 0 <= deg_spec(p@), deg_spec(p@) < p@.len() || (p@.len() == 0 && deg_spec(p@) == 0) { unimplemented!() }
'''


def unit():
    fp = open(os.path.join(REPO, 'src/fp.rs')).read()
    mr = int(re.search(r'const MAX_ROOTS: usize = (\d+);', fp).group(1))
    u = VUnit('gadget_polyeval', 'PolyEval gadget: eval and eval_poly (composition with a fixed polynomial on the extended domain)')
    u.raw('global size_of usize == 8;\n' + FE_PRELUDE, 'abstract-field')
    u.raw(PRELUDE.replace('%(MR)d', str(mr)), 'prelude')
    u.struct_item(G, ['pub struct PolyEval'], rewrites=[(r'pub struct PolyEval<F: NttFriendlyFieldElement>', 'pub struct PolyEval', 1), (r'Vec<F>', 'Vec<Fe>', 1),
                                                         (r'\bpoly:', 'pub poly:', 1), (r'\bnum_calls:', 'pub num_calls:', 1)])
    PI = 'impl<F: NttFriendlyFieldElement> Gadget<F> for PolyEval<F>'
    u.item(G, [PI, 'fn arity'], ret='r', impl_header='impl PolyEval', sig='ensures\n    r == 1,')
    u.item(G, [PI, 'fn degree'], ret='r', impl_header='impl PolyEval', sig='ensures\n    r == deg_spec(self.poly@),')
    FM = (r'format!\((?:[^()]|\([^()]*\))*\)', 'fmt_opaque()', '*')
    u.item(G, ['fn gadget_eval_check'], ret='r', rewrites=[(r'<F: NttFriendlyFieldElement, G: Gadget<F>>', '', 1), (r'gadget: &G', 'gadget: &PolyEval', 1), FM],
           sig='ensures\n    r is Ok <==> in_len == 1,')
    u.item(G, ['fn gadget_eval_poly_check'], ret='r',
           rewrites=[(r'<F: NttFriendlyFieldElement, G: Gadget<F>, P: AsRef<\[F\]>>', '', 1), (r'gadget: &G', 'gadget: &PolyEval', 1), (r'outp: &\[F\]', 'outp: &Vec<Fe>', 1),
                     (r'inp: &\[P\]', 'inp: &Vec<Vec<Fe>>', 1), (r'\.as_ref\(\)', '', '*'), FM],
           sig='''
requires
    forall|i: int| 0 <= i < inp@.len() ==> 1 <= (#[trigger] inp@[i])@.len() <= 0x10_0000,
    gadget.poly@.len() <= 0x100,        // derived: gadget polynomials are small fixed polynomials (the range check x(x-1) has 3 coefficients)
ensures
    r is Ok <==> (inp@.len() == 1 && outp@.len() == spec_npo2(deg_spec(gadget.poly@) * (inp@[0]@.len() - 1) + 1)),
''', loops={0: '''
invariant
    inp@.len() == 1,
'''}, before=[('let expected', '''
    axiom_deg_spec(gadget.poly@);
    assert(deg_spec(gadget.poly@) * (inp@[0]@.len() - 1) + 1 <= 0x1000_0001) by (nonlinear_arith) requires 0 <= deg_spec(gadget.poly@) <= 0x100, 1 <= inp@[0]@.len() <= 0x10_0000;
    assert(deg_spec(gadget.poly@) * (inp@[0]@.len() - 1) >= 0) by (nonlinear_arith) requires 0 <= deg_spec(gadget.poly@), 1 <= inp@[0]@.len();
    lemma_npo2_small(deg_spec(gadget.poly@) * (inp@[0]@.len() - 1) + 1);
''')])
    u.item(G, [PI, 'fn eval'], ret='r', impl_header='impl PolyEval', name='PolyEval_eval',
           rewrites=[(r'inp: &\[F\]', 'inp: &Vec<Fe>', 1), (r'Result<F, FlpError>', 'Result<Fe, FlpError>', 1)],
           sig='''
ensures
    r is Ok <==> inp@.len() == 1,
    r is Ok ==> cong(fe_v(r->Ok_0), psum(old(self).poly@, fe_v(inp@[0]), old(self).poly@.len() as int)),
''')
    u.item(G, [PI, 'fn eval_poly'], ret='r', impl_header='impl PolyEval', name='PolyEval_eval_poly', attrs='#[verifier::loop_isolation(false)]',
           rewrites=[(r'outp: &mut \[F\]', 'outp: &mut Vec<Fe>', 1), (r'inp_lagrange: &\[Vec<F>\]', 'inp_lagrange: &Vec<Vec<Fe>>', 1),
                     (r'get_ntt_inv\(&inp_lagrange\[0\], inp_lagrange\[0\]\.len\(\)\)\?', 'match get_ntt_inv(&inp_lagrange[0], inp_lagrange[0].len()) { Ok(v) => v, Err(e) => { return Err(FlpError::Ntt(e)); } }', 1),
                     (r'get_ntt\(&inp_monomial, n\)\?', 'match get_ntt(&inp_monomial, n) { Ok(v) => v, Err(e) => { return Err(FlpError::Ntt(e)); } }', 1),
                     (r'for \(x, outp_element\) in inp_lagrange_extended\.into_iter\(\)\.zip\(outp\.iter_mut\(\)\) \{\s*\*outp_element = ',
                      'let zn_ = if inp_lagrange_extended.len() <= outp.len() { inp_lagrange_extended.len() } else { outp.len() }; for k_ in 0..zn_ { let x = inp_lagrange_extended[k_]; outp[k_] = ', 1)],
           sig='''
requires
    // derived from Flp::prove / query: one wire polynomial of wire_poly_len(calls) points, a power of two >= 2 within the root table
    self.num_calls < 0x10_0000, self.poly@.len() <= 0x100,
    forall|i: int| 0 <= i < inp_lagrange@.len() ==> (#[trigger] inp_lagrange@[i])@.len() == spec_npo2(1 + self.num_calls)
        && (exists|d: nat| 1 <= d <= MAX_ROOTS && (inp_lagrange@[i])@.len() == pow2(d)),
    spec_npo2(deg_spec(self.poly@) * (spec_npo2(1 + self.num_calls) - 1) + 1) <= pow2(MAX_ROOTS as nat),     // the gadget polynomial fits the root table
ensures
    final(outp)@.len() == old(outp)@.len(),
    r is Ok <==> (inp_lagrange@.len() == 1 && old(outp)@.len() == spec_npo2(deg_spec(self.poly@) * (inp_lagrange@[0]@.len() - 1) + 1)),
    // outp[j] == poly( W(w_n^j) ), W the interpolant of the wire polynomial, on the gadget-polynomial domain of n = outp.len() points
    r is Ok ==> exists|c: Seq<Fe>, ext: Seq<Fe>| #[trigger] polyeval_post(final(outp)@, self.poly@, inp_lagrange@[0]@, c, ext),
''', loops={0: '''
invariant
    outp@.len() == old(outp)@.len(), zn_ == outp@.len(), inp_lagrange_extended@.len() == outp@.len(),
    forall|j: int| 0 <= j < k_ ==> cong(fe_v(#[trigger] outp@[j]), psum(self.poly@, fe_v(inp_lagrange_extended@[j]), self.poly@.len() as int)),
'''}, before=[('gadget_eval_poly_check(self, outp, inp_lagrange)?', '''
    lemma2_to64();
    lemma_npo2_small(1 + self.num_calls);
    assert forall|i: int| 0 <= i < inp_lagrange@.len() implies 1 <= (#[trigger] inp_lagrange@[i])@.len() <= 0x10_0000 by {
        let d = choose|d: nat| 1 <= d <= MAX_ROOTS && inp_lagrange@[i]@.len() == pow2(d);
        lemma_pow2_pos(d); if d < 20 { lemma_pow2_strictly_increases(d, 20); }
    }
'''), ('let n = gadget_poly_len(', '''
    axiom_deg_spec(self.poly@);
    let wl = spec_npo2(1 + self.num_calls);
    assert(deg_spec(self.poly@) * (wl - 1) + 1 <= 0x1000_0001) by (nonlinear_arith) requires 0 <= deg_spec(self.poly@) <= 0x100, 1 <= wl <= 0x100_000;
    assert(deg_spec(self.poly@) * (wl - 1) >= 0) by (nonlinear_arith) requires 0 <= deg_spec(self.poly@), 1 <= wl;
    lemma_npo2_small(deg_spec(self.poly@) * (wl - 1) + 1);
'''), ('let inp_lagrange_extended', '''
    axiom_deg_spec(self.poly@);
    lemma_npo2_is_pow2(deg_spec(self.poly@) * (spec_npo2(1 + self.num_calls) - 1) + 1);
    let e0 = choose|e: nat| spec_npo2(deg_spec(self.poly@) * (spec_npo2(1 + self.num_calls) - 1) + 1) == pow2(e);
    if e0 > MAX_ROOTS { lemma_pow2_strictly_increases(MAX_ROOTS as nat, e0); }
    assert(e0 <= MAX_ROOTS && n as int == pow2(e0));
'''), ('Ok(())', '''
    assert(polyeval_post(outp@, self.poly@, inp_lagrange@[0]@, inp_monomial@, inp_lagrange_extended@));
''', -1)])
    return u
