"""C11 — Prng::get / from_seed_stream / into_new_field under contract (Verus), for ANY buffer length, ANY element size, ANY
number of rejected samples and ANY number of refills (the Kani harnesses prng_get_b16/b20 are the bounded stand-in this replaces).

The seed stream is an abstract infinite byte sequence with a cursor (`Stream`: at(i), pos()); `fill_bytes` reads the next
bytes in order (contract of SeedStreamTurboShake128 / SeedStreamAes128 as an `Rng`: assumed here, AES counter continuity is
Kani unit c11_xof).  `F::from_random_rejection` is an uninterpreted pure function `accept(chunk) -> Option<Fe>` of exactly
ENCODED_SIZE bytes.  The UNREAD stream of a Prng is buffer[buffer_index..] followed by the seed stream from its cursor.

Contract of get(): there is c >= 0 such that chunks 0..c of the unread stream (ENCODED_SIZE bytes each) are all rejected, chunk c
is accepted and its element is returned, and the unread stream afterwards is the old one minus those (c+1) chunks - nothing
skipped, nothing duplicated, whether or not a refill happened and whatever the byte offset (the state into_new_field leaves
behind).  Termination is NOT claimed (rejection sampling terminates with probability 1 only)."""
from vunit import VUnit

F = 'src/prng.rs'

PRELUDE = '''
global size_of usize == 8;
pub enum ControlFlow<B, C> { Continue(C), Break(B) }          // std::ops::ControlFlow (same variants)
#[verifier::external_body]
#[derive(Clone, Copy)]
pub struct Fe { _x: u64 }
pub uninterp spec fn ES() -> int;                               // F::ENCODED_SIZE
pub uninterp spec fn accept(chunk: Seq<u8>) -> Option<Fe>;      // F::from_random_rejection as a pure function of the chunk
#[verifier::external_body]
fn enc_size() -> (r: usize) ensures r == ES(), ES() > 0 { unimplemented!() }
#[verifier::external_body]
fn fe_from_random_rejection(buf: &Vec<u8>, i: usize, j: usize) -> (r: ControlFlow<Fe, ()>)
    requires i <= j <= buf@.len(), j - i == ES(),
    ensures match accept(buf@.subrange(i as int, j as int)) { Some(x) => r == ControlFlow::<Fe, ()>::Break(x), None => r == ControlFlow::<Fe, ()>::Continue(()) },
{ unimplemented!() }
// the seed stream: a fixed infinite byte sequence read in order
#[verifier::external_body]
pub struct Stream { _s: u8 }
impl Stream {
    pub uninterp spec fn at(&self, i: int) -> u8;
    pub uninterp spec fn pos(&self) -> int;
}
// seed_stream.fill_bytes(&mut buf[from..])
#[verifier::external_body]
fn stream_fill_from(s: &mut Stream, buf: &mut Vec<u8>, from: usize)
    requires from <= old(buf)@.len(),
    ensures final(buf)@.len() == old(buf)@.len(),
            forall|k: int| 0 <= k < from ==> #[trigger] final(buf)@[k] == old(buf)@[k],
            forall|k: int| from <= k < old(buf)@.len() ==> #[trigger] final(buf)@[k] == old(s).at(old(s).pos() + k - from),
            final(s).pos() == old(s).pos() + old(buf)@.len() - from,
            forall|i: int| #[trigger] final(s).at(i) == old(s).at(i),
{ unimplemented!() }
// buf.copy_within(from.., 0)
#[verifier::external_body]
fn copy_within_from(buf: &mut Vec<u8>, from: usize)
    requires from <= old(buf)@.len(),
    ensures final(buf)@.len() == old(buf)@.len(),
            forall|k: int| 0 <= k < old(buf)@.len() - from ==> #[trigger] final(buf)@[k] == old(buf)@[from + k],
            forall|k: int| old(buf)@.len() - from <= k < old(buf)@.len() ==> #[trigger] final(buf)@[k] == old(buf)@[k],
{ unimplemented!() }
'''

SPEC = '''
// byte k of the unread stream: the rest of the look-ahead buffer, then the seed stream
spec fn unread(p: Prng, k: int) -> u8 {
    let left = p.buffer@.len() - p.buffer_index;
    if k < left { p.buffer@[p.buffer_index + k] } else { p.seed_stream.at(p.seed_stream.pos() + k - left) }
}
spec fn chunk(p: Prng, c: int) -> Seq<u8> { Seq::new(ES() as nat, |b: int| unread(p, c * ES() + b)) }
spec fn wf(p: Prng) -> bool {
    p.buffer_index <= p.buffer@.len() && 0 < ES() <= p.buffer@.len() && p.buffer@.len() + ES() <= usize::MAX
}
spec fn rejected_before(o: Prng, c: int) -> bool { forall|d: int| 0 <= d < c ==> accept(#[trigger] chunk(o, d)) is None }
spec fn shifted(o: Prng, n: Prng, by: int) -> bool { forall|k: int| k >= 0 ==> #[trigger] unread(n, k) == unread(o, by + k) }
spec fn got(o: Prng, n: Prng, r: Fe, c: int) -> bool {
    &&& c >= 0
    &&& accept(chunk(o, c)) == Some(r)          // the FIRST accepted chunk of the unread stream
    &&& rejected_before(o, c)                   // everything before it was rejected, nothing skipped
    &&& shifted(o, n, (c + 1) * ES())           // exactly those chunks were consumed
    &&& wf(n) && n.buffer@.len() == o.buffer@.len()
}
'''


def unit():
    u = VUnit('prng_get', 'Prng::get: first accepted chunk of the unread stream; stream continuity across refills and field changes')
    u.oracle = {'inject': 'src/prng.rs', 'file': 'prng_oracle.rs', 'test': 'verif_oracle_prng::oracle_prng_stream'}
    u.raw(PRELUDE, 'abstract-stream')
    u.struct_item(F, ['pub(crate) struct Prng'], rewrites=[(r'pub\(crate\) struct Prng<F, S>', 'pub struct Prng', 1), (r'phantom: PhantomData<F>,', '', 1), (r'seed_stream: S,', 'seed_stream: Stream,', 1)])
    u.raw(SPEC, 'spec')
    # the buffer size constant, parsed from the source on this run
    import re
    from vunit import REPO
    m = re.search(r'^const BUFFER_SIZE_IN_ELEMENTS: usize = (\d+);', open(REPO + '/' + F).read(), re.M)
    if not m:
        from vunit import LostAnchor
        raise LostAnchor('const BUFFER_SIZE_IN_ELEMENTS not found in ' + F)
    NB = int(m.group(1))
    u.raw('const BUFFER_SIZE_IN_ELEMENTS: usize = %d;      // parsed from src/prng.rs on this run\n' % NB, 'const')
    IMP = 'impl<F, S> Prng<F, S>'
    u.item(F, [IMP, 'fn from_seed_stream'], ret='r', impl_header='impl Prng',
           rewrites=[(r'mut seed_stream: S', 'mut seed_stream: Stream', 1), (r'\bF::ENCODED_SIZE\b', 'enc_size()', 1),
                     (r'seed_stream\.fill_bytes\(&mut buffer\);', 'stream_fill_from(&mut seed_stream, &mut buffer, 0);', 1),
                     (r'vec!\[0;', 'vec![0u8;', 1),
                     (r'phantom: PhantomData::<F>,', '', 1), (r'-> Self\b', '-> Prng', 1), (r'\bSelf \{', 'Prng {', 1)],
           sig='''
requires
    %(NB)d * ES() + ES() <= usize::MAX,
ensures
    wf(r), r.buffer_index == 0, r.buffer@.len() == %(NB)d * ES(),
    // the unread stream of the new Prng is the seed stream from its cursor
    forall|k: int| k >= 0 ==> #[trigger] unread(r, k) == seed_stream.at(seed_stream.pos() + k),
''' % dict(NB=NB), before=[('let mut buffer', 'assert(%d * ES() + ES() <= usize::MAX);' % NB)])
    u.item(F, [IMP, 'fn get'], ret='r', impl_header='impl Prng',
           attrs='#[verifier::exec_allows_no_decreases_clause]\n#[verifier::loop_isolation(false)]',
           rewrites=[(r'-> F\b', '-> Fe', 1),
                     # E4f: `for i in (a..b).step_by(n)` -> while loop with the same bounds and step
                     (r'for i in \(self\.buffer_index\.\.self\.buffer\.len\(\)\)\.step_by\(F::ENCODED_SIZE\) \{',
                      'let mut i = self.buffer_index; while i < self.buffer.len() {', 1),
                     (r'ControlFlow::Continue\(\(\)\) => continue,', 'ControlFlow::Continue(()) => { i += enc_size(); continue; }', 1),
                     (r'ControlFlow::Break\(x\) => return x,', 'ControlFlow::Break(x) => { return x; }', 1),
                     (r'\bF::ENCODED_SIZE\b', 'enc_size()', '*'),
                     (r'F::from_random_rejection\(&self\.buffer\[i\.\.j\]\)', 'fe_from_random_rejection(&self.buffer, i, j)', 1),
                     (r'self\.buffer\.copy_within\(([\w\.]+)\.\., 0\);', r'copy_within_from(&mut self.buffer, \1);', 1),
                     (r'self\.seed_stream\s*\.fill_bytes\(&mut self\.buffer\[left_over\.\.\]\);', 'stream_fill_from(&mut self.seed_stream, &mut self.buffer, left_over);', 1)],
           sig='''
requires
    wf(*old(self)),
ensures
    exists|c: int| #[trigger] got(*old(self), *final(self), r, c),
''', ghost_before=[('loop', 'let ghost mut c: int = 0;')],
           loops={0: '''
invariant
    wf(*self), self.buffer@.len() == old(self).buffer@.len(),
    c >= 0, rejected_before(*old(self), c), shifted(*old(self), *self, c * ES()),
''', 1: '''
invariant
    wf(*self), self.buffer@.len() == old(self).buffer@.len(), i == self.buffer_index,
    c >= 0, rejected_before(*old(self), c), shifted(*old(self), *self, c * ES()),
'''}, before=[('self.buffer_index = j', '''
    assert forall|b: int| 0 <= b < ES() implies #[trigger] self.buffer@.subrange(i as int, j as int)[b] == chunk(*old(self), c)[b] by {
        assert(unread(*self, b) == unread(*old(self), c * ES() + b));
    }
    assert(self.buffer@.subrange(i as int, j as int) =~= chunk(*old(self), c));
'''), ('return x', '''
    assert((c + 1) * ES() == c * ES() + ES()) by (nonlinear_arith);
    assert forall|k: int| k >= 0 implies #[trigger] unread(*self, k) == unread(*old(self), (c + 1) * ES() + k) by {
        assert(unread(pre, ES() + k) == unread(*old(self), c * ES() + (ES() + k)));
    }
    assert(got(*old(self), *self, x, c));
'''), ('i += enc_size()', '''
    assert((c + 1) * ES() == c * ES() + ES()) by (nonlinear_arith);
    assert forall|k: int| k >= 0 implies #[trigger] unread(*self, k) == unread(*old(self), (c + 1) * ES() + k) by {
        assert(unread(pre, ES() + k) == unread(*old(self), c * ES() + (ES() + k)));
    }
    c = c + 1;
''')],
           ghost_after=[('let j = i + enc_size()', 'let ghost pre = *self;'), ('let left_over', 'let ghost pre2 = *self;')],
           after=[('self.buffer_index = 0', '''
    // the refill only relocates the unread stream: leftover bytes to the front, then the next stream bytes
    assert forall|k: int| k >= 0 implies #[trigger] unread(*self, k) == unread(pre2, k) by { }
''')])
    u.item(F, [IMP, 'fn into_new_field'], ret='r', impl_header='impl Prng',
           rewrites=[(r'into_new_field<F1: FieldElement>', 'into_new_field', 1), (r'Prng<F1, S>', 'Prng', 1), (r'phantom: PhantomData,', '', 1)],
           sig='''
ensures
    // the byte offset is carried unchanged: the unread stream continues where the old field left off
    r.buffer_index == self.buffer_index, r.buffer@ == self.buffer@, r.seed_stream == self.seed_stream,
    forall|k: int| k >= 0 ==> #[trigger] unread(r, k) == unread(self, k),
''')
    return u
