"""C03/C04 — the algebra behind the Poplar1 sketch, as Verus lemmas over the contracts of
finish_sketch / compute_next_corr_shares / eval_and_sketch (whose formulas are discharged on the real code
by the Kani unit c04_poplar1): for an honest one-hot vector with authenticator `auth` the two verifier
shares sum to zero, for ANY randomness a,b,c,r (polynomial identity, hence also modulo any p)."""
from vunit import VUnit


def unit():
    u = VUnit('sketch_lemma', 'honest-case identity of the Poplar1 sketch')
    u.raw('''
// finish_sketch contract (Kani: pop_finish_sketch_formula), over integers:
pub open spec fn finish_leader(a_share: int, b_share: int, z0: int) -> int { a_share * z0 + b_share }
pub open spec fn finish_helper(a_share: int, b_share: int, z0: int, z1: int, z2: int) -> int { a_share * z0 + b_share + (z0 * z0 - z1 - z2) }
// compute_next_corr_shares contract (Kani: pop_corr_shares_formula): shares of A and B sum to
pub open spec fn corr_a(a: int, auth: int) -> int { -2 * a + auth }
pub open spec fn corr_b(a: int, b: int, c: int, auth: int) -> int { a * a + b - a * auth + c }

// one-hot data vector with value `d` at the queried prefix with verification randomness r:
// sketch z0 = d*r + a, z1 = d*r*r + b, z2 = (d*auth)*r + c   (eval_and_sketch accumulation, summed over both aggregators)
proof fn lemma_honest_sketch_sums_to_zero(a: int, b: int, c: int, auth: int, r: int, a0: int, b0: int)
    ensures
        ({
            let (z0, z1, z2) = (r + a, r * r + b, auth * r + c);
            let a1 = corr_a(a, auth) - a0;
            let b1 = corr_b(a, b, c, auth) - b0;
            finish_leader(a0, b0, z0) + finish_helper(a1, b1, z0, z1, z2) == 0
        }),
{
    let (z0, z1, z2) = (r + a, r * r + b, auth * r + c);
    let a1 = corr_a(a, auth) - a0;
    let b1 = corr_b(a, b, c, auth) - b0;
    assert(a0 * z0 + b0 + (a1 * z0 + b1 + (z0 * z0 - z1 - z2)) == 0) by (nonlinear_arith)
        requires z0 == r + a, z1 == r * r + b, z2 == auth * r + c, a1 == -2 * a + auth - a0, b1 == a * a + b - a * auth + c - b0;
}
// an all-zero vector (prefix off the input's path) also verifies: z = (a, b, c)
proof fn lemma_zero_vector_sums_to_zero(a: int, b: int, c: int, auth: int, a0: int, b0: int)
    ensures
        ({
            let a1 = corr_a(a, auth) - a0;
            let b1 = corr_b(a, b, c, auth) - b0;
            finish_leader(a0, b0, a) + finish_helper(a1, b1, a, b, c) == 0
        }),
{
    let a1 = corr_a(a, auth) - a0;
    let b1 = corr_b(a, b, c, auth) - b0;
    assert(a0 * a + b0 + (a1 * a + b1 + (a * a - b - c)) == 0) by (nonlinear_arith)
        requires a1 == -2 * a + auth - a0, b1 == a * a + b - a * auth + c - b0;
}
// a programmed value d other than 0/1 leaves the residue (d*d - d)*r*r: non-zero for all but <= 2 values of r per field
proof fn lemma_non_binary_value_residue(a: int, b: int, c: int, auth: int, r: int, d: int, a0: int, b0: int)
    ensures
        ({
            let (z0, z1, z2) = (d * r + a, d * r * r + b, (d * auth) * r + c);
            let a1 = corr_a(a, auth) - a0;
            let b1 = corr_b(a, b, c, auth) - b0;
            finish_leader(a0, b0, z0) + finish_helper(a1, b1, z0, z1, z2) == (d * d - d) * (r * r)
        }),
{
    let (z0, z1, z2) = (d * r + a, d * r * r + b, (d * auth) * r + c);
    let a1 = corr_a(a, auth) - a0;
    let b1 = corr_b(a, b, c, auth) - b0;
    assert(a0 * z0 + b0 + (a1 * z0 + b1 + (z0 * z0 - z1 - z2)) == (d * d - d) * (r * r)) by (nonlinear_arith)
        requires z0 == d * r + a, z1 == d * r * r + b, z2 == (d * auth) * r + c, a1 == -2 * a + auth - a0, b1 == a * a + b - a * auth + c - b0;
}
''', 'sketch-algebra')
    return u
