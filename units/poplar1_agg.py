"""C13 — the Poplar1 collection-side fold under contract (Verus, abstract field, ANY number of aggregate shares of ANY length):
`Poplar1FieldVec::zero` and the private helper `aggregate(is_leaf, len, shares)` that `Poplar1::unshard` calls.

Contract of aggregate:
    r is Ok  ==>  EVERY share has the tree-level kind selected by is_leaf (Leaf / Inner) and exactly `len` entries, the result has that
                  kind and length, and entry i is the in-order fold of the i-th entries over ZERO (element-wise field sums);
    any share of the other kind, or of another length  ==>  r is Err.
So the accumulator the shares are folded into is the all-zero vector built from the COLLECTION's aggregation parameter (level and
number of prefixes), not something derived from the shares themselves: aggregate shares of a mismatched tree level or length are
refused wherever they stand, and the result on matching shares does not depend on how they were batched.

Assumed here and proved in unit field_vec (same check): the contract fv_post of Poplar1FieldVec::accumulate.  Rewrites: the iterator
argument is a borrowed vector and `for share in shares.into_iter()` an index loop over it (E4c''); `vec![zero; len]` -> zeros_vec shim
(std semantics); `?` -> match (E4d); Field64 / Field255 are both the abstract field."""
from fe_common import FE_PRELUDE
from vunit import VUnit

PFV = 'src/vdaf/poplar1.rs'
PRELUDE = '''
pub enum FieldError { InputSizeMismatch, ShortRead, ModulusOverflow }
pub enum VdafError { Uncategorized(String), Field(FieldError) }
// Inner is Vec<Field64>, Leaf is Vec<Field255> in the source: both are instances of the abstract field here
pub enum Poplar1FieldVec { Inner(Vec<Fe>), Leaf(Vec<Fe>) }
pub open spec fn fv_seq(v: Poplar1FieldVec) -> Seq<Fe> { match v { Poplar1FieldVec::Inner(a) => a@, Poplar1FieldVec::Leaf(a) => a@ } }
pub open spec fn fv_same_kind(a: Poplar1FieldVec, b: Poplar1FieldVec) -> bool { (a is Inner) == (b is Inner) }
pub open spec fn sum_post(old_acc: Seq<Fe>, other: Seq<Fe>, new_acc: Seq<Fe>, r: Result<(), VdafError>) -> bool {
    &&& new_acc.len() == old_acc.len()
    &&& old_acc.len() != other.len() ==> r is Err && new_acc == old_acc
    &&& old_acc.len() == other.len() ==> r is Ok && forall|i: int| 0 <= i < other.len() ==> #[trigger] new_acc[i] == fe_mk(fe_v(old_acc[i]) + fe_v(other[i]))
}
pub open spec fn fv_post(old_s: Poplar1FieldVec, other: Poplar1FieldVec, new_s: Poplar1FieldVec, r: Result<(), VdafError>) -> bool {
    &&& fv_same_kind(old_s, new_s)
    &&& !fv_same_kind(old_s, other) ==> r is Err && fv_seq(new_s) == fv_seq(old_s)
    &&& fv_same_kind(old_s, other) ==> sum_post(fv_seq(old_s), fv_seq(other), fv_seq(new_s), r)
}
impl Poplar1FieldVec {
    // contract proved in unit field_vec (same check) on the extracted Poplar1FieldVec::accumulate
    #[verifier::external_body]
    fn accumulate(&mut self, output_share: &Poplar1FieldVec) -> (r: Result<(), VdafError>)
        ensures fv_post(*old(self), *output_share, *final(self), r)
    { unimplemented!() }
}
// vec![zero; len]   [std semantics]
#[verifier::external_body]
fn zeros_vec(len: usize) -> (r: Vec<Fe>) ensures r@.len() == len, forall|i: int| 0 <= i < len ==> fe_v(#[trigger] r@[i]) == 0 { unimplemented!() }
// entry i after folding the first k shares into the all-zero vector
pub open spec fn fold_at(shares: Seq<Poplar1FieldVec>, i: int, k: int) -> Fe decreases k
{ if k <= 0 { fe_mk(0) } else { fe_mk(fe_v(fold_at(shares, i, k - 1)) + fe_v(fv_seq(shares[k - 1])[i])) } }
pub open spec fn share_fits(s: Poplar1FieldVec, is_leaf: bool, len: int) -> bool { (s is Leaf) == is_leaf && fv_seq(s).len() == len }
'''


def unit():
    u = VUnit('poplar1_agg', 'Poplar1 aggregate(): fold over ZERO(level, #prefixes); mismatched level / length refused; any number of shares')
    u.oracle = {'inject': 'src/vdaf/poplar1.rs', 'file': 'poplar1_oracle.rs', 'test': 'verif_oracle_poplar1::oracle_unshard_mismatch'}
    u.raw('global size_of usize == 8;\n' + FE_PRELUDE, 'abstract-field')
    u.raw(PRELUDE, 'fieldvec')
    u.item(PFV, ['impl Poplar1FieldVec', 'fn zero'], ret='r', impl_header='impl Poplar1FieldVec', nth={0: 0},
           rewrites=[(r'vec!\[<Field255 as FieldElement>::zero\(\); len\]', 'zeros_vec(len)', 1), (r'vec!\[<Field64 as FieldElement>::zero\(\); len\]', 'zeros_vec(len)', 1),
                     (r'\bSelf::', 'Poplar1FieldVec::', '*'), (r'-> Self\b', '-> Poplar1FieldVec', 1)],
           sig='''
ensures
    (r is Leaf) == is_leaf,
    fv_seq(r).len() == len,
    forall|i: int| 0 <= i < len ==> fe_v(#[trigger] fv_seq(r)[i]) == 0,
''')
    u.item(PFV, ['fn aggregate'], ret='r',
           rewrites=[(r'<M: IntoIterator<Item = Poplar1FieldVec>>', '', 1), (r'shares: M', 'shares: &Vec<Poplar1FieldVec>', 1),
                     (r'for share in shares\.into_iter\(\) \{', 'for k_ in 0..shares.len() { let share = &shares[k_];', 1),
                     (r'result\.accumulate\(&share\)\?;', 'match result.accumulate(share) { Ok(()) => {}, Err(e) => { return Err(e); } }', 1)],
           sig='''
ensures
    // Ok only when EVERY share belongs to the collection's tree level and has exactly len entries ...
    r is Ok ==> forall|k: int| 0 <= k < shares@.len() ==> share_fits(#[trigger] shares@[k], is_leaf, len as int),
    // ... and then the result is the in-order fold over the all-zero vector of that level and length
    r is Ok ==> share_fits(r->Ok_0, is_leaf, len as int) && forall|i: int| 0 <= i < len ==> #[trigger] fv_seq(r->Ok_0)[i] == fold_at(shares@, i, shares@.len() as int),
    // a share of another level or length is refused wherever it stands
    (exists|k: int| 0 <= k < shares@.len() && !share_fits(#[trigger] shares@[k], is_leaf, len as int)) ==> r is Err,
''',
           before=[('for k_ in 0..', '''
    assert forall|i: int| 0 <= i < len implies #[trigger] fv_seq(result)[i] == fold_at(shares@, i, 0) by { axiom_fe_range(fv_seq(result)[i]); }
''')],
           loops={0: '''
invariant
    share_fits(result, is_leaf, len as int),
    forall|k: int| 0 <= k < k_ ==> share_fits(#[trigger] shares@[k], is_leaf, len as int),
    forall|i: int| 0 <= i < len ==> #[trigger] fv_seq(result)[i] == fold_at(shares@, i, k_ as int),
'''})
    return u
