"""C09 — fp/ops.rs FieldOps::{add, sub, neg, modp} and FieldMulOpsSingleWord::mul under contract,
one Verus unit per real instantiation (FP32: u32/u64, FP64: u64/u128)."""
from fp_common import WORDS, const_decls, tsel, wty
from vunit import VUnit

F = 'src/fp/ops.rs'


def prelude(bits):
    w = WORDS[bits]
    W, R = w['W'], w['R']
    decl, c = const_decls(bits)
    P = w['pfx'].upper()
    rinv = pow(int(R.replace('int', '').replace('_', ''), 16), -1, c['PRIME'])
    txt = decl + '''
// R^-1 mod p: computed by the unit generator, *checked* by lemma_rinv (by compute) -- not trusted
pub open spec fn RINV() -> int { %(RINV)dint }
// val(a): the residue class a Montgomery representative a stands for (a * R^-1 mod p)
pub open spec fn val(a: int) -> int { (a * RINV()) %% PP() }
pub open spec fn RR() -> int { %(R)s }
pub open spec fn PP() -> int { %(P)s_PRIME as int }
// mont_rel(a, v): a is the Montgomery representative of the residue class of v
pub open spec fn mont_rel(a: int, v: int) -> bool { 0 <= a < PP() && (a - v * RR()) %% PP() == 0 }

// <W as From<bool>>::from (std: false -> 0, true -> 1)
fn bool_as_%(W)s(b: bool) -> (r: %(W)s) ensures r == (if b { 1%(W)s } else { 0%(W)s }) { b as %(W)s }
fn bool_as_%(W2)s(b: bool) -> (r: %(W2)s) ensures r == (if b { 1%(W2)s } else { 0%(W2)s }) { b as %(W2)s }

// [trusted: std semantics] num_traits' OverflowingAdd/OverflowingSub forward to these inherent methods
pub assume_specification [%(W)s::overflowing_add] (x: %(W)s, y: %(W)s) -> (r: (%(W)s, bool))
    ensures r.0 as int == (x as int + y as int) %% RR(),
            r.1 == (x as int + y as int >= RR());
pub assume_specification [%(W)s::overflowing_sub] (x: %(W)s, y: %(W)s) -> (r: (%(W)s, bool))
    ensures r.0 as int == (x as int - y as int) %% RR(),
            r.1 == ((x as int) < (y as int));
''' % dict(R=R, P=P, W=W, W2=w['W2'], RINV=rinv)
    return txt, c


ADD_SIG = '''
requires
    x < {P}_PRIME
    y < {P}_PRIME
ensures
    r < {P}_PRIME
    r as int == (x as int + y as int) % PP()
'''
# no precondition: modp() calls sub(x, PRIME), so the contract covers y == p as well
SUB_SIG = '''
ensures
    x >= y ==> r as int == x as int - y as int
    x < y && y as int - x as int <= PP() ==> r as int == x as int - y as int + PP()
    x < {P}_PRIME && y < {P}_PRIME ==> r < {P}_PRIME && r as int == (x as int - y as int) % PP()
'''


def _commas(sig):
    """one clause per line -> add trailing commas (clauses are line-separated in the contract text)"""
    out = []
    for l in sig.strip('\n').split('\n'):
        s = l.strip()
        if s in ('requires', 'ensures', 'decreases') or not s:
            out.append(s)
        else:
            out.append(s.rstrip(',') + ',')
    return '\n'.join(out)


def unit(bits):
    w = WORDS[bits]
    W, W2, P, p = w['W'], w['W2'], w['pfx'].upper(), w['pfx']
    u = VUnit('fp_ops%d' % bits, 'FieldOps add/sub/neg/modp + single-word Montgomery mul, %s instance' % w['S'])
    pre, c = prelude(bits)
    h = 'fp%d_add_sub_full' % bits
    u.oracle = {'inject': 'src/fp.rs', 'file': 'fp_oracle.rs', 'test': 'verif_oracle_fp::oracle_fp%d' % bits}
    u.paired_kani = {p + '_add': [h], p + '_sub': [h], p + '_neg': [h], p + '_modp': [h]}
    u.raw(pre, 'prelude')
    fmt = dict(P=P, MAX=w['max'], W=W, W2=W2, p=p, R2T=w['R2T'], R=w['R'])

    u.item(F, ['trait FieldOps', 'fn add'], name=p + '_add', ret='r',
           rewrites=tsel(bits, 'ovf', 'bool', 'prime', 'zero') + wty(bits),
           sig=_commas(ADD_SIG.format(**fmt)),
           before=[('(z & mask) | (s0 & !mask)', '''
               assert(mask == 0 || mask == {MAX});
               assert(mask == 0 ==> ((z & mask) | (s0 & !mask)) == s0) by (bit_vector);
               assert(mask == {MAX} ==> ((z & mask) | (s0 & !mask)) == z) by (bit_vector);
               let s = x as int + y as int;
               if s < PP() {{ lemma_small_mod(s as nat, PP() as nat); }}
               else {{ lemma_small_mod((s - PP()) as nat, PP() as nat); lemma_mod_sub_multiples_vanish(s, PP()); }}
           '''.format(**fmt))])

    u.item(F, ['trait FieldOps', 'fn sub'], name=p + '_sub', ret='r',
           rewrites=tsel(bits, 'ovf', 'bool', 'prime', 'zero') + wty(bits),
           sig=_commas(SUB_SIG.format(**fmt)),
           before=[('z0.wrapping_add', '''
               assert(mask == 0 ==> (mask & {P}_PRIME) == 0) by (bit_vector);
               assert(mask == {MAX} ==> (mask & {P}_PRIME) == {P}_PRIME) by (bit_vector);
               let d = x as int - y as int;
               if x < {P}_PRIME && y < {P}_PRIME {{
                   if d >= 0 {{ lemma_small_mod(d as nat, PP() as nat); }}
                   else {{ lemma_small_mod((d + PP()) as nat, PP() as nat); lemma_mod_add_multiples_vanish(d, PP()); }}
               }}
           '''.format(**fmt))])

    u.item(F, ['trait FieldOps', 'fn neg'], name=p + '_neg', ret='r',
           rewrites=tsel(bits, 'zero', extra=[(r'\bSelf::sub\(', p + '_sub(', '*')]) + wty(bits),
           sig=_commas('''
requires
    x < {P}_PRIME
ensures
    r < {P}_PRIME
    r as int == (0 - x as int) % PP()
    (r as int + x as int) % PP() == 0
'''.format(**fmt)),
           before=[(p + '_sub(', '''
               if x > 0 {{ vstd::arithmetic::div_mod::lemma_small_mod((PP() - x as int) as nat, PP() as nat);
                          vstd::arithmetic::div_mod::lemma_mod_add_multiples_vanish(0 - x as int, PP());
                          vstd::arithmetic::div_mod::lemma_mod_self_0(PP()); }}
               else {{ vstd::arithmetic::div_mod::lemma_small_mod(0, PP() as nat); }}
           '''.format(**fmt))])

    # modp: called by montgomery()/residue() on values already < p (result of mul): then x - p
    # borrows and the prime is added back; the contract states the general behaviour on [0, 2p).
    u.item(F, ['trait FieldOps', 'fn modp'], name=p + '_modp', ret='r',
           rewrites=tsel(bits, 'prime', extra=[(r'\bSelf::sub\(', p + '_sub(', '*')]) + wty(bits),
           sig=_commas('''
ensures
    (x as int) < PP() ==> r == x
    PP() <= (x as int) ==> r as int == x as int - PP()
'''.format(**fmt)))
    if bits != 128:
        add_mul_single(u, bits, fmt)
    add_pow(u, bits, fmt, c)
    return u


AS_ = r'((?:[A-Za-z_][\w:]*)|\((?:[^()]|\([^()]*\))*\))\.as_\(\)'


def add_mul_single(u, bits, fmt):
    W, W2, P, p = fmt['W'], fmt['W2'], fmt['P'], fmt['p']
    u.raw('''
proof fn lemma_mu()
    ensures ({P}_MU as int * {P}_PRIME as int) % RR() == RR() - 1
{{
    assert(({P}_MU as int * {P}_PRIME as int) % RR() == RR() - 1) by (compute);
}}

// (z0 + p * ((mu*z0) % R)) % R == 0  given (mu*p) % R == R-1
proof fn lemma_redc_low(z0: int, mu: int, p: int, r: int)
    requires r > 0, 0 <= z0 < r, (mu * p) % r == r - 1,
    ensures (z0 + p * ((mu * z0) % r)) % r == 0,
{{
    let w = (mu * z0) % r;
    lemma_mul_mod_noop_right(p, mu * z0, r);
    assert((p * w) % r == (p * (mu * z0)) % r);
    lemma_mul_is_associative(p, mu, z0);
    lemma_mul_is_commutative(p, mu);
    assert(p * (mu * z0) == (mu * p) * z0);
    lemma_mul_mod_noop_left(mu * p, z0, r);
    assert(((mu * p) * z0) % r == ((r - 1) * z0) % r);
    lemma_mul_is_distributive_sub_other_way(z0, r, 1);
    assert((r - 1) * z0 == r * z0 - z0);
    lemma_add_mod_noop(z0, p * w, r);
    lemma_add_mod_noop(z0, (r - 1) * z0, r);
    assert((z0 + p * w) % r == (z0 + (r - 1) * z0) % r);
    assert(z0 + (r - 1) * z0 == r * z0);
    lemma_mod_multiples_basic(z0, r);
    lemma_mul_is_commutative(r, z0);
}}
'''.format(**fmt), 'mul-lemmas')

    # E5: the non-capturing closure `hi_lo` is lifted to a fn with the same body
    u.item(F, ['trait FieldMulOpsSingleWord', 'fn mul'], name=p + '_hi_lo', ret='r',
           rewrites=[(r'^.*let hi_lo = \|v: Self::DoubleWord\| -> \(W, W\) \{(.*?)\};.*$',
                      r'fn hi_lo(v: Self::DoubleWord) -> (W, W) {\1}', 1),
                     (AS_, r'(\1 as %s)' % W, 2),
                     (r'\bSelf::DoubleWord\b', W2, 1), (r'\bW::BITS\b', '%dusize' % bits, 1)] + wty(bits),
           sig=_commas('''
ensures
    r.0 as int == (v as int) / RR()
    r.1 as int == (v as int) % RR()
'''),
           before=[('(((v >>', '''
               assert((v >> {bits}usize) == v / ({RW2})) by (bit_vector);
               assert((v as {W}) as {W2} == v % ({RW2})) by (bit_vector);
           '''.format(bits=bits, RW2=fmt['R'].replace('int', W2), **fmt))])

    u.item(F, ['trait FieldMulOpsSingleWord', 'fn mul'], name=p + '_mul', ret='r',
           rewrites=[(r'let hi_lo = \|v: Self::DoubleWord\| -> \(W, W\) \{.*?\};', '', 1),
                     (r'\bhi_lo\(', p + '_hi_lo(', 3),
                     (AS_, r'(\1 as %s)' % W2, 6),
                     (r'<Self::DoubleWord as From<bool>>::from\(', 'bool_as_%s(' % W2, 1),
                     (r'\bSelf::MU\b', P + '_MU', 1)]
           + tsel(bits, 'ovf', 'bool', 'prime', 'zero') + wty(bits),
           sig=_commas('''
requires
    y < {P}_PRIME
ensures
    r < {P}_PRIME
    (r as int * RR()) % PP() == (x as int * y as int) % PP()
    val(r as int) == (val(x as int) * val(y as int)) % PP()
'''.format(**fmt)),
           before=[
               ('let (z1, z0) =', '''
               lemma_mul_upper_bound(x as int, RR() - 1, y as int, PP() - 1);
               lemma_mul_nonnegative(x as int, y as int);
               assert((RR() - 1) * (PP() - 1) < RR() * PP()) by (nonlinear_arith) requires 1 <= PP(), 1 <= RR();
               assert(RR() * PP() < {R2T}) by (nonlinear_arith) requires PP() < RR(), RR() * RR() == {R2T}, RR() > 0;
               '''.format(**fmt)),
               ('let (r1, r0) =', '''
               lemma_mul_upper_bound(PP(), PP(), w as int, RR() - 1);
               lemma_mul_nonnegative(PP(), w as int);
               assert(PP() * (RR() - 1) < {R2T}) by (nonlinear_arith) requires PP() < RR(), RR() * RR() == {R2T}, RR() > 0;
               '''.format(**fmt)),
               ('(z & mask) | (s0 & !mask)', '''
               let p = PP();
               let xyi = x as int * y as int;
               let pwi = p * w as int;
               let res = (z & mask) | (s0 & !mask);
               assert(w as int == ({P}_MU as int * z0 as int) % RR());
               lemma_fundamental_div_mod(xyi, RR());
               lemma_fundamental_div_mod(pwi, RR());
               assert(xyi == RR() * (z1 as int) + z0 as int);
               assert(pwi == RR() * (r1 as int) + r0 as int);
               lemma_mu();
               lemma_redc_low(z0 as int, {P}_MU as int, p, RR());
               lemma_add_mod_noop_right(z0 as int, pwi, RR());
               assert((z0 as int + r0 as int) % RR() == 0) by {{
                   lemma_small_mod(r0 as nat, RR() as nat);
                   lemma_add_mod_noop_right(z0 as int, r0 as int, RR());
               }}
               let s = z0 as int + r0 as int;
               assert(s == 0 || s == RR()) by {{
                   if s >= RR() {{ lemma_mod_sub_multiples_vanish(s, RR()); lemma_small_mod((s - RR()) as nat, RR() as nat); }}
                   else {{ lemma_small_mod(s as nat, RR() as nat); }}
               }}
               let ti = z1 as int + r1 as int + (if carry {{ 1int }} else {{ 0int }});
               assert(ti * RR() == xyi + pwi) by (nonlinear_arith)
                   requires xyi == RR() * (z1 as int) + z0 as int, pwi == RR() * (r1 as int) + r0 as int,
                            ti == z1 as int + r1 as int + (if carry {{ 1int }} else {{ 0int }}),
                            (carry ==> z0 as int + r0 as int == RR()), (!carry ==> z0 as int + r0 as int == 0);
               assert(xyi + pwi < 2 * p * RR()) by (nonlinear_arith)
                   requires xyi <= (RR() - 1) * (p - 1), pwi <= p * (RR() - 1), p > 0, RR() > 0;
               assert(ti < 2 * p) by (nonlinear_arith) requires ti * RR() < 2 * p * RR(), RR() > 0;
               assert(mask == 0 || mask == {MAX});
               assert(mask == 0 ==> ((z & mask) | (s0 & !mask)) == s0) by (bit_vector);
               assert(mask == {MAX} ==> ((z & mask) | (s0 & !mask)) == z) by (bit_vector);
               lemma_fundamental_div_mod(ti, RR());
               assert(ti == RR() * (cc as int) + z as int);
               assert(cc as int == 0 || cc as int == 1);
               let resi = res as int;
               assert(resi == if ti < p {{ ti }} else {{ ti - p }});
               assert((resi * RR()) % p == (ti * RR()) % p) by {{
                   if ti >= p {{
                       assert(resi * RR() == ti * RR() - p * RR()) by (nonlinear_arith) requires resi == ti - p;
                       lemma_mul_is_commutative(p, RR());
                       lemma_mod_multiples_vanish(-RR(), ti * RR(), p);
                   }}
               }}
               assert((xyi + pwi) % p == xyi % p) by {{
                   lemma_mul_is_commutative(p, w as int);
                   lemma_mod_multiples_vanish(w as int, xyi, p);
               }}
               lemma_mul_val(x as int, y as int, resi);
               '''.format(**fmt)),
           ])


# --------------------------------------------------------------------------------------------------
# pow / inv / montgomery / residue against the residue-class view val(a) = a * R^-1 mod p
VAL_LEMMAS = '''
proof fn lemma_rinv()
    ensures (RINV() * RR()) % PP() == 1, 0 < RINV() < PP(), PP() > 2,
{{
    assert((RINV() * RR()) % PP() == 1 && 0 < RINV() < PP() && PP() > 2) by (compute);
}}
proof fn lemma_consts_val()
    ensures val({P}_ROOT0 as int) == 1, val({P}_R2 as int) == RR() % PP(), {P}_R2 < {P}_PRIME, {P}_ROOT0 < {P}_PRIME,
{{
    assert(val({P}_ROOT0 as int) == 1 && val({P}_R2 as int) == RR() % PP() && {P}_R2 < {P}_PRIME && {P}_ROOT0 < {P}_PRIME) by (compute);
}}
// a == b (mod p)  ==>  a*c == b*c (mod p)
proof fn lemma_cong_mul(a: int, b: int, c: int, p: int)
    requires p > 0, a % p == b % p,
    ensures (a * c) % p == (b * c) % p,
{{
    lemma_mul_mod_noop_left(a, c, p);
    lemma_mul_mod_noop_left(b, c, p);
}}
// the Montgomery product contract, restated on residue classes
proof fn lemma_mul_val(x: int, y: int, r: int)
    requires 0 <= r < PP(), (r * RR()) % PP() == (x * y) % PP(),
    ensures val(r) == (val(x) * val(y)) % PP(),
{{
    let p = PP(); let ri = RINV(); let rr = RR();
    lemma_rinv();
    lemma_cong_mul(r * rr, x * y, ri * ri, p);
    assert((r * rr) * (ri * ri) == (r * ri) * (ri * rr)) by (nonlinear_arith);
    assert((x * y) * (ri * ri) == (x * ri) * (y * ri)) by (nonlinear_arith);
    lemma_mul_mod_noop_right(r * ri, ri * rr, p);
    assert(((r * ri) * (ri * rr)) % p == ((r * ri) * 1) % p);
    lemma_mul_mod_noop(x * ri, y * ri, p);
}}
// a reduced Montgomery representative is determined by its residue class: a == val(a) * R mod p
proof fn lemma_val_inj(a: int)
    requires 0 <= a < PP(),
    ensures (val(a) * RR()) % PP() == a, 0 <= val(a) < PP(),
{{
    let p = PP(); let ri = RINV(); let rr = RR();
    lemma_rinv();
    lemma_mul_mod_noop_left(a * ri, rr, p);
    assert((a * ri) * rr == a * (ri * rr)) by (nonlinear_arith);
    lemma_mul_mod_noop_right(a, ri * rr, p);
    lemma_small_mod(a as nat, p as nat);
    lemma_mod_bound(a * ri, p);
}}
pub open spec fn powm(v: int, e: nat) -> int {{ pow(v, e) % PP() }}
// one square-and-multiply step on residue classes
proof fn lemma_pow_step(v: int, e1: nat, vt: int, vs: int, vm: int)
    requires vt == powm(v, e1), vs == (vt * vt) % PP(), vm == (vs * (v % PP())) % PP(),
    ensures vs == powm(v, 2 * e1), vm == powm(v, 2 * e1 + 1),
{{
    let p = PP();
    lemma_rinv();
    lemma_pow_adds(v, e1, e1);
    lemma_mul_mod_noop(pow(v, e1), pow(v, e1), p);
    lemma_pow_adds(v, 2 * e1, 1);
    lemma_pow1(v);
    lemma_mul_mod_noop(pow(v, 2 * e1), v, p);
}}
proof fn lemma_div2_step(e: int, i: nat)
    requires e >= 0,
    ensures e / (pow2(i) as int) == 2 * (e / (pow2(i + 1) as int)) + (e / (pow2(i) as int)) % 2, pow2(i) > 0,
            e / (pow2(i + 1) as int) >= 0,
{{
    lemma_pow2_pos(i);
    lemma_pow2_pos(i + 1);
    lemma_pow2_unfold(i + 1);
    let a = pow2(i) as int;
    lemma_div_denominator(e, a, 2);
    lemma_fundamental_div_mod(e / a, 2);
    lemma_div_pos_is_pos(e, pow2(i + 1) as int);
}}
'''


MUL128_CONTRACT = """
// contract of FieldMulOpsSplitWord::mul, PROVED in unit fp_mul128 from the extracted text (same check run)
#[verifier::external_body]
fn fp128_mul_proved(x: u128, y: u128) -> (r: u128)
    requires y < FP128_PRIME,
    ensures r < FP128_PRIME, (r as int * RR()) % PP() == (x as int * y as int) % PP(),
{ unimplemented!() }
// the same contract restated on residue classes (lemma_mul_val); forwarding glue, no arithmetic of its own
fn fp128_mul(x: u128, y: u128) -> (r: u128)
    requires y < FP128_PRIME,
    ensures r < FP128_PRIME, (r as int * RR()) % PP() == (x as int * y as int) % PP(),
            val(r as int) == (val(x as int) * val(y as int)) % PP(),
{
    let r = fp128_mul_proved(x, y);
    proof { lemma_mul_val(x as int, y as int, r as int); }
    r
}
// [trusted: std semantics] u128::leading_zeros (vstd specifies it for u8..u64/usize only)
pub assume_specification [u128::leading_zeros] (x: u128) -> (r: u32)
    ensures r <= 128, (x as int) < pow2((128 - r) as nat);
proof fn lemma_lz128(x: u128) { }
"""

LZ_LEMMA = """
proof fn lemma_lz{bits}(x: {W})
    ensures {W}_leading_zeros(x) <= {bits}, (x as int) < pow2(({bits} - {W}_leading_zeros(x)) as nat),
{{
    let lz = {W}_leading_zeros(x);
    axiom_{W}_leading_zeros(x);
    if lz == 0 {{
        lemma2_to64();
    }} else {{
        assert((x >> (({bits} - lz) as {W})) == 0);
        lemma_{W}_shr_is_div(x, ({bits} - lz) as {W});
        lemma_pow2_pos(({bits} - lz) as nat);
        lemma_fundamental_div_mod(x as int, pow2(({bits} - lz) as nat) as int);
        lemma_mod_bound(x as int, pow2(({bits} - lz) as nat) as int);
    }}
}}
"""

POW_LOOP = """
invariant
    k_ <= {bits},
    k_ == 0 ==> (exp as int) / (pow2(k_ as nat) as int) == exp as int,
    x < {P}_PRIME,
    t < {P}_PRIME,
    val(t as int) == powm(val(x as int), ((exp as int) / (pow2(k_ as nat) as int)) as nat),
decreases k_
"""

POW_INIT_HINT = """
lemma_consts_val(); lemma_rinv(); lemma_lz{bits}(exp); lemma2_to64();
lemma_pow0(val(x as int));
lemma_small_mod(1, PP() as nat);
lemma_pow2_pos(k_ as nat);
lemma_basic_div(exp as int, pow2(k_ as nat) as int);
assert(k_ == 0 ==> (exp as int) / (pow2(k_ as nat) as int) == exp as int) by {{ lemma2_to64(); lemma_div_basics_2(exp as int); }}
"""

POW_STEP_HINT = """
let ghost v = val(x as int);
let ghost e1 = ((exp as int) / (pow2((i + 1) as nat) as int)) as nat;
lemma_div2_step(exp as int, i as nat);
lemma_rinv();
lemma_mod_bound(x as int * RINV(), PP());
lemma_small_mod(v as nat, PP() as nat);
let ghost vs = (val(t as int) * val(t as int)) % PP();
lemma_pow_step(v, e1, val(t as int), vs, (vs * (v % PP())) % PP());
lemma_{W}_shr_is_div(exp, i as {W});
assert(((exp >> i) & 1 != 0) == ((exp >> i) % 2 == 1)) by (bit_vector);
assert(i == 0 ==> (exp as int) / (pow2(i as nat) as int) == exp as int) by {{ lemma2_to64(); lemma_div_basics_2(exp as int); }}
"""


def add_pow(u, bits, fmt, c):
    """pow (square-and-multiply, E4b loop-shape rewrite), inv, montgomery, residue.  `mul` is seen
    through its contract only (for FP128 the contract is the one proved in unit fp_mul128)."""
    W, W2, P, p = fmt['W'], fmt['W2'], fmt['P'], fmt['p']
    f2 = dict(fmt, bits=bits)
    u.raw(VAL_LEMMAS.format(**fmt), 'val-lemmas')
    u.raw(MUL128_CONTRACT if bits == 128 else LZ_LEMMA.format(**f2), 'lz')
    mulname = p + '_mul'
    u.item(F, ['trait FieldOps', 'fn pow'], name=p + '_pow', ret='r',
           rewrites=[(r'for i in \(0\.\.([^{};]+?)\)\.rev\(\)\s*\{',
                      r'let mut k_: usize = \1; while k_ > 0 { k_ = k_ - 1; let i = k_;', 1),      # E4b
                     (r'\bSelf::ROOTS\[0\]', P + '_ROOT0', 1), (r'\bSelf::mul\(', mulname + '(', 2),
                     (r'\bW::BITS\b', '%dusize' % bits, '*')] + tsel(bits) + wty(bits),
           sig=_commas('''
requires
    x < {P}_PRIME
ensures
    r < {P}_PRIME
    val(r as int) == powm(val(x as int), exp as nat)
'''.format(**fmt)),
           loops={0: POW_LOOP.format(**f2)},
           before=[('while k_ > 0', POW_INIT_HINT.format(**f2)),
                   ('t = %s(t, t)' % mulname, POW_STEP_HINT.format(**f2))])
    u.item(F, ['trait FieldOps', 'fn inv'], name=p + '_inv', ret='r',
           rewrites=[(r'\bSelf::pow\(', p + '_pow(', 1)] + tsel(bits) + wty(bits),
           sig=_commas('''
requires
    x < {P}_PRIME
ensures
    r < {P}_PRIME
    val(r as int) == powm(val(x as int), (PP() - 2) as nat)
'''.format(**fmt)),
           before=[(p + '_pow(', 'lemma_rinv();')])
    u.raw('''
proof fn lemma_montgomery_val(x: int)
    ensures ((val(x) * val({P}_R2 as int)) % PP()) == x % PP(),
{{
    let p = PP(); let ri = RINV(); let rr = RR();
    lemma_rinv(); lemma_consts_val();
    lemma_mul_mod_noop(x * ri, rr, p);
    assert((x * ri) * rr == x * (ri * rr)) by (nonlinear_arith);
    lemma_mul_mod_noop_right(x, ri * rr, p);
}}
proof fn lemma_residue_val(x: int)
    ensures (((val(x) * val(1)) % PP()) * RR()) % PP() == val(x),
{{
    let p = PP(); let ri = RINV(); let rr = RR(); let v = val(x);
    lemma_rinv();
    lemma_mod_bound(x * ri, p);
    lemma_small_mod(ri as nat, p as nat);
    assert(val(1) == ri);
    lemma_mul_mod_noop_left(v * ri, rr, p);
    assert((v * ri) * rr == v * (ri * rr)) by (nonlinear_arith);
    lemma_mul_mod_noop_right(v, ri * rr, p);
    lemma_small_mod(v as nat, p as nat);
}}
'''.format(**fmt), 'mont-lemmas')
    u.item(F, ['trait FieldOps', 'fn montgomery'], name=p + '_montgomery', ret='r',
           rewrites=[(r'\bSelf::modp\(', p + '_modp(', 1), (r'\bSelf::mul\(', mulname + '(', 1),
                     (r'\bSelf::R2\b', P + '_R2', 1)] + tsel(bits) + wty(bits),
           sig=_commas('''
ensures
    r < {P}_PRIME
    val(r as int) == (x as int) % PP()
'''.format(**fmt)),
           before=[(p + '_modp(', 'lemma_consts_val(); lemma_montgomery_val(x as int);')])
    u.item(F, ['trait FieldOps', 'fn residue'], name=p + '_residue', ret='r',
           rewrites=[(r'\bSelf::modp\(', p + '_modp(', 1), (r'\bSelf::mul\(', mulname + '(', 1)] + tsel(bits) + wty(bits),
           sig=_commas('''
ensures
    r < {P}_PRIME
    r as int == val(x as int)
'''.format(**fmt)),
           before=[(p + '_modp(', '''
               lemma_rinv();
               assert forall|m: int| 0 <= m < PP() implies (#[trigger] val(m) * RR()) % PP() == m by {
                   lemma_val_inj(m);
               }
               lemma_residue_val(x as int);
           ''')])
