"""C09 — fp/ops.rs FieldOps::{add, sub, neg, modp} and FieldMulOpsSingleWord::mul under contract,
one Verus unit per real instantiation (FP32: u32/u64, FP64: u64/u128)."""
from fp_common import WORDS, const_decls, tsel, wty
from vunit import VUnit

F = 'src/fp/ops.rs'


def prelude(bits):
    w = WORDS[bits]
    W, R = w['W'], w['R']
    decl, c = const_decls(bits)
    P = w['pfx'].upper()
    txt = decl + '''
pub open spec fn RR() -> int { %(R)s }
pub open spec fn PP() -> int { %(P)s_PRIME as int }
// mont_rel(a, v): a is the Montgomery representative of the residue class of v
pub open spec fn mont_rel(a: int, v: int) -> bool { 0 <= a < PP() && (a - v * RR()) %% PP() == 0 }

// <W as From<bool>>::from (std: false -> 0, true -> 1)
fn bool_as_%(W)s(b: bool) -> (r: %(W)s) ensures r == (if b { 1%(W)s } else { 0%(W)s }) { b as %(W)s }
fn bool_as_%(W2)s(b: bool) -> (r: %(W2)s) ensures r == (if b { 1%(W2)s } else { 0%(W2)s }) { b as %(W2)s }

// [trusted: std semantics] num_traits' OverflowingAdd/OverflowingSub forward to these inherent methods
pub assume_specification [%(W)s::overflowing_add] (x: %(W)s, y: %(W)s) -> (r: (%(W)s, bool))
    ensures r.0 as int == (x as int + y as int) %% RR(),
            r.1 == (x as int + y as int >= RR());
pub assume_specification [%(W)s::overflowing_sub] (x: %(W)s, y: %(W)s) -> (r: (%(W)s, bool))
    ensures r.0 as int == (x as int - y as int) %% RR(),
            r.1 == ((x as int) < (y as int));
''' % dict(R=R, P=P, W=W, W2=w['W2'])
    return txt, c


ADD_SIG = '''
requires
    x < {P}_PRIME
    y < {P}_PRIME
ensures
    r < {P}_PRIME
    r as int == (x as int + y as int) % PP()
'''
# no precondition: modp() calls sub(x, PRIME), so the contract covers y == p as well
SUB_SIG = '''
ensures
    x >= y ==> r as int == x as int - y as int
    x < y && y as int - x as int <= PP() ==> r as int == x as int - y as int + PP()
    x < {P}_PRIME && y < {P}_PRIME ==> r < {P}_PRIME && r as int == (x as int - y as int) % PP()
'''


def _commas(sig):
    """one clause per line -> add trailing commas (clauses are line-separated in the contract text)"""
    out = []
    for l in sig.strip('\n').split('\n'):
        s = l.strip()
        if s in ('requires', 'ensures', 'decreases') or not s:
            out.append(s)
        else:
            out.append(s.rstrip(',') + ',')
    return '\n'.join(out)


def unit(bits):
    w = WORDS[bits]
    W, W2, P, p = w['W'], w['W2'], w['pfx'].upper(), w['pfx']
    u = VUnit('fp_ops%d' % bits, 'FieldOps add/sub/neg/modp + single-word Montgomery mul, %s instance' % w['S'])
    pre, c = prelude(bits)
    h = 'fp%d_add_sub_full' % bits
    u.oracle = {'inject': 'src/fp.rs', 'file': 'fp_oracle.rs', 'test': 'verif_oracle_fp::oracle_fp%d' % bits}
    u.paired_kani = {p + '_add': [h], p + '_sub': [h], p + '_neg': [h], p + '_modp': [h]}
    u.raw(pre, 'prelude')
    fmt = dict(P=P, MAX=w['max'], W=W, W2=W2, p=p, R2T=w['R2T'], R=w['R'])

    u.item(F, ['trait FieldOps', 'fn add'], name=p + '_add', ret='r',
           rewrites=tsel(bits, 'ovf', 'bool', 'prime', 'zero') + wty(bits),
           sig=_commas(ADD_SIG.format(**fmt)),
           before=[('(z & mask) | (s0 & !mask)', '''
               assert(mask == 0 || mask == {MAX});
               assert(mask == 0 ==> ((z & mask) | (s0 & !mask)) == s0) by (bit_vector);
               assert(mask == {MAX} ==> ((z & mask) | (s0 & !mask)) == z) by (bit_vector);
               let s = x as int + y as int;
               if s < PP() {{ lemma_small_mod(s as nat, PP() as nat); }}
               else {{ lemma_small_mod((s - PP()) as nat, PP() as nat); lemma_mod_sub_multiples_vanish(s, PP()); }}
           '''.format(**fmt))])

    u.item(F, ['trait FieldOps', 'fn sub'], name=p + '_sub', ret='r',
           rewrites=tsel(bits, 'ovf', 'bool', 'prime', 'zero') + wty(bits),
           sig=_commas(SUB_SIG.format(**fmt)),
           before=[('z0.wrapping_add', '''
               assert(mask == 0 ==> (mask & {P}_PRIME) == 0) by (bit_vector);
               assert(mask == {MAX} ==> (mask & {P}_PRIME) == {P}_PRIME) by (bit_vector);
               let d = x as int - y as int;
               if x < {P}_PRIME && y < {P}_PRIME {{
                   if d >= 0 {{ lemma_small_mod(d as nat, PP() as nat); }}
                   else {{ lemma_small_mod((d + PP()) as nat, PP() as nat); lemma_mod_add_multiples_vanish(d, PP()); }}
               }}
           '''.format(**fmt))])

    u.item(F, ['trait FieldOps', 'fn neg'], name=p + '_neg', ret='r',
           rewrites=tsel(bits, 'zero', extra=[(r'\bSelf::sub\(', p + '_sub(', '*')]) + wty(bits),
           sig=_commas('''
requires
    x < {P}_PRIME
ensures
    r < {P}_PRIME
    r as int == (0 - x as int) % PP()
    (r as int + x as int) % PP() == 0
'''.format(**fmt)),
           before=[(p + '_sub(', '''
               if x > 0 {{ vstd::arithmetic::div_mod::lemma_small_mod((PP() - x as int) as nat, PP() as nat);
                          vstd::arithmetic::div_mod::lemma_mod_add_multiples_vanish(0 - x as int, PP());
                          vstd::arithmetic::div_mod::lemma_mod_self_0(PP()); }}
               else {{ vstd::arithmetic::div_mod::lemma_small_mod(0, PP() as nat); }}
           '''.format(**fmt))])

    # modp: called by montgomery()/residue() on values already < p (result of mul): then x - p
    # borrows and the prime is added back; the contract states the general behaviour on [0, 2p).
    u.item(F, ['trait FieldOps', 'fn modp'], name=p + '_modp', ret='r',
           rewrites=tsel(bits, 'prime', extra=[(r'\bSelf::sub\(', p + '_sub(', '*')]) + wty(bits),
           sig=_commas('''
ensures
    (x as int) < PP() ==> r == x
    PP() <= (x as int) ==> r as int == x as int - PP()
'''.format(**fmt)))
    if bits != 128:
        add_mul_single(u, bits, fmt)
    return u


AS_ = r'((?:[A-Za-z_][\w:]*)|\((?:[^()]|\([^()]*\))*\))\.as_\(\)'


def add_mul_single(u, bits, fmt):
    W, W2, P, p = fmt['W'], fmt['W2'], fmt['P'], fmt['p']
    u.raw('''
proof fn lemma_mu()
    ensures ({P}_MU as int * {P}_PRIME as int) % RR() == RR() - 1
{{
    assert(({P}_MU as int * {P}_PRIME as int) % RR() == RR() - 1) by (compute);
}}

// (z0 + p * ((mu*z0) % R)) % R == 0  given (mu*p) % R == R-1
proof fn lemma_redc_low(z0: int, mu: int, p: int, r: int)
    requires r > 0, 0 <= z0 < r, (mu * p) % r == r - 1,
    ensures (z0 + p * ((mu * z0) % r)) % r == 0,
{{
    let w = (mu * z0) % r;
    lemma_mul_mod_noop_right(p, mu * z0, r);
    assert((p * w) % r == (p * (mu * z0)) % r);
    lemma_mul_is_associative(p, mu, z0);
    lemma_mul_is_commutative(p, mu);
    assert(p * (mu * z0) == (mu * p) * z0);
    lemma_mul_mod_noop_left(mu * p, z0, r);
    assert(((mu * p) * z0) % r == ((r - 1) * z0) % r);
    lemma_mul_is_distributive_sub_other_way(z0, r, 1);
    assert((r - 1) * z0 == r * z0 - z0);
    lemma_add_mod_noop(z0, p * w, r);
    lemma_add_mod_noop(z0, (r - 1) * z0, r);
    assert((z0 + p * w) % r == (z0 + (r - 1) * z0) % r);
    assert(z0 + (r - 1) * z0 == r * z0);
    lemma_mod_multiples_basic(z0, r);
    lemma_mul_is_commutative(r, z0);
}}
'''.format(**fmt), 'mul-lemmas')

    # E5: the non-capturing closure `hi_lo` is lifted to a fn with the same body
    u.item(F, ['trait FieldMulOpsSingleWord', 'fn mul'], name=p + '_hi_lo', ret='r',
           rewrites=[(r'^.*let hi_lo = \|v: Self::DoubleWord\| -> \(W, W\) \{(.*?)\};.*$',
                      r'fn hi_lo(v: Self::DoubleWord) -> (W, W) {\1}', 1),
                     (AS_, r'(\1 as %s)' % W, 2),
                     (r'\bSelf::DoubleWord\b', W2, 1), (r'\bW::BITS\b', '%dusize' % bits, 1)] + wty(bits),
           sig=_commas('''
ensures
    r.0 as int == (v as int) / RR()
    r.1 as int == (v as int) % RR()
'''),
           before=[('(((v >>', '''
               assert((v >> {bits}usize) == v / ({RW2})) by (bit_vector);
               assert((v as {W}) as {W2} == v % ({RW2})) by (bit_vector);
           '''.format(bits=bits, RW2=fmt['R'].replace('int', W2), **fmt))])

    u.item(F, ['trait FieldMulOpsSingleWord', 'fn mul'], name=p + '_mul', ret='r',
           rewrites=[(r'let hi_lo = \|v: Self::DoubleWord\| -> \(W, W\) \{.*?\};', '', 1),
                     (r'\bhi_lo\(', p + '_hi_lo(', 3),
                     (AS_, r'(\1 as %s)' % W2, 6),
                     (r'<Self::DoubleWord as From<bool>>::from\(', 'bool_as_%s(' % W2, 1),
                     (r'\bSelf::MU\b', P + '_MU', 1)]
           + tsel(bits, 'ovf', 'bool', 'prime', 'zero') + wty(bits),
           sig=_commas('''
requires
    y < {P}_PRIME
ensures
    r < {P}_PRIME
    (r as int * RR()) % PP() == (x as int * y as int) % PP()
'''.format(**fmt)),
           before=[
               ('let (z1, z0) =', '''
               lemma_mul_upper_bound(x as int, RR() - 1, y as int, PP() - 1);
               lemma_mul_nonnegative(x as int, y as int);
               assert((RR() - 1) * (PP() - 1) < RR() * PP()) by (nonlinear_arith) requires 1 <= PP(), 1 <= RR();
               assert(RR() * PP() < {R2T}) by (nonlinear_arith) requires PP() < RR(), RR() * RR() == {R2T}, RR() > 0;
               '''.format(**fmt)),
               ('let (r1, r0) =', '''
               lemma_mul_upper_bound(PP(), PP(), w as int, RR() - 1);
               lemma_mul_nonnegative(PP(), w as int);
               assert(PP() * (RR() - 1) < {R2T}) by (nonlinear_arith) requires PP() < RR(), RR() * RR() == {R2T}, RR() > 0;
               '''.format(**fmt)),
               ('(z & mask) | (s0 & !mask)', '''
               let p = PP();
               let xyi = x as int * y as int;
               let pwi = p * w as int;
               let res = (z & mask) | (s0 & !mask);
               assert(w as int == ({P}_MU as int * z0 as int) % RR());
               lemma_fundamental_div_mod(xyi, RR());
               lemma_fundamental_div_mod(pwi, RR());
               assert(xyi == RR() * (z1 as int) + z0 as int);
               assert(pwi == RR() * (r1 as int) + r0 as int);
               lemma_mu();
               lemma_redc_low(z0 as int, {P}_MU as int, p, RR());
               lemma_add_mod_noop_right(z0 as int, pwi, RR());
               assert((z0 as int + r0 as int) % RR() == 0) by {{
                   lemma_small_mod(r0 as nat, RR() as nat);
                   lemma_add_mod_noop_right(z0 as int, r0 as int, RR());
               }}
               let s = z0 as int + r0 as int;
               assert(s == 0 || s == RR()) by {{
                   if s >= RR() {{ lemma_mod_sub_multiples_vanish(s, RR()); lemma_small_mod((s - RR()) as nat, RR() as nat); }}
                   else {{ lemma_small_mod(s as nat, RR() as nat); }}
               }}
               let ti = z1 as int + r1 as int + (if carry {{ 1int }} else {{ 0int }});
               assert(ti * RR() == xyi + pwi) by (nonlinear_arith)
                   requires xyi == RR() * (z1 as int) + z0 as int, pwi == RR() * (r1 as int) + r0 as int,
                            ti == z1 as int + r1 as int + (if carry {{ 1int }} else {{ 0int }}),
                            (carry ==> z0 as int + r0 as int == RR()), (!carry ==> z0 as int + r0 as int == 0);
               assert(xyi + pwi < 2 * p * RR()) by (nonlinear_arith)
                   requires xyi <= (RR() - 1) * (p - 1), pwi <= p * (RR() - 1), p > 0, RR() > 0;
               assert(ti < 2 * p) by (nonlinear_arith) requires ti * RR() < 2 * p * RR(), RR() > 0;
               assert(mask == 0 || mask == {MAX});
               assert(mask == 0 ==> ((z & mask) | (s0 & !mask)) == s0) by (bit_vector);
               assert(mask == {MAX} ==> ((z & mask) | (s0 & !mask)) == z) by (bit_vector);
               lemma_fundamental_div_mod(ti, RR());
               assert(ti == RR() * (cc as int) + z as int);
               assert(cc as int == 0 || cc as int == 1);
               let resi = res as int;
               assert(resi == if ti < p {{ ti }} else {{ ti - p }});
               assert((resi * RR()) % p == (ti * RR()) % p) by {{
                   if ti >= p {{
                       assert(resi * RR() == ti * RR() - p * RR()) by (nonlinear_arith) requires resi == ti - p;
                       lemma_mul_is_commutative(p, RR());
                       lemma_mod_multiples_vanish(-RR(), ti * RR(), p);
                   }}
               }}
               assert((xyi + pwi) % p == xyi % p) by {{
                   lemma_mul_is_commutative(p, w as int);
                   lemma_mod_multiples_vanish(w as int, xyi, p);
               }}
               '''.format(**fmt)),
           ])
