"""C07/C08 — the vector decoders of codec.rs (decode_fixlen_items, decode_u8_items / decode_u16_items / decode_u32_items) under
contract for ANY item type, ANY byte string and ANY length field (Verus, no bound), and the round trip with the encoders of
unit codec_items as a lemma over the two contracts.

`Cursor<&[u8]>` is the abstract `Cur` (data(), pos()) with the std contracts of position / get_ref / set_position / new.  The
item decoder `D::decode_with_param` is the abstract boundary: a partial function dec(rest) = Some((item, n)) of the unread bytes
that consumes n <= |rest| bytes, or fails.  Contracts:

  decode_fixlen_items(length, cursor): never overflows or indexes out of bounds, for every length (usize::MAX included) and every
      cursor position; Err(LengthPrefixTooBig(length)) exactly when position + length overflows or exceeds the buffer (the length
      field is validated against the remaining input BEFORE any item is read); on Ok the items are exactly the chain of item
      decodings of data[pos .. pos+length], the chain consumes exactly `length` bytes and the outer cursor advances by `length`;
      the underlying bytes are never modified.
  decode_u8/u16/u32_items: read a big-endian prefix of 1/2/4 bytes, then the above.
  lemma_roundtrip: if the item codec round-trips (dec(enc(it) ++ rest) == Some((it, |enc(it)|))) and encodings are non-empty, then
      the only chain that decodes enc(items[0]) ++ .. ++ enc(items[n-1]) is items itself.

Termination is NOT claimed (an item decoder that consumes nothing never makes progress: known finding F for zero-width items)."""
from vunit import VUnit

C = 'src/codec.rs'
PRELUDE = '''
global size_of usize == 8;
pub enum CodecError { LengthPrefixTooBig(usize), Eof, Other }
#[verifier::external_body]
pub struct Item { _x: u8 }
pub uninterp spec fn enc(it: Item) -> Seq<u8>;
// the item decoder as a partial function of the unread bytes: Some((item, n)) = yields item after reading n bytes
pub uninterp spec fn dec(rest: Seq<u8>) -> Option<(Item, int)>;
// std::io::Cursor<&[u8]>
#[verifier::external_body]
pub struct Cur { _c: u8 }
impl Cur {
    pub uninterp spec fn data(&self) -> Seq<u8>;
    pub uninterp spec fn pos(&self) -> int;
    #[verifier::external_body]
    fn position(&self) -> (r: u64) ensures r == self.pos() { unimplemented!() }
    #[verifier::external_body]
    fn get_ref(&self) -> (r: &[u8]) ensures r@ == self.data() { unimplemented!() }
    #[verifier::external_body]
    fn set_position(&mut self, p: u64) ensures final(self).pos() == p, final(self).data() == old(self).data() { unimplemented!() }
    // Cursor::new(&s[a..b])
    #[verifier::external_body]
    fn new_sub(s: &[u8], a: usize, b: usize) -> (r: Cur) requires a <= b <= s@.len() ensures r.data() == s@.subrange(a as int, b as int), r.pos() == 0 { unimplemented!() }
    pub open spec fn wf(&self) -> bool { 0 <= self.pos() <= u64::MAX }
    pub open spec fn rest(&self) -> Seq<u8> { if self.pos() <= self.data().len() { self.data().skip(self.pos()) } else { Seq::empty() } }
}
// D::decode_with_param(param, &mut cursor): reads only within the cursor's bytes, never modifies them
#[verifier::external_body]
fn item_decode(c: &mut Cur) -> (r: Result<Item, CodecError>)
    requires old(c).wf(),
    ensures final(c).data() == old(c).data(), final(c).wf(),
            match dec(old(c).rest()) {
                Some((it, n)) => r == Ok::<Item, CodecError>(it) && 0 <= n <= old(c).rest().len() && final(c).pos() == old(c).pos() + n,
                None => r is Err,
            },
{ unimplemented!() }
#[verifier::external_body]
fn usize_overflowing_add(a: usize, b: usize) -> (r: (usize, bool))
    ensures r.1 == (a + b > usize::MAX), !r.1 ==> r.0 == a + b,
{ unimplemented!() }
// big-endian value of w bytes
pub open spec fn be_val(s: Seq<u8>, w: int) -> int decreases w
{ if w <= 0 { 0 } else { be_val(s, w - 1) * 256 + s[w - 1] as int } }
// u8/u16/u32::decode(cursor): read_exact of w bytes, big-endian  (Kani unit ints_roundtrip)
#[verifier::external_body]
fn int_decode(c: &mut Cur, w: usize) -> (r: Result<u64, CodecError>)
    requires old(c).wf(), 1 <= w <= 8,
    ensures final(c).data() == old(c).data(), final(c).wf(),
            old(c).rest().len() >= w ==> r == Ok::<u64, CodecError>(be_val(old(c).rest(), w as int) as u64) && final(c).pos() == old(c).pos() + w,
            old(c).rest().len() < w ==> r is Err,
{ unimplemented!() }
#[verifier::external_body]
fn u32_to_usize(x: u64) -> (r: Result<usize, CodecError>) ensures r == Ok::<usize, CodecError>(x as usize) { unimplemented!() }    // usize is 64 bits here

// ---- the chain of item decodings of a byte string -------------------------------------------------------------------
// bytes consumed by the first k decodings of s (each one starts where the previous one stopped)
pub open spec fn consumed(s: Seq<u8>, k: int) -> int decreases k
{ if k <= 0 { 0 } else { let c = consumed(s, k - 1); c + (if c <= s.len() { match dec(s.skip(c)) { Some((it, n)) => n, None => 0 } } else { 0 }) } }
// v[0..k] is exactly what the first k decodings of s yield
pub open spec fn chain(s: Seq<u8>, v: Seq<Item>, k: int) -> bool decreases k
{ if k <= 0 { true } else {
    let c = consumed(s, k - 1);
    chain(s, v, k - 1) && 0 <= c <= s.len() && (match dec(s.skip(c)) { Some((it, n)) => it == v[k - 1] && 0 <= n <= s.len() - c, None => false })
} }
// decoding stops with an error only because the item decoder refuses what is left after k good items
pub open spec fn fails_at(s: Seq<u8>, v: Seq<Item>, k: int) -> bool {
    k == v.len() && chain(s, v, k) && 0 <= consumed(s, k) < s.len() && dec(s.skip(consumed(s, k))) is None
}
pub open spec fn fixlen_post(d: Seq<u8>, p0: int, length: int, r: Result<Vec<Item>, CodecError>, p1: int) -> bool {
    let too_big = p0 + length > usize::MAX || p0 + length > d.len();
    &&& too_big ==> r == Err::<Vec<Item>, CodecError>(CodecError::LengthPrefixTooBig(length as usize)) && p1 == p0     // validated before reading
    &&& (r is Err && !too_big) ==> exists|v: Seq<Item>, k: int| #[trigger] fails_at(d.subrange(p0, p0 + length), v, k)        // no spurious refusal
    &&& r is Ok ==> {
        let v = r->Ok_0@;
        let s = d.subrange(p0, p0 + length);
        &&& !too_big
        &&& chain(s, v, v.len() as int)                        // the items are the consecutive decodings of exactly these bytes
        &&& consumed(s, v.len() as int) == length                // ... which use them up exactly
        &&& forall|k: int| 0 <= k < v.len() ==> consumed(s, k) < length      // ... and not before the last item
        &&& p1 == p0 + length                                    // the outer cursor skips exactly the vector
    }
}

proof fn lemma_chain_ext(s: Seq<u8>, a: Seq<Item>, b: Seq<Item>, k: int)
    requires chain(s, a, k), 0 <= k <= a.len(), k <= b.len(), forall|j: int| 0 <= j < k ==> a[j] == b[j]
    ensures chain(s, b, k)
    decreases k
{ if k > 0 { lemma_chain_ext(s, a, b, k - 1); } }
proof fn lemma_be_val_bound(s: Seq<u8>, w: int)
    requires 0 <= w <= 4
    ensures 0 <= be_val(s, w) < pow2((8 * w) as nat), be_val(s, w) <= 0xffff_ffff
    decreases w
{
    lemma2_to64();
    if w > 0 { lemma_be_val_bound(s, w - 1); }
    if w == 1 { assert(be_val(s, 1) == be_val(s, 0) * 256 + s[0] as int); }
    if w == 2 { assert(be_val(s, 2) == be_val(s, 1) * 256 + s[1] as int); }
    if w == 3 { assert(be_val(s, 3) == be_val(s, 2) * 256 + s[2] as int); }
    if w == 4 { assert(be_val(s, 4) == be_val(s, 3) * 256 + s[3] as int); }
}
'''

ROUNDTRIP = '''
// ---- round trip with the encoders (unit codec_items: the bytes after the prefix are enc(items[0]) ++ .. ++ enc(items[n-1])) ----
pub open spec fn enc_all(items: Seq<Item>, n: int) -> Seq<u8> decreases n
{ if n <= 0 { Seq::empty() } else { enc_all(items, n - 1) + enc(items[n - 1]) } }
// the item codec round-trips and is self-delimiting; encodings are non-empty
pub open spec fn item_codec_ok() -> bool {
    forall|it: Item, rest: Seq<u8>| #[trigger] dec(enc(it) + rest) == Some((it, enc(it).len() as int)) && enc(it).len() > 0
}
proof fn lemma_enc_all_split(items: Seq<Item>, n: int, k: int)
    requires 0 <= k < n <= items.len()
    ensures enc_all(items, k).len() + enc(items[k]).len() <= enc_all(items, n).len(),
            enc_all(items, n).skip(enc_all(items, k).len() as int) =~= enc(items[k]) + enc_all(items, n).skip((enc_all(items, k).len() + enc(items[k]).len()) as int),
    decreases n - k
{
    if n == k + 1 {
        assert(enc_all(items, n) =~= enc_all(items, k) + enc(items[k]));
    } else {
        lemma_enc_all_split(items, n - 1, k);
        assert(enc_all(items, n) =~= enc_all(items, n - 1) + enc(items[n - 1]));
        let a = enc_all(items, k).len() as int;
        let e = enc(items[k]).len() as int;
        assert(enc_all(items, n).skip(a) =~= enc_all(items, n - 1).skip(a) + enc(items[n - 1]));
        assert(enc_all(items, n).skip(a + e) =~= enc_all(items, n - 1).skip(a + e) + enc(items[n - 1]));
    }
}
// the chain over enc_all(items, n) consumes exactly the encodings, item by item
proof fn lemma_consumed_enc(items: Seq<Item>, n: int, k: int)
    requires item_codec_ok(), 0 <= k <= n <= items.len()
    ensures consumed(enc_all(items, n), k) == enc_all(items, k).len(), chain(enc_all(items, n), items, k),
            k < n ==> enc_all(items, k).len() < enc_all(items, n).len(),
    decreases k
{
    let s = enc_all(items, n);
    if k < n { lemma_enc_all_split(items, n, k); assert(dec(enc(items[k]) + s.skip((enc_all(items, k).len() + enc(items[k]).len()) as int)) == Some((items[k], enc(items[k]).len() as int))); }
    if k > 0 {
        lemma_consumed_enc(items, n, k - 1);
        lemma_enc_all_split(items, n, k - 1);
        let c = enc_all(items, k - 1).len() as int;
        let e = enc(items[k - 1]);
        assert(dec(e + s.skip(c + e.len())) == Some((items[k - 1], e.len() as int)));
        assert(enc_all(items, k) =~= enc_all(items, k - 1) + e);
    }
}
// any chain over the same bytes yields the same items (dec is a function)
proof fn lemma_chain_unique(s: Seq<u8>, v: Seq<Item>, w: Seq<Item>, k: int)
    requires chain(s, v, k), chain(s, w, k), 0 <= k <= v.len(), k <= w.len()
    ensures forall|j: int| 0 <= j < k ==> v[j] == w[j]
    decreases k
{ if k > 0 { lemma_chain_unique(s, v, w, k - 1); } }
proof fn lemma_consumed_mono(s: Seq<u8>, v: Seq<Item>, j: int, k: int)
    requires chain(s, v, k), 0 <= j <= k
    ensures consumed(s, j) <= consumed(s, k)
    decreases k
{ if j < k { lemma_consumed_mono(s, v, j, k - 1); } }
// decoding what the encoders wrote cannot fail
proof fn lemma_no_failure(items: Seq<Item>, v: Seq<Item>, k: int)
    requires item_codec_ok(), fails_at(enc_all(items, items.len() as int), v, k)
    ensures false
{
    let n = items.len() as int;
    let s = enc_all(items, n);
    lemma_consumed_enc(items, n, n);
    if k < n {
        lemma_consumed_enc(items, n, k);
        lemma_enc_all_split(items, n, k);
        assert(dec(enc(items[k]) + s.skip((enc_all(items, k).len() + enc(items[k]).len()) as int)) == Some((items[k], enc(items[k]).len() as int)));
    } else {
        lemma_consumed_mono(s, v, n, k);
    }
}
// ROUND TRIP: what decode_fixlen_items returns on the bytes the encoders wrote is the encoded vector
proof fn lemma_roundtrip(items: Seq<Item>, v: Seq<Item>)
    requires item_codec_ok(),
             ({ let s = enc_all(items, items.len() as int);
                chain(s, v, v.len() as int) && consumed(s, v.len() as int) == s.len() && forall|k: int| 0 <= k < v.len() ==> consumed(s, k) < s.len() }),
    ensures v == items
{
    let n = items.len() as int;
    let s = enc_all(items, n);
    let m = v.len() as int;
    lemma_consumed_enc(items, n, n);
    if m < n {
        lemma_consumed_enc(items, n, m);
        assert(false);      // the chain would have stopped before using up the bytes
    }
    if m > n {
        assert(consumed(s, n) < s.len());       // from the decoder's "not before the last item"
        assert(false);
    }
    lemma_chain_unique(s, v, items, n);
    assert(v =~= items);
}
'''

SIGRW = [(r'<P, D: ParameterizedDecode<P>>', '', 1), (r'decoding_parameter: &P,', '', 1), (r'bytes: &mut Cursor<&\[u8\]>', 'bytes: &mut Cur', 1),
         (r'Result<Vec<D>, CodecError>', 'Result<Vec<Item>, CodecError>', 1)]


def unit():
    u = VUnit('codec_decode', 'decode_fixlen_items / decode_u8|u16|u32_items: total, length validated first, exact chain of item decodings; round trip')
    u.oracle = {'inject': 'src/codec.rs', 'file': 'codec_oracle.rs', 'test': 'verif_oracle_codec::oracle_vector_codecs'}
    u.raw(PRELUDE, 'abstract-cursor')
    u.item(C, ['pub fn decode_fixlen_items'], ret='r', attrs='#[verifier::exec_allows_no_decreases_clause]',
           rewrites=SIGRW + [
               (r'initial_position\.overflowing_add\(length\)', 'usize_overflowing_add(initial_position, length)', 1),
               (r'Cursor::new\(&bytes\.get_ref\(\)\[initial_position\.\.items_end\]\)', 'Cur::new_sub(bytes.get_ref(), initial_position, items_end)', 1),
               (r'D::decode_with_param\(decoding_parameter, &mut sub\)\?', 'item_decode(&mut sub)?', 1)],
           sig='''
requires
    old(bytes).wf(), old(bytes).pos() <= usize::MAX,
ensures
    final(bytes).data() == old(bytes).data(),
    fixlen_post(old(bytes).data(), old(bytes).pos(), length as int, r, final(bytes).pos()),
''', loops={0: '''
invariant
    sub.wf(), sub.data() == old(bytes).data().subrange(initial_position as int, items_end as int), sub.data().len() == length,
    0 <= sub.pos() <= length, s == sub.data(),
    initial_position + length <= usize::MAX, items_end <= old(bytes).data().len(),
    bytes.data() == old(bytes).data(), bytes.pos() == old(bytes).pos(), initial_position == old(bytes).pos(), items_end == initial_position + length,
    chain(sub.data(), decoded@, decoded@.len() as int),
    consumed(sub.data(), decoded@.len() as int) == sub.pos(),
    forall|k: int| 0 <= k < decoded@.len() ==> consumed(sub.data(), k) < length,
'''}, ghost_after=[('let mut sub =', 'let ghost s = sub.data();')],
           ghost_before=[('decoded.push(', 'let ghost c0 = sub.pos();\nlet ghost d0 = decoded@;')],
           before=[('decoded.push(', '''
    assert(sub.rest() == s.skip(sub.pos()));
    assert(dec(s.skip(sub.pos())) is None ==> fails_at(s, decoded@, decoded@.len() as int));
''')], after=[('decoded.push(', '''
    assert(decoded@.len() == d0.len() + 1);
    assert(chain(s, decoded@, d0.len() as int)) by { lemma_chain_ext(s, d0, decoded@, d0.len() as int); }
    assert(consumed(s, d0.len() as int) == c0);
''')])
    for w, W in ((1, 'u8'), (2, 'u16'), (4, 'u32')):
        rws = SIGRW + [(r'decode_fixlen_items\((\w+), decoding_parameter, bytes\)', r'decode_fixlen_items(\1, bytes)', 1)]
        if w == 4:
            rws += [(r'u32::decode\(bytes\)\?\s*\.try_into\(\)\s*\.map_err\(\|err: TryFromIntError\| CodecError::Other\(err\.into\(\)\)\)\?', 'u32_to_usize(int_decode(bytes, 4)?)?', 1)]
        else:
            rws += [(r'usize::from\(%s::decode\(bytes\)\?\)' % W, '(int_decode(bytes, %d)? as usize)' % w, 1)]
        u.item(C, ['pub fn decode_%s_items' % W], ret='r', rewrites=rws, sig='''
requires
    old(bytes).wf(), old(bytes).pos() + %(w)d <= usize::MAX,
ensures
    final(bytes).data() == old(bytes).data(),
    // fewer than %(w)d bytes left: an error, nothing else
    old(bytes).rest().len() < %(w)d ==> r is Err,
    // otherwise the big-endian prefix is the BYTE length of the vector that follows
    old(bytes).rest().len() >= %(w)d ==> fixlen_post(old(bytes).data(), old(bytes).pos() + %(w)d, be_val(old(bytes).rest(), %(w)d), r, final(bytes).pos()),
''' % dict(w=w), before=[('decode_fixlen_items(', 'lemma_be_val_bound(old(bytes).rest(), %d);' % w)])
    u.raw(ROUNDTRIP, 'roundtrip')
    return u
