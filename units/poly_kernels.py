"""C10 — integer/array kernels of ntt.rs / polynomial.rs / fp.rs under contract (Verus, abstract field, unbounded sizes):

  poly_eval_monomial   == the value of the polynomial at the point (Horner form == sum of a_i x^i, lemma), any length
  ntt_inv_finish       == index reversal i -> (size - i) mod size and scaling by size_inv, elements beyond `size` untouched
  double_evaluations   (interleave loop, fragment): output[2k] = evaluations[k], output[2k+1] = old back half[k]; the
                        in-place overwrite never destroys a value still needed
  fp::log2             == ceil(log2 x) for x >= 1
  ntt::bitrev          result < 2^d for 1 <= d <= 64 (index safety of the bit-reversal copy)

NOT decided: that the butterfly network computes the DFT, barycentric evaluation, extension to a power of two."""
from fe_common import FE_PRELUDE
from vunit import VUnit

PRELUDE = '''
// value of the polynomial with coefficient sequence s[from..] at x (Horner form)
pub open spec fn peval(s: Seq<Fe>, x: int, from: int) -> int decreases s.len() - from
{ if from >= s.len() { 0 } else { fe_v(s[from]) + x * peval(s, x, from + 1) } }
// textbook form: sum_{i < n} s[i] * x^i
pub open spec fn psum(s: Seq<Fe>, x: int, n: int) -> int decreases n
{ if n <= 0 { 0 } else { psum(s, x, n - 1) + fe_v(s[n - 1]) * pow(x, (n - 1) as nat) } }
proof fn lemma_horner_is_sum(s: Seq<Fe>, x: int, from: int)
    requires 0 <= from <= s.len()
    ensures psum(s, x, from) + pow(x, from as nat) * peval(s, x, from) == psum(s, x, s.len() as int)
    decreases s.len() - from
{
    if from < s.len() {
        lemma_horner_is_sum(s, x, from + 1);
        lemma_pow_adds(x, from as nat, 1); lemma_pow1(x);
        let pf = pow(x, from as nat);
        assert(pf * (fe_v(s[from]) + x * peval(s, x, from + 1)) == fe_v(s[from]) * pf + (pf * x) * peval(s, x, from + 1)) by (nonlinear_arith);
    } else {
        assert(pow(x, from as nat) * 0 == 0);
    }
}
proof fn lemma_c0(x: Fe) ensures cong(fe_v(x), fe_v(x)) { lemma_cong_refl(fe_v(x)); }
// [trusted: std semantics] u128::leading_zeros, usize::reverse_bits
pub assume_specification [u128::leading_zeros] (x: u128) -> (r: u32)
    ensures r <= 128, x == 0 <==> r == 128, x > 0 ==> pow2((127 - r) as nat) <= x as int && (x as int) < 2 * pow2((127 - r) as nat);
pub uninterp spec fn spec_reverse_bits(x: usize) -> usize;
pub assume_specification [usize::reverse_bits] (x: usize) -> (r: usize) ensures r == spec_reverse_bits(x);
pub enum NttError { OutputTooSmall, SizeTooLarge, SizeInvalid }
// 1 << k == 2^k for the u128 shifts of fp::log2
proof fn lemma_one_shl128(k: u128)
    requires k < 128
    ensures (1u128 << k) as int == pow2(k as nat), pow2(k as nat) <= u128::MAX as int
    decreases k
{
    lemma2_to64();
    if k == 0 {
        assert(1u128 << 0u128 == 1u128) by (bit_vector);
    } else {
        let j = (k - 1) as u128;
        lemma_one_shl128(j);
        assert(j < 127 ==> (1u128 << ((j + 1) as u128)) == 2 * (1u128 << j) && (1u128 << j) <= 0x8000_0000_0000_0000_0000_0000_0000_0000u128) by (bit_vector);
        lemma_pow2_unfold(k as nat);
    }
}
#[verifier::external_body]
fn bool_as_u128(b: bool) -> (r: u128) ensures r == (if b { 1u128 } else { 0u128 }) { b as u128 }
'''


def unit():
    u = VUnit('poly_kernels', 'array kernels of the NTT / polynomial routines (abstract field)')
    u.raw('global size_of usize == 8;     // [assumption] 64-bit target\n' + FE_PRELUDE, 'abstract-field')
    u.raw(PRELUDE, 'prelude')
    GENF = [(r'<F: NttFriendlyFieldElement>', '', 1), (r'\bF::zero\(\)', 'fe_zero()', '*'), (r'\bF\b', 'Fe', '*')]
    u.item('src/polynomial.rs', ['fn poly_eval_monomial'], ret='r',
           rewrites=GENF + [(r'poly: &\[Fe\]', 'poly: &Vec<Fe>', 1),      # E3c: slice parameter -> Vec (same indexing/len operations)
                            (r'for i in \(0\.\.([^{};]+?)\)\.rev\(\)\s*\{', r'let mut k_: usize = \1; while k_ > 0 { k_ = k_ - 1; let i = k_;', 1)],   # E4b
           sig='''
ensures
    // the value of the polynomial at eval_at (an empty polynomial is the zero polynomial)
    cong(fe_v(r), peval(poly@, fe_v(eval_at), 0)),
    cong(fe_v(r), psum(poly@, fe_v(eval_at), poly@.len() as int)),
''', loops={0: '''
invariant
    k_ <= poly@.len() - 1,
    poly@.len() >= 1,
    cong(fe_v(result), peval(poly@, fe_v(eval_at), k_ as int)),
decreases k_
'''}, before=[('return fe_zero()', 'lemma_cong_refl(0);'), ('let mut k_', '''
    lemma_c0(result);
    assert(peval(poly@, fe_v(eval_at), poly@.len() as int) == 0);
    assert(peval(poly@, fe_v(eval_at), poly@.len() - 1) == fe_v(poly@[poly@.len() - 1]) + fe_v(eval_at) * 0);
'''), ('result *= eval_at', '''
    let x = fe_v(eval_at);
    lemma_c0(eval_at); lemma_c0(poly@[i as int]);
    lemma_ops(result, eval_at);
    lemma_cong_mul(fe_v(result), peval(poly@, x, i + 1), x, x);
    let m = fe_mk(fe_v(result) * x);
    lemma_cong_trans(fe_v(m), fe_v(result) * x, peval(poly@, x, i + 1) * x);
    lemma_ops(m, poly@[i as int]);
    lemma_cong_add(fe_v(m), peval(poly@, x, i + 1) * x, fe_v(poly@[i as int]), fe_v(poly@[i as int]));
    lemma_cong_trans(fe_v(fe_mk(fe_v(m) + fe_v(poly@[i as int]))), fe_v(m) + fe_v(poly@[i as int]), peval(poly@, x, i + 1) * x + fe_v(poly@[i as int]));
    assert(peval(poly@, x, i + 1) * x + fe_v(poly@[i as int]) == peval(poly@, x, i as int)) by (nonlinear_arith)
        requires peval(poly@, x, i as int) == fe_v(poly@[i as int]) + x * peval(poly@, x, i + 1);
'''), ('result', '''
    lemma_horner_is_sum(poly@, fe_v(eval_at), 0);
    lemma_pow0(fe_v(eval_at));
    assert(1 * peval(poly@, fe_v(eval_at), 0) == peval(poly@, fe_v(eval_at), 0));
''', -1)])

    u.item('src/ntt.rs', ['fn ntt_inv_finish'],
           rewrites=GENF + [(r'outp: &mut \[Fe\]', 'outp: &mut Vec<Fe>', 1)],
           sig='''
requires
    // derived from the call sites (ntt_inv, poly_interpret_eval): size is the transform size, at least 2, within the buffer
    2 <= size <= old(outp)@.len(),
    size % 2 == 0,
ensures
    final(outp)@.len() == old(outp)@.len(),
    // index reversal and scaling: out[i] = in[(size - i) mod size] * size_inv
    final(outp)@[0] == fe_mk(fe_v(old(outp)@[0]) * fe_v(size_inv)),
    forall|i: int| 1 <= i < size ==> #[trigger] final(outp)@[i] == fe_mk(fe_v(old(outp)@[size - i]) * fe_v(size_inv)),
    // frame: nothing beyond the transform size is touched
    forall|i: int| size <= i < old(outp)@.len() ==> #[trigger] final(outp)@[i] == old(outp)@[i],
''', loops={0: '''
invariant
    2 <= size <= old(outp)@.len(),
    size % 2 == 0,
    outp@.len() == old(outp)@.len(),
    1 <= i <= size >> 1,
    (size >> 1) as int == size as int / 2,
    outp@[0] == fe_mk(fe_v(old(outp)@[0]) * fe_v(size_inv)),
    outp@[size as int / 2] == fe_mk(fe_v(old(outp)@[size as int / 2]) * fe_v(size_inv)),
    forall|j: int| 1 <= j < i ==> #[trigger] outp@[j] == fe_mk(fe_v(old(outp)@[size - j]) * fe_v(size_inv)),
    forall|j: int| size - i < j < size ==> #[trigger] outp@[j] == fe_mk(fe_v(old(outp)@[size - j]) * fe_v(size_inv)),
    forall|j: int| i <= j <= size - i && j != size as int / 2 ==> #[trigger] outp@[j] == old(outp)@[j],
    forall|j: int| size <= j < outp@.len() ==> #[trigger] outp@[j] == old(outp)@[j],
'''}, before=[('outp[0] *= size_inv', 'assert((size >> 1usize) == size / 2) by (bit_vector);')])
    # fp::log2: ceiling of the base-2 logarithm
    u.item('src/fp.rs', ['fn log2'], ret='r',
           rewrites=[(r'\(\(x > 1 << y\) as u128\)', 'bool_as_u128(x > 1 << y)', 1)],
           sig='''
requires
    x >= 1,      // derived: every call site passes a length/size >= 1 (log2(0) underflows 127 - 128)
ensures
    r <= 127 || (r == 128 && x as int > pow2(127)),
    (x as int) <= pow2(r as nat),
    r >= 1 ==> pow2((r - 1) as nat) < x as int,
''', before=[('y + ', '''
    lemma_one_shl128(y);
    lemma_pow2_unfold((y + 1) as nat);
    lemma2_to64();
    if y >= 1 { lemma_pow2_unfold(y as nat); lemma_pow2_pos((y - 1) as nat); }
''')])
    u.item('src/ntt.rs', ['fn bitrev'], ret='r', sig='''
requires
    1 <= d <= 64,
ensures
    // index safety of the bit-reversal copy: the reversed index has at most d bits
    d < 64 ==> (r as int) < pow2(d as nat),
''', before=[('x.reverse_bits()', '''
    let y = spec_reverse_bits(x);
    let sh = (64 - d) as u32;
    assert(usize::BITS == 64);
    assert(d as u32 == d);
    assert(0 < sh <= 63 ==> (y >> sh) < (1usize << ((64 - sh) as usize))) by (bit_vector);
    if d < 64 { lemma_pow2_strictly_increases(d as nat, 64); lemma2_to64(); lemma_usize_shl_is_mul(1usize, d as usize); }
''')])
    # E9 fragment: the interleave loop of double_evaluations, lifted verbatim into a function of its free variables
    u.item('src/polynomial.rs', ['fn double_evaluations'], name='double_evaluations_interleave',
           rewrites=[(r'^.*?(for output_position in 0\.\.output\.len\(\) \{(?:[^{}]|\{[^{}]*\})*\}).*$',
                      r'fn double_evaluations(output: &mut Vec<Fe>, evaluations: &Vec<Fe>) { \1 }', 1)],
           sig='''
requires
    old(output)@.len() == 2 * evaluations@.len(),
ensures
    final(output)@.len() == old(output)@.len(),
    // even positions: the input evaluations; odd positions: the back half computed by the shifted forward transform
    forall|k: int| 0 <= k < evaluations@.len() ==> #[trigger] final(output)@[2 * k] == evaluations@[k],
    forall|k: int| 0 <= k < evaluations@.len() ==> #[trigger] final(output)@[2 * k + 1] == old(output)@[evaluations@.len() + k],
''', loops={0: '''
invariant
    output@.len() == 2 * evaluations@.len(),
    output@.len() == old(output)@.len(),
    forall|j: int| 0 <= j < output_position && j % 2 == 0 ==> #[trigger] output@[j] == evaluations@[j / 2],
    forall|j: int| 0 <= j < output_position && j % 2 == 1 ==> #[trigger] output@[j] == old(output)@[evaluations@.len() + j / 2],
    // the in-place overwrite never destroys a value that is still to be read
    forall|j: int| output_position <= j < output@.len() ==> #[trigger] output@[j] == old(output)@[j],
'''})
    return u
