"""C10 — integer/array kernels of ntt.rs / polynomial.rs / fp.rs under contract (Verus, abstract field, unbounded sizes):

  poly_eval_monomial   == the value of the polynomial at the point (Horner form == sum of a_i x^i, lemma), any length
  ntt_inv_finish       == index reversal i -> (size - i) mod size and scaling by size_inv, elements beyond `size` untouched
  double_evaluations   (interleave loop, fragment): output[2k] = evaluations[k], output[2k+1] = old back half[k]; the
                        in-place overwrite never destroys a value still needed
  fp::log2             == ceil(log2 x) for x >= 1
  ntt::bitrev          result < 2^d for 1 <= d <= 64 (index safety of the bit-reversal copy)

NOT decided: that the butterfly network computes the DFT, barycentric evaluation, extension to a power of two."""
from fe_common import FE_PRELUDE
from vunit import VUnit

PRELUDE = '''
// value of the polynomial with coefficient sequence s[from..] at x (Horner form)
pub open spec fn peval(s: Seq<Fe>, x: int, from: int) -> int decreases s.len() - from
{ if from >= s.len() { 0 } else { fe_v(s[from]) + x * peval(s, x, from + 1) } }
// textbook form: sum_{i < n} s[i] * x^i
pub open spec fn psum(s: Seq<Fe>, x: int, n: int) -> int decreases n
{ if n <= 0 { 0 } else { psum(s, x, n - 1) + fe_v(s[n - 1]) * pow(x, (n - 1) as nat) } }
proof fn lemma_horner_is_sum(s: Seq<Fe>, x: int, from: int)
    requires 0 <= from <= s.len()
    ensures psum(s, x, from) + pow(x, from as nat) * peval(s, x, from) == psum(s, x, s.len() as int)
    decreases s.len() - from
{
    if from < s.len() {
        lemma_horner_is_sum(s, x, from + 1);
        lemma_pow_adds(x, from as nat, 1); lemma_pow1(x);
        let pf = pow(x, from as nat);
        assert(pf * (fe_v(s[from]) + x * peval(s, x, from + 1)) == fe_v(s[from]) * pf + (pf * x) * peval(s, x, from + 1)) by (nonlinear_arith);
    } else {
        assert(pow(x, from as nat) * 0 == 0);
    }
}
proof fn lemma_c0(x: Fe) ensures cong(fe_v(x), fe_v(x)) { lemma_cong_refl(fe_v(x)); }
// [trusted: std semantics] u128::leading_zeros, usize::reverse_bits
pub assume_specification [u128::leading_zeros] (x: u128) -> (r: u32)
    ensures r <= 128, x == 0 <==> r == 128, x > 0 ==> pow2((127 - r) as nat) <= x as int && (x as int) < 2 * pow2((127 - r) as nat);
pub uninterp spec fn spec_reverse_bits(x: usize) -> usize;
pub assume_specification [usize::reverse_bits] (x: usize) -> (r: usize) ensures r == spec_reverse_bits(x);
pub enum NttError { OutputTooSmall, SizeTooLarge, SizeInvalid }
// 1 << k == 2^k for the u128 shifts of fp::log2
proof fn lemma_one_shl128(k: u128)
    requires k < 128
    ensures (1u128 << k) as int == pow2(k as nat), pow2(k as nat) <= u128::MAX as int
    decreases k
{
    lemma2_to64();
    if k == 0 {
        assert(1u128 << 0u128 == 1u128) by (bit_vector);
    } else {
        let j = (k - 1) as u128;
        lemma_one_shl128(j);
        assert(j < 127 ==> (1u128 << ((j + 1) as u128)) == 2 * (1u128 << j) && (1u128 << j) <= 0x8000_0000_0000_0000_0000_0000_0000_0000u128) by (bit_vector);
        lemma_pow2_unfold(k as nat);
    }
}
#[verifier::external_body]
fn bool_as_u128(b: bool) -> (r: u128) ensures r == (if b { 1u128 } else { 0u128 }) { b as u128 }
'''


def unit():
    u = VUnit('poly_kernels', 'array kernels of the NTT / polynomial routines (abstract field)')
    u.oracle = {'inject': 'src/ntt.rs', 'file': 'ntt_oracle.rs', 'test': 'verif_oracle_ntt::oracle_ntt_contracts'}
    u.raw('global size_of usize == 8;     // [assumption] 64-bit target\n' + FE_PRELUDE, 'abstract-field')
    u.raw(PRELUDE, 'prelude')
    GENF = [(r'<F: NttFriendlyFieldElement>', '', 1), (r'\bF::zero\(\)', 'fe_zero()', '*'), (r'\bF\b', 'Fe', '*')]
    u.item('src/polynomial.rs', ['fn poly_eval_monomial'], ret='r',
           rewrites=GENF + [(r'poly: &\[Fe\]', 'poly: &Vec<Fe>', 1),      # E3c: slice parameter -> Vec (same indexing/len operations)
                            (r'for i in \(0\.\.([^{};]+?)\)\.rev\(\)\s*\{', r'let mut k_: usize = \1; while k_ > 0 { k_ = k_ - 1; let i = k_;', 1)],   # E4b
           sig='''
ensures
    // the value of the polynomial at eval_at (an empty polynomial is the zero polynomial)
    cong(fe_v(r), peval(poly@, fe_v(eval_at), 0)),
    cong(fe_v(r), psum(poly@, fe_v(eval_at), poly@.len() as int)),
''', loops={0: '''
invariant
    k_ <= poly@.len() - 1,
    poly@.len() >= 1,
    cong(fe_v(result), peval(poly@, fe_v(eval_at), k_ as int)),
decreases k_
'''}, before=[('return fe_zero()', 'lemma_cong_refl(0);'), ('let mut k_', '''
    lemma_c0(result);
    assert(peval(poly@, fe_v(eval_at), poly@.len() as int) == 0);
    assert(peval(poly@, fe_v(eval_at), poly@.len() - 1) == fe_v(poly@[poly@.len() - 1]) + fe_v(eval_at) * 0);
'''), ('result *= eval_at', '''
    let x = fe_v(eval_at);
    lemma_c0(eval_at); lemma_c0(poly@[i as int]);
    lemma_ops(result, eval_at);
    lemma_cong_mul(fe_v(result), peval(poly@, x, i + 1), x, x);
    let m = fe_mk(fe_v(result) * x);
    lemma_cong_trans(fe_v(m), fe_v(result) * x, peval(poly@, x, i + 1) * x);
    lemma_ops(m, poly@[i as int]);
    lemma_cong_add(fe_v(m), peval(poly@, x, i + 1) * x, fe_v(poly@[i as int]), fe_v(poly@[i as int]));
    lemma_cong_trans(fe_v(fe_mk(fe_v(m) + fe_v(poly@[i as int]))), fe_v(m) + fe_v(poly@[i as int]), peval(poly@, x, i + 1) * x + fe_v(poly@[i as int]));
    assert(peval(poly@, x, i + 1) * x + fe_v(poly@[i as int]) == peval(poly@, x, i as int)) by (nonlinear_arith)
        requires peval(poly@, x, i as int) == fe_v(poly@[i as int]) + x * peval(poly@, x, i + 1);
'''), ('result', '''
    lemma_horner_is_sum(poly@, fe_v(eval_at), 0);
    lemma_pow0(fe_v(eval_at));
    assert(1 * peval(poly@, fe_v(eval_at), 0) == peval(poly@, fe_v(eval_at), 0));
''', -1)])

    u.item('src/ntt.rs', ['fn ntt_inv_finish'],
           rewrites=GENF + [(r'outp: &mut \[Fe\]', 'outp: &mut Vec<Fe>', 1)],
           sig='''
requires
    // derived from the call sites (ntt_inv, poly_interpret_eval): size is the transform size, at least 2, within the buffer
    2 <= size <= old(outp)@.len(),
    size % 2 == 0,
ensures
    final(outp)@.len() == old(outp)@.len(),
    // index reversal and scaling: out[i] = in[(size - i) mod size] * size_inv
    final(outp)@[0] == fe_mk(fe_v(old(outp)@[0]) * fe_v(size_inv)),
    forall|i: int| 1 <= i < size ==> #[trigger] final(outp)@[i] == fe_mk(fe_v(old(outp)@[size - i]) * fe_v(size_inv)),
    // frame: nothing beyond the transform size is touched
    forall|i: int| size <= i < old(outp)@.len() ==> #[trigger] final(outp)@[i] == old(outp)@[i],
''', loops={0: '''
invariant
    2 <= size <= old(outp)@.len(),
    size % 2 == 0,
    outp@.len() == old(outp)@.len(),
    1 <= i <= size >> 1,
    (size >> 1) as int == size as int / 2,
    outp@[0] == fe_mk(fe_v(old(outp)@[0]) * fe_v(size_inv)),
    outp@[size as int / 2] == fe_mk(fe_v(old(outp)@[size as int / 2]) * fe_v(size_inv)),
    forall|j: int| 1 <= j < i ==> #[trigger] outp@[j] == fe_mk(fe_v(old(outp)@[size - j]) * fe_v(size_inv)),
    forall|j: int| size - i < j < size ==> #[trigger] outp@[j] == fe_mk(fe_v(old(outp)@[size - j]) * fe_v(size_inv)),
    forall|j: int| i <= j <= size - i && j != size as int / 2 ==> #[trigger] outp@[j] == old(outp)@[j],
    forall|j: int| size <= j < outp@.len() ==> #[trigger] outp@[j] == old(outp)@[j],
'''}, before=[('outp[0] *= size_inv', 'assert((size >> 1usize) == size / 2) by (bit_vector);')])
    # polynomial::inv_pow2: the inverse of a power of two as a power of 1/2
    u.raw('''
#[verifier::external_body]
fn fe_half() -> (r: Fe) ensures cong(2 * fe_v(r), 1) { unimplemented!() }
#[verifier::external_body]
fn usize_try_from_u128(x: u128) -> (r: Result<usize, ()>)
    ensures (x as int <= usize::MAX as int) ==> r == Ok::<usize, ()>(x as usize), (x as int > usize::MAX as int) ==> r is Err
{ unimplemented!() }
proof fn lemma_shl_pow2_k(k: usize)
    requires k <= 62
    ensures (1usize << k) as int == pow2(k as nat)
{ lemma2_to64(); lemma_pow2_strictly_increases(k as nat, 64); lemma_usize_shl_is_mul(1usize, k); }
''', 'inv-pow2-prelude')
    u.item('src/polynomial.rs', ['fn inv_pow2'], ret='r',
           rewrites=[(r'<F: FieldElement>', '', 1), (r'-> F\b', '-> Fe', 1), (r'\bF::half\(\)', 'fe_half()', 1), (r'\bF::one\(\)', 'fe_one()', 1),
                     (r'usize::try_from\(log2\(n as u128\)\)', 'usize_try_from_u128(log2(n as u128))', 1),
                     (r'assert_eq!\(n, 1 << log2_n\);', 'assert!(n == 1 << log2_n);', 1), (r'for _ in ', 'for _i in ', 1)],
           sig='''
requires
    // derived from the assert_eq!: n must be a power of two (callers pass the length of a root table)
    exists|k: nat| k <= 62 && n as int == pow2(k),
ensures
    // r * n == 1 in the field
    cong(fe_v(r) * n as int, 1),
''', loops={0: '''
invariant
    cong(2 * fe_v(half), 1),
    _i <= log2_n,
    cong(fe_v(x) * (pow2(_i as nat) as int), 1),
'''}, before=[('let log2_n =', '''
    let k0 = choose|k: nat| k <= 62 && n as int == pow2(k);
    lemma_pow2_pos(k0);
'''), ('assert!(n == 1 << log2_n)', '''
    let k = choose|k: nat| k <= 62 && n as int == pow2(k);
    lemma_pow2_pos(k);
    // ceil(log2(2^k)) == k
    if log2_n as int > k { lemma_pow2_strictly_increases_or_eq_k(k, (log2_n - 1) as nat); }
    if (log2_n as int) < k { lemma_pow2_strictly_increases(log2_n as nat, k); }
    lemma_shl_pow2_k(log2_n);
'''), ('for _i in 0..log2_n', '''
    broadcast use axiom_fe_mk, axiom_fe_range;
    lemma2_to64(); lemma_cong_refl(1);
    assert(fe_v(x) * (pow2(0) as int) == 1) by (nonlinear_arith) requires fe_v(x) == 1, pow2(0) == 1;
'''), ('x *= half', '''
    broadcast use axiom_fe_mk;
    let m = fe_mk(fe_v(x) * fe_v(half));
    lemma_ops(x, half);
    let p2 = pow2(_i as nat) as int;
    lemma_pow2_unfold((_i + 1) as nat);
    // m * 2^(i+1) == (x * half) * 2 * 2^i == (x * 2^i) * (2 * half) == 1 * 1
    lemma_cong_refl(2 * p2);
    lemma_cong_mul(fe_v(m), fe_v(x) * fe_v(half), 2 * p2, 2 * p2);
    lemma_cong_mul(fe_v(x) * p2, 1, 2 * fe_v(half), 1);
    assert((fe_v(x) * fe_v(half)) * (2 * p2) == (fe_v(x) * p2) * (2 * fe_v(half))) by (nonlinear_arith);
    lemma_cong_trans(fe_v(m) * (2 * p2), (fe_v(x) * p2) * (2 * fe_v(half)), 1);
''')])
    u.raw('''
proof fn lemma_pow2_strictly_increases_or_eq_k(a: nat, b: nat) requires a <= b ensures pow2(a) <= pow2(b)
{ if a < b { lemma_pow2_strictly_increases(a, b); } }
''', 'pow2-mono')
    # fp::log2: ceiling of the base-2 logarithm
    u.item('src/fp.rs', ['fn log2'], ret='r',
           rewrites=[(r'\(\(x > 1 << y\) as u128\)', 'bool_as_u128(x > 1 << y)', 1)],
           sig='''
requires
    x >= 1,      // derived: every call site passes a length/size >= 1 (log2(0) underflows 127 - 128)
ensures
    r <= 127 || (r == 128 && x as int > pow2(127)),
    (x as int) <= pow2(r as nat),
    r >= 1 ==> pow2((r - 1) as nat) < x as int,
''', before=[('y + ', '''
    lemma_one_shl128(y);
    lemma_pow2_unfold((y + 1) as nat);
    lemma2_to64();
    if y >= 1 { lemma_pow2_unfold(y as nat); lemma_pow2_pos((y - 1) as nat); }
''')])
    u.item('src/ntt.rs', ['fn bitrev'], ret='r', sig='''
requires
    1 <= d <= 64,
ensures
    // index safety of the bit-reversal copy: the reversed index has at most d bits
    d < 64 ==> (r as int) < pow2(d as nat),
''', before=[('x.reverse_bits()', '''
    let y = spec_reverse_bits(x);
    let sh = (64 - d) as u32;
    assert(usize::BITS == 64);
    assert(d as u32 == d);
    assert(0 < sh <= 63 ==> (y >> sh) < (1usize << ((64 - sh) as usize))) by (bit_vector);
    if d < 64 { lemma_pow2_strictly_increases(d as nat, 64); lemma2_to64(); lemma_usize_shl_is_mul(1usize, d as usize); }
''')])
    # E9 fragment: the interleave loop of double_evaluations, lifted verbatim into a function of its free variables
    u.item('src/polynomial.rs', ['fn double_evaluations'], name='double_evaluations_interleave',
           rewrites=[(r'^.*?(for output_position in 0\.\.output\.len\(\) \{(?:[^{}]|\{[^{}]*\})*\}).*$',
                      r'fn double_evaluations(output: &mut Vec<Fe>, evaluations: &Vec<Fe>) { \1 }', 1)],
           sig='''
requires
    old(output)@.len() == 2 * evaluations@.len(),
ensures
    final(output)@.len() == old(output)@.len(),
    // even positions: the input evaluations; odd positions: the back half computed by the shifted forward transform
    forall|k: int| 0 <= k < evaluations@.len() ==> #[trigger] final(output)@[2 * k] == evaluations@[k],
    forall|k: int| 0 <= k < evaluations@.len() ==> #[trigger] final(output)@[2 * k + 1] == old(output)@[evaluations@.len() + k],
''', loops={0: '''
invariant
    output@.len() == 2 * evaluations@.len(),
    output@.len() == old(output)@.len(),
    forall|j: int| 0 <= j < output_position && j % 2 == 0 ==> #[trigger] output@[j] == evaluations@[j / 2],
    forall|j: int| 0 <= j < output_position && j % 2 == 1 ==> #[trigger] output@[j] == old(output)@[evaluations@.len() + j / 2],
    // the in-place overwrite never destroys a value that is still to be read
    forall|j: int| output_position <= j < output@.len() ==> #[trigger] output@[j] == old(output)@[j],
'''})
    return u


NTT_PRELUDE = '''
pub const MAX_ROOTS: usize = %(MR)d;      // parsed from src/fp.rs on this run
// F::root(l): Some exactly for l <= MAX_ROOTS (make_field!: l < min(ROOTS.len(), NUM_ROOTS + 1); NUM_ROOTS >= MAX_ROOTS is checked
// for the three shipped fields by the unit generator on this run)
#[verifier::external_body]
fn fe_root(l: usize) -> (r: Option<Fe>) ensures r is Some <==> l <= MAX_ROOTS { unimplemented!() }
#[verifier::external_body]
fn usize_try_from_u128(x: u128) -> (r: Result<usize, ()>)
    ensures (x as int <= usize::MAX as int) ==> r == Ok::<usize, ()>(x as usize), (x as int > usize::MAX as int) ==> r is Err
{ unimplemented!() }
// contracts proved in unit poly_kernels (same run)
#[verifier::external_body]
fn log2(x: u128) -> (r: u128)
    requires x >= 1,
    ensures r <= 127 || (r == 128 && x as int > pow2(127)), (x as int) <= pow2(r as nat), r >= 1 ==> pow2((r - 1) as nat) < x as int,
{ unimplemented!() }
#[verifier::external_body]
fn bitrev(d: usize, x: usize) -> (r: usize)
    requires 1 <= d <= 64,
    ensures d < 64 ==> (r as int) < pow2(d as nat),
{ unimplemented!() }
proof fn lemma_shl_pow2(k: usize)
    requires k <= 62
    ensures (1usize << k) as int == pow2(k as nat), pow2(k as nat) < 0x1_0000_0000_0000_0000
{
    lemma2_to64();
    lemma_pow2_strictly_increases(k as nat, 64);
    lemma_usize_shl_is_mul(1usize, k);
}
proof fn lemma_pow2_strictly_increases_or_eq(a: nat, b: nat) requires a <= b ensures pow2(a) <= pow2(b)
{ if a < b { lemma_pow2_strictly_increases(a, b); } }
// power-of-two index arithmetic of the butterflies: j < 2^(d-l), i < 2^(l-1)  ==>  j*2^l + i + 2^(l-1) < 2^d
proof fn lemma_butterfly_index(d: nat, l: nat, j: int, i: int)
    requires 1 <= l <= d, 0 <= j < pow2((d - l) as nat), 0 <= i < pow2((l - 1) as nat)
    ensures j * pow2(l) + i + pow2((l - 1) as nat) < pow2(d), j * pow2(l) >= 0, pow2(l) == 2 * pow2((l - 1) as nat), pow2(d) == pow2((d - l) as nat) * pow2(l)
{
    lemma_pow2_unfold(l);
    lemma_pow2_adds((d - l) as nat, l);
    let a = pow2((d - l) as nat) as int; let b = pow2(l) as int;
    assert(j * b + b <= a * b) by (nonlinear_arith) requires j + 1 <= a, b >= 0;
    assert(j * b >= 0) by (nonlinear_arith) requires j >= 0, b >= 0;
}
'''


BFLY = '''
    lemma_pow2_pos((l - 1) as nat);
    lemma_butterfly_index(d as nat, l as nat, j as int, %s);
    lemma_pow2_strictly_increases_or_eq(d as nat, 20); lemma2_to64();
    assert(j as int * pow2(l as nat) <= usize::MAX as int);
    lemma_usize_shl_is_mul(j, l);
'''


def unit_ntt():
    """ntt_internal: error reporting, index safety of the bit-reversal copy and of every butterfly, frame."""
    import os, re
    from vunit import REPO
    fp = open(os.path.join(REPO, 'src/fp.rs')).read()
    mr = int(re.search(r'const MAX_ROOTS: usize = (\d+);', fp).group(1))
    for nr in re.findall(r'const NUM_ROOTS: usize = (\d+);', fp):
        if int(nr) < mr:
            from vunit import Unsupported
            raise Unsupported('a field has NUM_ROOTS < MAX_ROOTS: the F::root contract of unit ntt_safe does not hold')
    u = VUnit('ntt_safe', 'ntt_internal: error reporting and index safety for every size')
    u.oracle = {'inject': 'src/ntt.rs', 'file': 'ntt_oracle.rs', 'test': 'verif_oracle_ntt::oracle_ntt_contracts'}
    u.raw('global size_of usize == 8;     // [assumption] 64-bit target\n' + FE_PRELUDE, 'abstract-field')
    u.raw('pub enum NttError { OutputTooSmall, SizeTooLarge, SizeInvalid }\n' + NTT_PRELUDE % dict(MR=mr), 'prelude')
    u.item('src/ntt.rs', ['fn ntt_internal'], ret='r',
           rewrites=[(r'<F: NttFriendlyFieldElement>', '', 1), (r'\bF::zero\(\)', 'fe_zero()', '*'), (r'\bF::one\(\)', 'fe_one()', '*'),
                     (r'\bF::root\(', 'fe_root(', 2), (r'\bF\b', 'Fe', '*'),
                     (r'outp: &mut \[Fe\]', 'outp: &mut Vec<Fe>', 1), (r'inp: &\[Fe\]', 'inp: &Vec<Fe>', 1),       # E3c
                     # X.map_err(|_| E)?  ==  match X { Ok(v) => v, Err(_) => return Err(E) }
                     (r'usize::try_from\(log2\(size as u128\)\)\.map_err\(\|_\| NttError::SizeTooLarge\)\?',
                      'match usize_try_from_u128(log2(size as u128)) { Ok(v) => v, Err(_) => { return Err(NttError::SizeTooLarge); } }', 1),
                     # E4c: enumerate over a mutable sub-slice == index loop over its range
                     (r'for \(i, outp_val\) in outp\[\.\.size\]\.iter_mut\(\)\.enumerate\(\) \{', 'for i in 0..size {', 1),
                     (r'\*outp_val = ', 'outp[i] = ', 1)],
           sig='''
requires
    size >= 1,                                  // derived: log2(0) underflows; every call site passes a length >= 1
    size == 1 ==> inp@.len() >= 1,              // derived: the size-1 transform copies inp[0] (larger sizes zero-pad a short input)
ensures
    final(outp)@.len() == old(outp)@.len(),
    // size and capacity violations are reported as errors, in this order
    size > old(outp)@.len() ==> r == Err::<(), NttError>(NttError::OutputTooSmall),
    size <= old(outp)@.len() && ((set_s && size as int > pow2((MAX_ROOTS - 1) as nat)) || size as int > pow2(MAX_ROOTS as nat)) ==> r == Err::<(), NttError>(NttError::SizeTooLarge),
    r is Ok <==> (size <= old(outp)@.len() && (exists|d: nat| d <= MAX_ROOTS && (set_s ==> d < MAX_ROOTS) && size as int == pow2(d))),
    // frame: nothing beyond the transform size is written
    forall|k: int| size <= k < old(outp)@.len() ==> #[trigger] final(outp)@[k] == old(outp)@[k],
''',
           loops={0: '''
invariant
    1 <= d,
    outp@.len() == old(outp)@.len(),
    size <= outp@.len(),
    d <= MAX_ROOTS,
    size as int == pow2(d as nat),
    forall|k: int| size <= k < outp@.len() ==> #[trigger] outp@[k] == old(outp)@[k],
''', 1: '''
invariant
    set_s ==> d < MAX_ROOTS,
    outp@.len() == old(outp)@.len(),
    size <= outp@.len(),
    d <= MAX_ROOTS,
    size as int == pow2(d as nat),
    forall|k: int| size <= k < outp@.len() ==> #[trigger] outp@[k] == old(outp)@[k],
''', 2: '''
invariant
    outp@.len() == old(outp)@.len(),
    size <= outp@.len(),
    d <= MAX_ROOTS,
    size as int == pow2(d as nat),
    forall|k: int| size <= k < outp@.len() ==> #[trigger] outp@[k] == old(outp)@[k],
    1 <= l <= d,
    y as int == pow2((l - 1) as nat),
    chunk as int == pow2((d - l) as nat),
''', 3: '''
invariant
    outp@.len() == old(outp)@.len(),
    size <= outp@.len(),
    d <= MAX_ROOTS,
    size as int == pow2(d as nat),
    forall|k: int| size <= k < outp@.len() ==> #[trigger] outp@[k] == old(outp)@[k],
    1 <= l <= d,
    y as int == pow2((l - 1) as nat),
    chunk as int == pow2((d - l) as nat),
''', 4: '''
invariant
    1 <= i < y,
    outp@.len() == old(outp)@.len(),
    size <= outp@.len(),
    d <= MAX_ROOTS,
    size as int == pow2(d as nat),
    forall|k: int| size <= k < outp@.len() ==> #[trigger] outp@[k] == old(outp)@[k],
    1 <= l <= d,
    y as int == pow2((l - 1) as nat),
    chunk as int == pow2((d - l) as nat),
'''},
           before=[('if size > outp.len()', '''
    lemma2_to64();
    assert(d as int <= 64) by { if d > 64 { lemma_pow2_strictly_increases(64, (d - 1) as nat); } }
'''), ('if (set_s && size > 1 << (MAX_ROOTS - 1))', '''
    lemma_shl_pow2((MAX_ROOTS - 1) as usize); lemma_shl_pow2(MAX_ROOTS);
'''), ('if size != 1 << d', '''
    // size <= 2^MAX_ROOTS here, and 2^(d-1) < size, hence d <= MAX_ROOTS
    if d >= 1 { if d > MAX_ROOTS { lemma_pow2_strictly_increases_or_eq(MAX_ROOTS as nat, (d - 1) as nat); } }
    if set_s && d >= 1 { if d > MAX_ROOTS - 1 { lemma_pow2_strictly_increases_or_eq((MAX_ROOTS - 1) as nat, (d - 1) as nat); } }
    lemma_shl_pow2(d);
'''), ('if d > 0', '''
    assert(forall|dd: nat| dd <= MAX_ROOTS && size as int == pow2(dd) ==> true);
'''), ('let y = 1 << (l - 1)', '''
    lemma_shl_pow2((l - 1) as usize);
'''), ('let chunk = (size / y) >> 1', '''
    lemma_pow2_pos((l - 1) as nat); lemma_pow2_pos((d - l) as nat);
    lemma_butterfly_index(d as nat, l as nat, 0, 0);
    // size / 2^(l-1) / 2 == 2^(d-l)
    assert(pow2(d as nat) == pow2((d - l) as nat) * (2 * pow2((l - 1) as nat)));
    assert(size as int == (2 * pow2((d - l) as nat)) * y as int + 0) by (nonlinear_arith)
        requires size as int == pow2((d - l) as nat) * (2 * pow2((l - 1) as nat)), y as int == pow2((l - 1) as nat);
    lemma_fundamental_div_mod_converse(size as int, y as int, 2 * pow2((d - l) as nat) as int, 0);
    let q = size / y;
    assert((q >> 1usize) == q / 2) by (bit_vector);
'''), ('let x = j << l;', BFLY % '0'), ('let x = (j << l) + i;', BFLY % 'i as int')])
    return u
