"""C10/C02 — monomial-basis polynomial helpers of polynomial.rs under contract (Verus, abstract field, any length):

  poly_deg           index of the highest non-zero coefficient (0 for the zero polynomial), all higher coefficients are zero
  poly_mul_monomial  coefficient k of the result == sum_{i+j=k} p[i]*q[j] (the textbook product), result trimmed to its degree"""
from fe_common import FE_PRELUDE
from vunit import VUnit

PF = 'src/polynomial.rs'
PRELUDE = '''
proof fn lemma_c0(x: Fe) ensures cong(fe_v(x), fe_v(x)) { lemma_cong_refl(fe_v(x)); }
proof fn lemma_add_c(x: Fe, y: Fe, xi: int, yi: int) requires cong(fe_v(x), xi), cong(fe_v(y), yi)
    ensures cong(fe_v(fe_mk(fe_v(x) + fe_v(y))), xi + yi)
{ lemma_ops(x, y); lemma_cong_add(fe_v(x), xi, fe_v(y), yi); lemma_cong_trans(fe_v(fe_mk(fe_v(x) + fe_v(y))), fe_v(x) + fe_v(y), xi + yi); }
// degree as computed by the trimming loop
pub open spec fn trim(p: Seq<Fe>, d: int) -> int decreases d
{ if d > 0 && fe_v(p[d - 1]) == 0 { trim(p, d - 1) } else { d } }
pub open spec fn spec_deg(p: Seq<Fe>) -> int { if trim(p, p.len() as int) > 0 { trim(p, p.len() as int) - 1 } else { 0 } }
proof fn lemma_trim_zeros(p: Seq<Fe>, d: int)
    requires 0 <= d <= p.len()
    ensures 0 <= trim(p, d) <= d, forall|k: int| trim(p, d) <= k < d ==> fe_v(#[trigger] p[k]) == 0
    decreases d
{ if d > 0 && fe_v(p[d - 1]) == 0 { lemma_trim_zeros(p, d - 1); } }
proof fn lemma_trim_take(p: Seq<Fe>, n: int, d: int)
    requires 0 <= d <= n <= p.len()
    ensures trim(p.take(n), d) == trim(p, d)
    decreases d
{ if d > 0 && fe_v(p[d - 1]) == 0 { lemma_trim_take(p, n, d - 1); } }
// truncating to degree + 1 yields a polynomial whose length is its degree + 1
proof fn lemma_take_deg(p: Seq<Fe>)
    requires p.len() >= 1
    ensures spec_deg(p.take(spec_deg(p) + 1)) + 1 == spec_deg(p) + 1, 0 <= spec_deg(p) < p.len()
{
    lemma_trim_zeros(p, p.len() as int);
    let t = trim(p, p.len() as int);
    let d = spec_deg(p);
    let r = p.take(d + 1);
    lemma_trim_take(p, d + 1, d + 1);
    if t > 0 {
        // t - 1 == d and p[t-1] != 0 (else trim would have continued)
        assert(trim(p, t) == t) by { lemma_trim_fix(p, p.len() as int); }
    } else {
        assert(trim(p, 1) <= 1) by { lemma_trim_zeros(p, 1); }
    }
}
// trim is idempotent: trim(p, trim(p, d)) == trim(p, d)
proof fn lemma_trim_fix(p: Seq<Fe>, d: int)
    requires 0 <= d <= p.len()
    ensures trim(p, trim(p, d)) == trim(p, d)
    decreases d
{ if d > 0 && fe_v(p[d - 1]) == 0 { lemma_trim_fix(p, d - 1); } }
// no pair (i', j) with i' < i, j < qs reaches a coefficient index k >= i + qs - 1
proof fn lemma_conv_top(p: Seq<Fe>, q: Seq<Fe>, k: int, i: int, qs: int)
    requires 0 <= i, k >= i + qs - 1
    ensures conv_upto(p, q, k, i, qs) == 0
    decreases i
{ if i > 0 { lemma_conv_top(p, q, k, i - 1, qs); } }
// the term row i contributes to coefficient k
pub open spec fn row_term(p: Seq<Fe>, q: Seq<Fe>, k: int, i: int, jmax: int) -> int
{ if i <= k < i + jmax { fe_v(p[i]) * fe_v(q[k - i]) } else { 0 } }
// sum over i' < i of p[i'] * q[k - i'] restricted to 0 <= k - i' < qs   (unreduced integer)
pub open spec fn conv_upto(p: Seq<Fe>, q: Seq<Fe>, k: int, i: int, qs: int) -> int decreases i
{
    if i <= 0 { 0 } else {
        conv_upto(p, q, k, i - 1, qs) + (if 0 <= k - (i - 1) < qs { fe_v(p[i - 1]) * fe_v(q[k - (i - 1)]) } else { 0 })
    }
}
'''


def unit():
    u = VUnit('poly_algebra', 'poly_deg / poly_mul_monomial (abstract field)')
    u.raw('global size_of usize == 8;\n' + FE_PRELUDE, 'abstract-field')
    u.raw(PRELUDE, 'prelude')
    GENF = [(r'<F: NttFriendlyFieldElement>', '', 1), (r'\bF::zero\(\)', 'fe_zero()', '*'), (r'\bF\b', 'Fe', '*')]
    u.item(PF, ['fn poly_deg'], ret='r', rewrites=GENF + [(r'p: &\[Fe\]', 'p: &Vec<Fe>', 1)],
           sig='''
ensures
    r as int == spec_deg(p@),
    p@.len() == 0 ==> r == 0,
    p@.len() > 0 ==> r < p@.len(),
    // every coefficient above the degree is zero
    forall|k: int| r < k < p@.len() ==> fe_v(#[trigger] p@[k]) == 0,
    // the leading coefficient is non-zero unless the polynomial is (at most) a constant
    r > 0 ==> fe_v(p@[r as int]) != 0,
''', loops={0: '''
invariant
    d <= p@.len(),
    trim(p@, d as int) == trim(p@, p@.len() as int),
    forall|k: int| d <= k < p@.len() ==> fe_v(#[trigger] p@[k]) == 0,
decreases d
'''})
    u.item(PF, ['fn poly_mul_monomial'], ret='r',
           rewrites=GENF + [(r'p: &\[Fe\], q: &\[Fe\]', 'p: &Vec<Fe>, q: &Vec<Fe>', 1)],
           sig='''
requires
    // derived: poly_deg(empty) + 1 == 1 makes p[0] / q[0] an out-of-bounds read; every call site passes non-empty polynomials
    p@.len() >= 1,
    q@.len() >= 1,
    p@.len() + q@.len() <= usize::MAX,
ensures
    1 <= r@.len() <= spec_deg(p@) + spec_deg(q@) + 1,
    // the result is trimmed to its own degree
    spec_deg(r@) + 1 == r@.len(),
    // coefficient k of the result is the convolution sum_{i+j=k} p[i]*q[j] over the degree-trimmed inputs
    forall|k: int| 0 <= k < r@.len() ==> cong(fe_v(#[trigger] r@[k]), conv_upto(p@, q@, k, spec_deg(p@) + 1, spec_deg(q@) + 1)),
    // nothing non-zero was trimmed away
    forall|k: int| r@.len() <= k < spec_deg(p@) + spec_deg(q@) + 2 ==> cong(0, #[trigger] conv_upto(p@, q@, k, spec_deg(p@) + 1, spec_deg(q@) + 1)),
''',
           loops={0: '''
invariant
    p_size as int == spec_deg(p@) + 1,
    q_size as int == spec_deg(q@) + 1,
    p_size <= p@.len(),
    q_size <= q@.len(),
    p@.len() + q@.len() <= usize::MAX,
    out@.len() == p_size + q_size,
    forall|k: int| 0 <= k < out@.len() ==> cong(fe_v(#[trigger] out@[k]), conv_upto(p@, q@, k, i as int, q_size as int)),
''', 1: '''
invariant
    i < p_size,
    p_size <= p@.len(),
    q_size <= q@.len(),
    p@.len() + q@.len() <= usize::MAX,
    out@.len() == p_size + q_size,
    forall|k: int| 0 <= k < out@.len() ==> cong(fe_v(#[trigger] out@[k]), conv_upto(p@, q@, k, i as int, q_size as int) + row_term(p@, q@, k, i as int, j as int)),
'''},
           before=[('for i in 0..p_size', '''
    lemma_cong_refl(0);
    assert forall|k: int| 0 <= k < out@.len() implies cong(fe_v(#[trigger] out@[k]), conv_upto(p@, q@, k, 0, q_size as int)) by {}
'''), ('for j in 0..q_size', '''
    assert forall|k: int| 0 <= k < out@.len() implies cong(fe_v(#[trigger] out@[k]), conv_upto(p@, q@, k, i as int, q_size as int) + row_term(p@, q@, k, i as int, 0)) by {}
'''), ('out[i + j] += p[i] * q[j]', '''
    let k0 = i + j;
    let o = out@[k0 as int];
    let m = fe_mk(fe_v(p@[i as int]) * fe_v(q@[j as int]));
    lemma_ops(p@[i as int], q@[j as int]);
    lemma_add_c(o, m, conv_upto(p@, q@, k0 as int, i as int, q_size as int) + row_term(p@, q@, k0 as int, i as int, j as int), fe_v(p@[i as int]) * fe_v(q@[j as int]));
    assert(row_term(p@, q@, k0 as int, i as int, j as int) == 0);
    assert(row_term(p@, q@, k0 as int, i as int, j + 1) == fe_v(p@[i as int]) * fe_v(q@[j as int]));
    assert forall|k: int| 0 <= k < out@.len() && k != k0 implies row_term(p@, q@, k, i as int, j + 1) == row_term(p@, q@, k, i as int, j as int) by {}
'''), ('out.truncate(', '''
    assert forall|k: int| 0 <= k < out@.len() implies cong(fe_v(#[trigger] out@[k]), conv_upto(p@, q@, k, p_size as int, q_size as int)) by {}
    let dd = spec_deg(out@);
    lemma_trim_zeros(out@, out@.len() as int);
    lemma_take_deg(out@);
    // the top slot p_size + q_size - 1 is never written: its convolution sum is empty, so it is zero and trimmed
    lemma_conv_top(p@, q@, out@.len() - 1, p_size as int, q_size as int);
    axiom_fe_range(out@[out@.len() - 1]);
    lemma_cong_eq(fe_v(out@[out@.len() - 1]), 0);
    assert(trim(out@, out@.len() as int) == trim(out@, out@.len() - 1));
    lemma_trim_zeros(out@, out@.len() - 1);
    assert forall|k: int| dd < k < out@.len() implies cong(0, #[trigger] conv_upto(p@, q@, k, p_size as int, q_size as int)) by {
        lemma_cong_sym(fe_v(out@[k]), conv_upto(p@, q@, k, p_size as int, q_size as int));
    }
''')])
    # ---- poly_range_check(start, end): the polynomial prod_{i=start}^{end-1} (x - i)  (vanishes exactly on [start, end) when p is prime)
    u.raw(PRODUCT, 'product')
    u.raw('''
#[verifier::external_body]
fn fe_from_usize(i: usize) -> (r: Fe) ensures fe_v(r) == (i as int) % P() { unimplemented!() }
// prod_{i=a}^{b-1} (x - i)
pub open spec fn range_prod(x: int, a: int, b: int) -> int decreases b - a
{ if b <= a { 1 } else { range_prod(x, a, b - 1) * (x - (b - 1)) } }
''', 'range-spec')
    u.item(PF, ['fn poly_range_check'], ret='r',
           rewrites=[(r'<F: NttFriendlyFieldElement>', '', 1), (r'\bF::one\(\)', 'fe_one()', '*'), (r'\bF::zero\(\)', 'fe_zero()', '*'),
                     (r'\bF::from\(F::Integer::try_from\(i\)\.unwrap\(\)\)', 'fe_from_usize(i)', 1),
                     (r'let mut q = \[fe_zero\(\), fe_one\(\)\];', 'let mut q = vec![fe_zero(), fe_one()];', 1),     # E3c: array passed as a slice -> Vec
                     (r'Vec<F>', 'Vec<Fe>', 1)],
           sig='''
requires
    start <= end,
    (end - start) as int + 3 <= usize::MAX as int,        // derived: the product of (end - start) linear factors must be addressable
ensures
    r@.len() >= 1,
    // the value of the result at ANY point x is prod_{i in [start, end)} (x - i)  (mod p)
    forall|x: int| cong(#[trigger] qsum(r@, x, r@.len() as int), range_prod(x, start as int, end as int)),
''',
           loops={0: '''
invariant
    start <= i <= end,
    (end - start) as int + 3 <= usize::MAX as int,
    q@.len() == 2,
    fe_v(q@[1]) == 1,
    p@.len() >= 1,
    p@.len() <= (i - start) + 1,
    spec_deg(p@) + 1 == p@.len(),
    forall|x: int| cong(#[trigger] qsum(p@, x, p@.len() as int), range_prod(x, start as int, i as int)),
'''},
           before=[('for i in start..end', '''
    broadcast use axiom_fe_range;
    lemma_trim_zeros(p@, 1);
    assert forall|x: int| cong(#[trigger] qsum(p@, x, p@.len() as int), range_prod(x, start as int, start as int)) by {
        lemma_pow0(x); lemma_cong_refl(1);
        assert(qsum(p@, x, 1) == qsum(p@, x, 0) + fe_v(p@[0]) * pow(x, 0));
    }
'''), ('p = poly_mul_monomial(&p, &q)', '''
    broadcast use axiom_fe_range, axiom_fe_mk;
    let pp = p@; let qq = q@;
    // q = [-i, 1] has degree 1
    assert(trim(qq, 2) == 2);
    lemma_cong_mod(-((i as int) % P()));
    lemma_cong_mod(i as int);
    lemma_cong_neg((i as int) % P(), i as int);
    lemma_cong_trans(fe_v(qq[0]), -((i as int) % P()), -(i as int));
''')],
           ghost_before=[('p = poly_mul_monomial(&p, &q)', 'let ghost pp0 = p@;\nlet ghost qq0 = q@;')],
           after=[('p = poly_mul_monomial(&p, &q)', '''
    broadcast use axiom_fe_range, axiom_fe_mk;
    assert forall|x: int| cong(#[trigger] qsum(p@, x, p@.len() as int), range_prod(x, start as int, i as int + 1)) by {
        theorem_poly_mul_value(p@, pp0, qq0, x, pp0.len() as int, 2);
        // value of q = [-i, 1] at x is x - i (mod p)
        lemma_pow0(x); lemma_pow1(x);
        assert(qsum(qq0, x, 2) == fe_v(qq0[0]) * pow(x, 0) + fe_v(qq0[1]) * pow(x, 1)) by { assert(qsum(qq0, x, 0) == 0); assert(qsum(qq0, x, 1) == qsum(qq0, x, 0) + fe_v(qq0[0]) * pow(x, 0)); }
        lemma_cong_refl(x);
        lemma_cong_add(fe_v(qq0[0]), -(i as int), x, x);
        assert(qsum(qq0, x, 2) == fe_v(qq0[0]) + x) by (nonlinear_arith) requires qsum(qq0, x, 2) == fe_v(qq0[0]) * pow(x, 0) + fe_v(qq0[1]) * pow(x, 1), pow(x, 0) == 1, pow(x, 1) == x, fe_v(qq0[1]) == 1;
        lemma_cong_mul(qsum(pp0, x, pp0.len() as int), range_prod(x, start as int, i as int), qsum(qq0, x, 2), x - i as int);
        lemma_cong_trans(qsum(p@, x, p@.len() as int), qsum(pp0, x, pp0.len() as int) * qsum(qq0, x, 2), range_prod(x, start as int, i as int) * (x - i as int));
    }
''')])
    return u


PRODUCT = '''
// ---- the convolution of the coefficient sequences IS the product of the polynomials (pure algebra over the integers) -------
// value of a coefficient function c(0..n) at x
pub open spec fn csum(p: Seq<Fe>, q: Seq<Fe>, x: int, i: int, qs: int, n: int) -> int decreases n
{ if n <= 0 { 0 } else { csum(p, q, x, i, qs, n - 1) + conv_upto(p, q, n - 1, i, qs) * pow(x, (n - 1) as nat) } }
pub open spec fn qsum(q: Seq<Fe>, x: int, n: int) -> int decreases n
{ if n <= 0 { 0 } else { qsum(q, x, n - 1) + fe_v(q[n - 1]) * pow(x, (n - 1) as nat) } }
// contribution of row i restricted to coefficients < n:  sum_{k<n, 0<=k-i<qs} p[i] q[k-i] x^k
pub open spec fn rowsum(p: Seq<Fe>, q: Seq<Fe>, x: int, i: int, qs: int, n: int) -> int decreases n
{ if n <= 0 { 0 } else { rowsum(p, q, x, i, qs, n - 1) + (if 0 <= (n - 1) - i < qs { fe_v(p[i]) * fe_v(q[(n - 1) - i]) } else { 0 }) * pow(x, (n - 1) as nat) } }

proof fn lemma_rowsum_low(p: Seq<Fe>, q: Seq<Fe>, x: int, i: int, qs: int, n: int)
    requires 0 <= n <= i
    ensures rowsum(p, q, x, i, qs, n) == 0
    decreases n
{ if n > 0 { lemma_rowsum_low(p, q, x, i, qs, n - 1); } }
// for i <= n <= i + qs: rowsum == p[i] * x^i * qsum(q, x, n - i)
proof fn lemma_rowsum_mid(p: Seq<Fe>, q: Seq<Fe>, x: int, i: int, qs: int, n: int)
    requires 0 <= i <= n <= i + qs
    ensures rowsum(p, q, x, i, qs, n) == fe_v(p[i]) * pow(x, i as nat) * qsum(q, x, n - i)
    decreases n
{
    if n == i { lemma_rowsum_low(p, q, x, i, qs, n); assert(qsum(q, x, 0) == 0); assert(fe_v(p[i]) * pow(x, i as nat) * 0 == 0) by (nonlinear_arith); }
    else {
        lemma_rowsum_mid(p, q, x, i, qs, n - 1);
        let j = n - 1 - i;
        lemma_pow_adds(x, i as nat, j as nat);
        let (a, xi, xj, b, s) = (fe_v(p[i]), pow(x, i as nat), pow(x, j as nat), fe_v(q[j]), qsum(q, x, j));
        assert(a * xi * s + (a * b) * (xi * xj) == a * xi * (s + b * xj)) by (nonlinear_arith);
    }
}
proof fn lemma_rowsum_high(p: Seq<Fe>, q: Seq<Fe>, x: int, i: int, qs: int, n: int)
    requires 0 <= i, 0 <= qs, i + qs <= n
    ensures rowsum(p, q, x, i, qs, n) == fe_v(p[i]) * pow(x, i as nat) * qsum(q, x, qs)
    decreases n
{ if n == i + qs { lemma_rowsum_mid(p, q, x, i, qs, n); } else { lemma_rowsum_high(p, q, x, i, qs, n - 1); } }
// adding row i to the coefficient function adds its rowsum to the value
proof fn lemma_csum_step(p: Seq<Fe>, q: Seq<Fe>, x: int, i: int, qs: int, n: int)
    requires 0 <= i, 0 <= n
    ensures csum(p, q, x, i + 1, qs, n) == csum(p, q, x, i, qs, n) + rowsum(p, q, x, i, qs, n)
    decreases n
{
    if n > 0 {
        lemma_csum_step(p, q, x, i, qs, n - 1);
        let k = n - 1;
        let t = if 0 <= k - i < qs { fe_v(p[i]) * fe_v(q[k - i]) } else { 0 };
        assert(conv_upto(p, q, k, i + 1, qs) == conv_upto(p, q, k, i, qs) + t);
        assert((conv_upto(p, q, k, i, qs) + t) * pow(x, k as nat) == conv_upto(p, q, k, i, qs) * pow(x, k as nat) + t * pow(x, k as nat)) by (nonlinear_arith);
    }
}
proof fn lemma_csum_zero(p: Seq<Fe>, q: Seq<Fe>, x: int, qs: int, n: int)
    requires 0 <= n
    ensures csum(p, q, x, 0, qs, n) == 0
    decreases n
{ if n > 0 { lemma_csum_zero(p, q, x, qs, n - 1); assert(0 * pow(x, (n - 1) as nat) == 0); } }
// THE PRODUCT FORMULA: sum_k conv(p,q,k) x^k == (sum_i p[i] x^i) * (sum_j q[j] x^j)   for n >= ps + qs - 1 coefficients
proof fn lemma_conv_is_product(p: Seq<Fe>, q: Seq<Fe>, x: int, i: int, qs: int, n: int)
    requires 0 <= i, 0 <= qs, 0 <= n, i + qs <= n + 1
    ensures csum(p, q, x, i, qs, n) == qsum(p, x, i) * qsum(q, x, qs)
    decreases i
{
    if i == 0 { lemma_csum_zero(p, q, x, qs, n); assert(0 * qsum(q, x, qs) == 0); }
    else {
        lemma_conv_is_product(p, q, x, i - 1, qs, n);
        lemma_csum_step(p, q, x, i - 1, qs, n);
        lemma_rowsum_high(p, q, x, i - 1, qs, n);
        let (s, a, xi, t) = (qsum(p, x, i - 1), fe_v(p[i - 1]), pow(x, (i - 1) as nat), qsum(q, x, qs));
        assert(s * t + a * xi * t == (s + a * xi) * t) by (nonlinear_arith);
    }
}

// coefficient-wise congruence lifts to the values
proof fn lemma_cong_sums(r: Seq<Fe>, p: Seq<Fe>, q: Seq<Fe>, x: int, ps: int, qs: int, n: int)
    requires 0 <= n <= r.len(), forall|k: int| 0 <= k < n ==> cong(fe_v(#[trigger] r[k]), conv_upto(p, q, k, ps, qs))
    ensures cong(qsum(r, x, n), csum(p, q, x, ps, qs, n))
    decreases n
{
    if n <= 0 { lemma_cong_refl(0); }
    else {
        lemma_cong_sums(r, p, q, x, ps, qs, n - 1);
        let xk = pow(x, (n - 1) as nat);
        lemma_cong_refl(xk);
        lemma_cong_mul(fe_v(r[n - 1]), conv_upto(p, q, n - 1, ps, qs), xk, xk);
        lemma_cong_add(qsum(r, x, n - 1), csum(p, q, x, ps, qs, n - 1), fe_v(r[n - 1]) * xk, conv_upto(p, q, n - 1, ps, qs) * xk);
    }
}
// coefficients that are congruent to zero do not change the value
proof fn lemma_csum_tail(p: Seq<Fe>, q: Seq<Fe>, x: int, ps: int, qs: int, n: int, m: int)
    requires 0 <= n <= m, forall|k: int| n <= k < m ==> cong(0, #[trigger] conv_upto(p, q, k, ps, qs))
    ensures cong(csum(p, q, x, ps, qs, n), csum(p, q, x, ps, qs, m))
    decreases m - n
{
    if m == n { lemma_cong_refl(csum(p, q, x, ps, qs, n)); }
    else {
        lemma_csum_tail(p, q, x, ps, qs, n, m - 1);
        let xk = pow(x, (m - 1) as nat);
        lemma_cong_refl(xk);
        lemma_cong_mul(0, conv_upto(p, q, m - 1, ps, qs), xk, xk);
        assert(0 * xk == 0);
        lemma_cong_add(csum(p, q, x, ps, qs, n), csum(p, q, x, ps, qs, m - 1), 0, conv_upto(p, q, m - 1, ps, qs) * xk);
    }
}
// THEOREM (over the contract of poly_mul_monomial): the value of the result at any x is the product of the values of the
// (degree-trimmed) inputs, modulo p
proof fn theorem_poly_mul_value(r: Seq<Fe>, p: Seq<Fe>, q: Seq<Fe>, x: int, ps: int, qs: int)
    requires
        1 <= ps, 1 <= qs, 1 <= r.len() <= ps + qs,
        forall|k: int| 0 <= k < r.len() ==> cong(fe_v(#[trigger] r[k]), conv_upto(p, q, k, ps, qs)),
        forall|k: int| r.len() <= k < ps + qs ==> cong(0, #[trigger] conv_upto(p, q, k, ps, qs)),
    ensures cong(qsum(r, x, r.len() as int), qsum(p, x, ps) * qsum(q, x, qs))
{
    let n = r.len() as int;
    lemma_cong_sums(r, p, q, x, ps, qs, n);
    lemma_csum_tail(p, q, x, ps, qs, n, ps + qs);
    lemma_conv_is_product(p, q, x, ps, qs, ps + qs);
    lemma_cong_trans(qsum(r, x, n), csum(p, q, x, ps, qs, n), csum(p, q, x, ps, qs, ps + qs));
}
'''


def unit_product():
    """Pure algebra: the coefficient convolution that poly_mul_monomial is proved to compute is the polynomial product."""
    u = VUnit('poly_product', 'convolution of coefficients == product of polynomial values (lemma over the poly_mul_monomial contract)')
    u.raw(FE_PRELUDE, 'abstract-field')
    u.raw(PRELUDE, 'prelude')
    u.raw(PRODUCT, 'product')
    return u
