"""C10/C02 — monomial-basis polynomial helpers of polynomial.rs under contract (Verus, abstract field, any length):

  poly_deg           index of the highest non-zero coefficient (0 for the zero polynomial), all higher coefficients are zero
  poly_mul_monomial  coefficient k of the result == sum_{i+j=k} p[i]*q[j] (the textbook product), result trimmed to its degree"""
from fe_common import FE_PRELUDE
from vunit import VUnit

PF = 'src/polynomial.rs'
PRELUDE = '''
proof fn lemma_c0(x: Fe) ensures cong(fe_v(x), fe_v(x)) { lemma_cong_refl(fe_v(x)); }
proof fn lemma_add_c(x: Fe, y: Fe, xi: int, yi: int) requires cong(fe_v(x), xi), cong(fe_v(y), yi)
    ensures cong(fe_v(fe_mk(fe_v(x) + fe_v(y))), xi + yi)
{ lemma_ops(x, y); lemma_cong_add(fe_v(x), xi, fe_v(y), yi); lemma_cong_trans(fe_v(fe_mk(fe_v(x) + fe_v(y))), fe_v(x) + fe_v(y), xi + yi); }
// degree as computed by the trimming loop
pub open spec fn trim(p: Seq<Fe>, d: int) -> int decreases d
{ if d > 0 && fe_v(p[d - 1]) == 0 { trim(p, d - 1) } else { d } }
pub open spec fn spec_deg(p: Seq<Fe>) -> int { if trim(p, p.len() as int) > 0 { trim(p, p.len() as int) - 1 } else { 0 } }
proof fn lemma_trim_zeros(p: Seq<Fe>, d: int)
    requires 0 <= d <= p.len()
    ensures 0 <= trim(p, d) <= d, forall|k: int| trim(p, d) <= k < d ==> fe_v(#[trigger] p[k]) == 0
    decreases d
{ if d > 0 && fe_v(p[d - 1]) == 0 { lemma_trim_zeros(p, d - 1); } }
// the term row i contributes to coefficient k
pub open spec fn row_term(p: Seq<Fe>, q: Seq<Fe>, k: int, i: int, jmax: int) -> int
{ if i <= k < i + jmax { fe_v(p[i]) * fe_v(q[k - i]) } else { 0 } }
// sum over i' < i of p[i'] * q[k - i'] restricted to 0 <= k - i' < qs   (unreduced integer)
pub open spec fn conv_upto(p: Seq<Fe>, q: Seq<Fe>, k: int, i: int, qs: int) -> int decreases i
{
    if i <= 0 { 0 } else {
        conv_upto(p, q, k, i - 1, qs) + (if 0 <= k - (i - 1) < qs { fe_v(p[i - 1]) * fe_v(q[k - (i - 1)]) } else { 0 })
    }
}
'''


def unit():
    u = VUnit('poly_algebra', 'poly_deg / poly_mul_monomial (abstract field)')
    u.raw('global size_of usize == 8;\n' + FE_PRELUDE, 'abstract-field')
    u.raw(PRELUDE, 'prelude')
    GENF = [(r'<F: NttFriendlyFieldElement>', '', 1), (r'\bF::zero\(\)', 'fe_zero()', '*'), (r'\bF\b', 'Fe', '*')]
    u.item(PF, ['fn poly_deg'], ret='r', rewrites=GENF + [(r'p: &\[Fe\]', 'p: &Vec<Fe>', 1)],
           sig='''
ensures
    r as int == spec_deg(p@),
    p@.len() == 0 ==> r == 0,
    p@.len() > 0 ==> r < p@.len(),
    // every coefficient above the degree is zero
    forall|k: int| r < k < p@.len() ==> fe_v(#[trigger] p@[k]) == 0,
    // the leading coefficient is non-zero unless the polynomial is (at most) a constant
    r > 0 ==> fe_v(p@[r as int]) != 0,
''', loops={0: '''
invariant
    d <= p@.len(),
    trim(p@, d as int) == trim(p@, p@.len() as int),
    forall|k: int| d <= k < p@.len() ==> fe_v(#[trigger] p@[k]) == 0,
decreases d
'''})
    u.item(PF, ['fn poly_mul_monomial'], ret='r',
           rewrites=GENF + [(r'p: &\[Fe\], q: &\[Fe\]', 'p: &Vec<Fe>, q: &Vec<Fe>', 1)],
           sig='''
requires
    // derived: poly_deg(empty) + 1 == 1 makes p[0] / q[0] an out-of-bounds read; every call site passes non-empty polynomials
    p@.len() >= 1,
    q@.len() >= 1,
    p@.len() + q@.len() <= usize::MAX,
ensures
    1 <= r@.len() <= spec_deg(p@) + spec_deg(q@) + 2,
    // coefficient k of the result is the convolution sum_{i+j=k} p[i]*q[j] over the degree-trimmed inputs
    forall|k: int| 0 <= k < r@.len() ==> cong(fe_v(#[trigger] r@[k]), conv_upto(p@, q@, k, spec_deg(p@) + 1, spec_deg(q@) + 1)),
    // nothing non-zero was trimmed away
    forall|k: int| r@.len() <= k < spec_deg(p@) + spec_deg(q@) + 2 ==> cong(0, #[trigger] conv_upto(p@, q@, k, spec_deg(p@) + 1, spec_deg(q@) + 1)),
''',
           loops={0: '''
invariant
    p_size as int == spec_deg(p@) + 1,
    q_size as int == spec_deg(q@) + 1,
    p_size <= p@.len(),
    q_size <= q@.len(),
    p@.len() + q@.len() <= usize::MAX,
    out@.len() == p_size + q_size,
    forall|k: int| 0 <= k < out@.len() ==> cong(fe_v(#[trigger] out@[k]), conv_upto(p@, q@, k, i as int, q_size as int)),
''', 1: '''
invariant
    i < p_size,
    p_size <= p@.len(),
    q_size <= q@.len(),
    p@.len() + q@.len() <= usize::MAX,
    out@.len() == p_size + q_size,
    forall|k: int| 0 <= k < out@.len() ==> cong(fe_v(#[trigger] out@[k]), conv_upto(p@, q@, k, i as int, q_size as int) + row_term(p@, q@, k, i as int, j as int)),
'''},
           before=[('for i in 0..p_size', '''
    lemma_cong_refl(0);
    assert forall|k: int| 0 <= k < out@.len() implies cong(fe_v(#[trigger] out@[k]), conv_upto(p@, q@, k, 0, q_size as int)) by {}
'''), ('for j in 0..q_size', '''
    assert forall|k: int| 0 <= k < out@.len() implies cong(fe_v(#[trigger] out@[k]), conv_upto(p@, q@, k, i as int, q_size as int) + row_term(p@, q@, k, i as int, 0)) by {}
'''), ('out[i + j] += p[i] * q[j]', '''
    let k0 = i + j;
    let o = out@[k0 as int];
    let m = fe_mk(fe_v(p@[i as int]) * fe_v(q@[j as int]));
    lemma_ops(p@[i as int], q@[j as int]);
    lemma_add_c(o, m, conv_upto(p@, q@, k0 as int, i as int, q_size as int) + row_term(p@, q@, k0 as int, i as int, j as int), fe_v(p@[i as int]) * fe_v(q@[j as int]));
    assert(row_term(p@, q@, k0 as int, i as int, j as int) == 0);
    assert(row_term(p@, q@, k0 as int, i as int, j + 1) == fe_v(p@[i as int]) * fe_v(q@[j as int]));
    assert forall|k: int| 0 <= k < out@.len() && k != k0 implies row_term(p@, q@, k, i as int, j + 1) == row_term(p@, q@, k, i as int, j as int) by {}
'''), ('out.truncate(', '''
    assert forall|k: int| 0 <= k < out@.len() implies cong(fe_v(#[trigger] out@[k]), conv_upto(p@, q@, k, p_size as int, q_size as int)) by {}
    let dd = spec_deg(out@);
    lemma_trim_zeros(out@, out@.len() as int);
    assert forall|k: int| dd < k < out@.len() implies cong(0, #[trigger] conv_upto(p@, q@, k, p_size as int, q_size as int)) by {
        lemma_cong_sym(fe_v(out@[k]), conv_upto(p@, q@, k, p_size as int, q_size as int));
    }
''')])
    return u
