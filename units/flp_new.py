"""C16/C05/C02 — the fallible constructors SumVec::new, MultihotCountVec::new, L1BoundSum::new, Sum::new under contract
(Verus, unbounded): Ok exactly on the documented domain, Err otherwise, no panic/overflow on ANY argument, and the
derived fields are what the validity circuits rely on:

  * bits == floor(log2(max)) + 1 and last_weight == max - (2^(bits-1) - 1)  (the modified bit decomposition of RFC 9xxx §7.4.3.x)
  * gadget_calls == ceil(encoded_input_len / chunk_length): EVERY chunk of the encoded input - including the digits of
    the claimed norm / weight - is handed to a range-check gadget call (joint_rand_len == gadget_calls covers all chunks).

E3b (DESIGN §3.2): `F` is the abstract field `Fe` with an uninterpreted modulus; `F::Integer` is monomorphised to u128
(Field128's integer type) and, in a second instance, to u64 (Field64)."""
from vunit import VUnit

T = 'src/flp/types.rs'
L1 = 'src/flp/types/l1boundsum.rs'

PRELUDE = '''
use std::marker::PhantomData;
global size_of usize == 8;     // [assumption] 64-bit target (num_buckets < u32::MAX plus a bit count cannot overflow usize)
pub enum FlpError { Prove(String), Query(String), Decide(String), Gadget(String), Valid(String), Encode(String), Decode(String), Truncate(String), InvalidParameter(String) }

// E3b: abstract field.  MODULUS is uninterpreted (any prime > 2 that fits the integer type).
pub uninterp spec fn MODULUS() -> int;
#[derive(Clone, Copy)]
pub struct Fe(pub %(I)s);
#[verifier::external_body]
fn fe_modulus() -> (r: %(I)s) ensures r as int == MODULUS(), r >= 2 { unimplemented!() }
#[verifier::external_body]
fn fe_from<F>(x: %(I)s) -> (r: F) requires (x as int) < MODULUS() { unimplemented!() }
#[verifier::external_body]
fn poly_range_check<F>(start: usize, end: usize) -> Vec<F> { unimplemented!() }

// [trusted: std semantics] integer logarithm, checked multiplication, ceiling division
pub open spec fn spec_ilog2(x: int) -> int decreases x { if x <= 1 { 0 } else { 1 + spec_ilog2(x / 2) } }
pub assume_specification [%(I)s::checked_ilog2] (x: %(I)s) -> (r: Option<u32>)
    ensures x == 0 ==> r is None, x > 0 ==> r == Some(spec_ilog2(x as int) as u32);
pub assume_specification [usize::ilog2] (x: usize) -> (r: u32)
    requires x > 0,
    ensures r as int == spec_ilog2(x as int);
pub assume_specification [usize::div_ceil] (x: usize, y: usize) -> (r: usize)
    requires y > 0,
    ensures r as int == (x as int + y as int - 1) / (y as int);
proof fn lemma_ilog2(x: int)
    requires x >= 1
    ensures 0 <= spec_ilog2(x), pow2(spec_ilog2(x) as nat) <= x < 2 * pow2(spec_ilog2(x) as nat)
    decreases x
{
    lemma2_to64();
    if x > 1 { lemma_ilog2(x / 2); lemma_pow2_unfold((1 + spec_ilog2(x / 2)) as nat); }
}
proof fn lemma_ilog2_bound(x: int, b: nat)
    requires 1 <= x < pow2(b)
    ensures spec_ilog2(x) < b
{
    lemma_ilog2(x);
    if spec_ilog2(x) >= b { lemma_pow2_strictly_increases_or_eq(b, spec_ilog2(x) as nat); }
}
proof fn lemma_pow2_strictly_increases_or_eq(a: nat, b: nat)
    requires a <= b ensures pow2(a) <= pow2(b)
{
    if a < b { lemma_pow2_strictly_increases(a, b); }
}
proof fn lemma_fits(x: %(I)s) ensures (x as int) < pow2(%(W)d) { lemma2_to64(); lemma_pow2_adds(64, 64); }
// 1 << k == 2^k  (vstd has no u128 instance of lemma_*_shl_is_mul)
proof fn lemma_one_shl(k: usize)
    requires k < %(W)d
    ensures (1%(I)s << k) as int == pow2(k as nat), pow2(k as nat) <= %(I)s::MAX as int
    decreases k
{
    lemma2_to64();
    if k == 0 {
        assert(1%(I)s << 0usize == 1%(I)s) by (bit_vector);
    } else {
        let j = (k - 1) as usize;
        lemma_one_shl(j);
        assert(j < %(W)d - 1 ==> (1%(I)s << ((j + 1) as usize)) == 2 * (1%(I)s << j) && (1%(I)s << j) <= %(HALF)s) by (bit_vector);
        lemma_pow2_unfold(k as nat);
    }
}
proof fn lemma_fits_usize(x: usize) ensures (x as int) < pow2(64) { lemma2_to64(); }
#[verifier::external_body]
fn fmt_opaque() -> String { String::new() }
#[verifier::external_body]
fn %(I)s_try_from_usize(x: usize) -> (r: Result<%(I)s, ()>)
    ensures (x as int <= %(I)s::MAX as int) ==> r == Ok::<%(I)s, ()>(x as %(I)s), (x as int > %(I)s::MAX as int) ==> r is Err
{ unimplemented!() }

// ceil(n / c)
pub open spec fn ceil_div(n: int, c: int) -> int { (n + c - 1) / c }
proof fn lemma_ceil_div(n: int, c: int)
    requires n >= 0, c > 0
    ensures ceil_div(n, c) == n / c + (if n %% c != 0 { 1int } else { 0int }), ceil_div(n, c) * c >= n, (ceil_div(n, c) - 1) * c < n || n == 0,
            n %% c != 0 ==> n / c < n, n > 0 ==> ceil_div(n, c) >= 1, 0 <= n / c
{
    let q = n / c; let m = n %% c;
    lemma_fundamental_div_mod(n, c);
    assert(c * (q + 1) == c * q + c) by (nonlinear_arith);
    assert(q * c == c * q && (q + 1) * c == c * q + c) by (nonlinear_arith);
    if m == 0 { lemma_fundamental_div_mod_converse(n + c - 1, c, q, c - 1); }
    else { lemma_fundamental_div_mod_converse(n + c - 1, c, q + 1, m - 1); }
    lemma_div_pos_is_pos(n, c);
    if n > 0 && m == 0 { assert(q >= 1) by (nonlinear_arith) requires n == c * q, n > 0, c > 0, q >= 0; }
    assert((q - 1) * c == q * c - c) by (nonlinear_arith);
    assert(q <= q * c) by (nonlinear_arith) requires q >= 0, c >= 1;
}
// the modified bit decomposition: weights 1,2,..,2^(bits-2), last_weight sum to exactly max
pub open spec fn spec_bits(max: int) -> int { spec_ilog2(max) + 1 }
pub open spec fn spec_last_weight(max: int) -> int { max - (pow2((spec_bits(max) - 1) as nat) - 1) }
'''


def _common(I):
    return [(r'\bF::Integer::zero\(\)', '0%s' % I, '*'), (r'\bF::Integer::one\(\)', '1%s' % I, '*'),
            (r'\bF::Integer::try_from\(', '%s_try_from_usize(' % I, '*'),
            (r'\bF::Integer\b', I, '*'), (r'\bF::modulus\(\)', 'fe_modulus()', '*'), (r'\bF::from\(', 'fe_from::<F>(', '*'), (r'\bpoly_range_check\(', 'poly_range_check::<F>(', '*'),
            (r'format!\((?:[^()]|\([^()]*\))*\)', 'fmt_opaque()', '*'), (r'"\.into\(\)', '".to_string()', '*'),
            # X.checked_mul(Y).ok_or_else(|| E)?   ==   match X.checked_mul(Y) { Some(v) => v, None => return Err(E) }   (definition of ok_or_else + `?`)
            (r'(\w+)\.checked_mul\(((?:[^()]|\([^()]*\))*)\)\.ok_or_else\(\|\| \{\s*((?:[^{}]|\{[^{}]*\})*?)\s*\}\)\?',
             r'match \1.checked_mul(\2) { Some(v) => v, None => { return Err(\3); } }', '*')]


STRW = [(r'<F: NttFriendlyFieldElement, S>', '<F, S>', '*'), (r'<F: NttFriendlyFieldElement>', '<F>', '*'),
        (r'where\s+F: FieldElementWithInteger,', '', '*')]


def unit(I='u128'):
    u = VUnit('flp_new_%s' % I, 'fallible FLP constructors (F::Integer = %s)' % I)
    u.oracle = {'inject': 'src/vdaf/prio2.rs', 'file': 'guards_oracle.rs', 'test': 'verif_oracle_guards::oracle_flp_new'}
    W = {'u128': 128, 'u64': 64}[I]
    u.raw(PRELUDE % dict(I=I, W=W, HALF={'u128': '0x8000_0000_0000_0000_0000_0000_0000_0000u128', 'u64': '0x8000_0000_0000_0000u64'}[I]), 'prelude')
    C = _common(I)
    SW = STRW + [(r'\bF::Integer\b', I, '*'),  (r'pub\(super\) ', 'pub ', '*')]
    W = {'u128': 128, 'u64': 64}[I]

    # ---------------------------------------------------------------- Sum
    u.struct_item(T, ['pub struct Sum'], rewrites=SW)
    u.item(T, ['impl<F: NttFriendlyFieldElement> Sum<F>', 'fn new'], ret='r', impl_header='impl<F> Sum<F>', rewrites=C,
           sig='''
ensures
    r is Ok <==> 0 < max_measurement as int && (max_measurement as int) < MODULUS(),
    r is Ok ==> r->Ok_0.bits as int == spec_bits(max_measurement as int) && r->Ok_0.max_measurement == max_measurement
        && r->Ok_0.last_weight as int == spec_last_weight(max_measurement as int) && r->Ok_0.last_weight >= 1,
''', before=[('let bits =', _bits_hint(I, W, 'max_measurement', shl=False)), ('let last_weight =', _bits_hint(I, W, 'max_measurement'))])

    # ---------------------------------------------------------------- SumVec
    u.struct_item(T, ['pub struct SumVec'], rewrites=SW)
    u.item(T, ['impl<F: NttFriendlyFieldElement, S: ParallelSumGadget<F, Mul>> SumVec<F, S>', 'fn new'], ret='r',
           impl_header='impl<F, S> SumVec<F, S>', rewrites=C,
           sig='''
ensures
    r is Ok <==> (0 < max_measurement as int && (max_measurement as int) < MODULUS() && len > 0 && chunk_length > 0
                  && spec_bits(max_measurement as int) * len as int <= usize::MAX as int),
    r is Ok ==> ({ let t = r->Ok_0;
        &&& t.len == len && t.chunk_length == chunk_length && t.max_measurement == max_measurement
        &&& t.bits as int == spec_bits(max_measurement as int)
        &&& t.last_weight as int == spec_last_weight(max_measurement as int)
        &&& t.flattened_len as int == t.bits as int * len as int
        // every chunk of the encoded input is covered by a range-check gadget call
        &&& t.gadget_calls as int == ceil_div(t.flattened_len as int, chunk_length as int)
        &&& t.gadget_calls >= 1 }),
''', before=[('let bits =', _bits_hint(I, W, 'max_measurement', shl=False)),
             ('let last_weight =', _bits_hint(I, W, 'max_measurement')),
             ('let mut gadget_calls', 'lemma_ceil_div(flattened_len as int, chunk_length as int); assert(flattened_len >= 1) by (nonlinear_arith) requires flattened_len as int == bits as int * len as int, bits >= 1, len >= 1;')])

    # ---------------------------------------------------------------- MultihotCountVec
    u.struct_item(T, ['pub struct MultihotCountVec'], rewrites=SW + [(r'PhantomData<\(F, S\)>', 'PhantomData<(F, S)>', '*')])
    u.item(T, ['impl<F: NttFriendlyFieldElement, S: ParallelSumGadget<F, Mul>> MultihotCountVec<F, S>', 'fn new'], ret='r',
           impl_header='impl<F, S> MultihotCountVec<F, S>',
           rewrites=C + [(r'let Ok\(max_weight_converted\) = (%s_try_from_usize\(max_weight\)) else \{(.*?)\};' % I,
                          r'let max_weight_converted = match \1 { Ok(v) => v, Err(_) => {\2} };', 1)],     # let-else == match
           sig='''
ensures
    r is Ok <==> (0 < num_buckets < u32::MAX as usize && chunk_length > 0 && 0 < max_weight && (max_weight as int) < MODULUS()
                  && (max_weight as int) <= %(I)s::MAX as int),
    r is Ok ==> ({ let t = r->Ok_0;
        &&& t.length == num_buckets && t.max_weight == max_weight && t.chunk_length == chunk_length
        &&& t.bits_for_weight as int == spec_bits(max_weight as int)
        &&& t.last_weight as int == spec_last_weight(max_weight as int)
        // the encoded input (buckets followed by the digits of the claimed weight) is covered chunk by chunk
        &&& t.gadget_calls as int == ceil_div(num_buckets as int + t.bits_for_weight as int, chunk_length as int)
        &&& t.gadget_calls >= 1 }),
''' % dict(I=I), before=[('let bits_for_weight =', _bits_hint(I, W, 'max_weight', var='bits_for_weight', shl=False, usz=True)),
                         ('let last_weight =', _bits_hint(I, W, 'max_weight', var='bits_for_weight', usz=True)),
                         ('let gadget_calls =', 'lemma_ceil_div(meas_length as int, chunk_length as int);')])

    # ---------------------------------------------------------------- L1BoundSum
    u.struct_item(L1, ['pub struct L1BoundSum'], rewrites=SW + [(r'PhantomData<\(S, F\)>', 'PhantomData<(S, F)>', '*')])
    u.item(L1, ['impl<F: NttFriendlyFieldElement, S: ParallelSumGadget<F, Mul>> L1BoundSum<F, S>', 'fn new'], ret='r',
           impl_header='impl<F, S> L1BoundSum<F, S>', rewrites=C,
           sig='''
ensures
    r is Ok <==> (0 < measurement_len < usize::MAX && chunk_length > 0 && 0 < max_value as int && (max_value as int) < MODULUS()
                  && spec_bits(max_value as int) * (measurement_len as int + 1) <= usize::MAX as int),
    r is Ok ==> ({ let t = r->Ok_0;
        &&& t.measurement_len == measurement_len && t.chunk_length == chunk_length && t.max_value == max_value
        &&& t.bits as int == spec_bits(max_value as int)
        &&& t.last_weight as int == spec_last_weight(max_value as int)
        // the encoded input is the measurement followed by the claimed L1 norm: (measurement_len + 1) numbers of `bits` digits
        &&& t.measurement_len_in_bits as int == t.bits as int * (measurement_len as int + 1)
        // every chunk of it - including the digits of the claimed norm - is covered by a range-check gadget call
        &&& t.gadget_calls as int == ceil_div(t.measurement_len_in_bits as int, chunk_length as int)
        &&& t.gadget_calls >= 1 }),
''', before=[('let bits =', _bits_hint(I, W, 'max_value', shl=False)),
             ('let last_weight =', _bits_hint(I, W, 'max_value')),
             ('let mut gadget_calls', 'lemma_ceil_div(measurement_len_in_bits as int, chunk_length as int); assert(measurement_len_in_bits >= 1) by (nonlinear_arith) requires measurement_len_in_bits as int == bits as int * (measurement_len as int + 1), bits >= 1, measurement_len >= 1;')])
    u.raw('''
fn witness() {
    proof { reveal_with_fuel(spec_ilog2, 8); lemma2_to64(); }
    assume(MODULUS() > 1000);     // witness only: a field large enough for the sample parameters
    let s = SumVec::<u8, u8>::new(7, 4, 3);
    assert(spec_ilog2(7) == 2);
    assert(s is Ok);
    let l = L1BoundSum::<u8, u8>::new(7, 4, 4);
    assert(l is Ok);
    assert(l->Ok_0.measurement_len_in_bits == 15);
    assert(l->Ok_0.gadget_calls as int == ceil_div(15, 4));
    let z = SumVec::<u8, u8>::new(0, 4, 3);
    assert(z is Err);
}
''', 'witness')
    return u


def _bits_hint(I, W, m, var='bits', shl=True, usz=False):
    """facts about bits = ilog2(max) + 1 <= W and 1 << (bits-1) == 2^(bits-1) <= max"""
    s = '''
        lemma_ilog2(%(m)s as int);
        lemma_fits%(u)s(%(m)s);
        lemma_ilog2_bound(%(m)s as int, %(W)d);
    ''' % dict(m=m, W=64 if usz else W, u='_usize' if usz else '')
    if shl:
        s += '''
        lemma_one_shl((%(v)s - 1) as usize);
    ''' % dict(I=I, v=var)
    return s
