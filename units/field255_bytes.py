"""C07/C09/C11 — Field255 from bytes under contract (Verus): `Field255::try_from_bytes` extracted whole, and its three callers.

  try_from_bytes(bytes, mask_top_bit) == tfb_spec:  fewer than 32 bytes -> Err(ShortRead); otherwise, with v = the first 32 bytes
        (bit 255 cleared exactly when mask_top_bit), Ok(from_bytes(v)) exactly when the little-endian integer of v is < 2^255 - 19 and
        Err(ModulusOverflow) otherwise.  The constant-time comparison loop is proved against the integer comparison (invariant over
        the bytes already scanned, most significant first), and the constant MODULUS_LITTLE_ENDIAN is proved to be 2^255 - 19 (compute).
  TryFrom<&[u8]>::try_from(bytes) == tfb_spec(bytes, false)   - the path of decode_fieldvec (Poplar1 leaf-level shares): canonical,
        a set top bit or a value >= p is refused, so no element has two accepted encodings
  Decode::decode == read 32 bytes, then tfb_spec(.., false)
  FieldElement::try_from_random(bytes) == tfb_spec(bytes, true) - the masking mode is used for sampling ONLY (rejection sampling of
        255-bit candidates, as the specification prescribes)

Assumed: fiat_25519_from_bytes is a function of the 32 bytes (uninterpreted; fiat-crypto); subtle ct_lt / ct_gt / Choice operators
have their documented semantics; slice copy / read_exact std semantics.  Rewrites: the loop `for (a, b) in value.iter().rev().zip(
MODULUS_LITTLE_ENDIAN.iter().rev())` -> `k_` from 32 down to 0 over both arrays (E4b + zip of two 32-byte arrays);
`map_err(|e| CodecError::Other(Box::new(e) ..))` -> codec_other shim."""
from vunit import VUnit

F = 'src/field/field255.rs'
PRELUDE = '''
use vstd::std_specs::ops::*;
// ---- subtle::Choice: a bit ---------------------------------------------------------------------------------------------
#[derive(Clone, Copy)]
pub struct Choice(pub bool);
impl BitAndSpecImpl<Choice> for Choice {
    open spec fn obeys_bitand_spec() -> bool { true }
    open spec fn bitand_req(self, rhs: Choice) -> bool { true }
    open spec fn bitand_spec(self, rhs: Choice) -> Choice { Choice(self.0 && rhs.0) }
}
impl core::ops::BitAnd for Choice { type Output = Choice; #[verifier::external_body] fn bitand(self, rhs: Choice) -> Choice { unimplemented!() } }
impl NotSpecImpl for Choice {
    open spec fn obeys_not_spec() -> bool { true }
    open spec fn not_req(self) -> bool { true }
    open spec fn not_spec(self) -> Choice { Choice(!self.0) }
}
impl core::ops::Not for Choice { type Output = Choice; #[verifier::external_body] fn not(self) -> Choice { unimplemented!() } }
impl BitOrAssignSpecImpl<Choice> for Choice {
    open spec fn obeys_bitor_assign_spec() -> bool { true }
    open spec fn bitor_assign_req(&self, rhs: Choice) -> bool { true }
    open spec fn bitor_assign_spec(&self, rhs: Choice) -> &Choice { &Choice(self.0 || rhs.0) }
}
impl core::ops::BitOrAssign for Choice { #[verifier::external_body] fn bitor_assign(&mut self, rhs: Choice) { unimplemented!() } }
impl Choice {
    #[verifier::external_body]
    fn from(x: u8) -> (r: Choice) requires x <= 1 ensures r.0 == (x == 1) { unimplemented!() }
}
#[verifier::external_body]
fn bool_from(c: Choice) -> (r: bool) ensures r == c.0 { unimplemented!() }
#[verifier::external_body]
fn ct_lt_u8(a: &u8, b: &u8) -> (r: Choice) ensures r.0 == (*a < *b) { unimplemented!() }
#[verifier::external_body]
fn ct_gt_u8(a: &u8, b: &u8) -> (r: Choice) ensures r.0 == (*a > *b) { unimplemented!() }

pub enum FieldError { ShortRead, ModulusOverflow }
pub enum CodecError { Io, Other(FieldError) }
fn codec_other(e: FieldError) -> (r: CodecError) ensures r == CodecError::Other(e) { CodecError::Other(e) }
// fiat_25519_tight_field_element and fiat_25519_from_bytes (fiat-crypto): a function of the 32 bytes
#[verifier::external_body]
#[derive(Clone, Copy)]
pub struct Tight { _x: u8 }
pub struct Field255(pub Tight);
pub uninterp spec fn from_bytes_spec(v: Seq<u8>) -> Tight;
#[verifier::external_body]
fn tight_zero() -> Tight { unimplemented!() }
#[verifier::external_body]
fn fiat_25519_from_bytes(out: &mut Tight, v: &[u8; 32]) ensures *final(out) == from_bytes_spec(v@) { unimplemented!() }
// value.copy_from_slice(&bytes[..32])   [std semantics; panics on a shorter source]
#[verifier::external_body]
fn copy32(dst: &mut [u8; 32], src: &[u8]) requires src@.len() >= 32 ensures final(dst)@ == src@.subrange(0, 32) { unimplemented!() }
// std::io::Cursor<&[u8]> and read_exact of 32 bytes
#[verifier::external_body]
pub struct Cur { _c: u8 }
impl Cur {
    pub uninterp spec fn data(&self) -> Seq<u8>;
    pub uninterp spec fn pos(&self) -> int;
    pub open spec fn wf(&self) -> bool { 0 <= self.pos() <= self.data().len() }
}
#[verifier::external_body]
fn read_exact32(c: &mut Cur, value: &mut [u8; 32]) -> (r: Result<(), CodecError>)
    requires old(c).wf(),
    ensures final(c).data() == old(c).data(), final(c).wf(),
            old(c).pos() + 32 <= old(c).data().len() ==> r is Ok && final(value)@ == old(c).data().subrange(old(c).pos(), old(c).pos() + 32) && final(c).pos() == old(c).pos() + 32,
            old(c).pos() + 32 > old(c).data().len() ==> r is Err,
{ unimplemented!() }
'''

SPEC = '''
// little-endian integer of bytes i..32
pub open spec fn le_val(s: Seq<u8>, i: int) -> int decreases 32 - i
{ if i >= 32 { 0 } else { s[i] as int + 256 * le_val(s, i + 1) } }
pub open spec fn P255() -> int { pow2(255) as int - 19 }
pub open spec fn p2(n: nat) -> int decreases n { if n == 0 { 1 } else { 2 * p2((n - 1) as nat) } }
proof fn lemma_p2(n: nat) ensures p2(n) == pow2(n) as int decreases n { lemma2_to64(); if n > 0 { lemma_p2((n - 1) as nat); lemma_pow2_unfold(n); } }
// the constant in the source IS 2^255 - 19
proof fn lemma_modulus_value() ensures le_val(MODULUS_LITTLE_ENDIAN@, 0) == P255()
{ assert(le_val(MODULUS_LITTLE_ENDIAN@, 0) == p2(255) - 19) by (compute); lemma_p2(255); }
pub open spec fn masked(v: Seq<u8>, m: bool) -> Seq<u8> { if m { v.update(31, v[31] & 0x7fu8) } else { v } }
// the specified conversion
pub open spec fn tfb_spec(bytes: Seq<u8>, mask: bool) -> Result<Field255, FieldError> {
    if bytes.len() < 32 { Err(FieldError::ShortRead) }
    else if le_val(masked(bytes.subrange(0, 32), mask), 0) < P255() { Ok(Field255(from_bytes_spec(masked(bytes.subrange(0, 32), mask)))) }
    else { Err(FieldError::ModulusOverflow) }
}
// canonicity: without masking, 32 bytes with bit 255 set are never accepted
proof fn lemma_top_bit_refused(bytes: Seq<u8>)
    requires bytes.len() >= 32, bytes[31] >= 0x80
    ensures tfb_spec(bytes, false) == Err::<Field255, FieldError>(FieldError::ModulusOverflow)
{
    let v = bytes.subrange(0, 32);
    lemma_le_val_lower(v, 0);
    lemma_p2(255);
    assert(p2(255) == 128 * w256(31)) by (compute);
    assert(w256(31) > 0) by (compute);
    assert(v[31] as int * w256(31) >= 128 * w256(31)) by (nonlinear_arith) requires v[31] >= 128, w256(31) > 0;
}
// le_val(v, i) >= v[31] * 256^(31 - i)
pub open spec fn w256(n: nat) -> int decreases n { if n == 0 { 1 } else { 256 * w256((n - 1) as nat) } }
proof fn lemma_le_val_lower(v: Seq<u8>, i: int)
    requires 0 <= i <= 31, v.len() == 32
    ensures le_val(v, i) >= v[31] as int * w256((31 - i) as nat), le_val(v, i) >= 0
    decreases 31 - i
{
    if i < 31 {
        lemma_le_val_lower(v, i + 1);
        assert(256 * (v[31] as int * w256((31 - i - 1) as nat)) == v[31] as int * w256((31 - i) as nat)) by (nonlinear_arith)
            requires w256((31 - i) as nat) == 256 * w256((31 - i - 1) as nat);
    } else {
        assert(le_val(v, 32) == 0);
    }
}
'''


def unit():
    u = VUnit('field255_bytes', 'Field255::try_from_bytes == specified conversion (canonical; masking for sampling only) + TryFrom<&[u8]>, Decode, try_from_random')
    u.oracle = {'inject': 'src/field/field255.rs', 'file': 'field255_oracle.rs', 'test': 'verif_oracle_f255::oracle_'}
    u.raw(PRELUDE, 'prelude')
    u.struct_item(F, ['const MODULUS_LITTLE_ENDIAN'])
    u.raw(SPEC, 'spec')
    u.item(F, ['impl Field255', 'fn try_from_bytes'], ret='r', impl_header='impl Field255', nth={0: 0},
           rewrites=[(r'\bSelf::ENCODED_SIZE\b', '32usize', '*'), (r'Result<Self, FieldError>', 'Result<Field255, FieldError>', 1),
                     (r'value\.copy_from_slice\(&bytes\[\.\.32usize\]\);', 'copy32(&mut value, bytes);', 1),
                     (r'for \(value_byte, modulus_byte\) in value\.iter\(\)\.rev\(\)\.zip\(MODULUS_LITTLE_ENDIAN\.iter\(\)\.rev\(\)\)\s*\{',
                      'let mut k_ = 32usize; while k_ > 0 { k_ -= 1; let value_byte = &value[k_]; let modulus_byte = &MODULUS_LITTLE_ENDIAN[k_];', 1),
                     (r'value_byte\.ct_lt\(modulus_byte\)', 'ct_lt_u8(value_byte, modulus_byte)', '*'), (r'value_byte\.ct_gt\(modulus_byte\)', 'ct_gt_u8(value_byte, modulus_byte)', '*'),
                     (r'bool::from\(', 'bool_from(', '*'),
                     (r'fiat_25519_tight_field_element\(\[0; 5\]\)', 'tight_zero()', '*')],
           sig='''
ensures
    r == tfb_spec(bytes@, mask_top_bit),
''', before=[('let mut less_than_modulus', 'lemma_modulus_value(); assert(value@ =~= masked(bytes@.subrange(0, 32), mask_top_bit));')],
           loops={0: '''
invariant
    0 <= k_ <= 32,
    // the bytes scanned so far (most significant first) decide the comparison of the numbers they form
    less_than_modulus.0 == (le_val(value@, k_ as int) < le_val(MODULUS_LITTLE_ENDIAN@, k_ as int)),
    greater_than_modulus.0 == (le_val(value@, k_ as int) > le_val(MODULUS_LITTLE_ENDIAN@, k_ as int)),
decreases k_
'''})
    u.item(F, [r'impl TryFrom<&\[u8\]> for Field255', 'fn try_from'], ret='r', impl_header='impl Field255', name='try_from_slice',
           rewrites=[(r'\bSelf::try_from_bytes\(', 'Field255::try_from_bytes(', 1), (r'Result<Self, FieldError>', 'Result<Field255, FieldError>', '*')],
           sig='''
ensures
    // NO masking on the decoding path: one accepted encoding per element
    r == tfb_spec(bytes@, false),
''')
    u.item(F, ['impl FieldElement for Field255', 'fn try_from_random'], ret='r', impl_header='impl Field255',
           rewrites=[(r'Result<Self, FieldError>', 'Result<Field255, FieldError>', '*')],
           sig='''
ensures
    r == tfb_spec(bytes@, true),
''')
    u.item(F, ['impl Decode for Field255', 'fn decode'], ret='r', impl_header='impl Field255',
           rewrites=[(r'bytes: &mut Cursor<&\[u8\]>', 'bytes: &mut Cur', 1), (r'Result<Self, CodecError>', 'Result<Field255, CodecError>', 1), (r'\bSelf::ENCODED_SIZE\b', '32usize', '*'),
                     (r'bytes\.read_exact\(&mut value\)\?;', 'match read_exact32(bytes, &mut value) { Ok(()) => {}, Err(e_) => { return Err(e_); } }', 1),
                     (r'Field255::try_from_bytes\(&value, false\)\.map_err\(\|e\| \{\s*CodecError::Other\(Box::new\(e\) as Box<dyn std::error::Error \+ \'static \+ Send \+ Sync>\)\s*\}\)',
                      'match Field255::try_from_bytes(&value, false) { Ok(v_) => Ok(v_), Err(e) => Err(codec_other(e)) }', 1)],
           sig='''
requires
    old(bytes).wf(),
ensures
    final(bytes).wf() && final(bytes).data() == old(bytes).data(),
    old(bytes).pos() + 32 > old(bytes).data().len() ==> r is Err,
    old(bytes).pos() + 32 <= old(bytes).data().len() ==> final(bytes).pos() == old(bytes).pos() + 32
        && match tfb_spec(old(bytes).data().subrange(old(bytes).pos(), old(bytes).pos() + 32), false) { Ok(e) => r == Ok::<Field255, CodecError>(e), Err(e) => r == Err::<Field255, CodecError>(CodecError::Other(e)) },
''', before=[('match Field255::try_from_bytes(&value, false)', 'assert(value@.subrange(0, 32) =~= value@);')])
    return u
