"""C18 — what the XOF constructors absorb, under contract (Verus), for ANY number and length of dst / binder parts.

The sponge (`CTurboShake128`) is an abstract `Hasher` with a ghost log `absorbed()`: `Update::update(h, data)` appends `data`
(contract of the foreign `sha3`/`turbo-shake` crate: assumed).  Contracts:

  XofTurboShake128::from_seed_slice(seed, dst_parts): absorbed == le16(total dst length) ++ dst_parts[0] ++ .. ++ dst_parts[n-1]
        ++ [seed length] ++ seed  - EVERY byte of EVERY dst part (the VDAF tag and the whole application context), in order,
        length-prefixed so that (dst, seed) -> absorbed string is injective.
  Xof::seed_stream(seed, dst_parts, binder_parts) (default method, any XOF): absorbed == init(seed, dst_parts) ++ binder_parts[0]
        ++ .. ++ binder_parts[m-1] and the stream is the one finalised from exactly that state.
  XofFixedKeyAes128::init: the fixed key deriver absorbed le16(total dst length) ++ all dst parts; base block == seed.

The panic branches (`dst must not exceed 65535 bytes`, `seed must not exceed 255 bytes`) are proved unreachable under the stated
preconditions; outside them the real code panics as documented."""
from vunit import VUnit

F = 'src/vdaf/xof.rs'

PRELUDE = '''
global size_of usize == 8;
// the sponge: absorbs byte strings in order (contract of Update::update on CTurboShake128)
#[verifier::external_body]
pub struct Hasher { _h: u8 }
impl Hasher { pub uninterp spec fn absorbed(&self) -> Seq<u8>; }
#[verifier::external_body]
fn hasher_default() -> (r: Hasher) ensures r.absorbed() == Seq::<u8>::empty() { unimplemented!() }
#[verifier::external_body]
fn hasher_update(h: &mut Hasher, data: &[u8]) ensures final(h).absorbed() == old(h).absorbed() + data@ { unimplemented!() }
// concatenation / total length of parts[0..n]
pub open spec fn cat(parts: Seq<&[u8]>, n: int) -> Seq<u8> decreases n
{ if n <= 0 { Seq::empty() } else { cat(parts, n - 1) + parts[n - 1]@ } }
pub open spec fn total(parts: Seq<&[u8]>, n: int) -> int decreases n
{ if n <= 0 { 0 } else { total(parts, n - 1) + parts[n - 1]@.len() } }
proof fn lemma_cat_len(parts: Seq<&[u8]>, n: int) requires 0 <= n <= parts.len() ensures cat(parts, n).len() == total(parts, n), total(parts, n) >= 0 decreases n
{ if n > 0 { lemma_cat_len(parts, n - 1); } }
// dst_parts.iter().map(|p| p.len()).sum::<usize>()   [std semantics; overflow excluded by the precondition]
#[verifier::external_body]
fn parts_total_len(parts: &[&[u8]]) -> (r: usize)
    requires total(parts@, parts@.len() as int) <= usize::MAX,
    ensures r == total(parts@, parts@.len() as int),
{ unimplemented!() }
#[verifier::external_body]
fn u16_try_from(x: usize) -> (r: Result<u16, ()>) ensures x <= 65535 ==> r == Ok::<u16, ()>(x as u16), x > 65535 ==> r is Err { unimplemented!() }
#[verifier::external_body]
fn u8_try_from(x: usize) -> (r: Result<u8, ()>) ensures x <= 255 ==> r == Ok::<u8, ()>(x as u8), x > 255 ==> r is Err { unimplemented!() }
pub open spec fn le16(x: int) -> Seq<u8> { seq![(x % 256) as u8, (x / 256) as u8] }
#[verifier::external_body]
fn u16_le(x: u16) -> (r: Vec<u8>) ensures r@ == le16(x as int) { unimplemented!() }       // x.to_le_bytes()
#[verifier::external_body]
fn u8_le(x: u8) -> (r: Vec<u8>) ensures r@ == seq![x] { unimplemented!() }                 // x.to_le_bytes()
// panic!(..): reaching it is an obligation
#[verifier::external_body]
fn vpanic<A>() -> A requires false { unimplemented!() }
pub struct XofTurboShake128(pub Hasher);
// what init absorbs
pub open spec fn init_absorb(seed: Seq<u8>, dst: Seq<&[u8]>) -> Seq<u8> {
    le16(total(dst, dst.len() as int)) + cat(dst, dst.len() as int) + seq![seed.len() as u8] + seed
}
'''

GENERIC = '''
// ---- any XOF (contract of init proved above for TurboSHAKE128; assumed for the others) ----------------------------------
#[verifier::external_body]
pub struct AnyXof { _x: u8 }
#[verifier::external_body]
pub struct AnySeedStream { _s: u8 }
pub uninterp spec fn stream_of(absorbed: Seq<u8>) -> AnySeedStream;
impl AnyXof {
    pub uninterp spec fn absorbed(&self) -> Seq<u8>;
    #[verifier::external_body]
    fn init(seed: &Vec<u8>, dst_parts: &[&[u8]]) -> (r: AnyXof)
        requires total(dst_parts@, dst_parts@.len() as int) <= 65535, seed@.len() <= 255,
        ensures r.absorbed() == init_absorb(seed@, dst_parts@),
    { unimplemented!() }
    #[verifier::external_body]
    fn update(&mut self, data: &[u8]) ensures final(self).absorbed() == old(self).absorbed() + data@ { unimplemented!() }
    #[verifier::external_body]
    fn into_seed_stream(self) -> (r: AnySeedStream) ensures r == stream_of(self.absorbed()) { unimplemented!() }
}
'''

LETELSE = [(r'let Ok\((\w+)\) = (\w+)::try_from\(([^;]*?)\) else \{\s*panic!\([^;]*?\);\s*\};',
            r'let \1 = match \2_try_from(\3) { Ok(v) => v, Err(_) => { vpanic() } };', '*')]          # let-else == match (E4d)


def unit():
    u = VUnit('xof_absorb', 'XOF constructors absorb every dst/binder byte in order, length-prefixed')
    u.oracle = {'inject': 'src/vdaf/xof.rs', 'file': 'xof_oracle.rs', 'test': 'verif_oracle_xof::oracle_dst_binding'}
    u.raw(PRELUDE, 'abstract-sponge')
    u.item(F, ['impl XofTurboShake128', 'fn from_seed_slice'], ret='r', impl_header='impl XofTurboShake128',
           rewrites=LETELSE + [
               (r'Self\(CTurboShake128::<XOF_TURBO_SHAKE_128_DOMAIN_SEPARATION>::default\(\)\)', 'XofTurboShake128(hasher_default())', 1),
               (r'dst_parts\s*\.iter\(\)\s*\.map\(\|dst_part\| dst_part\.len\(\)\)\s*\.sum::<usize>\(\)', 'parts_total_len(dst_parts)', 1),
               (r'for dst_part in dst_parts \{', 'for k_ in 0..dst_parts.len() { let dst_part = dst_parts[k_];', 1),      # E4c
               (r'&dst_len\.to_le_bytes\(\)', 'u16_le(dst_len).as_slice()', 1),
               (r'&seed_len\.to_le_bytes\(\)', 'u8_le(seed_len).as_slice()', 1),
               (r'Update::update\(&mut xof\.0, ', 'hasher_update(&mut xof.0, ', '*'),
               (r'-> Self\b', '-> XofTurboShake128', 1)],
           sig='''
requires
    total(dst_parts@, dst_parts@.len() as int) <= 65535,
    seed_bytes@.len() <= 255,
ensures
    r.0.absorbed() == init_absorb(seed_bytes@, dst_parts@),
''', loops={0: '''
invariant
    xof.0.absorbed() == le16(dst_len as int) + cat(dst_parts@, k_ as int),
'''}, before=[('let dst_len = parts_total_len', 'lemma_cat_len(dst_parts@, dst_parts@.len() as int);'),
              ('hasher_update(&mut xof.0, u8_le', 'assert(dst_len as int == total(dst_parts@, dst_parts@.len() as int));')])
    u.raw(GENERIC, 'any-xof')
    u.item(F, ['pub trait Xof', 'fn seed_stream'], ret='r', impl_header='impl AnyXof',
           rewrites=[(r'seed: &\[u8; SEED_SIZE\]', 'seed: &Vec<u8>', 1), (r'-> Self::SeedStream', '-> AnySeedStream', 1), (r'\bSelf::init\(', 'AnyXof::init(', 1),
                     (r'for binder_part in binder_parts \{', 'for k_ in 0..binder_parts.len() { let binder_part = binder_parts[k_];', 1)],
           sig='''
requires
    total(dst_parts@, dst_parts@.len() as int) <= 65535, seed@.len() <= 255,
ensures
    // every binder part, whole and in order, after what init absorbs
    r == stream_of(init_absorb(seed@, dst_parts@) + cat(binder_parts@, binder_parts@.len() as int)),
''', loops={0: '''
invariant
    xof.absorbed() == init_absorb(seed@, dst_parts@) + cat(binder_parts@, k_ as int),
'''})
    return u
