"""C09 — the field layer: the bodies of the `make_field!` macro (src/field.rs) instantiated with the arguments of the three
real invocations (FieldPrio2/u32/FP32, Field64/u64/FP64, Field128/u128/FP128), under contract against the residue-class
view `x@ = val(x.0) = x.0 * R^-1 mod p` with the representation invariant `wf: x.0 < p`:

    a + b, a - b, a * b, -a, inv, pow, From<int>, Into<int>, PartialEq, zero, one, half, root(l), modulus

`$fp::add/sub/mul/neg/inv/pow/montgomery/residue` are seen through the contracts PROVED in units fp_ops{32,64,128} /
fp_mul128 (same check run).  This discharges, for the three Montgomery fields, the operator contract that the abstract
field `Fe` of the other units assumes (fe_common.py)."""
import os
import re

import fp_ops
from fp_common import WORDS, fp_consts
from vunit import REPO, VUnit

MF = 'src/field.rs'
MAC = ['macro_rules! make_field', '=>']

INST = {32: ('FieldPrio2', 'u32', 'u32', 'FP32'), 64: ('Field64', 'u64', 'u64', 'FP64'), 128: ('Field128', 'u128', 'u128', 'FP128')}

CONTRACTS = '''
// contracts of fp/ops.rs for this instance, PROVED in unit fp_ops%(bits)d (and fp_mul128) from the extracted text
#[verifier::external_body]
fn fp_add(x: %(W)s, y: %(W)s) -> (r: %(W)s) requires x < %(P)s_PRIME, y < %(P)s_PRIME ensures r < %(P)s_PRIME, r as int == (x as int + y as int) %% PP() { unimplemented!() }
#[verifier::external_body]
fn fp_sub(x: %(W)s, y: %(W)s) -> (r: %(W)s) requires x < %(P)s_PRIME, y < %(P)s_PRIME ensures r < %(P)s_PRIME, r as int == (x as int - y as int) %% PP() { unimplemented!() }
#[verifier::external_body]
fn fp_neg(x: %(W)s) -> (r: %(W)s) requires x < %(P)s_PRIME ensures r < %(P)s_PRIME, r as int == (0 - x as int) %% PP() { unimplemented!() }
#[verifier::external_body]
fn fp_mul(x: %(W)s, y: %(W)s) -> (r: %(W)s) requires y < %(P)s_PRIME ensures r < %(P)s_PRIME, val(r as int) == (val(x as int) * val(y as int)) %% PP() { unimplemented!() }
#[verifier::external_body]
fn fp_pow(x: %(W)s, exp: %(W)s) -> (r: %(W)s) requires x < %(P)s_PRIME ensures r < %(P)s_PRIME, val(r as int) == powm(val(x as int), exp as nat) { unimplemented!() }
#[verifier::external_body]
fn fp_inv(x: %(W)s) -> (r: %(W)s) requires x < %(P)s_PRIME ensures r < %(P)s_PRIME, val(r as int) == powm(val(x as int), (PP() - 2) as nat) { unimplemented!() }
#[verifier::external_body]
fn fp_montgomery(x: %(W)s) -> (r: %(W)s) ensures r < %(P)s_PRIME, val(r as int) == (x as int) %% PP() { unimplemented!() }
#[verifier::external_body]
fn fp_residue(x: %(W)s) -> (r: %(W)s) ensures r < %(P)s_PRIME, r as int == val(x as int) { unimplemented!() }
// $int_internal::try_from($int_conversion) / back: the two integer types coincide for all three instantiations [std: identity]
pub struct TryFromIntError;
#[verifier::external_body]
fn int_try_from(x: %(W)s) -> (r: Result<%(W)s, TryFromIntError>) ensures r == Ok::<%(W)s, TryFromIntError>(x) { Ok(x) }
impl core::fmt::Debug for TryFromIntError { #[verifier::external_body] fn fmt(&self, f: &mut core::fmt::Formatter<'_>) -> core::fmt::Result { Ok(()) } }

// pub struct $elem($int_internal)
#[derive(Clone, Copy)]
pub struct %(E)s(pub %(W)s);
impl %(E)s {
    // representation invariant: the Montgomery representative is fully reduced
    pub open spec fn wf(&self) -> bool { self.0 < %(P)s_PRIME }
    // the residue class the element denotes
    pub open spec fn view(&self) -> int { val(self.0 as int) }
}
// val is a ring homomorphism on reduced representatives (consequence of R^-1 being a unit)
proof fn lemma_val_add(a: int, b: int)
    requires 0 <= a < PP(), 0 <= b < PP()
    ensures val((a + b) %% PP()) == (val(a) + val(b)) %% PP(), val((a - b) %% PP()) == (val(a) - val(b)) %% PP(), val((0 - a) %% PP()) == (0 - val(a)) %% PP(),
{
    let p = PP(); let ri = RINV();
    lemma_rinv();
    lemma_mul_mod_noop_left(a + b, ri, p);
    lemma_mul_is_distributive_add_other_way(ri, a, b);
    lemma_add_mod_noop(a * ri, b * ri, p);
    lemma_mul_mod_noop_left(a - b, ri, p);
    lemma_mul_is_distributive_sub_other_way(ri, a, b);
    lemma_sub_mod_noop(a * ri, b * ri, p);
    lemma_mul_mod_noop_left(0 - a, ri, p);
    lemma_mul_is_distributive_sub_other_way(ri, 0, a);
    lemma_sub_mod_noop(0 * ri, a * ri, p);
    assert(0 * ri == 0);
    lemma_small_mod(0, p as nat);
}
'''


def unit(bits):
    E, W, _, FP = INST[bits]
    w = WORDS[bits]
    P = w['pfx'].upper()
    c = fp_consts(bits)
    u = VUnit('field_layer%d' % bits, 'make_field! bodies of %s against the residue-class view' % E)
    pre, _ = fp_ops.prelude(bits)
    fmt = dict(P=P, W=W, W2=w['W2'], p=w['pfx'], E=E, bits=bits)
    u.raw(pre, 'fp-prelude')
    u.raw(fp_ops.VAL_LEMMAS.format(**fmt), 'val-lemmas')
    u.raw(CONTRACTS % fmt, 'contracts')
    # constants: HALF * 2 == 1, ROOTS[l]^2 == ROOTS[l-1] (so ROOTS[l] has order exactly 2^l: ROOTS[0] = 1, ROOTS[1] = -1)
    roots = c['ROOTS']
    nr = min(len(roots), c['NUM_ROOTS'] + 1)
    u.raw('pub const %s_NROOTS: usize = %d;      // min(ROOTS.len(), NUM_ROOTS + 1), parsed from src/fp.rs\n' % (P, nr) +
          'pub open spec fn spec_root(l: int) -> int {\n' + ''.join('    if l == %d { %d } else\n' % (i, roots[i]) for i in range(nr)) + '    { 0 }\n}\n' +
          'fn roots_table(l: usize) -> (r: %s) requires l < %s_NROOTS ensures r as int == spec_root(l as int), r < %s_PRIME {\n' % (W, P, P) +
          ''.join('    if l == %d { return %d; }\n' % (i, roots[i]) for i in range(nr)) + '    0\n}\n' +
          'proof fn lemma_roots()\n    ensures val(spec_root(0)) == 1, val(spec_root(1)) == PP() - 1, val(%s_HALF as int) * 2 %% PP() == 1, %s_HALF < %s_PRIME, %s_G < %s_PRIME,\n' % (P, P, P, P, P) +
          ''.join('            (val(spec_root(%d)) * val(spec_root(%d))) %% PP() == val(spec_root(%d)),\n' % (i, i, i - 1) for i in range(1, nr)) +
          '{\n    assert(val(spec_root(0)) == 1 && val(spec_root(1)) == PP() - 1 && val(%s_HALF as int) * 2 %% PP() == 1 && %s_HALF < %s_PRIME && %s_G < %s_PRIME) by (compute);\n' % (P, P, P, P, P) +
          ''.join('    assert((val(spec_root(%d)) * val(spec_root(%d))) %% PP() == val(spec_root(%d))) by (compute);\n' % (i, i, i - 1) for i in range(1, nr)) + '}\n', 'roots')
    # BIT_MASK (rejection sampling, C11): 2^b - 1 with b the bit length of the modulus, so every residue passes the mask
    # and a masked sample is < 2p
    b = c['PRIME'].bit_length()
    u.raw('proof fn lemma_bit_mask()\n    ensures %s_BIT_MASK as int == %d, // == 2^%d - 1, %d == bit length of the modulus\n            (%s_PRIME as int) <= %d, %d < 2 * (%s_PRIME as int),\n{\n    assert(%s_BIT_MASK as int == %d && (%s_PRIME as int) <= %d && %d < 2 * (%s_PRIME as int)) by (compute);\n}\n'
          % (P, (1 << b) - 1, b, b, P, (1 << b) - 1, (1 << b) - 1, P, P, (1 << b) - 1, P, (1 << b) - 1, (1 << b) - 1, P), 'bit-mask')
    # the generator: G has order 2^NUM_ROOTS and ROOTS[MAX] is G squared (NUM_ROOTS - MAX) times
    k = c['NUM_ROOTS'] - (nr - 1)
    u.raw('pub open spec fn sq_iter(g: int, k: nat) -> int decreases k { if k == 0 { g } else { let h = sq_iter(g, (k - 1) as nat); (h * h) %% PP() } }\n'
          'proof fn lemma_generator()\n    ensures sq_iter(val(%s_G as int), %d) == val(spec_root(%d)),   // G^(2^(NUM_ROOTS - %d)) == ROOTS[%d]\n{\n    assert(sq_iter(val(%s_G as int), %d) == val(spec_root(%d))) by (compute);\n}\n'
          % (P, k, nr - 1, nr - 1, nr - 1, P, k, nr - 1), 'generator')
    common = [(r'\$elem\b', E, '*'), (r'\$fp::add\(', 'fp_add(', '*'), (r'\$fp::sub\(', 'fp_sub(', '*'), (r'\$fp::mul\(', 'fp_mul(', '*'),
              (r'\$fp::neg\(', 'fp_neg(', '*'), (r'\$fp::inv\(', 'fp_inv(', '*'), (r'\$fp::pow\(', 'fp_pow(', '*'),
              (r'\$fp::montgomery\(', 'fp_montgomery(', '*'), (r'\$fp::residue\(', 'fp_residue(', '*'),
              (r'\$int_internal::try_from\(', 'int_try_from(', '*'), (r'\$int_conversion::try_from\(', 'int_try_from(', '*'),
              (r'\$int_internal\b', W, '*'), (r'\$int_conversion\b', W, '*'), (r'\$fp::PRIME\b', P + '_PRIME', '*'),
              (r'\$fp::HALF\b', P + '_HALF', '*'), (r'\$fp::G\b', P + '_G', '*'),
              (r'\bSelf::Integer\b', W, '*'), (r'\bSelf\(', E + '(', '*'), (r'-> Self\b', '-> ' + E, '*'), (r'rhs: Self\b', 'rhs: ' + E, '*')]
    IH = 'impl ' + E

    def it(path, name, sig, before=(), extra=()):
        u.item(MF, MAC + path, name=name, ret='r', impl_header=IH, rewrites=common + list(extra), sig=sig, before=list(before))

    bin_sig = '''
requires
    self.wf(),
    rhs.wf(),
ensures
    r.wf(),
    r@ == (self@ %s rhs@) %% PP(),
'''
    it(['impl Add for $elem', 'fn add'], 'add', bin_sig % '+', before=[(E + '(fp_add(', 'lemma_val_add(self.0 as int, rhs.0 as int);')])
    it(['impl Sub for $elem', 'fn sub'], 'sub', bin_sig % '-', before=[(E + '(fp_sub(', 'lemma_val_add(self.0 as int, rhs.0 as int);')])
    it(['impl Mul for $elem', 'fn mul'], 'mul', bin_sig % '*')
    it(['impl Neg for $elem', 'fn neg'], 'neg', '''
requires
    self.wf(),
ensures
    r.wf(),
    r@ == (0 - self@) % PP(),
''', before=[(E + '(fp_neg(', 'lemma_val_add(self.0 as int, 0);')])
    it(['impl FieldElement for $elem', 'fn inv'], 'inv', '''
requires
    self.wf(),
ensures
    r.wf(),
    // Fermat inverse; 0 maps to 0.  (That x * x^(p-2) == 1 for x != 0 needs p prime: assumed, DESIGN 3.9)
    r@ == powm(self@, (PP() - 2) as nat),
''')
    it(['impl FieldElementWithInteger for $elem', 'fn pow'], 'pow', '''
requires
    self.wf(),
ensures
    r.wf(),
    r@ == powm(self@, exp as nat),
''')
    it(['impl From<$int_conversion> for $elem', 'fn from'], 'from_int', '''
ensures
    r.wf(),
    r@ == (x as int) % PP(),
''', extra=[(r'fn from\(x: ' + W + r'\) -> ' + E, 'fn from_int(x: ' + W + ') -> ' + E, '*')])
    it(['impl From<$elem> for $int_conversion', 'fn from'], 'into_int', '''
requires
    x.wf(),
ensures
    (r as int) == x@,
    (r as int) < PP(),
''', extra=[(r'-> ' + E, '-> ' + W, '*')])
    it(['impl PartialEq for $elem', 'fn eq'], 'eq', '''
requires
    self.wf(),
    rhs.wf(),
ensures
    // equality of representatives == equality of residue classes (the Montgomery map is injective on [0, p))
    r == (self@ == rhs@),
''', before=[('self.0 == rhs.0', 'lemma_val_inj(self.0 as int); lemma_val_inj(rhs.0 as int);')],
       extra=[(r'debug_assert!\([^;]*\);', '', 2), (r'rhs: &Self\b', 'rhs: &' + E, 1)])
    it(['impl FieldElement for $elem', 'fn zero'], 'zero', 'ensures\n r.wf(),\n r@ == 0,', before=[(E + '(0)', 'lemma_rinv(); lemma_small_mod(0, PP() as nat);')])
    it(['impl FieldElement for $elem', 'fn one'], 'one', 'ensures\n r.wf(),\n r@ == 1,', extra=[(r'\$fp::ROOTS\[0\]', P + '_ROOT0', 1)],
       before=[(E + '(' + P + '_ROOT0)', 'lemma_consts_val();')])
    it(['impl FieldElement for $elem', 'fn half'], 'half', 'ensures\n r.wf(),\n (r@ * 2) % PP() == 1,', before=[(E + '(' + P + '_HALF)', 'lemma_roots();')])
    it(['impl FieldElementWithInteger for $elem', 'fn modulus'], 'modulus', 'ensures\n r as int == PP(),')
    it(['impl NttFriendlyFieldElement for $elem', 'fn root'], 'root', '''
ensures
    // Some exactly for l <= MAX_ROOTS; root(0) == 1, root(1) == -1, root(l)^2 == root(l-1): order exactly 2^l
    r is Some <==> l < %(P)s_NROOTS,
    r is Some ==> r->Some_0.wf() && r->Some_0@ == val(spec_root(l as int)),
''' % fmt, extra=[(r'min\(\$fp::ROOTS\.len\(\), \$fp::NUM_ROOTS\+1\)', P + '_NROOTS', 1), (r'\$fp::ROOTS\[l\]', 'roots_table(l)', 1)])
    return u
