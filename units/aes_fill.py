"""C11 — SeedStreamFixedKeyAes128::fill (src/vdaf/xof.rs) under contract (Verus) for ANY read length, ANY stream position and ANY sequence of
reads (the Kani harnesses aes_fill_* check read lengths {0, 1, 9, 16, 17, 33} at in-block offsets {0, 1, 7, 8, 15} on the compiled code).

The stream is  byte j == block(j / 16)[j % 16]  where block(c) is the 16-byte block the source computes for counter c (clone of the base block,
xor of the little-endian counter, hash_block under the fixed key): those three statements are abstracted as ONE function of the counter
(`keyed_block`; hash_block only copies the cipher output - Kani unit).  Contract of fill(buf):

    buf[i] == stream byte (length_consumed + i) for EVERY i < buf.len(); nothing else of the stream state changes; length_consumed advances by
    exactly buf.len()

so the bytes delivered depend only on the stream position, not on how the stream was read before: fill(a); fill(b) == fill(a ++ b) for any
split (chunking independence), including reads that start or end inside a block.  Precondition: the stream position stays below 2^64.

Rewrites: the loop bounds are named (`let start_ = ..; let end_ = ..; for block_counter in start_..end_`); `buf[i..i+n].copy_from_slice(&block[o..o+n])`
-> copy_range shim; `std::cmp::min` -> umin; `u64::try_from(usize).unwrap()` / `usize::try_from(x % 16).unwrap()` -> conversions (64-bit target);
the three block-computing statements -> keyed_block (see above)."""
from vunit import VUnit

F = 'src/vdaf/xof.rs'
PRELUDE = '''
global size_of usize == 8;
#[verifier::external_body]
pub struct Aes128 { _c: u8 }
pub struct SeedStreamFixedKeyAes128 { pub cipher: Aes128, pub base_block: [u8; 16], pub length_consumed: u64 }
// block number `counter` of the stream
pub uninterp spec fn stream_block(cipher: Aes128, base: Seq<u8>, counter: int) -> Seq<u8>;
#[verifier::external_body]
pub broadcast proof fn axiom_block_len(cipher: Aes128, base: Seq<u8>, counter: int) ensures #[trigger] stream_block(cipher, base, counter).len() == 16 {}
pub open spec fn stream_byte(cipher: Aes128, base: Seq<u8>, j: int) -> u8 { stream_block(cipher, base, j / 16)[j % 16] }
impl SeedStreamFixedKeyAes128 {
    // block.clone_from(&self.base_block); xor of block_counter.to_le_bytes(); self.hash_block(&mut block)
    #[verifier::external_body]
    fn keyed_block(&self, block_counter: u64, block: &mut [u8; 16]) ensures final(block)@ == stream_block(self.cipher, self.base_block@, block_counter as int) { unimplemented!() }
}
#[verifier::external_body]
fn u64_from_usize(x: usize) -> (r: u64) ensures r == x { unimplemented!() }          // u64::try_from(x).unwrap() on a 64-bit target
#[verifier::external_body]
fn usize_from_u64(x: u64) -> (r: usize) ensures r == x { unimplemented!() }          // usize::try_from(x).unwrap() on a 64-bit target
pub assume_specification [u64::div_ceil] (x: u64, y: u64) -> (r: u64)
    requires y > 0,
    ensures r as int == (x as int + y as int - 1) / (y as int);
pub assume_specification [usize::div_ceil] (x: usize, y: usize) -> (r: usize)
    requires y > 0,
    ensures r as int == (x as int + y as int - 1) / (y as int);
// buf[index..index + read].copy_from_slice(&block[offset..offset + read])   [std semantics; out-of-range panics are obligations]
#[verifier::external_body]
fn copy_range(buf: &mut Vec<u8>, index: usize, block: &[u8; 16], offset: usize, read: usize)
    requires index + read <= old(buf)@.len(), offset + read <= 16,
    ensures final(buf)@.len() == old(buf)@.len(),
            forall|t: int| 0 <= t < read ==> #[trigger] final(buf)@[index + t] == block@[offset + t],
            forall|i: int| 0 <= i < old(buf)@.len() && !(index <= i < index + read) ==> #[trigger] final(buf)@[i] == old(buf)@[i],
{ unimplemented!() }
fn umin(a: usize, b: usize) -> (r: usize) ensures r == (if a <= b { a } else { b }) { if a <= b { a } else { b } }
'''


def _canon_read(text):
    """the local bound to std::cmp::min(16 - offset, buf.len() - index) is called `read` in the contract: rename it if the source calls it otherwise"""
    import re
    mm = re.search(r'let (\w+) = std::cmp::min\(16 - offset, buf\.len\(\) - index\);', text)
    if not mm or mm.group(1) == 'read':
        return text, 0
    return re.sub(r'\b%s\b' % re.escape(mm.group(1)), 'read', text), 1


def unit():
    u = VUnit('aes_fill', 'SeedStreamFixedKeyAes128::fill: byte i of any read is stream byte (position + i); chunking independent')
    u.oracle = {'inject': 'src/vdaf/xof.rs', 'file': 'aes_fill_oracle.rs', 'test': 'verif_oracle_aes_fill::oracle_'}
    u.raw(PRELUDE, 'abstract-cipher')
    u.item(F, ['impl SeedStreamFixedKeyAes128', 'fn fill'], impl_header='impl SeedStreamFixedKeyAes128', nth={0: 0},
           rewrites=[(_canon_read, 'E3: local renamed to the name used in the contract', '*'), (r'buf: &mut \[u8\]', 'buf: &mut Vec<u8>', 1),
                     (r'u64::try_from\(buf\.len\(\)\)\.unwrap\(\)', 'u64_from_usize(buf.len())', '*'), (r'usize::try_from\(self\.length_consumed % 16\)\.unwrap\(\)', 'usize_from_u64(self.length_consumed % 16)', '*'),
                     (r'let mut block = Block::from\(\[0; 16\]\);', 'let mut block = [0u8; 16];', 1),
                     (r'for block_counter in ([^{]*?)\.\.([^{]*?) \{', r'let start_ = \1; let end_ = \2; for block_counter in start_..end_ {', 1),
                     (r'block\.clone_from\(&self\.base_block\);\s*for \(b, i\) in block\.iter_mut\(\)\.zip\(block_counter\.to_le_bytes\(\)\.iter\(\)\) \{\s*\*b \^= i;\s*\}\s*self\.hash_block\(&mut block\);',
                      'self.keyed_block(block_counter, &mut block);', 1),
                     (r'std::cmp::min\(', 'umin(', '*'),
                     (r'buf\[index\.\.index \+ read\]\.copy_from_slice\(&block\[offset\.\.offset \+ read\]\);', 'copy_range(buf, index, &block, offset, read);', 1)],
           sig='''
requires
    old(self).length_consumed as int + old(buf)@.len() <= u64::MAX,
ensures
    final(buf)@.len() == old(buf)@.len(),
    // EVERY byte of the read, wherever the read starts and ends inside a block
    forall|i: int| 0 <= i < old(buf)@.len() ==> #[trigger] final(buf)@[i] == stream_byte(old(self).cipher, old(self).base_block@, old(self).length_consumed as int + i),
    final(self).length_consumed as int == old(self).length_consumed as int + old(buf)@.len(),
    final(self).cipher == old(self).cipher, final(self).base_block == old(self).base_block,
''',
           ghost_before=[('let start_ =', 'let ghost lc = self.length_consumed as int;\nlet ghost len = buf@.len() as int;\nlet ghost a = lc / 16;'),
                         ('copy_range(buf, index', 'let ghost buf0 = buf@;\nlet ghost idx0 = index as int;')],
           before=[('let start_ =', 'lemma_fundamental_div_mod(self.length_consumed as int, 16); lemma_fundamental_div_mod(self.length_consumed as int + buf@.len() as int + 15, 16);'),
                   ('let read = umin(', 'broadcast use axiom_block_len; lemma_fundamental_div_mod(lc + len + 15, 16); lemma_fundamental_div_mod(lc, 16);'),
                   ('self.length_consumed = next_length_consumed', 'lemma_fundamental_div_mod(lc + len + 15, 16);')],
           after=[('copy_range(buf, index, &block, offset, read);', '''
    let c = block_counter as int;
    assert forall|i: int| 0 <= i < idx0 + read implies #[trigger] buf@[i] == stream_byte(self.cipher, self.base_block@, lc + i) by {
        if i >= idx0 {
            let t = i - idx0;
            let j = lc + i;
            if c == a { lemma_fundamental_div_mod_converse(j, 16, c, lc % 16 + t); }
            else { lemma_fundamental_div_mod_converse(j, 16, c, t); }
            assert(buf@[idx0 + t] == block@[offset as int + t]);
        } else { assert(buf@[i] == buf0[i]); }
    }
''')],
           loops={0: '''
invariant
    self.length_consumed as int == lc, buf@.len() == len, next_length_consumed as int == lc + len, a == lc / 16,
    *self == *old(self),
    start_ as int == lc / 16, end_ as int == (lc + len + 15) / 16,
    block_counter as int == a ==> offset as int == lc % 16 && index == 0,
    block_counter as int > a ==> offset == 0 && index as int == (if 16 * block_counter as int - lc <= len { 16 * block_counter as int - lc } else { len }),
    0 <= index <= len,
    forall|i: int| 0 <= i < index ==> #[trigger] buf@[i] == stream_byte(self.cipher, self.base_block@, lc + i),
'''})
    return u
