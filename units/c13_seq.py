"""C13 — from the pointwise contract of merge/accumulate (proved per element by the Kani units and,
for the element operation, by fp_ops*) to commutativity / associativity / identity for vectors of ANY
length: a Verus lemma over sequences of residues (the abstract view of Vec<F>)."""
from vunit import VUnit


def unit():
    u = VUnit('c13_seq', 'vector-level aggregation laws from the pointwise merge contract')
    u.raw('''
pub open spec fn fadd(a: int, b: int, p: int) -> int { (a + b) % p }
pub open spec fn wf(s: Seq<int>, p: int) -> bool { forall|i: int| 0 <= i < s.len() ==> 0 <= #[trigger] s[i] < p }
// abstract effect of merge_vector / AggregateShare::merge / accumulate on equal lengths (the Kani-proved postcondition)
pub open spec fn vmerge(a: Seq<int>, b: Seq<int>, p: int) -> Seq<int> recommends a.len() == b.len() {
    Seq::new(a.len(), |i: int| fadd(a[i], b[i], p))
}
pub open spec fn vzero(n: nat) -> Seq<int> { Seq::new(n, |i: int| 0int) }

proof fn lemma_fadd_comm(a: int, b: int, p: int) ensures fadd(a, b, p) == fadd(b, a, p) {}
proof fn lemma_fadd_assoc(a: int, b: int, c: int, p: int)
    requires p > 0
    ensures fadd(fadd(a, b, p), c, p) == fadd(a, fadd(b, c, p), p)
{
    lemma_add_mod_noop_right(c, a + b, p);
    lemma_add_mod_noop_right(a, b + c, p);
    assert(c + (a + b) == a + (b + c));
    assert((a + b) % p + c == c + (a + b) % p);
}
proof fn lemma_fadd_zero(a: int, p: int) requires 0 <= a < p ensures fadd(a, 0, p) == a, fadd(0, a, p) == a {
    lemma_small_mod(a as nat, p as nat);
}

proof fn lemma_vmerge_comm(a: Seq<int>, b: Seq<int>, p: int)
    requires a.len() == b.len()
    ensures vmerge(a, b, p) =~= vmerge(b, a, p)
{}
proof fn lemma_vmerge_assoc(a: Seq<int>, b: Seq<int>, c: Seq<int>, p: int)
    requires a.len() == b.len(), b.len() == c.len(), p > 0
    ensures vmerge(vmerge(a, b, p), c, p) =~= vmerge(a, vmerge(b, c, p), p)
{
    assert forall|i: int| 0 <= i < a.len() implies #[trigger] vmerge(vmerge(a, b, p), c, p)[i] == vmerge(a, vmerge(b, c, p), p)[i] by {
        lemma_fadd_assoc(a[i], b[i], c[i], p);
    }
}
proof fn lemma_vmerge_identity(a: Seq<int>, p: int)
    requires wf(a, p), p > 0
    ensures vmerge(a, vzero(a.len()), p) =~= a, vmerge(vzero(a.len()), a, p) =~= a
{
    assert forall|i: int| 0 <= i < a.len() implies #[trigger] vmerge(a, vzero(a.len()), p)[i] == a[i] by { lemma_fadd_zero(a[i], p); }
    assert forall|i: int| 0 <= i < a.len() implies #[trigger] vmerge(vzero(a.len()), a, p)[i] == a[i] by { lemma_fadd_zero(a[i], p); }
}
// folding a batch in any split: aggregate(xs ++ ys) == merge(aggregate(xs), aggregate(ys))
pub open spec fn vfold(xs: Seq<Seq<int>>, n: nat, p: int) -> Seq<int> decreases xs.len() {
    if xs.len() == 0 { vzero(n) } else { vmerge(vfold(xs.drop_last(), n, p), xs.last(), p) }
}
pub open spec fn all_len(xs: Seq<Seq<int>>, n: nat, p: int) -> bool { forall|k: int| 0 <= k < xs.len() ==> (#[trigger] xs[k]).len() == n && wf(xs[k], p) }
proof fn lemma_vfold_len(xs: Seq<Seq<int>>, n: nat, p: int)
    requires all_len(xs, n, p), p > 0
    ensures vfold(xs, n, p).len() == n, wf(vfold(xs, n, p), p)
    decreases xs.len()
{
    if xs.len() > 0 {
        lemma_vfold_len(xs.drop_last(), n, p);
        assert forall|i: int| 0 <= i < n implies 0 <= #[trigger] vfold(xs, n, p)[i] < p by {
            lemma_mod_bound(vfold(xs.drop_last(), n, p)[i] + xs.last()[i], p);
        }
    }
}
proof fn lemma_vfold_split(xs: Seq<Seq<int>>, ys: Seq<Seq<int>>, n: nat, p: int)
    requires all_len(xs, n, p), all_len(ys, n, p), p > 0
    ensures vfold(xs + ys, n, p) =~= vmerge(vfold(xs, n, p), vfold(ys, n, p), p)
    decreases ys.len()
{
    lemma_vfold_len(xs, n, p);
    lemma_vfold_len(ys, n, p);
    if ys.len() == 0 {
        assert(xs + ys =~= xs);
        lemma_vmerge_identity(vfold(xs, n, p), p);
    } else {
        let ys0 = ys.drop_last();
        assert((xs + ys).drop_last() =~= xs + ys0);
        assert((xs + ys).last() == ys.last());
        lemma_vfold_split(xs, ys0, n, p);
        lemma_vfold_len(ys0, n, p);
        lemma_vmerge_assoc(vfold(xs, n, p), vfold(ys0, n, p), ys.last(), p);
    }
}
''', 'seq-laws')
    return u
