"""C07 — the length-prefixed vector encoders of codec.rs (encode_u8_items / encode_u16_items / encode_u32_items) under
contract for ANY item type and ANY number of items (Verus): existing bytes are untouched, the prefix is the big-endian
number of BYTES the items produced (not the number of items), followed by exactly the items' encodings in order; a
total that does not fit the prefix is Err(LengthPrefixOverflow), never a truncated prefix.

The item encoder `E::encode_with_param` is the abstract boundary: it appends enc(item) (any byte string) or fails.
Rewrites beyond the listed ones: `for item in items { .. }` -> index loop (E4c''); `X.map_err(|_| E)?` -> match (E4d);
`0u16.encode(bytes)?` / `bytes[a..b].copy_from_slice(&len.to_be_bytes())` are seen through the contracts of the integer
codecs (decided by the Kani unit ints_roundtrip) as external shims."""
from vunit import VUnit

C = 'src/codec.rs'
PRELUDE = '''
global size_of usize == 8;
pub enum CodecError { LengthPrefixOverflow, Other }
// abstract item type and its encoder (contract of ParameterizedEncode::encode_with_param: append-only)
#[verifier::external_body]
pub struct Item { _x: u8 }
pub uninterp spec fn enc(it: Item) -> Seq<u8>;
pub uninterp spec fn enc_ok(it: Item) -> bool;
#[verifier::external_body]
fn item_encode(item: &Item, bytes: &mut Vec<u8>) -> (r: Result<(), CodecError>)
    ensures enc_ok(*item) ==> r is Ok && final(bytes)@ == old(bytes)@ + enc(*item),
            !enc_ok(*item) ==> r is Err && final(bytes)@.len() >= old(bytes)@.len() && final(bytes)@.take(old(bytes)@.len() as int) == old(bytes)@,
{ unimplemented!() }
// concatenation of the encodings of items[0..n]
pub open spec fn enc_all(items: Seq<Item>, n: int) -> Seq<u8> decreases n
{ if n <= 0 { Seq::empty() } else { enc_all(items, n - 1) + enc(items[n - 1]) } }
pub open spec fn all_ok(items: Seq<Item>, n: int) -> bool { forall|k: int| 0 <= k < n ==> enc_ok(#[trigger] items[k]) }
// big-endian bytes of a length
pub open spec fn be(v: int, w: int) -> Seq<u8> decreases w
{ if w <= 0 { Seq::empty() } else { be(v / 256, w - 1).push((v % 256) as u8) } }
// integer codec shims (contracts of u16/u32::encode and of the prefix patch, Kani unit ints_roundtrip)
#[verifier::external_body]
fn push_zero_prefix(bytes: &mut Vec<u8>, w: usize) -> (r: Result<(), CodecError>)
    ensures r is Ok, final(bytes)@.len() == old(bytes)@.len() + w, final(bytes)@.take(old(bytes)@.len() as int) == old(bytes)@,
{ unimplemented!() }
#[verifier::external_body]
fn patch_prefix(bytes: &mut Vec<u8>, off: usize, w: usize, len: usize)
    requires off + w <= old(bytes)@.len(),
    ensures final(bytes)@.len() == old(bytes)@.len(),
            forall|i: int| 0 <= i < old(bytes)@.len() && !(off <= i < off + w) ==> #[trigger] final(bytes)@[i] == old(bytes)@[i],
            final(bytes)@.subrange(off as int, off + w) == be(len as int, w as int),
{ unimplemented!() }
#[verifier::external_body]
fn u8_try_from(x: usize) -> (r: Result<u8, ()>) ensures x <= 255 ==> r == Ok::<u8, ()>(x as u8), x > 255 ==> r is Err { unimplemented!() }
#[verifier::external_body]
fn u16_try_from(x: usize) -> (r: Result<u16, ()>) ensures x <= 65535 ==> r == Ok::<u16, ()>(x as u16), x > 65535 ==> r is Err { unimplemented!() }
#[verifier::external_body]
fn u32_try_from(x: usize) -> (r: Result<u32, ()>) ensures x <= 0xffff_ffff ==> r == Ok::<u32, ()>(x as u32), x > 0xffff_ffff ==> r is Err { unimplemented!() }
// the contract of the three encoders
pub open spec fn items_post(old_b: Seq<u8>, new_b: Seq<u8>, items: Seq<Item>, w: int, max: int, r: Result<(), CodecError>) -> bool {
    let n = items.len() as int;
    let total = enc_all(items, n).len() as int;
    &&& new_b.len() >= old_b.len() && new_b.take(old_b.len() as int) == old_b                       // existing bytes untouched
    &&& (all_ok(items, n) && total <= max) ==> r is Ok && new_b == old_b + be(total, w) + enc_all(items, n)     // prefix == number of BYTES
    &&& (all_ok(items, n) && total > max) ==> r == Err::<(), CodecError>(CodecError::LengthPrefixOverflow)
    &&& !all_ok(items, n) ==> r is Err
}
proof fn lemma_enc_all_len(items: Seq<Item>, n: int)
    requires 0 <= n <= items.len()
    ensures enc_all(items, n).len() >= 0
    decreases n
{ if n > 0 { lemma_enc_all_len(items, n - 1); } }
'''


def unit():
    u = VUnit('codec_items', 'encode_u8/u16/u32_items for any item type and count')
    u.raw(PRELUDE, 'prelude')
    for (name, w, maxv, push, tf, patch) in (
            ('encode_u8_items', 1, 255, r'bytes\.push\(0\);', 'u8', r'bytes\[len_offset\] = len;'),
            ('encode_u16_items', 2, 65535, r'0u16\.encode\(bytes\)\?;', 'u16', r'bytes\[len_offset\.\.len_offset \+ 2\]\.copy_from_slice\(&len\.to_be_bytes\(\)\);'),
            ('encode_u32_items', 4, 0xffffffff, r'0u32\.encode\(bytes\)\?;', 'u32', r'bytes\[len_offset\.\.len_offset \+ 4\]\.copy_from_slice\(&len\.to_be_bytes\(\)\);')):
        u.item(C, ['fn ' + name], ret='r',
               rewrites=[(r'<P, E: ParameterizedEncode<P>>', '', 1), (r'encoding_parameter: &P,', '', 1), (r'items: &\[E\]', 'items: &Vec<Item>', 1),
                         (push, 'match push_zero_prefix(bytes, %d) { Ok(()) => {}, Err(e) => { return Err(e); } }' % w, 1),
                         (r'for item in items \{', 'for k_ in 0..items.len() { let item = &items[k_];', 1),
                         (r'item\.encode_with_param\(encoding_parameter, bytes\)\?;', 'match item_encode(item, bytes) { Ok(()) => {}, Err(e) => { return Err(e); } };', 1),
                         (r'let len =\s*%s::try_from\(bytes\.len\(\) - len_offset - %d\)\s*\.map_err\(\|_\| CodecError::LengthPrefixOverflow\)\?;' % (tf, w),
                          'let len = match %s_try_from(bytes.len() - len_offset - %d) { Ok(v) => v, Err(_) => { return Err(CodecError::LengthPrefixOverflow); } };' % (tf, w), 1),
                         (patch, 'patch_prefix(bytes, len_offset, %d, len as usize);' % w, 1)],
               sig='''
ensures
    items_post(old(bytes)@, final(bytes)@, items@, %d, %d, r),
''' % (w, maxv),
               ghost_before=[('let len_offset', 'let ghost b0 = bytes@;'), ('match item_encode(item, bytes)', 'let ghost bb = bytes@;')],
               loops={0: '''
invariant
    b0 == old(bytes)@,
    len_offset == b0.len(),
    bytes@.len() >= b0.len() + %d,
    bytes@.take(b0.len() as int) == b0,
    all_ok(items@, k_ as int),
    bytes@.subrange(len_offset + %d, bytes@.len() as int) == enc_all(items@, k_ as int),
''' % (w, w)},
               before=[('return Err(e);', '''
    // this item failed to encode: not all items are encodable; what was there before is still a prefix
    assert(!enc_ok(items@[k_ as int]));
    assert(!all_ok(items@, items@.len() as int));
    assert(bytes@.take(b0.len() as int) =~= bb.take(b0.len() as int));
''', 1), ('for k_ in 0..', '''
    assert(bytes@.subrange(len_offset + %d, bytes@.len() as int) =~= enc_all(items@, 0));
''' % w), ('let len = match', '''
    assert(items@.len() == k_);
''' if False else '''
    let tot = enc_all(items@, items@.len() as int);
'''), ('Ok(())', '''
    let n = items@.len() as int;
    assert(bytes@ =~= b0 + be(enc_all(items@, n).len() as int, %d) + enc_all(items@, n));
    assert(all_ok(items@, n));
    assert(enc_all(items@, n).len() <= %d);
    assert(bytes@.take(b0.len() as int) =~= b0);
''' % (w, maxv), -1)],
               after=[('match item_encode(item, bytes)', '''
    assert(bytes@.subrange(len_offset + %d, bytes@.len() as int) =~= enc_all(items@, k_ + 1));
''' % w)])
    return u


def _unused():
    pass
    return u
