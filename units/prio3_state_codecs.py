"""C07/C08 — the remaining Prio3 message codecs under contract for EVERY FLP type instance (Verus; prelude and cursor of unit prio3_codec):

  Share<F>::{encode, encoded_len, decode_with_param}  (src/vdaf.rs): Leader(v) is the element encodings in order, Helper(s) the seed;
        decode(Leader(n)) reads exactly n elements (n comes from the instance), decode(Helper) a seed; exact consumption, Err when short
  Prio3VerifierMessage::{encode, encoded_len, decode_with_param}: the joint randomness seed, present exactly when the verify state holds one
  Prio3VerifyState::{encode, encoded_len}: share ++ [joint randomness seed]; encoded_len() == the number of bytes appended
  Prio3PublicShare::{encode, encoded_len}: the joint randomness parts in order; encoded_len() == SEED_SIZE * number of parts == bytes appended"""
import inspect, re
from vunit import VUnit
import prio3_codec

F = 'src/vdaf/prio3.rs'
V = 'src/vdaf.rs'
_src = inspect.getsource(prio3_codec.unit)
DECODE_SHIMS = re.search(r'u\.raw\("""(.*?)""", \'decode-shims\'\)', _src, re.S).group(1)

PRELUDE = '''
#[verifier::external_body]
proof fn axiom_sizes() ensures 0 < ES() <= 64, 0 < SS() <= 64 {}
#[verifier::external_body]
fn seed_size() -> (r: usize) ensures r == SS(), 0 < SS() <= 64 { unimplemented!() }      // the const generic SEED_SIZE
pub enum Share { Leader(Vec<Fe>), Helper(SeedT) }
pub enum ShareDecodingParameter { Leader(usize), Helper }
pub open spec fn share_enc(s: Share) -> Seq<u8> { match s { Share::Leader(v) => enc_all(v@, v@.len() as int), Share::Helper(x) => seed_enc(x) } }
pub struct Prio3VerifierMessage { pub joint_rand_seed: Option<SeedT> }
pub struct Prio3VerifyStateFull { pub share: Share, pub joint_rand_seed: Option<SeedT>, pub agg_id: u8, pub verifiers_len: usize }
pub struct Prio3PublicShare { pub joint_rand_parts: Option<Vec<SeedT>> }
pub open spec fn seeds_enc(v: Seq<SeedT>, n: int) -> Seq<u8> decreases n { if n <= 0 { Seq::empty() } else { seeds_enc(v, n - 1) + seed_enc(v[n - 1]) } }
proof fn lemma_seeds_enc_len(v: Seq<SeedT>, n: int) requires 0 <= n <= v.len() ensures seeds_enc(v, n).len() == n * SS() decreases n
{
    broadcast use axiom_seed_codec;
    if n > 0 { lemma_seeds_enc_len(v, n - 1); assert((n - 1) * SS() + SS() == n * SS()) by (nonlinear_arith); } else { assert(0 * SS() == 0); }
}
pub open spec fn pshare_enc(p: Prio3PublicShare) -> Seq<u8> { match p.joint_rand_parts { Some(v) => seeds_enc(v@, v@.len() as int), None => Seq::empty() } }
'''


def unit():
    u = VUnit('prio3_state_codecs', 'Share / Prio3VerifierMessage / Prio3VerifyState / Prio3PublicShare codecs for every FLP type')
    u.raw(prio3_codec.PRELUDE, 'abstract-codecs')
    u.raw(DECODE_SHIMS, 'decode-shims')
    u.raw(PRELUDE, 'types')
    SH_E = ['impl<F: FieldElement, const SEED_SIZE: usize> Encode for Share<F, SEED_SIZE>']
    u.item(V, SH_E + ['fn encode'], ret='r', impl_header='impl Share', name='share_encode', attrs='#[verifier::loop_isolation(false)]',
           rewrites=[(r'for x in share_data \{', 'for k_ in 0..share_data.len() { let x = &share_data[k_];', 1), (r'x\.encode\(bytes\)\?', 'fe_encode(x, bytes)?', 1)],
           sig='''
ensures
    r is Ok, final(bytes)@ == old(bytes)@ + share_enc(*self),
''', loops={0: '''
invariant
    bytes@ == old(bytes)@ + enc_all(share_data@, k_ as int),
'''}, after=[('fe_encode(x, bytes)?', 'assert(bytes@ =~= old(bytes)@ + enc_all(share_data@, k_ + 1));')],
           before=[('for k_ in 0..share_data.len()', 'assert(bytes@ =~= old(bytes)@ + enc_all(share_data@, 0));')])
    u.item(V, SH_E + ['fn encoded_len'], ret='r', impl_header='impl Share', name='share_encoded_len',
           rewrites=[(r'\bF::ENCODED_SIZE\b', 'enc_size()', 1)],
           sig='''
requires
    self is Leader ==> self->Leader_0@.len() * ES() <= usize::MAX,        // derived: the elements are held in memory
ensures
    r == Some(share_enc(*self).len() as usize),
''', before=[('match self', '''
    broadcast use axiom_seed_codec;
    if self is Leader { lemma_enc_all_len(self->Leader_0@, self->Leader_0@.len() as int); }
''')])
    u.item(V, [r'impl<F: FieldElement, const SEED_SIZE: usize> ParameterizedDecode<ShareDecodingParameter<SEED_SIZE>>\s*for Share<F, SEED_SIZE>\s*(?=\{)', 'fn decode_with_param'],
           ret='r', name='share_decode', attrs='#[verifier::loop_isolation(false)]',
           rewrites=[(r'decoding_parameter: &ShareDecodingParameter<SEED_SIZE>', 'decoding_parameter: &ShareDecodingParameter', 1), (r'bytes: &mut Cursor<&\[u8\]>', 'bytes: &mut Cur', 1),
                     (r'Result<Self, CodecError>', 'Result<Share, CodecError>', 1), (r'\bSelf::', 'Share::', '*'),
                     (r'let mut data = Vec::with_capacity', 'let mut data: Vec<Fe> = Vec::with_capacity', 1),
                     (r'for _ in 0\.\.\*share_length \{', 'for k_ in 0..*share_length {', 1),
                     (r'data\.push\(F::decode\(bytes\)\?\)', 'data.push(fe_decode(bytes)?);', 1), (r'Seed::decode\(bytes\)\?', 'seed_decode(bytes)?', 1)],
           sig='''
requires
    old(bytes).wf(),
ensures
    final(bytes).data() == old(bytes).data(),
    r is Ok ==> (r->Ok_0 is Leader <==> decoding_parameter is Leader),
    r is Ok && decoding_parameter is Leader ==> r->Ok_0->Leader_0@.len() == decoding_parameter->Leader_0
        && (forall|k: int| 0 <= k < decoding_parameter->Leader_0 ==> fe_dec(#[trigger] chunk_at(old(bytes).data(), old(bytes).pos(), k)) == Some(r->Ok_0->Leader_0@[k]))
        && final(bytes).pos() == old(bytes).pos() + decoding_parameter->Leader_0 * ES(),
    r is Ok && decoding_parameter is Helper ==> r->Ok_0->Helper_0 == seed_dec(old(bytes).rest().take(SS())) && final(bytes).pos() == old(bytes).pos() + SS(),
    decoding_parameter is Leader && old(bytes).rest().len() < decoding_parameter->Leader_0 * ES() ==> r is Err,
    decoding_parameter is Helper && old(bytes).rest().len() < SS() ==> r is Err,
''', loops={0: '''
invariant
    bytes.wf(), bytes.data() == old(bytes).data(), bytes.pos() == old(bytes).pos() + k_ * ES(), data@.len() == k_,
    forall|k: int| 0 <= k < k_ ==> fe_dec(#[trigger] chunk_at(old(bytes).data(), old(bytes).pos(), k)) == Some(data@[k]),
'''}, before=[('for k_ in 0..*share_length', 'assert(0 * ES() == 0); axiom_sizes();'), ('data.push(', '''
    assert((k_ + 1) * ES() == k_ * ES() + ES()) by (nonlinear_arith);
    assert(k_ * ES() + ES() <= *share_length * ES()) by (nonlinear_arith) requires k_ + 1 <= *share_length, ES() > 0;
    if bytes.rest().len() >= ES() { assert(bytes.rest().take(ES()) =~= chunk_at(old(bytes).data(), old(bytes).pos(), k_ as int)); }
''')])
    # ---- verifier message
    VM = ['impl<const SEED_SIZE: usize> Encode for Prio3VerifierMessage<SEED_SIZE>']
    u.item(F, VM + ['fn encode'], ret='r', impl_header='impl Prio3VerifierMessage', name='vmsg_encode',
           sig='ensures\n    r is Ok, final(bytes)@ == old(bytes)@ + opt_seed_enc(self.joint_rand_seed),\n',
           before=[('Ok(())', 'assert(bytes@ =~= old(bytes)@ + opt_seed_enc(self.joint_rand_seed));', -1)])
    u.item(F, VM + ['fn encoded_len'], ret='r', impl_header='impl Prio3VerifierMessage', name='vmsg_encoded_len',
           sig='ensures\n    r == Some(opt_seed_enc(self.joint_rand_seed).len() as usize),\n', before=[('if let Some(ref seed)', 'broadcast use axiom_seed_codec;')])
    u.item(F, [r'ParameterizedDecode<Prio3VerifyState<F, SEED_SIZE>> for Prio3VerifierMessage<SEED_SIZE>', 'fn decode_with_param'], ret='r', name='vmsg_decode',
           rewrites=[(r'decoding_parameter: &Prio3VerifyState<F, SEED_SIZE>', 'decoding_parameter: &Prio3VerifyState', 1), (r'bytes: &mut Cursor<&\[u8\]>', 'bytes: &mut Cur', 1),
                     (r'Result<Self, CodecError>', 'Result<Prio3VerifierMessage, CodecError>', 1), (r'Seed::decode\(bytes\)\?', 'seed_decode(bytes)?', 1)],
           sig='''
requires
    old(bytes).wf(),
ensures
    final(bytes).data() == old(bytes).data(),
    // a seed exactly when the verify state holds one: nothing in the bytes decides it
    r is Ok ==> (r->Ok_0.joint_rand_seed is Some <==> decoding_parameter.joint_rand_seed is Some)
        && final(bytes).pos() == old(bytes).pos() + (if decoding_parameter.joint_rand_seed is Some { SS() } else { 0 })
        && (decoding_parameter.joint_rand_seed is Some ==> r->Ok_0.joint_rand_seed == Some(seed_dec(old(bytes).rest().take(SS())))),
    r is Err <==> (decoding_parameter.joint_rand_seed is Some && old(bytes).rest().len() < SS()),
''')
    # ---- verify state
    ST = ['impl<F: NttFriendlyFieldElement, const SEED_SIZE: usize> Encode for Prio3VerifyState<F, SEED_SIZE>']
    u.item(F, ST + ['fn encode'], ret='r', impl_header='impl Prio3VerifyStateFull', name='vstate_encode',
           rewrites=[(r'self\.share\.encode\(bytes\)\?', 'self.share.share_encode(bytes)?', 1)],
           sig='ensures\n    r is Ok, final(bytes)@ == old(bytes)@ + share_enc(self.share) + opt_seed_enc(self.joint_rand_seed),\n',
           before=[('Ok(())', 'assert(bytes@ =~= old(bytes)@ + share_enc(self.share) + opt_seed_enc(self.joint_rand_seed));', -1)])
    u.item(F, ST + ['fn encoded_len'], ret='r', impl_header='impl Prio3VerifyStateFull', name='vstate_encoded_len',
           rewrites=[(r'self\.share\.encoded_len\(\)\?', 'self.share.share_encoded_len()?', 1)],
           sig='''
requires
    self.share is Leader ==> self.share->Leader_0@.len() * ES() + 64 <= usize::MAX,
ensures
    r == Some((share_enc(self.share) + opt_seed_enc(self.joint_rand_seed)).len() as usize),
''', before=[('let mut len', 'broadcast use axiom_seed_codec; if self.share is Leader { lemma_enc_all_len(self.share->Leader_0@, self.share->Leader_0@.len() as int); }')])
    # ---- public share
    PS = ['impl<const SEED_SIZE: usize> Encode for Prio3PublicShare<SEED_SIZE>']
    u.item(F, PS + ['fn encode'], ret='r', impl_header='impl Prio3PublicShare', name='pshare_encode', attrs='#[verifier::loop_isolation(false)]',
           rewrites=[(r'for part in joint_rand_parts\.iter\(\) \{', 'for k_ in 0..joint_rand_parts.len() { let part = &joint_rand_parts[k_];', 1)],
           sig='ensures\n    r is Ok, final(bytes)@ == old(bytes)@ + pshare_enc(*self),\n',
           loops={0: '''
invariant
    bytes@ == old(bytes)@ + seeds_enc(joint_rand_parts@, k_ as int),
'''}, after=[('part.encode(bytes)?', 'assert(bytes@ =~= old(bytes)@ + seeds_enc(joint_rand_parts@, k_ + 1));')],
           before=[('for k_ in 0..joint_rand_parts.len()', 'assert(bytes@ =~= old(bytes)@ + seeds_enc(joint_rand_parts@, 0));'),
                   ('Ok(())', 'assert(bytes@ =~= old(bytes)@ + pshare_enc(*self));', -1)])
    u.item(F, PS + ['fn encoded_len'], ret='r', impl_header='impl Prio3PublicShare', name='pshare_encoded_len',
           rewrites=[(r'\bSEED_SIZE\b', 'seed_size()', 1)],
           sig='''
requires
    self.joint_rand_parts is Some ==> SS() * self.joint_rand_parts->Some_0@.len() <= usize::MAX,
ensures
    r == Some(pshare_enc(*self).len() as usize),
''', before=[('if let Some(joint_rand_parts)', '''
    if self.joint_rand_parts is Some {
        let v = self.joint_rand_parts->Some_0@;
        lemma_seeds_enc_len(v, v.len() as int);
        assert(SS() * v.len() == v.len() * SS()) by (nonlinear_arith);
    }
''')])
    return u
