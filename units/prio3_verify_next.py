"""C02/C01 — Prio3::verify_next (src/vdaf/prio3.rs) under contract (Verus) for EVERY FLP type (abstract seeds, measurement-share stream and truncate):

  with joint randomness: Err exactly when the joint randomness seed of the verifier message differs from the one the aggregator computed in
        verify_init (constant-time comparison, contract of Seed::ct_ne: Kani unit seed_ct_eq_*) - an altered verifier message never
        finishes; without joint randomness no comparison is made
  otherwise Ok(Finish(output share)) where the leader's output share is the truncated measurement share it stored and a helper's is
        truncate(the first input_len elements of ITS measurement-share stream: seed of the state, usage DST_MEASUREMENT_SHARE, ctx,
        binder [agg_id]) - the same stream the client subtracted from the leader share (units prio3_shard_tail / Kani p3_shard_*);
        a failing truncate is an Err, never a panic.
Precondition (invariant of the decoders / of verify_init and verifier_shares_to_message, units prio3_state_codecs / prio3_vs2m): when the type
uses joint randomness both the state and the message carry a seed (the two `unwrap`s)."""
from vunit import VUnit
from fe_common import FE_PRELUDE

F = 'src/vdaf/prio3.rs'
PRELUDE = '''
pub enum FlpError { Truncate(String), Other }
pub enum VdafError { Uncategorized(String), Flp(FlpError) }
fn vdaf_from_flp(e: FlpError) -> (r: VdafError) ensures r == VdafError::Flp(e) { VdafError::Flp(e) }
#[verifier::external_body]
#[derive(Clone, Copy)]
pub struct SeedT { _s: u8 }
pub struct Choice { pub b: bool }
impl SeedT {
    // subtle: constant-time inequality (Kani units seed_ct_eq_16 / seed_ct_eq_32)
    #[verifier::external_body]
    fn ct_ne(&self, other: &SeedT) -> (r: Choice) ensures r.b == (*self != *other) { unimplemented!() }
}
#[verifier::external_body]
fn choice_into(c: Choice) -> (r: bool) ensures r == c.b { unimplemented!() }
pub enum Share { Leader(Vec<Fe>), Helper(SeedT) }
pub struct Prio3VerifyState { pub share: Share, pub joint_rand_seed: Option<SeedT>, pub agg_id: u8, pub verifiers_len: usize }
pub struct Prio3VerifierMessage { pub joint_rand_seed: Option<SeedT> }
pub struct OutputShare(pub Vec<Fe>);
pub enum VerifyTransition { Continue(Prio3VerifyState, ()), Finish(OutputShare) }
pub struct Prio3Any { pub num_aggregators: u8 }
// P::seed_stream(seed, [dst(DST_MEASUREMENT_SHARE), ctx], [[agg_id]]).into_field_vec(n): the first n elements of the helper's measurement-share stream
pub uninterp spec fn meas_stream(seed: SeedT, ctx: Seq<u8>, agg_id: u8, n: int) -> Seq<Fe>;
pub uninterp spec fn truncate_spec(p: Prio3Any, v: Seq<Fe>) -> Result<Seq<Fe>, FlpError>;
impl Prio3Any {
    pub uninterp spec fn il(&self) -> nat;
    pub uninterp spec fn jrl(&self) -> nat;
    #[verifier::external_body] fn typ_input_len(&self) -> (r: usize) ensures r == self.il() { unimplemented!() }
    #[verifier::external_body] fn typ_joint_rand_len(&self) -> (r: usize) ensures r == self.jrl() { unimplemented!() }
    #[verifier::external_body]
    fn helper_meas_share(&self, seed: &SeedT, ctx: &[u8], agg_id: u8, n: usize) -> (r: Vec<Fe>) ensures r@ == meas_stream(*seed, ctx@, agg_id, n as int) { unimplemented!() }
    #[verifier::external_body]
    fn typ_truncate(&self, v: Vec<Fe>) -> (r: Result<Vec<Fe>, FlpError>)
        ensures match truncate_spec(*self, v@) { Ok(t) => r is Ok && r->Ok_0@ == t, Err(e) => r == Err::<Vec<Fe>, FlpError>(e) }
    { unimplemented!() }
}
'''


def unit():
    u = VUnit('prio3_verify_next', 'Prio3::verify_next: joint randomness seed compared (any alteration refused), output share = stored / truncated helper stream')
    u.raw('global size_of usize == 8;\n' + FE_PRELUDE, 'abstract-field')
    u.raw(PRELUDE, 'abstract-instance')
    u.item(F, ['impl<T, P, const SEED_SIZE: usize> Aggregator<SEED_SIZE, 16> for Prio3<T, P, SEED_SIZE>', 'fn verify_next'], ret='r', impl_header='impl Prio3Any',
           rewrites=[(r'step: Prio3VerifyState<T::Field, SEED_SIZE>', 'step: Prio3VerifyState', 1), (r'msg: Prio3VerifierMessage<SEED_SIZE>', 'msg: Prio3VerifierMessage', 1),
                     (r'Result<VerifyTransition<Self, SEED_SIZE, 16>, VdafError>', 'Result<VerifyTransition, VdafError>', 1),
                     (r'self\.typ\.joint_rand_len\(\)', 'self.typ_joint_rand_len()', '*'),
                     (r'if step\s*\.joint_rand_seed\s*\.as_ref\(\)\s*\.unwrap\(\)\s*\.ct_ne\(msg\.joint_rand_seed\.as_ref\(\)\.unwrap\(\)\)\s*\.into\(\)',
                      'if choice_into(step.joint_rand_seed.as_ref().unwrap().ct_ne(msg.joint_rand_seed.as_ref().unwrap()))', 1),
                     (r'let measurement_share = P::seed_stream\(\s*seed\.as_ref\(\),\s*&\[&self\.domain_separation_tag\(DST_MEASUREMENT_SHARE\), ctx\],\s*&\[&\[step\.agg_id\]\],\s*\)\s*\.into_field_vec\(self\.typ\.input_len\(\)\);',
                      'let measurement_share = self.helper_meas_share(&seed, ctx, step.agg_id, self.typ_input_len());', 1),
                     (r'self\.typ\.truncate\(measurement_share\)\?', 'match self.typ_truncate(measurement_share) { Ok(v_) => v_, Err(e_) => { return Err(vdaf_from_flp(e_)); } }', 1)],
           sig='''
requires
    self.jrl() > 0 ==> step.joint_rand_seed is Some && msg.joint_rand_seed is Some,
ensures
    // an altered joint randomness seed never finishes
    self.jrl() > 0 && step.joint_rand_seed->Some_0 != msg.joint_rand_seed->Some_0 ==> r is Err,
    // otherwise the only outcome besides a truncate error is Finish with exactly this output share
    !(self.jrl() > 0 && step.joint_rand_seed->Some_0 != msg.joint_rand_seed->Some_0) ==> (match step.share {
        Share::Leader(data) => r is Ok && r->Ok_0 is Finish && r->Ok_0->Finish_0.0@ == data@,
        Share::Helper(seed) => match truncate_spec(*self, meas_stream(seed, ctx@, step.agg_id, self.il() as int)) {
            Ok(t) => r is Ok && r->Ok_0 is Finish && r->Ok_0->Finish_0.0@ == t,
            Err(e) => r == Err::<VerifyTransition, VdafError>(VdafError::Flp(e)),
        },
    }),
''')
    return u
