"""C07/C08 — Prio3PublicShare::decode_with_param (src/vdaf/prio3.rs) under contract (Verus) for EVERY FLP type and byte string: the joint
randomness parts are present exactly when the type uses joint randomness, there are exactly num_aggregators of them (the count comes from the
instance), part k is decoded from its own SEED_SIZE bytes, the cursor advances by exactly num_aggregators * SEED_SIZE (or 0), fewer bytes
are an error.  Rewrite: `iter::repeat_with(|| Seed::decode(bytes)).take(n).collect::<Result<Vec<_>, _>>()?` -> decode_n_seeds(bytes, n)? (n seed
decodes stopping at the first error: the definition of collect over Result; E4h shim as in unit pop_vstate_decode)."""
from vunit import VUnit
import prio3_codec, prio3_state_codecs

F = 'src/vdaf/prio3.rs'
PRELUDE = '''
pub struct Prio3Any { pub num_aggregators: u8 }
impl Prio3Any {
    pub uninterp spec fn jrl(&self) -> nat;
    #[verifier::external_body] fn typ_joint_rand_len(&self) -> (r: usize) ensures r == self.jrl() { unimplemented!() }
}
pub open spec fn seed_chunk(d: Seq<u8>, p: int, k: int) -> Seq<u8> { d.subrange(p + k * SS(), p + (k + 1) * SS()) }
// n seed decodes, stopping at the first error
#[verifier::external_body]
fn decode_n_seeds(c: &mut Cur, n: usize) -> (r: Result<Vec<SeedT>, CodecError>)
    requires old(c).wf(),
    ensures final(c).data() == old(c).data(), final(c).wf(),
            r is Ok <==> n * SS() <= old(c).rest().len(),
            r is Ok ==> r->Ok_0@.len() == n && final(c).pos() == old(c).pos() + n * SS()
                && forall|k: int| 0 <= k < n ==> #[trigger] r->Ok_0@[k] == seed_dec(seed_chunk(old(c).data(), old(c).pos(), k)),
{ unimplemented!() }
'''


def unit():
    u = VUnit('prio3_pshare_decode', 'Prio3PublicShare::decode_with_param: parts present iff joint randomness, exactly num_aggregators of them')
    u.raw(prio3_codec.PRELUDE, 'abstract-codecs')
    u.raw(prio3_state_codecs.DECODE_SHIMS, 'decode-shims')
    u.raw(prio3_state_codecs.PRELUDE, 'types')
    u.raw(PRELUDE, 'instance')
    u.item(F, [r'impl<T, P, const SEED_SIZE: usize> ParameterizedDecode<Prio3<T, P, SEED_SIZE>>\s*for Prio3PublicShare<SEED_SIZE>[^{]*?(?=\{)', 'fn decode_with_param'], ret='r', name='pshare_decode',
           rewrites=[(r'decoding_parameter: &Prio3<T, P, SEED_SIZE>', 'decoding_parameter: &Prio3Any', 1), (r'bytes: &mut Cursor<&\[u8\]>', 'bytes: &mut Cur', 1),
                     (r'Result<Self, CodecError>', 'Result<Prio3PublicShare, CodecError>', 1), (r'decoding_parameter\.typ\.joint_rand_len\(\)', 'decoding_parameter.typ_joint_rand_len()', 1),
                     (r'iter::repeat_with\(\|\| Seed::<SEED_SIZE>::decode\(bytes\)\)\s*\.take\(decoding_parameter\.num_aggregators\.into\(\)\)\s*\.collect::<Result<Vec<_>, _>>\(\)\?',
                      'decode_n_seeds(bytes, decoding_parameter.num_aggregators as usize)?', 1),
                     (r'Ok\(Self \{', 'Ok(Prio3PublicShare {', 2)],
           sig='''
requires
    old(bytes).wf(),
ensures
    final(bytes).data() == old(bytes).data(),
    r is Ok ==> (r->Ok_0.joint_rand_parts is Some <==> decoding_parameter.jrl() > 0),
    r is Ok && decoding_parameter.jrl() > 0 ==> r->Ok_0.joint_rand_parts->Some_0@.len() == decoding_parameter.num_aggregators
        && final(bytes).pos() == old(bytes).pos() + decoding_parameter.num_aggregators * SS()
        && forall|k: int| 0 <= k < decoding_parameter.num_aggregators ==> #[trigger] r->Ok_0.joint_rand_parts->Some_0@[k] == seed_dec(seed_chunk(old(bytes).data(), old(bytes).pos(), k)),
    r is Ok && decoding_parameter.jrl() == 0 ==> final(bytes).pos() == old(bytes).pos(),
    r is Err <==> (decoding_parameter.jrl() > 0 && old(bytes).rest().len() < decoding_parameter.num_aggregators * SS()),
''')
    return u
