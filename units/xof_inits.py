"""C18 — what the two other XOF constructors absorb, under contract (Verus), for ANY number and length of dst parts (the TurboSHAKE128
constructor and the generic seed_stream are in unit xof_absorb, whose abstract sponge this unit reuses):

  XofFixedKeyAes128::init(seed, dst_parts): the fixed-key deriver absorbed le16(total dst length) ++ dst_parts[0] ++ .. ++ dst_parts[n-1]
        - EVERY byte of EVERY part, in order - and the base block is the seed
  XofHmacSha256Aes128::init(seed, dst_parts): the HMAC is keyed with the seed and absorbed [total dst length] ++ dst_parts[0] ++ .. ++
        dst_parts[n-1]

so the VDAF domain-separation tag AND the whole application context (Prio3 / Poplar1 always pass [tag, ctx]) are bound whatever
XOF the VDAF is instantiated with.  The panic branches (dst longer than 65535 / 255 bytes) are unreachable under the stated
preconditions.  Rewrites: as in xof_absorb (iterator sum -> parts_total_len, `for p in parts` -> index loop, to_le_bytes shims);
`x.try_into().expect(..)` / `u16::try_from(x).expect(..)` -> match with the panic branch as an obligation."""
from vunit import VUnit
import xof_absorb

F = 'src/vdaf/xof.rs'
PRELUDE = '''
// HMAC-SHA256 state: key and absorbed message (contract of KeyInit::new_from_slice / Mac::update of the foreign crates: assumed)
#[verifier::external_body]
pub struct HMac { _h: u8 }
impl HMac { pub uninterp spec fn key(&self) -> Seq<u8>; pub uninterp spec fn absorbed(&self) -> Seq<u8>; }
#[verifier::external_body]
fn hmac_new(key: &[u8; 32]) -> (r: HMac) ensures r.key() == key@, r.absorbed() == Seq::<u8>::empty() { unimplemented!() }
#[verifier::external_body]
fn mac_update(h: &mut HMac, data: &[u8]) ensures final(h).absorbed() == old(h).absorbed() + data@, final(h).key() == old(h).key() { unimplemented!() }
pub struct XofHmacSha256Aes128(pub HMac);
// 16-byte AES block from the seed: (*seed_bytes).into()
#[verifier::external_body]
pub struct Block { _b: u8 }
impl Block { pub uninterp spec fn bytes(&self) -> Seq<u8>; }
#[verifier::external_body]
fn block_from(seed: &[u8; 16]) -> (r: Block) ensures r.bytes() == seed@ { unimplemented!() }
pub struct XofFixedKeyAes128 { pub fixed_key_deriver: Hasher, pub base_block: Block }
'''
COMMON = [(r'dst_parts\s*\.iter\(\)\s*\.map\(\|dst_part\| dst_part\.len\(\)\)\s*\.sum::<usize>\(\)', 'parts_total_len(dst_parts)', 1),
          (r'for dst_part in dst_parts \{', 'for k_ in 0..dst_parts.len() { let dst_part = dst_parts[k_];', 1)]


def unit():
    u = VUnit('xof_inits', 'XofFixedKeyAes128::init / XofHmacSha256Aes128::init absorb every dst byte in order, length-prefixed')
    u.oracle = {'inject': 'src/vdaf/xof.rs', 'file': 'xof_oracle.rs', 'test': 'verif_oracle_xof::oracle_'}
    u.raw(xof_absorb.PRELUDE, 'abstract-sponge')
    u.raw(PRELUDE, 'hmac-and-block')
    u.item(F, ['impl Xof<16> for XofFixedKeyAes128', 'fn init'], ret='r', impl_header='impl XofFixedKeyAes128', name='fixed_key_init',
           rewrites=COMMON + [
               (r'CTurboShake128::<XOF_FIXED_KEY_AES_128_DOMAIN_SEPARATION>::default\(\)', 'hasher_default()', 1),
               (r'u16::try_from\(dst_len\)\s*\.expect\("[^"]*"\)\s*\.to_le_bytes\(\)\s*\.as_slice\(\)',
                'u16_le(match u16_try_from(dst_len) { Ok(v) => v, Err(_) => { vpanic() } }).as_slice()', 1),
               (r'Update::update\(\s*&mut fixed_key_deriver, ', 'hasher_update(&mut fixed_key_deriver, ', '*'),
               (r'Update::update\(\s*&mut fixed_key_deriver,\s*', 'hasher_update(&mut fixed_key_deriver, ', '*'),
               (r'-> Self\b', '-> XofFixedKeyAes128', 1), (r'\bSelf \{', 'XofFixedKeyAes128 {', 1), (r'\(\*seed_bytes\)\.into\(\)', 'block_from(seed_bytes)', 1)],
           sig='''
requires
    total(dst_parts@, dst_parts@.len() as int) <= 65535,
ensures
    r.fixed_key_deriver.absorbed() == le16(total(dst_parts@, dst_parts@.len() as int)) + cat(dst_parts@, dst_parts@.len() as int),
    r.base_block.bytes() == seed_bytes@,
''', loops={0: '''
invariant
    fixed_key_deriver.absorbed() == le16(dst_len as int) + cat(dst_parts@, k_ as int),
'''}, before=[('let dst_len = parts_total_len', 'lemma_cat_len(dst_parts@, dst_parts@.len() as int);')])
    u.item(F, ['impl Xof<32> for XofHmacSha256Aes128', 'fn init'], ret='r', impl_header='impl XofHmacSha256Aes128', name='hmac_init',
           rewrites=COMMON + [
               (r'<Hmac<Sha256> as KeyInit>::new_from_slice\(seed_bytes\)\.unwrap\(\)', 'hmac_new(seed_bytes)', 1),
               (r'&\[dst_len\.try_into\(\)\.expect\("[^"]*"\)\]', 'u8_le(match u8_try_from(dst_len) { Ok(v) => v, Err(_) => { vpanic() } }).as_slice()', 1),
               (r'Mac::update\(\s*&mut mac,\s*', 'mac_update(&mut mac, ', '*'),
               (r'\bSelf\(mac\)', 'XofHmacSha256Aes128(mac)', 1), (r'-> Self\b', '-> XofHmacSha256Aes128', 1)],
           sig='''
requires
    total(dst_parts@, dst_parts@.len() as int) <= 255,
ensures
    r.0.key() == seed_bytes@,
    r.0.absorbed() == seq![total(dst_parts@, dst_parts@.len() as int) as u8] + cat(dst_parts@, dst_parts@.len() as int),
''', loops={0: '''
invariant
    mac.key() == seed_bytes@,
    mac.absorbed() == seq![dst_len as u8] + cat(dst_parts@, k_ as int),
'''}, before=[('let dst_len = parts_total_len', 'lemma_cat_len(dst_parts@, dst_parts@.len() as int);')])
    return u
