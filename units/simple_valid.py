"""C05 — the remaining validity circuits of src/flp/types.rs under contract (Verus): Count::valid, Sum::valid, SumVec::valid (the gadget is an
uninterpreted function of its wires; with Mul resp. PolyEval(x^2 - x) resp. ParallelSum<Mul> these are the bit checks x*x - x, one per input bit, and the
chunked range check of unit range_checks).

    Count::valid  == [ g(x, x) - x ]
    Sum::valid    == [ g(bit_0), g(bit_1), .., g(bit_{n-1}) ]   - one gadget call per input element, in order, for any number of bits
    SumVec::valid == [ parallel_sum_range_checks(whole input) ]"""
from fe_common import FE_PRELUDE
import range_checks
import multihot_valid
from vunit import VUnit

T = 'src/flp/types.rs'
EXTRA = '''
// &[a, b] / slice::from_ref(x) as owned vectors with the same elements (E3c)
#[verifier::external_body]
fn vec2(a: Fe, b: Fe) -> (r: Vec<Fe>) ensures r@ == seq![a, b] { unimplemented!() }
#[verifier::external_body]
fn vec1(a: Fe) -> (r: Vec<Fe>) ensures r@ == seq![a] { unimplemented!() }
pub open spec fn wire1(input: Seq<Fe>, k: int) -> Seq<Fe> { seq![input[k]] }
pub struct AnyType { pub chunk_length: usize }
pub uninterp spec fn cc_ok(input: Seq<Fe>, jr: Seq<Fe>) -> bool;
impl AnyType {
    #[verifier::external_body]
    fn valid_call_check(&self, input: &Vec<Fe>, joint_rand: &Vec<Fe>) -> (r: Result<(), FlpError>) ensures r is Ok <==> cc_ok(input@, joint_rand@) { unimplemented!() }
}
'''


def unit():
    u = VUnit('simple_valid', 'Count / Sum / SumVec ::valid')
    u.raw('global size_of usize == 8;\n' + FE_PRELUDE, 'abstract-field')
    u.raw(range_checks.PRELUDE, 'range-check-prelude')
    u.raw(range_checks.unit().parts[-1][2], 'range-post')
    ex = multihot_valid.EXTRA
    u.raw(ex[:ex.index('// contract proved in unit range_int')].replace('pub enum FieldError { BitVectorTooLong }\n', ''), 'shared-shims')
    u.raw(EXTRA, 'shims')
    COMMON = [(r'g: &mut Vec<Box<dyn Gadget<F>>>', 'g0: &mut GadgetBox', 1), (r'&\[F\]', '&Vec<Fe>', '*'), (r'Result<Vec<F>, FlpError>', 'Result<Vec<Fe>, FlpError>', 1)]
    u.item(T, ['impl<F: NttFriendlyFieldElement> Flp for Count<F>', 'fn valid'], ret='res', impl_header='impl AnyType', name='Count_valid',
           rewrites=COMMON + [(r'g\[0\]\.eval\(&\[input\[0\], input\[0\]\]\)\?', 'g0.eval(&vec2(input[0], input[0]))?', 1)],
           sig='''
requires
    cc_ok(input@, joint_rand@) ==> input@.len() == 1,         // valid_call_check: input_len() == 1
ensures
    res is Ok ==> res->Ok_0@.len() == 1 && g_eval(seq![input@[0], input@[0]]) is Some
        && res->Ok_0@[0] == fe_mk(fe_v(g_eval(seq![input@[0], input@[0]])->Some_0) - fe_v(input@[0])),
''', before=[('let out', 'assert(vec![input@[0], input@[0]]@ =~= seq![input@[0], input@[0]]) by { };')] if False else [])
    u.item(T, ['impl<F: NttFriendlyFieldElement> Flp for Sum<F>', 'fn valid'], ret='res', impl_header='impl AnyType', name='Sum_valid', attrs='#[verifier::loop_isolation(false)]',
           rewrites=COMMON + [(r'let gadget = &mut g\[0\];', '', 1), (r'\bF::zero\(\)', 'fe_zero()', 1),
                              (r'for \(bit, output_elem\) in input\.iter\(\)\.zip\(output\[\.\.input\.len\(\)\]\.iter_mut\(\)\) \{\s*\*output_elem = gadget\.eval\(slice::from_ref\(bit\)\)\?;',
                               'for k_ in 0..input.len() { let bit = &input[k_]; output[k_] = g0.eval(&vec1(*bit))?;', 1)],
           sig='''
ensures
    // one gadget call per input element, in order
    res is Ok ==> res->Ok_0@.len() == input@.len()
        && (forall|k: int| 0 <= k < input@.len() ==> g_eval(#[trigger] wire1(input@, k)) is Some)
        && (forall|k: int| 0 <= k < input@.len() ==> #[trigger] res->Ok_0@[k] == g_eval(wire1(input@, k))->Some_0),
''', loops={0: '''
invariant
    output@.len() == input@.len(),
    forall|k: int| 0 <= k < k_ ==> g_eval(#[trigger] wire1(input@, k)) is Some,
    forall|k: int| 0 <= k < k_ ==> #[trigger] output@[k] == g_eval(wire1(input@, k))->Some_0,
'''})
    u.item(T, ['impl<F, S> Flp for SumVec<F, S>', 'fn valid'], ret='res', impl_header='impl AnyType', name='SumVec_valid',
           rewrites=COMMON + [(r'&mut g\[0\]', 'g0', 1),
                              (r'parallel_sum_range_checks\((.*?)\)\s*\.map\(\|out\| vec!\[out\]\)', r'match parallel_sum_range_checks(\1) { Ok(out) => Ok(vec![out]), Err(e) => Err(e) }', 1)],
           sig='''
requires
    self.chunk_length >= 1, 2 * self.chunk_length <= usize::MAX,
ensures
    res is Ok ==> res->Ok_0@.len() == 1 && range_post(input@, joint_rand@, self.chunk_length as int, num_shares as int, inv_spec(fe_mk(num_shares as int)), res->Ok_0@[0]),
''')
    return u
