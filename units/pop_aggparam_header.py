"""C08 — the header arithmetic of Poplar1AggregationParam::decode (E9 fragment: everything from the level field up to the allocation of the
prefix vector, lifted verbatim) under contract for EVERY header (Verus): every u16 level, every u32 prefix count, every input length and
cursor position.

    no arithmetic overflow or underflow anywhere (level + 1, the division, the product in the error value are all safe);
    on the fall-through to the allocation: prefix_byte_len == ceil((level+1)/8) >= 1 and num_prefixes * prefix_byte_len <= the bytes
        remaining after the header - so `Vec::with_capacity(num_prefixes)` is sized by a count that the remaining INPUT can back
        (the count is validated against the remaining bytes BEFORE allocating);
    otherwise Err(LengthPrefixTooBig(min(prefix_byte_len * num_prefixes, usize::MAX))), or an I/O error for a short header.

Shims (std semantics, E4h): u16/u32::decode as big-endian reads of 2/4 bytes (Kani unit ints_roundtrip), usize::try_from(u32 / u64),
usize::div_ceil, saturating_sub, saturating_mul, Cursor::{get_ref().len(), position()}."""
from vunit import VUnit

F = 'src/vdaf/poplar1.rs'
PRELUDE = '''
global size_of usize == 8;
pub enum CodecError { LengthPrefixTooBig(usize), Eof, Other }
#[verifier::external_body]
pub struct Cur { _c: u8 }
impl Cur {
    pub uninterp spec fn len(&self) -> int;       // bytes.get_ref().len()
    pub uninterp spec fn pos(&self) -> int;
    pub open spec fn wf(&self) -> bool { 0 <= self.pos() <= self.len() <= usize::MAX }
    #[verifier::external_body]
    fn get_ref_len(&self) -> (r: usize) ensures r == self.len() { unimplemented!() }
    #[verifier::external_body]
    fn position(&self) -> (r: u64) ensures r == self.pos() { unimplemented!() }
}
// u16::decode / u32::decode: read_exact of 2 / 4 bytes, any value
#[verifier::external_body]
fn u16_decode(c: &mut Cur) -> (r: Result<u16, CodecError>)
    requires old(c).wf(),
    ensures final(c).len() == old(c).len(), final(c).wf(), r is Ok <==> old(c).len() - old(c).pos() >= 2, r is Ok ==> final(c).pos() == old(c).pos() + 2
{ unimplemented!() }
#[verifier::external_body]
fn u32_decode(c: &mut Cur) -> (r: Result<u32, CodecError>)
    requires old(c).wf(),
    ensures final(c).len() == old(c).len(), final(c).wf(), r is Ok <==> old(c).len() - old(c).pos() >= 4, r is Ok ==> final(c).pos() == old(c).pos() + 4
{ unimplemented!() }
#[verifier::external_body]
fn usize_try_from_u32(x: u32) -> (r: Result<usize, CodecError>) ensures r == Ok::<usize, CodecError>(x as usize) { unimplemented!() }
#[verifier::external_body]
fn usize_try_from_u64(x: u64) -> (r: Result<usize, CodecError>) ensures r == Ok::<usize, CodecError>(x as usize) { unimplemented!() }
#[verifier::external_body]
fn usize_div_ceil(a: usize, b: usize) -> (r: usize) requires b > 0 ensures r as int == (a as int + b as int - 1) / (b as int) { unimplemented!() }
#[verifier::external_body]
fn usize_saturating_sub(a: usize, b: usize) -> (r: usize) ensures r as int == (if a >= b { a - b } else { 0 }) { unimplemented!() }
#[verifier::external_body]
fn usize_saturating_mul(a: usize, b: usize) -> (r: usize) ensures r as int == (if a * b <= usize::MAX { a * b } else { usize::MAX as int }) { unimplemented!() }
'''


def unit():
    u = VUnit('pop_aggparam_header', 'Poplar1AggregationParam::decode header: count validated against the remaining input before allocating, no overflow')
    u.oracle = {'inject': 'src/vdaf/poplar1.rs', 'file': 'poplar1_oracle.rs', 'test': 'verif_oracle_poplar1::oracle_agg_param_header'}
    u.raw(PRELUDE, 'shims')
    u.item(F, ['impl Decode for Poplar1AggregationParam', 'fn decode'], ret='r', name='agg_param_decode_header',
           rewrites=[(r'^.*?(let level = u16::decode\(bytes\)\?;.*?)\s*(?://[^\n]*\n\s*)*let mut prefixes = Vec::with_capacity\(num_prefixes\);.*$',
                      r'fn agg_param_decode_header(bytes: &mut Cur) -> Result<(u16, usize, usize), CodecError> { \1 Ok((level, num_prefixes, prefix_byte_len)) }', 1),
                     (r'u16::decode\(bytes\)\?', 'u16_decode(bytes)?', 1),
                     (r'usize::try_from\(u32::decode\(bytes\)\?\)\.map_err\(\|e\| CodecError::Other\(e\.into\(\)\)\)\?', 'usize_try_from_u32(u32_decode(bytes)?)?', 1),
                     (r'\(usize::from\(level\) \+ 1\)\.div_ceil\(8\)', 'usize_div_ceil(usize::from(level) + 1, 8)', 1),
                     (r'bytes\.get_ref\(\)\.len\(\)\.saturating_sub\(\s*usize::try_from\(bytes\.position\(\)\)\.map_err\(\|e\| CodecError::Other\(e\.into\(\)\)\)\?,\s*\)',
                      'usize_saturating_sub(bytes.get_ref_len(), usize_try_from_u64(bytes.position())?)', 1),
                     (r'prefix_byte_len\.saturating_mul\(num_prefixes\)', 'usize_saturating_mul(prefix_byte_len, num_prefixes)', 1)],
           sig='''
requires
    old(bytes).wf(),
ensures
    final(bytes).len() == old(bytes).len(),
    // a header of 6 bytes must be there
    old(bytes).len() - old(bytes).pos() < 6 ==> r is Err,
    // fall-through to the allocation: the count is backed by the remaining input
    r is Ok ==> ({ let (level, n, pbl) = r->Ok_0;
        &&& pbl as int == (level as int + 8) / 8 && pbl >= 1
        &&& final(bytes).pos() == old(bytes).pos() + 6
        &&& (n as int) * (pbl as int) <= final(bytes).len() - final(bytes).pos() }),
    // and it is refused exactly when it is not
    old(bytes).len() - old(bytes).pos() >= 6 ==> (r is Err <==> exists|n: int, pbl: int| #[trigger] too_big(n, pbl, old(bytes).len() - old(bytes).pos() - 6) && r == Err::<(u16, usize, usize), CodecError>(CodecError::LengthPrefixTooBig((if n * pbl <= usize::MAX { n * pbl } else { usize::MAX as int }) as usize))),
''', before=[('if prefix_byte_len > 0 && num_prefixes > remaining / prefix_byte_len', '''
    assert(prefix_byte_len >= 1);
    lemma_fundamental_div_mod(remaining as int, prefix_byte_len as int);
    lemma_mod_bound(remaining as int, prefix_byte_len as int);
    let q = (remaining / prefix_byte_len) as int;
    if num_prefixes as int <= q {
        assert((num_prefixes as int) * (prefix_byte_len as int) <= remaining as int) by (nonlinear_arith)
            requires num_prefixes as int <= q, remaining as int == (prefix_byte_len as int) * q + (remaining as int) % (prefix_byte_len as int), 0 <= (remaining as int) % (prefix_byte_len as int), prefix_byte_len >= 1, num_prefixes >= 0;
    } else {
        assert((num_prefixes as int) * (prefix_byte_len as int) > remaining as int) by (nonlinear_arith)
            requires num_prefixes as int >= q + 1, remaining as int == (prefix_byte_len as int) * q + (remaining as int) % (prefix_byte_len as int), (remaining as int) % (prefix_byte_len as int) < prefix_byte_len as int, prefix_byte_len >= 1;
        assert(remaining as int == old(bytes).len() - old(bytes).pos() - 6);
        assert(too_big(num_prefixes as int, prefix_byte_len as int, old(bytes).len() - old(bytes).pos() - 6));
        assert((prefix_byte_len as int) * (num_prefixes as int) == (num_prefixes as int) * (prefix_byte_len as int)) by (nonlinear_arith);
    }
''')])
    u.raw('''
pub open spec fn too_big(n: int, pbl: int, remaining: int) -> bool { n * pbl > remaining }
''', 'spec')
    return u
