"""C10/C05 — the Lagrange form computed by poly_eval_lagrange_batched IS the value of the interpolating polynomial (Verus, pure lemmas over the
contracts of units lagrange_eval and ntt_value; every n = 2^d >= 2 within the root table, every x - nodes included - no division anywhere):

    theorem_lagrange_product:   prod_{m<n, m != k} (w^m - x)  ==  - sum_{i<n} x^i (w^(n-k))^(i+1)          (induction on d: pair each root with its
                                opposite, (w^m - x)(-w^m - x) = -(w_{d-1}^m - x^2); the excluded index keeps its partner; generic lemmas on products
                                over an index range with one index left out - split, termwise product, pull-out, sign, congruence)
    theorem_lagrange_is_interpolant:  for roots[k] == w^k, c the inverse-transform coefficient vector of y (is_idft) and ninv * n == -1:
                                lsum(roots, y, x, n, n-1) * ninv  ==  psum(c, x, n)
                                i.e. what lagrange_eval's postcondition states equals the value at x of the interpolant of unit ntt_value
                                (via w^k * prod_k == -geo(x w^-k), the exchange of the two sums of unit ntt_value and uniqueness of 1/n)."""
import os
import re

from fe_common import FE_PRELUDE
import ntt_value
import lagrange_math
from vunit import VUnit, REPO

DEFS = '''
pub uninterp spec fn size_inv_spec(size: usize) -> Fe;
pub open spec fn inv_idx(size: int, k: int) -> int { if k == 0 { 0 } else { size - k } }
pub open spec fn psum(s: Seq<Fe>, x: int, n: int) -> int decreases n
{ if n <= 0 { 0 } else { psum(s, x, n - 1) + fe_v(s[n - 1]) * pow(x, (n - 1) as nat) } }
pub open spec fn is_idft(c: Seq<Fe>, points: Seq<Fe>, d: nat) -> bool {
    &&& c.len() == pow2(d)
    &&& forall|k: int| 0 <= k < pow2(d) ==> cong(fe_v(#[trigger] c[k]), esum(points, 0, 1, tw(false, d as int, inv_idx(pow2(d) as int, k)), pow2(d) as int) * fe_v(size_inv_spec(pow2(d) as usize)))
}
pub open spec fn interpolates(c: Seq<Fe>, points: Seq<Fe>, d: nat) -> bool {
    forall|k: int| 0 <= k < pow2(d) ==> cong(psum(c, pow(rootv(d as int), k as nat), pow2(d) as int), fe_v(#[trigger] points[k]))
}
// the Lagrange form of unit lagrange_eval
pub open spec fn dd(roots: Seq<Fe>, x: int, m: int) -> int { fe_v(roots[m]) - x }
pub open spec fn phi(roots: Seq<Fe>, x: int, k: int, i: int) -> int decreases i + 1
{ if i < 0 { 1 } else { phi(roots, x, k, i - 1) * (if i == k { 1 } else { dd(roots, x, i) }) } }
pub open spec fn lsum(roots: Seq<Fe>, y: Seq<Fe>, x: int, kk: int, i: int) -> int decreases kk
{ if kk <= 0 { 0 } else { lsum(roots, y, x, kk - 1, i) + (fe_v(y[kk - 1]) * fe_v(roots[kk - 1])) * phi(roots, x, kk - 1, i) } }
'''

LINK = '''
// ---- linking the product identity to the Lagrange form -----------------------------------------------------------------------------------------
pub open spec fn rfun(roots: Seq<Fe>, x: int) -> spec_fn(int) -> int { |m: int| dd(roots, x, m) }
proof fn lemma_phi_is_gprod(roots: Seq<Fe>, x: int, k: int, i: int)
    requires i >= -1
    ensures phi(roots, x, k, i) == gprod(rfun(roots, x), i + 1, k)
    decreases i + 1
{ if i >= 0 { lemma_phi_is_gprod(roots, x, k, i - 1); assert(rfun(roots, x)(i) == dd(roots, x, i)); } }
// a * rs(x, w, n) == geo(x*w, n) when a*w == 1
proof fn lemma_rs_geo(x: int, w: int, a: int, n: int)
    requires n >= 0, cong(a * w, 1)
    ensures cong(a * rs(x, w, n), geo(x * w, n))
    decreases n
{
    if n == 0 { assert(a * 0 == 0); lemma_cong_refl(0); } else {
        lemma_rs_geo(x, w, a, n - 1);
        let i = (n - 1) as nat;
        lemma_pow_distributes(x, w, i);
        lemma_pow_adds(w, i, 1); lemma_pow1(w);
        let xi = pow(x, i); let wi = pow(w, i);
        // a * (x^i * w^(i+1)) == (a*w) * (x^i * w^i) == x^i w^i
        assert(a * (xi * (wi * w)) == (a * w) * (xi * wi)) by (nonlinear_arith);
        lemma_cong_refl(xi * wi);
        lemma_cong_mul(a * w, 1, xi * wi, xi * wi);
        assert(1 * (xi * wi) == xi * wi);
        assert(a * (rs(x, w, n - 1) + xi * pow(w, n as nat)) == a * rs(x, w, n - 1) + a * (xi * pow(w, n as nat))) by (nonlinear_arith);
        lemma_cong_add(a * rs(x, w, n - 1), geo(x * w, n - 1), a * (xi * (wi * w)), xi * wi);
    }
}
// two inverses of n agree
proof fn lemma_inverse_unique(a: int, b: int, n: int)
    requires cong(a * n, 1), cong(b * n, 1)
    ensures cong(a, b)
{
    lemma_cong_refl(a); lemma_cong_refl(b);
    lemma_cong_mul(a, a, b * n, 1);
    lemma_cong_mul(b, b, a * n, 1);
    assert(a * (b * n) == b * (a * n)) by (nonlinear_arith);
    assert(a * 1 == a && b * 1 == b);
    lemma_cong_sym(a * (b * n), a);
    lemma_cong_trans(a, b * (a * n), b);
}
// term k of the Lagrange form:  roots[k] * prod_{m != k}(roots[m] - x)  ==  -geo((w^(n-1))^k * x, n)
proof fn lemma_lagrange_term(roots: Seq<Fe>, d: nat, k: int, x: int)
    requires 1 <= d <= MAX_ROOTS, roots.len() == pow2(d), 0 <= k < pow2(d),
             forall|m: int| 0 <= m < pow2(d) ==> cong(fe_v(#[trigger] roots[m]), pow(rootv(d as int), m as nat)),
    ensures cong(fe_v(roots[k]) * phi(roots, x, k, pow2(d) - 1), -geo(pow(pow(rootv(d as int), (pow2(d) - 1) as nat), k as nat) * x, pow2(d) as int))
{
    let n = pow2(d) as int; let w = rootv(d as int); let v = pow(w, (n - 1) as nat);
    let wk = pow(w, (n - k) as nat); let wkk = pow(w, k as nat);
    lemma_pow2_pos(d);
    lemma_phi_is_gprod(roots, x, k, n - 1);
    // the tabulated roots are the powers
    assert forall|m: int| 0 <= m < n implies cong(#[trigger] rfun(roots, x)(m), dfun(d as int, x)(m)) by {
        lemma_cong_refl(x);
        lemma_cong_sub(fe_v(roots[m]), pow(w, m as nat), x, x);
    }
    lemma_gprod_cong(rfun(roots, x), dfun(d as int, x), n, k);
    theorem_lagrange_product(d, k, x);
    lemma_cong_trans(phi(roots, x, k, n - 1), gprod(dfun(d as int, x), n, k), -rs(x, wk, n));
    // w^k * wk == w^n == 1
    lemma_root_order(d);
    lemma_pow_adds(w, k as nat, (n - k) as nat);
    lemma_rs_geo(x, wk, wkk, n);
    lemma_cong_mul(fe_v(roots[k]), wkk, phi(roots, x, k, n - 1), -rs(x, wk, n));
    assert(wkk * (-rs(x, wk, n)) == -(wkk * rs(x, wk, n))) by (nonlinear_arith);
    lemma_cong_neg(wkk * rs(x, wk, n), geo(x * wk, n));
    lemma_cong_trans(fe_v(roots[k]) * phi(roots, x, k, n - 1), -(wkk * rs(x, wk, n)), -geo(x * wk, n));
    // wk == w^(n-k) == (w^(n-1))^k
    lemma_inv_points(d, k);
    if k == 0 { lemma_pow0(w); assert(cong(pow(w, n as nat), 1)); lemma_cong_trans(wk, 1, pow(v, 0)); }
    lemma_cong_refl(x);
    lemma_cong_mul(x, x, wk, pow(v, k as nat));
    assert(x * pow(v, k as nat) == pow(v, k as nat) * x) by (nonlinear_arith);
    lemma_cong_geo(x * wk, pow(v, k as nat) * x, n);
    lemma_cong_neg(geo(x * wk, n), geo(pow(v, k as nat) * x, n));
    lemma_cong_trans(fe_v(roots[k]) * phi(roots, x, k, n - 1), -geo(x * wk, n), -geo(pow(v, k as nat) * x, n));
}
// the whole Lagrange sum is minus the column sum of unit ntt_value
proof fn lemma_lsum_is_gsum(roots: Seq<Fe>, y: Seq<Fe>, d: nat, x: int, kk: int)
    requires 1 <= d <= MAX_ROOTS, roots.len() == pow2(d), y.len() == pow2(d), 0 <= kk <= pow2(d),
             forall|m: int| 0 <= m < pow2(d) ==> cong(fe_v(#[trigger] roots[m]), pow(rootv(d as int), m as nat)),
    ensures cong(lsum(roots, y, x, kk, pow2(d) - 1), -gsum(y, pow(rootv(d as int), (pow2(d) - 1) as nat), x, kk, pow2(d) as int))
    decreases kk
{
    let n = pow2(d) as int; let v = pow(rootv(d as int), (n - 1) as nat);
    if kk == 0 { lemma_cong_refl(0); } else {
        lemma_lsum_is_gsum(roots, y, d, x, kk - 1);
        let k = kk - 1;
        lemma_lagrange_term(roots, d, k, x);
        let yk = fe_v(y[k]); let g = geo(pow(v, k as nat) * x, n);
        lemma_cong_refl(yk);
        lemma_cong_mul(yk, yk, fe_v(roots[k]) * phi(roots, x, k, n - 1), -g);
        assert((yk * fe_v(roots[k])) * phi(roots, x, k, n - 1) == yk * (fe_v(roots[k]) * phi(roots, x, k, n - 1))) by (nonlinear_arith);
        assert(yk * (-g) == -(yk * g)) by (nonlinear_arith);
        assert(inz(y, k) == yk);
        lemma_cong_add(lsum(roots, y, x, kk - 1, n - 1), -gsum(y, v, x, kk - 1, n), (yk * fe_v(roots[k])) * phi(roots, x, k, n - 1), -(yk * g));
    }
}
// THE LAGRANGE FORM IS THE INTERPOLANT
proof fn theorem_lagrange_is_interpolant(roots: Seq<Fe>, y: Seq<Fe>, c: Seq<Fe>, d: nat, x: int, ninv: int)
    requires 1 <= d <= MAX_ROOTS, roots.len() == pow2(d), y.len() == pow2(d), pow2(d) <= usize::MAX,
             forall|m: int| 0 <= m < pow2(d) ==> cong(fe_v(#[trigger] roots[m]), pow(rootv(d as int), m as nat)),
             is_idft(c, y, d), cong(fe_v(size_inv_spec(pow2(d) as usize)) * (pow2(d) as int), 1),
             cong(ninv * (pow2(d) as int), -1),
    ensures cong(lsum(roots, y, x, pow2(d) as int, pow2(d) - 1) * ninv, psum(c, x, pow2(d) as int))
{
    let n = pow2(d) as int; let w = rootv(d as int); let v = pow(w, (n - 1) as nat); let ni = fe_v(size_inv_spec(pow2(d) as usize));
    lemma_pow2_pos(d);
    lemma_lsum_is_gsum(roots, y, d, x, n);
    lemma_exchange(y, v, x, n, n);
    // c[i] == (sum_k y_k ((w^(n-1))^i)^k) * (1/n)
    assert forall|i: int| 0 <= i < n implies cong(fe_v(#[trigger] c[i]), esum(y, 0, 1, pow(v, i as nat), n) * ni) by {
        assert(tw(false, d as int, inv_idx(n, i)) == 1 * pow(w, inv_idx(n, i) as nat));
        lemma_inv_points(d, i);
        lemma_cong_esum(y, 0, 1, pow(w, inv_idx(n, i) as nat), pow(v, i as nat), n);
        lemma_cong_refl(ni);
        lemma_cong_mul(esum(y, 0, 1, pow(w, inv_idx(n, i) as nat), n), esum(y, 0, 1, pow(v, i as nat), n), ni, ni);
        lemma_cong_trans(fe_v(c[i]), esum(y, 0, 1, pow(w, inv_idx(n, i) as nat), n) * ni, esum(y, 0, 1, pow(v, i as nat), n) * ni);
    }
    lemma_cong_outer_scaled(c, y, v, x, n, n, ni);
    lemma_psum_is_esum(c, x, n);
    let ds = dsum(y, v, x, n, n);
    // -ninv and ni are both 1/n
    lemma_cong_neg(ninv * n, -1);
    assert((-ninv) * n == -(ninv * n)) by (nonlinear_arith);
    lemma_inverse_unique(-ninv, ni, n);
    lemma_cong_refl(ninv);
    lemma_cong_mul(lsum(roots, y, x, n, n - 1), -ds, ninv, ninv);
    assert((-ds) * ninv == ds * (-ninv)) by (nonlinear_arith);
    lemma_cong_refl(ds);
    lemma_cong_mul(ds, ds, -ninv, ni);
    lemma_cong_trans(lsum(roots, y, x, n, n - 1) * ninv, ds * (-ninv), ds * ni);
    lemma_cong_sym(psum(c, x, n), ds * ni);
    lemma_cong_trans(lsum(roots, y, x, n, n - 1) * ninv, ds * ni, psum(c, x, n));
}
'''


def _strip(text, names):
    """drop the named top-level proof/spec fns (they are already defined by an earlier block)"""
    out = text
    for nm in names:
        m = re.search(r'(?:#\[verifier::external_body\]\s*)?(?:pub )?(?:open |uninterp )?(?:proof|spec) fn %s\b' % nm, out)
        if not m:
            continue
        i = m.start()
        # end: first line that starts a new top-level item after the body's closing brace at column 0, or a ';' for uninterp
        j = out.find('\n}\n', i)
        k = out.find(';\n', i)
        if 'uninterp' in out[i:m.end()] or (k != -1 and (j == -1 or k < out.find('{', i))):
            out = out[:i] + out[k + 2:]
        else:
            out = out[:i] + out[j + 3:]
    return out


def unit():
    fp = open(os.path.join(REPO, 'src/fp.rs')).read()
    mr = int(re.search(r'const MAX_ROOTS: usize = (\d+);', fp).group(1))
    ntt_value.check_root_tables()
    u = VUnit('lagrange_interp', 'the Lagrange form of poly_eval_lagrange_batched equals the value of the interpolant (product identity at the roots of unity)')
    u.raw('global size_of usize == 8;\n' + FE_PRELUDE, 'abstract-field')
    u.raw('pub const MAX_ROOTS: usize = %d;\n' % mr, 'consts')
    u.raw(ntt_value.MATH, 'ntt-math')
    u.raw(ntt_value.ROOTPOW_LEMMAS, 'root-power-lemmas')
    u.raw(DEFS, 'defs')
    u.raw(ntt_value.INVERSE, 'inverse-lemmas')
    u.raw(ntt_value.INTERP, 'interpolation-lemmas')
    pm = _strip(lagrange_math.MATH.replace('pub const MAX_ROOTS: usize = %(MR)d;\n', ''), ['rootv', 'axiom_roots', 'lemma_cong_pow'])
    u.raw(pm, 'product-lemmas')
    u.raw(_strip(lagrange_math.MAIN, ['lemma_root_order']), 'product-identity')
    u.raw(LINK, 'link')
    return u
