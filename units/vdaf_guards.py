"""C16/C19/C20 — integer guards of the VDAF constructors: Prio2::new, prio2::client::proof_length,
prio3::check_num_aggregators, is_agg_param_valid (Prio3/Prio2 single-use rule)."""
from fp_common import fp_consts
from vunit import VUnit

PRELUDE = '''
pub enum VdafError { Uncategorized(String) }
pub open spec fn spec_npo2(x: int) -> int decreases x { if x <= 1 { 1 } else { 2 * spec_npo2((x + 1) / 2) } }
pub assume_specification [usize::next_power_of_two] (x: usize) -> (r: usize)
    requires spec_npo2(x as int) <= usize::MAX as int,
    ensures r as int == spec_npo2(x as int);
proof fn lemma_npo2_bounds(x: int)
    requires x >= 0
    ensures spec_npo2(x) >= x, spec_npo2(x) >= 1, x >= 1 ==> spec_npo2(x) < 2 * x
    decreases x
{
    if x > 1 { lemma_npo2_bounds((x + 1) / 2); }
}
// u32::try_from(usize) [trusted: std semantics]
pub struct TryFromIntError;
#[verifier::external_body]
fn u32_try_from_usize(x: usize) -> (r: Result<u32, TryFromIntError>)
    ensures x <= u32::MAX as usize ==> r == Ok::<u32, TryFromIntError>(x as u32), x > u32::MAX as usize ==> r is Err
{ u32::try_from(x).map_err(|_| TryFromIntError) }
#[verifier::external_body]
fn fmt_opaque() -> String { String::new() }
// FieldPrio2::generator_order() == 1 << NUM_ROOTS  (NUM_ROOTS parsed from fp.rs on this run: %(nr)d)
fn fieldprio2_generator_order() -> (r: u32) ensures r == %(go)d { %(go)du32 }
'''


def unit():
    u = VUnit('vdaf_guards', 'constructor guards of Prio2 / Prio3')
    c = fp_consts(32)
    u.oracle = {'inject': 'src/vdaf/prio2.rs', 'file': 'guards_oracle.rs', 'test': 'verif_oracle_guards::oracle_prio2_new'}
    u.raw(PRELUDE % dict(nr=c['NUM_ROOTS'], go=1 << c['NUM_ROOTS']), 'prelude')
    u.struct_item('src/vdaf/prio2.rs', ['pub struct Prio2'])
    u.item('src/vdaf/prio2.rs', ['impl Prio2', 'fn new'], ret='r', impl_header='impl Prio2',
           rewrites=[(r'u32::try_from\(', 'u32_try_from_usize(', 1), (r'FieldPrio2::generator_order\(\)', 'fieldprio2_generator_order()', 1),
                     (r'"\.into\(\)', '".to_string()', '*')],
           sig='''
ensures
    // accepts exactly the lengths whose proof domain 2*next_pow2(input_len+1) fits the 2^20 subgroup; never overflows
    r is Ok <==> 2 * spec_npo2(input_len as int + 1) <= %d,
    r is Ok ==> r->Ok_0.input_len == input_len,
''' % (1 << c['NUM_ROOTS']),
           before=[('if input_len > (u32::MAX as usize) / 4', 'lemma_npo2_bounds(input_len as int + 1);'), ('let n =', 'lemma_npo2_bounds(input_len as int + 1);')])
    u.item('src/vdaf/prio2/client.rs', ['fn proof_length'], ret='r', sig='''
requires
    dimension as int + 3 + spec_npo2(dimension as int + 1) <= usize::MAX as int,
ensures
    // data | f(0) g(0) h(0) | N packed points of h
    r as int == dimension as int + 3 + spec_npo2(dimension as int + 1),
''', before=[('dimension + 3', 'lemma_npo2_bounds(dimension as int + 1);')])
    u.item('src/vdaf/prio3.rs', ['fn check_num_aggregators'], ret='r',
           rewrites=[(r'format!\((?:[^()]|\([^()]*\))*\)', 'fmt_opaque()', '*')],
           sig='''
ensures
    r is Ok <==> 1 <= num_aggregators <= 254,
''')
    for (f, imp, nm) in (('src/vdaf/prio3.rs', 'impl<T, P, const SEED_SIZE: usize> Aggregator<SEED_SIZE, 16> for Prio3<T, P, SEED_SIZE>', 'prio3_is_agg_param_valid'),
                         ('src/vdaf/prio2.rs', 'impl Aggregator<32, 16> for Prio2', 'prio2_is_agg_param_valid')):
        u.item(f, [imp, 'fn is_agg_param_valid'], ret='r', name=nm,
               rewrites=[(r'Self::AggregationParam', '()', 2)],
               sig='''
ensures
    // single-use rule: valid exactly when no aggregation parameter was used before
    r == (prev@.len() == 0),
''')
    u.raw('''
fn witness() {
    let a = Prio2::new(6);
    proof { reveal_with_fuel(spec_npo2, 12); }
    assert(spec_npo2(7) == 8);
    assert(a is Ok);
    let b = check_num_aggregators(2);
    assert(b is Ok);
    let c = check_num_aggregators(255);
    assert(c is Err);
}
''', 'witness')
    return u
