"""C12/C07/C08 — PingPongMessage::{encode, encoded_len, decode} (src/topology/ping_pong.rs) under contract (Verus) for payloads of ANY length and
ANY input bytes (the Kani harness pp_message_codec covers payloads <= 2 bytes in a buffer <= 12 bytes on the compiled code).

The wire form of a message is  msg_enc(m) = [tag] ++ be32(len) ++ payload (++ be32(len) ++ payload for Continue), tag 0 / 1 / 2 for Initialize /
Continue / Finish.  encode_u32_items / decode_u32_items over byte items are used through the contracts proved in units codec_items /
codec_decode (same check of C07), specialised to one-byte items that always decode.

  encode: appends exactly msg_enc(m); Err (nothing guaranteed about what was appended beyond the old bytes staying) when a payload exceeds u32::MAX bytes
  encoded_len() == msg_enc(m).len()  (given the sum fits usize)
  decode: TOTAL - for every byte string either an error (unknown tag => UnexpectedValue; truncated or over-long length prefix) or a message m such
        that the bytes consumed are EXACTLY msg_enc(m): decoding what encode wrote gives the message back, and every accepted string is the
        encoding of the value returned (no second encoding of any message)."""
from vunit import VUnit

F = 'src/topology/ping_pong.rs'
PRELUDE = '''
global size_of usize == 8;
pub enum CodecError { Eof, UnexpectedValue, LengthPrefixOverflow, LengthPrefixTooBig }
pub open spec fn be32(x: int) -> Seq<u8> { seq![((x / 0x1000000) % 256) as u8, ((x / 0x10000) % 256) as u8, ((x / 0x100) % 256) as u8, (x % 256) as u8] }
pub open spec fn be32_val(b: Seq<u8>) -> int { b[0] as int * 0x1000000 + b[1] as int * 0x10000 + b[2] as int * 0x100 + b[3] as int }
proof fn lemma_be32_roundtrip(x: int) requires 0 <= x <= 0xffff_ffff ensures be32_val(be32(x)) == x, be32(x).len() == 4 {}
proof fn lemma_be32_canonical(b: Seq<u8>) requires b.len() == 4 ensures be32(be32_val(b)) =~= b, 0 <= be32_val(b) <= 0xffff_ffff {}
// u8::encode / u8::decode
#[verifier::external_body]
fn u8_encode(x: u8, bytes: &mut Vec<u8>) -> (r: Result<(), CodecError>) ensures r is Ok, final(bytes)@ == old(bytes)@ + seq![x] { unimplemented!() }
#[verifier::external_body]
pub struct Cur { _c: u8 }
impl Cur {
    pub uninterp spec fn data(&self) -> Seq<u8>;
    pub uninterp spec fn pos(&self) -> int;
    pub open spec fn wf(&self) -> bool { 0 <= self.pos() <= self.data().len() }
    pub open spec fn left(&self) -> int { self.data().len() - self.pos() }
}
#[verifier::external_body]
fn u8_decode(c: &mut Cur) -> (r: Result<u8, CodecError>)
    requires old(c).wf(),
    ensures final(c).data() == old(c).data(), final(c).wf(), final(c).pos() >= old(c).pos(), r is Ok <==> old(c).left() >= 1,
            r is Ok ==> r->Ok_0 == old(c).data()[old(c).pos()] && final(c).pos() == old(c).pos() + 1,
{ unimplemented!() }
// encode_u32_items(bytes, &(), items: &[u8]) / decode_u32_items::<(), u8>(&(), bytes): contracts of units codec_items / codec_decode for one-byte items
#[verifier::external_body]
fn encode_u32_items(bytes: &mut Vec<u8>, items: &Vec<u8>) -> (r: Result<(), CodecError>)
    ensures items@.len() <= 0xffff_ffff ==> r is Ok && final(bytes)@ == old(bytes)@ + be32(items@.len() as int) + items@,
            items@.len() > 0xffff_ffff ==> r is Err,
            old(bytes)@.len() <= final(bytes)@.len() && final(bytes)@.take(old(bytes)@.len() as int) == old(bytes)@,
{ unimplemented!() }
#[verifier::external_body]
fn decode_u32_items(c: &mut Cur) -> (r: Result<Vec<u8>, CodecError>)
    requires old(c).wf(),
    ensures final(c).data() == old(c).data(), final(c).wf(), final(c).pos() >= old(c).pos(),
            r is Ok <==> (old(c).left() >= 4 && be32_val(old(c).data().subrange(old(c).pos(), old(c).pos() + 4)) <= old(c).left() - 4),
            r is Ok ==> ({ let n = be32_val(old(c).data().subrange(old(c).pos(), old(c).pos() + 4));
                           r->Ok_0@ == old(c).data().subrange(old(c).pos() + 4, old(c).pos() + 4 + n) && final(c).pos() == old(c).pos() + 4 + n }),
{ unimplemented!() }
// the wire form
pub open spec fn vec_enc(v: Seq<u8>) -> Seq<u8> { be32(v.len() as int) + v }
pub open spec fn msg_enc(m: PingPongMessage) -> Seq<u8> {
    match m {
        PingPongMessage::Initialize { verifier_share } => seq![0u8] + vec_enc(verifier_share@),
        PingPongMessage::Continue { verifier_message, verifier_share } => seq![1u8] + vec_enc(verifier_message@) + vec_enc(verifier_share@),
        PingPongMessage::Finish { verifier_message } => seq![2u8] + vec_enc(verifier_message@),
    }
}
pub open spec fn fits(m: PingPongMessage) -> bool {
    match m {
        PingPongMessage::Initialize { verifier_share } => verifier_share@.len() <= 0xffff_ffff,
        PingPongMessage::Continue { verifier_message, verifier_share } => verifier_message@.len() <= 0xffff_ffff && verifier_share@.len() <= 0xffff_ffff,
        PingPongMessage::Finish { verifier_message } => verifier_message@.len() <= 0xffff_ffff,
    }
}
// one decoded vector consumed exactly its own encoding
proof fn lemma_vec_consumed(d: Seq<u8>, p: int, v: Seq<u8>)
    requires 0 <= p, p + 4 <= d.len(), ({ let n = be32_val(d.subrange(p, p + 4)); 0 <= n && p + 4 + n <= d.len() && v == d.subrange(p + 4, p + 4 + n) })
    ensures d.subrange(p, p + 4 + v.len()) =~= vec_enc(v), v.len() == be32_val(d.subrange(p, p + 4))
{ lemma_be32_canonical(d.subrange(p, p + 4)); }
// a tag byte followed by one / two decoded vectors is exactly the wire form
proof fn lemma_tagged1(d: Seq<u8>, p0: int, tag: u8, v: Seq<u8>)
    requires 0 <= p0, p0 + 5 <= d.len(), d[p0] == tag,
             ({ let n = be32_val(d.subrange(p0 + 1, p0 + 5)); 0 <= n && p0 + 5 + n <= d.len() && v == d.subrange(p0 + 5, p0 + 5 + n) })
    ensures d.subrange(p0, p0 + 5 + v.len()) =~= seq![tag] + vec_enc(v), v.len() <= 0xffff_ffff
{ lemma_vec_consumed(d, p0 + 1, v); lemma_be32_canonical(d.subrange(p0 + 1, p0 + 5)); assert(d.subrange(p0, p0 + 5 + v.len()) =~= seq![tag] + d.subrange(p0 + 1, p0 + 5 + v.len())); }
proof fn lemma_tagged2(d: Seq<u8>, p0: int, tag: u8, v: Seq<u8>, w: Seq<u8>)
    requires 0 <= p0, p0 + 5 <= d.len(), d[p0] == tag,
             ({ let n = be32_val(d.subrange(p0 + 1, p0 + 5)); 0 <= n && p0 + 5 + n + 4 <= d.len() && v == d.subrange(p0 + 5, p0 + 5 + n)
                && ({ let q = p0 + 5 + n; let k = be32_val(d.subrange(q, q + 4)); 0 <= k && q + 4 + k <= d.len() && w == d.subrange(q + 4, q + 4 + k) }) })
    ensures d.subrange(p0, p0 + 5 + v.len() + 4 + w.len()) =~= seq![tag] + vec_enc(v) + vec_enc(w), v.len() <= 0xffff_ffff, w.len() <= 0xffff_ffff
{
    lemma_tagged1(d, p0, tag, v);
    let q = p0 + 5 + v.len();
    lemma_vec_consumed(d, q, w); lemma_be32_canonical(d.subrange(q, q + 4));
    assert(d.subrange(p0, q + 4 + w.len()) =~= d.subrange(p0, q) + d.subrange(q, q + 4 + w.len()));
}
'''


def unit():
    u = VUnit('pingpong_codec', 'PingPongMessage encode / encoded_len / decode: exact wire form, total decoder, canonical, any payload length')
    # the enum definition must precede msg_enc: split the prelude at the wire-form section
    k = PRELUDE.index('// the wire form')
    u.raw(PRELUDE[:k], 'codec-prelude')
    u.struct_item(F, ['pub enum PingPongMessage'])
    u.raw(PRELUDE[k:], 'wire-form')
    ENC = ['impl Encode for PingPongMessage']
    u.item(F, ENC + ['fn encode'], ret='r', impl_header='impl PingPongMessage',
           rewrites=[(r'\bSelf::', 'PingPongMessage::', '*'), (r'(\d)u8\.encode\(bytes\)\?', r'u8_encode(\1u8, bytes)?', 3), (r'encode_u32_items\(bytes, &\(\), (\w+)\)\?', r'encode_u32_items(bytes, \1)?', '*')],
           sig='''
ensures
    fits(*self) ==> r is Ok && final(bytes)@ == old(bytes)@ + msg_enc(*self),
    !fits(*self) ==> r is Err,
    final(bytes)@.len() >= old(bytes)@.len() && final(bytes)@.take(old(bytes)@.len() as int) == old(bytes)@,
''', before=[('Ok(())', 'if fits(*self) { assert(bytes@ =~= old(bytes)@ + msg_enc(*self)); }', -1)])
    u.item(F, ENC + ['fn encoded_len'], ret='r', impl_header='impl PingPongMessage',
           rewrites=[(r'\bSelf::', 'PingPongMessage::', '*')],
           sig='''
requires
    // derived: the payloads are held in memory, so their total length plus the 9 framing bytes fits usize
    match *self { PingPongMessage::Initialize { verifier_share } => verifier_share@.len() + 9 <= usize::MAX,
                  PingPongMessage::Continue { verifier_message, verifier_share } => verifier_message@.len() + verifier_share@.len() + 9 <= usize::MAX,
                  PingPongMessage::Finish { verifier_message } => verifier_message@.len() + 9 <= usize::MAX },
ensures
    r == Some(msg_enc(*self).len() as usize),
''')
    u.item(F, ['impl Decode for PingPongMessage', 'fn decode'], ret='r', impl_header='impl PingPongMessage',
           rewrites=[(r'bytes: &mut std::io::Cursor<&\[u8\]>', 'bytes: &mut Cur', 1), (r'Result<Self, CodecError>', 'Result<PingPongMessage, CodecError>', 1), (r'\bSelf::', 'PingPongMessage::', '*'),
                     (r'u8::decode\(bytes\)\?', 'u8_decode(bytes)?', 1), (r'decode_u32_items\(&\(\), bytes\)\?', 'decode_u32_items(bytes)?', '*')],
           sig='''
requires
    old(bytes).wf(),
ensures
    final(bytes).data() == old(bytes).data(), final(bytes).wf(), final(bytes).pos() >= old(bytes).pos(),
    // every accepted string is EXACTLY the encoding of the message returned (canonical; decode after encode gives the message back)
    r is Ok ==> fits(r->Ok_0) && old(bytes).data().subrange(old(bytes).pos(), final(bytes).pos()) =~= msg_enc(r->Ok_0),
    // unknown message type
    old(bytes).left() >= 1 && old(bytes).data()[old(bytes).pos()] > 2 ==> r == Err::<PingPongMessage, CodecError>(CodecError::UnexpectedValue),
    old(bytes).left() == 0 ==> r is Err,
''', ghost_before=[('let message_type', 'let ghost d = bytes.data();\nlet ghost p0 = bytes.pos();')],
           after=[('let verifier_share = decode_u32_items(bytes)?;', 'lemma_tagged1(d, p0, 0u8, verifier_share@);', 0),
                  ('let verifier_share = decode_u32_items(bytes)?;', 'lemma_tagged2(d, p0, 1u8, verifier_message@, verifier_share@);', 1),
                  ('let verifier_message = decode_u32_items(bytes)?;', 'lemma_tagged1(d, p0, 2u8, verifier_message@);', 1)])
    u.oracle = {'inject': 'src/topology/ping_pong.rs', 'file': 'pingpong_codec_oracle.rs', 'test': 'verif_oracle_pp_codec::oracle_'}
    return u
