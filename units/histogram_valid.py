"""C05 — Histogram::valid (src/flp/types.rs) under contract (Verus), over the contract of parallel_sum_range_checks (unit range_checks):

    Ok(v) ==> v == [range_check, sum_check] with range_check the range-check sum of unit range_checks over the whole input and
              sum_check == (sum of ALL input elements) - 1/num_shares          (mod p)
    so on additive shares the sum checks add up to (sum of the measurement vector) - 1: zero exactly for a vector summing to one.
The length guards (valid_call_check) are an abstract boolean here (decided by the Kani units flp_*_len_guards)."""
from fe_common import FE_PRELUDE
import range_checks
from vunit import VUnit

T = 'src/flp/types.rs'
EXTRA = '''
// contract proved in unit range_checks (same run)
#[verifier::external_body]
fn parallel_sum_range_checks(gadget: &mut GadgetBox, input: &Vec<Fe>, joint_randomness: &Vec<Fe>, chunk_length: usize, num_shares: usize) -> (res: Result<Fe, FlpError>)
    requires chunk_length >= 1, 2 * chunk_length <= usize::MAX,
    ensures res is Ok ==> range_post(input@, joint_randomness@, chunk_length as int, num_shares as int, inv_spec(fe_mk(num_shares as int)), res->Ok_0),
{ unimplemented!() }
pub struct Histogram { pub length: usize, pub chunk_length: usize, pub gadget_calls: usize }
pub uninterp spec fn call_check_ok(h: Histogram, input: Seq<Fe>, jr: Seq<Fe>) -> bool;
impl Histogram {
    #[verifier::external_body]
    fn valid_call_check(&self, input: &Vec<Fe>, joint_rand: &Vec<Fe>) -> (r: Result<(), FlpError>) ensures r is Ok <==> call_check_ok(*self, input@, joint_rand@) { unimplemented!() }
}
// sum of the first n elements (integers)
pub open spec fn isum(v: Seq<Fe>, n: int) -> int decreases n { if n <= 0 { 0 } else { isum(v, n - 1) + fe_v(v[n - 1]) } }
'''


def unit():
    u = VUnit('histogram_valid', 'Histogram::valid: range check over the whole input + (sum of all elements - 1/num_shares)')
    u.raw('global size_of usize == 8;\n' + FE_PRELUDE, 'abstract-field')
    u.raw(range_checks.PRELUDE, 'range-check-prelude')
    # the post-condition predicate of unit range_checks
    post = range_checks.unit().parts[-1][2]
    u.raw(post, 'range-post')
    u.raw(EXTRA, 'histogram-shims')
    u.item(T, ['impl<F, S> Flp for Histogram<F, S>', 'fn valid'], ret='res', impl_header='impl Histogram', attrs='#[verifier::loop_isolation(false)]',
           rewrites=[(r'g: &mut Vec<Box<dyn Gadget<F>>>', 'g0: &mut GadgetBox', 1), (r'&mut g\[0\]', 'g0', 1), (r'&\[F\]', '&Vec<Fe>', '*'), (r'Result<Vec<F>, FlpError>', 'Result<Vec<Fe>, FlpError>', 1),
                     (r'-F::from\(F::valid_integer_try_from\(num_shares\)\?\)\.inv\(\)', '-fe_inv(fe_from_valid_usize(num_shares)?)', 1),
                     (r'for val in input\.iter\(\) \{', 'for k_ in 0..input.len() { let val = &input[k_];', 1)],
           sig='''
requires
    self.chunk_length >= 1, 2 * self.chunk_length <= usize::MAX,          // established by Histogram::new (unit flp_lens)
ensures
    res is Ok ==> call_check_ok(*self, input@, joint_rand@) && res->Ok_0@.len() == 2
        && range_post(input@, joint_rand@, self.chunk_length as int, num_shares as int, inv_spec(fe_mk(num_shares as int)), res->Ok_0@[0])
        // the sum check covers EVERY element of the input, and its constant is -1/num_shares
        && cong(fe_v(res->Ok_0@[1]), isum(input@, input@.len() as int) - fe_v(inv_spec(fe_mk(num_shares as int)))),
''', loops={0: '''
invariant
    cong(fe_v(sum_check), isum(input@, k_ as int) - fe_v(inv_spec(fe_mk(num_shares as int)))),
'''}, before=[('for k_ in 0..input.len()', '''
    broadcast use axiom_fe_mk;
    lemma_cong_mod(-fe_v(inv_spec(fe_mk(num_shares as int))));
'''), ('sum_check += *val', '''
    broadcast use axiom_fe_mk;
    lemma_ops(sum_check, *val);
    lemma_c0(*val);
    lemma_cong_add(fe_v(sum_check), isum(input@, k_ as int) - fe_v(inv_spec(fe_mk(num_shares as int))), fe_v(*val), fe_v(*val));
    lemma_cong_trans(fe_v(fe_mk(fe_v(sum_check) + fe_v(*val))), fe_v(sum_check) + fe_v(*val), isum(input@, k_ + 1) - fe_v(inv_spec(fe_mk(num_shares as int))));
''')])
    return u
