"""C07/C08 — Poplar1InputShare::{encode, encoded_len, decode_with_param} (src/vdaf/poplar1.rs) under contract (Verus) for ANY number of
inner levels (prelude of unit pop_codecs: two abstract element codecs for Field64 / Field255; seeds are raw bytes):

  encode: idpf_key (16 bytes) ++ corr_seed (SEED_SIZE bytes) ++ for every inner level corr[0] ++ corr[1] (in level order) ++ corr_leaf[0] ++ corr_leaf[1]
  encoded_len() == 16 + SEED_SIZE + 16 * (number of inner levels) + 64 == the number of bytes encode appends (the defect F1 repaired in
        a62caf6 - SEED_SIZE counted for the 16-byte IDPF key - violates exactly this clause)
  decode_with_param((poplar1, _)): reads the two seeds, exactly bits - 1 pairs of Field64 elements (the count comes from the instance), two
        Field255 elements; pair k is decoded from its own 16 bytes; consumes exactly 16 + SEED_SIZE + 16 * (bits - 1) + 64 bytes; Err on fewer.
Derived precondition: bits >= 1 (instance invariant, see unit pop_codecs)."""
from vunit import VUnit
import pop_codecs

F = 'src/vdaf/poplar1.rs'
PRELUDE = '''
#[verifier::external_body] #[derive(Clone, Copy)] pub struct Seed16 { _s: u8 }
#[verifier::external_body] #[derive(Clone, Copy)] pub struct SeedN { _s: u8 }
pub uninterp spec fn SS() -> int;                                   // SEED_SIZE
pub uninterp spec fn s16_enc(s: Seed16) -> Seq<u8>;
pub uninterp spec fn sn_enc(s: SeedN) -> Seq<u8>;
#[verifier::external_body]
pub broadcast proof fn axiom_s16(s: Seed16) ensures #[trigger] s16_enc(s).len() == 16 {}
#[verifier::external_body]
pub broadcast proof fn axiom_sn(s: SeedN) ensures #[trigger] sn_enc(s).len() == SS(), 0 < SS() <= 64 {}
#[verifier::external_body]
proof fn axiom_ss() ensures 0 < SS() <= 64 {}
#[verifier::external_body]
fn seed_size() -> (r: usize) ensures r == SS(), 0 < SS() <= 64 { unimplemented!() }
impl Seed16 {
    #[verifier::external_body]
    fn encode(&self, bytes: &mut Vec<u8>) -> (r: Result<(), CodecError>) ensures r is Ok, final(bytes)@ == old(bytes)@ + s16_enc(*self) { unimplemented!() }
}
impl SeedN {
    #[verifier::external_body]
    fn encode(&self, bytes: &mut Vec<u8>) -> (r: Result<(), CodecError>) ensures r is Ok, final(bytes)@ == old(bytes)@ + sn_enc(*self) { unimplemented!() }
}
pub struct Poplar1InputShare { pub idpf_key: Seed16, pub corr_seed: SeedN, pub corr_inner: Vec<[E64; 2]>, pub corr_leaf: [E255; 2] }
pub open spec fn pairs_enc(v: Seq<[E64; 2]>, n: int) -> Seq<u8> decreases n { if n <= 0 { Seq::empty() } else { pairs_enc(v, n - 1) + enc64(v[n - 1]@[0]) + enc64(v[n - 1]@[1]) } }
proof fn lemma_pairs_len(v: Seq<[E64; 2]>, n: int) requires 0 <= n <= v.len() ensures pairs_enc(v, n).len() == 16 * n decreases n
{ broadcast use axiom_enc64; if n > 0 { lemma_pairs_len(v, n - 1); } }
pub open spec fn ishare_enc(s: Poplar1InputShare) -> Seq<u8> {
    s16_enc(s.idpf_key) + sn_enc(s.corr_seed) + pairs_enc(s.corr_inner@, s.corr_inner@.len() as int) + enc255(s.corr_leaf@[0]) + enc255(s.corr_leaf@[1])
}
// Seed::decode: raw bytes, every string of the right length decodes; F::decode: read_exact + canonical check
pub uninterp spec fn s16_dec(b: Seq<u8>) -> Seed16;
pub uninterp spec fn sn_dec(b: Seq<u8>) -> SeedN;
#[verifier::external_body]
fn seed16_decode(c: &mut Cur) -> (r: Result<Seed16, CodecError>)
    requires old(c).wf(),
    ensures final(c).data() == old(c).data(), final(c).wf(), r is Ok <==> old(c).left() >= 16,
            r is Ok ==> final(c).pos() == old(c).pos() + 16 && r->Ok_0 == s16_dec(old(c).data().subrange(old(c).pos(), old(c).pos() + 16)),
{ unimplemented!() }
#[verifier::external_body]
fn seedn_decode(c: &mut Cur) -> (r: Result<SeedN, CodecError>)
    requires old(c).wf(),
    ensures final(c).data() == old(c).data(), final(c).wf(), r is Ok <==> old(c).left() >= SS(),
            r is Ok ==> final(c).pos() == old(c).pos() + SS() && r->Ok_0 == sn_dec(old(c).data().subrange(old(c).pos(), old(c).pos() + SS())),
{ unimplemented!() }
#[verifier::external_body]
fn e64_decode(c: &mut Cur) -> (r: Result<E64, CodecError>)
    requires old(c).wf(),
    ensures final(c).data() == old(c).data(), final(c).wf(),
            r is Ok <==> (old(c).left() >= 8 && dec64(old(c).data().subrange(old(c).pos(), old(c).pos() + 8)) is Some),
            r is Ok ==> final(c).pos() == old(c).pos() + 8 && Some(r->Ok_0) == dec64(old(c).data().subrange(old(c).pos(), old(c).pos() + 8)),
            r is Err ==> final(c).pos() >= old(c).pos(),
{ unimplemented!() }
#[verifier::external_body]
fn e255_decode(c: &mut Cur) -> (r: Result<E255, CodecError>)
    requires old(c).wf(),
    ensures final(c).data() == old(c).data(), final(c).wf(),
            r is Ok <==> (old(c).left() >= 32 && dec255(old(c).data().subrange(old(c).pos(), old(c).pos() + 32)) is Some),
            r is Ok ==> final(c).pos() == old(c).pos() + 32 && Some(r->Ok_0) == dec255(old(c).data().subrange(old(c).pos(), old(c).pos() + 32)),
{ unimplemented!() }
pub open spec fn ishare_len(bits: int) -> int { 16 + SS() + 16 * (bits - 1) + 64 }
'''


def unit():
    u = VUnit('pop_ishare_codec', 'Poplar1InputShare encode / encoded_len / decode_with_param for any number of levels')
    u.raw(pop_codecs.PRELUDE, 'abstract-codecs')
    u.raw(PRELUDE, 'input-share')
    ENC = ['impl<const SEED_SIZE: usize> Encode for Poplar1InputShare<SEED_SIZE>']
    u.item(F, ENC + ['fn encode'], ret='r', impl_header='impl Poplar1InputShare', name='ishare_encode', attrs='#[verifier::loop_isolation(false)]',
           rewrites=[(r'for corr in self\.corr_inner\.iter\(\) \{', 'for k_ in 0..self.corr_inner.len() { let corr = &self.corr_inner[k_];', 1)],
           sig='ensures\n    r is Ok, final(bytes)@ == old(bytes)@ + ishare_enc(*self),\n',
           loops={0: 'invariant\n    bytes@ == old(bytes)@ + s16_enc(self.idpf_key) + sn_enc(self.corr_seed) + pairs_enc(self.corr_inner@, k_ as int),\n'},
           loop_tail={0: 'assert(bytes@ =~= old(bytes)@ + s16_enc(self.idpf_key) + sn_enc(self.corr_seed) + pairs_enc(self.corr_inner@, k_ + 1));'},
           before=[('for k_ in 0..self.corr_inner.len()', 'assert(bytes@ =~= old(bytes)@ + s16_enc(self.idpf_key) + sn_enc(self.corr_seed) + pairs_enc(self.corr_inner@, 0));')],
           ghost_after=[])
    u.item(F, ENC + ['fn encoded_len'], ret='r', impl_header='impl Poplar1InputShare', name='ishare_encoded_len',
           rewrites=[(r'\bSEED_SIZE\b', 'seed_size()', '*'), (r'\bField64::ENCODED_SIZE\b', '8usize', 1), (r'\bField255::ENCODED_SIZE\b', '32usize', 1)],
           sig='''
requires
    self.corr_inner@.len() * 16 + 200 <= usize::MAX,          // derived: the pairs are held in memory
ensures
    // the length hint equals the number of bytes encode() appends: 16 for the IDPF key whatever SEED_SIZE is
    r == Some(ishare_enc(*self).len() as usize),
''', before=[('let mut len', '''
    broadcast use axiom_s16, axiom_sn, axiom_enc255;
    lemma_pairs_len(self.corr_inner@, self.corr_inner@.len() as int);
''')])
    u.item(F, [r"impl<'a, P, const SEED_SIZE: usize> ParameterizedDecode<\(&'a Poplar1<P, SEED_SIZE>, usize\)>\s*for Poplar1InputShare<SEED_SIZE>\s*(?=\{)", 'fn decode_with_param'],
           ret='r', name='ishare_decode', attrs='#[verifier::loop_isolation(false)]',
           rewrites=[(r"\(poplar1, _agg_id\): &\(&'a Poplar1<P, SEED_SIZE>, usize\)", 'poplar1: &Poplar1Any', 1), (r'bytes: &mut Cursor<&\[u8\]>', 'bytes: &mut Cur', 1),
                     (r'Result<Self, CodecError>', 'Result<Poplar1InputShare, CodecError>', 1),
                     (r'let idpf_key = Seed::decode\(bytes\)\?;', 'let idpf_key = seed16_decode(bytes)?;', 1), (r'let corr_seed = Seed::decode\(bytes\)\?;', 'let corr_seed = seedn_decode(bytes)?;', 1),
                     (r'let mut corr_inner = Vec::with_capacity', 'let mut corr_inner: Vec<[E64; 2]> = Vec::with_capacity', 1),
                     (r'for _ in 0\.\.(poplar1\.bits[^{]*?) \{', r'for k_ in 0..\1 {', 1),
                     (r'Field64::decode\(bytes\)\?', 'e64_decode(bytes)?', 2), (r'Field255::decode\(bytes\)\?', 'e255_decode(bytes)?', 2), (r'Ok\(Self \{', 'Ok(Poplar1InputShare {', 1)],
           sig='''
requires
    old(bytes).wf(),
    poplar1.bits >= 1,
ensures
    final(bytes).data() == old(bytes).data(),
    // the number of inner levels comes from the instance; exact consumption
    r is Ok ==> r->Ok_0.corr_inner@.len() == poplar1.bits - 1 && final(bytes).pos() == old(bytes).pos() + ishare_len(poplar1.bits as int)
        && r->Ok_0.idpf_key == s16_dec(old(bytes).data().subrange(old(bytes).pos(), old(bytes).pos() + 16))
        && (forall|k: int| 0 <= k < poplar1.bits - 1 ==>
                dec64(old(bytes).data().subrange(old(bytes).pos() + 16 + SS() + 16 * k, old(bytes).pos() + 16 + SS() + 16 * k + 8)) == Some(#[trigger] r->Ok_0.corr_inner@[k]@[0])
             && dec64(old(bytes).data().subrange(old(bytes).pos() + 16 + SS() + 16 * k + 8, old(bytes).pos() + 16 + SS() + 16 * k + 16)) == Some(r->Ok_0.corr_inner@[k]@[1])),
    old(bytes).left() < ishare_len(poplar1.bits as int) ==> r is Err,
''', loops={0: '''
invariant
    bytes.wf(), bytes.data() == old(bytes).data(), bytes.pos() == old(bytes).pos() + 16 + SS() + 16 * k_, corr_inner@.len() == k_,
    forall|k: int| 0 <= k < k_ ==>
            dec64(old(bytes).data().subrange(old(bytes).pos() + 16 + SS() + 16 * k, old(bytes).pos() + 16 + SS() + 16 * k + 8)) == Some(#[trigger] corr_inner@[k]@[0])
         && dec64(old(bytes).data().subrange(old(bytes).pos() + 16 + SS() + 16 * k + 8, old(bytes).pos() + 16 + SS() + 16 * k + 16)) == Some(corr_inner@[k]@[1]),
'''}, before=[('let idpf_key', 'axiom_ss();')])
    return u
