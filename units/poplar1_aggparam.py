"""C20 — Poplar1::is_agg_param_valid under contract (Verus) for ANY history length, ANY levels and ANY candidate sets.

`IdpfInput` is abstract; `IdpfInput::prefix(n)` is the uninterpreted function pfx(input, n) (bit slicing is bitvec: out of reach,
assumed); `BTreeSet::from_iter(v)` / `contains` are the std set contracts over that abstract type.  Contract:

    is_agg_param_valid(cur, prev) == prev.is_empty()
                                     || ( cur.level > LAST(prev).level
                                          && every prefix of cur, cut to LAST(prev).level bits (+1), is a candidate of LAST(prev) )

i.e. the comparison is against the MOST RECENT parameter (not the deepest, not the first), the level increase is strict, and the
extension clause quantifies over EVERY current prefix.  Rewrites beyond the listed ones (E4g): `xs.iter().all(|x| { B })` -> index
loop returning false at the first element whose B is false (same short-circuit semantics)."""
from vunit import VUnit

F = 'src/vdaf/poplar1.rs'
PRELUDE = '''
global size_of usize == 8;
#[verifier::external_body]
pub struct IdpfInput { _b: u8 }
// IdpfInput::prefix(level): the first level+1 bits  [bitvec: assumed]
pub uninterp spec fn pfx(x: IdpfInput, level: int) -> IdpfInput;
impl IdpfInput {
    #[verifier::external_body]
    fn prefix(&self, level: usize) -> (r: IdpfInput) ensures r == pfx(*self, level as int) { unimplemented!() }
}
// BTreeSet<&IdpfInput>: from_iter / contains  [std semantics]
#[verifier::external_body]
pub struct InputSet { _s: u8 }
impl InputSet {
    pub uninterp spec fn view(&self) -> Set<IdpfInput>;
    #[verifier::external_body]
    fn from_iter(v: &Vec<IdpfInput>) -> (r: InputSet) ensures forall|x: IdpfInput| r@.contains(x) <==> v@.contains(x) { unimplemented!() }
    #[verifier::external_body]
    fn contains(&self, x: &IdpfInput) -> (r: bool) ensures r == self@.contains(*x) { unimplemented!() }
}
// prev.last().as_ref().unwrap()
#[verifier::external_body]
fn slice_last(prev: &[Poplar1AggregationParam]) -> (r: &Poplar1AggregationParam) requires prev@.len() > 0 ensures *r == prev@[prev@.len() - 1] { unimplemented!() }
'''


def unit():
    u = VUnit('poplar1_aggparam', 'Poplar1::is_agg_param_valid: strict level increase over the most recent parameter + every prefix extends one of its candidates')
    u.oracle = {'inject': 'src/vdaf/poplar1.rs', 'file': 'poplar1_oracle.rs', 'test': 'verif_oracle_poplar1::oracle_agg_param_rule'}
    u.raw(PRELUDE, 'abstract-input')
    u.struct_item(F, ['pub struct Poplar1AggregationParam'])
    u.item(F, ['impl<P: Xof<SEED_SIZE>, const SEED_SIZE: usize> Aggregator<SEED_SIZE, 16> for Poplar1<P, SEED_SIZE>', 'fn is_agg_param_valid'], ret='r', attrs='#[verifier::loop_isolation(false)]',
           rewrites=[(r'prev\.last\(\)\.as_ref\(\)\.unwrap\(\)', 'slice_last(prev)', 1),
                     (r'BTreeSet::from_iter\(last_prefixes\)', 'InputSet::from_iter(last_prefixes)', 1),
                     (r'cur_prefixes\.iter\(\)\.all\(\|cur_prefix\| \{(.*?)\}\)',
                      r'for k_ in 0..cur_prefixes.len() { let cur_prefix = &cur_prefixes[k_]; if !({\1}) { return false; } } true', 1),
                     (r'\bprev\.is_empty\(\)', 'prev.len() == 0', 1)],
           sig='''
ensures
    r == (prev@.len() == 0 || {
        let last = prev@[prev@.len() - 1];
        &&& cur.level > last.level                                                       // strictly deeper than the MOST RECENT parameter
        &&& forall|i: int| 0 <= i < cur.prefixes@.len() ==> last.prefixes@.contains(pfx(#[trigger] cur.prefixes@[i], last.level as int))   // EVERY prefix extends a candidate
    }),
''', loops={0: '''
invariant
    forall|i: int| 0 <= i < k_ ==> last_prefixes@.contains(pfx(#[trigger] cur_prefixes@[i], *last_level as int)),
'''})
    return u
