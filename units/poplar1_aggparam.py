"""C20 — Poplar1::is_agg_param_valid under contract (Verus) for ANY history length, ANY levels and ANY candidate sets.

`IdpfInput` is abstract; `IdpfInput::prefix(n)` is the uninterpreted function pfx(input, n) (bit slicing is bitvec: out of reach,
assumed); `BTreeSet::from_iter(v)` / `contains` are the std set contracts over that abstract type.  Contract:

    try_from_prefixes(prefixes) is Ok  <==>  1 <= count <= 2^32-1, all prefixes of one length L with 1 <= L <= 65536, strictly
                                             increasing in the (assumed strict total) lexicographic order; then level == L - 1

    is_agg_param_valid(cur, prev) == prev.is_empty()
                                     || ( cur.level > LAST(prev).level
                                          && every prefix of cur, cut to LAST(prev).level bits (+1), is a candidate of LAST(prev) )

i.e. the comparison is against the MOST RECENT parameter (not the deepest, not the first), the level increase is strict, and the
extension clause quantifies over EVERY current prefix.  Rewrites beyond the listed ones (E4g): `xs.iter().all(|x| { B })` -> index
loop returning false at the first element whose B is false (same short-circuit semantics)."""
from vunit import VUnit

F = 'src/vdaf/poplar1.rs'
PRELUDE = '''
global size_of usize == 8;
#[verifier::external_body]
pub struct IdpfInput { _b: u8 }
// IdpfInput::prefix(level): the first level+1 bits  [bitvec: assumed]
pub uninterp spec fn pfx(x: IdpfInput, level: int) -> IdpfInput;
impl IdpfInput {
    #[verifier::external_body]
    fn prefix(&self, level: usize) -> (r: IdpfInput) ensures r == pfx(*self, level as int) { unimplemented!() }
}
// IdpfInput::len, and the derived Ord/Eq on the bit sequence (lexicographic)  [bitvec: assumed to be a strict total order]
pub uninterp spec fn ilen(x: IdpfInput) -> int;
pub uninterp spec fn ilt(a: IdpfInput, b: IdpfInput) -> bool;
#[verifier::external_body]
pub broadcast proof fn axiom_ilt_total(a: IdpfInput, b: IdpfInput)
    ensures #[trigger] ilt(a, b) ==> !ilt(b, a) && a != b, !ilt(a, b) && a != b ==> ilt(b, a)
{}
impl IdpfInput {
    #[verifier::external_body]
    fn len(&self) -> (r: usize) ensures r == ilen(*self) { unimplemented!() }
    #[verifier::external_body]
    fn le(&self, other: &IdpfInput) -> (r: bool) ensures r == (ilt(*self, *other) || *self == *other) { unimplemented!() }
    #[verifier::external_body]
    fn eq(&self, other: &IdpfInput) -> (r: bool) ensures r == (*self == *other) { unimplemented!() }
}
pub enum VdafError { Uncategorized(String) }
#[verifier::external_body]
fn u32_try_from(x: usize) -> (r: Result<u32, ()>) ensures x <= 0xffff_ffff ==> r == Ok::<u32, ()>(x as u32), x > 0xffff_ffff ==> r is Err { unimplemented!() }
#[verifier::external_body]
fn u16_try_from(x: usize) -> (r: Result<u16, ()>) ensures x <= 65535 ==> r == Ok::<u16, ()>(x as u16), x > 65535 ==> r is Err { unimplemented!() }
#[verifier::external_body]
fn usize_checked_sub(a: usize, b: usize) -> (r: Option<usize>) ensures a >= b ==> r == Some((a - b) as usize), a < b ==> r is None { unimplemented!() }
// the documented acceptance domain of try_from_prefixes
pub open spec fn prefixes_ok(p: Seq<IdpfInput>) -> bool {
    &&& 1 <= p.len() <= 0xffff_ffff                                                     // non-empty, count fits the u32 wire field
    &&& 1 <= ilen(p[0]) <= 65536                                                        // level = len - 1 fits the u16 wire field
    &&& forall|i: int| 0 <= i < p.len() ==> ilen(#[trigger] p[i]) == ilen(p[0])           // all of one length
    &&& forall|i: int| 0 <= i < p.len() - 1 ==> ilt(#[trigger] p[i], p[i + 1])            // strictly increasing: sorted and unique
}
// BTreeSet<&IdpfInput>: from_iter / contains  [std semantics]
#[verifier::external_body]
pub struct InputSet { _s: u8 }
impl InputSet {
    pub uninterp spec fn view(&self) -> Set<IdpfInput>;
    #[verifier::external_body]
    fn from_iter(v: &Vec<IdpfInput>) -> (r: InputSet) ensures forall|x: IdpfInput| r@.contains(x) <==> v@.contains(x) { unimplemented!() }
    #[verifier::external_body]
    fn contains(&self, x: &IdpfInput) -> (r: bool) ensures r == self@.contains(*x) { unimplemented!() }
}
// prev.last().as_ref().unwrap()
#[verifier::external_body]
fn slice_last(prev: &[Poplar1AggregationParam]) -> (r: &Poplar1AggregationParam) requires prev@.len() > 0 ensures *r == prev@[prev@.len() - 1] { unimplemented!() }
'''


def unit():
    u = VUnit('poplar1_aggparam', 'Poplar1::is_agg_param_valid: strict level increase over the most recent parameter + every prefix extends one of its candidates')
    u.oracle = {'inject': 'src/vdaf/poplar1.rs', 'file': 'poplar1_oracle.rs', 'test': 'verif_oracle_poplar1::oracle_agg_param_'}
    u.raw(PRELUDE, 'abstract-input')
    u.struct_item(F, ['pub struct Poplar1AggregationParam'])
    u.item(F, ['impl<P: Xof<SEED_SIZE>, const SEED_SIZE: usize> Aggregator<SEED_SIZE, 16> for Poplar1<P, SEED_SIZE>', 'fn is_agg_param_valid'], ret='r', attrs='#[verifier::loop_isolation(false)]',
           rewrites=[(r'prev\.last\(\)\.as_ref\(\)\.unwrap\(\)', 'slice_last(prev)', 1),
                     (r'BTreeSet::from_iter\(last_prefixes\)', 'InputSet::from_iter(last_prefixes)', 1),
                     (r'cur_prefixes\.iter\(\)\.all\(\|cur_prefix\| \{(.*?)\}\)',
                      r'for k_ in 0..cur_prefixes.len() { let cur_prefix = &cur_prefixes[k_]; if !({\1}) { return false; } } true', 1),
                     (r'\bprev\.is_empty\(\)', 'prev.len() == 0', 1)],
           sig='''
ensures
    r == (prev@.len() == 0 || {
        let last = prev@[prev@.len() - 1];
        &&& cur.level > last.level                                                       // strictly deeper than the MOST RECENT parameter
        &&& forall|i: int| 0 <= i < cur.prefixes@.len() ==> last.prefixes@.contains(pfx(#[trigger] cur.prefixes@[i], last.level as int))   // EVERY prefix extends a candidate
    }),
''', loops={0: '''
invariant
    forall|i: int| 0 <= i < k_ ==> last_prefixes@.contains(pfx(#[trigger] cur_prefixes@[i], *last_level as int)),
'''})
    u.item(F, ['impl Poplar1AggregationParam', 'fn try_from_prefixes'], ret='r', attrs='#[verifier::loop_isolation(false)]',
           rewrites=[(r'"\.into\(\)', '".to_string()', '*'), (r'-> Result<Self, VdafError>', '-> Result<Poplar1AggregationParam, VdafError>', 1),
                     (r'\bprefixes\.is_empty\(\)', 'prefixes.len() == 0', 1),
                     (r'\b(u16|u32)::try_from\(prefixes\.len\(\)\)\.is_err\(\)', r'\1_try_from(prefixes.len()).is_err()', 1),
                     (r'for prefix in prefixes\.iter\(\) \{', 'for k_ in 0..prefixes.len() { let prefix = &prefixes[k_];', 1),
                     (r'if prefix <= last_prefix \{', 'if prefix.le(last_prefix) {', 1), (r'if prefix == last_prefix \{', 'if prefix.eq(last_prefix) {', 1),
                     (r'let level = len\s*\.checked_sub\(1\)\s*\.ok_or_else\(\|\| (.*?)\)\?;', r'let level = match usize_checked_sub(len, 1) { Some(v) => v, None => { return Err(\1); } };', 1),
                     (r'let level = u16::try_from\(level\)\s*\.map_err\(\|_\| (.*?)\)\?;', r'let level = match u16_try_from(level) { Ok(v) => v, Err(_) => { return Err(\1); } };', 1),
                     (r'Ok\(Self \{ level, prefixes \}\)', 'Ok(Poplar1AggregationParam { level, prefixes })', 1)],
           sig='''
ensures
    // accepted exactly on the documented domain: non-empty, count and length fit the wire fields, one length, sorted, unique
    r is Ok <==> prefixes_ok(prefixes@),
    r is Ok ==> r->Ok_0.prefixes@ == prefixes@ && r->Ok_0.level as int == ilen(prefixes@[0]) - 1,
''', loops={0: '''
invariant
    last_prefix == (if k_ == 0 { None::<&IdpfInput> } else { Some(&prefixes@[k_ - 1]) }),
    forall|i: int| 0 <= i < k_ ==> ilen(#[trigger] prefixes@[i]) == len,
    forall|i: int| 0 <= i < k_ - 1 ==> ilt(#[trigger] prefixes@[i], prefixes@[i + 1]),
'''}, before=[('let len = prefixes[0].len()', 'broadcast use axiom_ilt_total;')])
    return u
