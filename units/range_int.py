"""C01/C02 — the bit-vector integer codec of field.rs under contract (Verus):

  FieldElementWithIntegerExt::valid_integer_bitlength  (Field64 and Field128 instances: u64 / u128 integers, real modulus):
        true exactly when bits < 8 * ENCODED_SIZE and 2^bits <= p
  FieldElementWithInteger::decode_bitvector (abstract field, any length): Err(BitVectorTooLong) exactly when the length is
        not a valid bit length, otherwise the inner product sum_i input[i] * 2^i (mod p) - a LINEAR function of the
        input, hence applicable to secret shares"""
from fe_common import FE_PRELUDE
from fp_common import fp_consts
from vunit import VUnit

F = 'src/field.rs'


def unit():
    u = VUnit('range_int', 'valid_integer_bitlength / decode_bitvector')
    u.raw('global size_of usize == 8;\n' + FE_PRELUDE, 'abstract-field')
    u.raw('''
pub enum FieldError { BitVectorTooLong, BitVectorOverflow, IntegerTryFrom, ModulusOverflow }
proof fn lemma_c0(x: Fe) ensures cong(fe_v(x), fe_v(x)) { lemma_cong_refl(fe_v(x)); }
proof fn lemma_add_c(x: Fe, y: Fe, xi: int, yi: int) requires cong(fe_v(x), xi), cong(fe_v(y), yi)
    ensures cong(fe_v(fe_mk(fe_v(x) + fe_v(y))), xi + yi)
{ lemma_ops(x, y); lemma_cong_add(fe_v(x), xi, fe_v(y), yi); lemma_cong_trans(fe_v(fe_mk(fe_v(x) + fe_v(y))), fe_v(x) + fe_v(y), xi + yi); }
proof fn lemma_mul_c(x: Fe, y: Fe, xi: int, yi: int) requires cong(fe_v(x), xi), cong(fe_v(y), yi)
    ensures cong(fe_v(fe_mk(fe_v(x) * fe_v(y))), xi * yi)
{ lemma_ops(x, y); lemma_cong_mul(fe_v(x), xi, fe_v(y), yi); lemma_cong_trans(fe_v(fe_mk(fe_v(x) * fe_v(y))), fe_v(x) * fe_v(y), xi * yi); }
// sum_{i<n} input[i] * 2^i
pub open spec fn bsum(s: Seq<Fe>, n: int) -> int decreases n
{ if n <= 0 { 0 } else { bsum(s, n - 1) + fe_v(s[n - 1]) * (pow2((n - 1) as nat) as int) } }
''', 'prelude')
    for (bits, W, E, size) in ((64, 'u64', 'f64', 8), (128, 'u128', 'f128', 16)):
        c = fp_consts(bits)
        u.raw('''
pub const %(E)s_PRIME: %(W)s = %(p)d;      // parsed from src/fp.rs on this run
fn %(E)s_modulus() -> (r: %(W)s) ensures r == %(E)s_PRIME { %(E)s_PRIME }
''' % dict(E=E, W=W, p=c['PRIME']), E + '-consts')
        u.item(F, ['pub(crate) trait FieldElementWithIntegerExt', 'fn valid_integer_bitlength'], name=E + '_valid_integer_bitlength', ret='r',
               rewrites=[(r'\bSelf::ENCODED_SIZE\b', '%dusize' % size, 1), (r'\bSelf::modulus\(\)', E + '_modulus()', 1), (r'\bSelf::Integer::zero\(\)', '0' + W, 1)],
               sig='''
ensures
    // the largest number with `bits` bits (2^bits - 1) is a field element, and the bit count fits the integer type
    r == (bits < %d && (pow2(bits as nat) as int) <= %s_PRIME as int),
''' % (8 * size, E), before=[('if ' + E + '_modulus() >> bits', '''
    lemma_%s_shr_is_div(%s_PRIME, bits as %s);
    lemma_pow2_pos(bits as nat);
    lemma_fundamental_div_mod(%s_PRIME as int, pow2(bits as nat) as int);
    lemma_div_pos_is_pos(%s_PRIME as int, pow2(bits as nat) as int);
    if (pow2(bits as nat) as int) <= %s_PRIME as int { lemma_div_is_ordered(pow2(bits as nat) as int, %s_PRIME as int, pow2(bits as nat) as int); lemma_div_basics_3(pow2(bits as nat) as int); }
    else { lemma_basic_div(%s_PRIME as int, pow2(bits as nat) as int); }
''' % (W, E, W, E, E, E, E, E))])
    u.raw('''
// abstract instance for decode_bitvector: the contract of valid_integer_bitlength proved above, for an abstract field
pub uninterp spec fn BITW() -> int;     // 8 * ENCODED_SIZE
#[verifier::external_body]
fn fe_valid_integer_bitlength(bits: usize) -> (r: bool) ensures r == ((bits as int) < BITW() && (pow2(bits as nat) as int) <= P()) { unimplemented!() }
''', 'abstract-valid')
    u.item(F, ['pub trait FieldElementWithInteger', 'fn decode_bitvector'], ret='r',
           rewrites=[(r'input: &\[Self\]', 'input: &Vec<Fe>', 1), (r'Result<Self, FieldError>', 'Result<Fe, FieldError>', 1),
                     (r'\bSelf::valid_integer_bitlength\(', 'fe_valid_integer_bitlength(', 1), (r'\bSelf::zero\(\)', 'fe_zero()', 1), (r'\bSelf::one\(\)', 'fe_one()', 1),
                     (r'for value in input\.iter\(\) \{', 'for k_ in 0..input.len() { let value = &input[k_];', 1)],
           sig='''
ensures
    r is Ok <==> ((input@.len() as int) < BITW() && (pow2(input@.len() as nat) as int) <= P()),
    r is Err ==> r == Err::<Fe, FieldError>(FieldError::BitVectorTooLong),
    // the inner product with the powers of two: linear in the input
    r is Ok ==> cong(fe_v(r->Ok_0), bsum(input@, input@.len() as int)),
''', loops={0: '''
invariant
    cong(fe_v(decoded), bsum(input@, k_ as int)),
    cong(fe_v(power_of_two), pow2(k_ as nat) as int),
    cong(fe_v(two), 2),
'''}, before=[('for k_ in 0..', '''
    broadcast use axiom_fe_mk, axiom_fe_range;
    lemma_cong_refl(0); lemma_cong_refl(1); lemma2_to64();
    lemma_c0(one);
    lemma_add_c(one, one, 1, 1);
'''), ('decoded += *value * power_of_two', '''
    lemma_c0(*value);
    lemma_mul_c(*value, power_of_two, fe_v(*value), pow2(k_ as nat) as int);
    let m = fe_mk(fe_v(*value) * fe_v(power_of_two));
    lemma_add_c(decoded, m, bsum(input@, k_ as int), fe_v(*value) * (pow2(k_ as nat) as int));
    lemma_mul_c(power_of_two, two, pow2(k_ as nat) as int, 2);
    lemma_pow2_unfold((k_ + 1) as nat);
    assert((pow2(k_ as nat) as int) * 2 == pow2((k_ + 1) as nat) as int);
''')])
    return u
