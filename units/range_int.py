"""C01/C02 — the bit-vector integer codec of field.rs under contract (Verus):

  FieldElementWithIntegerExt::valid_integer_bitlength  (Field64 and Field128 instances: u64 / u128 integers, real modulus):
        true exactly when bits < 8 * ENCODED_SIZE and 2^bits <= p
  FieldElementWithInteger::decode_bitvector (abstract field, any length): Err(BitVectorTooLong) exactly when the length is
        not a valid bit length, otherwise the inner product sum_i input[i] * 2^i (mod p) - a LINEAR function of the
        input, hence applicable to secret shares
  decode_range_checked_int (abstract field, any length): Ok exactly when all-but-the-last elements form a valid bit length;
        value == sum_i input[i]*2^i over all but the last element + last * last_weight  (linear)
  Flp::truncate_call_check, Sum::truncate, SumVec::truncate (extracted; `input.chunks(bits)` -> index loop over
        chunks_count/chunk_at shims, E4i): Ok exactly when the length is input_len() and every chunk decodes; output coordinate j
        is the range-checked value of chunk j - every chunk, in order, linear chunk by chunk"""
from fe_common import FE_PRELUDE
from fp_common import fp_consts
from vunit import VUnit

F = 'src/field.rs'


def unit():
    u = VUnit('range_int', 'valid_integer_bitlength / decode_bitvector')
    u.raw('global size_of usize == 8;\n' + FE_PRELUDE, 'abstract-field')
    u.raw('''
pub enum FieldError { BitVectorTooLong, BitVectorOverflow, IntegerTryFrom, ModulusOverflow }
proof fn lemma_c0(x: Fe) ensures cong(fe_v(x), fe_v(x)) { lemma_cong_refl(fe_v(x)); }
proof fn lemma_add_c(x: Fe, y: Fe, xi: int, yi: int) requires cong(fe_v(x), xi), cong(fe_v(y), yi)
    ensures cong(fe_v(fe_mk(fe_v(x) + fe_v(y))), xi + yi)
{ lemma_ops(x, y); lemma_cong_add(fe_v(x), xi, fe_v(y), yi); lemma_cong_trans(fe_v(fe_mk(fe_v(x) + fe_v(y))), fe_v(x) + fe_v(y), xi + yi); }
proof fn lemma_mul_c(x: Fe, y: Fe, xi: int, yi: int) requires cong(fe_v(x), xi), cong(fe_v(y), yi)
    ensures cong(fe_v(fe_mk(fe_v(x) * fe_v(y))), xi * yi)
{ lemma_ops(x, y); lemma_cong_mul(fe_v(x), xi, fe_v(y), yi); lemma_cong_trans(fe_v(fe_mk(fe_v(x) * fe_v(y))), fe_v(x) * fe_v(y), xi * yi); }
// sum_{i<n} input[i] * 2^i
pub open spec fn bsum(s: Seq<Fe>, n: int) -> int decreases n
{ if n <= 0 { 0 } else { bsum(s, n - 1) + fe_v(s[n - 1]) * (pow2((n - 1) as nat) as int) } }
''', 'prelude')
    for (bits, W, E, size) in ((64, 'u64', 'f64', 8), (128, 'u128', 'f128', 16)):
        c = fp_consts(bits)
        u.raw('''
pub const %(E)s_PRIME: %(W)s = %(p)d;      // parsed from src/fp.rs on this run
fn %(E)s_modulus() -> (r: %(W)s) ensures r == %(E)s_PRIME { %(E)s_PRIME }
''' % dict(E=E, W=W, p=c['PRIME']), E + '-consts')
        u.item(F, ['pub(crate) trait FieldElementWithIntegerExt', 'fn valid_integer_bitlength'], name=E + '_valid_integer_bitlength', ret='r',
               rewrites=[(r'\bSelf::ENCODED_SIZE\b', '%dusize' % size, 1), (r'\bSelf::modulus\(\)', E + '_modulus()', 1), (r'\bSelf::Integer::zero\(\)', '0' + W, 1)],
               sig='''
ensures
    // the largest number with `bits` bits (2^bits - 1) is a field element, and the bit count fits the integer type
    r == (bits < %d && (pow2(bits as nat) as int) <= %s_PRIME as int),
''' % (8 * size, E), before=[('if ' + E + '_modulus() >> bits', '''
    lemma_%s_shr_is_div(%s_PRIME, bits as %s);
    lemma_pow2_pos(bits as nat);
    lemma_fundamental_div_mod(%s_PRIME as int, pow2(bits as nat) as int);
    lemma_div_pos_is_pos(%s_PRIME as int, pow2(bits as nat) as int);
    if (pow2(bits as nat) as int) <= %s_PRIME as int { lemma_div_is_ordered(pow2(bits as nat) as int, %s_PRIME as int, pow2(bits as nat) as int); lemma_div_basics_3(pow2(bits as nat) as int); }
    else { lemma_basic_div(%s_PRIME as int, pow2(bits as nat) as int); }
''' % (W, E, W, E, E, E, E, E))])
    u.raw('''
// abstract instance for decode_bitvector: the contract of valid_integer_bitlength proved above, for an abstract field
pub uninterp spec fn BITW() -> int;     // 8 * ENCODED_SIZE
#[verifier::external_body]
fn fe_valid_integer_bitlength(bits: usize) -> (r: bool) ensures r == ((bits as int) < BITW() && (pow2(bits as nat) as int) <= P()) { unimplemented!() }
''', 'abstract-valid')
    u.item(F, ['pub trait FieldElementWithInteger', 'fn decode_bitvector'], ret='r',
           rewrites=[(r'input: &\[Self\]', 'input: &Vec<Fe>', 1), (r'Result<Self, FieldError>', 'Result<Fe, FieldError>', 1),
                     (r'\bSelf::valid_integer_bitlength\(', 'fe_valid_integer_bitlength(', 1), (r'\bSelf::zero\(\)', 'fe_zero()', 1), (r'\bSelf::one\(\)', 'fe_one()', 1),
                     (r'for value in input\.iter\(\) \{', 'for k_ in 0..input.len() { let value = &input[k_];', 1)],
           sig='''
ensures
    r is Ok <==> ((input@.len() as int) < BITW() && (pow2(input@.len() as nat) as int) <= P()),
    r is Err ==> r == Err::<Fe, FieldError>(FieldError::BitVectorTooLong),
    // the inner product with the powers of two: linear in the input
    r is Ok ==> cong(fe_v(r->Ok_0), bsum(input@, input@.len() as int)),
''', loops={0: '''
invariant
    cong(fe_v(decoded), bsum(input@, k_ as int)),
    cong(fe_v(power_of_two), pow2(k_ as nat) as int),
    cong(fe_v(two), 2),
'''}, before=[('for k_ in 0..', '''
    broadcast use axiom_fe_mk, axiom_fe_range;
    lemma_cong_refl(0); lemma_cong_refl(1); lemma2_to64();
    lemma_c0(one);
    lemma_add_c(one, one, 1, 1);
'''), ('decoded += *value * power_of_two', '''
    lemma_c0(*value);
    lemma_mul_c(*value, power_of_two, fe_v(*value), pow2(k_ as nat) as int);
    let m = fe_mk(fe_v(*value) * fe_v(power_of_two));
    lemma_add_c(decoded, m, bsum(input@, k_ as int), fe_v(*value) * (pow2(k_ as nat) as int));
    lemma_mul_c(power_of_two, two, pow2(k_ as nat) as int, 2);
    lemma_pow2_unfold((k_ + 1) as nat);
    assert((pow2(k_ as nat) as int) * 2 == pow2((k_ + 1) as nat) as int);
''')])
    # ---- decode_range_checked_int and the truncate functions built on it (linear: apply to secret shares) --------------------
    T = 'src/flp/types.rs'
    u.raw('''
pub enum FlpError { Truncate(String), Field(FieldError), Other }
#[verifier::external_body]
fn fmt_opaque() -> String { String::new() }
// input.split_last()  [std semantics on the E3c Vec view]
#[verifier::external_body]
fn vec_split_last(input: &Vec<Fe>) -> (r: Option<(Fe, Vec<Fe>)>)
    ensures match r { None => input@.len() == 0, Some((last, rest)) => input@.len() > 0 && last == input@[input@.len() - 1] && rest@ == input@.drop_last() }
{ unimplemented!() }
// input.chunks(n): number of chunks and the k-th chunk  [std semantics; chunks(0) panics]
#[verifier::external_body]
fn chunks_count(len: usize, n: usize) -> (r: usize) requires n > 0 ensures r as int == (len as int + n as int - 1) / (n as int) { unimplemented!() }
#[verifier::external_body]
fn chunk_at(input: &Vec<Fe>, n: usize, k: usize) -> (r: Vec<Fe>)
    requires n > 0, (k as int) * (n as int) < input@.len(),
    ensures r@ == input@.subrange((k as int) * (n as int), if (k as int + 1) * (n as int) <= input@.len() { (k as int + 1) * (n as int) } else { input@.len() as int })
{ unimplemented!() }
proof fn lemma_bsum_prefix(s: Seq<Fe>, t: Seq<Fe>, n: int)
    requires 0 <= n <= s.len(), n <= t.len(), forall|i: int| 0 <= i < n ==> s[i] == t[i]
    ensures bsum(s, n) == bsum(t, n)
    decreases n
{ if n > 0 { lemma_bsum_prefix(s, t, n - 1); } }
// value of one range-checked integer encoding: bits 0..n-2 weigh 2^i, the last one weighs last_weight
pub open spec fn rc_val(s: Seq<Fe>, lw: Fe) -> int { if s.len() == 0 { 0 } else { bsum(s, s.len() - 1) + fe_v(s[s.len() - 1]) * fe_v(lw) } }
pub open spec fn rc_ok(s: Seq<Fe>) -> bool { s.len() == 0 || ((s.len() - 1) < BITW() && (pow2((s.len() - 1) as nat) as int) <= P()) }
''', 'truncate-prelude')
    u.item(T, ['fn decode_range_checked_int'], ret='r',
           rewrites=[(r'<F: FieldElementWithIntegerExt>', '', 1), (r'input: &\[F\]', 'input: &Vec<Fe>', 1), (r'last_weight: F,', 'last_weight: Fe,', 1),
                     (r'Result<F, FieldError>', 'Result<Fe, FieldError>', 1),
                     (r'let Some\(\(last, rest\)\) = input\.split_last\(\) else \{\s*return Ok\(F::zero\(\)\);\s*\};',
                      'let (last, rest) = match vec_split_last(input) { Some(v) => v, None => { return Ok(fe_zero()); } };', 1),      # let-else == match (E4d)
                     (r'F::decode_bitvector\(rest\)\?', 'decode_bitvector(&rest)?', 1), (r'\*last \* last_weight', 'last * last_weight', 1)],
           sig='''
ensures
    r is Ok <==> rc_ok(input@),
    r is Err ==> r == Err::<Fe, FieldError>(FieldError::BitVectorTooLong),
    // linear in the input: sum_i input[i]*2^i over all but the last element, plus last * last_weight
    r is Ok ==> cong(fe_v(r->Ok_0), rc_val(input@, last_weight)),
''', before=[('return Ok(fe_zero())', 'lemma_cong_refl(0);'), ('Ok(decode_bitvector(&rest)? + last * last_weight)', '''
    broadcast use axiom_fe_mk, axiom_fe_range;
    lemma_cong_refl(0);
    lemma_bsum_prefix(rest@, input@, rest@.len() as int);
    assert forall|a: Fe, b: Fe, x: int| cong(fe_v(a), x) implies #[trigger] cong(fe_v(fe_mk(fe_v(a) + fe_v(b))), x + fe_v(b)) by { lemma_c0(b); lemma_add_c(a, b, x, fe_v(b)); }
    assert(cong(fe_v(fe_mk(fe_v(last) * fe_v(last_weight))), fe_v(last) * fe_v(last_weight))) by { lemma_ops(last, last_weight); }
    assert forall|a: Fe, b: Fe, x: int, y: int| cong(fe_v(a), x) && cong(fe_v(b), y) implies #[trigger] cong(fe_v(fe_mk(fe_v(a) + fe_v(b))), x + y) by { lemma_add_c(a, b, x, y); }
''')])
    for ty, hdr, ilen, extra in (('Sum', 'impl<F: NttFriendlyFieldElement> Type for Sum<F>', 'self.bits', []),
                                 ('SumVec', 'impl<F, S> Type for SumVec<F, S>', 'self.flattened_len', [(r', S>', '>', 1), (r'phantom: PhantomData<S>,', '', 1)])):
        u.struct_item(T, ['pub struct ' + ty], rewrites=[(r'<F: NttFriendlyFieldElement', '<', 1)] + extra + [(r'pub struct (\w+)<>', r'pub struct \1', 1), (r'F::Integer', 'u128', '*'), (r': F,', ': Fe,', '*'), (r'Vec<F>', 'Vec<Fe>', '*')])
        u.raw('impl %s { fn input_len(&self) -> (r: usize) ensures r == %s { %s } }\n' % (ty, ilen, ilen), ty + '-input-len')
        u.item('src/flp.rs', ['pub trait Flp', 'fn truncate_call_check'], ret='r', impl_header='impl ' + ty, name=ty + '_truncate_call_check',
               rewrites=[(r'input: &\[Self::Field\]', 'input: &Vec<Fe>', 1), (r'format!\((?:[^()]|\([^()]*\))*\)', 'fmt_opaque()', '*')],
               sig='ensures\n    r is Ok <==> input@.len() == %s,' % ilen)
    u.raw('''
pub open spec fn chunk_of(s: Seq<Fe>, n: int, k: int) -> Seq<Fe> { s.subrange(k * n, if (k + 1) * n <= s.len() { (k + 1) * n } else { s.len() as int }) }
proof fn lemma_chunk_idx(len: int, n: int, k: int)
    requires n > 0, len >= 0, 0 <= k < (len + n - 1) / n
    ensures k * n < len, (k + 1) * n > k * n
{
    lemma_fundamental_div_mod(len + n - 1, n);
    let q = (len + n - 1) / n;
    lemma_mod_bound(len + n - 1, n);
    assert(k * n < len) by (nonlinear_arith) requires len + n - 1 == n * q + (len + n - 1) % n, 0 <= (len + n - 1) % n < n, 0 <= k < q, n > 0;
    assert((k + 1) * n > k * n) by (nonlinear_arith) requires n > 0;
}
''', 'chunks')
    ERRC = (r'decode_range_checked_int\(([^;]*?)\)\?', r'(match decode_range_checked_int(\1) { Ok(v) => v, Err(e) => { return Err(FlpError::Field(e)); } })', 1)   # `?` with From<FieldError> == match (E4d)
    u.item(T, ['impl<F: NttFriendlyFieldElement> Type for Sum<F>', 'fn truncate'], ret='r', impl_header='impl Sum', name='Sum_truncate',
           rewrites=[(r'Vec<F>', 'Vec<Fe>', '*'), (r'self\.truncate_call_check\(', 'self.Sum_truncate_call_check(', 1), ERRC],
           sig='''
ensures
    r is Ok <==> input@.len() == self.bits && rc_ok(input@),
    // one output coordinate: the range-checked integer value of the whole input, a LINEAR function of it
    r is Ok ==> r->Ok_0@.len() == 1 && cong(fe_v(r->Ok_0@[0]), rc_val(input@, self.last_weight_field)),
''')
    u.item(T, ['impl<F, S> Type for SumVec<F, S>', 'fn truncate'], ret='r', impl_header='impl SumVec', name='SumVec_truncate', attrs='#[verifier::loop_isolation(false)]',
           rewrites=[(r'Vec<F>', 'Vec<Fe>', '*'), (r'self\.truncate_call_check\(', 'self.SumVec_truncate_call_check(', 1), ERRC,
                     (r'for chunk in input\.chunks\(self\.bits\) \{', 'let nchunks_ = chunks_count(input.len(), self.bits); for k_ in 0..nchunks_ { let chunk = &chunk_at(&input, self.bits, k_);', 1)],   # E4i
           sig='''
requires
    self.bits > 0,          // established by SumVec::new (unit flp_new)
ensures
    r is Ok <==> input@.len() == self.flattened_len && forall|j: int| 0 <= j < (input@.len() + self.bits - 1) / (self.bits as int) ==> rc_ok(#[trigger] chunk_of(input@, self.bits as int, j)),
    // coordinate j is the range-checked integer value of the j-th chunk of `bits` elements: LINEAR, chunk by chunk, none skipped
    r is Ok ==> r->Ok_0@.len() == (input@.len() + self.bits - 1) / (self.bits as int)
        && forall|j: int| 0 <= j < r->Ok_0@.len() ==> cong(fe_v(#[trigger] r->Ok_0@[j]), rc_val(chunk_of(input@, self.bits as int, j), self.last_weight_field)),
''', loops={0: '''
invariant
    unflattened@.len() == k_,
    forall|j: int| 0 <= j < k_ ==> rc_ok(#[trigger] chunk_of(input@, self.bits as int, j)),
    forall|j: int| 0 <= j < k_ ==> cong(fe_v(#[trigger] unflattened@[j]), rc_val(chunk_of(input@, self.bits as int, j), self.last_weight_field)),
'''}, before=[('let chunk = &chunk_at(', 'lemma_chunk_idx(input@.len() as int, self.bits as int, k_ as int);'),
                   ('unflattened.push(', 'assert(chunk@ == chunk_of(input@, self.bits as int, k_ as int));')])
    return u
