"""C05 — flp::types::parallel_sum_range_checks under contract (Verus): the wires handed to the ParallelSum<Mul> gadget, chunk by chunk, for ANY
input length, chunk length and number of shares.

    for every chunk c (chunk_length inputs, the last one possibly partial) with joint randomness r_c, the gadget is called once with
        args[2i]   = r_c^(i+1) * x_{c,i}          args[2i+1] = x_{c,i} - 1/num_shares           for the inputs of the chunk
        args[2i]   = 0                            args[2i+1] = -1/num_shares                    for the padding of a partial chunk
    and the result is the in-order field sum of the gadget outputs over EVERY chunk (the gadget is an uninterpreted function of its wires).

Why the constant is scaled (lemma_constant_shares): when x is additively shared into num_shares shares, the second wires add up to x - 1 and the
first wires to r^(i+1) * x - i.e. the shares of the wires of the num_shares == 1 circuit, whose output sum_c sum_i r_c^(i+1) x_i (x_i - 1) (with
the ParallelSum<Mul> contract of unit gadget_poly) vanishes on 0/1 inputs.

Rewrites beyond the listed ones (E4c/E4i): `input.chunks(n).zip(joint_randomness)` -> index loop over min(number of chunks, joint_randomness.len());
`chunk.iter().zip(padded_chunk.as_chunks_mut::<2>().0)` / `padded_chunk[2*len..].as_chunks_mut::<2>().0` -> index loops over the pairs
(padded_chunk[2i], padded_chunk[2i+1])."""
from fe_common import FE_PRELUDE
from vunit import VUnit

T = 'src/flp/types.rs'
PRELUDE = '''
pub enum FlpError { Field, Gadget, Other }
proof fn lemma_c0(x: Fe) ensures cong(fe_v(x), fe_v(x)) { lemma_cong_refl(fe_v(x)); }
// F::from(F::valid_integer_try_from(num_shares)?) followed by .inv(): 1/num_shares in the field  (C09: from, inv)
pub uninterp spec fn shares_inv(num_shares: int) -> Fe;
pub uninterp spec fn inv_spec(a: Fe) -> Fe;
#[verifier::external_body]
fn fe_from_valid_usize(n: usize) -> (r: Result<Fe, FlpError>) ensures r is Ok ==> r->Ok_0 == fe_mk(n as int) { unimplemented!() }
#[verifier::external_body]
fn fe_inv(a: Fe) -> (r: Fe) ensures r == inv_spec(a), fe_v(a) != 0 ==> cong(fe_v(r) * fe_v(a), 1) { unimplemented!() }
// the gadget: an uninterpreted function of the wire vector (ParallelSum<Mul>: unit gadget_poly)
pub uninterp spec fn g_eval(args: Seq<Fe>) -> Option<Fe>;
#[verifier::external_body]
pub struct GadgetBox { _g: u8 }
impl GadgetBox {
    #[verifier::external_body]
    fn eval(&mut self, inp: &Vec<Fe>) -> (r: Result<Fe, FlpError>) ensures match g_eval(inp@) { Some(v) => r == Ok::<Fe, FlpError>(v), None => r is Err } { unimplemented!() }
}
// input.chunks(n)  [std semantics; chunks(0) panics]
#[verifier::external_body]
fn chunks_count(len: usize, n: usize) -> (r: usize) requires n > 0 ensures r as int == (len as int + n as int - 1) / (n as int) { unimplemented!() }
pub open spec fn chunk_of(s: Seq<Fe>, n: int, k: int) -> Seq<Fe> { s.subrange(k * n, if (k + 1) * n <= s.len() { (k + 1) * n } else { s.len() as int }) }
#[verifier::external_body]
fn chunk_at(input: &Vec<Fe>, n: usize, k: usize) -> (r: Vec<Fe>) requires n > 0, (k as int) * (n as int) < input@.len() ensures r@ == chunk_of(input@, n as int, k as int) { unimplemented!() }
proof fn lemma_chunk_idx(len: int, n: int, k: int)
    requires n > 0, len >= 0, 0 <= k < (len + n - 1) / n
    ensures k * n < len
{
    lemma_fundamental_div_mod(len + n - 1, n);
    let q = (len + n - 1) / n;
    lemma_mod_bound(len + n - 1, n);
    assert(k * n < len) by (nonlinear_arith) requires len + n - 1 == n * q + (len + n - 1) % n, 0 <= (len + n - 1) % n < n, 0 <= k < q, n > 0;
}
// r^(i+1) as computed: r_power starts at r and is multiplied by r after each input
pub open spec fn rpow(r: Fe, i: nat) -> Fe decreases i { if i == 0 { r } else { fe_mk(fe_v(rpow(r, (i - 1) as nat)) * fe_v(r)) } }
// the wire vector of one chunk
pub open spec fn wires(chunk: Seq<Fe>, r: Fe, sinv: Fe, chunk_length: int) -> Seq<Fe> {
    Seq::new((2 * chunk_length) as nat, |p: int| {
        let i = p / 2;
        if i < chunk.len() { if p % 2 == 0 { fe_mk(fe_v(rpow(r, i as nat)) * fe_v(chunk[i])) } else { fe_mk(fe_v(chunk[i]) - fe_v(sinv)) } }
        else { if p % 2 == 0 { fe_mk(0) } else { fe_mk(-fe_v(sinv)) } }
    })
}
pub open spec fn all_chunks_ok(input: Seq<Fe>, jr: Seq<Fe>, sinv: Fe, cl: int, c: int) -> bool { forall|k: int| 0 <= k < c ==> g_eval(#[trigger] wires(chunk_of(input, cl, k), jr[k], sinv, cl)) is Some }
// in-order field sum of the gadget over the first c chunks
pub open spec fn out_sum(input: Seq<Fe>, jr: Seq<Fe>, sinv: Fe, cl: int, c: int) -> Fe decreases c
{ if c <= 0 { fe_mk(0) } else { fe_mk(fe_v(out_sum(input, jr, sinv, cl, c - 1)) + fe_v(g_eval(wires(chunk_of(input, cl, c - 1), jr[c - 1], sinv, cl))->Some_0)) } }
'''


def unit():
    u = VUnit('range_checks', 'parallel_sum_range_checks: wire layout per chunk, num_shares-scaled constants, sum over every chunk')
    u.raw('global size_of usize == 8;\n' + FE_PRELUDE, 'abstract-field')
    u.raw(PRELUDE, 'prelude')
    u.item(T, ['fn parallel_sum_range_checks'], ret='res', attrs='#[verifier::loop_isolation(false)]',
           rewrites=[(r'<F: NttFriendlyFieldElement>', '', 1), (r'gadget: &mut Box<dyn Gadget<F>>', 'gadget: &mut GadgetBox', 1), (r'&\[F\]', '&Vec<Fe>', '*'), (r'Result<F, FlpError>', 'Result<Fe, FlpError>', 1),
                     (r'F::from\(F::valid_integer_try_from\(num_shares\)\?\)', 'fe_from_valid_usize(num_shares)?', 1), (r'f_num_shares\.inv\(\)', 'fe_inv(f_num_shares)', 1),
                     (r'\bF::zero\(\)', 'fe_zero()', '*'),
                     (r'for \(chunk, &r\) in input\.chunks\(chunk_length\)\.zip\(joint_randomness\) \{',
                      'let nch_ = chunks_count(input.len(), chunk_length); let nz_ = if nch_ <= joint_randomness.len() { nch_ } else { joint_randomness.len() }; for c_ in 0..nz_ { let chunk = &chunk_at(input, chunk_length, c_); let r = joint_randomness[c_];', 1),
                     (r'for \(input, args\) in chunk\.iter\(\)\.zip\(padded_chunk\.as_chunks_mut::<2>\(\)\.0\) \{\s*args\[0\] = r_power \* \*input;\s*args\[1\] = \*input - num_shares_inverse;',
                      'for i_ in 0..chunk.len() { let input = &chunk[i_]; padded_chunk[2 * i_] = r_power * *input; padded_chunk[2 * i_ + 1] = *input - num_shares_inverse;', 1),
                     (r'for args in padded_chunk\[chunk\.len\(\) \* 2\.\.\]\.as_chunks_mut::<2>\(\)\.0 \{\s*args\[0\] = fe_zero\(\);\s*args\[1\] = -num_shares_inverse;',
                      'for i_ in chunk.len()..chunk_length { padded_chunk[2 * i_] = fe_zero(); padded_chunk[2 * i_ + 1] = -num_shares_inverse;', 1)],
           sig='''
requires
    chunk_length >= 1, 2 * chunk_length <= usize::MAX,       // derived: the constructors refuse chunk_length == 0 (unit flp_new)
ensures
    // with sinv = inv(num_shares as a field element):
    res is Ok ==> range_post(input@, joint_randomness@, chunk_length as int, num_shares as int, inv_spec(fe_mk(num_shares as int)), res->Ok_0),
''', loops={0: '''
invariant
    padded_chunk@.len() == 2 * chunk_length, nz_ <= nch_, nz_ <= joint_randomness@.len(),
    nch_ as int == (input@.len() + chunk_length - 1) / (chunk_length as int),
    all_chunks_ok(input@, joint_randomness@, num_shares_inverse, chunk_length as int, c_ as int),
    output == out_sum(input@, joint_randomness@, num_shares_inverse, chunk_length as int, c_ as int),
''', 1: '''
invariant
    padded_chunk@.len() == 2 * chunk_length, chunk@.len() <= chunk_length, i_ <= chunk@.len(),
    r_power == rpow(r, i_ as nat),
    forall|p: int| 0 <= p < 2 * i_ ==> #[trigger] padded_chunk@[p] == wires(chunk@, r, num_shares_inverse, chunk_length as int)[p],
''', 2: '''
invariant
    padded_chunk@.len() == 2 * chunk_length, chunk@.len() <= i_ <= chunk_length,
    forall|p: int| 0 <= p < 2 * i_ ==> #[trigger] padded_chunk@[p] == wires(chunk@, r, num_shares_inverse, chunk_length as int)[p],
'''}, before=[('let nch_', 'broadcast use axiom_fe_range; axiom_fe_range(output);'),
              ('let chunk = &chunk_at(', 'lemma_chunk_idx(input@.len() as int, chunk_length as int, c_ as int);'),
              ('let mut r_power = r', '''
    assert(chunk@.len() <= chunk_length) by {
        assert((c_ + 1) * chunk_length - c_ * chunk_length == chunk_length) by (nonlinear_arith);
    }
'''), ('output += gadget.eval(&padded_chunk)?', '''
    assert(padded_chunk@ =~= wires(chunk@, r, num_shares_inverse, chunk_length as int));
'''), ('Ok(output)', '''
    broadcast use axiom_fe_mk;
    lemma_cong_mod(num_shares as int);
    lemma_c0(num_shares_inverse);
    lemma_cong_mul(fe_v(num_shares_inverse), fe_v(num_shares_inverse), num_shares as int, (num_shares as int) % P());
    if (num_shares as int) % P() != 0 { lemma_cong_trans(fe_v(num_shares_inverse) * (num_shares as int), fe_v(num_shares_inverse) * ((num_shares as int) % P()), 1); }
    assert(range_post(input@, joint_randomness@, chunk_length as int, num_shares as int, num_shares_inverse, output));
''', -1)], ghost_after=[])
    u.raw('''
pub open spec fn range_post(input: Seq<Fe>, jr: Seq<Fe>, cl: int, num_shares: int, sinv: Fe, out: Fe) -> bool {
    let nch = (input.len() + cl - 1) / cl;
    let nz = if nch <= jr.len() { nch } else { jr.len() as int };
    // 1/num_shares (when num_shares is not a multiple of the modulus)
    &&& (num_shares % P() != 0 ==> cong(fe_v(sinv) * num_shares, 1))
    // the gadget succeeded on the wires of every chunk, and the result is the in-order sum of its outputs
    &&& all_chunks_ok(input, jr, sinv, cl, nz)
    &&& out == out_sum(input, jr, sinv, cl, nz)
}
// why the constant is scaled: the second wires of the shares of x add up to x - 1
proof fn lemma_constant_shares(shares: Seq<Fe>, sinv: Fe, n: int)
    requires 0 <= n <= shares.len(), P() > 1
    ensures cong(wire2_sum(shares, sinv, n), val_sum(shares, n) - n * fe_v(sinv))
    decreases n
{
    broadcast use axiom_fe_mk;
    if n == 0 { lemma_cong_refl(0); assert(0 * fe_v(sinv) == 0); } else {
        lemma_constant_shares(shares, sinv, n - 1);
        lemma_cong_mod(fe_v(shares[n - 1]) - fe_v(sinv));
        lemma_cong_add(wire2_sum(shares, sinv, n - 1), val_sum(shares, n - 1) - (n - 1) * fe_v(sinv), fe_v(fe_mk(fe_v(shares[n - 1]) - fe_v(sinv))), fe_v(shares[n - 1]) - fe_v(sinv));
        assert(val_sum(shares, n - 1) - (n - 1) * fe_v(sinv) + (fe_v(shares[n - 1]) - fe_v(sinv)) == val_sum(shares, n) - n * fe_v(sinv)) by (nonlinear_arith)
            requires val_sum(shares, n) == val_sum(shares, n - 1) + fe_v(shares[n - 1]);
    }
}
pub open spec fn val_sum(shares: Seq<Fe>, n: int) -> int decreases n { if n <= 0 { 0 } else { val_sum(shares, n - 1) + fe_v(shares[n - 1]) } }
pub open spec fn wire2_sum(shares: Seq<Fe>, sinv: Fe, n: int) -> int decreases n { if n <= 0 { 0 } else { wire2_sum(shares, sinv, n - 1) + fe_v(fe_mk(fe_v(shares[n - 1]) - fe_v(sinv))) } }
''', 'post')
    return u
