"""C04 — Poplar1::verify_next (src/vdaf/poplar1.rs) under contract (Verus): the (state, message) sequencing of the two sketch rounds.

    Ok exactly for the four matching pairs: (Inner, RoundOne) + SketchInner, (Leaf, RoundOne) + SketchLeaf  -> Continue with the state moved to
    RoundTwo, the output share carried over UNCHANGED and the verifier share finish_sketch(sketch, A_share, B_share, is_leader) of the same
    level kind; (Inner, RoundTwo) + Done, (Leaf, RoundTwo) + Done -> Finish with exactly the stored output share.  EVERY other pair is an Err:
    in particular an output share is released ONLY from RoundTwo on Done - never from RoundOne (the sketch has not been checked), never on
    a sketch message, never across the inner / leaf kinds.

The type definitions SketchState, VerifierState, VerifierStateVariant, VerifierMessageVariant are extracted; Field64 / Field255 are two
abstract element types; finish_sketch is an uninterpreted function here (its formula: units poplar1_sketch and the Kani harness
pop_finish_sketch_formula)."""
from vunit import VUnit

F = 'src/vdaf/poplar1.rs'
PRELUDE = '''
pub enum VdafError { Uncategorized(String) }
#[verifier::external_body] #[derive(Clone, Copy)] pub struct Field64 { _x: u64 }
#[verifier::external_body] #[derive(Clone, Copy)] pub struct Field255 { _x: u64 }
pub uninterp spec fn finish_sketch_spec<F>(sketch: Seq<F>, a: F, b: F, is_leader: bool) -> Seq<F>;
#[verifier::external_body]
fn finish_sketch<F>(sketch: [F; 3], A_share: F, B_share: F, is_leader: bool) -> (r: Vec<F>) ensures r@ == finish_sketch_spec(sketch@, A_share, B_share, is_leader) { unimplemented!() }
pub enum Poplar1FieldVec { Inner(Vec<Field64>), Leaf(Vec<Field255>) }
'''
TYPES2 = '''
pub struct Poplar1VerifierState(pub VerifierStateVariant);
pub struct Poplar1VerifierMessage(pub VerifierMessageVariant);
pub enum VerifyTransition { Continue(Poplar1VerifierState, Poplar1FieldVec), Finish(Poplar1FieldVec) }
pub struct Poplar1Any { pub bits: usize }
'''


def unit():
    u = VUnit('pop_verify_next', 'Poplar1::verify_next: exactly four (state, message) pairs; output share only from RoundTwo on Done')
    u.raw(PRELUDE, 'abstract-fields')
    u.struct_item(F, ['enum SketchState'])
    u.struct_item(F, ['struct VerifierState'])
    u.struct_item(F, ['enum VerifierStateVariant'])
    u.struct_item(F, ['enum VerifierMessageVariant'])
    u.raw(TYPES2, 'wrappers')
    u.item(F, [r'impl<P: Xof<SEED_SIZE>, const SEED_SIZE: usize> Aggregator<SEED_SIZE, 16>\s*for Poplar1<P, SEED_SIZE>\s*(?=\{)', 'fn verify_next'], ret='r', impl_header='impl Poplar1Any',
           rewrites=[(r'Result<VerifyTransition<Self, SEED_SIZE, 16>, VdafError>', 'Result<VerifyTransition, VdafError>', 1), (r'"\.into\(\)', '".to_string()', '*')],
           sig='''
ensures
    match (state.0, msg.0) {
        // round one, inner and leaf: the state moves to RoundTwo with the SAME output share; the verifier share is finish_sketch of the stored shares
        (VerifierStateVariant::Inner(VerifierState { sketch: SketchState::RoundOne { A_share, B_share, is_leader }, output_share }), VerifierMessageVariant::SketchInner(sk)) =>
            match r { Ok(VerifyTransition::Continue(Poplar1VerifierState(VerifierStateVariant::Inner(VerifierState { sketch: SketchState::RoundTwo, output_share: o2 })), Poplar1FieldVec::Inner(v))) =>
                          o2@ == output_share@ && v@ == finish_sketch_spec(sk@, A_share, B_share, is_leader), _ => false },
        (VerifierStateVariant::Leaf(VerifierState { sketch: SketchState::RoundOne { A_share, B_share, is_leader }, output_share }), VerifierMessageVariant::SketchLeaf(sk)) =>
            match r { Ok(VerifyTransition::Continue(Poplar1VerifierState(VerifierStateVariant::Leaf(VerifierState { sketch: SketchState::RoundTwo, output_share: o2 })), Poplar1FieldVec::Leaf(v))) =>
                          o2@ == output_share@ && v@ == finish_sketch_spec(sk@, A_share, B_share, is_leader), _ => false },
        // round two: Finish with exactly the stored output share
        (VerifierStateVariant::Inner(VerifierState { sketch: SketchState::RoundTwo, output_share }), VerifierMessageVariant::Done) =>
            match r { Ok(VerifyTransition::Finish(Poplar1FieldVec::Inner(o))) => o@ == output_share@, _ => false },
        (VerifierStateVariant::Leaf(VerifierState { sketch: SketchState::RoundTwo, output_share }), VerifierMessageVariant::Done) =>
            match r { Ok(VerifyTransition::Finish(Poplar1FieldVec::Leaf(o))) => o@ == output_share@, _ => false },
        // EVERY other pair is refused: no output share from RoundOne, none on a sketch message, none across the inner / leaf kinds
        _ => r is Err,
    },
''')
    return u
