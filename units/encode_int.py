"""C01/C16 — the ENCODING side of the range-checked integer codec under contract (Verus, F::Integer = u128, abstract modulus):

  FieldElementWithInteger::encode_as_bitvector(input, bits): Ok exactly when bits is a valid bit length (bits < 128, 2^bits <= p)
        and input < 2^bits; the iterator it returns yields bit k of the input for k = 0..bits (iterator `next`: assumed, std Range)
  encode_range_checked_int(value, bits, last_weight, out): for 1 <= bits <= 128, 2^(bits-1) <= p, 1 <= last_weight <= 2^(bits-1)
        (what the constructors establish, unit flp_new): Ok EXACTLY when value <= last_weight + 2^(bits-1) - 1 (= the configured
        maximum); then exactly `bits` elements are appended, each 0 or 1, whose weighted sum  sum_{i<bits-1} d_i 2^i + d_last*last_weight
        (the function decode_range_checked_int computes, unit range_int) is the value: decode(encode(v)) == v for EVERY v in range,
        including maxima at the top of the integer type; nothing is appended on Err; no shift, subtraction or index can overflow
  Sum::encode_measurement: Ok exactly when summand <= max_measurement; `bits` digits decoding to the summand
  SumVec::encode_measurement: Ok exactly when the length is len and every entry <= max_measurement; chunk j decodes to entry j
  L1BoundSum::encode_measurement: Ok exactly when the length is measurement_len, every entry <= max_value AND the (unbounded integer)
        sum of the entries <= max_value; chunk j decodes to entry j and the last chunk to the sum; the running sum can never overflow
        silently or panic: an overflowing sum is an Err.

Rewrites beyond the listed regexes: F::Integer -> u128, F -> Fe(canonical integer); `ct_gt` / `conditional_select` -> shims with their
documented semantics; `out.extend(iter?)` -> match + extend_bits shim; `for x in v` / `v.iter()` -> index loop (E4c''); `?` with
From<FieldError> -> match (E4d); `a.checked_add(b).ok_or_else(|| E)?` -> match (E4d)."""
from vunit import VUnit
import flp_new

T = 'src/flp/types.rs'
L1 = 'src/flp/types/l1boundsum.rs'
FLD = 'src/field.rs'

PRELUDE = '''
pub enum FieldError { BitVectorTooLong, BitVectorOverflow, IntegerTryFrom, ModulusOverflow }
pub enum FlpErrorF { Flp(FlpError), Field(FieldError) }
// canonical integer representative of a field element (F::from(i) for i < p)
#[verifier::external_body]
fn fe_of(x: u128) -> (r: Fe) requires (x as int) < MODULUS() ensures r.0 == x { unimplemented!() }
fn fe_zero() -> (r: Fe) ensures r.0 == 0 { Fe(0) }
fn fe_one() -> (r: Fe) ensures r.0 == 1 { Fe(1) }
pub struct Choice { pub b: bool }
// subtle: a.ct_gt(&b), T::conditional_select(&a, &b, choice)   [documented semantics]
#[verifier::external_body]
fn ct_gt_int(a: u128, b: u128) -> (r: Choice) ensures r.b == (a > b) { unimplemented!() }
#[verifier::external_body]
fn select_int(a: u128, b: u128, c: Choice) -> (r: u128) ensures r == (if c.b { b } else { a }) { unimplemented!() }
#[verifier::external_body]
fn select_fe(a: Fe, b: Fe, c: Choice) -> (r: Fe) ensures r == (if c.b { b } else { a }) { unimplemented!() }
// contract proved in unit range_int on the extracted valid_integer_bitlength (Field128 instance; abstract modulus here)
#[verifier::external_body]
fn valid_integer_bitlength(bits: usize) -> (r: bool) ensures r == (bits < 128 && (pow2(bits as nat) as int) <= MODULUS()) { unimplemented!() }

// ---- bits of a u128 ----------------------------------------------------------------------------------------------------
pub open spec fn bit(x: u128, k: int) -> int { ((x >> (k as u128)) & 1u128) as int }
pub open spec fn bitsum(x: u128, n: int) -> int decreases n
{ if n <= 0 { 0 } else { bitsum(x, n - 1) + bit(x, n - 1) * (pow2((n - 1) as nat) as int) } }
pub open spec fn mask(n: int) -> u128 { ((1u128 << (n as u128)) - 1) as u128 }
proof fn lemma_one_shl_u(k: nat) requires k < 128 ensures (1u128 << (k as u128)) as nat == pow2(k), (1u128 << (k as u128)) >= 1 decreases k
{
    lemma2_to64();
    if k == 0 { assert(1u128 << 0u128 == 1u128) by (bit_vector); }
    else { let j = (k - 1) as nat; lemma_one_shl_u(j); let ju = j as u128;
        assert(ju < 127 ==> (1u128 << ((ju + 1) as u128)) == 2 * (1u128 << ju) && (1u128 << ju) <= 0x4000_0000_0000_0000_0000_0000_0000_0000u128) by (bit_vector);
        lemma_pow2_unfold(k); }
}
proof fn lemma_low_bits(x: u128, n: nat)
    requires n < 128
    ensures bitsum(x, n as int) == (x & mask(n as int)) as int
    decreases n
{
    if n == 0 {
        assert(x & ((1u128 << 0u128) - 1) as u128 == 0) by (bit_vector);
    } else {
        let m = (n - 1) as nat;
        let mu = m as u128;
        lemma_low_bits(x, m);
        lemma_one_shl_u(m); lemma_one_shl_u(n);
        let b = (x >> mu) & 1u128;
        assert(b == 0 || b == 1) by (bit_vector) requires b == (x >> mu) & 1u128;
        assert(mu < 127 ==> (x & ((1u128 << ((mu + 1) as u128)) - 1) as u128) == (x & ((1u128 << mu) - 1) as u128) + (((x >> mu) & 1u128) << mu)) by (bit_vector);
        if b == 0 { assert((b << mu) == 0) by (bit_vector) requires b == 0; }
        else { assert((b << mu) == (1u128 << mu)) by (bit_vector) requires b == 1; }
        assert(bit(x, m as int) == b as int);
        assert((b << mu) as int == b as int * (pow2(m) as int)) by (nonlinear_arith) requires b == 0 || b == 1, b == 0 ==> (b << mu) == 0, b == 1 ==> (b << mu) as int == pow2(m) as int;
    }
}
// the bits of a number below 2^n, weighted by the powers of two, give the number back
pub proof fn lemma_bitsum_is_value(x: u128, n: nat)
    requires n < 128, (x as int) < pow2(n)
    ensures bitsum(x, n as int) == x as int
{
    lemma_low_bits(x, n);
    lemma_one_shl_u(n);
    let nu = n as u128;
    assert(nu < 128 && x < (1u128 << nu) ==> x & ((1u128 << nu) - 1) as u128 == x) by (bit_vector);
}
pub proof fn lemma_bit01(x: u128, k: int) requires 0 <= k < 128 ensures bit(x, k) == 0 || bit(x, k) == 1
{ let ku = k as u128; let b = (x >> ku) & 1u128; assert(b == 0 || b == 1) by (bit_vector) requires b == (x >> ku) & 1u128; }

// ---- the iterator returned by encode_as_bitvector, and Vec::extend over it ----------------------------------------------
pub struct BitIter { pub bits: usize, pub input: u128 }
// BitvectorRepresentationIter::next yields F::from((input >> k) & 1) for k = 0, 1, .., bits-1 (std Range), extend pushes them all
#[verifier::external_body]
fn extend_bits(out: &mut Vec<Fe>, it: BitIter)
    ensures final(out)@.len() == old(out)@.len() + it.bits,
            forall|i: int| 0 <= i < old(out)@.len() ==> final(out)@[i] == old(out)@[i],
            forall|k: int| 0 <= k < it.bits ==> (#[trigger] final(out)@[old(out)@.len() + k]).0 as int == bit(it.input, k),
{ unimplemented!() }

// ---- what decode_range_checked_int computes on elements [start, start + bits) of s ---------------------------------------
pub open spec fn dsum(s: Seq<Fe>, start: int, n: int) -> int decreases n
{ if n <= 0 { 0 } else { dsum(s, start, n - 1) + (s[start + n - 1].0 as int) * (pow2((n - 1) as nat) as int) } }
pub open spec fn chunk_value(s: Seq<Fe>, start: int, bits: int, lw: int) -> int { dsum(s, start, bits - 1) + (s[start + bits - 1].0 as int) * lw }
pub open spec fn is01(s: Seq<Fe>, start: int, n: int) -> bool { forall|i: int| start <= i < start + n ==> (#[trigger] s[i]).0 == 0 || s[i].0 == 1 }
proof fn lemma_dsum_bits(s: Seq<Fe>, start: int, x: u128, n: int)
    requires 0 <= n, 0 <= start, forall|k: int| 0 <= k < n ==> (#[trigger] s[start + k]).0 as int == bit(x, k)
    ensures dsum(s, start, n) == bitsum(x, n)
    decreases n
{ if n > 0 { lemma_dsum_bits(s, start, x, n - 1); } }
// dsum / chunk_value only read elements [start, start + n)
proof fn lemma_dsum_frame(s: Seq<Fe>, t: Seq<Fe>, start: int, n: int)
    requires 0 <= n, 0 <= start, forall|i: int| start <= i < start + n ==> #[trigger] s[i] == t[i]
    ensures dsum(s, start, n) == dsum(t, start, n)
    decreases n
{ if n > 0 { lemma_dsum_frame(s, t, start, n - 1); } }
pub open spec fn max_of(bits: int, lw: int) -> int { lw + (pow2((bits - 1) as nat) as int) - 1 }

// ---- measurement-level specs -------------------------------------------------------------------------------------------
pub open spec fn wf_codec(max: int, bits: int, lw: int) -> bool { 0 < max < MODULUS() && max <= u128::MAX as int && bits == spec_bits(max) && lw == spec_last_weight(max) }
proof fn lemma_wf(max: int, bits: int, lw: int)
    requires wf_codec(max, bits, lw)
    ensures 1 <= bits <= 128, (pow2((bits - 1) as nat) as int) <= MODULUS(), 1 <= lw <= pow2((bits - 1) as nat) as int, max_of(bits, lw) == max
{
    lemma_ilog2(max);
    lemma2_to64(); lemma_pow2_adds(64, 64);
    lemma_ilog2_bound(max, 128);
    lemma_pow2_unfold((spec_ilog2(max) + 1) as nat);
}
proof fn lemma_chunk_frame(s: Seq<Fe>, t: Seq<Fe>, start: int, bits: int, lw: int)
    requires 1 <= bits, 0 <= start, forall|i: int| start <= i < start + bits ==> #[trigger] s[i] == t[i]
    ensures chunk_value(s, start, bits, lw) == chunk_value(t, start, bits, lw)
{ lemma_dsum_frame(s, t, start, bits - 1); assert(s[start + bits - 1] == t[start + bits - 1]); }
proof fn lemma_chunk_pos(j: int, k: int, bits: int)
    requires 0 <= j < k, bits >= 1
    ensures (j + 1) * bits <= k * bits, j * bits + bits == (j + 1) * bits, j * bits >= 0
{
    assert((j + 1) * bits <= k * bits) by (nonlinear_arith) requires j + 1 <= k, bits >= 1;
    assert(j * bits + bits == (j + 1) * bits) by (nonlinear_arith);
    assert(j * bits >= 0) by (nonlinear_arith) requires j >= 0, bits >= 1;
}
pub open spec fn psum(m: Seq<u128>, k: int) -> int decreases k { if k <= 0 { 0 } else { psum(m, k - 1) + m[k - 1] as int } }
proof fn lemma_psum_mono(m: Seq<u128>, a: int, b: int) requires 0 <= a <= b ensures psum(m, a) <= psum(m, b) decreases b - a
{ if a < b { lemma_psum_mono(m, a, b - 1); } }
fn flp_from_field(e: FieldError) -> (r: FlpErrorF) ensures r == FlpErrorF::Field(e) { FlpErrorF::Field(e) }
fn flp_err(e: FlpError) -> (r: FlpErrorF) ensures r == FlpErrorF::Flp(e) { FlpErrorF::Flp(e) }
pub open spec fn all_le(m: Seq<u128>, n: int, max: int) -> bool { forall|j: int| 0 <= j < n ==> (#[trigger] m[j]) as int <= max }
pub open spec fn chunks_decode(s: Seq<Fe>, m: Seq<u128>, n: int, bits: int, lw: int) -> bool {
    forall|j: int| 0 <= j < n ==> chunk_value(s, j * bits, bits, lw) == (#[trigger] m[j]) as int
}
'''


def unit():
    I = 'u128'
    u = VUnit('encode_int', 'encode_as_bitvector / encode_range_checked_int / Sum, SumVec, L1BoundSum::encode_measurement (F::Integer = u128)')
    u.oracle = {'inject': 'src/flp/types.rs', 'file': 'encode_oracle.rs', 'test': 'verif_oracle_encode::oracle_encode_'}
    u.raw(flp_new.PRELUDE % dict(I=I, W=128, HALF='0x8000_0000_0000_0000_0000_0000_0000_0000u128'), 'prelude-flp_new')
    u.raw(PRELUDE, 'prelude')
    u.item(FLD, ['pub trait FieldElementWithInteger', 'fn encode_as_bitvector'], ret='r',
           rewrites=[(r'input: Self::Integer', 'input: u128', 1), (r'Result<BitvectorRepresentationIter<Self>, FieldError>', 'Result<BitIter, FieldError>', 1),
                     (r'\bSelf::valid_integer_bitlength\(', 'valid_integer_bitlength(', 1), (r'\bSelf::Integer::zero\(\)', '0u128', 1),
                     (r'BitvectorRepresentationIter \{\s*inner: 0\.\.bits,\s*input,\s*\}', 'BitIter { bits, input }', 1)],
           sig='''
ensures
    r is Ok <==> (bits < 128 && (pow2(bits as nat) as int) <= MODULUS() && (input as int) < pow2(bits as nat)),
    r is Ok ==> r->Ok_0.bits == bits && r->Ok_0.input == input,
    !(bits < 128 && (pow2(bits as nat) as int) <= MODULUS()) ==> r == Err::<BitIter, FieldError>(FieldError::BitVectorTooLong),
    (bits < 128 && (pow2(bits as nat) as int) <= MODULUS()) && (input as int) >= pow2(bits as nat) ==> r == Err::<BitIter, FieldError>(FieldError::BitVectorOverflow),
''', before=[('if input >> bits != 0u128', '''
    lemma_u128_shr_is_div(input, bits as u128);
    lemma_pow2_pos(bits as nat);
    if (input as int) < pow2(bits as nat) { lemma_basic_div(input as int, pow2(bits as nat) as int); }
    else { lemma_div_is_ordered(pow2(bits as nat) as int, input as int, pow2(bits as nat) as int); lemma_div_basics_3(pow2(bits as nat) as int); }
''')])
    u.item(T, ['fn encode_range_checked_int'], ret='r',
           rewrites=[(r'<F: FieldElementWithIntegerExt>', '', 1), (r'value: F::Integer', 'value: u128', 1), (r'last_weight: F::Integer', 'last_weight: u128', 1),
                     (r'out: &mut Vec<F>', 'out: &mut Vec<Fe>', 1), (r'\bF::Integer::one\(\)', '1u128', '*'),
                     (r'value\.ct_gt\(&threshold\)', 'ct_gt_int(value, threshold)', 1),
                     (r'F::Integer::conditional_select\(&F::Integer::zero\(\), &last_weight, high_bit\)', 'select_int(0u128, last_weight, Choice { b: high_bit.b })', 1),
                     (r'out\.extend\(F::encode_as_bitvector\(to_encode, bits - 1\)\?\);',
                      'match encode_as_bitvector(to_encode, bits - 1) { Ok(it_) => { extend_bits(out, it_); }, Err(e_) => { return Err(e_); } }', 1),
                     (r'F::conditional_select\(&F::zero\(\), &F::one\(\), high_bit\)', 'select_fe(fe_zero(), fe_one(), high_bit)', 1)],
           sig='''
requires
    // established by the constructors (unit flp_new): bits = floor(log2(max)) + 1, last_weight = max - (2^(bits-1) - 1), max < p
    1 <= bits <= 128,
    (pow2((bits - 1) as nat) as int) <= MODULUS(),
    1 <= last_weight as int <= pow2((bits - 1) as nat) as int,
ensures
    // accepted EXACTLY up to the configured maximum
    r is Ok <==> (value as int) <= max_of(bits as int, last_weight as int),
    r is Err ==> r == Err::<(), FieldError>(FieldError::BitVectorOverflow) && final(out)@ == old(out)@,
    r is Ok ==> final(out)@.len() == old(out)@.len() + bits
        && (forall|i: int| 0 <= i < old(out)@.len() ==> final(out)@[i] == old(out)@[i])
        && is01(final(out)@, old(out)@.len() as int, bits as int)
        // what decode_range_checked_int computes on the appended digits is the value
        && chunk_value(final(out)@, old(out)@.len() as int, bits as int, last_weight as int) == value as int,
''', before=[('let threshold =', 'lemma_one_shl((bits - 1) as usize); lemma_pow2_pos((bits - 1) as nat);'),
             ('match encode_as_bitvector(to_encode, bits - 1)', '''
    assert(bits - 1 < 128);
'''),
             ('out.push(select_fe(', '''
    let ghost n0 = old(out)@.len() as int;
    lemma_bitsum_is_value(to_encode, (bits - 1) as nat);
    lemma_dsum_bits(out@, n0, to_encode, bits - 1);
    assert forall|i: int| n0 <= i < n0 + bits - 1 implies (#[trigger] out@[i]).0 == 0 || out@[i].0 == 1 by {
        lemma_bit01(to_encode, i - n0);
        assert(out@[n0 + (i - n0)].0 as int == bit(to_encode, i - n0));
    }
''')],
           ghost_before=[('out.push(select_fe(', 'let ghost prev = out@;')],
           after=[('out.push(select_fe(fe_zero(), fe_one(), high_bit));', '''
    let ghost n0 = old(out)@.len() as int;
    assert(out@.len() == prev.len() + 1 && prev.len() == n0 + bits - 1);
    assert forall|i: int| 0 <= i < prev.len() implies #[trigger] out@[i] == prev[i] by {}
    lemma_dsum_frame(out@, prev, n0, bits - 1);
    assert(out@[n0 + bits - 1].0 == (if high_bit.b { 1u128 } else { 0u128 }));
    assert(out@[n0 + bits - 1].0 as int * (last_weight as int) == (if high_bit.b { last_weight as int } else { 0 })) by (nonlinear_arith)
        requires out@[n0 + bits - 1].0 == (if high_bit.b { 1u128 } else { 0u128 });
    assert forall|i: int| n0 <= i < n0 + bits implies (#[trigger] out@[i]).0 == 0 || out@[i].0 == 1 by {
        if i < n0 + bits - 1 { assert(out@[i] == prev[i]); }
    }
''')])

    C = flp_new._common(I)
    SW = flp_new.STRW + [(r'\bF::Integer\b', I, '*'), (r'pub\(super\) ', 'pub ', '*')]
    ERR = [(r'return Err\(FlpError::Encode\(fmt_opaque\(\)\)\);', 'return Err(flp_err(FlpError::Encode(fmt_opaque())));', '*'),
           (r'Result<Vec<F>, FlpError>', 'Result<Vec<Fe>, FlpErrorF>', '*'), (r'Result<Vec<Self::Field>, FlpError>', 'Result<Vec<Fe>, FlpErrorF>', '*'),
           # `f(..)?` with From<FieldError> for FlpError == match (E4d)
           (r'(encode_range_checked_int\((?:[^()]|\([^()]*\))*\))\?;', r'match \1 { Ok(()) => {}, Err(e_) => { return Err(flp_from_field(e_)); } }', '*')]
    # ---------------------------------------------------------------- Sum
    u.struct_item(T, ['pub struct Sum'], rewrites=SW)
    u.item(T, ['impl<F: NttFriendlyFieldElement> Type for Sum<F>', 'fn encode_measurement'], ret='r', impl_header='impl<F> Sum<F>', name='Sum_encode_measurement',
           rewrites=C + ERR + [(r'summand > &self\.max_measurement', '*summand > self.max_measurement', 1)],
           sig='''
requires
    wf_codec(self.max_measurement as int, self.bits as int, self.last_weight as int),
ensures
    r is Ok <==> (*summand) as int <= self.max_measurement as int,
    r is Ok ==> r->Ok_0@.len() == self.bits && is01(r->Ok_0@, 0, self.bits as int)
        && chunk_value(r->Ok_0@, 0, self.bits as int, self.last_weight as int) == (*summand) as int,
''', before=[('if *summand > self.max_measurement', 'lemma_wf(self.max_measurement as int, self.bits as int, self.last_weight as int);')])
    # ---------------------------------------------------------------- SumVec
    u.struct_item(T, ['pub struct SumVec'], rewrites=SW)
    u.item(T, ['impl<F, S> Type for SumVec<F, S>', 'fn encode_measurement'], ret='r', impl_header='impl<F, S> SumVec<F, S>', name='SumVec_encode_measurement',
           rewrites=C + ERR + [(r'for summand in measurement\.iter\(\) \{', 'for k_ in 0..measurement.len() { let summand = &measurement[k_];', 1)],
           sig='''
requires
    wf_codec(self.max_measurement as int, self.bits as int, self.last_weight as int),
ensures
    r is Ok <==> (measurement@.len() == self.len && all_le(measurement@, measurement@.len() as int, self.max_measurement as int)),
    r is Ok ==> r->Ok_0@.len() == measurement@.len() * self.bits && is01(r->Ok_0@, 0, r->Ok_0@.len() as int)
        // chunk j of the encoding decodes to entry j
        && chunks_decode(r->Ok_0@, measurement@, measurement@.len() as int, self.bits as int, self.last_weight as int),
''', before=[('let mut flattened', 'lemma_wf(self.max_measurement as int, self.bits as int, self.last_weight as int);'),
                   ('for k_ in 0..', 'assert(0 * (self.bits as int) == 0) by (nonlinear_arith);')],
           ghost_before=[('match encode_range_checked_int(', 'let ghost prev = flattened@;')],
           loops={0: '''
invariant
    1 <= self.bits <= 128,
    (pow2((self.bits - 1) as nat) as int) <= MODULUS(),
    1 <= self.last_weight as int <= pow2((self.bits - 1) as nat) as int,
    max_of(self.bits as int, self.last_weight as int) == self.max_measurement as int,
    flattened@.len() == k_ * self.bits,
    all_le(measurement@, k_ as int, self.max_measurement as int),
    is01(flattened@, 0, flattened@.len() as int),
    chunks_decode(flattened@, measurement@, k_ as int, self.bits as int, self.last_weight as int),
'''},
           loop_tail={0: '''
    let ghost b = self.bits as int;
    assert((k_ + 1) * b == k_ * b + b) by (nonlinear_arith);
    assert forall|j: int| 0 <= j < k_ + 1 implies chunk_value(flattened@, j * b, b, self.last_weight as int) == (#[trigger] measurement@[j]) as int by {
        if j < k_ {
            lemma_chunk_pos(j, k_ as int, b);
            lemma_chunk_frame(flattened@, prev, j * b, b, self.last_weight as int);
        }
    }
    assert forall|i: int| 0 <= i < flattened@.len() implies (#[trigger] flattened@[i]).0 == 0 || flattened@[i].0 == 1 by {
        if i < prev.len() { assert(flattened@[i] == prev[i]); }
    }
'''})
    # ---------------------------------------------------------------- L1BoundSum
    u.struct_item(L1, ['pub struct L1BoundSum'], rewrites=SW + [(r'PhantomData<\(S, F\)>', 'PhantomData<(S, F)>', '*')])
    u.item(L1, ['impl<F, S> Type for L1BoundSum<F, S>', 'fn encode_measurement'], ret='r', impl_header='impl<F, S> L1BoundSum<F, S>', name='L1BoundSum_encode_measurement',
           rewrites=C + ERR + [(r'measurement: &Self::Measurement', 'measurement: &Vec<u128>', 1), (r'u128::from\(F::zero\(\)\)', '0u128', '*'),
                               (r'for summand in measurement \{', 'for k_ in 0..measurement.len() { let summand = &measurement[k_];', 1),
                               # a.checked_add(b).ok_or_else(|| E)? == match (E4d)
                               (r'l1_norm\s*\.checked_add\(\*summand\)\s*\.ok_or_else\(\|\| (FlpError::Encode\("[^"]*"\.to_string\(\)\))\)\?',
                                r'match l1_norm.checked_add(*summand) { Some(v_) => v_, None => { return Err(flp_err(\1)); } }', '*')],
           sig='''
requires
    wf_codec(self.max_value as int, self.bits as int, self.last_weight as int),
ensures
    // accepted exactly when the length is right, every entry is in range AND the L1 norm (as an unbounded integer) is in range
    r is Ok <==> (measurement@.len() == self.measurement_len && all_le(measurement@, measurement@.len() as int, self.max_value as int)
                  && psum(measurement@, measurement@.len() as int) <= self.max_value as int),
    r is Ok ==> r->Ok_0@.len() == (measurement@.len() + 1) * self.bits && is01(r->Ok_0@, 0, r->Ok_0@.len() as int)
        && chunks_decode(r->Ok_0@, measurement@, measurement@.len() as int, self.bits as int, self.last_weight as int)
        // the last chunk is the claimed L1 norm: the sum of the entries
        && chunk_value(r->Ok_0@, measurement@.len() * self.bits, self.bits as int, self.last_weight as int) == psum(measurement@, measurement@.len() as int),
''', before=[('let mut flattened', 'lemma_wf(self.max_value as int, self.bits as int, self.last_weight as int);'),
             ('for k_ in 0..', 'assert(0 * (self.bits as int) == 0) by (nonlinear_arith);'),
             ('l1_norm = match l1_norm', 'lemma_psum_mono(measurement@, k_ + 1, measurement@.len() as int);'),
             ('Ok(flattened)', '''
    let ghost b = self.bits as int;
    let ghost n = measurement@.len() as int;
    assert((n + 1) * b == n * b + b) by (nonlinear_arith);
    assert forall|j: int| 0 <= j < n implies chunk_value(flattened@, j * b, b, self.last_weight as int) == (#[trigger] measurement@[j]) as int by {
        lemma_chunk_pos(j, n, b);
        lemma_chunk_frame(flattened@, prev2, j * b, b, self.last_weight as int);
    }
    assert forall|i: int| 0 <= i < flattened@.len() implies (#[trigger] flattened@[i]).0 == 0 || flattened@[i].0 == 1 by {
        if i < prev2.len() { assert(flattened@[i] == prev2[i]); }
    }
''')],
           ghost_before=[('match encode_range_checked_int(*summand', 'let ghost prev = flattened@;'),
                         ('match encode_range_checked_int(l1_norm', 'let ghost prev2 = flattened@;')],
           loops={0: '''
invariant
    1 <= self.bits <= 128,
    (pow2((self.bits - 1) as nat) as int) <= MODULUS(),
    1 <= self.last_weight as int <= pow2((self.bits - 1) as nat) as int,
    max_of(self.bits as int, self.last_weight as int) == self.max_value as int,
    flattened@.len() == k_ * self.bits,
    all_le(measurement@, k_ as int, self.max_value as int),
    l1_norm as int == psum(measurement@, k_ as int),
    is01(flattened@, 0, flattened@.len() as int),
    chunks_decode(flattened@, measurement@, k_ as int, self.bits as int, self.last_weight as int),
'''},
           loop_tail={0: '''
    let ghost b = self.bits as int;
    assert((k_ + 1) * b == k_ * b + b) by (nonlinear_arith);
    assert forall|j: int| 0 <= j < k_ + 1 implies chunk_value(flattened@, j * b, b, self.last_weight as int) == (#[trigger] measurement@[j]) as int by {
        if j < k_ {
            lemma_chunk_pos(j, k_ as int, b);
            lemma_chunk_frame(flattened@, prev, j * b, b, self.last_weight as int);
        }
    }
    assert forall|i: int| 0 <= i < flattened@.len() implies (#[trigger] flattened@[i]).0 == 0 || flattened@[i].0 == 1 by {
        if i < prev.len() { assert(flattened@[i] == prev[i]); }
    }
'''})
    return u
