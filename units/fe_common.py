"""E3b (DESIGN §3.2): the abstract field `Fe` used by Verus units over code generic in `F: FieldElement`.

`Fe` is an opaque type with an integer view fe_v(a) in [0, P()) for an UNINTERPRETED modulus P() > 1.  Its operator
impls are external_body with the field-layer contract `view(a op b) == (view(a) op view(b)) mod p` - exactly what
C09 proves for the three Montgomery fields (unit field_layer: add/sub/mul/neg/eq/zero/one/from under `x@ = val(x.0)`) and what is assumed of Field255/fiat-crypto.  The operators are
declared through vstd's *SpecImpl traits, so extracted code keeps its `+ - * += -= *= == !=` tokens unchanged.
Anything proved against `Fe` holds for every field meeting that contract."""

FE_PRELUDE = '''
use vstd::std_specs::ops::*;
use vstd::std_specs::cmp::*;
// ---- abstract field (assumed contract: C09 field layer) --------------------------------------------------------
pub uninterp spec fn P() -> int;
#[verifier::external_body]
#[derive(Clone, Copy)]
pub struct Fe { _x: u64 }
pub uninterp spec fn fe_v(a: Fe) -> int;
pub uninterp spec fn fe_mk(i: int) -> Fe;
#[verifier::external_body]
pub broadcast proof fn axiom_fe_mk(i: int)
    ensures #[trigger] fe_v(fe_mk(i)) == i % P()
{}
#[verifier::external_body]
pub broadcast proof fn axiom_fe_range(a: Fe)
    ensures 0 <= #[trigger] fe_v(a) < P(), fe_mk(fe_v(a)) == a, P() > 1
{}
impl AddSpecImpl<Fe> for Fe {
    open spec fn obeys_add_spec() -> bool { true }
    open spec fn add_req(self, rhs: Fe) -> bool { true }
    open spec fn add_spec(self, rhs: Fe) -> Fe { fe_mk(fe_v(self) + fe_v(rhs)) }
}
impl core::ops::Add for Fe { type Output = Fe; #[verifier::external_body] fn add(self, rhs: Fe) -> Fe { unimplemented!() } }
impl SubSpecImpl<Fe> for Fe {
    open spec fn obeys_sub_spec() -> bool { true }
    open spec fn sub_req(self, rhs: Fe) -> bool { true }
    open spec fn sub_spec(self, rhs: Fe) -> Fe { fe_mk(fe_v(self) - fe_v(rhs)) }
}
impl core::ops::Sub for Fe { type Output = Fe; #[verifier::external_body] fn sub(self, rhs: Fe) -> Fe { unimplemented!() } }
impl MulSpecImpl<Fe> for Fe {
    open spec fn obeys_mul_spec() -> bool { true }
    open spec fn mul_req(self, rhs: Fe) -> bool { true }
    open spec fn mul_spec(self, rhs: Fe) -> Fe { fe_mk(fe_v(self) * fe_v(rhs)) }
}
impl core::ops::Mul for Fe { type Output = Fe; #[verifier::external_body] fn mul(self, rhs: Fe) -> Fe { unimplemented!() } }
impl NegSpecImpl for Fe {
    open spec fn obeys_neg_spec() -> bool { true }
    open spec fn neg_req(self) -> bool { true }
    open spec fn neg_spec(self) -> Fe { fe_mk(-fe_v(self)) }
}
impl core::ops::Neg for Fe { type Output = Fe; #[verifier::external_body] fn neg(self) -> Fe { unimplemented!() } }
impl AddAssignSpecImpl<Fe> for Fe {
    open spec fn obeys_add_assign_spec() -> bool { true }
    open spec fn add_assign_req(&self, rhs: Fe) -> bool { true }
    open spec fn add_assign_spec(&self, rhs: Fe) -> &Fe { &fe_mk(fe_v(*self) + fe_v(rhs)) }
}
impl core::ops::AddAssign for Fe { #[verifier::external_body] fn add_assign(&mut self, rhs: Fe) { unimplemented!() } }
impl SubAssignSpecImpl<Fe> for Fe {
    open spec fn obeys_sub_assign_spec() -> bool { true }
    open spec fn sub_assign_req(&self, rhs: Fe) -> bool { true }
    open spec fn sub_assign_spec(&self, rhs: Fe) -> &Fe { &fe_mk(fe_v(*self) - fe_v(rhs)) }
}
impl core::ops::SubAssign for Fe { #[verifier::external_body] fn sub_assign(&mut self, rhs: Fe) { unimplemented!() } }
impl MulAssignSpecImpl<Fe> for Fe {
    open spec fn obeys_mul_assign_spec() -> bool { true }
    open spec fn mul_assign_req(&self, rhs: Fe) -> bool { true }
    open spec fn mul_assign_spec(&self, rhs: Fe) -> &Fe { &fe_mk(fe_v(*self) * fe_v(rhs)) }
}
impl core::ops::MulAssign for Fe { #[verifier::external_body] fn mul_assign(&mut self, rhs: Fe) { unimplemented!() } }
impl PartialEqSpecImpl for Fe {
    open spec fn obeys_eq_spec() -> bool { true }
    open spec fn eq_spec(&self, other: &Fe) -> bool { fe_v(*self) == fe_v(*other) }
}
impl PartialEq for Fe { #[verifier::external_body] fn eq(&self, other: &Fe) -> bool { unimplemented!() } }
#[verifier::external_body]
fn fe_zero() -> (r: Fe) ensures fe_v(r) == 0 { unimplemented!() }
#[verifier::external_body]
fn fe_one() -> (r: Fe) ensures fe_v(r) == 1 { unimplemented!() }
#[verifier::external_body]
fn fe_from_u64(x: u64) -> (r: Fe) ensures fe_v(r) == (x as int) % P() { unimplemented!() }

// ---- congruence vocabulary ---------------------------------------------------------------------------------------
pub open spec fn cong(x: int, y: int) -> bool { (x - y) % P() == 0 }
proof fn lemma_cong_refl(x: int) ensures cong(x, x) { broadcast use axiom_fe_range; axiom_fe_range(fe_mk(0)); lemma_mod_self_0(P()); assert((x - x) % P() == 0) by { lemma_small_mod(0, P() as nat); } }
proof fn lemma_cong_mod(x: int) ensures cong(x % P(), x), cong(x, x % P())
{
    axiom_fe_range(fe_mk(0));
    lemma_fundamental_div_mod(x, P());
    lemma_mod_multiples_basic(-(x / P()), P());
    lemma_mod_multiples_basic(x / P(), P());
    assert(x % P() - x == -(x / P()) * P()) by (nonlinear_arith) requires x == P() * (x / P()) + x % P();
    assert(x - x % P() == (x / P()) * P()) by (nonlinear_arith) requires x == P() * (x / P()) + x % P();
}
proof fn lemma_cong_sym(x: int, y: int) requires cong(x, y) ensures cong(y, x)
{
    axiom_fe_range(fe_mk(0));
    lemma_fundamental_div_mod(x - y, P());
    let q = (x - y) / P();
    assert(y - x == (-q) * P()) by (nonlinear_arith) requires x - y == P() * q + 0;
    lemma_mod_multiples_basic(-q, P());
}
proof fn lemma_cong_trans(x: int, y: int, z: int) requires cong(x, y), cong(y, z) ensures cong(x, z)
{
    axiom_fe_range(fe_mk(0));
    lemma_fundamental_div_mod(x - y, P());
    lemma_fundamental_div_mod(y - z, P());
    let q1 = (x - y) / P(); let q2 = (y - z) / P();
    assert(x - z == (q1 + q2) * P()) by (nonlinear_arith) requires x - y == P() * q1 + 0, y - z == P() * q2 + 0;
    lemma_mod_multiples_basic(q1 + q2, P());
}
proof fn lemma_cong_add(a: int, b: int, c: int, d: int) requires cong(a, b), cong(c, d) ensures cong(a + c, b + d)
{
    axiom_fe_range(fe_mk(0));
    lemma_fundamental_div_mod(a - b, P());
    lemma_fundamental_div_mod(c - d, P());
    let q1 = (a - b) / P(); let q2 = (c - d) / P();
    assert((a + c) - (b + d) == (q1 + q2) * P()) by (nonlinear_arith) requires a - b == P() * q1 + 0, c - d == P() * q2 + 0;
    lemma_mod_multiples_basic(q1 + q2, P());
}
proof fn lemma_cong_sub(a: int, b: int, c: int, d: int) requires cong(a, b), cong(c, d) ensures cong(a - c, b - d)
{
    axiom_fe_range(fe_mk(0));
    lemma_fundamental_div_mod(a - b, P());
    lemma_fundamental_div_mod(c - d, P());
    let q1 = (a - b) / P(); let q2 = (c - d) / P();
    assert((a - c) - (b - d) == (q1 - q2) * P()) by (nonlinear_arith) requires a - b == P() * q1 + 0, c - d == P() * q2 + 0;
    lemma_mod_multiples_basic(q1 - q2, P());
}
proof fn lemma_cong_mul(a: int, b: int, c: int, d: int) requires cong(a, b), cong(c, d) ensures cong(a * c, b * d)
{
    axiom_fe_range(fe_mk(0));
    lemma_fundamental_div_mod(a - b, P());
    lemma_fundamental_div_mod(c - d, P());
    let q1 = (a - b) / P(); let q2 = (c - d) / P();
    assert(a * c - b * d == (q1 * c + b * q2) * P()) by (nonlinear_arith) requires a - b == P() * q1 + 0, c - d == P() * q2 + 0;
    lemma_mod_multiples_basic(q1 * c + b * q2, P());
}
proof fn lemma_cong_neg(a: int, b: int) requires cong(a, b) ensures cong(-a, -b)
{
    lemma_cong_refl(0);
    lemma_cong_sub(0, 0, a, b);
}
// two reduced values that are congruent are equal
proof fn lemma_cong_eq(x: int, y: int) requires cong(x, y), 0 <= x < P(), 0 <= y < P() ensures x == y
{
    lemma_fundamental_div_mod(x - y, P());
    let q = (x - y) / P();
    assert(q == 0) by (nonlinear_arith) requires x - y == P() * q + 0, -P() < x - y < P(), P() > 0;
}
// views of operator results, as congruences on the integers
proof fn lemma_ops(a: Fe, b: Fe)
    ensures cong(fe_v(fe_mk(fe_v(a) + fe_v(b))), fe_v(a) + fe_v(b)), cong(fe_v(fe_mk(fe_v(a) - fe_v(b))), fe_v(a) - fe_v(b)),
            cong(fe_v(fe_mk(fe_v(a) * fe_v(b))), fe_v(a) * fe_v(b)), cong(fe_v(fe_mk(-fe_v(a))), -fe_v(a)),
{
    broadcast use axiom_fe_mk;
    lemma_cong_mod(fe_v(a) + fe_v(b)); lemma_cong_mod(fe_v(a) - fe_v(b)); lemma_cong_mod(fe_v(a) * fe_v(b)); lemma_cong_mod(-fe_v(a));
}

// ---- abstract element stream (Prng<F, S>): a fixed infinite sequence with a cursor (contract of Prng::get, C11) --------
#[verifier::external_body]
pub struct PrngFe { _p: u8 }
impl PrngFe {
    pub uninterp spec fn at(&self, i: int) -> Fe;
    pub uninterp spec fn pos(&self) -> int;
    #[verifier::external_body]
    pub fn get(&mut self) -> (r: Fe)
        ensures r == old(self).at(old(self).pos()), final(self).pos() == old(self).pos() + 1,
                forall|i: int| #[trigger] final(self).at(i) == old(self).at(i),
    { unimplemented!() }
}
'''
