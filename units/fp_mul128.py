"""C09 — FieldMulOpsSplitWord::mul (the FP128 instance: W = u128, HalfWord = u64) under contract.
Two-limb schoolbook product followed by two 64-bit REDC rounds; the proof tracks the exact integer value
of the limb vector after every group of statements."""
import re
from fp_common import WORDS, const_decls
from vunit import VUnit

F = 'src/fp/ops.rs'
AS_ = r'((?:[A-Za-z_][\w:]*)|\((?:[^()]|\([^()]*\))*\))\.as_\(\)'


def unit(phase='full'):
    u = VUnit('fp_mul128', 'split-word Montgomery multiplication, FP128 instance')
    decl, c = const_decls(128)
    assert c['MU'] < 2 ** 64
    u.oracle = {'inject': 'src/fp.rs', 'file': 'fp_oracle.rs', 'test': 'verif_oracle_fp::oracle_fp128'}
    u.raw(decl + '''
fn bool_as_u128(b: bool) -> (r: u128) ensures r == (if b { 1u128 } else { 0u128 }) { b as u128 }
pub assume_specification [u128::overflowing_sub] (x: u128, y: u128) -> (r: (u128, bool))
    ensures r.0 as int == (x as int - y as int) %% 0x1_0000_0000_0000_0000_0000_0000_0000_0000int,
            r.1 == ((x as int) < (y as int));
pub const FP128_MU64: u64 = %d;     // impl_field_ops_split_word!: MU as HalfWord (asserted to fit at compile time in the source)
pub open spec fn BB() -> int { 0x1_0000_0000_0000_0000int }
pub open spec fn PP() -> int { FP128_PRIME as int }
pub open spec fn P0() -> int { PP() %% BB() }
pub open spec fn P1() -> int { PP() / BB() }

// implicit precondition of the split-word code (see harness/c09_small.rs): no carry is lost after the first
// reduction round iff PRIME * (B^2 + B) < B^4
proof fn lemma_prime_bounds()
    ensures PP() == P1() * BB() + P0(), 0 <= P0() < BB(), 0 < P1() < BB(), PP() <= BB() * BB() - BB(),
            (FP128_MU64 as int * P0()) %% BB() == BB() - 1
{
    assert(PP() == P1() * BB() + P0() && 0 <= P0() < BB() && 0 < P1() < BB() && PP() <= BB() * BB() - BB()) by (compute);
    assert((FP128_MU64 as int * P0()) %% BB() == BB() - 1) by (compute);
}
// (z + p0 * ((mu*z) mod B)) mod B == 0  given (mu*p0) mod B == B-1
proof fn lemma_redc_low(z0: int, mu: int, p: int, r: int)
    requires r > 0, 0 <= z0 < r, (mu * p) %% r == r - 1,
    ensures (z0 + p * ((mu * z0) %% r)) %% r == 0,
{
    let w = (mu * z0) %% r;
    lemma_mul_mod_noop_right(p, mu * z0, r);
    assert((p * w) %% r == (p * (mu * z0)) %% r);
    lemma_mul_is_associative(p, mu, z0);
    lemma_mul_is_commutative(p, mu);
    assert(p * (mu * z0) == (mu * p) * z0);
    lemma_mul_mod_noop_left(mu * p, z0, r);
    assert(((mu * p) * z0) %% r == ((r - 1) * z0) %% r);
    lemma_mul_is_distributive_sub_other_way(z0, r, 1);
    assert((r - 1) * z0 == r * z0 - z0);
    lemma_add_mod_noop(z0, p * w, r);
    lemma_add_mod_noop(z0, (r - 1) * z0, r);
    assert((z0 + p * w) %% r == (z0 + (r - 1) * z0) %% r);
    assert(z0 + (r - 1) * z0 == r * z0);
    lemma_mod_multiples_basic(z0, r);
    lemma_mul_is_commutative(r, z0);
}
// product of two half-words plus a half-word never needs more than two half-words
proof fn lemma_limb_mul(a: int, b: int, c: int)
    requires 0 <= a < BB(), 0 <= b < BB(), 0 <= c < BB()
    ensures 0 <= a * b, a * b + c < BB() * BB(), a * b <= (BB() - 1) * (BB() - 1)
{
    lemma_mul_nonnegative(a, b);
    lemma_mul_upper_bound(a, BB() - 1, b, BB() - 1);
    assert((BB() - 1) * (BB() - 1) + (BB() - 1) < BB() * BB()) by (compute);
}
// final conditional subtraction of (cc, prod) - p, isolated from the big context of the multiplier
proof fn lemma_final_select(cv: int, pv: int, p: int, rr: int, tt: int, b0: bool, b1: bool, s0v: int)
    requires 0 <= cv <= 1, 0 <= pv < rr, tt == cv * rr + pv, 0 <= tt < 2 * p, 0 < p < rr,
             b0 == (pv < p), s0v == (pv - p) %% rr, b1 == (cv < (if b0 { 1int } else { 0int }))
    ensures (if b1 { pv } else { s0v }) == (if tt < p { tt } else { tt - p })
{
    assert(cv * rr == (if cv == 0 { 0 } else { rr })) by (nonlinear_arith) requires 0 <= cv <= 1;
    if b1 {
    } else if cv == 0 {
        lemma_small_mod((pv - p) as nat, rr as nat);
    } else {
        lemma_small_mod((pv - p + rr) as nat, rr as nat);
        lemma_mod_add_multiples_vanish(pv - p, rr);
    }
}
proof fn lemma_final_congruence(resi: int, tt: int, p: int, rr: int, xy: int, a: int)
    requires resi == (if tt < p { tt } else { tt - p }), tt * rr == xy + p * a, p > 0
    ensures (resi * rr) %% p == xy %% p
{
    lemma_mod_multiples_vanish(a, xy, p);
    assert((tt * rr) %% p == xy %% p);
    if tt >= p {
        assert(resi * rr == tt * rr - p * rr) by (nonlinear_arith) requires resi == tt - p;
        assert(p * (-rr) + tt * rr == tt * rr - p * rr) by (nonlinear_arith);
        lemma_mod_multiples_vanish(-rr, tt * rr, p);
    }
}
proof fn lemma_split(v: int)
    requires 0 <= v
    ensures v == (v / BB()) * BB() + v %% BB(), 0 <= v %% BB() < BB(), 0 <= v / BB(), (v < BB() * BB() ==> v / BB() < BB())
{
    lemma_fundamental_div_mod(v, BB());
    lemma_mod_bound(v, BB());
    lemma_div_pos_is_pos(v, BB());
    if v < BB() * BB() { lemma_div_is_ordered(v, BB() * BB() - 1, BB()); assert((BB() * BB() - 1) / BB() == BB() - 1) by (compute); }
    lemma_mul_is_commutative(v / BB(), BB());
}
''' % c['MU'], 'prelude')

    # E5: lifted closures
    u.item(F, ['trait FieldMulOpsSplitWord', 'fn mul'], name='fp128_high', ret='r',
           rewrites=[(r'^.*let high = \|v: W\| (.*?);.*$', r'fn high(v: W) -> W {\1}', 1), (r'\bW::BITS\b', '128usize', 1), (r'\bW\b', 'u128')],
           sig='ensures\n r as int == (v as int) / BB(),\n (r as int) < BB(),',
           before=[('v >> (128usize / 2)', 'assert(v >> 64usize == v / 0x1_0000_0000_0000_0000u128) by (bit_vector); assert(v / 0x1_0000_0000_0000_0000u128 < 0x1_0000_0000_0000_0000u128) by (bit_vector);')])
    u.item(F, ['trait FieldMulOpsSplitWord', 'fn mul'], name='fp128_low', ret='r',
           rewrites=[(r'^.*let low = \|v: W\| (.*?);.*$', r'fn low(v: W) -> W {\1}', 1), (r'\bW::BITS\b', '128usize', 1), (r'\bW::ONE\b', '1u128', 2), (r'\bW\b', 'u128')],
           sig='ensures\n r as int == (v as int) % BB(),\n (r as int) < BB(),',
           before=[('v & ((1u128', 'assert(((1u128 << 64usize) - 1u128) == 0xffff_ffff_ffff_ffffu128) by (bit_vector); assert(v & 0xffff_ffff_ffff_ffffu128 == v % 0x1_0000_0000_0000_0000u128) by (bit_vector); assert(v % 0x1_0000_0000_0000_0000u128 < 0x1_0000_0000_0000_0000u128) by (bit_vector);')])

    hints = list(HINTS)
    if phase != 'full':
        a, n = phase.rsplit('@', 1)
        hints.append((a, 'assume(false);', int(n)))
    u.item(F, ['trait FieldMulOpsSplitWord', 'fn mul'], name='fp128_mul', ret='r',
           rewrites=[(r'let high = \|v: W\| .*?;', '', 1), (r'let low = \|v: W\| .*?;', '', 1),
                     (r'\bhigh\(', 'fp128_high(', '*'), (r'\blow\(', 'fp128_low(', '*'),
                     (r'<Self as FieldMulOpsSplitWord<W>>::MU\.wrapping_mul\(&(\w+)\.as_\(\)\)', r'FP128_MU64.wrapping_mul((\1 as u64))', 2),
                     (r'\bw\.as_\(\)', '(w as u128)', 4),
                     (r'\.(overflowing_add|overflowing_sub|wrapping_add|wrapping_sub|wrapping_mul)\(\s*&', r'.\1(', '*'),
                     (r'<W as From<bool>>::from\(', 'bool_as_u128(', '*'),
                     (r'\bSelf::PRIME\b', 'FP128_PRIME', '*'), (r'\bW::ZERO\b', '0u128', '*'), (r'\bW::BITS\b', '128usize', '*'), (r'\bW\b', 'u128')],
           sig='''
requires
    y < FP128_PRIME,
ensures
    r < FP128_PRIME,
    (r as int * (BB() * BB())) % PP() == (x as int * y as int) % PP(),
''', before=hints, ghost_after=GHOSTS, attrs='#[verifier::rlimit(30)]')
    return u



# (anchor, proof text, occurrence index)
GHOSTS = [
    ('let (y1, y0) =', """
        let ghost xi = x as int;
        let ghost yi = y as int;
        let ghost p00 = x0 as int * y0 as int;
        let ghost p01 = x0 as int * y1 as int;
        let ghost p10 = x1 as int * y0 as int;
        let ghost p11 = x1 as int * y1 as int;
     """),
    ('let mut z1 = fp128_low(result);', "let ghost z1a = z1 as int;"),
    ('let mut z2 = fp128_low(result);', "let ghost z2a = z2 as int;"),
    ('let mut z3 = fp128_low(result);', """
        let ghost z3b = z3 as int;
        let ghost z2b = z2 as int;
        let ghost z1b = z1 as int;
        let ghost z0b = z0 as int;
     """),
    ('let mut w = FP128_MU64', """
        let ghost w1 = w as int;
        let ghost q0 = P0() * w1;
        let ghost q1 = P1() * w1;
     """),
    ('z3 = fp128_low(result);', """
        let ghost z3c = z3 as int;
        let ghost z2c = z2 as int;
        let ghost z1c = z1 as int;
     """, 1),
    ('w = FP128_MU64.wrapping_mul((z1 as u64));', """
        let ghost w2 = w as int;
        let ghost r0 = P0() * w2;
        let ghost r1 = P1() * w2;
     """),
    ('let prod =', """
        let ghost tt = (cc as int) * (BB() * BB()) + (z3 as int) * BB() + (z2 as int);
     """),
]

HINTS = [
    ('let mut result = x0 * y0;', """
        lemma_split(xi); lemma_split(yi);
        lemma_limb_mul(x0 as int, y0 as int, 0); lemma_limb_mul(x0 as int, y1 as int, 0);
        lemma_limb_mul(x1 as int, y0 as int, 0); lemma_limb_mul(x1 as int, y1 as int, 0);
        assert(BB() * BB() == 0x1_0000_0000_0000_0000_0000_0000_0000_0000int) by (compute);
     """),
    ('result = x0 * y1;', "lemma_split(p00);"),
    ('result = lo + carry;', "lemma_split(p01);", 0),
    ('result = hi + cc;', """
        let (h, l, c, k, z) = (hi as int, lo as int, cc as int, carry as int, z1 as int);
        lemma_split(l + k);
        lemma_limb_mul(x0 as int, y1 as int, k);
        assert(h + c < BB()) by (nonlinear_arith)
            requires p01 == h * BB() + l, l + k == c * BB() + z, p01 + k < BB() * BB(), z >= 0, BB() > 0;
     """, 0),
    ('result = x1 * y0;', """
        let (h, l, c, k) = (hi as int, lo as int, cc as int, carry as int);
        lemma_small_mod((h + c) as nat, BB() as nat);
        assert(z2a * (BB() * BB()) + z1a * BB() + (z0 as int) == p00 + p01 * BB()) by (nonlinear_arith)
            requires p00 == k * BB() + (z0 as int), p01 == h * BB() + l, l + k == c * BB() + z1a, z2a == h + c;
     """),
    ('result = z1 + lo;', "lemma_split(p10);", 0),
    ('result = hi + cc;', """
        let (h, l, c, z) = (hi as int, lo as int, cc as int, z1 as int);
        lemma_split(z1a + l);
        lemma_limb_mul(x1 as int, y0 as int, z1a);
        assert(h + c < BB()) by (nonlinear_arith)
            requires p10 == h * BB() + l, z1a + l == c * BB() + z, p10 + z1a < BB() * BB(), z >= 0, BB() > 0;
        lemma_small_mod((h + c) as nat, BB() as nat);
     """, 1),
    ('result = x1 * y1;', """
        let (h, l, c, k, z) = (hi as int, lo as int, cc as int, carry as int, z1 as int);
        assert(k == h + c);
        assert(k * BB() + z == p10 + z1a) by (nonlinear_arith)
            requires p10 == h * BB() + l, z1a + l == c * BB() + z, k == h + c;
     """),
    ('result = lo + carry;', "lemma_split(p11);", 1),
    ('result = hi + cc;', """
        let (h, l, c, k, lz) = (hi as int, p11 % BB(), cc as int, carry as int, lo as int);
        lemma_split(l + k);
        lemma_limb_mul(x1 as int, y1 as int, k);
        assert(h + c < BB()) by (nonlinear_arith)
            requires p11 == h * BB() + l, l + k == c * BB() + lz, p11 + k < BB() * BB(), lz >= 0, BB() > 0;
        lemma_small_mod((h + c) as nat, BB() as nat);
     """, 2),
    ('result = z2 + lo;', """
        // hi*B + lo == p11 + carry
        let (h, l, k) = (hi as int, lo as int, carry as int);
        assert(h * BB() + l == p11 + k) by (nonlinear_arith)
            requires p11 == (p11 / BB()) * BB() + p11 % BB(), (p11 % BB()) + k == (h - p11 / BB()) * BB() + l;
     """, 0),
    ('result = hi + cc;', """
        let (h, l, c, k, z) = (hi as int, lo as int, cc as int, carry as int, z2 as int);
        lemma_split(z2a + l);
        // the whole product fits four limbs, so the top limb does not overflow
        assert(xi * yi == p11 * (BB() * BB()) + (p01 + p10) * BB() + p00) by (nonlinear_arith)
            requires xi == (x1 as int) * BB() + (x0 as int), yi == (y1 as int) * BB() + (y0 as int),
                     p00 == (x0 as int) * (y0 as int), p01 == (x0 as int) * (y1 as int), p10 == (x1 as int) * (y0 as int), p11 == (x1 as int) * (y1 as int);
        lemma_mul_upper_bound(xi, BB() * BB() - 1, yi, BB() * BB() - 1);
        lemma_mul_nonnegative(xi, yi);
        assert((BB() * BB() - 1) * (BB() * BB() - 1) < BB() * BB() * (BB() * BB())) by (compute);
        assert((h + c) * (BB() * BB() * BB()) + z * (BB() * BB()) + (z1 as int) * BB() + (z0 as int) == xi * yi) by (nonlinear_arith)
            requires z2a * (BB() * BB()) + z1a * BB() + (z0 as int) == p00 + p01 * BB(),
                     k * BB() + (z1 as int) == p10 + z1a, h * BB() + l == p11 + k, z2a + l == c * BB() + z,
                     xi * yi == p11 * (BB() * BB()) + (p01 + p10) * BB() + p00;
        assert(h + c < BB()) by (nonlinear_arith)
            requires (h + c) * (BB() * BB() * BB()) + z * (BB() * BB()) + (z1 as int) * BB() + (z0 as int) == xi * yi,
                     xi * yi < BB() * BB() * (BB() * BB()), z >= 0, (z1 as int) >= 0, (z0 as int) >= 0, BB() > 0;
        lemma_small_mod((h + c) as nat, BB() as nat);
     """, 3),
    ('let mut w = FP128_MU64', """
        assert(z3b * (BB() * BB() * BB()) + z2b * (BB() * BB()) + z1b * BB() + z0b == xi * yi);
     """),
    ('result = p0 * (w as u128);', """
        lemma_prime_bounds();
        assert(w1 == (FP128_MU64 as int * z0b) % BB());
        assert(p0 as int == P0());
        lemma_limb_mul(P0(), w1, 0);
     """, 0),
    ('result = z0 + lo;', "lemma_split(q0);"),
    ('result = hi + cc;', """
        let (h, l, c) = (hi as int, lo as int, cc as int);
        lemma_redc_low(z0b, FP128_MU64 as int, P0(), BB());
        lemma_mod_multiples_vanish(h, z0b + l, BB());
        assert(BB() * h + (z0b + l) == z0b + q0) by (nonlinear_arith) requires q0 == h * BB() + l;
        lemma_split(z0b + l);
        lemma_limb_mul(P0(), w1, z0b);
        assert(h + c < BB()) by (nonlinear_arith)
            requires q0 == h * BB() + l, z0b + l == c * BB(), q0 + z0b < BB() * BB(), BB() > 0;
        lemma_small_mod((h + c) as nat, BB() as nat);
     """, 4),
    ('let p1 = fp128_high(FP128_PRIME);', """
        let (h, l, c, k) = (hi as int, lo as int, cc as int, carry as int);
        assert(k * BB() == z0b + q0) by (nonlinear_arith)
            requires q0 == h * BB() + l, z0b + l == c * BB(), k == h + c;
     """),
    ('result = p1 * (w as u128);', """
        assert(p1 as int == P1());
        lemma_limb_mul(P1(), w1, carry as int);
     """, 0),
    ('result = lo + carry;', "lemma_split(q1);", 2),
    ('result = hi + cc;', """
        let (h, l, c, k, lz) = (hi as int, q1 % BB(), cc as int, carry as int, lo as int);
        lemma_split(l + k);
        assert(h + c < BB()) by (nonlinear_arith)
            requires q1 == h * BB() + l, l + k == c * BB() + lz, q1 + k < BB() * BB(), lz >= 0, BB() > 0;
        lemma_small_mod((h + c) as nat, BB() as nat);
     """, 5),
    ('result = z1 + lo;', """
        let (h, l, k) = (hi as int, lo as int, carry as int);
        assert(h * BB() + l == q1 + k) by (nonlinear_arith)
            requires q1 == (q1 / BB()) * BB() + q1 % BB(), (q1 % BB()) + k == (h - q1 / BB()) * BB() + l;
     """, 1),
    ('result = z2 + hi + cc;', "lemma_split(z1b + (lo as int));", 0),
    ('result = z3 + cc;', """
        lemma_split(z2b + (hi as int) + (cc as int));
     """),
    ('z3 = fp128_low(result);', """
        // value after the first reduction round:  (z3b + c2) B^3 + z2 B^2 + z1 B == x*y + p*w1, and it fits four limbs
        let (h, l, c2, k) = (hi as int, lo as int, cc as int, carry as int);
        let (z2n, z1n) = (z2 as int, z1 as int);
        let c1 = (z1b + l) / BB();
        assert(PP() * w1 == q1 * BB() + q0) by (nonlinear_arith)
            requires PP() == P1() * BB() + P0(), q0 == P0() * w1, q1 == P1() * w1;
        assert((z3b + c2) * (BB() * BB() * BB()) + z2n * (BB() * BB()) + z1n * BB() == xi * yi + PP() * w1) by (nonlinear_arith)
            requires z3b * (BB() * BB() * BB()) + z2b * (BB() * BB()) + z1b * BB() + z0b == xi * yi,
                     k * BB() == z0b + q0, h * BB() + l == q1 + k, z1b + l == c1 * BB() + z1n, z2b + h + c1 == c2 * BB() + z2n,
                     PP() * w1 == q1 * BB() + q0;
        lemma_mul_upper_bound(xi, BB() * BB() - 1, yi, PP() - 1);
        lemma_mul_nonnegative(xi, yi);
        lemma_mul_upper_bound(PP(), PP(), w1, BB() - 1);
        assert((BB() * BB() - 1) * (PP() - 1) + PP() * (BB() - 1) < BB() * BB() * BB() * BB()) by (compute);
        assert(z3b + c2 < BB()) by (nonlinear_arith)
            requires (z3b + c2) * (BB() * BB() * BB()) + z2n * (BB() * BB()) + z1n * BB() == xi * yi + PP() * w1,
                     xi * yi + PP() * w1 < BB() * BB() * BB() * BB(), z2n >= 0, z1n >= 0, BB() > 0;
        lemma_small_mod((z3b + c2) as nat, BB() as nat);
     """, 1),
    ('w = FP128_MU64.wrapping_mul((z1 as u64));', """
        assert(z3c * (BB() * BB() * BB()) + z2c * (BB() * BB()) + z1c * BB() == xi * yi + PP() * w1);
     """),
    ('result = p0 * (w as u128);', """
        assert(w2 == (FP128_MU64 as int * z1c) % BB());
        lemma_limb_mul(P0(), w2, 0);
     """, 1),
    ('result = z1 + lo;', "lemma_split(r0);", 2),
    ('result = hi + cc;', """
        let (h, l, c) = (hi as int, lo as int, cc as int);
        lemma_redc_low(z1c, FP128_MU64 as int, P0(), BB());
        lemma_mod_multiples_vanish(h, z1c + l, BB());
        assert(BB() * h + (z1c + l) == z1c + r0) by (nonlinear_arith) requires r0 == h * BB() + l;
        lemma_split(z1c + l);
        lemma_limb_mul(P0(), w2, z1c);
        assert(h + c < BB()) by (nonlinear_arith)
            requires r0 == h * BB() + l, z1c + l == c * BB(), r0 + z1c < BB() * BB(), BB() > 0;
        lemma_small_mod((h + c) as nat, BB() as nat);
     """, 6),
    ('result = p1 * (w as u128);', """
        let (h, l, c, k) = (r0 / BB(), r0 % BB(), cc as int, carry as int);
        assert(k * BB() == z1c + r0) by (nonlinear_arith)
            requires r0 == h * BB() + l, z1c + l == c * BB(), k == h + c;
        lemma_limb_mul(P1(), w2, k);
     """, 1),
    ('result = lo + carry;', "lemma_split(r1);", 3),
    ('result = hi + cc;', """
        let (h, l, c, k, lz) = (hi as int, r1 % BB(), cc as int, carry as int, lo as int);
        lemma_split(l + k);
        assert(h + c < BB()) by (nonlinear_arith)
            requires r1 == h * BB() + l, l + k == c * BB() + lz, r1 + k < BB() * BB(), lz >= 0, BB() > 0;
        lemma_small_mod((h + c) as nat, BB() as nat);
     """, 7),
    ('result = z2 + lo;', """
        let (h, l, k) = (hi as int, lo as int, carry as int);
        assert(h * BB() + l == r1 + k) by (nonlinear_arith)
            requires r1 == (r1 / BB()) * BB() + r1 % BB(), (r1 % BB()) + k == (h - r1 / BB()) * BB() + l;
     """, 1),
    ('result = z3 + hi + cc;', "lemma_split(z2c + (lo as int));"),
    ('let prod =', """
        let (h, l, c3, k) = (hi as int, lo as int, cc as int, carry as int);
        let (z2n, z3n) = (z2 as int, z3 as int);
        let cm = (z2c + l) / BB();
        lemma_split(z3c + h + cm);
        let t = c3 * (BB() * BB()) + z3n * BB() + z2n;
        assert(PP() * w2 == r1 * BB() + r0) by (nonlinear_arith)
            requires PP() == P1() * BB() + P0(), r0 == P0() * w2, r1 == P1() * w2;
        assert(t * (BB() * BB()) == xi * yi + PP() * w1 + (PP() * w2) * BB()) by (nonlinear_arith)
            requires z3c * (BB() * BB() * BB()) + z2c * (BB() * BB()) + z1c * BB() == xi * yi + PP() * w1,
                     k * BB() == z1c + r0, h * BB() + l == r1 + k, z2c + l == cm * BB() + z2n, z3c + h + cm == c3 * BB() + z3n,
                     PP() * w2 == r1 * BB() + r0, t == c3 * (BB() * BB()) + z3n * BB() + z2n;
        lemma_mul_upper_bound(PP(), PP(), w2, BB() - 1);
        lemma_mul_nonnegative(PP(), w2);
        lemma_mul_nonnegative(PP(), w1);
        assert((BB() * BB() - 1) * (PP() - 1) + PP() * (BB() - 1) + (PP() * (BB() - 1)) * BB() < 2 * PP() * (BB() * BB())) by (compute);
        assert(t < 2 * PP()) by (nonlinear_arith)
            requires t * (BB() * BB()) == xi * yi + PP() * w1 + (PP() * w2) * BB(),
                     xi * yi <= (BB() * BB() - 1) * (PP() - 1), PP() * w1 <= PP() * (BB() - 1), PP() * w2 <= PP() * (BB() - 1),
                     (BB() * BB() - 1) * (PP() - 1) + PP() * (BB() - 1) + (PP() * (BB() - 1)) * BB() < 2 * PP() * (BB() * BB()), BB() > 0;
        assert(z2 < 0x1_0000_0000_0000_0000u128 && z3 < 0x1_0000_0000_0000_0000u128);
        assert(z2 < 0x1_0000_0000_0000_0000u128 && z3 < 0x1_0000_0000_0000_0000u128 ==> (z2 | (z3 << 64usize)) == z3 * 0x1_0000_0000_0000_0000u128 + z2) by (bit_vector);
        assert((cc as int) * (BB() * BB()) + (z3 as int) * BB() + (z2 as int) < 2 * PP());
        assert((cc as int) * (BB() * BB()) + (z3 as int) * BB() + (z2 as int) >= 0) by (nonlinear_arith) requires cc >= 0, z3 >= 0, z2 >= 0, BB() > 0;
        assert(((cc as int) * (BB() * BB()) + (z3 as int) * BB() + (z2 as int)) * (BB() * BB()) == xi * yi + PP() * w1 + (PP() * w2) * BB());
     """),
    ('(prod & mask) | (s0 & !mask)', """
        let p = PP();
        let rr = 0x1_0000_0000_0000_0000_0000_0000_0000_0000int;
        let res = (prod & mask) | (s0 & !mask);
        assert(rr == BB() * BB()) by (compute);
        assert(prod as int == (z3 as int) * BB() + (z2 as int));
        assert(tt == (cc as int) * rr + prod as int);
        assert(tt < 2 * p);
        assert(p < rr) by (compute);
        let (cv, pv) = (cc as int, prod as int);
        assert(cv <= 1) by (nonlinear_arith) requires tt == cv * rr + pv, tt < 2 * rr, pv >= 0, rr > 0, cv >= 0;
        let s0v = s0 as int;
        lemma_final_select(cv, pv, p, rr, tt, b0, b1, s0v);
        assert(mask == (if b1 { 0xffff_ffff_ffff_ffff_ffff_ffff_ffff_ffffu128 } else { 0u128 }));
        assert(mask == 0 ==> ((prod & mask) | (s0 & !mask)) == s0) by (bit_vector);
        assert(mask == 0xffff_ffff_ffff_ffff_ffff_ffff_ffff_ffffu128 ==> ((prod & mask) | (s0 & !mask)) == prod) by (bit_vector);
        let resi = res as int;
        assert(resi == (if b1 { pv } else { s0v }));
        assert(resi == if tt < p { tt } else { tt - p });
        assert(tt * rr == xi * yi + p * (w1 + w2 * BB())) by (nonlinear_arith)
            requires tt * (BB() * BB()) == xi * yi + p * w1 + (p * w2) * BB(), rr == BB() * BB();
        lemma_final_congruence(resi, tt, p, rr, xi * yi, w1 + w2 * BB());
        assert(resi < p);
        assert(resi * (BB() * BB()) == resi * rr);
        assert((resi * (BB() * BB())) % PP() == (xi * yi) % PP());
     """),
]
