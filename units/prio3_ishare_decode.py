"""C07/C08 — Prio3InputShare::decode_with_param (src/vdaf/prio3.rs) under contract for EVERY FLP type instance and EVERY byte string
(Verus; the Kani harness p3c_input_share_* checks the Prio3Count instance on the compiled code).  Abstract element / seed codecs and
cursor as in unit prio3_codec (whose prelude is reused); decode_fieldvec through the contract proved in unit fieldvec_codec.

  aggregator id >= num_aggregators           -> Err (role_try_from, extracted too)
  id 0 (leader): exactly input_len elements, then exactly proof_len * num_proofs elements, then a blind exactly when the type uses joint
        randomness; id > 0 (helper): a seed, then a blind exactly when the type uses joint randomness
  Ok ==> the variant is Leader exactly for id 0, the lengths are the declared ones (they come from the instance, never from the wire),
        every element is the decoding of its own chunk, and the cursor has advanced by exactly the encoded length; fewer bytes than
        that -> Err; no index, multiplication or allocation size is taken from the input.

Derived precondition: proof_len * num_proofs fits usize (a proof of that many elements is held in memory by shard / verify_init)."""
import inspect, re
from vunit import VUnit
import prio3_codec

F = 'src/vdaf/prio3.rs'
_src = inspect.getsource(prio3_codec.unit)
DECODE_SHIMS = re.search(r'u\.raw\("""(.*?)""", \'decode-shims\'\)', _src, re.S).group(1)

PRELUDE = '''
pub enum VdafError { Uncategorized(String) }
fn codec_other(e: VdafError) -> (r: CodecError) ensures r == CodecError::Other { CodecError::Other }
pub struct Prio3Any { pub num_aggregators: u8, pub num_proofs: u8 }
impl Prio3Any {
    pub uninterp spec fn il(&self) -> nat;      // typ.input_len()
    pub uninterp spec fn pl(&self) -> nat;      // typ.proof_len()
    pub uninterp spec fn jrl(&self) -> nat;     // typ.joint_rand_len()
    #[verifier::external_body] fn typ_input_len(&self) -> (r: usize) ensures r == self.il() { unimplemented!() }
    #[verifier::external_body] fn typ_proof_len(&self) -> (r: usize) ensures r == self.pl() { unimplemented!() }
    #[verifier::external_body] fn typ_joint_rand_len(&self) -> (r: usize) ensures r == self.jrl() { unimplemented!() }
    fn num_proofs(&self) -> (r: usize) ensures r == self.num_proofs { self.num_proofs as usize }
}
#[verifier::external_body]
fn u8_try_from_unwrap(x: usize) -> (r: u8) requires x <= 255 ensures r == x { unimplemented!() }      // u8::try_from(x).unwrap(): panics above 255
// contract proved in unit fieldvec_codec (same check)
#[verifier::external_body]
fn decode_fieldvec(count: usize, c: &mut Cur) -> (r: Result<Vec<Fe>, CodecError>)
    requires old(c).wf(),
    ensures final(c).data() == old(c).data(), final(c).wf(),
            r is Ok ==> r->Ok_0@.len() == count && final(c).pos() == old(c).pos() + count * ES()
                && forall|k: int| 0 <= k < count ==> fe_dec(#[trigger] chunk_at(old(c).data(), old(c).pos(), k)) == Some(r->Ok_0@[k]),
            old(c).rest().len() < count * ES() ==> r is Err,
            r is Err ==> final(c).pos() >= old(c).pos(),
{ unimplemented!() }
// the sizes of axiom_elem_codec / axiom_seed_codec, without an instance
#[verifier::external_body]
proof fn axiom_sizes() ensures 0 < ES() <= 64, 0 < SS() <= 64 {}
pub open spec fn blind_len(p: Prio3Any) -> int { if p.jrl() > 0 { SS() } else { 0 } }
pub open spec fn leader_len(p: Prio3Any) -> int { p.il() * ES() + (p.pl() * p.num_proofs) * ES() + blind_len(p) }
pub open spec fn helper_len(p: Prio3Any) -> int { SS() + blind_len(p) }
'''


def unit():
    u = VUnit('prio3_ishare_decode', 'Prio3InputShare::decode_with_param: shape, exact lengths and exact consumption for every FLP type and every input')
    u.raw(prio3_codec.PRELUDE, 'abstract-codecs')
    u.raw(DECODE_SHIMS, 'decode-shims')
    u.raw(PRELUDE, 'instance')
    u.item(F, ['impl<T, P, const SEED_SIZE: usize> Prio3<T, P, SEED_SIZE>', 'fn role_try_from'], ret='r', impl_header='impl Prio3Any', nth={0: 0},
           rewrites=[(r'"\.into\(\)', '".to_string()', '*'), (r'u8::try_from\(agg_id\)\.unwrap\(\)', 'u8_try_from_unwrap(agg_id)', 1)],
           sig='''
ensures
    r is Ok <==> agg_id < self.num_aggregators,
    r is Ok ==> r->Ok_0 == agg_id,
''')
    u.item(F, [r"impl<'a, T, P, const SEED_SIZE: usize> ParameterizedDecode<\(&'a Prio3<T, P, SEED_SIZE>, usize\)>\s*for Prio3InputShare<T::Field, SEED_SIZE>[^{]*?(?=\{)", 'fn decode_with_param'],
           ret='r', name='ishare_decode',
           rewrites=[(r"\(prio3, agg_id\): &\(&'a Prio3<T, P, SEED_SIZE>, usize\)", 'prio3: &Prio3Any, agg_id: &usize', 1), (r'bytes: &mut Cursor<&\[u8\]>', 'bytes: &mut Cur', 1),
                     (r'Result<Self, CodecError>', 'Result<Prio3InputShare, CodecError>', 1),
                     (r'prio3\s*\.role_try_from\(\*agg_id\)\s*\.map_err\(\|e\| CodecError::Other\(Box::new\(e\)\)\)\?',
                      'match prio3.role_try_from(*agg_id) { Ok(v_) => v_, Err(e) => { return Err(codec_other(e)); } }', 1),
                     (r'prio3\.typ\.input_len\(\)', 'prio3.typ_input_len()', '*'), (r'prio3\.typ\.proof_len\(\)', 'prio3.typ_proof_len()', '*'),
                     (r'prio3\.typ\.joint_rand_len\(\)', 'prio3.typ_joint_rand_len()', '*'), (r'Seed::decode\(bytes\)\?', 'seed_decode(bytes)?', '*')],
           sig='''
requires
    old(bytes).wf(),
    // derived: the instance holds proofs of this many elements in memory
    prio3.pl() * prio3.num_proofs <= usize::MAX,
ensures
    final(bytes).data() == old(bytes).data(),
    *agg_id >= prio3.num_aggregators ==> r is Err,
    r is Ok ==> (r->Ok_0 is Leader <==> *agg_id == 0),
    // leader: the declared lengths, element k decoded from its own chunk, blind exactly with joint randomness, exact consumption
    r is Ok && *agg_id == 0 ==> r->Ok_0->Leader_measurement_share@.len() == prio3.il() && r->Ok_0->Leader_proofs_share@.len() == prio3.pl() * prio3.num_proofs
        && (r->Ok_0->Leader_joint_rand_blind is Some <==> prio3.jrl() > 0)
        && (forall|k: int| 0 <= k < prio3.il() ==> fe_dec(#[trigger] chunk_at(old(bytes).data(), old(bytes).pos(), k)) == Some(r->Ok_0->Leader_measurement_share@[k]))
        && final(bytes).pos() == old(bytes).pos() + leader_len(*prio3),
    r is Ok && *agg_id != 0 ==> (r->Ok_0->Helper_joint_rand_blind is Some <==> prio3.jrl() > 0)
        && r->Ok_0->Helper_meas_and_proofs_share == seed_dec(old(bytes).rest().take(SS()))
        && final(bytes).pos() == old(bytes).pos() + helper_len(*prio3),
    // truncated input: an error
    *agg_id == 0 && old(bytes).rest().len() < leader_len(*prio3) ==> r is Err,
    0 < *agg_id && old(bytes).rest().len() < helper_len(*prio3) ==> r is Err,
''', before=[('if agg_id == 0', 'axiom_sizes(); assert(prio3.il() * ES() >= 0 && (prio3.pl() * prio3.num_proofs) * ES() >= 0) by (nonlinear_arith) requires ES() > 0;')])
    return u
