"""C13/C03 — Poplar1 Aggregator::aggregate_init and Collector::unshard (src/vdaf/poplar1.rs) under contract (Verus), on top of the re-generated
text of unit poplar1_agg (Poplar1FieldVec::zero and the helper aggregate()):

  aggregate_init(agg_param) == ZERO(level == bits - 1, number of candidate prefixes): the empty aggregate every batch starts from
  unshard(agg_param, agg_shares, _) folds the aggregate shares with aggregate(level == bits - 1, number of prefixes, ..) - the tree level
        and the length are taken from the aggregation parameter of the collection, never from the shares - and converts the sum to integers;
        Err exactly when a share has another level or length (contract of aggregate) or the conversion fails; the value converted is the
        in-order fold over zero.

The conversion of the summed vector to u64 (`into_iter().map(u64::from).collect()` / `u64::try_from` on Field255) is abstracted as one function
of the vector (to_counts).  Derived precondition: bits >= 1 (instance invariant, see unit pop_codecs)."""
import poplar1_agg

PFV = 'src/vdaf/poplar1.rs'
PRELUDE = '''
pub struct Poplar1Any { pub bits: usize }
#[verifier::external_body]
pub struct Poplar1AggregationParam { _p: u8 }
impl Poplar1AggregationParam {
    pub uninterp spec fn sp_level(&self) -> int;
    pub uninterp spec fn sp_count(&self) -> int;
    #[verifier::external_body] fn level_usize(&self) -> (r: usize) ensures r == self.sp_level(), 0 <= self.sp_level() <= 65535 { unimplemented!() }   // usize::from(agg_param.level)
    #[verifier::external_body] fn prefixes_len(&self) -> (r: usize) ensures r == self.sp_count() { unimplemented!() }                                  // agg_param.prefixes.len()
}
// Inner: into_iter().map(u64::from).collect();  Leaf: map(u64::try_from).collect::<Result<Vec<_>, _>>()  - one function of the summed vector
pub uninterp spec fn to_counts(v: Poplar1FieldVec) -> Result<Seq<u64>, VdafError>;
#[verifier::external_body]
fn fieldvec_to_counts(v: Poplar1FieldVec) -> (r: Result<Vec<u64>, VdafError>)
    ensures match to_counts(v) { Ok(c) => r is Ok && r->Ok_0@ == c, Err(e) => r == Err::<Vec<u64>, VdafError>(e) }
{ unimplemented!() }
'''


def unit():
    u = poplar1_agg.unit()
    u.name = 'poplar1_unshard'
    u.desc = 'Poplar1 aggregate_init / unshard: level and length from the aggregation parameter; fold over zero'
    u.raw(PRELUDE, 'instance')
    AGG = [r'impl<P: Xof<SEED_SIZE>, const SEED_SIZE: usize> Aggregator<SEED_SIZE, 16>\s*for Poplar1<P, SEED_SIZE>\s*(?=\{)']
    COMMON = [(r'usize::from\(agg_param\.level\)', 'agg_param.level_usize()', 1), (r'agg_param\.prefixes\.len\(\)', 'agg_param.prefixes_len()', 1)]
    u.item(PFV, AGG + ['fn aggregate_init'], ret='r', impl_header='impl Poplar1Any',
           rewrites=COMMON + [(r'agg_param: &Self::AggregationParam', 'agg_param: &Poplar1AggregationParam', 1), (r'-> Self::AggregateShare', '-> Poplar1FieldVec', 1)],
           sig='''
requires
    self.bits >= 1,
ensures
    share_fits(r, agg_param.sp_level() == self.bits - 1, agg_param.sp_count()),
    forall|i: int| 0 <= i < agg_param.sp_count() ==> fe_v(#[trigger] fv_seq(r)[i]) == 0,
''')
    u.item(PFV, [r'impl<P: Xof<SEED_SIZE>, const SEED_SIZE: usize> Collector for Poplar1<P, SEED_SIZE>\s*(?=\{)', 'fn unshard'], ret='r', impl_header='impl Poplar1Any',
           rewrites=COMMON + [(r'<M: IntoIterator<Item = Poplar1FieldVec>>', '', 1), (r'agg_shares: M', 'agg_shares: &Vec<Poplar1FieldVec>', 1),
                              (r'let result = aggregate\((.*?)\)\?;', r'let result = match aggregate(\1) { Ok(v_) => v_, Err(e_) => { return Err(e_); } };', 1),
                              (r'match result \{.*\}\s*\}\s*$', 'fieldvec_to_counts(result) }', 1)],
           sig='''
requires
    self.bits >= 1,
ensures
    ({ let is_leaf = agg_param.sp_level() == self.bits - 1; let n = agg_param.sp_count();
       // level and length come from the aggregation parameter of the collection: a share of another level or length is refused
       &&& (exists|k: int| 0 <= k < agg_shares@.len() && !share_fits(#[trigger] agg_shares@[k], is_leaf, n)) ==> r is Err
       // a result is the conversion of the in-order fold over ZERO of shares that all have the level and length of the parameter
       &&& r is Ok ==> (forall|k: int| 0 <= k < agg_shares@.len() ==> share_fits(#[trigger] agg_shares@[k], is_leaf, n))
             && exists|s: Poplar1FieldVec| #[trigger] share_fits(s, is_leaf, n)
                && (forall|i: int| 0 <= i < n ==> #[trigger] fv_seq(s)[i] == fold_at(agg_shares@, i, agg_shares@.len() as int))
                && to_counts(s) == Ok::<Seq<u64>, VdafError>(r->Ok_0@) }),
''')
    return u
