"""C07 — the Prio3 verifier-share and input-share codecs (src/vdaf/prio3.rs) under contract for EVERY FLP type instance (Verus; the Kani
harnesses p3c_* check the same on the compiled code for the Prio3Count instance).

Element and seed codecs are the abstract boundary (fe_enc/fe_dec of ES() bytes: Kani units field*_bytes; a seed is SS() raw bytes);
encode_fieldvec / encode_fixlen_items / decode_fieldvec have the contracts proved in unit fieldvec_codec (same run).  Contracts:

  Prio3VerifierShare::encode: appends enc(verifiers[0]) ++ .. ++ [joint_rand_part]; encoded_len() == the number of bytes appended
  Prio3VerifierShare::decode_with_param(state): reads exactly state.verifiers_len elements, then a seed exactly when the state holds a
        joint randomness seed; Ok exactly when that many canonical bytes are there
  Prio3InputShare::encode / encoded_len (Leader: measurement share ++ proofs share ++ [blind]; Helper: seed ++ [blind])
  lemma: decoding what encode wrote gives the share back (over the field-vector round trip of unit fieldvec_codec)."""
from vunit import VUnit

F = 'src/vdaf/prio3.rs'
PRELUDE = '''
global size_of usize == 8;
pub enum CodecError { Eof, Other }
#[verifier::external_body]
#[derive(Clone, Copy)]
pub struct Fe { _x: u64 }
pub uninterp spec fn ES() -> int;                                   // F::ENCODED_SIZE
pub uninterp spec fn fe_enc(e: Fe) -> Seq<u8>;
#[verifier::external_body]
pub broadcast proof fn axiom_elem_codec(e: Fe) ensures #[trigger] fe_enc(e).len() == ES(), 0 < ES() <= 64 {}
#[verifier::external_body]
fn enc_size() -> (r: usize) ensures r == ES(), 0 < ES() <= 64 { unimplemented!() }
#[verifier::external_body]
fn fe_encode(e: &Fe, bytes: &mut Vec<u8>) -> (r: Result<(), CodecError>) ensures r is Ok, final(bytes)@ == old(bytes)@ + fe_enc(*e) { unimplemented!() }
#[verifier::external_body]
#[derive(Clone, Copy)]
pub struct SeedT { _s: u8 }                                         // Seed<SEED_SIZE>
pub uninterp spec fn SS() -> int;                                   // SEED_SIZE
pub uninterp spec fn seed_enc(s: SeedT) -> Seq<u8>;
#[verifier::external_body]
pub broadcast proof fn axiom_seed_codec(s: SeedT) ensures #[trigger] seed_enc(s).len() == SS(), 0 < SS() <= 64 {}
impl SeedT {
    #[verifier::external_body]
    fn encode(&self, bytes: &mut Vec<u8>) -> (r: Result<(), CodecError>) ensures r is Ok, final(bytes)@ == old(bytes)@ + seed_enc(*self) { unimplemented!() }
    #[verifier::external_body]
    fn encoded_len(&self) -> (r: Option<usize>) ensures r == Some(SS() as usize), 0 < SS() <= 64 { unimplemented!() }
}
pub open spec fn enc_all(v: Seq<Fe>, n: int) -> Seq<u8> decreases n
{ if n <= 0 { Seq::empty() } else { enc_all(v, n - 1) + fe_enc(v[n - 1]) } }
proof fn lemma_enc_all_len(v: Seq<Fe>, n: int)
    requires 0 <= n <= v.len()
    ensures enc_all(v, n).len() == n * ES()
    decreases n
{
    broadcast use axiom_elem_codec;
    if n > 0 { lemma_enc_all_len(v, n - 1); assert((n - 1) * ES() + ES() == n * ES()) by (nonlinear_arith); } else { assert(0 * ES() == 0); }
}
// contract proved in unit fieldvec_codec (same run): encode_fixlen_items::<F> == encode_fieldvec
#[verifier::external_body]
fn encode_fixlen_items(bytes: &mut Vec<u8>, items: &Vec<Fe>) -> (r: Result<(), CodecError>)
    ensures r is Ok, final(bytes)@ == old(bytes)@ + enc_all(items@, items@.len() as int)
{ unimplemented!() }
pub struct Prio3VerifierShare { pub verifiers: Vec<Fe>, pub joint_rand_part: Option<SeedT> }
pub enum Prio3InputShare {
    Leader { measurement_share: Vec<Fe>, proofs_share: Vec<Fe>, joint_rand_blind: Option<SeedT> },
    Helper { meas_and_proofs_share: SeedT, joint_rand_blind: Option<SeedT> },
}
pub open spec fn opt_seed_enc(s: Option<SeedT>) -> Seq<u8> { match s { Some(x) => seed_enc(x), None => Seq::empty() } }
pub open spec fn vshare_enc(v: Prio3VerifierShare) -> Seq<u8> { enc_all(v.verifiers@, v.verifiers@.len() as int) + opt_seed_enc(v.joint_rand_part) }
pub open spec fn ishare_enc(s: Prio3InputShare) -> Seq<u8> {
    match s {
        Prio3InputShare::Leader { measurement_share, proofs_share, joint_rand_blind } =>
            enc_all(measurement_share@, measurement_share@.len() as int) + enc_all(proofs_share@, proofs_share@.len() as int) + opt_seed_enc(joint_rand_blind),
        Prio3InputShare::Helper { meas_and_proofs_share, joint_rand_blind } => seed_enc(meas_and_proofs_share) + opt_seed_enc(joint_rand_blind),
    }
}
'''


def unit():
    u = VUnit('prio3_codec', 'Prio3VerifierShare / Prio3InputShare encode and encoded_len for every FLP type')
    u.raw(PRELUDE, 'abstract-codecs')
    VS = ['impl<F: NttFriendlyFieldElement, const SEED_SIZE: usize> Encode\\s+for Prio3VerifierShare<F, SEED_SIZE>']
    u.item(F, VS + ['fn encode'], ret='r', impl_header='impl Prio3VerifierShare', name='vshare_encode', attrs='#[verifier::loop_isolation(false)]',
           rewrites=[(r'for x in &self\.verifiers \{', 'for k_ in 0..self.verifiers.len() { let x = &self.verifiers[k_];', 1), (r'x\.encode\(bytes\)\?', 'fe_encode(x, bytes)?', 1)],
           sig='''
ensures
    r is Ok, final(bytes)@ == old(bytes)@ + vshare_enc(*self),
''', loops={0: '''
invariant
    bytes@ == old(bytes)@ + enc_all(self.verifiers@, k_ as int),
'''}, after=[('fe_encode(x, bytes)?', 'assert(bytes@ =~= old(bytes)@ + enc_all(self.verifiers@, k_ + 1));')],
           before=[('Ok(())', 'assert(bytes@ =~= old(bytes)@ + vshare_enc(*self));', -1)])
    u.item(F, VS + ['fn encoded_len'], ret='r', impl_header='impl Prio3VerifierShare', name='vshare_encoded_len',
           rewrites=[(r'\bF::ENCODED_SIZE\b', 'enc_size()', 1)],
           sig='''
requires
    ES() * self.verifiers@.len() + 64 <= usize::MAX,          // derived: the elements are held in memory
ensures
    r == Some(vshare_enc(*self).len() as usize),                 // the length hint equals the number of bytes encode() appends
''', before=[('let mut len', '''
    broadcast use axiom_seed_codec;
    lemma_enc_all_len(self.verifiers@, self.verifiers@.len() as int);
    assert(ES() * self.verifiers@.len() == self.verifiers@.len() * ES()) by (nonlinear_arith);
''')])
    IS = ['impl<F: NttFriendlyFieldElement, const SEED_SIZE: usize> Encode for Prio3InputShare<F, SEED_SIZE>']
    u.item(F, IS + ['fn encode'], ret='r', impl_header='impl Prio3InputShare', name='ishare_encode',
           sig='''
ensures
    r is Ok, final(bytes)@ == old(bytes)@ + ishare_enc(*self),
''', before=[('Ok(())', 'assert(bytes@ =~= old(bytes)@ + ishare_enc(*self));', -1)])
    u.item(F, IS + ['fn encoded_len'], ret='r', impl_header='impl Prio3InputShare', name='ishare_encoded_len',
           rewrites=[(r'\bF::ENCODED_SIZE\b', 'enc_size()', '*')],
           sig='''
requires
    self is Leader ==> self->Leader_measurement_share@.len() * ES() + self->Leader_proofs_share@.len() * ES() + 64 <= usize::MAX,
ensures
    r == Some(ishare_enc(*self).len() as usize),
''', before=[('match self', '''
    broadcast use axiom_seed_codec;
    axiom_elem_codec(arbitrary());
    if self is Leader {
        let ms = self->Leader_measurement_share@; let ps = self->Leader_proofs_share@;
        lemma_enc_all_len(ms, ms.len() as int); lemma_enc_all_len(ps, ps.len() as int);
        assert(ms.len() * ES() >= 0 && ps.len() * ES() >= 0) by (nonlinear_arith) requires ES() > 0;
    }
''')])
    u.raw("""
// ---- decoding ---------------------------------------------------------------------------------------------------------------------------
#[verifier::external_body]
pub struct Cur { _c: u8 }
impl Cur {
    pub uninterp spec fn data(&self) -> Seq<u8>;
    pub uninterp spec fn pos(&self) -> int;
    pub open spec fn wf(&self) -> bool { 0 <= self.pos() <= self.data().len() }
    pub open spec fn rest(&self) -> Seq<u8> { self.data().skip(self.pos()) }
}
pub uninterp spec fn fe_dec(chunk: Seq<u8>) -> Option<Fe>;
// F::decode(cursor): read_exact of ES bytes, then the canonical-element check
#[verifier::external_body]
fn fe_decode(c: &mut Cur) -> (r: Result<Fe, CodecError>)
    requires old(c).wf(),
    ensures final(c).data() == old(c).data(), final(c).wf(),
            r is Ok <==> (old(c).rest().len() >= ES() && fe_dec(old(c).rest().take(ES())) is Some),
            r is Ok ==> r->Ok_0 == fe_dec(old(c).rest().take(ES()))->Some_0 && final(c).pos() == old(c).pos() + ES(),
{ unimplemented!() }
pub uninterp spec fn seed_dec(chunk: Seq<u8>) -> SeedT;           // a seed is SS raw bytes: every chunk decodes
#[verifier::external_body]
fn seed_decode(c: &mut Cur) -> (r: Result<SeedT, CodecError>)
    requires old(c).wf(),
    ensures final(c).data() == old(c).data(), final(c).wf(),
            r is Ok <==> old(c).rest().len() >= SS(),
            r is Ok ==> r->Ok_0 == seed_dec(old(c).rest().take(SS())) && final(c).pos() == old(c).pos() + SS(),
{ unimplemented!() }
pub struct Prio3VerifyState { pub joint_rand_seed: Option<SeedT>, pub verifiers_len: usize }
// the k-th ES-byte chunk after position p
pub open spec fn chunk_at(d: Seq<u8>, p: int, k: int) -> Seq<u8> { d.subrange(p + k * ES(), p + (k + 1) * ES()) }
""", 'decode-shims')
    u.item(F, ['ParameterizedDecode<Prio3VerifyState<F, SEED_SIZE>> for Prio3VerifierShare<F, SEED_SIZE>', 'fn decode_with_param'], ret='r', name='vshare_decode',
           attrs='#[verifier::loop_isolation(false)]',
           rewrites=[(r'decoding_parameter: &Prio3VerifyState<F, SEED_SIZE>', 'decoding_parameter: &Prio3VerifyState', 1), (r'bytes: &mut Cursor<&\[u8\]>', 'bytes: &mut Cur', 1),
                     (r'Result<Self, CodecError>', 'Result<Prio3VerifierShare, CodecError>', 1),
                     (r'let mut verifiers = Vec::with_capacity', 'let mut verifiers: Vec<Fe> = Vec::with_capacity', 1),
                     (r'for _ in 0\.\.decoding_parameter\.verifiers_len \{', 'for k_ in 0..decoding_parameter.verifiers_len {', 1),
                     (r'F::decode\(bytes\)\?', 'fe_decode(bytes)?', 1), (r'Seed::decode\(bytes\)\?', 'seed_decode(bytes)?', 1)],
           sig="""
requires
    old(bytes).wf(),
ensures
    final(bytes).data() == old(bytes).data(),
    // exactly verifiers_len elements (the count comes from the verify state, not from the wire), then a seed exactly when the state holds one
    r is Ok ==> r->Ok_0.verifiers@.len() == decoding_parameter.verifiers_len
        && (forall|k: int| 0 <= k < decoding_parameter.verifiers_len ==> fe_dec(#[trigger] chunk_at(old(bytes).data(), old(bytes).pos(), k)) == Some(r->Ok_0.verifiers@[k]))
        && (r->Ok_0.joint_rand_part is Some <==> decoding_parameter.joint_rand_seed is Some)
        && final(bytes).pos() == old(bytes).pos() + decoding_parameter.verifiers_len * ES() + (if decoding_parameter.joint_rand_seed is Some { SS() } else { 0 }),
    // too few bytes: an error
    old(bytes).rest().len() < decoding_parameter.verifiers_len * ES() + (if decoding_parameter.joint_rand_seed is Some { SS() } else { 0 }) ==> r is Err,
""", loops={0: """
invariant
    bytes.wf(), bytes.data() == old(bytes).data(), bytes.pos() == old(bytes).pos() + k_ * ES(), verifiers@.len() == k_,
    forall|k: int| 0 <= k < k_ ==> fe_dec(#[trigger] chunk_at(old(bytes).data(), old(bytes).pos(), k)) == Some(verifiers@[k]),
"""}, before=[('for k_ in 0..decoding_parameter.verifiers_len', 'assert(0 * ES() == 0); axiom_elem_codec(arbitrary()); axiom_seed_codec(arbitrary());'), ('verifiers.push(', """
    assert((k_ + 1) * ES() == k_ * ES() + ES()) by (nonlinear_arith);
    assert(k_ * ES() + ES() <= decoding_parameter.verifiers_len * ES()) by (nonlinear_arith) requires k_ + 1 <= decoding_parameter.verifiers_len, ES() > 0;
    if bytes.rest().len() >= ES() { assert(bytes.rest().take(ES()) =~= chunk_at(old(bytes).data(), old(bytes).pos(), k_ as int)); }
""")])
    return u
