"""C01 — the remaining small pieces of the result pipeline (src/flp/types.rs) under contract (Verus, abstract field / F::Integer = u128):

  decode_result(data): Ok exactly for ONE element, the integer of that element
  Count::truncate / Histogram::truncate: Ok exactly when the input has input_len() elements, and then the input unchanged
  MultihotCountVec::truncate: Ok exactly when the input has input_len() elements, and then its first `length` elements (the encoded weight is cut off)
(the other truncates are in units range_int / l1_truncate; decode_result_vec maps the same conversion over a vector of the expected length)."""
from vunit import VUnit

T = 'src/flp/types.rs'
PRELUDE = '''
global size_of usize == 8;
use std::marker::PhantomData;
pub enum FlpError { Decode(String), Truncate(String), Other }
#[verifier::external_body]
fn fmt_opaque() -> String { String::new() }
#[verifier::external_body] #[derive(Clone, Copy)] pub struct Fe { _x: u64 }
pub uninterp spec fn int_of(e: Fe) -> u128;                       // F::Integer::from(element): the canonical residue (C09)
#[verifier::external_body]
fn integer_from(e: Fe) -> (r: u128) ensures r == int_of(e) { unimplemented!() }
// input[..n].to_vec()   [std semantics; panics when n exceeds the length]
#[verifier::external_body]
fn prefix_to_vec(input: &Vec<Fe>, n: usize) -> (r: Vec<Fe>) requires n <= input@.len() ensures r@ == input@.subrange(0, n as int) { unimplemented!() }
pub struct Count { pub _p: u8 }
impl Count { fn input_len(&self) -> (r: usize) ensures r == 1 { 1 } }
pub struct Histogram { pub length: usize, pub chunk_length: usize, pub gadget_calls: usize }
impl Histogram { fn input_len(&self) -> (r: usize) ensures r == self.length { self.length } }
pub struct MultihotCountVec { pub length: usize, pub bits_for_weight: usize }
impl MultihotCountVec {
    // input_len() == length + bits_for_weight (unit flp_lens); no overflow by construction (unit flp_new)
    #[verifier::external_body]
    fn input_len(&self) -> (r: usize) ensures r == self.length + self.bits_for_weight { unimplemented!() }
}
'''


def unit():
    u = VUnit('flp_small', 'decode_result; Count / Histogram / MultihotCountVec::truncate')
    u.raw(PRELUDE, 'abstract')
    u.item(T, ['fn decode_result'], ret='r', nth={0: 0},
           rewrites=[(r'<F: NttFriendlyFieldElement>', '', 1), (r'data: &\[F\]', 'data: &Vec<Fe>', 1), (r'Result<F::Integer, FlpError>', 'Result<u128, FlpError>', 1),
                     (r'"\.into\(\)', '".to_string()', '*'), (r'F::Integer::from\(data\[0\]\)', 'integer_from(data[0])', 1)],
           sig='ensures\n    r is Ok <==> data@.len() == 1,\n    r is Ok ==> r->Ok_0 == int_of(data@[0]),\n')
    for ty, hdr in (('Count', 'impl<F: NttFriendlyFieldElement> Type for Count<F>'), ('Histogram', 'impl<F, S> Type for Histogram<F, S>'), ('MultihotCountVec', 'impl<F, S> Type for MultihotCountVec<F, S>')):
        u.item('src/flp.rs', ['pub trait Flp', 'fn truncate_call_check'], ret='r', impl_header='impl ' + ty, name=ty + '_truncate_call_check',
               rewrites=[(r'input: &\[Self::Field\]', 'input: &Vec<Fe>', 1), (r'format!\((?:[^()]|\([^()]*\))*\)', 'fmt_opaque()', '*')],
               sig='ensures\n    r is Ok <==> input@.len() == self.input_len(),' if False else 'ensures\n    r is Ok <==> input@.len() == %s,' % {'Count': '1', 'Histogram': 'self.length', 'MultihotCountVec': 'self.length + self.bits_for_weight'}[ty])
        extra = [(r'input\[\.\.([^\]]*)\]\.to_vec\(\)', r'prefix_to_vec(&input, \1)', 1)] if ty == 'MultihotCountVec' else []
        u.item(T, [hdr, 'fn truncate'], ret='r', impl_header='impl ' + ty, name=ty + '_truncate',
               rewrites=[(r'Vec<F>', 'Vec<Fe>', '*'), (r'Vec<Self::Field>', 'Vec<Fe>', '*'), (r'self\.truncate_call_check\(', 'self.%s_truncate_call_check(' % ty, 1)] + extra,
               sig={'Count': 'ensures\n    r is Ok <==> input@.len() == 1,\n    r is Ok ==> r->Ok_0@ == input@,\n',
                    'Histogram': 'ensures\n    r is Ok <==> input@.len() == self.length,\n    r is Ok ==> r->Ok_0@ == input@,\n',
                    'MultihotCountVec': 'requires\n    self.length + self.bits_for_weight <= usize::MAX,\nensures\n    r is Ok <==> input@.len() == self.length + self.bits_for_weight,\n    // the encoded weight is cut off: exactly the first `length` coordinates\n    r is Ok ==> r->Ok_0@ == input@.subrange(0, self.length as int),\n'}[ty])
    return u
