"""C05/C02 — L1BoundSum::valid (src/flp/types/l1boundsum.rs) under contract (Verus), over the contracts of parallel_sum_range_checks (unit range_checks)
and decode_range_checked_int (unit range_int), for ANY measurement length and bit width:

    Ok(v) ==> v == [range_check, norm_check] with range_check over the WHOLE encoded input and
              norm_check == sum_{c != measurement_len} value(chunk c) - value(chunk measurement_len)          (mod p)
    where chunk c is the c-th run of `bits` elements and value() the range-checked integer decoding: every chunk is decoded exactly once, the chunk at
    index measurement_len (the claimed norm) is subtracted, every other chunk is added."""
from fe_common import FE_PRELUDE
import range_checks
import multihot_valid
from vunit import VUnit

T = 'src/flp/types/l1boundsum.rs'
EXTRA = '''
pub struct L1BoundSum { pub measurement_len: usize, pub bits: usize, pub chunk_length: usize, pub last_weight_field: Fe }
pub uninterp spec fn l1_call_check_ok(h: L1BoundSum, input: Seq<Fe>, jr: Seq<Fe>) -> bool;
impl L1BoundSum {
    #[verifier::external_body]
    fn valid_call_check(&self, input: &Vec<Fe>, joint_rand: &Vec<Fe>) -> (r: Result<(), FlpError>) ensures r is Ok <==> l1_call_check_ok(*self, input@, joint_rand@) { unimplemented!() }
}
// signed sum of the chunk values: chunk `m` is subtracted, the others added
pub open spec fn norm_sum(input: Seq<Fe>, bits: int, lw: Fe, m: int, c: int) -> int decreases c
{ if c <= 0 { 0 } else { norm_sum(input, bits, lw, m, c - 1) + (if c - 1 == m { -rc_val(chunk_of(input, bits, c - 1), lw) } else { rc_val(chunk_of(input, bits, c - 1), lw) }) } }
pub open spec fn obs_sum(input: Seq<Fe>, bits: int, lw: Fe, m: int, c: int) -> int decreases c
{ if c <= 0 { 0 } else { obs_sum(input, bits, lw, m, c - 1) + (if c - 1 == m { 0 } else { rc_val(chunk_of(input, bits, c - 1), lw) }) } }
pub open spec fn clm_sum(input: Seq<Fe>, bits: int, lw: Fe, m: int, c: int) -> int decreases c
{ if c <= 0 { 0 } else { clm_sum(input, bits, lw, m, c - 1) + (if c - 1 == m { rc_val(chunk_of(input, bits, c - 1), lw) } else { 0 }) } }
proof fn lemma_norm_split(input: Seq<Fe>, bits: int, lw: Fe, m: int, c: int)
    ensures norm_sum(input, bits, lw, m, c) == obs_sum(input, bits, lw, m, c) - clm_sum(input, bits, lw, m, c)
    decreases c
{ if c > 0 { lemma_norm_split(input, bits, lw, m, c - 1); } }
'''


def unit():
    u = VUnit('l1bound_valid', 'L1BoundSum::valid: range check over the whole input + (sum of all entry values - claimed norm)')
    u.raw('global size_of usize == 8;\n' + FE_PRELUDE, 'abstract-field')
    u.raw(range_checks.PRELUDE, 'range-check-prelude')
    u.raw(range_checks.unit().parts[-1][2], 'range-post')
    # shims shared with unit multihot_valid (parallel_sum_range_checks, decode_range_checked_int, rc_val)
    ex = multihot_valid.EXTRA
    ex = ex[:ex.index('pub struct MultihotCountVec')]
    u.raw(ex, 'shared-shims')
    u.raw(EXTRA, 'l1bound-shims')
    u.item(T, ['impl<F, S> Flp for L1BoundSum<F, S>', 'fn valid'], ret='res', impl_header='impl L1BoundSum', attrs='#[verifier::loop_isolation(false)]',
           rewrites=[(r'gadget: &mut Vec<Box<dyn Gadget<F>>>', 'g0: &mut GadgetBox', 1), (r'&mut gadget\[0\]', 'g0', 1), (r'&\[F\]', '&Vec<Fe>', '*'), (r'Result<Vec<F>, FlpError>', 'Result<Vec<Fe>, FlpError>', 1),
                     (r'\bF::zero\(\)', 'fe_zero()', '*'),
                     (r'for \(index, elements\) in input\.chunks\(self\.bits\)\.enumerate\(\) \{', 'let nch_ = chunks_count(input.len(), self.bits); for index in 0..nch_ { let elements = &chunk_at(input, self.bits, index);', 1),   # E4i
                     (r'decode_range_checked_int\(elements, self\.last_weight_field\)\?', '(match decode_range_checked_int(elements, self.last_weight_field) { Ok(v) => v, Err(_) => { return Err(FlpError::Field); } })', 1)],
           sig='''
requires
    self.bits >= 1, self.chunk_length >= 1, 2 * self.chunk_length <= usize::MAX,        // established by L1BoundSum::new (unit flp_new)
ensures
    res is Ok ==> l1_call_check_ok(*self, input@, joint_randomness@) && res->Ok_0@.len() == 2
        && range_post(input@, joint_randomness@, self.chunk_length as int, num_shares as int, inv_spec(fe_mk(num_shares as int)), res->Ok_0@[0])
        && cong(fe_v(res->Ok_0@[1]), norm_sum(input@, self.bits as int, self.last_weight_field, self.measurement_len as int, (input@.len() + self.bits - 1) / (self.bits as int))),
''', loops={0: '''
invariant
    nch_ as int == (input@.len() + self.bits - 1) / (self.bits as int),
    cong(fe_v(observed_weight), obs_sum(input@, self.bits as int, self.last_weight_field, self.measurement_len as int, index as int)),
    cong(fe_v(claimed_weight), clm_sum(input@, self.bits as int, self.last_weight_field, self.measurement_len as int, index as int)),
'''}, before=[('let nch_', '''
    broadcast use axiom_fe_mk, axiom_fe_range;
    lemma_cong_refl(0);
'''), ('let elements = &chunk_at(', 'lemma_chunk_idx(input@.len() as int, self.bits as int, index as int);'),
              ('if index == self.measurement_len', '''
    broadcast use axiom_fe_mk;
    let cv = rc_val(chunk_of(input@, self.bits as int, index as int), self.last_weight_field);
    lemma_ops(claimed_weight, decoded); lemma_ops(observed_weight, decoded);
    lemma_cong_add(fe_v(claimed_weight), clm_sum(input@, self.bits as int, self.last_weight_field, self.measurement_len as int, index as int), fe_v(decoded), cv);
    lemma_cong_add(fe_v(observed_weight), obs_sum(input@, self.bits as int, self.last_weight_field, self.measurement_len as int, index as int), fe_v(decoded), cv);
    lemma_cong_trans(fe_v(fe_mk(fe_v(claimed_weight) + fe_v(decoded))), fe_v(claimed_weight) + fe_v(decoded), clm_sum(input@, self.bits as int, self.last_weight_field, self.measurement_len as int, index as int) + cv);
    lemma_cong_trans(fe_v(fe_mk(fe_v(observed_weight) + fe_v(decoded))), fe_v(observed_weight) + fe_v(decoded), obs_sum(input@, self.bits as int, self.last_weight_field, self.measurement_len as int, index as int) + cv);
'''), ('Ok(vec![range_check, observed_weight - claimed_weight])', '''
    broadcast use axiom_fe_mk;
    lemma_norm_split(input@, self.bits as int, self.last_weight_field, self.measurement_len as int, nch_ as int);
    lemma_ops(observed_weight, claimed_weight);
    lemma_cong_sub(fe_v(observed_weight), obs_sum(input@, self.bits as int, self.last_weight_field, self.measurement_len as int, nch_ as int), fe_v(claimed_weight), clm_sum(input@, self.bits as int, self.last_weight_field, self.measurement_len as int, nch_ as int));
    lemma_cong_trans(fe_v(fe_mk(fe_v(observed_weight) - fe_v(claimed_weight))), fe_v(observed_weight) - fe_v(claimed_weight), norm_sum(input@, self.bits as int, self.last_weight_field, self.measurement_len as int, nch_ as int));
''', -1)])
    return u
